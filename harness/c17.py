"""C17: equivalent stresses (pylife.stress.equistress) - rotation invariance, principal forms,
inequalities, signed variants, positive homogeneity, accessor = plain functions row by row.

A case is a small batch of stress tensors (rows of the six Voigt components) together with one
orthogonal matrix Q, one positive scale factor, an index layout and a column layout.  From it the harness
derives, deterministically, the rotated rows (Q S Q^T computed with numpy) and the scaled rows.
A `big` case is a batch of 257 - 300000 rows reproducible from a seed (one row per FE node is the real use).

Correspondence (K): for every base / rotated / scaled tensor the real functions are called on three
paths - scalar arguments, column (ndarray) arguments, the DataFrame accessor - and in further batch layouts
and float64 input forms, and every result is compared bit for bit (NaN = NaN, -0.0 = 0.0) with the compiled Lean
model, which receives the six components and the eigenvalue triple the real `principals` returned on the
same path.  Of a big case ~60-180 sampled rows (ends, block boundaries, random) go through K.  Python-int / int64 /
float32 input does not go through K: it is judged by the oracle with a tolerance (see RULE).

Oracle: the property's own relations on the real code, with eigenvalues obtained independently
(the constructing eigenvalues of the case, or numpy's general non-symmetric solver `eigvals`); on big cases
vectorised over ALL rows.  What the oracle does not judge (and why) is stated in ASSUMPTIONS: the sign across
rotation / scaling within SIGN_WINDOW of the tie set of the indicator, frames lacking a Voigt column, names of
the returned pandas objects, magnitudes outside 1e-140 .. 1e140.

Result dtype (oracle only, small cases whose `frames` flag is set; class result-dtype): on up to 3 rows given as float32 /
float64 / longdouble / int64 components - as ndarrays, as Series and through the accessor - mises, signed_mises_trace,
abs_max / max / min_principal and principals keep the floating dtype of the components, int64 gives float64
(`_other_dtypes` -> out['dtypes'], `_dtype_clause`).  Not run on big batches.

Finding classes that were open findings go through `Prop.known` (mises-int-overflow: assigned only when the
value equals the harness's own int64 wrap-around evaluation of the formula).  All three C17 classes (mises-cancellation:
a83078d, mises-int-overflow: 176ec02, result-dtype: df52b6f - a regression of 176ec02 found by the fix review) are fixed
in /repo and no C17 class is open, so that branch is inert: a hit is reported as a violation."""
import itertools
import json
import math
import random
from fractions import Fraction

import numpy as np
import pandas as pd

from . import core
from .core import Prop

SOURCES = ["src/pylife/stress/equistress.py", "src/pylife/stress/stresssignal.py"]
COLS = ["S11", "S22", "S33", "S12", "S13", "S23"]
# order of the values in one answer line of the driver op `equi`
FUNCS = ["mises", "signed_mises_trace", "signed_mises_abs_max_principal", "tresca", "signed_tresca_trace",
         "signed_tresca_abs_max_principal", "abs_max_principal", "max_principal", "min_principal"]
TOL = 1e-9          # relative to the magnitude of the tensor
# A sign indicator (trace, resp. w_max + w_min) whose magnitude is at most SIGN_WINDOW x max|s_ij| is "within rounding of
# the tie set": ~4500 ulp, above the rounding of a 3x3 symmetric eigen-solver and of the float rotation Q S Q^T, far below
# any tolerance-based tie rule.  Inside the window the SIGN is not compared across rotation / scaling (theorems
# signTrace_determined_iff / signAbsMax_determined_iff / signed*_jump_at_tie: it is not determined there); outside it is.
SIGN_WINDOW = 1e-12
EPS = 2.220446049250313e-16
F32 = 2e-5          # tolerance (x magnitude) for frames that hold float32 columns
_E = None


def eqs():
    global _E
    if _E is None:
        import pylife.stress.equistress as E
        _E = E
    return _E


# ------------------------------------------------------------------ tensors
def mat(row):
    s11, s22, s33, s12, s13, s23 = row
    return np.array([[s11, s12, s13], [s12, s22, s23], [s13, s23, s33]], dtype=float)


def voigt(m):
    return [float(m[0, 0]), float(m[1, 1]), float(m[2, 2]),
            float(0.5 * (m[0, 1] + m[1, 0])), float(0.5 * (m[0, 2] + m[2, 0])), float(0.5 * (m[1, 2] + m[2, 1]))]


def rotate(row, q):
    q = np.array(q, dtype=float).reshape(3, 3)
    return voigt(q @ mat(row) @ q.T)


def scale_of(row):
    return max(abs(x) for x in row)


def rand_orth(rng):
    a = np.array([[rng.gauss(0, 1) for _ in range(3)] for _ in range(3)])
    q, r = np.linalg.qr(a)
    q = q * np.sign(np.diag(r))
    if rng.random() < 0.7 and np.linalg.det(q) < 0:   # mostly proper rotations, some reflections
        q[:, 0] = -q[:, 0]
    return [float(x) for x in q.reshape(-1)]


EXACT_Q = [
    [1, 0, 0, 0, 1, 0, 0, 0, 1],
    [0, -1, 0, 1, 0, 0, 0, 0, 1],          # 90 deg about z
    [0, 0, 1, 1, 0, 0, 0, 1, 0],           # cyclic permutation of the axes
    [1, 0, 0, 0, 0, -1, 0, 1, 0],          # 90 deg about x
    [-1, 0, 0, 0, 1, 0, 0, 0, 1],          # reflection
    [0.6, -0.8, 0, 0.8, 0.6, 0, 0, 0, 1],  # 3-4-5 rotation about z
]

KINDS = ["random", "uniaxial", "pure_shear", "hydrostatic", "near_hydrostatic", "repeated", "zero", "plane",
         "integer", "deviatoric", "tie_absmax", "near_tie_absmax", "compressive", "magnitude", "tiny",
         "close_tie_absmax", "near_zero_trace", "extreme_magnitude", "big_integer"]
# float evaluation of the formulas is meaningful while squares neither overflow nor underflow: max|s_ij| in this window
# (ASSUMPTIONS); the generator stays inside it, scaled tensors included
MAG_LO, MAG_HI = 1e-140, 1e140


def gen_row(rng, kind):
    """-> (row, constructing eigenvalues or None)"""
    u = lambda a=10.0: rng.uniform(-a, a)
    if kind == "random":
        return [u() for _ in range(6)], None
    if kind == "uniaxial":
        r = [0.0] * 6
        r[rng.randrange(3)] = rng.choice([u(), float(rng.randint(-5, 5)), 3.3])
        return r, None
    if kind == "pure_shear":
        r = [0.0] * 6
        r[3 + rng.randrange(3)] = rng.choice([u(), float(rng.randint(-5, 5))])
        return r, None
    if kind == "hydrostatic":
        v = rng.choice([u(100.0), 3.3, 19.375884220223, 7.7, -3.3, 1e6 / 3, float(rng.randint(-9, 9)) / 10])
        return [v, v, v, 0.0, 0.0, 0.0], [v, v, v]
    if kind == "near_hydrostatic":
        v = u(100.0)
        d = 10.0 ** rng.randint(-9, -1)
        return [v + d * u(1), v + d * u(1), v + d * u(1), d * u(1), d * u(1), d * u(1)], None
    if kind == "repeated":      # two equal eigenvalues, rotated into a general position
        a, b = u(), u()
        lam = sorted([a, a, b])
        q = np.array(rand_orth(rng)).reshape(3, 3)
        return voigt(q @ np.diag(lam) @ q.T), lam
    if kind == "zero":
        return [0.0] * 6, [0.0, 0.0, 0.0]
    if kind == "plane":
        return [u(), u(), 0.0, u(), 0.0, 0.0], None
    if kind == "integer":
        return [float(rng.randint(-3, 3)) for _ in range(6)], None
    if kind == "deviatoric":    # trace exactly zero in floating point: the `+1 for a zero indicator` rule
        a, b = float(rng.randint(-8, 8)), float(rng.randint(-8, 8))
        return [a, b, -(a + b), float(rng.randint(-3, 3)), float(rng.randint(-3, 3)), float(rng.randint(-3, 3))], None
    if kind == "tie_absmax":    # |w_min| = |w_max| exactly: diagonal / axis-permuted, dyadic values
        a = float(rng.randint(0, 6)) / 2
        m = rng.choice([0.0, a / 2, -a / 2, a, -a])
        lam = [-a, m, a]
        perm = rng.sample(range(3), 3)
        d = [lam[perm[0]], lam[perm[1]], lam[perm[2]]]
        return d + [0.0, 0.0, 0.0], sorted(lam)
    if kind == "near_tie_absmax":   # |w_min| and |w_max| differ by a relative gap of 1e-7 .. 1e-3 (far above rounding)
        a = abs(u()) + 0.5
        d = 10.0 ** rng.uniform(-7, -3)
        lam = sorted(rng.choice([[-a * (1 + d), u(0.4), a], [-a, u(0.4), a * (1 + d)]]))
        q = np.array(rand_orth(rng)).reshape(3, 3)
        return voigt(q @ np.diag(lam) @ q.T), lam
    if kind == "tiny":              # every eigenvalue far below 1e-8: absolute tolerances in the code would show
        f = 10.0 ** rng.randint(-14, -9)
        lam = sorted([-abs(u()) - 10.0, u(5.0), abs(u(5.0))]) if rng.random() < 0.5 else sorted([u(), u(), u()])
        lam = [f * x for x in lam]
        q = np.array(rand_orth(rng)).reshape(3, 3)
        return voigt(q @ np.diag(lam) @ q.T), lam
    if kind == "compressive":   # negative eigenvalue of largest magnitude
        lam = sorted([-abs(u()) - 10.0, u(5.0), abs(u(5.0))])
        q = np.array(rand_orth(rng)).reshape(3, 3)
        return voigt(q @ np.diag(lam) @ q.T), lam
    if kind == "magnitude":
        f = 10.0 ** rng.randint(-6, 8)
        return [f * u(1.0) for _ in range(6)], None
    if kind == "close_tie_absmax":  # |w_min| and |w_max| differ by a relative gap of 1e-11 .. 1e-8: outside SIGN_WINDOW, inside
        a = abs(u()) + 0.5          # every tolerance a tie rule with `isclose` would use -> the sign is still determined
        d = 10.0 ** rng.uniform(-11, -8)
        lam = sorted(rng.choice([[-a * (1 + d), u(0.4), a], [-a, u(0.4), a * (1 + d)]]))
        if rng.random() < 0.3:      # axis-aligned: the eigenvalues are the diagonal entries themselves
            perm = rng.sample(range(3), 3)
            return [lam[perm[0]], lam[perm[1]], lam[perm[2]], 0.0, 0.0, 0.0], lam
        q = np.array(rand_orth(rng)).reshape(3, 3)
        return voigt(q @ np.diag(lam) @ q.T), lam
    if kind == "near_zero_trace":   # |trace| = 1e-11 .. 1e-6 of the magnitude: the sign of the trace is still determined
        a, b = float(rng.randint(-8, 8)), float(rng.randint(-8, 8))
        t = rng.choice([-1.0, 1.0]) * 10.0 ** rng.uniform(-11, -6) * 8.0
        return [a + t, b, -(a + b), u(3.0), u(3.0), u(3.0)], None
    if kind == "extreme_magnitude":  # far from 1, still inside [MAG_LO, MAG_HI] after the scale factor
        f = 10.0 ** rng.choice([rng.randint(-125, -20), rng.randint(20, 125)])
        r = [f * u(1.0) for _ in range(6)]
        r[rng.randrange(6)] = f * rng.choice([-1.0, 1.0]) * rng.uniform(0.5, 1.0)
        return r, None
    if kind == "big_integer":       # integer-valued components of 1e6 .. 4e9 (stresses in Pa written as integers)
        m = int(10.0 ** rng.uniform(6.0, 9.6))
        r = [float(rng.randint(-m, m)) for _ in range(6)]
        if rng.random() < 0.3:
            r = [r[0], 0.0, 0.0, 0.0, 0.0, 0.0] if rng.random() < 0.5 else [0.0, 0.0, 0.0, r[3], 0.0, 0.0]
        return r, None
    raise ValueError(kind)


# ------------------------------------------------------------------ calling the real code
def _f(x):
    return float(np.asarray(x, dtype=float))


def call_scalar(row):
    E = eqs()
    w = [float(x) for x in E.principals(*row)]
    return w, [_f(getattr(E, f)(*row)) for f in FUNCS]


def call_column(rows):
    E = eqs()
    cols = [np.array([r[i] for r in rows], dtype=float) for i in range(6)]
    w = np.asarray(E.principals(*cols), dtype=float)
    vals = [np.asarray(getattr(E, f)(*cols), dtype=float) for f in FUNCS]
    return [[float(x) for x in w[i]] for i in range(len(rows))], [[float(v[i]) for v in vals] for i in range(len(rows))]


def make_index(kind, n):
    if kind == "range":
        return pd.RangeIndex(n)
    if kind == "reversed":
        return pd.Index(list(range(n - 1, -1, -1)))
    if kind == "offset":
        return pd.Index([7 + 3 * i for i in range(n)])
    if kind == "string":
        return pd.Index([f"n{i}" for i in range(n)])
    if kind == "multi":
        return pd.MultiIndex.from_tuples([(i // 2, i % 2) for i in range(n)], names=["element_id", "node_id"])
    if kind == "duplicate":     # repeated labels (several results per node): rows are identified by position
        return pd.Index([i // 2 for i in range(n)])
    raise ValueError(kind)


# column layouts of the frames handed to the accessor: the six Voigt columns in any order, other columns anywhere
CANONICAL = COLS + ["other"]
EXTRA_VALUES = {"other": 1.0, "S1": 11.0, "S111": -7.0, "S21": 5.0, "s11": 3.0, "S12_x": 2.5, "node": "n", "T": 300.0}
COLUMN_ORDERS = [
    ["S11", "S22", "S33", "S12", "S23", "S13"],     # swap inside the shear block
    ["S11", "S22", "S33", "S13", "S12", "S23"],
    ["S11", "S22", "S33", "S23", "S13", "S12"],
    ["S12", "S13", "S23", "S11", "S22", "S33"],     # shear first
    ["S23", "S13", "S12", "S33", "S22", "S11"],     # reversed
    ["S22", "S11", "S33", "S12", "S13", "S23"],     # swap inside the normal block
    ["S33", "S22", "S11", "S12", "S13", "S23"],
    ["S11", "S12", "S13", "S22", "S23", "S33"],     # row-major upper triangle: normal / shear mixed
    ["S12", "S22", "S33", "S11", "S13", "S23"],     # one normal / shear mix-up
    ["S11", "S22", "S23", "S12", "S13", "S33"],
]


def gen_colorder(rng):
    r = rng.random()
    if r < 0.15:
        order = list(COLS)
    elif r < 0.75:
        order = list(rng.choice(COLUMN_ORDERS))
    else:
        order = rng.sample(COLS, 6)
    extras = rng.sample(sorted(EXTRA_VALUES), rng.choice([0, 0, 1, 2, 3]))
    for e in extras:
        order.insert(rng.choice([0, len(order), rng.randrange(len(order) + 1)]), e)
    return order


def frame(rows, index_kind, colorder=None, extra=False, dtype=None):
    """DataFrame of the tensors; `colorder` = column names in frame order (Voigt columns and extra columns);
    `dtype` = dtype of the six Voigt columns (default float64)"""
    if colorder is None:
        colorder = CANONICAL if extra else COLS
    rows = np.asarray(rows, dtype=float).reshape(-1, 6)
    data = {}
    for c in colorder:
        if c in COLS:
            col = rows[:, COLS.index(c)].copy()
            data[c] = col if dtype is None else col.astype(dtype)
        else:
            data[c] = [EXTRA_VALUES[c]] * len(rows)
    return pd.DataFrame(data, index=make_index(index_kind, len(rows)), columns=list(colorder))


PRINCIPAL_NAMES = ["min_principal", "med_principal", "max_principal"]


def accessor_arrays(df, notes=None):
    """All accessor methods on the frame `df` -> (w (n,3), values (n,9), problems).  A problem = the result cannot be
    related to the rows of the frame (length / index differ).  Names of the returned Series / columns are not part of the
    property: a deviation goes to `notes` (counted in the evidence), never to the verdict."""
    acc = df.equistress
    problems = []
    n = len(df)
    pr = acc.principals()
    if not hasattr(pr, "index") or len(pr) != n:
        raise ValueError(f"principals() returned {type(pr).__name__} of length {len(pr) if hasattr(pr, '__len__') else '?'} for a frame of {n} rows")
    if not pr.index.equals(df.index):
        problems.append("principals(): index differs from the frame's index")
    if isinstance(pr, pd.DataFrame) and all(c in pr.columns for c in PRINCIPAL_NAMES):
        if list(pr.columns) != PRINCIPAL_NAMES and notes is not None:
            notes["principals_column_order"] = notes.get("principals_column_order", 0) + 1
        w = pr[PRINCIPAL_NAMES].to_numpy(dtype=float)
    else:                                   # other names: take the three columns in the order given
        if notes is not None:
            notes["principals_column_names"] = notes.get("principals_column_names", 0) + 1
        w = np.asarray(pr, dtype=float)
    if w.shape != (n, 3):
        raise ValueError(f"principals() has shape {w.shape} for a frame of {n} rows")
    vals = np.empty((n, len(FUNCS)))
    for k, f in enumerate(FUNCS):
        s = getattr(acc, f)()
        if not hasattr(s, "index") or len(s) != n:
            raise ValueError(f"{f}() returned {type(s).__name__} of length {len(s) if hasattr(s, '__len__') else '?'} for a frame of {n} rows")
        if not s.index.equals(df.index):
            problems.append(f"{f}(): index differs from the frame's index")
        if getattr(s, "name", f) != f and notes is not None:
            notes["series_name"] = notes.get("series_name", 0) + 1
        vals[:, k] = np.asarray(s, dtype=float).reshape(n)
    return w, vals, problems


def accessor_values(df, notes=None):
    w, vals, problems = accessor_arrays(df, notes)
    return [[float(x) for x in w[i]] for i in range(len(df))], [[float(x) for x in vals[i]] for i in range(len(df))], problems


def call_accessor(rows, index_kind, colorder=None, notes=None):
    return accessor_values(frame(rows, index_kind, colorder or CANONICAL), notes)


def _rowwise(w, vals, n):
    """results of a call with n-row arguments of any layout -> per-row lists; the shapes must hold n rows"""
    w = np.asarray(w, dtype=float)
    if w.size != 3 * n:
        raise ValueError(f"principals has shape {w.shape} for {n} rows")
    w = w.reshape(n, 3)
    out = []
    for v in vals:
        v = np.asarray(v, dtype=float)
        if v.size != n:
            raise ValueError(f"result has shape {v.shape} for {n} rows")
        out.append(v.reshape(n))
    return [[float(x) for x in w[i]] for i in range(n)], [[float(v[i]) for v in out] for i in range(n)]


def call_with(cols, n):
    E = eqs()
    return _rowwise(E.principals(*cols), [getattr(E, f)(*cols) for f in FUNCS], n)


def call_series(rows, index_kind):
    """plain functions with pandas Series arguments, the usual call `mises(df.S11, df.S22, ...)`"""
    df = frame(rows, index_kind, COLS)
    return call_with([df[c] for c in COLS], len(rows))


def call_column_vectors(rows):
    """plain functions with (n, 1) arrays (column vectors)"""
    return call_with([np.array([[r[i]] for r in rows], dtype=float) for i in range(6)], len(rows))


def call_int_columns(rows):
    """plain functions with int64 arrays (the rows are integer valued)"""
    return call_with([np.array([int(r[i]) for r in rows], dtype=np.int64) for i in range(6)], len(rows))


def call_lists(rows):
    """plain functions with python lists (one entry per row) as arguments"""
    E = eqs()
    cols = [[r[i] for r in rows] for i in range(6)]
    w = np.asarray(E.principals(*cols), dtype=float).reshape(len(rows), 3)
    vals = [np.asarray(getattr(E, f)(*cols), dtype=float).reshape(len(rows)) for f in FUNCS]
    return [[float(x) for x in w[i]] for i in range(len(rows))], [[float(v[i]) for v in vals] for i in range(len(rows))]


def same(a, b):
    return a == b or (a != a and b != b)


LAST_DIGITS = 8 * 2.0 ** -52          # correspondence: deviations up to 8 ulp of the tensor's magnitude are counted, not reported


# ------------------------------------------------------------------ reference values (oracle side)
def ref_eigs(row, lam=None):
    """ascending eigenvalues, not via eigvalsh: the constructing values, or the general solver"""
    if lam is not None:
        return sorted(float(x) for x in lam)
    return sorted(float(x) for x in np.linalg.eigvals(mat(row)).real)


def sos_mises(row):
    s11, s22, s33, s12, s13, s23 = row
    return math.sqrt(0.5 * ((s11 - s22) ** 2 + (s22 - s33) ** 2 + (s33 - s11) ** 2) + 3.0 * (s12 ** 2 + s13 ** 2 + s23 ** 2))


def expanded_mises(row):
    """the formula of the unrepaired code (finding F-13), evaluated as the code evaluates it"""
    s11, s22, s33, s12, s13, s23 = row
    r = s11 ** 2 + s22 ** 2 + s33 ** 2 - s11 * s22 - s11 * s33 - s22 * s33 + 3 * (s12 ** 2 + s13 ** 2 + s23 ** 2)
    return math.sqrt(r) if r >= 0 else math.nan


def is_cancellation(row, code_mises):
    """True iff the code's Mises value is what the expanded polynomial gives in floating point AND that is
    NaN / away from the well-conditioned sum-of-squares evaluation: the failure class of finding F-13."""
    if not same(abs(code_mises), expanded_mises(row)):
        return False
    return code_mises != code_mises or abs(abs(code_mises) - sos_mises(row)) > 0.25 * TOL * scale_of(row)


def principal_mises(l):
    return math.sqrt(0.5 * ((l[0] - l[1]) ** 2 + (l[1] - l[2]) ** 2 + (l[2] - l[0]) ** 2))


def trace_sign(row):
    """-> (s, sure): s = +1.0 / -1.0 = sign of the floating-point sum s11 + s22 + s33 (+1 at 0), the documented indicator;
    sure = False when the exact (rational) sum of the three doubles has another sign (or is zero / non-zero differently):
    then rounding of the sum decided and either sign is accepted."""
    tr = row[0] + row[1] + row[2]
    s = 1.0 if tr >= 0 else -1.0
    if tr != 0 and abs(tr) > 8 * EPS * max(abs(row[0]), abs(row[1]), abs(row[2])):
        return s, True
    ex = Fraction(row[0]) + Fraction(row[1]) + Fraction(row[2])
    return s, (ex > 0) == (tr > 0) and (ex < 0) == (tr < 0)


def is_integral(row, bound=2.0 ** 53):
    return all(x == int(x) and abs(x) < bound for x in row)


def int64_mises(row):
    """`mises` as the code evaluates it when the components arrive as int64 (python ints / integer arrays): differences,
    squares and sums wrap around modulo 2**64.  -> (value, wrapped?)"""
    a, b, c, d, e, f = (int(x) for x in row)
    wrapped = [False]

    def w(x):
        y = (x + 2 ** 63) % 2 ** 64 - 2 ** 63
        if y != x:
            wrapped[0] = True
        return y
    sq = lambda x: w(x * x)
    p = w(w(sq(w(a - b)) + sq(w(b - c))) + sq(w(c - a)))
    q = w(3 * w(w(sq(d) + sq(e)) + sq(f)))
    r = 0.5 * float(p) + float(q)
    return (math.sqrt(r) if r >= 0 else math.nan), wrapped[0]


# ------------------------------------------------------------------ result dtype (precision of the input is kept)
# Functions whose result has the floating dtype of the components (as in the original code and again since df52b6f;
# 176ec02 had made them float64): float32 stays float32.  The
# Tresca family accumulates in `np.zeros(...)` and the abs-max sign is `sgn + int array`, i.e. float64 whatever the input:
# tresca, signed_tresca_*, signed_mises_abs_max_principal are recorded, not judged.
KEEPS_DTYPE = ["mises", "signed_mises_trace", "abs_max_principal", "max_principal", "min_principal", "principals"]
WIDENS = ["tresca", "signed_tresca_trace", "signed_tresca_abs_max_principal", "signed_mises_abs_max_principal"]
LONGDOUBLE_FUNCS = ["mises", "signed_mises_trace"]      # the others go through LAPACK, which has no extended precision
HAS_LONGDOUBLE = np.finfo(np.longdouble).eps < np.finfo(np.float64).eps


def _dtype_names(x):
    """dtype name(s) of a result: ndarray / numpy scalar / Series -> [name]; DataFrame -> the names of its columns"""
    if isinstance(x, pd.DataFrame):
        return sorted({str(np.dtype(t)) for t in x.dtypes})
    return [str(np.asarray(x).dtype)] if not hasattr(x, "dtype") else [str(np.dtype(x.dtype))]


def result_dtypes(rows, dtype, index_kind, colorder, funcs):
    """-> [(path, function, [result dtype names])] of the plain functions with ndarray / Series arguments and of the accessor,
    for components of `dtype`"""
    E = eqs()
    a = np.asarray(rows, dtype=float).reshape(-1, 6).astype(dtype)
    cols = [a[:, i].copy() for i in range(6)]
    idx = make_index(index_kind, len(a))
    ser = [pd.Series(c, index=idx) for c in cols]
    data = {}
    for c in colorder:
        data[c] = cols[COLS.index(c)] if c in COLS else [EXTRA_VALUES[c]] * len(a)
    df = pd.DataFrame(data, index=idx, columns=list(colorder))
    out = []
    for f in funcs:
        out.append(("ndarray arguments", f, _dtype_names(getattr(E, f)(*cols))))
        out.append(("pandas Series arguments", f, _dtype_names(getattr(E, f)(*ser))))
        out.append(("accessor df.equistress", f, _dtype_names(getattr(df.equistress, f)())))
    return out


def longdouble_mises(rows):
    """mises of longdouble components through the real code, and the harness's own extended-precision evaluation"""
    a = np.asarray(rows, dtype=float).reshape(-1, 6).astype(np.longdouble)
    a = a * (1 + np.longdouble(2) ** -60)      # not representable in double: a detour through float64 shows
    got = np.asarray(eqs().mises(*[a[:, i].copy() for i in range(6)]))
    ref = np.sqrt(((a[:, 0] - a[:, 1]) ** 2 + (a[:, 1] - a[:, 2]) ** 2 + (a[:, 2] - a[:, 0]) ** 2) / 2
                  + 3 * (a[:, 3] ** 2 + a[:, 4] ** 2 + a[:, 5] ** 2))
    return a, got, ref


# ------------------------------------------------------------------ large batches (vectorised)
BIG_KINDS = [k for k in KINDS if k not in ("extreme_magnitude", "big_integer")]


def big_rows(seed, n):
    """n tensors, reproducible from the seed: mostly random, every ~7th one of the special kinds"""
    r = random.Random(seed)
    rows = []
    for _ in range(n):
        if r.random() < 0.85:
            rows.append([r.uniform(-10.0, 10.0) for _ in range(6)])
        else:
            rows.append(gen_row(r, r.choice(BIG_KINDS))[0])
    return np.array(rows, dtype=float)


def mats(a):
    m = np.empty((len(a), 3, 3))
    m[:, 0, 0], m[:, 1, 1], m[:, 2, 2] = a[:, 0], a[:, 1], a[:, 2]
    m[:, 0, 1] = m[:, 1, 0] = a[:, 3]
    m[:, 0, 2] = m[:, 2, 0] = a[:, 4]
    m[:, 1, 2] = m[:, 2, 1] = a[:, 5]
    return m


def rotate_all(a, q):
    q = np.array(q, dtype=float).reshape(3, 3)
    m = np.einsum("ij,njk,lk->nil", q, mats(a), q)
    return np.stack([m[:, 0, 0], m[:, 1, 1], m[:, 2, 2], 0.5 * (m[:, 0, 1] + m[:, 1, 0]),
                     0.5 * (m[:, 0, 2] + m[:, 2, 0]), 0.5 * (m[:, 1, 2] + m[:, 2, 1])], axis=1)


def vsame(a, b):
    return (a == b) | (np.isnan(a) & np.isnan(b))


class C17(Prop):
    ID = "C17"
    SOURCES = SOURCES
    LEAN_MODULES = ["Proofs.C17", "Proofs.BridgeC17"]
    THEOREMS = ["PylifeVerif.C17." + t for t in [
        "misesRadicandExpanded_eq_sum_of_squares", "misesRadicandExpanded_nonneg", "misesExpanded_eq_mises",
        "mises_sq_eq_invariants", "mises_eq_sqrt_invariants", "mises_rotation_invariant",
        "eigTriple_exists", "eigTriple_rotation_invariant", "eigTriple_are_eigenvalues", "mises_eq_principal_form",
        "tresca_eq_max_sub_min", "tresca_def", "maxPrincipal_def", "minPrincipal_def", "absMaxPrincipal_def",
        "principalMises_le_tresca_le", "mises_le_tresca_le",
        "signTrace_def", "signAbsMax_def",
        "signedMisesTrace_def", "signedTrescaTrace_def", "signedMisesAbsMax_def", "signedTrescaAbsMax_def",
        "signed_zero_indicator",
        # the tie set of the sign indicators: where the sign is (not) determined
        "signTrace_stable", "signAbsMax_stable", "hydroShift_invariants", "signedTrace_jump_at_tie",
        "signedAbsMax_jump_at_tie", "signTrace_determined_iff", "signAbsMax_determined_iff",
        "mises_smul", "eigTriple_smul", "principal_functions_smul", "signed_functions_smul",
        "equistress_positively_homogeneous",
        "equistress_rotation_invariant", "accessor_rowwise"]] + [
        "PylifeVerif.Bridge.mises_eq"]      # generated (translated) mises = hand model
    PARTIAL = {
        "PylifeVerif.C17.accessor_rowwise":
            "says only that the MODEL of the accessor is a row-wise map (List.map restated); that the pandas accessor is that "
            "map - the six Voigt columns looked up by name, rows kept in order, index kept - is glue: tested (correspondence "
            "and oracle over column permutations, extra columns, 6 index kinds, 300 - 70000 row frames, thorough tier 257 - 300000), "
            "not proved",
    }
    RULE = ("case = (1-6 stress tensors of 19 kinds incl. uniaxial, pure shear, hydrostatic, near-hydrostatic, repeated "
            "eigenvalues, zero, zero trace, |w_min| = |w_max|, |w_min| ~ |w_max| (relative gap 1e-11 .. 1e-3), trace ~ 0, "
            "magnitudes 1e-125 .. 1e125, integer valued up to 4e9; one orthogonal Q (exact or random, proper or reflection); "
            "one positive scale factor; index layout (6 kinds incl. duplicate labels); column layout of the frame = the six Voigt columns "
            "in canonical / permuted order with 0-3 other columns anywhere); every base / rotated / scaled tensor is evaluated on the scalar, "
            "column and accessor path and in further batch layouts and input forms (alone as a column of length 1, columns of length 2 and 3, "
            "next to 1-4 all-zero rows, as a one-row frame df.iloc[[i]], (n,1) arrays, pandas Series arguments) and all 9 function values "
            "are compared bit for bit "
            "with the Lean model fed with the eigenvalues `principals` returned; python-int arguments, int64 columns and int64 / "
            "float32 frames do not reach the model: the oracle compares them with the float64 result of the same tensor (integer "
            "input: bit for bit while max|s_ij| < 2^20, else within 1e-9 x magnitude; float32: within 2e-5 x magnitude, magnitudes "
            "only for the signed variants and abs_max_principal); enumerated scope: all 729 tensors with components in {-1,0,1} in batches of 9 rows "
            "with one (thorough: each) of the 6 exact orthogonal matrices; plus per run large batches of 300 - 70000 "
            "(thorough: 257 - 300000) rows reproducible from a seed: column and accessor path on all rows (vectorised relations, "
            "independent eigenvalues), ~60-180 sampled rows incl. block boundaries and the last rows through the scalar path and "
            "the model; result dtype (oracle only, small cases with frames, not on big batches): up to 3 rows as float32 / float64 / "
            "longdouble / int64 components given as ndarray, Series and accessor - dtype kept by mises, signed_mises_trace, abs_max / max / "
            "min_principal, principals (longdouble: mises, signed_mises_trace only), int64 gives float64 from all functions (class result-dtype); "
            "non-trivial = at least one non-zero tensor; distinct by case")
    ASSUMPTIONS = [
        "numpy.linalg.eigvalsh is modelled by its contract (IsEigTriple: ascending roots of the characteristic polynomial, "
        "proved to exist, to be unique, rotation invariant and to scale with the tensor); the eigenvalue based model "
        "functions take the triple returned by the real `principals` as input; the oracle checks that triple against "
        "independently obtained eigenvalues to 1e-9 x tensor magnitude",
        "theorems are over the reals; the floating-point evaluation of the same expressions is tied by bit-exact "
        "correspondence (only + - x / sqrt, abs, comparisons are involved) and the oracle's tolerance 1e-9 x magnitude",
        "SIGN ACROSS ROTATION / SCALING ON THE TIE SET IS OUTSIDE THE FLOATING-POINT CLAIM: over the reals every function, the "
        "signed variants and abs_max_principal included, is invariant on every tensor, pure shear and zero-trace tensors "
        "included (equistress_rotation_invariant).  The signed variants jump by twice their magnitude where their indicator "
        "(trace, resp. w_max + w_min) is zero, and the rotated tensor Q S Q^T handed to the code carries rounding, i.e. is a "
        "neighbour of the exact rotation: theorems signTrace_determined_iff / signAbsMax_determined_iff (the sign is the same "
        "on all neighbours iff the indicator is non-zero), signTrace_stable / signAbsMax_stable (margin 3 delta resp. 2 delta) "
        "and signedTrace_jump_at_tie / signedAbsMax_jump_at_tie (an arbitrarily small hydrostatic pressure flips the sign at "
        "unchanged Mises / Tresca) delimit it.  Observed on the original and the current code: signed_tresca_abs_max_principal(0,0,0,5,0,0) = "
        "+10, but -10 in ~40 % of randomly rotated frames.  No evaluation order removes this (a tolerance-based tie rule only moves "
        "the jump), so it is not recorded as a defect.  The oracle therefore compares the sign of a signed variant / of "
        "abs_max_principal between a tensor and its rotated / scaled image only if |indicator| > 1e-12 x max|s_ij| (~4500 ulp); "
        "inside that window magnitudes are compared and the comparison is counted (distribution.sign_comparisons).  "
        "On each single tensor the documented sign is always checked: sign of the floating-point sum s11+s22+s33 (either sign "
        "only if the exact sum of the three doubles disagrees with the rounded one), + for an exactly zero indicator",
        "magnitude window: in double precision the statements are claimed for 1e-140 <= max|s_ij| <= 1e140 (the generator covers "
        "1e-134 .. 1e129); outside, the squares in `mises` overflow / underflow (mises(1e160,0,0,0,0,0) = inf, mises(1e-170,..) = 0) "
        "while Tresca stays finite, so homogeneity and Mises <= Tresca fail there - stated, not checked",
        "input forms: python floats / ints, lists, 1-D and (n,1) ndarrays, pandas Series, frames with float64 / int64 / float32 "
        "Voigt columns.  2-D component arrays (n,m) with m > 1 are outside the quantifier (`scalar or column input`): there "
        "`principals` returns the batch axes transposed, (m,n,3) - observed, not judged.  float32 frames are evaluated by numpy in "
        "single precision: compared with 2e-5 x magnitude, for 1e-12 <= max|s_ij| <= 1e12 only",
        "result dtype (requested by the review of fix 176ec02, repaired by /repo df52b6f; the property text is silent on it): the result keeps the floating "
        "dtype of the components - float32 -> float32, float64 -> float64, longdouble -> longdouble with extended-precision values "
        "(mises, signed_mises_trace) - for mises, signed_mises_trace, abs_max / max / min_principal and principals, on the ndarray, "
        "Series and accessor path; int64 components give float64 from every function.  tresca, signed_tresca_* (np.zeros accumulator) "
        "and signed_mises_abs_max_principal (sign + integer array) return float64 for float32 input as well - in the original code, after "
        "176ec02 and after df52b6f: recorded (distribution.result_dtypes), not judged.  longdouble components are given to mises and "
        "signed_mises_trace only: the eigenvalue based functions raise TypeError in LAPACK (numpy.linalg has no extended precision).  "
        "Not exercised: float16, complex, bool, unsigned, object and string components and numpy float32 SCALAR arguments.  Class "
        "result-dtype (fixed by df52b6f)",
        "a frame that lacks one of the six Voigt columns is not a stress tensor: whether the accessor refuses it is not part of "
        "the property (counted in distribution.reduced_frame, no verdict); names of returned Series / columns likewise (distribution.notes)",
        "model `mises` is the repaired sum-of-squares formula (/repo commit a83078d); over the reals it equals the expanded "
        "formula of the unrepaired code (theorem misesExpanded_eq_mises) and the definition translated from the current "
        "source (Generated.mises, theorem Bridge.mises_eq).  Since df52b6f the source begins with `np.asarray(x) * 1.0` for each "
        "component - it promotes integer, unsigned and bool kinds to float64 and leaves floating kinds alone (176ec02 had converted "
        "everything to float64) - and writes every square as np.square; the translator renders this as `s * 1.0` and `x * x`, and "
        "Bridge.mises_eq removes the factor 1.0 over the reals.  The hand model has no such factor (identity on float64 input; integer "
        "input is judged by the oracle only), and Generated.mises is never run at Float: the Float side of the correspondence is the hand model",
        "pandas accessor registration / DataFrame column access are glue, checked by K and the oracle only",
    ]

    # tie T (DESIGN 1.1): lean/Generated/<name>.lean are regenerated from the current python source before the build;
    # Proofs.BridgeC17 proves them equal to the hand model the property theorems are about
    TRANSLATED = ["Equistress"]

    def setup(self, log):
        import os
        import sys
        tdir = os.path.join(core.VERIF, "translate")
        sys.path.insert(0, tdir)
        try:
            import translate as T
            ok, msg = T.run_modules(self.TRANSLATED, core.REPO, core.LEAN)
        except Exception as e:      # the translator itself is broken: every bridge obligation counts as broken
            ok, msg = False, f"translator crashed: {type(e).__name__}: {e}"
            for n in self.TRANSLATED:
                with open(os.path.join(core.LEAN, "Generated", n + "Status.lean"), "w") as f:
                    f.write('#eval (throw (IO.userError "translator crashed") : IO Unit)\n')
        finally:
            sys.path.remove(tdir)
        self.stats["translator"] = msg
        log(("translator: " + msg) if ok else ("TRANSLATOR FAILED (broken proof obligation): " + msg))

    def __init__(self):
        self.exhaustive = False
        self._cache = {}
        self.stats = {"cases": 0, "tensors": 0, "by_kind": {}, "q_kind": {}, "index_kind": {}, "factor_log10": {},
                      "neg_trace": 0, "zero_trace": 0, "neg_absmax": 0, "absmax_indicator_in_sign_window": 0,
                      "trace_sign_decided_by_rounding": 0,
                      "sign_comparisons": {"compared": 0, "magnitude_only_trace": 0, "magnitude_only_abs_max": 0},
                      "magnitude_log10": {}, "reduced_frame": {}, "notes": {}, "big_batches": {}, "big_rows": 0,
                      "max_batch_rows": 0, "input_forms": {}, "result_dtypes": {}}

    # -------------------------------------------------------------- generation
    def generate(self, rng, tier):
        n_cases = 1300 if tier == "quick" else 12000
        # every kind x every exact rotation once (single row), then random batches
        for kind in KINDS:
            for q in EXACT_Q:
                row, lam = gen_row(rng, kind)
                yield self._case(rng, [row], [lam], [kind], [float(x) for x in q], "exact", frames=True)
        # large batches: one row per FE node is the real use; a size dependent path (chunking, a threshold) shows only here
        sizes = [(300, True), (1000, True), (5000, True), (70000, False)]
        if tier != "quick":
            sizes += [(257, True), (2048, True), (20000, True), (300000, False)]
        for n, derived in sizes:
            q, qk = rand_orth(rng), "random"
            c = self._case(rng, [], [], ["big"], q, qk, frames=False)
            c["big"] = {"n": n, "seed": rng.randrange(1 << 30), "derived": derived}
            yield c
        # enumerated scope: every tensor with components in {-1, 0, 1} (729 tensors; many exact ties of the
        # sign indicators and repeated eigenvalues), in batches of 9 rows, with the exact rotations
        small = [[float(x) for x in t] for t in itertools.product([-1, 0, 1], repeat=6)]
        qs = EXACT_Q if tier != "quick" else None
        for b in range(0, len(small), 9):
            rows = small[b:b + 9]
            for q in (qs if qs is not None else [EXACT_Q[(b // 9) % len(EXACT_Q)]]):
                yield self._case(rng, rows, [None] * len(rows), ["enumerated"] * len(rows), [float(x) for x in q], "exact",
                                 frames=False)
        self.stats["exhaustive_scope_small_tensors"] = ("all 729 tensors with components in {-1,0,1} x " +
                                                        ("one" if qs is None else "all 6") + " exact orthogonal matrices")
        for _ in range(n_cases):
            n = rng.choice([1, 1, 2, 3, 6])
            kinds = [rng.choice(KINDS) for _ in range(n)]
            rows, lams = [], []
            for k in kinds:
                r, l = gen_row(rng, k)
                rows.append(r)
                lams.append(l)
            if rng.random() < 0.25:
                q, qk = [float(x) for x in rng.choice(EXACT_Q)], "exact"
            else:
                q, qk = rand_orth(rng), "random"
            yield self._case(rng, rows, lams, kinds, q, qk)

    def _case(self, rng, rows, lams, kinds, q, qk, frames=None):
        factor = rng.choice([2.0, 0.5, 3.7, 1e-3, 1e4, 1e-9, rng.uniform(0.1, 10.0)])
        idx = rng.choice(["range", "reversed", "offset", "string", "multi", "duplicate"])
        return {"rows": rows, "lam": lams, "kinds": kinds, "q": q, "q_kind": qk, "factor": factor, "index": idx,
                "drop": rng.choice(COLS), "pad": rng.choice([1, 2, 3, 4]),
                "frames": frames if frames is not None else rng.random() < 0.25,
                "colorder": gen_colorder(rng)}

    # -------------------------------------------------------------- derived tensors
    @staticmethod
    def tensors(case):
        """[(tag, row)] base, rotated and scaled rows, in a fixed order"""
        base = [[float(x) for x in r] for r in case["rows"]]
        rot = [rotate(r, case["q"]) for r in base]
        sc = [[case["factor"] * x for x in r] for r in base]
        return base, rot, sc

    def _evaluate(self, case):
        """Real code on all paths; cached per case (correspondence and oracle share it)."""
        key = id(case)
        hit = self._cache.get(key)
        if hit is not None and hit[0] is case:      # the case object is kept alive, so its id is not reused
            return hit[1]
        out = {"error": None, "notes": {}}
        try:
            if case.get("big"):
                self._evaluate_big(case, out)
            else:
                self._evaluate_small(case, out)
        except Exception as e:
            if core._involves_implementation(e):    # the real code raised on valid input
                out["error"] = (f"the implementation raised on valid input: {type(e).__name__}: {e}", "raises-on-valid-input")
            elif core._harness_side(e):
                raise
            else:   # raised here while digesting what the implementation returned (changed shape / type / None)
                out["error"] = (f"the implementation's result cannot be interpreted: {type(e).__name__}: {e}", "unexpected-result")
        if len(self._cache) > 50000:
            self._cache.clear()
        self._cache[key] = (case, out)
        return out

    def _evaluate_small(self, case, out):
        base, rot, sc = self.tensors(case)
        allrows = base + rot + sc
        out.update(rows=allrows, n=len(base))
        out["scalar"] = [call_scalar(r) for r in allrows]
        cw, cv = call_column(allrows)
        out["column"] = list(zip(cw, cv))
        aw, av, problems = call_accessor(allrows, case["index"], case.get("colorder"), out["notes"])
        out["accessor"] = list(zip(aw, av))
        out["problems"] = problems
        out["layouts"] = self._layouts(case, allrows, len(base), out)
        self._other_dtypes(case, allrows, out)

    def _layouts(self, case, allrows, n, out):
        """The same tensors in other batch layouts / input forms: every result must be the number the tensor gets on its own.
        -> [(label, tensor index or None for a zero padding row, row, w, vals)]"""
        lay = []
        # every tensor alone as a column of length 1 (one-element lists, the style of the repository's tests)
        for i, r in enumerate(allrows):
            w, v = call_lists([r])
            lay.append(("column of length 1 (one-element lists)", i, r, w[0], v[0]))
        # columns of length 2 and 3 (prefixes of the full column)
        for m in (2, 3):
            w, v = call_column(allrows[:m])
            for i in range(m):
                lay.append((f"column of length {m} (first {m} tensors of the case)", i, allrows[i], w[i], v[i]))
        # (n, 1) arrays
        w, v = call_column_vectors(allrows)
        for i, r in enumerate(allrows):
            lay.append((f"arguments of shape ({len(allrows)}, 1)", i, r, w[i], v[i]))
        # a loaded row followed by / preceded by zero rows
        pad = int(case.get("pad", 2))
        zero = [0.0] * 6
        for i in range(n):
            for label, rows, pos in ((f"column: the tensor followed by {pad} all-zero rows", [allrows[i]] + [zero] * pad, 0),
                                     (f"column: {pad} all-zero rows followed by the tensor", [zero] * pad + [allrows[i]], pad)):
                w, v = call_column(rows)
                for j in range(len(rows)):
                    lay.append((label, i if j == pos else None, rows[j], w[j], v[j]))
        # every base row of the frame evaluated alone as a one-row frame (df.iloc[[i]]) through the accessor
        # (pandas is slow: in a quarter of the random cases, for at most two rows)
        if not case.get("frames", True):
            return lay
        # pandas Series as arguments, the usual call mises(df.S11, df.S22, ...)
        w, v = call_series(allrows, case["index"])
        for i, r in enumerate(allrows):
            lay.append(("pandas Series arguments", i, r, w[i], v[i]))
        df = frame(allrows, case["index"], case.get("colorder") or CANONICAL)
        for i in sorted({0, pad % n}):
            one = df.iloc[[i]]
            w, v, problems = accessor_values(one, out["notes"])
            out["problems"] = out["problems"] + [f"one-row frame df.iloc[[{i}]]: {p}" for p in problems]
            lay.append((f"accessor on the one-row frame df.iloc[[{i}]]", i, allrows[i], w[0], v[0]))
        # the padded layout through the accessor as well (first base row only)
        w, v, problems = accessor_values(frame([allrows[0]] + [zero] * pad, case["index"], case.get("colorder") or CANONICAL),
                                         out["notes"])
        out["problems"] = out["problems"] + [f"padded frame: {p}" for p in problems]
        for j in range(pad + 1):
            lay.append((f"accessor: frame with the tensor in row 0 followed by {pad} all-zero rows", 0 if j == 0 else None,
                        allrows[0] if j == 0 else zero, w[j], v[j]))
        # ONE frame object used repeatedly: evaluated, its Voigt columns overwritten in place with other tensors of the
        # case, evaluated again (the accessor returns the numbers of the frame as it is at the call; a result remembered
        # for the frame object - seeded change C17-m6 - gives the numbers of the earlier contents)
        live = frame([allrows[0]], case["index"], case.get("colorder") or CANONICAL)
        accessor_values(live, out["notes"])
        for i in [k for k in (len(allrows) - 1, pad % n) if k != 0][:2]:
            for c, x in zip(COLS, allrows[i]):
                live[c] = np.array([x], dtype=float) if (i + pad) % 2 else live[c] * 0.0 + x
            w, v, problems = accessor_values(live, out["notes"])
            out["problems"] = out["problems"] + [f"frame modified in place: {p}" for p in problems]
            lay.append(("accessor on a frame evaluated before and then overwritten in place with this tensor", i, allrows[i], w[0], v[0]))
        live.loc[:, COLS] = np.asarray([allrows[0]], dtype=float)
        w, v, problems = accessor_values(live, out["notes"])
        lay.append(("accessor on a frame overwritten in place (df.loc[:, cols] = values) with this tensor", 0, allrows[0], w[0], v[0]))
        return lay

    def _other_dtypes(self, case, allrows, out):
        """integer valued tensors as python ints / int64 columns / int64 frame; float32 frame.  These are compared with a
        tolerance (integer arithmetic is exact where float arithmetic rounds, float32 is single precision), so they are not
        fed to the bit-exact correspondence.  -> out['ints'] = [(label, i, values)], out['f32'] = (rows32, w, vals, plain),
        out['dtypes'] = ([(given dtype, expected result dtype, result_dtypes(...))], longdouble_mises(...) or None) for up to 3 rows
        (None when the case has no frames): what `_dtype_clause` judges"""
        E = eqs()
        n = out["n"]
        ints = []
        idx = [i for i, r in enumerate(allrows) if is_integral(r)]
        for i in idx:
            if i < n:       # python int arguments (the style of the repository's own tests): base rows
                ii = [int(x) for x in allrows[i]]
                ints.append(("python int arguments", i, [_f(getattr(E, f)(*ii)) for f in FUNCS]))
        if idx:
            _w, v = call_int_columns([allrows[i] for i in idx])
            ints += [("int64 ndarray arguments", i, v[k]) for k, i in enumerate(idx)]
            if case.get("frames", True) and max(abs(x) for i in idx for x in allrows[i]) < 2.0 ** 62:
                df = frame([allrows[i] for i in idx], case["index"], case.get("colorder") or CANONICAL, dtype=np.int64)
                _w, v, problems = accessor_values(df, out["notes"])
                out["problems"] = out["problems"] + [f"int64 frame: {p}" for p in problems]
                ints += [("accessor on a frame with int64 Voigt columns", i, v[k]) for k, i in enumerate(idx)]
        out["ints"] = ints
        out["f32"] = None
        if case.get("frames", True):
            sel = [r for r in allrows if 1e-12 <= scale_of(r) <= 1e12]
            if sel:
                df = frame(sel, case["index"], case.get("colorder") or CANONICAL, dtype=np.float32)
                w, v, problems = accessor_values(df, out["notes"])
                out["problems"] = out["problems"] + [f"float32 frame: {p}" for p in problems]
                rows32 = [[float(np.float32(x)) for x in r] for r in sel]
                _pw, pv = call_with([np.array([r[i] for r in sel], dtype=np.float32) for i in range(6)], len(sel))
                out["f32"] = (rows32, w, v, pv)
        # result dtypes for float32 / float64 / longdouble / int64 components on the ndarray, Series and accessor path
        out["dtypes"] = None
        if case.get("frames", True):
            sel = [r for r in allrows if 1e-12 <= scale_of(r) <= 1e12][:3] or [[1.0, 2.0, 3.0, 0.5, 0.25, 0.125]]
            ints_ = [[float(round(x)) for x in r] for r in sel if scale_of(r) < 1e6] or [[1.0, 2.0, 3.0, 0.0, 1.0, 0.0]]
            co = case.get("colorder") or CANONICAL
            dt = [("float32", "float32", result_dtypes(sel, np.float32, case["index"], co, KEEPS_DTYPE + WIDENS)),
                  ("float64", "float64", result_dtypes(sel, np.float64, case["index"], co, KEEPS_DTYPE + WIDENS)),
                  ("int64", "float64", result_dtypes(ints_, np.int64, case["index"], co, FUNCS + ["principals"]))]
            ld = None
            if HAS_LONGDOUBLE:
                dt.append(("longdouble", str(np.dtype(np.longdouble)),
                           result_dtypes(sel, np.longdouble, case["index"], co, LONGDOUBLE_FUNCS)))
                ld = longdouble_mises(sel)
            out["dtypes"] = (dt, ld)

    # ---- large batches
    @staticmethod
    def _sample(case, m, n):
        """row numbers that go through the scalar path and the model: the ends, block boundaries, random ones"""
        forced = {0, 1, n - 1, m - 1, m - 2, m - 3}
        k = 64
        while k < m:
            forced |= {k - 1, k, k + 1}
            k *= 2
        for blk in (100, 1000, 10000):
            forced |= {j for j in (blk - 1, blk, m - blk, m - blk - 1) if 0 <= j < m}
        r = random.Random(case["big"]["seed"] + 1)
        forced |= {r.randrange(m) for _ in range(30)}
        forced |= {m - 1 - r.randrange(min(m, 256)) for _ in range(6)}     # the tail of the batch
        return sorted(j for j in forced if 0 <= j < m)

    def _evaluate_big(self, case, out):
        b = case["big"]
        n = int(b["n"])
        base = big_rows(b["seed"], n)
        a = np.vstack([base, rotate_all(base, case["q"]), case["factor"] * base]) if b.get("derived", True) else base
        m = len(a)
        E = eqs()
        cols = [a[:, i].copy() for i in range(6)]
        cw = np.asarray(E.principals(*cols), dtype=float)
        if cw.shape != (m, 3):
            raise ValueError(f"principals has shape {cw.shape} for columns of {m} rows")
        cv = np.empty((m, len(FUNCS)))
        for k, f in enumerate(FUNCS):
            v = np.asarray(getattr(E, f)(*cols), dtype=float)
            if v.shape != (m,):
                raise ValueError(f"{f} has shape {v.shape} for columns of {m} rows")
            cv[:, k] = v
        aw, av, problems = accessor_arrays(frame(a, case["index"], case.get("colorder") or CANONICAL), out["notes"])
        sample = self._sample(case, m, n)
        if b.get("derived", True):      # a sampled base row brings its rotated and scaled image along
            sample = sorted(set(sample) | {j % n + k * n for j in sample for k in range(3)})
        out.update(big=True, a=a, n=n, m=m, cw=cw, cv=cv, aw=aw, av=av, problems=problems, sample=sample,
                   scalar={j: call_scalar([float(x) for x in a[j]]) for j in sample})

    def _entries(self, ev):
        """(label, row, w, vals) of every evaluation of the case, in the order of the protocol lines"""
        ent = []
        if ev.get("big"):
            m = ev["m"]
            for j in ev["sample"]:
                row = [float(x) for x in ev["a"][j]]
                ent.append((f"scalar path, row {j} of the batch of {m}", row) + tuple(ev["scalar"][j]))
                ent.append((f"column path, row {j} of {m}", row, [float(x) for x in ev["cw"][j]], [float(x) for x in ev["cv"][j]]))
                ent.append((f"accessor path, row {j} of {m}", row, [float(x) for x in ev["aw"][j]], [float(x) for x in ev["av"][j]]))
            return ent
        for path in ("scalar", "column", "accessor"):
            for i, (row, (w, vals)) in enumerate(zip(ev["rows"], ev[path])):
                ent.append((f"{path} path, tensor #{i}", row, w, vals))
        for label, i, row, w, vals in ev["layouts"]:
            ent.append((f"{label}, " + (f"tensor #{i}" if i is not None else "zero row"), row, w, vals))
        return ent

    # -------------------------------------------------------------- correspondence
    def model_lines(self, case):
        ev = self._evaluate(case)
        if ev["error"]:
            return ["equi " + " ".join(core.f2h(x) for x in [0.0] * 9)]
        return ["equi " + " ".join(core.f2h(x) for x in row + w) for _l, row, w, _v in self._entries(ev)]

    def impl_lines(self, case):
        ev = self._evaluate(case)
        if ev["error"]:
            return ["error " + ev["error"][0]]
        return [" ".join(core.f2h(x) for x in vals) for _l, _row, _w, vals in self._entries(ev)]

    def compare(self, case, model_out, impl_out):
        if len(model_out) != len(impl_out):
            return f"length {len(model_out)} vs {len(impl_out)}"
        ev = self._evaluate(case)
        labels = [e[0] for e in self._entries(ev)] if not ev["error"] else []
        for i, (a, b) in enumerate(zip(model_out, impl_out)):
            if b.startswith("error"):
                return f"implementation raised on valid input / returned something else than numbers per row: {b}"
            try:
                m = [core.h2f(x) for x in a.split()]
                p = [core.h2f(x) for x in b.split()]
            except Exception:
                return f"line {i}: model={a[:200]!r} impl={b[:200]!r}"
            scale = max([abs(x) for x in m[:len(FUNCS)] if x == x and abs(x) != math.inf] or [0.0])
            for k, f in enumerate(FUNCS):
                if not same(m[k], p[k]):
                    # The model mirrors the code's operation order, so the two normally agree bit for bit.  A deviation in the
                    # last digits (<= 8 ulp of the tensor's magnitude: what a reordered sum or an equivalent respelling of the
                    # arithmetic produces) is counted in the evidence and is no disagreement: every statement of C17 is about
                    # real numbers, and the defects the bit-exact comparison found (cancellation in the expanded Mises polynomial,
                    # int64 wrap-around) deviate by >= 1e-9 of the magnitude.
                    if m[k] == m[k] and p[k] == p[k] and abs(m[k] - p[k]) <= LAST_DIGITS * max(abs(m[k]), abs(p[k]), scale):
                        self.stats["last_digit_deviations"] = self.stats.get("last_digit_deviations", 0) + 1
                        continue
                    path = labels[i] if i < len(labels) else "?"
                    note = ""
                    if f.endswith("mises") or "mises" in f:
                        if same(abs(m[9]), abs(p[0])) and FUNCS[k] == "mises":
                            note = " (the implementation equals the model's UNREPAIRED expanded formula)"
                    return (f"{f} [{path}]: model={m[k]!r} impl={p[k]!r}{note}")
        return None

    def nontrivial(self, case, model_out):
        if case.get("big"):
            return json.dumps([case["big"], case["q"], case["factor"]], sort_keys=True)
        if all(x == 0 for r in case["rows"] for x in r):
            return None
        return json.dumps([case["rows"], case["q"], case["factor"]])

    # -------------------------------------------------------------- oracle
    def _bump(self, key, sub):
        d = self.stats.setdefault(key, {})
        d[sub] = d.get(sub, 0) + 1

    def oracle(self, case):
        st = self.stats
        st["cases"] += 1
        self._bump("q_kind", case.get("q_kind", "?"))
        self._bump("index_kind", case["index"])
        self._bump("factor_log10", str(int(math.floor(math.log10(case["factor"])))))
        for k in case.get("kinds", []):
            self._bump("by_kind", k)

        q = np.array(case["q"], dtype=float).reshape(3, 3)
        if np.max(np.abs(q.T @ q - np.eye(3))) > 1e-12:
            raise RuntimeError("harness: generator produced a non-orthogonal Q")   # infrastructure, not a verdict
        ev = self._evaluate(case)
        if ev["error"]:
            return ev["error"]
        for k, v in ev["notes"].items():
            st["notes"][k] = st["notes"].get(k, 0) + v
        ev["notes"].clear()
        colorder = case.get("colorder") or CANONICAL
        ck = ("canonical" if [c for c in colorder if c in COLS] == COLS else "permuted") + \
            ("+extra" if len(colorder) > 6 else "")
        self._bump("frame_column_layout", ck)
        for p in ev["problems"]:
            return (f"accessor: {p}", "accessor-glue")
        res = self._oracle_big(case, ev) if ev.get("big") else self._oracle_small(case, ev)
        if res is not None:
            return res
        self._reduced_frame(case, ev)
        return None

    def _reduced_frame(self, case, ev):
        """What the accessor does with a frame that lacks a Voigt column is recorded, not judged: such a frame is not a
        stress tensor, and the property says nothing about validation."""
        rows = ev["a"][:3] if ev.get("big") else ev["rows"][:ev["n"]]
        df = frame(rows, case["index"], case.get("colorder") or CANONICAL).drop(columns=[case.get("drop", "S23")])
        try:
            df.equistress
            self._bump("reduced_frame", "accepted")
        except Exception as e:
            self._bump("reduced_frame", "refused:" + type(e).__name__)

    # ---- (b) one tensor: finiteness, principal forms, inequalities, signs
    def _tensor_clause(self, row, w, v, lam):
        st = self.stats
        val = dict(zip(FUNCS, v))
        scale = scale_of(row)
        tol = TOL * scale
        e = int(math.floor(math.log10(scale))) if scale > 0 else None
        mk = "zero" if e is None else (str(e) if -10 <= e < 10 else f"{10 * (e // 10)}..{10 * (e // 10) + 9}")
        st["magnitude_log10"][mk] = st["magnitude_log10"].get(mk, 0) + 1
        if scale > 0 and not (MAG_LO <= scale <= MAG_HI):
            raise RuntimeError(f"harness: generator left the magnitude window: {scale!r}")
        pm = principal_mises(lam)
        m_ok = abs(sos_mises(row) - pm) <= tol
        for f in FUNCS:
            if not math.isfinite(val[f]):
                klass = "mises-cancellation" if ("mises" in f and m_ok and is_cancellation(row, val["mises"])) \
                    else "non-finite-result"
                return (f"{f}{tuple(row)} = {val[f]!r} on a finite symmetric tensor", klass)
        if not (w[0] <= w[1] <= w[2]) or max(abs(a - b) for a, b in zip(w, lam)) > tol:
            return (f"principals{tuple(row)} = {w}, eigenvalues are {lam}", "eigenvalues-wrong")
        if abs(val["mises"] - pm) > tol:
            klass = "mises-cancellation" if m_ok and is_cancellation(row, val["mises"]) else "mises-wrong"
            return (f"mises{tuple(row)} = {val['mises']!r}, principal form gives {pm!r} (tolerance {tol:.3g})", klass)
        if abs(val["tresca"] - (lam[2] - lam[0])) > tol:
            return (f"tresca{tuple(row)} = {val['tresca']!r}, w_max - w_min = {lam[2]-lam[0]!r}", "tresca-wrong")
        if abs(val["max_principal"] - lam[2]) > tol or abs(val["min_principal"] - lam[0]) > tol:
            return (f"max/min_principal{tuple(row)} = {val['max_principal']!r}/{val['min_principal']!r}, eigenvalues {lam}",
                    "principal-wrong")
        # absolute maximum principal: eigenvalue of largest magnitude with its sign
        am = val["abs_max_principal"]
        ind = lam[2] + lam[0]
        window = SIGN_WINDOW * scale
        if abs(ind) <= window:
            st["absmax_indicator_in_sign_window"] += 1
            ok = min(abs(am - lam[2]), abs(am - lam[0])) <= tol
            if w[2] + w[0] == 0 and am != w[2]:
                ok = False                                   # exact tie: the positive one (+1 for a zero indicator)
        else:
            ok = abs(am - (lam[2] if ind > 0 else lam[0])) <= tol
            if ind < 0:
                st["neg_absmax"] += 1
        if not ok or abs(abs(am) - max(abs(x) for x in lam)) > tol:
            return (f"abs_max_principal{tuple(row)} = {am!r}, eigenvalues {lam}", "absmax-wrong")
        # inequalities
        if val["mises"] > val["tresca"] * (1 + 1e-12) + tol or \
                val["tresca"] > 2.0 / math.sqrt(3.0) * val["mises"] * (1 + 1e-12) + tol:
            klass = "mises-cancellation" if m_ok and is_cancellation(row, val["mises"]) else "inequality-violated"
            return (f"Mises <= Tresca <= 2/sqrt(3) Mises violated on {tuple(row)}: mises={val['mises']!r} tresca={val['tresca']!r}",
                    klass)
        # signed variants: magnitude exactly that of the unsigned one; documented sign
        tr = row[0] + row[1] + row[2]
        if tr < 0:
            st["neg_trace"] += 1
        if tr == 0:
            st["zero_trace"] += 1
        s_tr, sure = trace_sign(row)
        if not sure:
            st["trace_sign_decided_by_rounding"] += 1
        for f, g in (("signed_mises_trace", "mises"), ("signed_tresca_trace", "tresca")):
            if not same(val[f], s_tr * val[g]) and (sure or not same(val[f], -s_tr * val[g])):
                return (f"{f}{tuple(row)} = {val[f]!r}, expected sign(trace={tr!r}; +1 at 0) x {g} = {s_tr * val[g]!r}",
                        "signed-trace-wrong")
        for f, g in (("signed_mises_abs_max_principal", "mises"), ("signed_tresca_abs_max_principal", "tresca")):
            if abs(val[f]) != val[g]:
                return (f"|{f}{tuple(row)}| = {abs(val[f])!r} differs from {g} = {val[g]!r}", "signed-absmax-wrong")
            if abs(ind) > window and val[g] > 0 and (val[f] > 0) != (ind > 0):
                return (f"{f}{tuple(row)} = {val[f]!r} has the wrong sign: eigenvalue of largest magnitude is "
                        f"{lam[2] if ind > 0 else lam[0]!r}", "signed-absmax-wrong")
            if w[2] + w[0] == 0 and val[f] != val[g]:
                return (f"{f}{tuple(row)} = {val[f]!r}: a zero indicator must give +{g}", "signed-absmax-wrong")
        return None

    # ---- (c) rotation invariance / positive homogeneity of one tensor against its image
    def _invariance_clause(self, what, fac, row_i, vals_i, row_j, vals_j, lam, q):
        st = self.stats["sign_comparisons"]
        base = dict(zip(FUNCS, vals_i))
        other = dict(zip(FUNCS, vals_j))
        scale = scale_of(row_i)
        tol = TOL * scale
        window = SIGN_WINDOW * scale
        tr = row_i[0] + row_i[1] + row_i[2]
        ind = lam[2] + lam[0]
        for f in FUNCS:
            a, b = fac * base[f], other[f]
            # The sign of a signed variant is not determined on the tie set of its indicator (theorems *_determined_iff): the image
            # handed to the code is a rounded neighbour of the exact image.  Within SIGN_WINDOW of the tie set magnitudes are compared.
            if "trace" in f or "abs_max" in f:
                if "trace" in f and abs(tr) <= window:
                    a, b = abs(a), abs(b)
                    st["magnitude_only_trace"] += 1
                elif "abs_max" in f and abs(ind) <= window:
                    a, b = abs(a), abs(b)
                    st["magnitude_only_abs_max"] += 1
                else:
                    st["compared"] += 1
            if not abs(a - b) <= fac * tol * 2:
                canc = "mises" in f and (is_cancellation(row_i, base["mises"]) or is_cancellation(row_j, other["mises"]))
                klass = "mises-cancellation" if canc else f"{what}-variant"
                return (f"{f} is not invariant under {what}: {f}{tuple(row_i)} = {base[f]!r}"
                        f"{'' if fac == 1.0 else f' (x {fac!r} = {a!r})'} but {f}{tuple(row_j)} = {other[f]!r}"
                        f" [Q = {q}]" if what == "rotation" else
                        f"{f} does not scale with the factor {fac!r}: {f}{tuple(row_i)} = {base[f]!r} "
                        f"but {f}{tuple(row_j)} = {other[f]!r}", klass)
        return None

    # ---- integer valued input (python ints, int64 columns, int64 frames)
    def _integer_clause(self, ev):
        rows = ev["rows"]
        for label, i, vi in ev.get("ints", []):
            self._bump("input_forms", label)
            row = rows[i]
            exp = ev["scalar"][i][1]
            exact = max(abs(x) for x in row) < 2.0 ** 20       # every intermediate is an exactly representable integer
            tol = TOL * scale_of(row)
            for k, f in enumerate(FUNCS):
                if same(vi[k], exp[k]) or (not exact and abs(vi[k] - exp[k]) <= tol):
                    continue
                ints = tuple(int(x) for x in row)
                desc = f"{f}{ints} = {vi[k]!r} with {label} but {exp[k]!r} with float arguments"
                klass = "int-vs-float-arguments"
                if "mises" in f:
                    repro, wrapped = int64_mises(row)
                    if wrapped and same(abs(vi[k]), repro):
                        klass = "mises-int-overflow"
                        desc += " (the squares / sums of the int64 components wrap around modulo 2**64)"
                if not self.known(klass, desc):
                    return (desc, klass)
        return None

    # ---- frames with float32 Voigt columns (single precision)
    def _float32_clause(self, ev):
        if not ev.get("f32"):
            return None
        self._bump("input_forms", "accessor on a frame with float32 Voigt columns")
        rows32, w, v, pv = ev["f32"]
        _cw, cv = call_column(rows32)
        for i, row in enumerate(rows32):
            tol = F32 * scale_of(row)
            for k, f in enumerate(FUNCS):
                got, plain, ref = v[i][k], pv[i][k], cv[i][k]
                if "signed" in f or "abs_max" in f:     # single precision moves the tie set: magnitudes only
                    got, plain, ref = abs(got), abs(plain), abs(ref)
                if not abs(got - plain) <= tol:
                    return (f"{f}: the accessor gives {v[i][k]!r} on a frame with float32 columns, the plain function with the same "
                            f"float32 columns {pv[i][k]!r} (row {tuple(row)})", "accessor-differs")
                if not abs(got - ref) <= tol:
                    return (f"{f}: {v[i][k]!r} on a frame with float32 columns, {cv[i][k]!r} in double precision for the "
                            f"same tensor {tuple(row)}", "float32-frame-wrong")
        return None

    # ---- the result keeps the precision of the components
    def _dtype_clause(self, ev):
        if not ev.get("dtypes"):
            return None
        dt, ld = ev["dtypes"]
        for given, expect, results in dt:
            for path, f, names in results:
                self._bump("result_dtypes", f"{given}->{'/'.join(names)}:{f}")
                if f in WIDENS and given != "int64":
                    continue                # float64 for every input (np.zeros accumulator / int sign array): recorded only
                if names != [expect]:
                    desc = (f"{f} of {given} components returns {'/'.join(names)} ({path}); expected {expect}: "
                            + ("integer components are evaluated in double precision" if given == "int64" else
                               "the result keeps the floating-point type of the components (single precision FE results stay "
                               "single precision, extended precision is not rounded to double)"))
                    if not self.known("result-dtype", desc):
                        return (desc, "result-dtype")
        if ld is not None:
            a, got, ref = ld
            tol = 16 * float(np.finfo(np.longdouble).eps) * np.abs(a).max(axis=1)
            bad = ~(np.abs(got.astype(np.longdouble) - ref) <= tol)
            if bad.any():
                j = int(np.argmax(bad))
                desc = (f"mises of longdouble components {tuple(str(x) for x in a[j])} = {got[j]!r}, extended precision evaluation "
                        f"gives {ref[j]!r}: the components were rounded to double on the way")
                if not self.known("result-dtype", desc):
                    return (desc, "result-dtype")
        return None

    def _oracle_small(self, case, ev):
        st = self.stats
        n = ev["n"]
        rows = ev["rows"]
        st["tensors"] += len(rows)
        lams = case.get("lam") or [None] * n
        c = case["factor"]
        colorder = case.get("colorder") or CANONICAL

        # (a) scalar = column = accessor, row by row, bit for bit
        named = lambda r: ", ".join(f"{c}={x!r}" for c, x in zip(COLS, r))
        for i in range(len(rows)):
            (ws, vs), (wc, vc), (wa, va) = ev["scalar"][i], ev["column"][i], ev["accessor"][i]
            for k, f in enumerate(FUNCS):
                if not (same(vs[k], vc[k]) and same(vs[k], va[k])):
                    return (f"{f}: plain function with scalars {vs[k]!r}, with columns {vc[k]!r}, but df.equistress.{f}() gives "
                            f"{va[k]!r} in row {i} ({named(rows[i])}) of a frame whose columns are {colorder}", "accessor-differs")
            if not all(same(a, b) and same(a, d) for a, b, d in zip(ws, wc, wa)):
                return (f"principals: plain function with scalars {ws}, with columns {wc}, but df.equistress.principals() gives "
                        f"{wa} in row {i} ({named(rows[i])}) of a frame whose columns are {colorder}", "accessor-differs")

        # (a'') row by row: the number a tensor gets must not depend on the batch / the input form it is evaluated in - alone as a
        # column of length 1, in columns of length 2 and 3, (n,1) arrays, Series, next to all-zero rows, as a one-row frame df.iloc[[i]]
        st["layout_evaluations"] = st.get("layout_evaluations", 0) + len(ev["layouts"])
        for label, i, row, w, v in ev["layouts"]:
            if i is None:
                if any(x != 0 for x in w) or any(x != 0 for x in v):
                    return (f"{label}: an all-zero row gets principals {w}, values {dict(zip(FUNCS, v))}", "batch-dependent")
                continue
            ws, vs = ev["scalar"][i]
            if not all(same(a, b) for a, b in zip(w, ws)):
                return (f"principals of the tensor {tuple(row)} depend on the batch: {label}: {w}; scalar call: {ws}; "
                        f"inside the full column of {len(rows)} rows: {ev['column'][i][0]}", "batch-dependent")
            for k, f in enumerate(FUNCS):
                if not same(v[k], vs[k]):
                    return (f"{f} of the tensor {tuple(row)} depends on the batch: {label}: {v[k]!r}; scalar call: {vs[k]!r}; "
                            f"inside the full column of {len(rows)} rows: {ev['column'][i][1][k]!r}; "
                            f"inside the full frame: {ev['accessor'][i][1][k]!r}", "batch-dependent")

        # (a') integer valued arguments / columns, float32 frames
        res = self._integer_clause(ev) or self._float32_clause(ev) or self._dtype_clause(ev)
        if res is not None:
            return res

        # (b) per tensor
        ref = []
        for i, row in enumerate(rows):
            if i < n:
                lam = ref_eigs(row, lams[i])
            elif i < 2 * n:
                lam = ref_eigs(row, lams[i - n])             # rotation keeps the eigenvalues
            else:
                lam = ref_eigs(row, None if lams[i - 2 * n] is None else [c * x for x in lams[i - 2 * n]])
            ref.append(lam)
            res = self._tensor_clause(row, ev["scalar"][i][0], ev["scalar"][i][1], lam)
            if res is not None:
                return res

        # (c) rotation invariance and positive homogeneity against the base tensor
        for i in range(n):
            for what, j, fac in (("rotation", n + i, 1.0), ("scaling", 2 * n + i, c)):
                res = self._invariance_clause(what, fac, rows[i], ev["scalar"][i][1], rows[j], ev["scalar"][j][1], ref[i], case["q"])
                if res is not None:
                    return res
        return None

    def _oracle_big(self, case, ev):
        """A large batch: column and accessor path on ALL rows against vectorised relations and independent eigenvalues;
        the sampled rows additionally through the scalar path and the complete per-tensor clauses."""
        st = self.stats
        a, n, m, cw, cv, aw, av = ev["a"], ev["n"], ev["m"], ev["cw"], ev["cv"], ev["aw"], ev["av"]
        self._bump("big_batches", str(n) + ("x3" if m == 3 * n else ""))
        st["big_rows"] += m
        st["max_batch_rows"] = max(st["max_batch_rows"], m)
        rowt = lambda j: tuple(float(x) for x in a[j])

        def alone(j, k=None):
            w, v = call_scalar([float(x) for x in a[j]])
            return w if k is None else v[k]

        def first(mask):
            return int(np.argmax(mask))

        # accessor = column, every row
        bad = ~vsame(av, cv)
        if bad.any():
            j = first(bad.any(axis=1))
            k = first(bad[j])
            return (f"{FUNCS[k]}: row {j} of {m} ({rowt(j)}): plain function with columns {cv[j, k]!r}, df.equistress.{FUNCS[k]}() "
                    f"{av[j, k]!r}, the tensor alone {alone(j, k)!r}", "accessor-differs")
        bad = ~vsame(aw, cw)
        if bad.any():
            j = first(bad.any(axis=1))
            return (f"principals: row {j} of {m} ({rowt(j)}): plain function with columns {list(cw[j])}, accessor {list(aw[j])}, "
                    f"the tensor alone {alone(j)}", "accessor-differs")
        # the sampled rows alone = inside the batch
        for j in ev["sample"]:
            ws, vs = ev["scalar"][j]
            if not all(same(x, float(y)) for x, y in zip(ws, cw[j])):
                return (f"principals of the tensor {rowt(j)} depend on the batch: alone {ws}; as row {j} of a column of {m} rows "
                        f"{[float(x) for x in cw[j]]}", "batch-dependent")
            for k, f in enumerate(FUNCS):
                if not same(vs[k], float(cv[j, k])):
                    return (f"{f} of the tensor {rowt(j)} depends on the batch: alone {vs[k]!r}; as row {j} of a column of {m} "
                            f"rows {float(cv[j, k])!r}", "batch-dependent")
        # every row: independent eigenvalues (general solver on the stack) and the vectorised relations
        scale = np.abs(a).max(axis=1)
        tol = TOL * scale
        ref = np.sort(np.linalg.eigvals(mats(a)).real, axis=1)
        val = {f: cv[:, k] for k, f in enumerate(FUNCS)}
        sos = np.sqrt(0.5 * ((a[:, 0] - a[:, 1]) ** 2 + (a[:, 1] - a[:, 2]) ** 2 + (a[:, 2] - a[:, 0]) ** 2)
                      + 3.0 * (a[:, 3] ** 2 + a[:, 4] ** 2 + a[:, 5] ** 2))
        ind = ref[:, 2] + ref[:, 0]
        decided = np.abs(ind) > SIGN_WINDOW * scale
        expect_am = np.where(ind > 0, ref[:, 2], ref[:, 0])
        trv = a[:, 0] + a[:, 1] + a[:, 2]
        tr_clear = np.abs(trv) > 8 * EPS * np.abs(a[:, :3]).max(axis=1)
        checks = [
            ("non-finite-result", "a non-finite value", ~(np.isfinite(cv).all(axis=1) & np.isfinite(cw).all(axis=1))),
            ("eigenvalues-wrong", "principals not ascending / not the eigenvalues",
             ~((cw[:, 0] <= cw[:, 1]) & (cw[:, 1] <= cw[:, 2]) & (np.abs(cw - ref).max(axis=1) <= tol))),
            ("mises-wrong", "mises differs from the sum-of-squares form", ~(np.abs(val["mises"] - sos) <= tol)),
            ("tresca-wrong", "tresca differs from w_max - w_min", ~(np.abs(val["tresca"] - (ref[:, 2] - ref[:, 0])) <= tol)),
            ("principal-wrong", "max/min_principal differ from the extreme eigenvalues",
             ~((np.abs(val["max_principal"] - ref[:, 2]) <= tol) & (np.abs(val["min_principal"] - ref[:, 0]) <= tol))),
            ("absmax-wrong", "abs_max_principal is not the eigenvalue of largest magnitude with its sign",
             ~((np.abs(np.abs(val["abs_max_principal"]) - np.maximum(np.abs(ref[:, 0]), np.abs(ref[:, 2]))) <= tol)
               & (~decided | (np.abs(val["abs_max_principal"] - expect_am) <= tol)))),
            ("signed-trace-wrong", "|signed_*_trace| differs from the unsigned value / sign is not that of the trace",
             ~((np.abs(val["signed_mises_trace"]) == val["mises"]) & (np.abs(val["signed_tresca_trace"]) == val["tresca"])
               & (~tr_clear | (val["tresca"] <= 0) | ((val["signed_tresca_trace"] > 0) == (trv > 0)))
               & (~tr_clear | (val["mises"] <= 0) | ((val["signed_mises_trace"] > 0) == (trv > 0))))),
            ("signed-absmax-wrong", "|signed_*_abs_max_principal| differs from the unsigned value / wrong sign",
             ~((np.abs(val["signed_mises_abs_max_principal"]) == val["mises"])
               & (np.abs(val["signed_tresca_abs_max_principal"]) == val["tresca"])
               & (~decided | (val["tresca"] <= 0) | ((val["signed_tresca_abs_max_principal"] > 0) == (ind > 0))))),
            ("inequality-violated", "Mises <= Tresca <= 2/sqrt(3) Mises violated",
             ~((val["mises"] <= val["tresca"] * (1 + 1e-12) + tol)
               & (val["tresca"] <= 2.0 / math.sqrt(3.0) * val["mises"] * (1 + 1e-12) + tol))),
        ]
        for klass, what, bad in checks:
            if bad.any():
                j = first(bad)
                return (f"{what}: row {j} of a column of {m} rows, tensor {rowt(j)}: principals {list(cw[j])}, "
                        f"{dict(zip(FUNCS, (float(x) for x in cv[j])))}; eigenvalues {list(ref[j])}; the same tensor evaluated alone: "
                        f"principals {alone(j)}, {dict(zip(FUNCS, call_scalar([float(x) for x in a[j]])[1]))}", klass)
        # the sampled rows: the complete per-tensor clauses, rotation / scaling against the image
        st["tensors"] += len(ev["sample"])
        for j in ev["sample"]:
            res = self._tensor_clause([float(x) for x in a[j]], [float(x) for x in cw[j]], [float(x) for x in cv[j]],
                                      [float(x) for x in ref[j]])
            if res is not None:
                return (f"row {j} of a column of {m} rows: " + res[0], res[1])
        if m == 3 * n:
            for i in (j for j in ev["sample"] if j < n):
                for what, j, fac in (("rotation", n + i, 1.0), ("scaling", 2 * n + i, case["factor"])):
                    res = self._invariance_clause(what, fac, [float(x) for x in a[i]], [float(x) for x in cv[i]],
                                                  [float(x) for x in a[j]], [float(x) for x in cv[j]],
                                                  [float(x) for x in ref[i]], case["q"])
                    if res is not None:
                        return res
        return None

    # -------------------------------------------------------------- shrinking
    def shrink(self, case, still_fails):
        cur = case
        if cur.get("big"):
            for n2 in (257, 300, 600, 1000, 3000, 10000):
                if n2 < cur["big"]["n"]:
                    c2 = dict(cur, big=dict(cur["big"], n=n2))
                    if still_fails(c2):
                        cur = c2
                        break
            if cur["big"].get("derived", True):
                c2 = dict(cur, big=dict(cur["big"], derived=False))
                if still_fails(c2):
                    cur = c2
            for patch in ({"index": "range"}, {"colorder": list(COLS)}):
                c2 = dict(cur, **patch)
                if still_fails(c2):
                    cur = c2
            return cur
        # single row
        if len(cur["rows"]) > 1:
            for i in range(len(cur["rows"])):
                c2 = dict(cur, rows=[cur["rows"][i]], lam=[(cur.get("lam") or [None] * len(cur["rows"]))[i]],
                          kinds=[cur["kinds"][i]] if cur.get("kinds") else [])
                if still_fails(c2):
                    cur = c2
                    break
        for patch in ({"q": [float(x) for x in EXACT_Q[0]], "q_kind": "exact"}, {"factor": 2.0}, {"index": "range"},
                      {"colorder": list(CANONICAL)},
                      {"colorder": [c for c in (cur.get("colorder") or CANONICAL) if c in COLS]}):
            c2 = dict(cur, **patch)
            if still_fails(c2):
                cur = c2
        # round the components
        for digits in (0, 1, 3):
            c2 = dict(cur, rows=[[round(x, digits) for x in r] for r in cur["rows"]], lam=[None] * len(cur["rows"]))
            if still_fails(c2):
                cur = c2
                break
        return cur
