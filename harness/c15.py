"""C15: failure probability = analytic load/strength overlap (pylife/strength/failure_probability.py).

Implementation side + generators + direct property oracle.  The Lean model is lean/Model/FailureProb.lean, its
protocol handler lean/Driver/FailureProb.lean (ops `c15.*`), the theorems lean/Proofs/C15.lean.

Tolerance (documented choice).  A failure probability is only meaningful RELATIVE to itself and to its complement:
1e-12 against 2e-12 is a factor of two in the expected number of failures, and 1 - 1e-12 against 1 - 2e-12 is the same
factor for the survivors.  Therefore `pf_close(got, pf, q)` demands

    |got - pf| <= rtol * pf        and        |got - pf| <= rtol * q + 4 * 2**-53        (q = 1 - pf evaluated as Phi(-z))

The additive 4 * 2**-53 on the complement side is the representation limit of a double close to one (the function
returns pf, not 1 - pf; at pf = 1 - 1e-12 one ulp of the result is already 1e-4 of the complement).  rtol = 1e-6 for the
property oracle (quadrature: scipy's quad is asked for 1e-10; six digits is what an engineering safety assessment can
use, and every defect seen so far is off by >= 1e-3), 1e-8 for the model/code correspondence of `pf_norm_load`
(quad's requested accuracy 1e-10 plus the conditioning of (log10 L - log10 S)/sigma for sigma down to 1e-4), 1e-11 for
`pf_simple_load` and the trapezoid sums (same formula on both sides, libm vs numpy ulps).
`pf_arbitrary_load` (a trapezoid sum of numbers close to one) cannot resolve its complement below its own O(h^2)
quadrature error, so "converges to the same value" is checked relative to pf only (rtol 1e-6 at the finest grid,
second-order envelope on the way)."""
import json
import math
import warnings

import numpy as np

from .core import Prop, f2h, h2f

SOURCES = ["src/pylife/strength/failure_probability.py"]

ZMAX = 7.0344         # Phi(-7.0344) = 1.0006e-12: the quantifier's range of failure probabilities
ULP1 = 2.0 ** -53
RT_ORACLE = 1e-6
ARB_LEVELS = 10       # grids with 250 * 2^k intervals per scale, k = 0..9
ARB_ENVELOPE = 0.25   # relative error of level k must stay below ARB_ENVELOPE * 4^-k (second order) or RT_ORACLE


def _fp():
    import pylife.strength.failure_probability as FP
    return FP


def Phi(z):
    """reference distribution function, relative accuracy in both tails (independent of scipy.stats)"""
    return 0.5 * math.erfc(-z / math.sqrt(2.0))


def zvalue(sm, ss, lm, ls):
    return (math.log10(lm) - math.log10(sm)) / math.sqrt(ls * ls + ss * ss)


def pf_close(got, pf, q, rtol):
    d = abs(got - pf)
    return d <= rtol * pf and d <= rtol * q + 4 * ULP1


def logu(rng, lo, hi):
    return 10.0 ** rng.uniform(math.log10(lo), math.log10(hi))


# ------------------------------------------------------------------ generators
def gen_scatters(rng):
    """(strength_std, load_std) with ratio load/strength log-uniform in [1e-3, 1e3] (incl. the end points), both within
    [1e-4, 30] decades so that the medians stay representable."""
    while True:
        m = rng.random()
        if m < 0.12:
            ratio = rng.choice([1e-3, 1e3, 1.0, 1e-2, 1e2])
        else:
            ratio = logu(rng, 1e-3, 1e3)
        ss = rng.choice([logu(rng, 1e-3, 0.5), logu(rng, 1e-4, 5.0), 0.05, 0.1])
        ls = ss * ratio
        if 1e-4 <= ls <= 30.0:
            return ss, ls


def gen_norm(rng, z=None, dyadic=None):
    ss, ls = gen_scatters(rng)
    sig = math.hypot(ls, ss)
    sm = rng.choice([logu(rng, 1e-2, 1e4), 100.0, 1.0])
    if dyadic is not None:
        # transition of the strength distribution exactly at a bisection point of the integration interval:
        # (s50 - l50)/ls = dyadic  (0 = equal medians)
        e = math.log10(sm) - dyadic * ls
    else:
        if z is None:
            m = rng.random()
            z = (rng.uniform(-ZMAX, ZMAX) if m < 0.6 else rng.choice([-ZMAX, ZMAX]) if m < 0.75
                 else rng.uniform(-ZMAX, -5.5) if m < 0.9 else rng.uniform(5.5, ZMAX))
        e = math.log10(sm) + z * sig
    if abs(e) > 290:
        return None
    lm = 10.0 ** e
    if abs(zvalue(sm, ss, lm, ls)) > ZMAX + 1e-4:
        return None
    return {"kind": "norm", "sm": sm, "ss": ss, "lm": lm, "ls": ls}


def gen_simple(rng):
    sm = rng.choice([logu(rng, 1e-2, 1e4), 100.0])
    ss = rng.choice([logu(rng, 1e-3, 0.5), 0.05, 5.0])
    loads = [sm] + [10.0 ** (math.log10(sm) + z * ss) for z in
                    [-ZMAX, ZMAX, -1.0, 1.0] + [rng.uniform(-ZMAX, ZMAX) for _ in range(5)]]
    return {"kind": "simple", "sm": sm, "ss": ss, "loads": loads}


def gen_limit(rng):
    sm = logu(rng, 1e-2, 1e4)
    ss = logu(rng, 1e-3, 0.5)
    z = rng.choice([rng.uniform(-ZMAX, ZMAX), -ZMAX, ZMAX, 0.0])
    lm = 10.0 ** (math.log10(sm) + z * ss)
    return {"kind": "limit", "sm": sm, "ss": ss, "lm": lm,
            "ratios": [1.0, 1e-1, 1e-2, 1e-3, 1e-4, 1e-5, 1e-6, 1e-8, 1e-12, 1e-20, 1e-30]}


def gen_arb(rng):
    c = None
    while c is None:
        c = gen_norm(rng)
    c["kind"] = "arb"
    return c


def gen_arbk(rng):
    """a short arbitrary node list for the model/code correspondence of the trapezoid sum"""
    sm = logu(rng, 1e-1, 1e3)
    ss = logu(rng, 1e-2, 0.5)
    n = rng.choice([0, 1, 2, 3, 5, 12, 40])
    x0 = math.log10(sm) + rng.uniform(-3, 1) * ss
    xs, x = [], x0
    for _ in range(n):
        xs.append(x)
        x += rng.choice([rng.uniform(0.0, 1.0) * ss, 0.25 * ss, 0.0 if rng.random() < 0.1 else 0.01 * ss])
    ps = [rng.choice([rng.uniform(0, 5), 0.0, 1.0]) for _ in xs]
    return {"kind": "arbk", "sm": sm, "ss": ss, "xs": xs, "ps": ps}


def arb_grid(l50, ls, s50, ss, n):
    """sample points of a refinement level: uniform over the load's +-16 sigma plus uniform over the strength's
    +-10 sigma (so that both scales are resolved whatever the scatter ratio is)"""
    a = l50 + ls * np.linspace(-16.0, 16.0, n + 1)
    b = s50 + ss * np.linspace(-10.0, 10.0, n + 1)
    b = b[(b > a[0]) & (b < a[-1])]
    return np.unique(np.concatenate([a, b]))


def norm_pdf(x, loc, scale):
    """the sampled log-normal density (in log10 space a normal density), computed here, not by the module under test"""
    t = (x - loc) / scale
    return np.exp(-0.5 * t * t) / (scale * math.sqrt(2.0 * math.pi))


class C15(Prop):
    ID = "C15"
    SOURCES = SOURCES
    LEAN_MODULES = ["Proofs.C15"]
    THEOREMS = [f"PylifeVerif.C15.{t}" for t in [
        "stdNormalCdf_isDistFn", "pf_in_unit_interval", "pf_mono_in_load", "pf_antitone_in_strength",
        "pf_zero_scatter_eq_simple_load", "pf_tends_to_simple_load",
        "overlap_integral_eq_closed_form", "overlap_integral_standardised", "pf_arbitrary_eq_trapezoidal_rule", "pf_arbitrary_converges_partial"
        ]]
    PARTIAL = {
        "PylifeVerif.C15.pf_arbitrary_converges_partial":
            "proved: on N uniform intervals of [a, b] pf_arbitrary_load is the composite trapezoidal rule of pdf * cdf_S, and for a "
            "twice continuously differentiable integrand with |f''| <= zeta its distance to the integral over [a, b] is at most "
            "(b-a)^3 zeta / (12 N^2), hence it converges.  NOT proved: that the sampled normal density times the Gaussian "
            "distribution function is C^2 with an explicit bound (smoothness of Phi is not derived from Mathlib's measure-theoretic "
            "definition), the truncation [a, b] -> whole line, and non-uniform sample points - measured per run by the "
            "refinement oracle (second-order envelope, 1e-6 relative at the finest grid).",
    }
    RULE = ("case = one of: norm (strength median/std, load median/std; scatter ratio 1e-3..1e3 incl. end points, z uniform in "
            "+-7.0344 i.e. pf in [1e-12, 1-1e-12], extra mass on both tails and on transitions lying exactly on bisection "
            "points of the integration interval, e.g. equal medians); simple (deterministic loads); limit (load scatter -> 0 "
            "sequence); arb (sampled log-normal density on a refinement sequence of grids); arbk (short arbitrary node "
            "lists).  Correspondence: compiled Lean model (Float, own Phi by series / continued fraction) vs real code, "
            "relative on pf AND on 1-pf (see module docstring).  Oracle (real code vs an independent erfc closed form): "
            "value, range [0,1], strict monotonicity in load / strength median, limit load_std -> 0 = pf_simple_load, "
            "convergence of pf_arbitrary_load.  Non-trivial = every case (distinct cases counted)")
    ASSUMPTIONS = [
        "C15: theorems are over the reals with Phi = distribution function of Mathlib's gaussianReal 0 1 (or any strictly "
        "increasing continuous function into (0,1) for range/monotonicity/limit); scipy.stats.norm.cdf/pdf/sf are assumed to be "
        "these functions (measured against the driver's own series/continued-fraction Phi and against math.erfc)",
        "C15: scipy.integrate.quad is modelled by the value of the integral (its contract); that it delivers it to 1e-6 relative "
        "over the whole parameter range is what the run measures - not proved",
        "C15: the default integration limits +-16 load_std are modelled as the whole line (neglected mass < 2*Phi(-16) = 1.3e-57); "
        "explicit lower_limit / upper_limit arguments are not part of the property and not modelled",
        "C15: admissible = medians and loads positive, strength_std > 0, load_std > 0 (load_std = 0 is NaN in the code; the limit "
        "statement is about load_std -> 0); scalar arguments (quad is scalar)",
        "C15: the model describes the REPAIRED pf_norm_load (tools/fixes/C15-pf-norm-load-relative-accuracy.diff): on the "
        "unrepaired code small failure probabilities are wrong by orders of magnitude (F-7) and the oracle reports them",
    ]

    def __init__(self):
        self.stats = {}
        self.exhaustive = False
        self._memo = {}

    def _count(self, key, n=1):
        self.stats[key] = self.stats.get(key, 0) + n

    # -------------------------------------------------------------- real code (memoised: K and oracle share calls)
    def pf_norm(self, sm, ss, lm, ls):
        key = (sm, ss, lm, ls)
        if key not in self._memo:
            with warnings.catch_warnings():
                warnings.simplefilter("ignore")
                with np.errstate(all="ignore"):
                    try:
                        self._memo[key] = float(_fp().FailureProbability(sm, ss).pf_norm_load(lm, ls))
                    except Exception:      # an exception of the code under test is an answer (NaN), not an infrastructure error
                        self._memo[key] = math.nan
        return self._memo[key]

    @staticmethod
    def pf_simple(sm, ss, load):
        try:
            return float(_fp().FailureProbability(sm, ss).pf_simple_load(load))
        except Exception:
            return math.nan

    @staticmethod
    def pf_arb(sm, ss, xs, ps):
        try:
            return float(_fp().FailureProbability(sm, ss).pf_arbitrary_load(np.asarray(xs, dtype=float), np.asarray(ps, dtype=float)))
        except Exception:
            return math.nan

    # -------------------------------------------------------------- generation
    def generate(self, rng, tier):
        big = tier != "quick"
        counts = {"norm": 260, "dyadic": 60, "simple": 40, "limit": 12, "arb": 14, "arbk": 40}
        if big:
            counts = {"norm": 3000, "dyadic": 600, "simple": 300, "limit": 120, "arb": 150, "arbk": 300}
        # fixed grid: scatter ratio decades x probability decades (the F-7 table)
        for ratio in (1e-3, 1e-2, 1e-1, 1.0, 10.0, 1e2, 1e3):
            for z in (-ZMAX, -5.9978, -4.7534, -3.0902, -1.2816, 0.0, 1.2816, 3.0902, 4.7534, 5.9978, ZMAX):
                ss = 0.02
                ls = ss * ratio
                lm = 10.0 ** (2.0 + z * math.hypot(ls, ss))
                yield {"kind": "norm", "sm": 100.0, "ss": ss, "lm": lm, "ls": ls}
        n = 0
        while n < counts["norm"]:
            c = gen_norm(rng)
            if c is not None:
                n += 1
                yield c
        n = 0
        while n < counts["dyadic"]:
            c = gen_norm(rng, dyadic=rng.choice([0.0, 0.0, 8.0, -8.0, 4.0, -4.0, 2.0, -2.0, 1.0, -1.0, 0.5, 6.0, -6.0, 12.0]))
            if c is not None:
                n += 1
                yield c
        for kind, g in (("simple", gen_simple), ("limit", gen_limit), ("arb", gen_arb), ("arbk", gen_arbk)):
            for _ in range(counts[kind]):
                yield g(rng)

    # -------------------------------------------------------------- correspondence
    def model_lines(self, case):
        k = case["kind"]
        if k == "norm":
            return [f"c15.norm {f2h(case['sm'])} {f2h(case['ss'])} {f2h(case['lm'])} {f2h(case['ls'])}"]
        if k == "simple":
            return [f"c15.simple {f2h(case['sm'])} {f2h(case['ss'])} {f2h(l)}" for l in case["loads"]]
        if k == "limit":
            return [f"c15.norm {f2h(case['sm'])} {f2h(case['ss'])} {f2h(case['lm'])} {f2h(case['ss'] * r)}" for r in case["ratios"]]
        if k == "arbk":
            pts = " ".join(f"{f2h(x)} {f2h(p)}" for x, p in zip(case["xs"], case["ps"]))
            return [f"c15.arb {f2h(case['sm'])} {f2h(case['ss'])} {pts}".rstrip()]
        return []     # arb: the grids are too long for the wire; the oracle treats them

    def impl_lines(self, case):
        k = case["kind"]
        self._count("cases_" + k)
        if k == "norm":
            z = zvalue(case["sm"], case["ss"], case["lm"], case["ls"])
            self._count("norm_pf_decade_%+03d" % max(-12, math.floor(math.log10(min(Phi(z), Phi(-z))) + 1e-9)) + ("_lo" if z < 0 else "_hi"))
            self._count("norm_ratio_decade_%+d" % math.floor(math.log10(case["ls"] / case["ss"]) + 1e-9))
            return [f2h(self.pf_norm(case["sm"], case["ss"], case["lm"], case["ls"]))]
        if k == "simple":
            return [f2h(self.pf_simple(case["sm"], case["ss"], l)) for l in case["loads"]]
        if k == "limit":
            return [f2h(self.pf_norm(case["sm"], case["ss"], case["lm"], case["ss"] * r)) for r in case["ratios"]]
        if k == "arbk":
            return [f2h(self.pf_arb(case["sm"], case["ss"], case["xs"], case["ps"]))]
        return []

    def compare(self, case, model_out, impl_out):
        if len(model_out) != len(impl_out):
            return f"length {len(model_out)} vs {len(impl_out)}"
        k = case["kind"]
        for i, (a, b) in enumerate(zip(model_out, impl_out)):
            got = h2f(b)
            if k == "arbk":
                want = h2f(a)
                if not (got == want or abs(got - want) <= 1e-11 * max(abs(got), abs(want)) + 1e-300):
                    return f"line {i}: trapezoid sum model={want!r} impl={got!r}"
                continue
            pf, q = [h2f(t) for t in a.split()]
            rt = 1e-11 if k == "simple" else 1e-8
            if not pf_close(got, pf, q, rt):
                return (f"line {i}: model pf={pf!r} (1-pf={q!r}) impl={got!r} rel.dev on pf {abs(got - pf) / pf:.3g}, "
                        f"on 1-pf {abs(got - pf) / q:.3g}")
        return None

    def nontrivial(self, case, model_out):
        return json.dumps(case, sort_keys=True)

    # -------------------------------------------------------------- direct property oracle (real code only)
    def oracle(self, case):
        k = case["kind"]
        with warnings.catch_warnings():
            warnings.simplefilter("ignore")
            with np.errstate(all="ignore"):
                if k == "norm":
                    return self._oracle_norm(case)
                if k == "simple":
                    return self._oracle_simple(case)
                if k == "limit":
                    return self._oracle_limit(case)
                if k == "arb":
                    return self._oracle_arb(case)
        return None

    def _oracle_norm(self, case):
        sm, ss, lm, ls = case["sm"], case["ss"], case["lm"], case["ls"]
        z = zvalue(sm, ss, lm, ls)
        pf, q = Phi(z), Phi(-z)
        got = self.pf_norm(sm, ss, lm, ls)
        where = f"FailureProbability({sm!r}, {ss!r}).pf_norm_load({lm!r}, {ls!r})"
        if not (0.0 <= got <= 1.0):
            return (f"{where} = {got!r} outside [0, 1]", "pf-range")
        if not pf_close(got, pf, q, RT_ORACLE):
            return (f"{where} = {got!r}, closed form Phi({z!r}) = {pf!r} (1 - pf = {q!r}): relative deviation "
                    f"{abs(got - pf) / pf:.3g} on pf, {abs(got - pf) / q:.3g} on 1 - pf", "pf-closed-form")
        # strictly increasing in the load median, strictly decreasing in the strength median: shift z by +0.1
        sig = math.hypot(ls, ss)
        if z + 0.1 <= ZMAX:
            lm2 = 10.0 ** (math.log10(lm) + 0.1 * sig)
            up = self.pf_norm(sm, ss, lm2, ls)
            if lm2 > lm and not up > got:
                return (f"pf_norm_load not increasing in the load median: {got!r} at {lm!r}, {up!r} at {lm2!r} "
                        f"(strength {sm!r}/{ss!r}, load_std {ls!r})", "pf-monotone-load")
            sm2 = 10.0 ** (math.log10(sm) - 0.1 * sig)
            up2 = self.pf_norm(sm2, ss, lm, ls)
            if sm2 < sm and not up2 > got:
                return (f"pf_norm_load not decreasing in the strength median: {got!r} at {sm!r}, {up2!r} at {sm2!r} "
                        f"(strength_std {ss!r}, load {lm!r}/{ls!r})", "pf-antitone-strength")
        return None

    def _oracle_simple(self, case):
        sm, ss = case["sm"], case["ss"]
        vals = []
        for l in case["loads"]:
            z = (math.log10(l) - math.log10(sm)) / ss
            got = self.pf_simple(sm, ss, l)
            if not (0.0 <= got <= 1.0):
                return (f"pf_simple_load({l!r}) = {got!r} outside [0, 1]", "pf-range")
            if not pf_close(got, Phi(z), Phi(-z), 1e-9):
                return (f"FailureProbability({sm!r}, {ss!r}).pf_simple_load({l!r}) = {got!r}, Phi({z!r}) = {Phi(z)!r}", "pf-closed-form")
            vals.append((l, got))
        vals.sort()
        for (l1, p1), (l2, p2) in zip(vals, vals[1:]):
            if l2 > l1 * (1 + 1e-3 * ss) and not p2 > p1:
                return (f"pf_simple_load not increasing: {p1!r} at {l1!r}, {p2!r} at {l2!r}", "pf-monotone-load")
        return None

    def _oracle_limit(self, case):
        sm, ss, lm = case["sm"], case["ss"], case["lm"]
        target = self.pf_simple(sm, ss, lm)
        z = (math.log10(lm) - math.log10(sm)) / ss
        q = Phi(-z)
        for r in case["ratios"]:
            got = self.pf_norm(sm, ss, lm, ss * r)
            # closed form: z_r = z / sqrt(1 + r^2); allowed distance to the limit = what the closed form itself moves + tolerance
            zr = z / math.sqrt(1.0 + r * r)
            move = abs(Phi(zr) - Phi(z))
            moveq = abs(Phi(-zr) - Phi(-z))
            d = abs(got - target)
            if not (d <= move + RT_ORACLE * target and d <= moveq + RT_ORACLE * q + 4 * ULP1):
                return (f"load scatter -> 0: pf_norm_load({lm!r}, {ss * r!r}) = {got!r} but pf_simple_load({lm!r}) = {target!r} "
                        f"(strength {sm!r}/{ss!r}, scatter ratio {r!r}; the closed form moves by {move:.3g} only)", "pf-limit")
        return None

    def _oracle_arb(self, case):
        sm, ss, lm, ls = case["sm"], case["ss"], case["lm"], case["ls"]
        z = zvalue(sm, ss, lm, ls)
        pf = Phi(z)
        l50, s50 = math.log10(lm), math.log10(sm)
        errs = []
        for k in range(ARB_LEVELS):
            n = 250 * 2 ** k
            x = arb_grid(l50, ls, s50, ss, n)
            got = self.pf_arb(sm, ss, x, norm_pdf(x, l50, ls))
            e = abs(got - pf) / pf
            errs.append(e)
            if not e <= max(ARB_ENVELOPE * 4.0 ** -k, RT_ORACLE):
                return (f"pf_arbitrary_load with the sampled log-normal density ({n} intervals per scale, {len(x)} nodes) = {got!r}, "
                        f"closed form {pf!r}: relative error {e:.3g} above the second-order envelope {ARB_ENVELOPE * 4.0 ** -k:.3g} "
                        f"(strength {sm!r}/{ss!r}, load {lm!r}/{ls!r}; errors so far {['%.2g' % v for v in errs]})", "pf-arbitrary")
        if not errs[-1] <= RT_ORACLE:
            return (f"pf_arbitrary_load does not reach 1e-6 at the finest grid: {errs[-1]:.3g}", "pf-arbitrary")
        self._count("arb_levels_run", ARB_LEVELS)
        return None

    # -------------------------------------------------------------- shrinking
    def shrink(self, case, still_fails):
        cur = dict(case)
        for key in ("loads", "ratios"):
            if key in cur:
                for v in list(cur[key]):
                    cand = dict(cur, **{key: [v]})
                    try:
                        if still_fails(cand):
                            cur = cand
                            break
                    except Exception:
                        continue
        if cur["kind"] == "norm":
            # round the parameters to few digits while the failure persists
            for digits in (3, 6):
                cand = dict(cur)
                for key in ("sm", "ss", "lm", "ls"):
                    cand[key] = float(f"{cur[key]:.{digits}g}")
                try:
                    if abs(zvalue(cand["sm"], cand["ss"], cand["lm"], cand["ls"])) <= ZMAX and still_fails(cand):
                        return cand
                except Exception:
                    continue
        return cur
