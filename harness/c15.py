"""C15: failure probability = analytic load/strength overlap (pylife/strength/failure_probability.py).

Implementation side + generators + direct property oracle.  The Lean model is lean/Model/FailureProb.lean, its
protocol handler lean/Driver/FailureProb.lean (ops `c15.*`), the theorems lean/Proofs/C15.lean.

Tolerance (documented choice).  A failure probability is only meaningful RELATIVE to itself and to its complement:
1e-12 against 2e-12 is a factor of two in the expected number of failures, and 1 - 1e-12 against 1 - 2e-12 is the same
factor for the survivors.  Therefore `pf_close(got, pf, q)` demands

    |got - pf| <= rtol * pf        and        |got - pf| <= rtol * q + 4 * 2**-53        (q = 1 - pf evaluated as Phi(-z))

The additive 4 * 2**-53 on the complement side is the representation limit of a double close to one (the function
returns pf, not 1 - pf; at pf = 1 - 1e-12 one ulp of the result is already 1e-4 of the complement).  rtol = 1e-6 for the
property oracle (quadrature: scipy's quad is asked for 1e-10; six digits is what an engineering safety assessment can
use, and every defect seen so far is off by >= 1e-3), 1e-8 for the model/code correspondence of `pf_norm_load`
(quad's requested accuracy 1e-10 plus the conditioning of (log10 L - log10 S)/sigma for sigma down to 1e-4), 1e-11 for
`pf_simple_load` and the trapezoid sums (same formula on both sides, libm vs numpy ulps).
`pf_arbitrary_load` (a trapezoid sum of numbers close to one) cannot resolve its complement below its own O(h^2)
quadrature error, so "converges to the same value" is checked relative to pf only (rtol 1e-6 at the finest grid,
second-order envelope on the way); what it returns on each grid is in addition compared with the harness' own trapezoid
sum of pdf * Phi (absolute 1e-13: that is what discriminates when pf is within 1e-6 of one).

`pf_simple_load`: the only rounding that matters is that of the two log10 calls (libm on the model side, numpy on the code
side, possibly a SIMD variant for arrays): 1 ulp each moves z by (|log10 L| + |log10 S|) 2^-52 / s_std and pf relatively by
(|z| + 1) times that; the tolerance is 1e-11 plus four times this budget.

Explicit `lower_limit` / `upper_limit` (not part of the property text, but the repairs touch exactly their handling): the
documented behaviour "only the load distribution between the limits is considered" = the overlap integral over the window
(limits beyond 16 load standard deviations are moved there).  Since /repo 2da931b the code can integrate the window's failure
probability P directly or its complement Q within the window's load mass (result = mass - integral of pdf * sf_S).  The code's
branch rule is that of /repo 9f34536: through the complement with the default limits and loc < 0, and otherwise only when
the direct integral exceeds half of the window's load mass AND at least half of the whole load lies in the window; a
window holding less than half of the load always returns the direct integral of P (in a narrow window mass - integral
cancels: 2da931b alone returned -5.4e-24 for 4.1e-47, finding pf-narrow-window-complement - a label of the record only, a
recurrence is reported as pf-window-cancellation; corpus fixreview-d-narrow-window-{a,b,c}, three windows narrower than 1e-9
load sd, fire on a tree without 9f34536; the narrowest generated windows are about 1e-6 load sd wide and would not).  The Lean
model keeps the rule of 2da931b (complement whenever the direct integral exceeds half the window's load mass); both rules
choose between the same two expressions of the same window integral.  BOTH P and Q are demanded relatively:
|got - P| <= 1e-6 P and |got - P| <= 1e-6 Q + rounding of the mass (a difference of two norm.cdf / norm.sf values: 64 ulp of
the larger one, times 1 + x^2 in a tail at x) + rounding of the standardised limits (`limit_rounding`: log10 of the load median
is good for an ulp, the limit is a difference divided by load_std).  Reference: the harness' own adaptive 20-point Gauss-Legendre integration of
both P and Q (no subtraction anywhere, relative accuracy per panel - a window whose whole content is 1e-200 is resolved).
Not examined: a window that lies entirely below the strength distribution (beyond 10 strength sd) and is more than 20
times longer than a strength sd - its content (< 1e-23 of its load mass) sits in a boundary layer that scipy's quad does not
see (it returns 0.0 or 1e-225 for 1e-28); the generator shortens such windows."""
import json
import math
import warnings

import numpy as np

from .core import Prop, f2h, h2f

try:
    from scipy.integrate import IntegrationWarning
except Exception:                                  # pragma: no cover
    IntegrationWarning = UserWarning

SOURCES = ["src/pylife/strength/failure_probability.py"]

ZMAX = 7.0344         # Phi(-7.0344) = 1.0006e-12: the quantifier's range of failure probabilities
ULP1 = 2.0 ** -53
RT_ORACLE = 1e-6
ARB_LEVELS = 10       # grids with 250 * 2^k intervals per scale, k = 0..9
ARB_ENVELOPE = 0.25   # relative error of level k must stay below ARB_ENVELOPE * 4^-k (second order) or RT_ORACLE


def _fp():
    import pylife.strength.failure_probability as FP
    return FP


def Phi(z):
    """reference distribution function, relative accuracy in both tails (independent of scipy.stats)"""
    return 0.5 * math.erfc(-z / math.sqrt(2.0))


def zvalue(sm, ss, lm, ls):
    return (math.log10(lm) - math.log10(sm)) / math.sqrt(ls * ls + ss * ss)


def pf_close(got, pf, q, rtol):
    d = abs(got - pf)
    return d <= rtol * pf and d <= rtol * q + 4 * ULP1


_erfc = np.frompyfunc(math.erfc, 1, 1)
_GLX, _GLW = np.polynomial.legendre.leggauss(20)


def Phi_vec(z):
    """Phi on an array through math.erfc (independent of scipy)"""
    return 0.5 * _erfc(-np.asarray(z, dtype=float) / math.sqrt(2.0)).astype(float)


def simple_rtol(sm, ss, load, z):
    return 1e-11 + 4.0 * (abs(z) + 1.0) * (abs(math.log10(load)) + abs(math.log10(sm))) * 2.0 ** -52 / ss


def _gl(f, a, b):
    c, h = 0.5 * (a + b), 0.5 * (b - a)
    return h * float(np.dot(_GLW, f(c + h * _GLX)))


def adaptive_gl(f, edges, rtol):
    """sum over the panels between consecutive edges of the integral of f (f >= 0); every panel is bisected until its
    20-point Gauss-Legendre value agrees with the sum over its halves to rtol RELATIVE TO THE PANEL - so that a window whose
    whole content is 1e-200 still gets its own relative accuracy -, or is negligible (1e-30 of the running total, or in
    the denormal range), or cannot be resolved any further in double precision"""
    total, n = 0.0, 0
    stack = [(a, b, _gl(f, a, b)) for a, b in zip(edges, edges[1:]) if b > a]
    while stack:
        a, b, whole = stack.pop()
        m = 0.5 * (a + b)
        l, r = _gl(f, a, m), _gl(f, m, b)
        n += 1
        if (abs(l + r - whole) <= rtol * abs(l + r) or abs(l + r) < 1e-30 * total or abs(l + r) < 1e-280
                or (b - a) <= 1e5 * np.spacing(max(abs(a), abs(b))) or n > 200000):
            total += l + r
        else:
            stack.append((m, b, r))
            stack.append((a, m, l))
    return total


def ref_window(sm, ss, lm, ls, lo, hi):
    """independent reference for pf_norm_load with explicit limits: (P, Q, mass) = integrals over the standardised window
    [lo, hi] (limits beyond +-16 moved there, as documented) of phi(t) Phi((t - tr)/w) and of phi(t) (1 - Phi((t - tr)/w)), and
    the load mass of the window; tr = (log10 sm - log10 lm)/ls, w = ss/ls.  Adaptive 20-point Gauss-Legendre, both
    integrals computed directly (no subtraction), relative accuracy per panel."""
    lo, hi = min(max(lo, -16.0), 16.0), min(max(hi, -16.0), 16.0)
    if not lo < hi:
        return 0.0, 0.0, 0.0
    tr, w = (math.log10(sm) - math.log10(lm)) / ls, ss / ls
    clip = lambda x: min(max(x, lo), hi)
    cuts = sorted({lo, hi} | {clip(tr + k * w) for k in (-40, -10, -3, 0, 3, 10, 40)} | {clip(float(k)) for k in range(-16, 17, 2)})
    # the nodes carry a rounding of 2^-52 |t|, the integrand changes by up to a factor e^40 per w: below that no agreement
    rt = min(0.5, 1e-10 + 100 * 40 * 2.0 ** -52 * 16 / min(1.0, w))
    phi = lambda t: np.exp(-0.5 * t * t) / math.sqrt(2.0 * math.pi)
    P = adaptive_gl(lambda t: phi(t) * Phi_vec((t - tr) / w), cuts, rt)
    Q = adaptive_gl(lambda t: phi(t) * Phi_vec(-(t - tr) / w), cuts, rt)
    mass = Phi(hi) - Phi(lo) if lo < 0 else Phi(-lo) - Phi(-hi)
    return P, Q, mass


def head_breakpoints(sm, ss, lm, ls):
    """the two break point candidates of pf_norm_load, in the float expressions of the code"""
    loc = np.log10(sm) - np.log10(lm)
    transition = loc / ls
    width = 10. * ss / ls
    return float(transition - width), float(transition + width)


def breakpoint_at_limit(sm, ss, lm, ls, lo=-16.0, hi=16.0):
    """mechanism of the regression introduced by 2a91979 (D15-1): a break point candidate lies within a few ulp INSIDE an
    integration limit, QUADPACK's QAGP gets a sub interval of ~1e-15 and returns a wrong value"""
    return any(abs(p - l) <= 1e-9 for p in head_breakpoints(sm, ss, lm, ls) for l in (lo, hi))


def limv(v):
    """explicit limit of a case: None (default), a float, or the strings "inf" / "-inf" (kept as strings so that corpus and
    replay files stay standard JSON)"""
    return None if v is None else float(v)


def mass_rounding(lo, hi):
    """what the rounding of the window's load mass costs: it is a difference of two norm.cdf values (norm.sf values for a window
    above the load median), each good for a few ulp of ITSELF, and in a tail at x one ulp of the argument moves the value
    relatively by x^2 ulp: 64 (1 + x^2) ulp of the larger one"""
    if lo > 0:
        return 64 * ULP1 * (1.0 + lo * lo) * Phi(-lo)
    if hi < 0:
        return 64 * ULP1 * (1.0 + hi * hi) * Phi(hi)
    return 64 * ULP1 * Phi(hi)


def limit_rounding(case):
    """what the rounding of log10(load_median) costs with explicit limits: the standardised limit (limit - log10 lm)/ls is a
    difference of two numbers of size |limit| divided by a possibly tiny ls; numpy's, libm's and python's log10 may differ
    by an ulp, which moves the limit by 2^-52 (|limit| + |log10 lm|)/ls and the integral by at most phi(t) times that (8 ulp
    allowed per limit)"""
    l50, ls = math.log10(case["lm"]), case["ls"]
    out = 0.0
    for v in (limv(case["lo"]), limv(case["hi"])):
        if v is not None and math.isfinite(v):
            t = (v - l50) / ls
            if abs(t) < 16.0:
                out += math.exp(-0.5 * t * t) / math.sqrt(2.0 * math.pi) * 16 * ULP1 * (abs(v) + abs(l50)) / ls
    return out


def breakpoint_dropped(ss, ls, lo=-16.0, hi=16.0):
    """mechanism of the regression of 04bca38: the two break points are closer than 1e-6 of the range, the second one was
    dropped and the remaining one sits 10 strength sd to the left of the step"""
    return 20.0 * ss / ls <= 1e-6 * (hi - lo)


def logu(rng, lo, hi):
    return 10.0 ** rng.uniform(math.log10(lo), math.log10(hi))


# ------------------------------------------------------------------ generators
def gen_scatters(rng):
    """(strength_std, load_std) with ratio load/strength log-uniform in [1e-3, 1e3] (incl. the end points), both within
    [1e-4, 30] decades so that the medians stay representable."""
    while True:
        m = rng.random()
        if m < 0.12:
            ratio = rng.choice([1e-3, 1e3, 1.0, 1e-2, 1e2])
        else:
            ratio = logu(rng, 1e-3, 1e3)
        ss = rng.choice([logu(rng, 1e-3, 0.5), logu(rng, 1e-4, 5.0), 0.05, 0.1])
        ls = ss * ratio
        if 1e-4 <= ls <= 30.0:
            return ss, ls


def gen_norm(rng, z=None, dyadic=None):
    ss, ls = gen_scatters(rng)
    sig = math.hypot(ls, ss)
    sm = rng.choice([logu(rng, 1e-2, 1e4), 100.0, 1.0])
    if dyadic is not None:
        # transition of the strength distribution exactly at a bisection point of the integration interval:
        # (s50 - l50)/ls = dyadic  (0 = equal medians)
        e = math.log10(sm) - dyadic * ls
    else:
        if z is None:
            m = rng.random()
            z = (rng.uniform(-ZMAX, ZMAX) if m < 0.6 else rng.choice([-ZMAX, ZMAX]) if m < 0.75
                 else rng.uniform(-ZMAX, -5.5) if m < 0.9 else rng.uniform(5.5, ZMAX))
        e = math.log10(sm) + z * sig
    if abs(e) > 290:
        return None
    lm = 10.0 ** e
    if abs(zvalue(sm, ss, lm, ls)) > ZMAX + 1e-4:
        return None
    return {"kind": "norm", "sm": sm, "ss": ss, "lm": lm, "ls": ls}


def gen_simple(rng):
    sm = rng.choice([logu(rng, 1e-2, 1e4), 100.0])
    ss = rng.choice([logu(rng, 1e-3, 0.5), 0.05, 5.0])
    loads = [sm] + [10.0 ** (math.log10(sm) + z * ss) for z in
                    [-ZMAX, ZMAX, -1.0, 1.0] + [rng.uniform(-ZMAX, ZMAX) for _ in range(5)]]
    return {"kind": "simple", "sm": sm, "ss": ss, "loads": loads}


def gen_limit(rng):
    sm = logu(rng, 1e-2, 1e4)
    ss = logu(rng, 1e-3, 0.5)
    z = rng.choice([rng.uniform(-ZMAX, ZMAX), -ZMAX, ZMAX, 0.0])
    lm = 10.0 ** (math.log10(sm) + z * ss)
    return {"kind": "limit", "sm": sm, "ss": ss, "lm": lm,
            "ratios": [1.0, 1e-1, 1e-2, 1e-3, 1e-4, 1e-5, 1e-6, 1e-8, 1e-12, 1e-20, 1e-30]}


def gen_arb(rng):
    c = None
    while c is None:
        c = gen_norm(rng)
    c["kind"] = "arb"
    return c


def gen_arbk(rng):
    """a short arbitrary node list for the model/code correspondence of the trapezoid sum (nodes from far below the
    strength median upwards, or the same downwards: np.trapezoid takes descending nodes, too)"""
    sm = logu(rng, 1e-1, 1e3)
    ss = logu(rng, 1e-2, 0.5)
    n = rng.choice([0, 1, 2, 3, 5, 12, 40])
    x0 = math.log10(sm) + rng.uniform(-9, 2) * ss
    xs, x = [], x0
    for _ in range(n):
        xs.append(x)
        x += rng.choice([rng.uniform(0.0, 1.0) * ss, 0.25 * ss, 0.0 if rng.random() < 0.1 else 0.01 * ss, rng.uniform(0.0, 3.0) * ss])
    ps = [rng.choice([rng.uniform(0, 5), 0.0, 1.0]) for _ in xs]
    if rng.random() < 0.25:
        xs.reverse()
        ps.reverse()
    return {"kind": "arbk", "sm": sm, "ss": ss, "xs": xs, "ps": ps}


def gen_bp_family():
    """FIXED family (no random choice): one break point candidate `transition +- 10 s_std/load_std` of pf_norm_load coincides
    with a default integration limit (+-16) exactly, and the load median is moved by up to 3 ulp to both sides."""
    for r in (0.45, 0.5, 0.625, 0.7, 0.8, 0.9, 1.0, 1.1, 1.25, 1.3):       # load_std / strength_std; |z| <= ZMAX needs 0.42 <= r <= 1.35
        for lim, sw in ((16.0, 1.0), (-16.0, -1.0)):
            tr = lim - sw * 10.0 / r                                        # transition + sw * width = lim
            for ss in (0.05, 0.02, 0.3):
                ls = ss * r
                for sm in (100.0, 1.0, 37.3):
                    lm0 = 10.0 ** (math.log10(sm) - tr * ls)
                    for k in (-3, -2, -1, 0, 1, 2, 3):
                        lm = lm0
                        for _ in range(abs(k)):
                            lm = math.nextafter(lm, math.inf if k > 0 else 0.0)
                        if abs(zvalue(sm, ss, lm, ls)) <= ZMAX:
                            yield {"kind": "norm", "sm": sm, "ss": ss, "lm": lm, "ls": ls}
    # round-number family of the audit: load median = 10^(1.00 : 0.05 : 3.00), scatters from a short list
    S = (0.01, 0.02, 0.025, 0.05, 0.1, 0.2, 0.25, 0.5)
    for ss in S:
        for ls in S:
            for i in range(41):
                lm = 10.0 ** (1.0 + 0.05 * i)
                if abs(zvalue(100.0, ss, lm, ls)) <= ZMAX and breakpoint_at_limit(100.0, ss, lm, ls):
                    yield {"kind": "norm", "sm": 100.0, "ss": ss, "lm": lm, "ls": ls}


def gen_narrow_family():
    """FIXED family: strength distribution far narrower than the load distribution (strength_std / load_std 1e-12 .. 1e-5
    and the threshold 1.6e-6 of the regression of 04bca38 from both sides) x load medians across both tails"""
    for ls in (1.0, 0.1):
        for r in (1e-12, 1e-10, 1e-9, 1e-8, 1e-7, 3e-7, 1e-6, 1.5e-6, 1.7e-6, 1e-5):
            ss = ls * r
            for z in (-7.0, -5.0, -3.0, -1.2816, -0.1, 0.0, 0.1, 1.2816, 3.0, 5.0, 7.0):
                yield {"kind": "norm", "sm": 100.0, "ss": ss, "lm": 10.0 ** (2.0 + z * math.hypot(ls, ss)), "ls": ls}


def gen_window_family():
    """FIXED family: explicit windows that hold a tiny probability (or a tiny complement) - the strength median below the
    load median (loc < 0) and above it; limits given in load standard deviations from the load median"""
    for ss, ls in ((0.3, 3.0), (0.01, 0.3), (0.05, 0.1), (0.1, 0.1), (0.02, 0.02)):
        for d in (1e-6, 0.3 * ls, -1e-6, -0.3 * ls):           # log10 load median - log10 strength median
            l50 = 2.0 + d
            for a, b in ((-2.0, -1.0), (-3.0, -2.0), (-6.0, -3.0), (-1.0, -0.5), (-8.0, -6.0), (1.0, 2.0), (3.0, 6.0), (-1.0, 1.0),
                         (-12.0, -8.0), (0.5, 16.0)):
                yield {"kind": "limits", "sm": 100.0, "ss": ss, "lm": 10.0 ** l50, "ls": ls, "lo": l50 + a * ls, "hi": l50 + b * ls}
    # the two inputs of the review
    yield {"kind": "limits", "sm": 100.0, "ss": 0.3, "lm": 10.0 ** 2.3, "ls": 3.0, "lo": 2.3 - 6.0, "hi": 2.3 - 3.0}
    yield {"kind": "limits", "sm": 100.0, "ss": 0.01, "lm": 10.0 ** (2 + 1e-6), "ls": 0.3, "lo": 2 + 1e-6 - 0.6, "hi": 2 + 1e-6 - 0.3}
    yield {"kind": "limits", "sm": 100.0, "ss": 1e-6, "lm": 1000.0, "ls": 13.0, "lo": None, "hi": 2.0}


def gen_rtype_family():
    """FIXED family: the type of what pf_norm_load returns (a python float on every path) for the argument types a caller
    has at hand"""
    for argtype in ("float", "int", "np.float64", "np.float32", "0-d array"):
        for sm, ss, lm, ls, lo, hi in ((100.0, 1.0, 70.0, 2.0, None, None), (100.0, 1.0, 170.0, 2.0, None, None),
                                       (100.0, 1.0, 100.0, 2.0, None, None), (100.0, 1.0, 170.0, 2.0, 1.0, 3.0),
                                       (100.0, 1.0, 70.0, 2.0, None, 3.0), (100.0, 1.0, 170.0, 2.0, "-inf", "inf"),
                                       (100.0, 1.0, 170.0, 0.0, None, None)):
            yield {"kind": "rtype", "argtype": argtype, "sm": sm, "ss": ss, "lm": lm, "ls": ls, "lo": lo, "hi": hi}
    for sm, ss, lm, ls in ((100.0, 0.05, 170.0, 0.1), (100.0, 0.05, 70.0, 0.1), (100.0, 0.05, 125.89254117941675, 0.025)):
        yield {"kind": "rtype", "argtype": "float", "sm": sm, "ss": ss, "lm": lm, "ls": ls, "lo": None, "hi": None}
        yield {"kind": "rtype", "argtype": "np.float32", "sm": sm, "ss": ss, "lm": lm, "ls": ls, "lo": None, "hi": None}


def gen_limits(rng):
    """pf_norm_load with explicit lower_limit / upper_limit (log10 units; None = default, +-inf allowed)"""
    c = None
    while c is None:
        c = gen_norm(rng, z=rng.uniform(-5.0, 5.0))
    l50, ls, ss = math.log10(c["lm"]), c["ls"], c["ss"]
    tr = (math.log10(c["sm"]) - l50) / ls
    m = rng.random()
    if m < 0.35:
        a, b = sorted((rng.uniform(-8, 8), rng.uniform(-8, 8)))
    elif m < 0.55:                      # a window around the strength distribution
        a, b = tr - rng.uniform(0, 12) * ss / ls, tr + rng.uniform(0, 12) * ss / ls
    elif m < 0.7:                       # a limit exactly on a break point candidate
        lo_, hi_ = head_breakpoints(c["sm"], ss, c["lm"], ls)
        a, b = rng.choice([(lo_, lo_ + rng.uniform(0.5, 20)), (hi_ - rng.uniform(0.5, 20), hi_), (lo_, hi_)])
    elif m < 0.85:
        a, b = rng.choice([(-math.inf, math.inf), (-math.inf, rng.uniform(-3, 8)), (rng.uniform(-8, 3), math.inf),
                           (None, rng.uniform(-3, 8)), (rng.uniform(-8, 3), None), (-16.0, 16.0)])
    else:
        a = rng.uniform(-6, 6)
        b = a + logu(rng, 1e-6, 1.0)
    if a is not None and b is not None and not a < b:
        a, b = -1.0, 1.0
    w = ss / ls
    if a is not None and b is not None and math.isfinite(b) and b < tr - 10.0 * w and w < 0.05 * (b - max(a, -16.0)):
        # a window entirely below the strength distribution holds a probability < 1e-23 of its load mass that sits in a
        # layer of a fraction of a strength sd at its upper end: adaptive quadrature has to be able to see that layer
        a = b - rng.uniform(2.0, 20.0) * w
    c["kind"] = "limits"
    c["lo"] = None if a is None else ("-inf" if math.isinf(a) else l50 + a * ls)
    c["hi"] = None if b is None else ("inf" if math.isinf(b) else l50 + b * ls)
    return c


def gen_state(rng):
    """a sequence of calls on ONE FailureProbability object (the code keeps s_50 / s_std on the object)"""
    sm = rng.choice([logu(rng, 1e-1, 1e3), 100.0])
    ss = rng.choice([logu(rng, 1e-2, 0.5), 0.05])
    s50 = math.log10(sm)
    calls = []
    for _ in range(rng.choice([3, 4, 6])):
        m = rng.random()
        if m < 0.45:
            ls = ss * logu(rng, 0.1, 10.0)
            z = rng.uniform(-4, 4)
            calls.append(["norm", 10.0 ** (s50 + z * math.hypot(ls, ss)), ls])
        elif m < 0.75:
            calls.append(["simple", 10.0 ** (s50 + rng.uniform(-4, 4) * ss)])
        else:
            xs = sorted(s50 + rng.uniform(-5, 5) * ss for _ in range(rng.choice([2, 5, 9])))
            calls.append(["arb", xs, [rng.uniform(0, 3) for _ in xs]])
    calls.append(list(calls[0]))          # the first call once more at the end
    return {"kind": "state", "sm": sm, "ss": ss, "calls": calls}


def gen_simplearr(rng):
    """pf_simple_load with array_like strength and load (docstring: shape (N,))"""
    n = rng.choice([1, 2, 3, 7])
    shape = rng.choice(["all", "all", "all", "scalar-strength", "scalar-load"])
    sss = [rng.choice([logu(rng, 1e-3, 0.5), 0.05, 5.0]) for _ in range(n)]
    if shape == "scalar-load":
        load = rng.choice([logu(rng, 1e-2, 1e4), 100.0])
        loads = [load] * n
        sms = [10.0 ** (math.log10(load) - rng.uniform(-ZMAX, ZMAX) * ss) for ss in sss]
    else:
        sms = [rng.choice([logu(rng, 1e-2, 1e4), 100.0]) for _ in range(n)]
        if shape == "scalar-strength":
            sms, sss = [sms[0]] * n, [sss[0]] * n
        loads = [10.0 ** (math.log10(sm) + rng.uniform(-ZMAX, ZMAX) * ss) for sm, ss in zip(sms, sss)]
    return {"kind": "simplearr", "sms": sms, "sss": sss, "loads": loads, "shape": shape,
            "container": rng.choice(["ndarray", "series", "list", "ndarray"])}


def arb_grid(l50, ls, s50, ss, n):
    """sample points of a refinement level: uniform over the load's +-16 sigma plus uniform over the strength's
    +-10 sigma (so that both scales are resolved whatever the scatter ratio is)"""
    a = l50 + ls * np.linspace(-16.0, 16.0, n + 1)
    b = s50 + ss * np.linspace(-10.0, 10.0, n + 1)
    b = b[(b > a[0]) & (b < a[-1])]
    return np.unique(np.concatenate([a, b]))


def norm_pdf(x, loc, scale):
    """the sampled log-normal density (in log10 space a normal density), computed here, not by the module under test"""
    t = (x - loc) / scale
    return np.exp(-0.5 * t * t) / (scale * math.sqrt(2.0 * math.pi))


class C15(Prop):
    ID = "C15"
    SOURCES = SOURCES
    LEAN_MODULES = ["Proofs.C15"]
    PARALLEL = 8
    THEOREMS = [f"PylifeVerif.C15.{t}" for t in [
        "stdNormalCdf_isDistFn", "pf_in_unit_interval", "pf_mono_in_load", "pf_antitone_in_strength",
        "pf_zero_scatter_eq_simple_load", "pf_tends_to_simple_load",
        "overlap_integral_eq_closed_form", "overlap_integral_standardised", "overlap_integral_tends_to_simple_load",
        "pf_norm_load_code_eq_window_integral", "pf_norm_load_code_truncation", "pf_norm_load_code_near_closed_form",
        "pf_norm_load_code_in_unit_interval", "pf_norm_load_code_limit", "pf_norm_load_code_zero_scatter",
        "pf_arbitrary_eq_trapezoidal_rule", "pf_arbitrary_converges_partial",
        "pf_arbitrary_nonuniform_error_le", "pf_arbitrary_gaussian_converges",
        ]]
    PARTIAL = {
        "PylifeVerif.C15.pf_arbitrary_converges_partial":
            "proved: on N uniform intervals of [a, b] pf_arbitrary_load is the composite trapezoidal rule of pdf * cdf_S, and for a "
            "twice continuously differentiable integrand with |f''| <= zeta its distance to the integral over [a, b] is at most "
            "(b-a)^3 zeta / (12 N^2).  The companions close most of what this theorem leaves open: "
            "pf_arbitrary_nonuniform_error_le (any increasing nodes: sum h_k^3 zeta / 12 <= delta^2 (b-a) zeta / 12) and "
            "pf_arbitrary_gaussian_converges (the sampled normal density times the Gaussian distribution function IS C^2 with a "
            "bounded second derivative on [a, b], hence convergence on every refinement sequence of increasing nodes, and the limit "
            "is below the closed form by at most the load mass outside [a, b]).  NOT proved: an explicit value of zeta for the "
            "Gaussian integrand (existence only: convergence without a rate; the second-order rate is measured per run by the "
            "refinement oracle), and rounding.",
    }
    RULE = ("case = one of: norm (strength median/std, load median/std; scatter ratio 1e-3..1e3 incl. end points, z uniform in "
            "+-7.0344 i.e. pf in [1e-12, 1-1e-12], extra mass on both tails, on transitions lying exactly on bisection points of "
            "the integration interval, and a FIXED family in which a break point candidate transition +- 10 s_std/load_std "
            "coincides with an integration limit +-16 exactly and within +-3 ulp of the load median, plus the round-number "
            "inputs 10^(k/20) for which it does, and a FIXED family strength_std/load_std = 1e-12 .. 1e-5 (incl. both sides of "
            "1.6e-6) x 11 load medians from z = -7 to 7); limits (explicit lower/upper limit: windows, a limit on a break point, "
            "+-inf, tiny windows; FIXED family of 203 windows of 0.5 .. 15.5 load sd holding 1e-200 .. 1 of their load mass, load "
            "median below and above the strength median); rtype (FIXED: python float / int / np.float64 / np.float32 / 0-d "
            "array arguments, all branches: the result is a python float and the window integral); api (no model line; two fixed cases: "
            "`scatter` - load_std = 0 is pf_simple_load or refused with ValueError, a negative load_std is refused or NaN - and "
            "`shape-mismatch` - pf_arbitrary_load with load_values / load_pdf of different shapes raises ValueError); simple (deterministic loads); simplearr (ndarray / Series / list strength and load against "
            "scalar calls); state (a call sequence norm/simple/arb on ONE object against fresh objects); limit (load scatter "
            "-> 0 sequence); arb (sampled log-normal density on a refinement sequence of two-scale grids and on random nodes); "
            "arbk (short arbitrary node lists, ascending and descending).  "
            "Correspondence: compiled Lean model at Float - closed form with its own Phi (series / continued fraction) AND the "
            "code-level model pfNormLoadCode (standardised window; the MODEL's branch rule is that of /repo 2da931b: the direct integral of pdf * cdf_S, or - for "
            "default limits with loc < 0, or when the direct integral exceeds half the window's load mass - the window's load mass minus the "
            "integral of pdf * sf_S; the CODE's rule is that of /repo 9f34536: the complement in the second case only if at least half of the "
            "whole load lies in the window - both are the same window integral; load_std = 0 is the deterministic branch; quad := composite Gauss-Legendre) - vs real "
            "code, relative on pf AND on 1-pf (module docstring).  Oracle (real code vs an independent erfc closed form and an "
            "independent Gauss-Legendre window integral): value, range [0,1], strict monotonicity in load / strength median, "
            "limit load_std -> 0 = pf_simple_load, convergence of pf_arbitrary_load and identity with the harness' own "
            "trapezoid sum, array = scalar results, results independent of earlier calls on the object.  "
            "Non-trivial = every case (distinct cases counted)")
    ASSUMPTIONS = [
        "C15: theorems are over the reals with Phi = distribution function of Mathlib's gaussianReal 0 1 (or any strictly "
        "increasing continuous function into (0,1) for range/monotonicity/limit of the closed form); scipy.stats.norm.cdf/pdf/sf "
        "are assumed to be Phi, its density and 1 - Phi (measured against the driver's own series/continued-fraction Phi and "
        "against math.erfc)",
        "C15: scipy.integrate.quad is modelled by the value of the integral (its contract; parameter `quad` of "
        "Model.FailureProb.pfNormLoadCode, instantiated with the interval integral in the theorems and with a composite "
        "Gauss-Legendre rule in the driver); that quad delivers it to 1e-6 relative over the whole parameter range is what the run "
        "measures - not proved.  The regression of commit 2a91979 (a break point a few ulp inside a limit derails QUADPACK's "
        "QAGP) is exactly a violation of this contract; the fixed break-point family of the generator aims at it",
        "C15: the default integration limits +-16 load_std are PART of the model (pfNormLoadCode); theorem "
        "pf_norm_load_code_near_closed_form bounds the distance to the closed form by 2 Phi(-16) < 2e-55.  Explicit "
        "lower_limit / upper_limit are modelled as the standardised window (pf_norm_load_code_truncation) and checked against an "
        "independent window integral although the property text does not mention them",
        "C15: admissible = medians and loads positive, strength_std > 0, load_std >= 0 (load_std = 0.0 is the deterministic load "
        "since /repo 2da931b - theorem pf_norm_load_code_zero_scatter -, it raised ZeroDivisionError after 2a91979 and "
        "returned 0.0 before; negative load_std raises ValueError); pf_norm_load takes scalars (quad is scalar; 1-element arrays "
        "raise on every version); pf_simple_load / pf_arbitrary_load arrays",
        "C15: the model describes the REPAIRED pf_norm_load (/repo commits 2a91979, 04bca38, 2da931b; "
        "branch rule of pfNormLoadCode: default limits and loc < 0, or direct integral above half the window's load mass -> through "
        "the complement).  The code's branch rule has been that of /repo 9f34536 since: in the second case the complement is used only if, "
        "in addition, at least half of the whole load lies in the window (|load mass| >= 1/2), otherwise the direct integral is kept; the "
        "model was left with the 2da931b rule on purpose - both rules choose between two expressions of the same window integral "
        "(window_sf_identity); the theorems, stated for the model's rule, are not restated for the code's, and the correspondence "
        "tolerance grants the rounding of the window's load mass, which covers a model value that went through the complement in a narrow window.  On a tree without 9f34536 an explicit window holding less than "
        "half of the load whose pf exceeds half of its load mass returns mass - integral(sf), which cancels in a narrow window "
        "(finding pf-narrow-window-complement, a label of the record only: the oracle reports it as pf-window-cancellation; witnesses "
        "corpus fixreview-d-narrow-window-a/b/c, windows narrower than 1e-9 load sd - the narrowest generated windows are about 1e-6 load sd wide).  "
        "On a tree without 2da931b: strength_std/load_std < 1.6e-6 is wrong by up to 3e-5 relative (class "
        "pf-breakpoint-dropped), explicit windows with the load median above the strength median lose all relative accuracy and "
        "can come out negative (pf-window-cancellation), the result is an np.float64 on the loc < 0 path (pf-return-type); without "
        "04bca38 a break point candidate within a few ulp of +-16 gives 1-10 % error (pf-breakpoint-at-limit)",
        "C15: FailureProbability objects are modelled as immutable pairs (log10 strength_median, strength_std); the state kind "
        "checks that a call sequence on one object gives the results of fresh objects",
    ]

    def __init__(self):
        self.stats = {}
        self.exhaustive = False
        self._memo = {}

    def _count(self, key, n=1):
        self.stats[key] = self.stats.get(key, 0) + n

    # -------------------------------------------------------------- real code (memoised: K and oracle share calls)
    def _call(self, fn):
        """(value, note): IntegrationWarnings are recorded (quad reports that it may be wrong and the code drops the message),
        an exception of the code under test is an answer (NaN), not an infrastructure error"""
        with warnings.catch_warnings(record=True) as w:
            warnings.simplefilter("always")
            with np.errstate(all="ignore"):
                try:
                    v = fn()
                    note = ""
                except Exception as e:
                    v = math.nan
                    note = f" [the call raised {type(e).__name__}: {str(e)[:120]}]"
                    self._count("exception_" + type(e).__name__)
        iw = [x for x in w if issubclass(x.category, IntegrationWarning)]
        if iw:
            self._count("integration_warnings", len(iw))
            note += f" [IntegrationWarning: {str(iw[0].message).splitlines()[0][:100]}]"
        return v, note

    def pf_norm_full(self, sm, ss, lm, ls, lo=None, hi=None):
        key = (sm, ss, lm, ls, lo, hi)
        if key not in self._memo:
            kw = {}
            if lo is not None:
                kw["lower_limit"] = lo
            if hi is not None:
                kw["upper_limit"] = hi
            self._memo[key] = self._call(lambda: float(_fp().FailureProbability(sm, ss).pf_norm_load(lm, ls, **kw)))
        return self._memo[key]

    def pf_norm(self, sm, ss, lm, ls, lo=None, hi=None):
        return self.pf_norm_full(sm, ss, lm, ls, lo, hi)[0]

    @staticmethod
    def typed(argtype, v):
        return {"float": float, "int": lambda x: int(round(x)), "np.float64": np.float64, "np.float32": np.float32,
                "0-d array": lambda x: np.array(float(x))}[argtype](v)

    def pf_typed(self, case):
        """(value as float or NaN, type name of what came back, note) of pf_norm_load called with arguments of case['argtype']"""
        t = lambda v: self.typed(case["argtype"], v)
        kw = {}
        if case["lo"] is not None:
            kw["lower_limit"] = limv(case["lo"])
        if case["hi"] is not None:
            kw["upper_limit"] = limv(case["hi"])
        box = {}

        def call():
            r = _fp().FailureProbability(t(case["sm"]), t(case["ss"])).pf_norm_load(t(case["lm"]), t(case["ls"]), **kw)
            box["type"] = type(r).__module__.split(".")[0] + "." + type(r).__name__ if type(r).__module__ != "builtins" else type(r).__name__
            return float(r)
        v, note = self._call(call)
        return v, box.get("type", "none"), note

    @staticmethod
    def pf_simple(sm, ss, load):
        try:
            return float(_fp().FailureProbability(sm, ss).pf_simple_load(load))
        except Exception:
            return math.nan

    @staticmethod
    def pf_arb(sm, ss, xs, ps):
        try:
            return float(_fp().FailureProbability(sm, ss).pf_arbitrary_load(np.asarray(xs, dtype=float), np.asarray(ps, dtype=float)))
        except Exception:
            return math.nan

    @staticmethod
    def run_state(case, shared):
        """results of the call sequence, on one object (shared) or on a fresh object per call"""
        FP = _fp()
        obj = FP.FailureProbability(case["sm"], case["ss"])
        out = []
        with warnings.catch_warnings():
            warnings.simplefilter("ignore")
            for c in case["calls"]:
                o = obj if shared else FP.FailureProbability(case["sm"], case["ss"])
                try:
                    if c[0] == "norm":
                        out.append(float(o.pf_norm_load(c[1], c[2])))
                    elif c[0] == "simple":
                        out.append(float(o.pf_simple_load(c[1])))
                    else:
                        out.append(float(o.pf_arbitrary_load(np.asarray(c[1], dtype=float), np.asarray(c[2], dtype=float))))
                except Exception:
                    out.append(math.nan)
        return out

    @staticmethod
    def run_simplearr(case):
        import pandas as pd
        wrap = {"ndarray": lambda v: np.asarray(v, dtype=float), "list": list,
                "series": lambda v: pd.Series(v, index=pd.RangeIndex(len(v)), dtype=float)}[case["container"]]
        sms, sss, loads = case["sms"], case["sss"], case["loads"]
        if case["shape"] == "scalar-strength":
            fp = _fp().FailureProbability(sms[0], sss[0])
        else:
            fp = _fp().FailureProbability(wrap(sms), wrap(sss))
        res = fp.pf_simple_load(loads[0] if case["shape"] == "scalar-load" else wrap(loads))
        res = np.asarray(res, dtype=float)
        if res.shape != (len(loads),):            # an answer of the code under test, not a harness problem
            return None, f"pf_simple_load returned shape {res.shape} for {len(loads)} elements"
        return [float(v) for v in res], None

    # -------------------------------------------------------------- generation
    def generate(self, rng, tier):
        big = tier != "quick"
        counts = {"norm": 200, "dyadic": 60, "limits": 60, "simple": 40, "simplearr": 40, "state": 30, "limit": 12, "arb": 12, "arbk": 50}
        if big:
            counts = {"norm": 3000, "dyadic": 600, "limits": 600, "simple": 300, "simplearr": 300, "state": 200, "limit": 120,
                      "arb": 120, "arbk": 400}
        # fixed: break point candidate on an integration limit (regression of 2a91979), quick tier: strength median 100 only
        for c in gen_bp_family():
            if big or (c["sm"] == 100.0 and c["ss"] != 0.3):
                yield c
        # fixed grid: scatter ratio decades x probability decades (the F-7 table)
        # (decades, plus load scatter a few hundred times the strength scatter: a single break point ON the transition
        # is wrong there by 1e-3 - seeded change C15r2-m1 - and a sweep in decades steps over that band)
        for ratio in (1e-3, 1e-2, 1e-1, 1.0, 10.0, 1e2, 300.0, 500.0, 800.0, 1e3):
            for z in (-ZMAX, -5.9978, -4.7534, -3.0902, -1.2816, 0.0, 1.2816, 3.0902, 4.7534, 5.9978, ZMAX):
                ss = 0.02
                ls = ss * ratio
                lm = 10.0 ** (2.0 + z * math.hypot(ls, ss))
                yield {"kind": "norm", "sm": 100.0, "ss": ss, "lm": lm, "ls": ls}
        yield {"kind": "api", "what": "shape-mismatch"}
        yield {"kind": "api", "what": "scatter"}
        # fixed (follow-up of the fix review, /repo 2da931b): very narrow strength, windows with a tiny content, return type
        yield from gen_narrow_family()
        yield from gen_window_family()
        yield from gen_rtype_family()
        n = 0
        while n < counts["norm"]:
            c = gen_norm(rng)
            if c is not None:
                n += 1
                yield c
        n = 0
        while n < counts["dyadic"]:
            c = gen_norm(rng, dyadic=rng.choice([0.0, 0.0, 8.0, -8.0, 4.0, -4.0, 2.0, -2.0, 1.0, -1.0, 0.5, 6.0, -6.0, 12.0]))
            if c is not None:
                n += 1
                yield c
        for kind, g in (("limits", gen_limits), ("simple", gen_simple), ("simplearr", gen_simplearr), ("state", gen_state),
                        ("limit", gen_limit), ("arb", gen_arb), ("arbk", gen_arbk)):
            for _ in range(counts[kind]):
                yield g(rng)

    # -------------------------------------------------------------- correspondence
    @staticmethod
    def _lim(v):
        return "-" if v is None else f2h(limv(v))

    def _call_line(self, case, c):
        if c[0] == "norm":
            return f"c15.norm {f2h(case['sm'])} {f2h(case['ss'])} {f2h(c[1])} {f2h(c[2])}"
        if c[0] == "simple":
            return f"c15.simple {f2h(case['sm'])} {f2h(case['ss'])} {f2h(c[1])}"
        pts = " ".join(f"{f2h(x)} {f2h(p)}" for x, p in zip(c[1], c[2]))
        return f"c15.arb {f2h(case['sm'])} {f2h(case['ss'])} {pts}".rstrip()

    def model_lines(self, case):
        k = case["kind"]
        if k == "norm":
            a = f"{f2h(case['sm'])} {f2h(case['ss'])} {f2h(case['lm'])} {f2h(case['ls'])}"
            return [f"c15.norm {a}", f"c15.normw {a} - -"]
        if k == "limits":
            a = f"{f2h(case['sm'])} {f2h(case['ss'])} {f2h(case['lm'])} {f2h(case['ls'])}"
            return [f"c15.normw {a} {self._lim(case['lo'])} {self._lim(case['hi'])}"]
        if k == "rtype":
            t = lambda v: float(self.typed(case["argtype"], v))
            a = f"{f2h(t(case['sm']))} {f2h(t(case['ss']))} {f2h(t(case['lm']))} {f2h(t(case['ls']))}"
            return [f"c15.normw {a} {self._lim(case['lo'])} {self._lim(case['hi'])}"]
        if k == "simple":
            return [f"c15.simple {f2h(case['sm'])} {f2h(case['ss'])} {f2h(l)}" for l in case["loads"]]
        if k == "simplearr":
            return [f"c15.simple {f2h(sm)} {f2h(ss)} {f2h(l)}" for sm, ss, l in zip(case["sms"], case["sss"], case["loads"])]
        if k == "state":
            return [self._call_line(case, c) for c in case["calls"]]
        if k == "limit":
            return [f"c15.norm {f2h(case['sm'])} {f2h(case['ss'])} {f2h(case['lm'])} {f2h(case['ss'] * r)}" for r in case["ratios"]]
        if k == "arbk":
            return [self._call_line(case, ["arb", case["xs"], case["ps"]])]
        return []     # arb: the grids are too long for the wire; the oracle treats them.  api: no model

    def impl_lines(self, case):
        k = case["kind"]
        self._count("cases_" + k)
        if k == "norm":
            z = zvalue(case["sm"], case["ss"], case["lm"], case["ls"])
            self._count("norm_pf_decade_%+03d" % max(-12, math.floor(math.log10(min(Phi(z), Phi(-z))) + 1e-9)) + ("_lo" if z < 0 else "_hi"))
            self._count("norm_ratio_decade_%+d" % math.floor(math.log10(case["ls"] / case["ss"]) + 1e-9))
            if breakpoint_at_limit(case["sm"], case["ss"], case["lm"], case["ls"]):
                self._count("norm_breakpoint_candidate_at_limit")
            if case["ss"] / case["ls"] <= 1e-5:
                self._count("norm_strength_std_below_1e-5_load_std")
            v = f2h(self.pf_norm(case["sm"], case["ss"], case["lm"], case["ls"]))
            return [v, v]
        if k == "limits":
            self._count("limits_" + ("inf" if any(isinstance(v, str) for v in (case["lo"], case["hi"])) else
                                     "default-one-side" if None in (case["lo"], case["hi"]) else "finite"))
            return [f2h(self.pf_norm(case["sm"], case["ss"], case["lm"], case["ls"], limv(case["lo"]), limv(case["hi"])))]
        if k == "rtype":
            self._count("rtype_" + case["argtype"])
            return [f2h(self.pf_typed(case)[0])]
        if k == "simple":
            return [f2h(self.pf_simple(case["sm"], case["ss"], l)) for l in case["loads"]]
        if k == "simplearr":
            self._count("simplearr_" + case["container"] + "_" + case["shape"])
            vals, err = self.run_simplearr(case)
            return [f"EXC {err}"] * len(case["loads"]) if vals is None else [f2h(v) for v in vals]
        if k == "state":
            return [f2h(v) for v in self.run_state(case, shared=True)]
        if k == "limit":
            return [f2h(self.pf_norm(case["sm"], case["ss"], case["lm"], case["ss"] * r)) for r in case["ratios"]]
        if k == "arbk":
            if len(case["xs"]) > 1 and case["xs"][0] > case["xs"][-1]:
                self._count("arbk_descending")
            return [f2h(self.pf_arb(case["sm"], case["ss"], case["xs"], case["ps"]))]
        return []

    @staticmethod
    def _cmp_arb(a, b):
        want, got = h2f(a), h2f(b)
        if not (got == want or abs(got - want) <= 1e-11 * max(abs(got), abs(want)) + 1e-300):
            return f"trapezoid sum model={want!r} impl={got!r}"
        return None

    @staticmethod
    def _cmp_pf(a, b, rt, what=""):
        got = h2f(b)
        pf, q = [h2f(t) for t in a.split()]
        if not pf_close(got, pf, q, rt):
            return (f"{what}model pf={pf!r} (1-pf={q!r}) impl={got!r} rel.dev on pf {abs(got - pf) / pf:.3g}, "
                    f"on 1-pf {abs(got - pf) / q:.3g}")
        return None

    def compare(self, case, model_out, impl_out):
        if len(model_out) != len(impl_out):
            return f"length {len(model_out)} vs {len(impl_out)}" + (f" ({impl_out[0]})" if impl_out and impl_out[0].startswith("EXC") else "")
        k = case["kind"]
        for i, (a, b) in enumerate(zip(model_out, impl_out)):
            d = None
            if b.startswith("EXC"):
                return f"line {i}: {b}"
            if k == "arbk":
                d = self._cmp_arb(a, b)
            elif k == "norm" and i == 1:
                # the code-level model (window, the model's branch rule = that of 2da931b: direct integral or load mass minus the sf
                # integral, Gauss-Legendre; the code follows the rule of 9f34536, same window integral): same tolerance, complement
                # from the closed form
                q = model_out[0].split()[1]
                d = self._cmp_pf(f"{a} {q}", b, 1e-8, "code-level model pfNormLoadCode: ")
            elif k in ("limits", "rtype"):
                got, want = h2f(b), h2f(a)
                c = case if k == "limits" else {kk: (float(self.typed(case["argtype"], v)) if kk in ("sm", "ss", "lm", "ls") else v) for kk, v in case.items()}
                rt = 1e-5 if case.get("argtype") == "np.float32" else 1e-8     # single precision arguments: 6e-8 in log10(strength)
                if c["ls"] == 0.0:
                    ok = abs(got - want) <= max(rt, 1e-11) * abs(want)
                    mass = 1.0
                else:
                    lo, hi = self._std_limits(c)
                    mass = Phi(hi) - Phi(lo) if lo < 0 else Phi(-lo) - Phi(-hi)
                    dd = abs(got - want)
                    # relative on the window's failure probability AND on its complement within the window's load mass
                    # the model's own Phi is good for 1e-14 relative (4 x the 64 ulp granted to scipy's)
                    slack = limit_rounding(c)
                    ok = dd <= rt * abs(want) + slack + 1e-300 and dd <= rt * max(mass - want, 0.0) + slack + 4 * mass_rounding(lo, hi)
                if not ok:
                    d = f"explicit limits / typed arguments: code-level model {want!r} impl={got!r} (window load mass {mass:.3g})"
            elif k == "state":
                c = case["calls"][i]
                if c[0] == "arb":
                    d = self._cmp_arb(a, b)
                else:
                    zz = (math.log10(c[1]) - math.log10(case["sm"])) / case["ss"]
                    d = self._cmp_pf(a, b, 1e-8 if c[0] == "norm" else simple_rtol(case["sm"], case["ss"], c[1], zz), f"call {i} {c[0]} on a shared object: ")
            elif k in ("simple", "simplearr"):
                sm, ss, l = ((case["sm"], case["ss"], case["loads"][i]) if k == "simple"
                             else (case["sms"][i], case["sss"][i], case["loads"][i]))
                d = self._cmp_pf(a, b, simple_rtol(sm, ss, l, (math.log10(l) - math.log10(sm)) / ss))
            else:
                d = self._cmp_pf(a, b, 1e-8)
            if d is not None:
                return f"line {i}: {d}"
        return None

    def nontrivial(self, case, model_out):
        return json.dumps(case, sort_keys=True)

    @staticmethod
    def _std_limits(case):
        l50, ls = math.log10(case["lm"]), case["ls"]
        lo = -16.0 if case["lo"] is None else (limv(case["lo"]) - l50) / ls
        hi = 16.0 if case["hi"] is None else (limv(case["hi"]) - l50) / ls
        return min(max(lo, -16.0), 16.0), min(max(hi, -16.0), 16.0)     # documented: limits beyond 16 load sd are moved there

    # -------------------------------------------------------------- direct property oracle (real code only)
    def oracle(self, case):
        k = case["kind"]
        with warnings.catch_warnings():
            warnings.simplefilter("ignore")
            with np.errstate(all="ignore"):
                fn = getattr(self, "_oracle_" + k, None)
                return fn(case) if fn else None

    def _oracle_norm(self, case):
        sm, ss, lm, ls = case["sm"], case["ss"], case["lm"], case["ls"]
        z = zvalue(sm, ss, lm, ls)
        pf, q = Phi(z), Phi(-z)
        got, note = self.pf_norm_full(sm, ss, lm, ls)
        where = f"FailureProbability({sm!r}, {ss!r}).pf_norm_load({lm!r}, {ls!r})"
        if not (0.0 <= got <= 1.0):
            return (f"{where} = {got!r} outside [0, 1]{note}", "pf-range")
        if not pf_close(got, pf, q, RT_ORACLE):
            d = (f"{where} = {got!r}, closed form Phi({z!r}) = {pf!r} (1 - pf = {q!r}): relative deviation "
                 f"{abs(got - pf) / pf:.3g} on pf, {abs(got - pf) / q:.3g} on 1 - pf{note}")
            if breakpoint_dropped(ss, ls):
                return (d + f"; strength_std / load_std = {ss / ls:.3g}: the two break point candidates transition -+ 10 s_std/load_std "
                        "are closer to each other than 1e-6 of the integration range", "pf-breakpoint-dropped")
            if breakpoint_at_limit(sm, ss, lm, ls):
                lo_, hi_ = head_breakpoints(sm, ss, lm, ls)
                return (d + f"; break point candidates transition -+ 10 s_std/load_std = {lo_!r}, {hi_!r}: one of them lies "
                        "within 1e-9 of an integration limit +-16", "pf-breakpoint-at-limit")
            return (d, "pf-closed-form")
        # strictly increasing in the load median, strictly decreasing in the strength median: shift z by +0.1
        sig = math.hypot(ls, ss)
        if z + 0.1 <= ZMAX:
            lm2 = 10.0 ** (math.log10(lm) + 0.1 * sig)
            up = self.pf_norm(sm, ss, lm2, ls)
            if lm2 > lm and not up > got:
                return (f"pf_norm_load not increasing in the load median: {got!r} at {lm!r}, {up!r} at {lm2!r} "
                        f"(strength {sm!r}/{ss!r}, load_std {ls!r})", "pf-monotone-load")
            sm2 = 10.0 ** (math.log10(sm) - 0.1 * sig)
            up2 = self.pf_norm(sm2, ss, lm, ls)
            if sm2 < sm and not up2 > got:
                return (f"pf_norm_load not decreasing in the strength median: {got!r} at {sm!r}, {up2!r} at {sm2!r} "
                        f"(strength_std {ss!r}, load {lm!r}/{ls!r})", "pf-antitone-strength")
        return None

    def _window_verdict(self, got, note, where, sm, ss, lm, ls, lo, hi, rtol=RT_ORACLE, slack=0.0):
        """pf_norm_load with explicit limits against the independent window integral: relative on the failure probability of
        the window AND on its complement within the window's load mass (the result is a number of the size of the mass and the
        mass itself comes out of two norm.cdf / norm.sf calls: 64 ulp)"""
        P, Q, mass = ref_window(sm, ss, lm, ls, lo, hi)
        if not (0.0 <= got <= 1.0):
            return (f"{where} = {got!r} outside [0, 1] (window integral {P!r}){note}", "pf-window-cancellation" if abs(got - P) <= 1e-15 else "pf-range")
        d = abs(got - P)
        if not (d <= rtol * P + slack + 1e-300 and d <= rtol * Q + slack + mass_rounding(lo, hi)):
            klass = "pf-window-cancellation" if d <= 1e-15 * mass else "pf-explicit-limits"
            return (f"{where} = {got!r}, but the overlap integral over the window (standardised limits {lo!r} .. {hi!r}, load mass "
                    f"{mass:.6g}) is {P!r} (complement within the window {Q!r}): relative deviation {d / P if P else math.inf:.3g} on pf, "
                    f"{d / Q if Q else math.inf:.3g} on the complement{note}", klass)
        return None

    def _oracle_limits(self, case):
        sm, ss, lm, ls = case["sm"], case["ss"], case["lm"], case["ls"]
        lo, hi = self._std_limits(case)
        got, note = self.pf_norm_full(sm, ss, lm, ls, limv(case["lo"]), limv(case["hi"]))
        where = (f"FailureProbability({sm!r}, {ss!r}).pf_norm_load({lm!r}, {ls!r}, lower_limit={case['lo']!r}, "
                 f"upper_limit={case['hi']!r})")
        res = self._window_verdict(got, note, where, sm, ss, lm, ls, lo, hi, slack=limit_rounding(case))
        if res is not None:
            return res
        if lo == -16.0 and hi == 16.0:
            z = zvalue(sm, ss, lm, ls)
            if not pf_close(got, Phi(z), Phi(-z), RT_ORACLE):
                return (f"{where} = {got!r}, closed form {Phi(z)!r}{note}", "pf-explicit-limits")
        return None

    def _oracle_rtype(self, case):
        t = lambda v: float(self.typed(case["argtype"], v))
        sm, ss, lm, ls = t(case["sm"]), t(case["ss"]), t(case["lm"]), t(case["ls"])
        got, tname, note = self.pf_typed(case)
        where = (f"FailureProbability({case['argtype']}({case['sm']!r}), {case['argtype']}({case['ss']!r})).pf_norm_load("
                 f"{case['argtype']}({case['lm']!r}), {case['argtype']}({case['ls']!r}), {case['lo']!r}, {case['hi']!r})")
        if got == got and tname != "float":
            return (f"{where} returns a {tname} ({got!r}); it returns a python float when the load median is below the strength "
                    "median (and did so on every path before commit 2a91979)", "pf-return-type")
        if ls == 0.0:
            z = (math.log10(lm) - math.log10(sm)) / ss
            if not pf_close(got, Phi(z), Phi(-z), 1e-5 if case["argtype"] == "np.float32" else 1e-9):
                return (f"{where} = {got!r}: a load without scatter is pf_simple_load = {Phi(z)!r}{note}", "pf-api")
            return None
        lo, hi = self._std_limits(dict(case, lm=lm, ls=ls))
        # np.float32 arguments: the constructor keeps log10(strength_median) in single precision (6e-8)
        return self._window_verdict(got, note, where, sm, ss, lm, ls, lo, hi, 1e-5 if case["argtype"] == "np.float32" else RT_ORACLE,
                                    slack=limit_rounding(dict(case, lm=lm, ls=ls)))

    def _oracle_simple(self, case):
        sm, ss = case["sm"], case["ss"]
        vals = []
        for l in case["loads"]:
            z = (math.log10(l) - math.log10(sm)) / ss
            got = self.pf_simple(sm, ss, l)
            if not (0.0 <= got <= 1.0):
                return (f"pf_simple_load({l!r}) = {got!r} outside [0, 1]", "pf-range")
            if not pf_close(got, Phi(z), Phi(-z), 1e-9):
                return (f"FailureProbability({sm!r}, {ss!r}).pf_simple_load({l!r}) = {got!r}, Phi({z!r}) = {Phi(z)!r}", "pf-closed-form")
            vals.append((l, got))
        vals.sort()
        for (l1, p1), (l2, p2) in zip(vals, vals[1:]):
            if l2 > l1 * (1 + 1e-3 * ss) and not p2 > p1:
                return (f"pf_simple_load not increasing: {p1!r} at {l1!r}, {p2!r} at {l2!r}", "pf-monotone-load")
        return None

    def _oracle_simplearr(self, case):
        arr, err = self.run_simplearr(case)
        if arr is None:
            return (f"{err}: {case['container']} arguments ({case['shape']}), strength {case['sms']!r} / {case['sss']!r}, loads "
                    f"{case['loads']!r}", "pf-array-path")
        for i, (sm, ss, l, got) in enumerate(zip(case["sms"], case["sss"], case["loads"], arr)):
            z = (math.log10(l) - math.log10(sm)) / ss
            one = self.pf_simple(sm, ss, l)
            rt = simple_rtol(sm, ss, l, z)
            if not (pf_close(got, one, Phi(-z), rt) and pf_close(got, Phi(z), Phi(-z), 1e-9)):
                return (f"pf_simple_load with {case['container']} arguments ({case['shape']}): element {i} = {got!r}, but the scalar "
                        f"call FailureProbability({sm!r}, {ss!r}).pf_simple_load({l!r}) = {one!r} (Phi = {Phi(z)!r}); strength "
                        f"{case['sms']!r} / {case['sss']!r}, loads {case['loads']!r}", "pf-array-path")
        return None

    def _oracle_state(self, case):
        shared = self.run_state(case, shared=True)
        fresh = self.run_state(case, shared=False)
        for i, (c, a, b) in enumerate(zip(case["calls"], shared, fresh)):
            if not (a == b or (a != a and b != b)):
                return (f"call {i} ({c[0]} {c[1:]!r}) on a FailureProbability({case['sm']!r}, {case['ss']!r}) object that has already "
                        f"answered {[x[0] for x in case['calls'][:i]]} returns {a!r}; a fresh object returns {b!r}", "pf-object-state")
        return None

    def _oracle_api(self, case):
        if case["what"] == "scatter":
            return self._oracle_api_scatter(case)
        FP = _fp()
        try:
            FP.FailureProbability(1.0, 0.1).pf_arbitrary_load(np.array([1.0, 2.0, 3.0]), np.array([0.1, 0.2]))
        except ValueError:
            return None
        except Exception as e:
            return (f"pf_arbitrary_load with load_values of shape (3,) and load_pdf of shape (2,) raises {type(e).__name__}, "
                    "documented: ValueError", "pf-api")
        return ("pf_arbitrary_load accepts load_values of shape (3,) with load_pdf of shape (2,)", "pf-api")

    def _oracle_api_scatter(self, case):
        """load_std = 0 is the deterministic load (or refused with a ValueError), a negative load_std is refused or NaN"""
        FP = _fp()
        for zero in (0.0, np.float64(0.0)):
            try:
                r = float(FP.FailureProbability(100.0, 0.05).pf_norm_load(170.0, zero))
            except ValueError:
                continue
            except Exception as e:
                return (f"FailureProbability(100.0, 0.05).pf_norm_load(170.0, {zero!r}) raises {type(e).__name__}: {e}; the limit "
                        "load_std -> 0 is pf_simple_load(170.0) = 0.99999797673844", "pf-api")
            if not abs(r - 0.9999979767384418) <= 1e-12:
                return (f"FailureProbability(100.0, 0.05).pf_norm_load(170.0, {zero!r}) = {r!r}, pf_simple_load(170.0) = 0.99999797673844", "pf-api")
        try:
            r = float(FP.FailureProbability(100.0, 0.05).pf_norm_load(170.0, -0.1))
        except Exception:
            return None
        if r == r:
            return (f"FailureProbability(100.0, 0.05).pf_norm_load(170.0, -0.1) = {r!r}: a negative standard deviation is accepted "
                    "silently", "pf-api")
        return None

    def _oracle_limit(self, case):
        sm, ss, lm = case["sm"], case["ss"], case["lm"]
        target = self.pf_simple(sm, ss, lm)
        z = (math.log10(lm) - math.log10(sm)) / ss
        q = Phi(-z)
        for r in case["ratios"]:
            got = self.pf_norm(sm, ss, lm, ss * r)
            # closed form: z_r = z / sqrt(1 + r^2); allowed distance to the limit = what the closed form itself moves + tolerance
            zr = z / math.sqrt(1.0 + r * r)
            move = abs(Phi(zr) - Phi(z))
            moveq = abs(Phi(-zr) - Phi(-z))
            d = abs(got - target)
            if not (d <= move + RT_ORACLE * target and d <= moveq + RT_ORACLE * q + 4 * ULP1):
                return (f"load scatter -> 0: pf_norm_load({lm!r}, {ss * r!r}) = {got!r} but pf_simple_load({lm!r}) = {target!r} "
                        f"(strength {sm!r}/{ss!r}, scatter ratio {r!r}; the closed form moves by {move:.3g} only)", "pf-limit")
        return None

    @staticmethod
    def _own_trapezoid(x, p, s50, ss):
        y = p * Phi_vec((x - s50) / ss)
        return float(np.sum(np.diff(x) * (y[1:] + y[:-1]) / 2.0))

    def _oracle_arb(self, case):
        sm, ss, lm, ls = case["sm"], case["ss"], case["lm"], case["ls"]
        z = zvalue(sm, ss, lm, ls)
        pf = Phi(z)
        l50, s50 = math.log10(lm), math.log10(sm)
        errs = []
        for k in range(ARB_LEVELS):
            n = 250 * 2 ** k
            x = arb_grid(l50, ls, s50, ss, n)
            p = norm_pdf(x, l50, ls)
            got = self.pf_arb(sm, ss, x, p)
            own = self._own_trapezoid(x, p, s50, ss)
            if not abs(got - own) <= 1e-13 + 1e-11 * own:
                return (f"pf_arbitrary_load on {len(x)} nodes = {got!r} is not the trapezoid sum of load_pdf * Phi((x - s_50)/s_std) "
                        f"= {own!r} (difference {got - own:.3g}; strength {sm!r}/{ss!r}, load {lm!r}/{ls!r}, closed form {pf!r})",
                        "pf-arbitrary")
            e = abs(got - pf) / pf
            errs.append(e)
            if not e <= max(ARB_ENVELOPE * 4.0 ** -k, RT_ORACLE):
                return (f"pf_arbitrary_load with the sampled log-normal density ({n} intervals per scale, {len(x)} nodes) = {got!r}, "
                        f"closed form {pf!r}: relative error {e:.3g} above the second-order envelope {ARB_ENVELOPE * 4.0 ** -k:.3g} "
                        f"(strength {sm!r}/{ss!r}, load {lm!r}/{ls!r}; errors so far {['%.2g' % v for v in errs]})", "pf-arbitrary")
        if not errs[-1] <= RT_ORACLE:
            return (f"pf_arbitrary_load does not reach 1e-6 at the finest grid: {errs[-1]:.3g}", "pf-arbitrary")
        # random (non-uniform) nodes as in the upstream test: 4000 per scale, reproducible from the case
        r = np.random.default_rng(int(abs(z) * 1e6) + 17)
        x = np.unique(np.concatenate([l50 + ls * r.uniform(-16, 16, 4000), np.clip(s50 + ss * r.uniform(-10, 10, 4000), l50 - 16 * ls, l50 + 16 * ls),
                                      [l50 - 16 * ls, l50 + 16 * ls]]))
        p = norm_pdf(x, l50, ls)
        got = self.pf_arb(sm, ss, x, p)
        own = self._own_trapezoid(x, p, s50, ss)
        hmax = max(float(np.max(np.diff(x[(x >= l50 - 6 * ls) & (x <= l50 + 6 * ls)]), initial=0.0)) / ls, 0.0)
        if not abs(got - own) <= 1e-13 + 1e-11 * own or not abs(got - pf) <= 0.5 * pf + 1e-300:
            return (f"pf_arbitrary_load on {len(x)} random nodes = {got!r}; own trapezoid sum {own!r}, closed form {pf!r} "
                    f"(largest step within +-6 load sigma {hmax:.3g} sigma; strength {sm!r}/{ss!r}, load {lm!r}/{ls!r})", "pf-arbitrary")
        self._count("arb_levels_run", ARB_LEVELS + 1)
        if min(pf, Phi(-z)) == Phi(-z) and Phi(-z) < 1e-6:
            self._count("arb_cases_pf_within_1e-6_of_one")
        return None

    # -------------------------------------------------------------- shrinking
    def shrink(self, case, still_fails):
        cur = dict(case)
        for key in ("loads", "ratios"):
            if key in cur and cur["kind"] in ("simple", "limit"):
                for v in list(cur[key]):
                    cand = dict(cur, **{key: [v]})
                    try:
                        if still_fails(cand):
                            cur = cand
                            break
                    except Exception:
                        continue
        if cur["kind"] == "state":
            calls = list(cur["calls"])
            i = 0
            while i < len(calls) and len(calls) > 1:
                cand = dict(cur, calls=calls[:i] + calls[i + 1:])
                try:
                    if still_fails(cand):
                        calls = cand["calls"]
                        continue
                except Exception:
                    pass
                i += 1
            cur = dict(cur, calls=calls)
        if cur["kind"] == "norm":
            # round the parameters to few digits while the failure persists
            for digits in (3, 6):
                cand = dict(cur)
                for key in ("sm", "ss", "lm", "ls"):
                    cand[key] = float(f"{cur[key]:.{digits}g}")
                try:
                    if abs(zvalue(cand["sm"], cand["ss"], cand["lm"], cand["ls"])) <= ZMAX and still_fails(cand):
                        return cand
                except Exception:
                    continue
        return cur
