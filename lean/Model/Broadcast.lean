/-
C13 — relational model of the alignment semantics of `pylife.core.broadcaster.Broadcaster.broadcast`.

This is a model of *what the Broadcaster returns, read as relations*, not of pandas: the object and the
parameter are tables `names ↦ rows (key, payload)`; the result is one joined list of rows
`(key over the result levels, payload of the object | NaN, payload of the parameter | NaN)` which is then
split into the two returned tables.  Row *order* is not modelled (the correspondence compares canonical
sorted key→payload sets; that the two real outputs carry the same index in the same order is checked on the
real code by the oracle).  Level *order* of the result is modelled (`resultNames`).

How a pandas operand pair is read as tables (done by the harness, `harness/c13.py: tables`):
* a `Series` object is a *record* (no level, one row, payload = all its entries) when the parameter is a
  scalar / array, and for a pandas parameter iff its index is one unnamed level;
* every other object / parameter is a table whose levels are its index levels; an unnamed level gets the
  fresh name `anon side position` (it can never be shared - not even when both operands carry the identical
  partly unnamed MultiIndex: they are then joined on the named levels and cross joined on the unnamed ones);
  level names that compare equal in Python (`1`, `True`, `1.0`) are one name;
* a scalar is the table with no level and one row; an array is positional (see `prmTbl`).

Semantics (the code as it is after the repairs, repo commits b3ce47d (finding F-6, align-equal-values) and
83030b7 (finding contained-multi-shared-missing-key); further Broadcaster repairs: c67dac2, 20f8491, 190635a, bc2cb7f):
* no shared level name: cross join (nothing else: an empty operand gives an empty result);
* shared names: rows are paired when they agree on all shared levels.  A row without partner is kept: the other
  payload is NaN and the key is NaN (`none`) at the levels the row's operand does not have (outer join) -
  except when the row's operand has exactly ONE level and the other operand has two or more (pandas joins a
  flat index with a MultiIndex "on the level" and leaves out the flat operand's partner-less labels): then the
  row is silently dropped.
The Broadcaster always returns for a pandas parameter; the only modelled error is the documented `ValueError`
for an array of a wrong length.
No Mathlib.
-/
namespace PylifeVerif.Broadcast

inductive Name where
  | named (s : String)
  | anon (side pos : Nat)
  deriving DecidableEq, Repr

/-- a key of an operand: one code per level, in the order of the operand's `names` -/
abbrev Key := List Int
/-- a key of the result: a code or NaN (`none`) per result level -/
abbrev RKey := List (Option Int)

structure Tbl (V : Type) where
  names : List Name
  rows : List (Key × V)
  deriving DecidableEq

/-- the code of level `n` in the operand key `k` over `names` (`none`: no such level) -/
def get : List Name → Key → Name → Option Int
  | m :: ms, c :: cs, n => if m = n then some c else get ms cs n
  | _, _, _ => none

/-- the entry of level `n` in the result key `k` over `names` -/
def rget : List Name → RKey → Name → Option Int
  | m :: ms, c :: cs, n => if m = n then c else rget ms cs n
  | _, _, _ => none

/-- a result key restricted to the levels `sub` -/
def restrict (names : List Name) (k : RKey) (sub : List Name) : RKey := sub.map (rget names k)

/-- an operand's key, as a key over its own levels -/
def ownKey (names : List Name) (k : Key) : RKey := names.map (get names k)

/-- the payload the table holds for the (restricted) key `q`; `none` = NaN -/
def Tbl.at {V : Type} (t : Tbl V) (q : RKey) : Option V :=
  (t.rows.find? (fun r => ownKey t.names r.1 == q)).map (·.2)

def shared (on pn : List Name) : List Name := on.filter (fun n => decide (n ∈ pn))

/-- `total_columns` of broadcaster.py -/
def total (on pn : List Name) : List Name := on ++ pn.filter (fun n => !decide (n ∈ on))

def subset (a b : List Name) : Bool := a.all (fun n => decide (n ∈ b))

/-- Level order of the result.  `total_columns`, except that with at most two result levels the code does not
reorder (`if obj.index.nlevels > 2`), and pandas' join of a one-level object with a two-level parameter
that contains its level leaves the parameter's order. -/
def resultNames (on pn : List Name) : List Name :=
  if on.length = 1 ∧ pn.length = 2 ∧ subset on pn then pn else total on pn

/-- the two rows agree on every shared level -/
def agree (on : List Name) (ko : Key) (pn : List Name) (kp : Key) : Bool :=
  (shared on pn).all (fun n => get on ko n == get pn kp n)

structure Row (V : Type) where
  key : RKey
  obj : Option V
  prm : Option V
  deriving DecidableEq

/-- key of a paired row: the object's code where the object has the level, else the parameter's -/
def pairKey (ns on : List Name) (ko : Key) (pn : List Name) (kp : Key) : RKey :=
  ns.map (fun n => if n ∈ on then get on ko n else get pn kp n)

def matched {V : Type} (ns : List Name) (obj prm : Tbl V) : List (Row V) :=
  obj.rows.flatMap fun ro =>
    (prm.rows.filter fun rp => agree obj.names ro.1 prm.names rp.1).map fun rp =>
      ⟨pairKey ns obj.names ro.1 prm.names rp.1, some ro.2, some rp.2⟩

def unmatchedObj {V : Type} (obj prm : Tbl V) : List (Key × V) :=
  obj.rows.filter fun ro => !(prm.rows.any fun rp => agree obj.names ro.1 prm.names rp.1)

def unmatchedPrm {V : Type} (obj prm : Tbl V) : List (Key × V) :=
  prm.rows.filter fun rp => !(obj.rows.any fun ro => agree obj.names ro.1 prm.names rp.1)

inductive Err where
  | valueError
  deriving DecidableEq, Repr

structure Joined (V : Type) where
  names : List Name
  rows : List (Row V)
  deriving DecidableEq

/-- pandas' join "on a level": the operand `own` is flat (one level), `other` is a MultiIndex that has this level -/
def dropsUnmatched (own other : List Name) : Bool :=
  decide (own.length = 1) && decide (2 ≤ other.length) && subset own other

/-- partner-less rows of the operand with the levels `own` are kept in the result -/
def keepsUnmatched (own other : List Name) : Bool :=
  !(shared own other).isEmpty && !dropsUnmatched own other

def joinRows {V : Type} (obj prm : Tbl V) : List (Row V) :=
  let ns := resultNames obj.names prm.names
  matched ns obj prm
    ++ (if keepsUnmatched obj.names prm.names then
          (unmatchedObj obj prm).map fun ro => ⟨ns.map (get obj.names ro.1), some ro.2, none⟩ else [])
    ++ (if keepsUnmatched prm.names obj.names then
          (unmatchedPrm obj prm).map fun rp => ⟨ns.map (get prm.names rp.1), none, some rp.2⟩ else [])

def broadcastTbl {V : Type} (obj prm : Tbl V) : Joined V :=
  ⟨resultNames obj.names prm.names, joinRows obj prm⟩

/-- a returned table: result keys with a payload or NaN -/
structure RTbl (V : Type) where
  names : List Name
  rows : List (RKey × Option V)
  deriving DecidableEq

/-- what `broadcast` returns: `(parameter, object)` -/
structure Out (V : Type) where
  prm : RTbl V
  obj : RTbl V
  deriving DecidableEq

def split {V : Type} (j : Joined V) : Out V :=
  { prm := ⟨j.names, j.rows.map fun r => (r.key, r.prm)⟩
    obj := ⟨j.names, j.rows.map fun r => (r.key, r.obj)⟩ }

inductive Prm (V : Type) where
  | scalar (v : V)
  | array (vs : List V)
  | tbl (t : Tbl V)

def enumFrom {V : Type} : Nat → List V → List (Key × V)
  | _, [] => []
  | i, v :: vs => ([Int.ofNat i], v) :: enumFrom (i + 1) vs

/-- The parameter as a table.  A scalar has no level.  An array against a record gets a fresh range level;
against a table it is positional (`np.broadcast_to(parameter, len(obj))`: equal length, or length one), any
other length is the documented `ValueError`. -/
def prmTbl {V : Type} (obj : Tbl V) : Prm V → Except Err (Tbl V)
  | .scalar v => .ok ⟨[], [([], v)]⟩
  | .array vs =>
    if obj.names = [] then .ok ⟨[.anon 1 0], enumFrom 0 vs⟩
    else if vs.length = obj.rows.length then .ok ⟨obj.names, List.zipWith (fun r v => (r.1, v)) obj.rows vs⟩
    else match vs with
      | [v] => .ok ⟨obj.names, obj.rows.map fun r => (r.1, v)⟩
      | _ => .error .valueError
  | .tbl t => .ok t

def broadcast {V : Type} (obj : Tbl V) (p : Prm V) : Except Err (Out V) :=
  match prmTbl obj p with
  | .error e => .error e
  | .ok t =>
    .ok (split (broadcastTbl obj t))

end PylifeVerif.Broadcast
