/-
Independent reference definitions for C04 / C05 (no Mathlib):
* `periodicRainflow`: the closed cycles of the endlessly repeated load sequence,
* `guideline`: the FKM-nonlinear HCM procedure (primary branch, Masing secondary branches,
  Memory 1-3) on one assessment point, written as a recursion over the reversal sequence,
  independent of the detector's chunk / vector / recorder bookkeeping.
-/
import Model.HCM
import Model.Rainflow.Spec

namespace PylifeVerif.HCM.Spec
open PylifeVerif.Rainflow

/-- remove consecutive duplicates -/
def dedup : List Int → List Int
  | a :: b :: rest => if a = b then dedup (b :: rest) else a :: dedup (b :: rest)
  | l => l

/-- Reversal sequence of the cyclic word `s`: consecutive duplicates removed (also across the
junction), then every element whose cyclic neighbours lie on the same side of it. -/
def cyclicReversals (s : List Int) : List Int :=
  let d := dedup s
  let d := if d.length > 1 ∧ d.head? = d.getLast? then d.dropLast else d
  let n := d.length
  if n < 2 then d else
  let a := d.toArray
  (List.range n).filterMap fun i =>
    let p := a[(i + n - 1) % n]!
    let v := a[i]!
    let q := a[(i + 1) % n]!
    if (p < v ∧ q < v) ∨ (p > v ∧ q > v) then some v else none

/-- first index of the largest absolute value -/
def argmaxAbs (l : List Int) : Nat := argmax (l.map fun x => (x.natAbs : Int))

/-- four-point rule on values only -/
def reduce4v : List Int → List (Int × Int) × List Int
  | d :: c :: b :: a :: rest =>
    if absDiff b c ≤ absDiff a b ∧ absDiff b c ≤ absDiff c d then
      let r := reduce4v (d :: a :: rest)
      ((min b c, max b c) :: r.1, r.2)
    else ([], d :: c :: b :: a :: rest)
  | st => ([], st)
termination_by st => st.length

/-- Closed cycles `(lo, hi)` of the periodic sequence: rotate the cyclic reversal sequence to its
largest absolute value, close it by repeating that value, count with the four-point rule; the
residue `[M, m, M]` is the outermost cycle. -/
def periodicRainflow (s : List Int) : List (Int × Int) :=
  let rev := cyclicReversals s
  if rev.length < 2 then [] else
  let k := argmaxAbs rev
  let rot := rev.drop k ++ rev.take k ++ [rev.getD k 0]
  let r := rot.foldl (fun (acc : List (Int × Int) × List Int) p =>
      let r := reduce4v (p :: acc.2)
      (acc.1 ++ r.1, r.2)) ([], [])
  match r.2 with
  | [c, b, _] => r.1 ++ [(min b c, max b c)]
  | _ => r.1

/-! ### Guideline HCM on one point -/

structure GPoint where
  load : Int
  stress : Int
  strain : Int
deriving Repr, DecidableEq

structure GHyst where
  loadMin : Int
  loadMax : Int
  sMin : Int
  sMax : Int
  eMin : Int
  eMax : Int
  eMinLF : Int
  eMaxLF : Int
  closed : Bool
  run : Nat
deriving Repr, DecidableEq

structure GState where
  res : List GPoint := []      -- open hysteresis points, newest first
  ir : Nat := 1                -- how many of them lie on the primary path
  lmax : Nat := 0              -- largest absolute load so far
  eMinLF : Int := 0
  eMaxLF : Int := 0
  prevLoad : Int := 0
  recs : List GHyst := []
  strains : List Int := []
deriving Repr

def gPrimary (law : Law) (l : Int) : GPoint :=
  let s := law.sigma l
  { load := l, stress := s, strain := law.eps s l }

def gSecondary (law : Law) (p : GPoint) (l : Int) : GPoint :=
  let d := l - p.load
  let ds := law.dsigma d
  { load := l, stress := p.stress + ds, strain := p.strain + law.deps ds d }

/-- Where does the reversal `l` end up?  Close every hysteresis it closes (Memory 1 / 2), count the
half hysteresis when it leaves the primary path beyond the largest load so far (Memory 3). -/
def gStep (law : Law) (run : Nat) (l : Int) : Nat → GState → GState × GPoint
  | 0, st => (st, gPrimary law l)
  | fuel+1, st =>
    let iz := st.res.length
    if iz < st.ir then (st, gPrimary law l)                                   -- on the primary path
    else if iz = st.ir then
      match st.res with
      | j :: _ =>
        if l.natAbs > st.lmax then
          -- Memory 3: leaves beyond the largest load: half hysteresis, symmetric about zero
          let h : GHyst := { loadMin := -(j.load.natAbs : Int), loadMax := j.load.natAbs,
                             sMin := -(j.stress.natAbs : Int), sMax := j.stress.natAbs,
                             eMin := -(j.strain.natAbs : Int), eMax := j.strain.natAbs,
                             eMinLF := st.eMinLF, eMaxLF := st.eMaxLF, closed := false, run := run }
          ({ st with recs := st.recs ++ [h], ir := st.ir + 1 }, gPrimary law l)
        else (st, gSecondary law j l)
      | [] => (st, gPrimary law l)
    else
      match st.res with
      | j :: i :: rest =>
        if (l - j.load).natAbs ≥ (j.load - i.load).natAbs then
          let h : GHyst := { loadMin := min i.load j.load, loadMax := max i.load j.load,
                             sMin := min i.stress j.stress, sMax := max i.stress j.stress,
                             eMin := min i.strain j.strain, eMax := max i.strain j.strain,
                             eMinLF := st.eMinLF, eMaxLF := st.eMaxLF, closed := true, run := run }
          gStep law run l fuel { st with recs := st.recs ++ [h], res := rest }
        else (st, gSecondary law j l)
      | _ => (st, gPrimary law l)

def gTurn (law : Law) (run : Nat) (st : GState) (l : Int) : GState :=
  let (st, p) := gStep law run l (st.res.length / 2 + 2) st
  let st := { st with res := p :: st.res, lmax := max st.lmax l.natAbs, strains := st.strains ++ [p.strain] }
  let st := if st.prevLoad < l then { st with eMaxLF := max st.eMaxLF p.strain }
            else { st with eMinLF := min st.eMinLF p.strain }
  { st with prevLoad := l }

/-- Both passes: `turns1`, `turns2` are the reversal sequences handed to pass 1 and pass 2. -/
def guideline (law : Law) (turns1 turns2 : List Int) : GState :=
  let st := turns1.foldl (gTurn law 1) {}
  turns2.foldl (gTurn law 2) st

end PylifeVerif.HCM.Spec
