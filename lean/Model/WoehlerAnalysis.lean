/-
Model of the Wöhler test-data analysis (property C18).

  * `materialdata/woehler/fatigue_data.py`   FatigueData: fractures / runouts, `_calc_finite_zone*`,
                                              `finite_infinite_transition`, `irrelevant_runouts_dropped`
  * `materialdata/woehler/elementary.py`     Elementary: `_fit_slope`, `_transition_cycles`, `_pearl_chain_method`
  * `materialdata/woehler/pearl_chain.py`    PearlChainProbability (shift to the mean load, sort, Rossow)
  * `utils/probability_data.py`              ProbabilityFit (regression of Φ⁻¹(p) on log10 of the occurrences)
  * `materialdata/woehler/probit.py`         Probit (`__probit_rossow_estimation`, `__probit_analysis`)
  * `materialdata/woehler/likelihood.py`     Likelihood (`likelihood_finite`, `likelihood_infinite`, `likelihood_total`)
  * `scipy.stats.linregress`                 modelled by the OLS closed form (slope = Sxy / Sxx, intercept = ȳ − slope·x̄)

  * `materialdata/woehler/maxlike.py`        MaxLikeInf / MaxLikeFull: start point, objective handed to the optimiser, fixed
                                              parameters (no run-outs: SD = 0, TS = 1; fewer than two mixed levels: TS of the
                                              pearl chain), post-processing of the optimiser's answer

`scipy.stats.norm.ppf` / `cdf` are PARAMETERS `Q`, `Φ` of the model.  `scipy.optimize.fmin` is a PARAMETER `opt` of the
maximum-likelihood pipelines `maxLikeInf` / `maxLikeFull`: `opt f` is the point (in parameters RELATIVE to the start
values, as the code optimises since fc45e06) that the optimiser returns for the objective `f`; nothing is assumed of it.

Generic in the carrier (see `Model/Num.lean`).  No Mathlib import.
-/
import Model.Num

namespace PylifeVerif.WoehlerAnalysis

variable {α : Type} [Add α] [Sub α] [Mul α] [Div α] [Neg α] [OfScientific α]
  [LT α] [LE α] [DecidableLT α] [DecidableLE α] [Transc α]

/-- one fatigue test: load level, cycles (to failure or at run-out), fracture flag -/
structure Test (α : Type) where
  load : α
  cycles : α
  fracture : Bool

/-! ### list arithmetic -/

def sum : List α → α
  | [] => 0.0
  | x :: xs => x + sum xs

/-- the length of a list as an element of the carrier -/
def lenα {β : Type} : List β → α
  | [] => 0.0
  | _ :: xs => lenα xs + 1.0

def mean (l : List α) : α := sum l / lenα l

/-- maximum of a non-empty list (first element for the empty tail) -/
def maxOf (x : α) : List α → α
  | [] => x
  | y :: ys => maxOf (if x < y then y else x) ys

def minOf (x : α) : List α → α
  | [] => x
  | y :: ys => minOf (if y < x then y else x) ys

/-- equality of carrier elements through the order (`Float` has no decidable equality) -/
def eqα (a b : α) : Bool := decide (a ≤ b) && decide (b ≤ a)

/-! ### ordinary least squares (`scipy.stats.linregress`) -/

/-- `(slope, intercept)` of the regression of the second on the first coordinate -/
def ols (pts : List (α × α)) : α × α :=
  let xm := mean (pts.map (·.1))
  let ym := mean (pts.map (·.2))
  let sxy := sum (pts.map fun p => (p.1 - xm) * (p.2 - ym))
  let sxx := sum (pts.map fun p => (p.1 - xm) * (p.1 - xm))
  let slope := sxy / sxx
  (slope, ym - slope * xm)

/-! ### zones (`fatigue_data.py`) -/

def fractures (d : List (Test α)) : List (Test α) := d.filter (·.fracture)
def runouts (d : List (Test α)) : List (Test α) := d.filter (!·.fracture)

/-- `max_runout_load` (only used when there are run-outs) -/
def maxRunoutLoad (d : List (Test α)) : α :=
  match (runouts d).map (·.load) with
  | [] => 0.0
  | x :: xs => maxOf x xs

/-- `_calc_finite_zone`: fractures strictly above the highest run-out level; everything when there is no run-out -/
def finiteZone (d : List (Test α)) : List (Test α) :=
  if (runouts d).isEmpty then d
  else (fractures d).filter fun t => decide (maxRunoutLoad d < t.load)

/-- `_calc_finite_zone`: all tests at or below the highest run-out level -/
def infiniteZone (d : List (Test α)) : List (Test α) :=
  if (runouts d).isEmpty then []
  else d.filter fun t => decide (t.load ≤ maxRunoutLoad d)

/-- `_guess_from_second_highest_runout`: `m₁ + (m₁ − m₀)/2` with the two highest distinct load levels -/
def guessTransition (d : List (Test α)) : α :=
  match d.map (·.load) with
  | [] => 0.0
  | x :: xs =>
    let m1 := maxOf x xs
    match (x :: xs).filter (fun l => decide (l < m1)) with
    | [] => m1                       -- the code raises IndexError (a single load level); never reached by the analyzers
    | y :: ys => m1 + (m1 - maxOf y ys) / 2.0

/-- `finite_infinite_transition` (automatic) -/
def transition (d : List (Test α)) : α :=
  if (runouts d).isEmpty then 0.0
  else match (finiteZone d).map (·.load) with
    | [] => guessTransition d
    | x :: xs => (minOf x xs + maxRunoutLoad d) / 2.0

/-- `irrelevant_runouts_dropped`: pure run-out levels below the highest pure run-out level are dropped when that level
lies below every fractured level (and there are at least two pure run-out levels). -/
def irrelevantRunoutsDropped (d : List (Test α)) : List (Test α) :=
  let fl := (fractures d).map (·.load)
  let pure := ((runouts d).map (·.load)).filter fun l => !(fl.any (eqα l))
  match pure, fl with
  | p :: ps, f :: fs =>
    if ps.all (eqα p) then d                       -- at most one pure run-out level
    else
      let pmax := maxOf p ps
      if pmax < minOf f fs then d.filter (fun t => !(decide (t.load < pmax))) else d
  | _, _ => d

/-! ### Elementary -/

structure Curve (α : Type) where
  k1 : α
  ND : α
  SD : α
  TN : α
  TS : α

/-- `_fit_slope`: regression of log10 cycles on log10 load over the fractures of the finite zone -/
def fitSlope (d : List (Test α)) : α × α :=
  ols (((finiteZone d).filter (·.fracture)).map fun t => (Transc.log10 t.load, Transc.log10 t.cycles))

/-- `_transition_cycles` (with the code's substitution of 0.1 for a zero endurance limit) -/
def transitionCycles (slope icpt fit : α) : α :=
  let f := if eqα fit 0.0 then 0.1 else fit
  Transc.pow 10.0 (icpt + slope * Transc.log10 f)

def insertSorted (a : α) : List α → List α
  | [] => [a]
  | b :: bs => if a ≤ b then a :: b :: bs else b :: insertSorted a bs

/-- `np.sort` -/
def sort : List α → List α
  | [] => []
  | a :: as => insertSorted a (sort as)

/-- `rossow_cumfreqs(N)`: `(3 i − 1)/(3 N + 1)`, `i = 1 … N`; `i` runs in the carrier -/
def rossowFrom (i N : α) : Nat → List α
  | 0 => []
  | n + 1 => (3.0 * i - 1.0) / (3.0 * N + 1.0) :: rossowFrom (i + 1.0) N n

def rossow {β : Type} (l : List β) : List α := rossowFrom 1.0 (lenα l) l.length

/-- `std_to_scattering_range(1/slope)` -/
def scatterOfSlope (s : α) : α := Transc.pow 10.0 (2.5631031310892007 * (1.0 / s))

/-- the cycles shifted along the slope to the mean load, sorted (`PearlChainProbability.normed_cycles`) -/
def normedCycles (ff : List (Test α)) (slope : α) : List α :=
  let nl := mean (ff.map (·.load))
  sort (ff.map fun t => t.cycles * Transc.pow (nl / t.load) slope)

/-- slope of the probability-net regression of the pearl chain (`ProbabilityFit.slope`) -/
def pearlChainSlope (Q : α → α) (ff : List (Test α)) (slope : α) : α :=
  let nc := normedCycles ff slope
  (ols ((nc.map Transc.log10).zip ((rossow nc).map Q))).1

/-- `Elementary._common_analysis` on already reduced data -/
def elementaryCore (Q : α → α) (d : List (Test α)) : Curve α :=
  let ff := (finiteZone d).filter (·.fracture)
  let (slope, icpt) := fitSlope d
  let TN := scatterOfSlope (pearlChainSlope Q ff slope)
  { k1 := -slope, ND := transitionCycles slope icpt (transition d), SD := transition d,
    TN := TN, TS := Transc.pow TN (1.0 / -slope) }

/-- `Elementary(df).analyze()` in the regular case (two fractured load levels with spread of cycles in the finite zone) -/
def elementary (Q : α → α) (d : List (Test α)) : Curve α := elementaryCore Q (irrelevantRunoutsDropped d)

/-! ### Probit -/

/-- consecutive duplicates removed (input sorted) -/
def dedup : List α → List α
  | [] => []
  | [a] => [a]
  | a :: b :: rest => if eqα a b then dedup (b :: rest) else a :: dedup (b :: rest)

/-- the load levels of a list of tests, ascending (`groupby('load')`) -/
def levels (d : List (Test α)) : List α := dedup (sort (d.map (·.load)))

/-- Rossow estimate of the failure probability of one level (`__probit_rossow_estimation`) -/
def probitProb (g : List (Test α)) : α :=
  let frac : α := lenα (fractures g)
  let tot : α := lenα g
  if (fractures g).isEmpty then 1.0 - Transc.pow 0.5 (1.0 / tot)
  else if (runouts g).isEmpty then Transc.pow 0.5 (1.0 / tot)
  else (3.0 * frac - 1.0) / (3.0 * tot + 1.0)

/-- the points of the probit regression: `(log10 level, Φ⁻¹(estimated failure probability))` -/
def probitPoints (Q : α → α) (inf : List (Test α)) : List (α × α) :=
  (levels inf).map fun L =>
    let g := inf.filter fun t => eqα t.load L
    (Transc.log10 (mean (g.map (·.load))), Q (probitProb g))

/-- `Probit(df).analyze()` in the regular case -/
def probit (Q : α → α) (d0 : List (Test α)) : Curve α :=
  let d := irrelevantRunoutsDropped d0
  let wc := elementaryCore Q d
  let (slope, icpt) := fitSlope d
  let inf := infiniteZone d
  match levels inf with
  | _ :: _ :: _ =>
    let (ps, pi) := ols (probitPoints Q inf)
    let SD := Transc.pow 10.0 (-pi / ps)
    { wc with TS := scatterOfSlope ps, SD := SD, ND := transitionCycles slope icpt SD }
  | _ => wc        -- fewer than two levels in the infinite zone: falls back to Elementary (with a warning)

/-! ### likelihood (`likelihood.py`); `none` = the code's `-inf` -/

/-- `scattering_range_to_std` -/
def stdOfScatter (T : α) : α := 0.39015207303618954 * Transc.log10 T

/-- log of `norm.pdf(x, mu, std)` -/
def logNormPdf (x mu std : α) : α :=
  let z := (x - mu) / std
  Transc.log (Transc.exp (-(z * z) / 2.0) / (Transc.sqrt (2.0 * 3.141592653589793) * std))

/-- `likelihood_finite(SD, k_1, ND, TN)`: over ALL fractures -/
def likFinite (d : List (Test α)) (SD k1 ND TN : α) : Option α :=
  if 0.0 < SD then
    some (sum ((fractures d).map fun t =>
      logNormPdf (Transc.log10 (t.cycles * Transc.pow (t.load / SD) k1)) (Transc.log10 ND) (stdOfScatter TN)))
  else none

/-- one factor of the infinite-zone likelihood: `Φ` for a fracture, `1 − Φ` for a run-out -/
def infFactor (Φ : α → α) (SD TS : α) (t : Test α) : α :=
  let p := Φ (Transc.log10 (t.load / SD) / Transc.abs (stdOfScatter TS))
  if t.fracture then 0.0 + (1.0 - 2.0 * 0.0) * p else 1.0 + (1.0 - 2.0 * 1.0) * p

/-- `likelihood_infinite(SD, TS)` over the infinite zone -/
def likInfinite (Φ : α → α) (d : List (Test α)) (SD TS : α) : Option α :=
  let fs := (infiniteZone d).map (infFactor Φ SD TS)
  if fs.any (eqα 0.0) then none else some (sum (fs.map Transc.log))

def likTotal (Φ : α → α) (d : List (Test α)) (c : Curve α) : Option α :=
  match likFinite d c.SD c.k1 c.ND c.TN, likInfinite Φ d c.SD c.TS with
  | some a, some b => some (a + b)
  | _, _ => none

/-! ### maximum likelihood (`maxlike.py`); the optimiser is a parameter -/

/-- the objective `MaxLikeInf.__max_likelihood_inf_limit` hands to `fmin` (negated there): the infinite-zone likelihood in
parameters relative to the start values `SD_start = finite_infinite_transition`, `TS_start = 1.2`; `d` = reduced data -/
def maxLikeInfObjective (Φ : α → α) (d : List (Test α)) (p : α × α) : Option α :=
  likInfinite Φ d (p.1 * transition d) (p.2 * 1.2)

/-- `MaxLikeInf(df).analyze()` in the regular case; `opt f` = the relative parameters the optimiser returns for objective `f`
(started at `(1, 1)`).  `SD`, `TS` come from the optimiser, `ND` is re-evaluated at the new `SD`, `k_1`, `TN` stay. -/
def maxLikeInf (Q Φ : α → α) (opt : (α × α → Option α) → α × α) (d0 : List (Test α)) : Curve α :=
  let d := irrelevantRunoutsDropped d0
  let wc := elementaryCore Q d
  let (slope, icpt) := fitSlope d
  let r := opt (maxLikeInfObjective Φ d)
  let SD := r.1 * transition d
  { wc with SD := SD, TS := r.2 * 1.2, ND := transitionCycles slope icpt SD }

/-- `L` is a mixed load level: a fracture and a run-out were observed on it (`FatigueData.mixed_loads`) -/
def isMixedLoad (d : List (Test α)) (L : α) : Bool :=
  (fractures d).any (fun t => eqα t.load L) && (runouts d).any (fun t => eqα t.load L)

/-- `len(mixed_loads) < 2`: any two mixed load levels coincide -/
def fewMixedLevels (d : List (Test α)) : Bool :=
  d.all fun t => d.all fun u => !(isMixedLoad d t.load && isMixedLoad d u.load) || eqα t.load u.load

/-- the scale of one optimisation variable of `MaxLikeFull`: its start value, or 1 when the start value is 0 (the optimiser
must be able to leave a zero start: /repo commit d747c6e) -/
def relScale (s : α) : α := if eqα s 0.0 then 1.0 else s

/-- the start vector of `MaxLikeFull`'s search in scaled variables: `start / scale` = 1, or 0 for a zero start value -/
def fullStart (wc : Curve α) : Curve α :=
  { k1 := wc.k1 / relScale wc.k1, ND := wc.ND / relScale wc.ND, SD := wc.SD / relScale wc.SD,
    TN := wc.TN / relScale wc.TN, TS := wc.TS / relScale wc.TS }

/-- The curve `MaxLikeFull.__likelihood_wrapper` / `__make_parameters` build from the optimiser's vector `rel` (in units
of `relScale` of the start curve `wc`; components of fixed parameters are ignored) - without user-fixed parameters:
no run-outs: `SD = 0`, `TS = 1` fixed; run-outs but fewer than two mixed levels: `TS` fixed to the pearl-chain value
(which is `wc.TS`); every component passes through `np.abs`. -/
def fullParams (d : List (Test α)) (wc rel : Curve α) : Curve α :=
  let noRun := (runouts d).isEmpty
  { k1 := Transc.abs (rel.k1 * relScale wc.k1), ND := Transc.abs (rel.ND * relScale wc.ND),
    TN := Transc.abs (rel.TN * relScale wc.TN),
    SD := if noRun then Transc.abs 0.0 else Transc.abs (rel.SD * relScale wc.SD),
    TS := if noRun then Transc.abs 1.0 else if fewMixedLevels d then Transc.abs wc.TS
          else Transc.abs (rel.TS * relScale wc.TS) }

/-- the objective `MaxLikeFull.__max_likelihood_full` hands to `fmin` (negated there).  `ND = 0`: the code computes
`log10 ND = -inf`, the likelihood is `-inf` (`none`); `SD = 0` (always so without run-outs) is `-inf` by `likFinite`. -/
def maxLikeFullObjective (Φ : α → α) (d : List (Test α)) (wc rel : Curve α) : Option α :=
  let c := fullParams d wc rel
  if 0.0 < c.ND then likTotal Φ d c else none

/-- `MaxLikeFull(df).analyze()` (no user-fixed parameters) in the regular case; `opt f x₀` = the vector the optimiser
returns for objective `f` started at `x₀` (`fullStart`: ones, zero where the elementary start value is zero) -/
def maxLikeFull (Q Φ : α → α) (opt : (Curve α → Option α) → Curve α → Curve α) (d0 : List (Test α)) : Curve α :=
  let d := irrelevantRunoutsDropped d0
  let wc := elementaryCore Q d
  fullParams d wc (opt (maxLikeFullObjective Φ d wc) (fullStart wc))

/-! ### the transformations of the property (used by the theorems and the driver) -/

/-- all loads multiplied by `c` -/
def scaleLoad (c : α) (d : List (Test α)) : List (Test α) := d.map fun t => { t with load := c * t.load }

/-- all cycle numbers multiplied by `c` -/
def scaleCycles (c : α) (d : List (Test α)) : List (Test α) := d.map fun t => { t with cycles := c * t.cycles }

end PylifeVerif.WoehlerAnalysis
