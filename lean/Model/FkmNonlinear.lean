/-
Model of the FKM-nonlinear damage curves, the P_RAM damage parameter, the P_RAM damage
accumulation / lifetime logic, the safety index and the load safety factors (property C09).

  * `woehler_fkm_nonlinear.py`     WoehlerCurvePRAM.calc_N / calc_P_RAM / fatigue_life_limit,
                                    WoehlerCurvePRAJ.calc_N / calc_P_RAJ / fatigue_life_limit
  * `damage_parameter.py`           P_RAM._compute_values (row function)
  * `fkm_nonlinear/damage_calculator.py`  DamageCalculatorPRAM (N, D, cumsum / searchsorted,
                                    lifetime_n_times_load_sequence, lifetime_n_cycles, P_RAM_max,
                                    is_life_infinite) for one assessment point
  * `fkm_nonlinear/parameter_calculations.py`  compute_beta (the part after the root search)
  * `fkm_load_distribution.py`      _get_beta and the three gamma_L bodies
  * `fkm_nonlinear/constants.py`    all_constants (the literal table)

Every numeric function is written once, generic in the carrier (see `Model/Num.lean`): the driver
runs it at `Float`, the proofs at `ℝ`.  No Mathlib import.
-/
import Model.Num

namespace PylifeVerif.FkmNl

variable {α : Type} [Add α] [Sub α] [Mul α] [Div α] [Neg α] [OfScientific α]
  [LT α] [LE α] [DecidableLT α] [DecidableLE α] [Transc α]

/-- A number of cycles: finite, or `np.inf`. -/
inductive Life (α : Type) where
  | finite (n : α)
  | inf
  deriving Repr

/-! ### P_RAM component Wöhler curve -/

/-- The four mandatory keys of `woehler_P_RAM`. -/
structure PramCurve (α : Type) where
  d1 : α
  d2 : α
  PZ : α
  PD : α

/-- What `_validate` accepts (`P_RAM_Z > P_RAM_D`, `d_1 < 0`, `d_2 < 0`; NaN handling not modelled). -/
def PramCurve.accepted (c : PramCurve α) : Prop := c.PD < c.PZ ∧ c.d1 < 0.0 ∧ c.d2 < 0.0

/-- The power-law part of `calc_N` (also the `N` column of `DamageCalculatorPRAM.__init__`, which has
no endurance cut-off): slope `d_1` at and above `P_RAM_Z`, slope `d_2` below. -/
def pramN (c : PramCurve α) (P : α) : α :=
  if c.PZ ≤ P then 1.0e3 * Transc.pow (P / c.PZ) (1.0 / c.d1)
  else 1.0e3 * Transc.pow (P / c.PZ) (1.0 / c.d2)

/-- `WoehlerCurvePRAM.calc_N`: infinite at and below `fatigue_strength_limit = P_RAM_D`. -/
def pramCalcN (c : PramCurve α) (P : α) : Life α :=
  if c.PD < P then .finite (pramN c P) else .inf

/-- `WoehlerCurvePRAM.fatigue_life_limit`. -/
def pramLifeLimit (c : PramCurve α) : α := 1.0e3 * Transc.pow (c.PD / c.PZ) (1.0 / c.d2)

/-- `WoehlerCurvePRAM.calc_P_RAM` for a finite `N`. -/
def pramCalcP (c : PramCurve α) (N : α) : α :=
  if N < 1.0e3 then c.PZ * Transc.pow (N * 1.0e-3) c.d1
  else if N < pramLifeLimit c then c.PZ * Transc.pow (N * 1.0e-3) c.d2
  else c.PD

/-- `calc_P_RAM` on a `Life` (`np.inf < x` is false twice, so the endurance value results). -/
def pramCalcPLife (c : PramCurve α) : Life α → α
  | .finite n => pramCalcP c n
  | .inf => c.PD

/-! ### P_RAJ component Wöhler curve -/

/-- `woehler_P_RAJ`: keys `d_RAJ`, `P_RAJ_Z`, `P_RAJ_D_0`, and the mutable `_P_RAJ_D`
(initialised with `P_RAJ_D_0`, changed by `update_P_RAJ_D`). -/
structure PrajCurve (α : Type) where
  d : α
  PZ : α
  PD0 : α
  PD : α

def PrajCurve.accepted (c : PrajCurve α) : Prop := c.PD0 < c.PZ ∧ c.d < 0.0

def prajN (c : PrajCurve α) (P : α) : α := Transc.pow (P / c.PZ) (1.0 / c.d)

/-- `WoehlerCurvePRAJ.calc_N(P_RAJ)` (uses the current `_P_RAJ_D`). -/
def prajCalcN (c : PrajCurve α) (P : α) : Life α :=
  if c.PD < P then .finite (prajN c P) else .inf

/-- `fatigue_life_limit` (from `P_RAJ_D_0`). -/
def prajLifeLimit (c : PrajCurve α) : α := Transc.pow (c.PD0 / c.PZ) (1.0 / c.d)

/-- `fatigue_life_limit_final` (from the current `_P_RAJ_D`). -/
def prajLifeLimitFinal (c : PrajCurve α) : α := Transc.pow (c.PD / c.PZ) (1.0 / c.d)

/-- `WoehlerCurvePRAJ.calc_P_RAJ`. -/
def prajCalcP (c : PrajCurve α) (N : α) : α :=
  if N < prajLifeLimit c then c.PZ * Transc.pow N c.d else c.PD0

def prajCalcPLife (c : PrajCurve α) : Life α → α
  | .finite n => prajCalcP c n
  | .inf => c.PD0

/-! ### the P_RAM damage parameter (row function of `P_RAM._compute_values`) -/

/-- `M_sigma = a_M * 1e-3 * R_m + b_M`, eq. (2.6-84). -/
def mSigma (aM bM Rm : α) : α := aM * 1.0e-3 * Rm + bM

/-- the mean stress factor `k`, eq. (2.6-83): `M (M + 2)` for `S_m ≥ 0`, `M/3 (M/3 + 2)` for `S_m < 0`. -/
def kFactor (M Sm : α) : α :=
  if 0.0 ≤ Sm then M * (M + 2.0) else M / 3.0 * (M / 3.0 + 2.0)

/-- `S_a + k S_m` (the column the code calls "discriminant"). -/
def pramDisc (M Sa Sm : α) : α := Sa + kFactor M Sm * Sm

/-- `P_RAM` of one hysteresis, eq. (2.6-82): the code tests the FACTOR `S_a + k S_m`, not the product. -/
def pRAM (M E Sa Sm ea : α) : α :=
  if 0.0 ≤ pramDisc M Sa Sm then Transc.sqrt (pramDisc M Sa Sm * ea * E) else 0.0

/-! ### `DamageCalculatorPRAM` for one assessment point -/

/-- One hysteresis of the collective: `P_RAM`, `is_closed_hysteresis`, `run_index`. -/
structure Row (α : Type) where
  P : α
  closed : Bool
  run : Nat

/-- column `D`: `1/N` for a closed hysteresis, `0.5/N` for a half one. -/
def rowD (c : PramCurve α) (r : Row α) : α :=
  if r.closed then 1.0 / pramN c r.P else 0.5 / pramN c r.P

/-- `cumsum` (running sums, first entry `acc + x₀`). -/
def cumsumFrom (acc : α) : List α → List α
  | [] => []
  | x :: xs => (acc + x) :: cumsumFrom (acc + x) xs

/-- `np.searchsorted(a, v)` (side = left) on a non-decreasing array: the number of leading entries `< v`,
i.e. the first index with `a[i] ≥ v`, `len(a)` if there is none. -/
def firstGe (v : α) : List α → Nat
  | [] => 0
  | x :: xs => if x < v then firstGe v xs + 1 else 0

/-- the same count as an element of the carrier (`np.where` turns the integer index into a double). -/
def firstGeNum (v : α) : List α → α
  | [] => 0.0
  | x :: xs => if x < v then firstGeNum v xs + 1.0 else 0.0

/-- sum of the damages of one run (`.loc[run_index == r, "D"].sum()`, default 0 when there is none). -/
def sumRun (run : Nat) : List (α × Nat) → α
  | [] => 0.0
  | (d, r) :: rest => if r = run then d + sumRun run rest else sumRun run rest

/-- number of rows of one run, as an element of the carrier. -/
def countRun (run : Nat) : List (α × Nat) → α
  | [] => 0.0
  | (_, r) :: rest => if r = run then countRun run rest + 1.0 else countRun run rest

/-- What the lifetime properties return. -/
structure LifeResult (α : Type) where
  /-- `_n_cycles_until_damage < _n_hystereses`: the damage sum reaches one within the two recorded passes -/
  early : Bool
  /-- `_n_cycles_until_damage` -/
  idx : Nat
  /-- `_x`, eq. (2.6-90) -/
  x : α
  /-- `lifetime_n_times_load_sequence` -/
  nSeq : α
  /-- `lifetime_n_cycles` -/
  nCycles : α

/-- eq. (2.6-90) as coded: `np.where(D_1 == 0, 1 / D_2, (1 - D_1) / D_2)`. -/
def xOf (D1 D2 : α) : α :=
  if D1 ≤ 0.0 ∧ 0.0 ≤ D1 then 1.0 / D2 else (1.0 - D1) / D2

/-- The lifetime logic as a function of the damage column and the run indices (table order). -/
def lifetimeOfDamages (ds : List (α × Nat)) : LifeResult α :=
  let cum := cumsumFrom 0.0 (ds.map (·.1))
  let idx := firstGe 1.0 cum
  let early := decide (idx < ds.length)
  let x := xOf (sumRun 1 ds) (sumRun 2 ds)
  { early := early
    idx := idx
    x := x
    nSeq := if early then 0.0 else x + 1.0
    nCycles := if early then firstGeNum 1.0 cum else (x + 1.0) * countRun 2 ds }

/-- `DamageCalculatorPRAM`: damages from the curve, then the lifetime logic. -/
def damagePRAM (c : PramCurve α) (rows : List (Row α)) : LifeResult α :=
  lifetimeOfDamages (rows.map fun r => (rowD c r, r.run))

/-- `is_life_infinite`: the largest `P_RAM` of the second run is `≤ P_RAM_D`. -/
def isLifeInfinite (c : PramCurve α) (rows : List (Row α)) : Bool :=
  rows.all fun r => r.run != 2 || decide (r.P ≤ c.PD)

/-! ### several assessment points at once (the `groupby("assessment_point_index")` glue)

The recorder delivers the collective hysteresis-major: for every hysteresis one row per assessment point
(`MultiIndex.from_product([range(n_hystereses), range(n_points)])`).  A table is therefore the flat row list in
that order; `chunk` cuts it into the hysteresis blocks, `pointRows k` takes the `k`-th row of every block (what
`groupby("assessment_point_index")` hands to `cumsum` / `sum` / `searchsorted` for point `k`), and a curve given
per point (`P_RAM_Z`, `P_RAM_D` Series; `_initialize_P_RAM_Z_index` tiles it block by block) is used for its
own point. -/

/-- cut a flat list into consecutive blocks of length `n` (`fuel` = an upper bound of the number of blocks) -/
def chunk {β : Type} (n : Nat) : Nat → List β → List (List β)
  | 0, _ => []
  | _, [] => []
  | fuel+1, l => l.take n :: chunk n fuel (l.drop n)

/-- the rows of assessment point `k`: the `k`-th row of every hysteresis block -/
def pointRows {β : Type} (k : Nat) (blocks : List (List β)) : List β :=
  blocks.filterMap (fun b => b[k]?)

/-- `DamageCalculatorPRAM` on a table with `curves.length` assessment points: lifetime result and
`is_life_infinite` per point, in the order of the points. -/
def damagePRAMBatch (curves : List (PramCurve α)) (flat : List (Row α)) : List (LifeResult α × Bool) :=
  let blocks := chunk curves.length flat.length flat
  curves.zipIdx.map fun ck =>
    (damagePRAM ck.1 (pointRows ck.2 blocks), isLifeInfinite ck.1 (pointRows ck.2 blocks))

/-! ### safety index and load safety factors -/

/-- `compute_beta` after the root search: `-result.x[0] / sigma` with `sigma = 1`. -/
def betaOfRoot (x : α) : α := -x / 1.0

/-- `np.isclose(a, b)` with the default tolerances `rtol = 1e-5`, `atol = 1e-8`. -/
def isclose (a b : α) : Prop := Transc.abs (a - b) ≤ 1.0e-8 + 1.0e-5 * Transc.abs b

instance (a b : α) : Decidable (isclose a b) := by unfold isclose; infer_instance

/-- `P_A_beta_list` of `FKMLoadSequence._get_beta`. -/
def betaTable : List (α × α) :=
  [(1.0e-7, 5.20), (1.0e-6, 4.75), (1.0e-5, 4.27), (7.2e-5, 3.8), (1.0e-3, 3.09), (2.3e-1, 0.739), (0.5, 0.0)]

/-- `_get_beta`: the first tabulated `P_A` the argument is close to; `none` = `ValueError`. -/
def getBetaIn (PA : α) : List (α × α) → Option α
  | [] => none
  | (p, b) :: rest => if isclose PA p then some b else getBetaIn PA rest

def getBeta (PA : α) : Option α := getBetaIn PA betaTable

/-- eq. (2.3-4) / (2.3-6): `(0.7 β − 2) s` for `P_L = 2.5 %`, else `0.7 β s`. -/
def alphaL (beta PL s : α) : α :=
  if isclose PL 2.5 then (0.7 * beta - 2.0) * s else 0.7 * beta * s

/-- `max(abs(load))` of `maximum_absolute_load` for a plain Series (Python's `max`: keeps the
current maximum unless the next value is greater). -/
def maxAbsFrom (m : α) : List α → α
  | [] => m
  | x :: xs => maxAbsFrom (if m < Transc.abs x then Transc.abs x else m) xs

def maxAbs : List α → α
  | [] => 0.0
  | x :: xs => maxAbsFrom (Transc.abs x) xs

/-- `maximum_absolute_load` of a mesh (`abs().groupby("node_id").max()`): one value per node; `cols[k]` is the
load history of node `k`. -/
def maxAbsPerNode (cols : List (List α)) : List α := cols.map maxAbs

/-- … and without `max_load_independently_for_nodes`: `L_max.max()` of the per-node values. -/
def maxAbsMesh (cols : List (List α)) : α := maxAbs (maxAbsPerNode cols)

/-- `fkm_safety_normal_from_stddev.gamma_L`, eq. (2.3-5), given `L_max`. -/
def gammaLNormal (PA PL sL Lmax : α) : Option α :=
  (getBeta PA).map fun beta => (Lmax + alphaL beta PL sL) / Lmax

/-- `fkm_safety_lognormal_from_stddev.gamma_L`, eq. (2.3-7): Python `max(1, 10 ** alpha)`. -/
def gammaLLognormal (PA PL LSDs : α) : Option α :=
  (getBeta PA).map fun beta =>
    let g := Transc.pow 10.0 (alphaL beta PL LSDs)
    if 1.0 < g then g else 1.0

/-- `fkm_safety_blanket.gamma_L`, eq. (2.3-8); `none` = `ValueError`. -/
def gammaLBlanket (PL : α) : Option α :=
  if isclose PL 2.5 then some 1.1 else if isclose PL 50.0 then some 1.0 else none

/-! ### the constants table -/

inductive Group where
  | Steel | SteelCast | AlWrought
  deriving DecidableEq, Repr

/-- The entries of `all_constants` (order = `Consts.toList`).  `epsilon_grenz` is `np.inf` for two
groups and is carried as an `Option` (`none` = `np.inf`); `f_25percent_material_woehler_FKM_roughness_*`
exists for steel only (`none` = NaN in the DataFrame). -/
structure Consts (α : Type) where
  E : α
  n_prime : α
  a_sigma : α
  a_epsilon : α
  b_sigma : α
  b_epsilon : α
  epsilon_grenz : Option α
  f25_damage : α
  a_PZ_RAM : α
  b_PZ_RAM : α
  a_PD_RAM : α
  b_PD_RAM : α
  d_1 : α
  d_2 : α
  f25_RAM : α
  f25_rough_RAM : Option α
  k_st : α
  a_RP : α
  b_RP : α
  R_m_N_min : α
  a_M : α
  b_M : α
  R_m_bm : α
  d_RAJ : α
  f25_RAJ : α
  f25_rough_RAJ : Option α
  a_PZ_RAJ : α
  b_PZ_RAJ : α
  a_PD_RAJ : α
  b_PD_RAJ : α

/-- `all_constants[group]` as written in `constants.py`. -/
def consts : Group → Consts α
  | .Steel =>
    { E := 206.0e3, n_prime := 0.187, a_sigma := 3.1148, a_epsilon := 1033.0, b_sigma := 0.897,
      b_epsilon := -1.235, epsilon_grenz := some 0.338, f25_damage := 0.86,
      a_PZ_RAM := 20.0, b_PZ_RAM := 0.587, a_PD_RAM := 0.82, b_PD_RAM := 0.92,
      d_1 := -0.302, d_2 := -0.197, f25_RAM := 0.71, f25_rough_RAM := some 0.73,
      k_st := 30.0, a_RP := 0.27, b_RP := 0.43, R_m_N_min := 400.0,
      a_M := 0.35, b_M := -0.1, R_m_bm := 680.0,
      d_RAJ := -0.63, f25_RAJ := 0.39, f25_rough_RAJ := some 0.25,
      a_PZ_RAJ := 10.0, b_PZ_RAJ := 0.826, a_PD_RAJ := 3.33e-5, b_PD_RAJ := 1.55 }
  | .SteelCast =>
    { E := 206.0e3, n_prime := 0.176, a_sigma := 1.732, a_epsilon := 0.847, b_sigma := 0.982,
      b_epsilon := -0.181, epsilon_grenz := none, f25_damage := 0.68,
      a_PZ_RAM := 25.56, b_PZ_RAM := 0.519, a_PD_RAM := 0.46, b_PD_RAM := 0.96,
      d_1 := -0.289, d_2 := -0.189, f25_RAM := 0.51, f25_rough_RAM := none,
      k_st := 15.0, a_RP := 0.25, b_RP := 0.42, R_m_N_min := 400.0,
      a_M := 0.35, b_M := 0.05, R_m_bm := 680.0,
      d_RAJ := -0.66, f25_RAJ := 0.40, f25_rough_RAJ := none,
      a_PZ_RAJ := 10.03, b_PZ_RAJ := 0.695, a_PD_RAJ := 5.15e-6, b_PD_RAJ := 1.63 }
  | .AlWrought =>
    { E := 70.0e3, n_prime := 0.128, a_sigma := 9.12, a_epsilon := 895.9, b_sigma := 0.742,
      b_epsilon := -1.183, epsilon_grenz := none, f25_damage := 0.88,
      a_PZ_RAM := 16.71, b_PZ_RAM := 0.537, a_PD_RAM := 0.30, b_PD_RAM := 1.00,
      d_1 := -0.238, d_2 := -0.167, f25_RAM := 0.61, f25_rough_RAM := none,
      k_st := 20.0, a_RP := 0.27, b_RP := 0.43, R_m_N_min := 133.0,
      a_M := 1.0, b_M := -0.04, R_m_bm := 270.0,
      d_RAJ := -0.61, f25_RAJ := 0.36, f25_rough_RAJ := none,
      a_PZ_RAJ := 101.7, b_PZ_RAJ := 0.26, a_PD_RAJ := 5.18e-7, b_PD_RAJ := 2.04 }

/-- the table row in the key order of the structure (`none` for `np.inf` / missing). -/
def Consts.toList (k : Consts α) : List (Option α) :=
  [some k.E, some k.n_prime, some k.a_sigma, some k.a_epsilon, some k.b_sigma, some k.b_epsilon,
   k.epsilon_grenz, some k.f25_damage, some k.a_PZ_RAM, some k.b_PZ_RAM, some k.a_PD_RAM,
   some k.b_PD_RAM, some k.d_1, some k.d_2, some k.f25_RAM, k.f25_rough_RAM, some k.k_st,
   some k.a_RP, some k.b_RP, some k.R_m_N_min, some k.a_M, some k.b_M, some k.R_m_bm,
   some k.d_RAJ, some k.f25_RAJ, k.f25_rough_RAJ, some k.a_PZ_RAJ, some k.b_PZ_RAJ,
   some k.a_PD_RAJ, some k.b_PD_RAJ]

/-- `M_sigma` of a material group and tensile strength. -/
def mSigmaOf (g : Group) (Rm : α) : α := mSigma (consts g).a_M (consts g).b_M Rm

/-- `P_RAM(collective, assessment_parameters)` for one row, with the constants of the group. -/
def pRAMOf (g : Group) (Rm E Sa Sm ea : α) : α := pRAM (mSigmaOf g Rm) E Sa Sm ea

end PylifeVerif.FkmNl
