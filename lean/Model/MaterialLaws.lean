/-
Hand-written model of the closed-form material laws (C16), in TEXTBOOK form, generic in the carrier
(variable bundle of Model/Num.lean).  No Mathlib.

The property theorems of C16 are stated about the TRANSLATED definitions (Generated/MaterialLaws.lean, regenerated
from the python source on every run).  This file is the independent human reading of the same source:
`Proofs/C16.lean` proves `translated_eq_hand_model` (over ℝ, kernel-checked), which cross-checks the translator
and shows that the substitution trick of `HookesLaw2dPlaneStrain` (E' = E/(1-ν²), ν' = ν/(1-ν) in the
plane-stress formulas) is the textbook plane-strain law.

  src/pylife/materiallaws/rambgood.py            RambergOsgood.{strain, tangential_compliance, tangential_modulus,
                                                 delta_strain, lower_hysteresis}
  src/pylife/materiallaws/hookeslaw.py           HookesLaw1d / 2dPlaneStress / 2dPlaneStrain / 3d .{stress, strain}, G, K
  src/pylife/materiallaws/true_stress_strain.py  true_strain, true_stress, true_fracture_strain, true_fracture_stress
-/
import Model.Num

namespace PylifeVerif.MaterialLaws

variable {α : Type} [Add α] [Sub α] [Mul α] [Div α] [Neg α] [OfScientific α]
  [LT α] [LE α] [DecidableLT α] [DecidableLE α] [Transc α]

/-! ### Ramberg-Osgood:  ε = σ/E + sgn σ · (|σ|/K)^(1/n) -/
def roStrain (E K n σ : α) : α := σ / E + Transc.sign σ * Transc.pow (Transc.abs σ / K) (1.0 / n)
def roCompliance (E K n σ : α) : α := 1.0 / E + 1.0 / (n * K) * Transc.pow (Transc.abs σ / K) (1.0 / n - 1.0)
def roModulus (E K n σ : α) : α := 1.0 / roCompliance E K n σ
def roDeltaStrain (E K n Δσ : α) : α := 2.0 * roStrain E K n (Δσ / 2.0)
/-- defined for σ ≤ σmax (the code raises ValueError otherwise) -/
def roLowerHysteresis (E K n σ σmax : α) : α := roStrain E K n σmax - roDeltaStrain E K n (σmax - σ)

/-! ### Hooke -/
def shearModulus (E nu : α) : α := E / (2.0 * (1.0 + nu))
def bulkModulus (E nu : α) : α := E / (3.0 * (1.0 - 2.0 * nu))

def hooke1dStress (E e : α) : α := E * e
def hooke1dStrain (E s : α) : α := s / E

def hooke3dStrain (E nu s11 s22 s33 s12 s13 s23 : α) : α × α × α × α × α × α :=
  ((s11 - nu * (s22 + s33)) / E, (s22 - nu * (s11 + s33)) / E, (s33 - nu * (s11 + s22)) / E,
   s12 / shearModulus E nu, s13 / shearModulus E nu, s23 / shearModulus E nu)

def hooke3dStress (E nu e11 e22 e33 g12 g13 g23 : α) : α × α × α × α × α × α :=
  let c := E / ((1.0 + nu) * (1.0 - 2.0 * nu))
  (c * ((1.0 - nu) * e11 + nu * (e22 + e33)), c * ((1.0 - nu) * e22 + nu * (e11 + e33)),
   c * ((1.0 - nu) * e33 + nu * (e11 + e22)),
   shearModulus E nu * g12, shearModulus E nu * g13, shearModulus E nu * g23)

/-- plane stress (s33 = 0): returns (e11, e22, e33, g12) -/
def planeStressStrain (E nu s11 s22 s12 : α) : α × α × α × α :=
  ((s11 - nu * s22) / E, (s22 - nu * s11) / E, -(nu * (s11 + s22)) / E, s12 / shearModulus E nu)

def planeStressStress (E nu e11 e22 g12 : α) : α × α × α :=
  let c := E / (1.0 - nu * nu)
  (c * (e11 + nu * e22), c * (e22 + nu * e11), shearModulus E nu * g12)

/-- plane strain (e33 = 0), textbook form: returns (e11, e22, g12) -/
def planeStrainStrain (E nu s11 s22 s12 : α) : α × α × α :=
  ((1.0 + nu) / E * ((1.0 - nu) * s11 - nu * s22), (1.0 + nu) / E * ((1.0 - nu) * s22 - nu * s11),
   s12 / shearModulus E nu)

/-- plane strain, textbook form: returns (s11, s22, s33, s12) -/
def planeStrainStress (E nu e11 e22 g12 : α) : α × α × α × α :=
  let c := E / ((1.0 + nu) * (1.0 - 2.0 * nu))
  (c * ((1.0 - nu) * e11 + nu * e22), c * ((1.0 - nu) * e22 + nu * e11), c * nu * (e11 + e22),
   shearModulus E nu * g12)

/-! ### true stress / strain -/
def trueStrain (e : α) : α := Transc.log (1.0 + e)
def trueStress (s e : α) : α := s * (1.0 + e)
def trueFractureStrain (Z : α) : α := Transc.log (1.0 / (1.0 - Z))
def trueFractureStress (F A Z : α) : α := F / (A * (1.0 - Z))

end PylifeVerif.MaterialLaws
