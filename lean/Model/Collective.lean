/-
Model of pyLife's load collectives and histograms (property C14):

* `stress/collective/load_collective.py`  `LoadCollective` – rows `(from, to, cycles)`, derived
  `amplitude`, `meanstress`, `upper`, `lower`, `R`, the `range`/`mean` input form, `scale`, `shift`,
  `range_histogram`, `histogram`;
* `stress/collective/load_histogram.py`  `LoadHistogram` – the same quantities derived from the class
  mids of a `range`/`mean` or `from`/`to` matrix, `scale`, `shift`;
* numpy's bin rule for `np.histogram` / `np.histogram2d` (`[eᵢ, eᵢ₊₁)`, last class closed; integer bin
  counts via `np.linspace(min, max, n+1)`, `min = max` widened by ±0.5);
* `utils/histogram.py`  `rebin_histogram` (overlap-proportional redistribution) and `combine_histogram`
  with `sum`;
* `stress/rainflow/recorders.py`  `LoopValueRecorder.histogram` (`np.histogram2d` on from/to).

Every function is generic in the carrier (driver: `Float`, proofs: `ℝ`).  No Mathlib.
-/
import Model.Num

namespace PylifeVerif.Collective

variable {α : Type} [Add α] [Sub α] [Mul α] [Div α] [Neg α] [OfScientific α]
  [LT α] [LE α] [DecidableLT α] [DecidableLE α] [Transc α]

/-! ## Collective rows -/

/-- One hysteresis loop of a `LoadCollective`: `from`, `to` and the `cycles` column (1.0 when the frame has none). -/
structure Row (α : Type) where
  fr : α
  to : α
  cyc : α

/-- `np.abs(fr - to) / 2.` -/
def amplitude (r : Row α) : α := Transc.abs (r.fr - r.to) / 2.0

/-- `(fr + to) / 2.` -/
def meanstress (r : Row α) : α := (r.fr + r.to) / 2.0

/-- `obj[['from','to']].max(axis=1)` -/
def upper (r : Row α) : α := if r.fr ≤ r.to then r.to else r.fr

/-- `obj[['from','to']].min(axis=1)` -/
def lower (r : Row α) : α := if r.fr ≤ r.to then r.fr else r.to

/-- `(lower / upper).fillna(0.0)`: the quotient, with NaN (only `0/0` for finite loads) replaced by 0.
`q ≤ q` fails exactly for NaN over `Float` and never over `ℝ` (where Lean's `0/0 = 0` agrees with the fill value). -/
def rvalue (r : Row α) : α :=
  let q := lower r / upper r
  if q ≤ q then q else 0.0

/-- `(lower / upper).fillna(0.0)` on given lower / upper values (`LoadHistogram.R`). -/
def fillR (lo up : α) : α :=
  let q := lo / up
  if q ≤ q then q else 0.0

/-- `_validate` for the `range`/`mean` input form: `from = mean - range/2.`, `to = mean + range/2.`. -/
def fromRangeMean (rng mean cyc : α) : Row α := ⟨mean - rng / 2.0, mean + rng / 2.0, cyc⟩

/-- `scale`: `obj[['from','to']].multiply(factor)`; the cycles column is not touched. -/
def scale (f : α) (r : Row α) : Row α := ⟨r.fr * f, r.to * f, r.cyc⟩

/-- `shift`: `obj[['from','to']].add(diff)`. -/
def shift (d : α) (r : Row α) : Row α := ⟨r.fr + d, r.to + d, r.cyc⟩

/-- `amplitude * 2.` resp. `amplitude * 2` – the range the histograms are taken over. -/
def rangeOf (r : Row α) : α := amplitude r * 2.0

/-! ## numpy's bin rule -/

/-- Weighted number of points: `Σ w`. -/
def wsum (l : List (α × α)) : α := l.foldr (fun p acc => p.2 + acc) 0.0

/-- Plain sum of a list of class counts. -/
def total (l : List α) : α := l.foldr (fun x acc => x + acc) 0.0

/-- Value `v` lies in the class `[lo, hi)`, resp. `[lo, hi]` for the last class. -/
def inBin (lo hi : α) (last : Bool) (v : α) : Bool :=
  decide (lo ≤ v) && (decide (v < hi) || (last && decide (v ≤ hi)))

/-- The classes `(lo, hi, isLast)` of an edge list `e₀ … eₙ`. -/
def classes : List α → List (α × α × Bool)
  | e0 :: e1 :: [] => [(e0, e1, true)]
  | e0 :: e1 :: e2 :: rest => (e0, e1, false) :: classes (e1 :: e2 :: rest)
  | _ => []

/-- `np.histogram(values, edges, weights=w)`: per class the weight of the points `(v, w)` inside it. -/
def hist (edges : List α) (pts : List (α × α)) : List α :=
  (classes edges).map fun c => wsum (pts.filter fun p => inBin c.1 c.2.1 c.2.2 p.1)

/-- `np.histogram2d(x, y, [ex, ey], weights=w)` on points `(x, y, w)`; row-major (`ravel()`), one list per x-class. -/
def hist2d (ex ey : List α) (pts : List (α × α × α)) : List (List α) :=
  (classes ex).map fun c =>
    hist ey ((pts.filter fun p => inBin c.1 c.2.1 c.2.2 p.1).map fun p => (p.2.1, p.2.2))

/-- Cast of a small natural number by repeated `+ 1.0` (exact in `Float` below 2⁵³). -/
def natTo : Nat → α
  | 0 => 0.0
  | k + 1 => natTo k + 1.0

/-- `np.linspace(a, b, n + 1)`: `k * step + a` for `k < n`, and exactly `b` at the end (`step = (b - a) / n`). -/
def linspace (a b : α) (n : Nat) : List α :=
  let step := (b - a) / natTo n
  ((List.range n).map fun k => natTo k * step + a) ++ [b]

def minL : List α → α
  | [] => 0.0
  | x :: xs => xs.foldl (fun m y => if y < m then y else m) x

def maxL : List α → α
  | [] => 0.0
  | x :: xs => xs.foldl (fun m y => if m < y then y else m) x

/-- `_get_outer_edges` + `linspace`: the edges numpy derives from an integer bin count
(`min = max` is widened to `min - 0.5, max + 0.5`). -/
def autoEdges (vals : List α) (n : Nat) : List α :=
  let lo := minL vals
  let hi := maxL vals
  if lo < hi then linspace lo hi n else linspace (lo - 0.5) (hi + 0.5) n

/-- `LoadCollective.range_histogram(edges)` (one group). -/
def rangeHistogram (edges : List α) (rows : List (Row α)) : List α :=
  hist edges (rows.map fun r => (rangeOf r, r.cyc))

/-- `LoadCollective.histogram(edges)` (one group): range × mean matrix, both axes with the same edges. -/
def rangeMeanHistogram (er em : List α) (rows : List (Row α)) : List (List α) :=
  hist2d er em (rows.map fun r => (rangeOf r, meanstress r, r.cyc))

/-- `LoopValueRecorder.histogram(edges)`: from × to matrix of the recorded loops. -/
def fromToHistogram (ef et : List α) (rows : List (Row α)) : List (List α) :=
  hist2d ef et (rows.map fun r => (r.fr, r.to, r.cyc))

/-! ## `LoadHistogram`: quantities from the class mids -/

/-- `IntervalIndex.mid`: `0.5 * (left + right)`. -/
def mid (l r : α) : α := 0.5 * (l + r)

/-- One class of a `range`/`mean` matrix: range interval, mean interval. -/
structure RMClass (α : Type) where
  rl : α
  rr : α
  ml : α
  mr : α

def rmAmplitude (c : RMClass α) : α := mid c.rl c.rr / 2.0
def rmMean (c : RMClass α) : α := mid c.ml c.mr
def rmUpper (c : RMClass α) : α := rmMean c + rmAmplitude c
def rmLower (c : RMClass α) : α := rmMean c - rmAmplitude c
/-- `scale`: all interval bounds `* f`; `shift`: only the `mean` bounds `+ d` (`skip=['range']`). -/
def rmScale (f : α) (c : RMClass α) : RMClass α := ⟨c.rl * f, c.rr * f, c.ml * f, c.mr * f⟩
def rmShift (d : α) (c : RMClass α) : RMClass α := ⟨c.rl, c.rr, c.ml + d, c.mr + d⟩
/-- A range-only histogram (no `mean` level) reports `meanstress = 0` (`np.zeros_like`); it is modelled as
the class with the mean interval `(0, 0]`, and `shift` has no level to act on. -/
def r1Shift (_d : α) (c : RMClass α) : RMClass α := c

/-- One class of a `from`/`to` matrix. -/
structure FTClass (α : Type) where
  fl : α
  frr : α
  tl : α
  tr : α

def ftAmplitude (c : FTClass α) : α := Transc.abs (mid c.fl c.frr - mid c.tl c.tr) / 2.0
def ftMean (c : FTClass α) : α := (mid c.fl c.frr + mid c.tl c.tr) / 2.0
def ftUpper (c : FTClass α) : α := ftMean c + ftAmplitude c
def ftLower (c : FTClass α) : α := ftMean c - ftAmplitude c
def ftScale (f : α) (c : FTClass α) : FTClass α := ⟨c.fl * f, c.frr * f, c.tl * f, c.tr * f⟩
def ftShift (d : α) (c : FTClass α) : FTClass α := ⟨c.fl + d, c.frr + d, c.tl + d, c.tr + d⟩

/-! ## `rebin_histogram` -/

/-- A histogram class `(l, r]` with its content `v`. -/
structure Bin (α : Type) where
  l : α
  r : α
  v : α

def minA (a b : α) : α := if b < a then b else a
def maxA (a b : α) : α := if a < b then b else a

/-- What a source class `s` of positive width contributes to the target class `(tl, tr]`:
`hist.index.overlaps(interval)` (pandas: `s.l < tr ∧ tl < s.r`) selects the class, then
`v * ((min(tr, s.r) - max(tl, s.l)) / s.length)`. -/
def share (tl tr : α) (s : Bin α) : α :=
  if s.l < tr ∧ tl < s.r then s.v * ((minA tr s.r - maxA tl s.l) / (s.r - s.l)) else 0.0

/-- What the source class `s` contributes to the target class `c = (lo, hi, isLast)` (see `classes`):
a class of positive width is distributed linearly (`share`); a class of zero width (`index.length == 0`,
pandas guarantees `left ≤ right`) holds its whole content at the point `s.r` and gives it to the class
`np.histogram` puts that point in (`_add_point_classes`).  No division takes place for a zero-width class. -/
def shareC (c : α × α × Bool) (s : Bin α) : α :=
  if s.l < s.r then share c.1 c.2.1 s
  else if inBin c.1 c.2.1 c.2.2 s.r then s.v else 0.0

/-- Content of the target class `c` after re-binning: `aggregate_hist(interval)` plus the point classes inside. -/
def aggregate (src : List (Bin α)) (c : α × α × Bool) : α :=
  total (src.map (shareC c))

/-- Consecutive pairs of a break list = the classes of a gap-free binning (`classes` without the flag). -/
def pairs : List α → List (α × α)
  | b0 :: b1 :: rest => (b0, b1) :: pairs (b1 :: rest)
  | _ => []

/-- `rebin_histogram(src, IntervalIndex.from_breaks(breaks))`: the new class contents. -/
def rebin (src : List (Bin α)) (breaks : List α) : List α :=
  (classes breaks).map (aggregate src)

/-- The re-binned histogram as a list of classes again (so that it can be re-binned once more). -/
def rebinBins (src : List (Bin α)) (breaks : List α) : List (Bin α) :=
  (classes breaks).map fun c => ⟨c.1, c.2.1, aggregate src c⟩

/-- A histogram given by breaks and contents. -/
def binsOf (breaks : List α) (vals : List α) : List (Bin α) :=
  List.zipWith (fun p v => ⟨p.1, p.2, v⟩) (pairs breaks) vals

/-- `rebin_histogram(src, n)`: `pd.interval_range(min left, max right, n)`. -/
def rebinN (src : List (Bin α)) (n : Nat) : List α :=
  rebin src (linspace (minL (src.map (·.l))) (maxL (src.map (·.r))) n)

/-! ## `rebin_histogram` of a two-dimensional histogram (MultiIndex of two interval levels) -/

/-- One cell of a two-dimensional histogram: class `(xl, xr]` of the first level, `(yl, yr]` of the second, content `v`. -/
structure Cell (α : Type) where
  xl : α
  xr : α
  yl : α
  yr : α
  v : α

/-- The code re-bins level by level (`groupby` the other level, `_do_rebin_histogram` along this one): what the
cell gives to the target cell `p × q` is its first-level share, shared again along the second level. -/
def share2 (p q : α × α × Bool) (c : Cell α) : α :=
  shareC q ⟨c.yl, c.yr, shareC p ⟨c.xl, c.xr, c.v⟩⟩

/-- Two-dimensional re-bin to the breaks `bx` (first level) and `by` (second level): row-major contents. -/
def rebin2 (cells : List (Cell α)) (bx bys : List α) : List (List α) :=
  (classes bx).map fun p => (classes bys).map fun q => total (cells.map (share2 p q))

/-- `binning.levels[binning.names.index(name)]`: the target binning of a level is looked up by the level's NAME. -/
def pickBreaks (name : String) (target : List (String × List α)) : List α :=
  match target.find? (fun t => t.1 == name) with
  | some t => t.2
  | none => []

/-- `rebin_histogram(h, target)` for a histogram with the interval levels `names` and a target given as a
MultiIndex with named levels (in any order). -/
def rebin2Named (names : String × String) (target : List (String × List α)) (cells : List (Cell α)) : List (List α) :=
  rebin2 cells (pickBreaks names.1 target) (pickBreaks names.2 target)

/-! ## `combine_histogram(…, 'sum')` -/

/-- Interval order used by the `groupby` (sorted keys): by left, then right bound. -/
def keyLt (a b : α × α) : Bool :=
  decide (a.1 < b.1) || (!decide (b.1 < a.1) && decide (a.2 < b.2))

def keyEq (a b : α × α) : Bool := !keyLt a b && !keyLt b a

/-- Add the class `b` to a combined histogram kept sorted by class: identical classes are summed. -/
def insertBin (b : Bin α) : List (Bin α) → List (Bin α)
  | [] => [b]
  | c :: cs =>
    if keyEq (b.l, b.r) (c.l, c.r) then ⟨c.l, c.r, c.v + b.v⟩ :: cs
    else if keyLt (b.l, b.r) (c.l, c.r) then b :: c :: cs
    else c :: insertBin b cs

/-- `combine_histogram(hists, 'sum')` for one-dimensional histograms: concat, group identical classes, sum. -/
def combine (hists : List (List (Bin α))) : List (Bin α) :=
  hists.flatten.foldl (fun acc b => insertBin b acc) []

def binTotal (l : List (Bin α)) : α := total (l.map (·.v))

/-! ## Unoccupied classes: NaN contents (`nan_default=True`) -/

/-- A histogram class whose content may be NaN ("not occupied"): `none`. -/
structure OBin (α : Type) where
  l : α
  r : α
  v : Option α

/-- `.dropna()`: the classes that carry a number. -/
def present : List (OBin α) → List (Bin α)
  | [] => []
  | b :: bs => match b.v with
    | some v => ⟨b.l, b.r, v⟩ :: present bs
    | none => present bs

/-- pandas' `Interval.overlaps` for right-closed classes. -/
def overlapsB (tl tr : α) (s : Bin α) : Bool := decide (s.l < tr) && decide (tl < s.r)

/-- Does the source class `s` occupy the target class `c`?  Positive width: it overlaps; zero width: its point lies inside. -/
def occupies (c : α × α × Bool) (s : Bin α) : Bool :=
  if s.l < s.r then overlapsB c.1 c.2.1 s else inBin c.1 c.2.1 c.2.2 s.r

/-- `aggregate_hist(interval)` with NaN handling: `occupied = hist.loc[overlaps].dropna()`; no occupied class (and no
point class with a number inside) → the default (`NaN` if `nan_default` else `0.0`), else the sum of the shares. -/
def aggregateOpt (nanDefault : Bool) (src : List (OBin α)) (c : α × α × Bool) : Option α :=
  let occ := (present src).filter (occupies c)
  if occ.isEmpty then (if nanDefault then none else some 0.0)
  else some (total (occ.map (shareC c)))

/-- `rebin_histogram(src, from_breaks(breaks), nan_default)`. -/
def rebinOpt (nanDefault : Bool) (src : List (OBin α)) (breaks : List α) : List (Option α) :=
  (classes breaks).map fun c => aggregateOpt nanDefault src c

def rebinOptBins (nanDefault : Bool) (src : List (OBin α)) (breaks : List α) : List (OBin α) :=
  (classes breaks).map fun c => ⟨c.1, c.2.1, aggregateOpt nanDefault src c⟩

/-- `np.nansum`: total with NaN counted as nothing. -/
def ototal (l : List (Option α)) : α := total (l.map fun v => v.getD 0.0)

/-- groupby-`sum` skips NaN: a NaN content adds nothing to its class (the class itself stays in the result,
with `0.0` if no histogram has a number there). -/
def combineOpt (hists : List (List (OBin α))) : List (Bin α) :=
  combine (hists.map fun h => h.map fun b => ⟨b.l, b.r, b.v.getD 0.0⟩)

/-- The pipeline of the `combine_histogram` docstring: every histogram re-binned to one common binning, then combined. -/
def rebinCombine (nanDefault : Bool) (hists : List (List (OBin α))) (breaks : List α) : List (Bin α) :=
  combineOpt (hists.map fun h => rebinOptBins nanDefault h breaks)

/-- The documented pipeline from collectives to one combined histogram: every collective is histogrammed over its own
class edges (`range_histogram(edges)`), re-binned to one common binning and the results are combined by sum. -/
def histRebinCombine (parts : List (List α × List (Row α))) (breaks : List α) : List (Bin α) :=
  combine (parts.map fun p => rebinBins (binsOf p.1 (rangeHistogram p.1 p.2)) breaks)

end PylifeVerif.Collective
