/-
Numeric foundation shared by the closed-form models.  A model function is written ONCE, generically
over a carrier `α` that provides the standard arithmetic classes (so that for `α := ℝ` Mathlib's
canonical instances are found and `ring`/`field_simp`/`linarith` work) plus `Transc α` for the
non-algebraic functions.  The driver instantiates `α := Float`, the proofs `α := ℝ`.

Usage in a model file:

  variable {α : Type} [Add α] [Sub α] [Mul α] [Div α] [Neg α] [OfScientific α]
    [LT α] [LE α] [DecidableLT α] [DecidableLE α] [Transc α]

Numeric literals must be written in scientific form (`2.0`, not `2`) so that they elaborate through
`OfScientific`.  No Mathlib import here.
-/
namespace PylifeVerif

class Transc (α : Type) where
  sqrt : α → α
  exp : α → α
  log : α → α          -- natural logarithm
  log10 : α → α
  pow : α → α → α      -- `np.power(x, y)` with a real exponent
  abs : α → α          -- `np.abs` / `np.fabs`
  sign : α → α         -- `np.sign` (-1, 0, 1)
  cos : α → α
  isFinite : α → Bool  -- `np.isfinite` (always true over ℝ)

instance : Transc Float where
  sqrt := Float.sqrt
  exp := Float.exp
  log := Float.log
  log10 := Float.log10
  pow := Float.pow
  abs := Float.abs
  sign := fun x => if x > 0 then 1 else if x < 0 then -1 else if x == 0 then 0 else x
  cos := Float.cos
  isFinite := Float.isFinite

end PylifeVerif
