/-
Model of `pylife.stress.rainflow.general`: `find_turns` and the chunk bookkeeping of
`AbstractDetector._new_turns`.  Samples are integers: every comparison in the code is a
comparison of samples or of absolute differences of samples, both exact for integer-valued
doubles (and any finite set of doubles is a set of integers after scaling by a power of two).

No Mathlib import: this file is part of the compiled driver.
-/
namespace PylifeVerif.Rainflow

/-- A reported point: global sample index and value. -/
abbrev Pt := Nat × Int

def sgn (x : Int) : Int := if 0 < x then 1 else if x < 0 then -1 else 0

/-- Scan realising `find_turns`.
`dir`  sign of the last non-zero difference seen so far (0: none yet),
`cand` index/value of the sample at which that difference ended, i.e. the first sample of the
       current plateau – the only sample that can still become a turning point,
`i`    index of the head of the remaining list, `prev` the sample before it. -/
def findTurnsAux (dir : Int) (cand : Pt) (i : Nat) (prev : Int) : List Int → List Pt
  | [] => []
  | x :: xs =>
    let d := sgn (x - prev)
    if d = 0 then findTurnsAux dir cand (i+1) x xs
    else if dir ≠ 0 ∧ d ≠ dir then cand :: findTurnsAux d (i, x) (i+1) x xs
    else findTurnsAux d (i, x) (i+1) x xs

/-- `find_turns(samples)`: interior reversals, a plateau reported at its first sample. -/
def findTurns : List Int → List Pt
  | [] => []
  | x :: xs => findTurnsAux 0 (0, x) 1 x xs

/-- Literal transcription of the numpy formulation of `find_turns` (peak turns by the sign of the
product of neighbouring differences, plateau turns by start/end edge matching), used to validate
`findTurns` inside Lean (see `Proofs`) and in the driver (`turns_np`). -/
def diffs : List Int → List Int
  | a :: b :: rest => (b - a) :: diffs (b :: rest)
  | _ => []

def whereIdx (p : α → Bool) (l : List α) : List Nat :=
  (l.zipIdx.filter (fun x => p x.1)).map (·.2)

/- The transcription of `find_turns` as it was before repair c6242ee: turning points are recognised by the sign of the
PRODUCT of neighbouring differences (over the integers, where a product cannot underflow, the same thing - proved in
`Proofs/Lemmas/RainflowNumpy.lean`; on doubles the product underflowed for small signals). -/
def findTurnsNumpyProd (s : List Int) : List Pt :=
  let d := diffs s
  let n := d.length
  let dA := d.toArray
  let peak : List Bool := (List.range (n - 1)).map fun i => dA[i]! * dA[i+1]! < 0
  let dup : List Int := d.map fun x => if x = 0 then 1 else 0
  let edges := diffs dup
  let starts0 := whereIdx (fun e => e > 0) edges
  let ends0 := whereIdx (fun e => e < 0) edges
  let plateauIdx : List Nat :=
    if starts0.isEmpty || ends0.isEmpty then [] else
      let cutEnds := ends0.head! < starts0.head!
      let cutStarts := starts0.getLast! > ends0.getLast!
      let ends := if cutEnds then ends0.tail else ends0
      let starts := if cutStarts then starts0.dropLast else starts0
      ((starts.zip ends).filter fun (st, en) => dA[st]! * dA[en+1]! < 0).map (·.1)
  let sA := s.toArray
  ((List.range (n - 1)).filter fun i => peak[i]! || plateauIdx.contains i).map
    fun i => (i + 1, sA[i+1]!)

/-- The transcription of `find_turns` as it is now: the SIGNS of neighbouring differences are multiplied
(`np.sign(diffs)[:-1] * np.sign(diffs)[1:] < 0`, and likewise across a plateau). -/
def findTurnsNumpy (s : List Int) : List Pt :=
  let d := diffs s
  let n := d.length
  let dA := d.toArray
  let peak : List Bool := (List.range (n - 1)).map fun i => dA[i]!.sign * dA[i+1]!.sign < 0
  let dup : List Int := d.map fun x => if x = 0 then 1 else 0
  let edges := diffs dup
  let starts0 := whereIdx (fun e => e > 0) edges
  let ends0 := whereIdx (fun e => e < 0) edges
  let plateauIdx : List Nat :=
    if starts0.isEmpty || ends0.isEmpty then [] else
      let cutEnds := ends0.head! < starts0.head!
      let cutStarts := starts0.getLast! > ends0.getLast!
      let ends := if cutEnds then ends0.tail else ends0
      let starts := if cutStarts then starts0.dropLast else starts0
      ((starts.zip ends).filter fun (st, en) => dA[st]!.sign * dA[en+1]!.sign < 0).map (·.1)
  let sA := s.toArray
  ((List.range (n - 1)).filter fun i => peak[i]! || plateauIdx.contains i).map
    fun i => (i + 1, sA[i+1]!)

/-- `correct_turns_by_nans`: for every NaN position (ascending, positions in the original signal)
all indices at or behind it are moved by one - sequentially, as the code does. -/
def correctByNans (idx : List Nat) (nanPos : List Nat) : List Nat :=
  nanPos.foldl (fun idx p => idx.map fun i => if i ≥ p then i + 1 else i) idx

/-- `find_turns` on a signal with NaN samples (`none`): NaNs are dropped, the turning points of the
cleaned signal are found and their indices are mapped back to positions in the original. -/
def findTurnsNan (s : List (Option Int)) : List Pt :=
  let clean := s.filterMap id
  let nanPos := whereIdx (fun (x : Option Int) => x.isNone) s
  let t := findTurns clean
  (correctByNans (t.map (·.1)) nanPos).zip (t.map (·.2))

/-- Bookkeeping state of `AbstractDetector`: the samples after the last decided turning point
(`_sample_tail`) and the number of samples seen (`_head_index`). -/
structure TurnState where
  tail : List Int := []
  head : Nat := 0
deriving Repr, DecidableEq

/-- `_new_turns(samples, flush)` (without `preserve_start`): returns the new state and the newly
decided turning points with *global* indices. -/
def newTurns (st : TurnState) (samples : List Int) (flush : Bool := false) :
    TurnState × List Pt :=
  if samples.isEmpty then (st, []) else
  let swt := st.tail ++ samples
  let local_ := findTurns swt
  let tailIdx := match local_.getLast? with
    | some p => p.1
    | none => 0
  let off := st.head - st.tail.length
  let turns := local_.map fun p => (p.1 + off, p.2)
  let tail' := swt.drop tailIdx
  let head' := st.head + samples.length
  if flush && !tail'.isEmpty then
    ({ tail := [tail'.getLast!], head := head' }, turns ++ [(head' - 1, tail'.getLast!)])
  else
    ({ tail := tail', head := head' }, turns)

/-- `AbstractRecorder.chunk_local_index`: chunk number and position within the chunk of a global
sample index, from the list of chunk sizes (`searchsorted(cumsum, g, side='right') - 1`). -/
def chunkLocalIndex : List Nat → Nat → Nat × Nat
  | [], g => (0, g)
  | c :: cs, g =>
    if g < c then (0, g)
    else let r := chunkLocalIndex cs (g - c); (r.1 + 1, r.2)

end PylifeVerif.Rainflow
