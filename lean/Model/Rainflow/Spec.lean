/-
Independent reference definitions for C02/C03: the turning-point sequence of a signal, the
textbook four-point rule and the Clormann–Seeger HCM rule.  No Mathlib import.
-/
import Model.Rainflow.Detectors

namespace PylifeVerif.Rainflow.Spec
open PylifeVerif.Rainflow

/-- `i` (with `0 < i`, `i + 1 < |s|`) is an interior reversal of `s`, reported at the first sample
of a plateau: the sample before differs, and the next sample that differs lies on the other
side. -/
def isReversal (s : Array Int) (i : Nat) : Bool :=
  if i = 0 ∨ i + 1 ≥ s.size then false else
  let v := s[i]!
  let p := s[i-1]!
  if p = v then false else
  match (s.toList.drop (i+1)).find? (· ≠ v) with
  | none => false
  | some n => (p < v ∧ n < v) ∨ (p > v ∧ n > v)

def reversals (s : List Int) : List Pt :=
  let a := s.toArray
  ((List.range s.length).filter (isReversal a)).map fun i => (i, a[i]!)

/-- First sample, interior reversals, last sample. -/
def turningPoints (s : List Int) : List Pt :=
  match s with
  | [] => []
  | s0 :: _ => (0, s0) :: reversals s ++ [(s.length - 1, s.getLast!)]

/-- Textbook four-point reduction of a stack whose newest point is on top: while the four newest
points `a, b, c, d` satisfy `|b-c| ≤ |a-b|` and `|b-c| ≤ |c-d|`, the cycle `(b, c)` is counted and
`b`, `c` are deleted. -/
def reduce4 : List Pt → List Cycle × List Pt
  | d :: c :: b :: a :: rest =>
    if absDiff b.2 c.2 ≤ absDiff a.2 b.2 ∧ absDiff b.2 c.2 ≤ absDiff c.2 d.2 then
      let r := reduce4 (d :: a :: rest)
      ((b, c) :: r.1, r.2)
    else ([], d :: c :: b :: a :: rest)
  | st => ([], st)
termination_by st => st.length

/-- The four-point rule on a point sequence: cycles in order of detection and the residual
(oldest first). -/
def fourPoint (pts : List Pt) : List Cycle × List Pt :=
  let r := pts.foldl (fun (acc : List Cycle × List Pt) p =>
      let r := reduce4 (p :: acc.2)
      (acc.1 ++ r.1, r.2)) ([], [])
  (r.1, r.2.reverse)

/-- Clormann–Seeger HCM on a reversal sequence (values only): residual stack (top first), `ir`
counts the residuals that belong to the primary path.  After a closed cycle the new top pair is
ALWAYS re-examined (this is where `fkm.py` deviates when `|x|` ties the running maximum). -/
structure HcmState where
  res : List Int := []
  ir : Nat := 1
  cycles : List (Int × Int) := []
deriving Repr, DecidableEq

def hcmLoop (k : Int) : Nat → List Int → Nat → List (Int × Int) → List Int × Nat × List (Int × Int)
  | 0, res, ir, acc => (res, ir, acc)
  | fuel+1, res, ir, acc =>
    let iz := res.length
    if iz > ir then
      match res with
      | j :: i :: rest =>
        if absDiff k j ≥ absDiff j i then hcmLoop k fuel rest ir (acc ++ [(i, j)])
        else (res, ir, acc)
      | _ => (res, ir, acc)
    else if iz = ir then
      match res with
      | j :: _ => if k.natAbs > j.natAbs then (res, ir + 1, acc) else (res, ir, acc)
      | [] => (res, ir, acc)
    else (res, ir, acc)

def hcmTurn (st : HcmState) (k : Int) : HcmState :=
  let (res, ir, acc) := hcmLoop k (st.res.length / 2 + 2) st.res st.ir []
  { res := k :: res, ir := ir, cycles := st.cycles ++ acc }

def hcm (turns : List Int) : HcmState := turns.foldl hcmTurn {}

end PylifeVerif.Rainflow.Spec
