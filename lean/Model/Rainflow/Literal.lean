/-
Literal (line-by-line) models of the rainflow slice, added after the audit (items C01-3, C03-2).

Part 1: `fourpoint_loop` of `extension.pyx` with its array indices, the `ri` cursor into the buffer
`residual_index_v`, and `FourPointDetector.process`, which on EVERY chunk re-scans the array
`residuals[:-1] ++ new turns ++ [last sample]` from `i = 2` (the stack model `fpProcess` of
`Detectors.lean` continues from the stored stack instead).  `Proofs/C01Literal.lean` proves
`fpRunLit cs` and `fpRun cs` observably equal for every list of non-empty chunks.

Part 2: detector level with NaN samples (`none`): `_new_turns` with NaNs inside `_sample_tail`
(`newTurnsNan`), the four-point detector (`fpRunNan`) and the FKM detector (`fkmRunNan`) on such
samples.  `Proofs/C03Nan.lean` relates them to the runs on the cleaned signal.  (No three-point
model with NaNs.)

No Mathlib import: this file is part of the compiled driver.
-/
import Model.Rainflow.Detectors

namespace PylifeVerif.Rainflow

/-! ### Part 1: literal `fourpoint_loop` / `FourPointDetector.process` -/

/-- Loop variables of `fourpoint_loop`.  `resIdx` is the buffer `residual_index_v` (length
`len_turns`, only the entries below `ri` are meaningful), `out` collects row `t` of
`from_index/from_vals/to_index/to_vals` as `((from_index[t], from_vals[t]), (to_index[t], to_vals[t]))`;
the counter `t` of the code is `out.length`. -/
structure FpLoopSt where
  i : Nat
  ri : Nat
  resIdx : Array Nat
  out : List Cycle
deriving Repr

/-- The `while i < len_turns` loop of `fourpoint_loop`; one unit of `fuel` per iteration
(`3 * len_turns` always suffices: an iteration either advances `i` or lowers `ri` by two). -/
def fpLoopLit (turns : Array Int) (turnsIndex : Array Nat) : Nat → FpLoopSt → FpLoopSt
  | 0, L => L
  | fuel+1, L =>
    if L.i < turns.size then
      if L.ri < 3 then
        -- residual_index_v[ri] = i; ri += 1; i += 1; continue
        fpLoopLit turns turnsIndex fuel
          { L with resIdx := L.resIdx.setIfInBounds L.ri L.i, ri := L.ri + 1, i := L.i + 1 }
      else
        let a := turns[L.resIdx[L.ri - 3]!]!
        let b := turns[L.resIdx[L.ri - 2]!]!
        let c := turns[L.resIdx[L.ri - 1]!]!
        let d := turns[L.i]!
        let ab := absDiff a b
        let bc := absDiff b c
        let cd := absDiff c d
        if bc ≤ ab ∧ bc ≤ cd then
          -- from_vals_v[t] = b; to_vals_v[t] = c
          -- ri -= 1; to_index_v[t] = turns_index[residual_index_v[ri]]
          -- ri -= 1; from_index_v[t] = turns_index[residual_index_v[ri]]; t += 1; continue
          let ri1 := L.ri - 1
          let toIdx := turnsIndex[L.resIdx[ri1]!]!
          let ri2 := ri1 - 1
          let fromIdx := turnsIndex[L.resIdx[ri2]!]!
          fpLoopLit turns turnsIndex fuel
            { L with ri := ri2, out := L.out ++ [((fromIdx, b), (toIdx, c))] }
        else
          -- residual_index_v[ri] = i; ri += 1; i += 1
          fpLoopLit turns turnsIndex fuel
            { L with resIdx := L.resIdx.setIfInBounds L.ri L.i, ri := L.ri + 1, i := L.i + 1 }
    else L

/-- `fourpoint_loop(turns, turns_index)`: the recorded rows and `residual_index[:ri]`.
(`residual_index = np.empty(len_turns)` is modelled as zeros; entries at or above `ri` are never
read.  For `len_turns < 2` the code writes `residual_index_v[1]` out of bounds; the model drops
that write and is not meaningful there.) -/
def fpLoopLitRun (turns : Array Int) (turnsIndex : Array Nat) : List Cycle × List Nat :=
  let n := turns.size
  let buf := ((Array.replicate n 0).setIfInBounds 0 0).setIfInBounds 1 1
  let L := fpLoopLit turns turnsIndex (3 * n) { i := 2, ri := 2, resIdx := buf, out := [] }
  (L.out, L.resIdx.toList.take L.ri)

/-- The attributes of a `FourPointDetector` and of its recorder, as the code stores them:
`_sample_tail`/`_head_index` (`ts`), `_residuals` (values, INCLUDING the provisional last sample),
`_residual_index` (one entry less), the recorder's rows and chunk sizes. -/
structure FpLitState where
  ts : TurnState := {}
  residuals : List Int := []
  residualIndex : List Nat := [0]
  cycles : List Cycle := []
  chunks : List Nat := []
deriving Repr, DecidableEq

/-- `FourPointDetector.process(samples)` (without `flush`), line by line.  Also defined on an
empty chunk, where it follows the code as long as that is defined (`len(turns_np) ≥ 2`). -/
def fpProcessLit (st : FpLitState) (samples : List Int) : FpLitState :=
  -- residuals = samples[:1] if self._residuals.size == 0 else self._residuals[:-1]
  let residuals := if st.residuals.isEmpty then samples.take 1 else st.residuals.dropLast
  -- turns_index, turns_values = self._new_turns(samples, flush)
  let (ts', turns) := newTurns st.ts samples
  -- turns_np = np.concatenate((residuals, turns_values, samples[-1:]))
  let turnsNp := (residuals ++ turns.map (·.2) ++ samples.drop (samples.length - 1)).toArray
  -- turns_index = np.concatenate((self._residual_index, turns_index))
  let turnsIndex := (st.residualIndex ++ turns.map (·.1)).toArray
  let (rows, residualIndex) := fpLoopLitRun turnsNp turnsIndex
  { ts := ts',
    -- self._residuals = turns_np[residual_index]
    residuals := residualIndex.map (turnsNp[·]!),
    -- self._residual_index = turns_index[residual_index[:-1]]
    residualIndex := residualIndex.dropLast.map (turnsIndex[·]!),
    cycles := st.cycles ++ rows,
    chunks := st.chunks ++ [samples.length] }

def fpRunLit (chunks : List (List Int)) : FpLitState := chunks.foldl fpProcessLit {}

/-- `residual_index` property: `np.append(self._residual_index, self._head_index - 1)`. -/
def FpLitState.residualIndexProp (st : FpLitState) : List Int :=
  st.residualIndex.map (fun (i : Nat) => (i : Int)) ++ [(st.ts.head : Int) - 1]


/-! ### Part 2: NaN samples at detector level

A sample is an `Option Int`, `none` standing for NaN.  `find_turns` drops the NaNs of the array it is
given and maps the indices of the turning points back to positions in that array (`findTurnsNan`,
`Turns.lean`); `_new_turns` calls it on `_sample_tail ++ samples`, where `_sample_tail` is a slice of
the ORIGINAL samples and so may contain NaNs itself; `sample_tail_index` and
`_head_index - len(_sample_tail)` are positions / lengths in original coordinates. -/

/-- `_sample_tail` (with its NaNs) and `_head_index`. -/
structure TurnStateNan where
  tail : List (Option Int) := []
  head : Nat := 0
deriving Repr, DecidableEq

/-- `_new_turns(samples)` (no `flush`, no `preserve_start`) on samples with NaNs: new state and the
newly decided turning points (values are never NaN) with global indices in original coordinates. -/
def newTurnsNan (st : TurnStateNan) (samples : List (Option Int)) : TurnStateNan × List Pt :=
  if samples.isEmpty then (st, []) else
  -- samples_with_last_tail = np.concatenate((self._sample_tail, samples))
  let swt := st.tail ++ samples
  -- turn_index, turn_values = find_turns(samples_with_last_tail)
  let local_ := findTurnsNan swt
  -- sample_tail_index = turn_index[-1] if turn_index.size > 0 else 0
  let tailIdx := match local_.getLast? with
    | some p => p.1
    | none => 0
  -- turn_index += self._head_index - len(self._sample_tail)
  let off := st.head - st.tail.length
  let turns := local_.map fun p => (p.1 + off, p.2)
  -- self._sample_tail = samples_with_last_tail[sample_tail_index:]; self._head_index += len(samples)
  ({ tail := swt.drop tailIdx, head := st.head + samples.length }, turns)

/-- A point of `turns_np`: index and a value that may be NaN (the first sample of the first chunk and
the last sample of a chunk enter `turns_np` without passing through `find_turns`). -/
abbrev PtN := Nat × Option Int

/-- The test `bc <= ab and bc <= cd` of `fourpoint_loop` on doubles that may be NaN: `fabs` of a
difference with a NaN operand is NaN and every `<=` with a NaN operand is false.  Returns the cycle
`(b, c)` if the test succeeds. -/
def closeCondN (a b c : PtN) (d : Option Int) : Option Cycle :=
  match a.2, b.2, c.2, d with
  | some av, some bv, some cv, some dv =>
    if absDiff bv cv ≤ absDiff av bv ∧ absDiff bv cv ≤ absDiff cv dv then
      some ((b.1, bv), (c.1, cv))
    else none
  | _, _, _, _ => none

/-- `fpClose` with NaN-able values (stack top first). -/
def fpCloseN : List PtN → Option Int → List Cycle × List PtN
  | c :: b :: a :: rest, d =>
    match closeCondN a b c d with
    | some cyc =>
      let r := fpCloseN (a :: rest) d
      (cyc :: r.1, r.2)
    | none => ([], c :: b :: a :: rest)
  | st, _ => ([], st)
termination_by st => st.length

def fpPushN (st : List PtN) (p : PtN) : List Cycle × List PtN :=
  let r := fpCloseN st p.2
  (r.1, p :: r.2)

def fpFeedN : List PtN → List PtN → List Cycle × List PtN
  | st, [] => ([], st)
  | st, p :: ps =>
    let r := fpPushN st p
    let r' := fpFeedN r.2 ps
    (r.1 ++ r'.1, r'.2)

/-- State of the four-point detector on NaN-able samples, as `DetState`; `last = some none` means
that the provisional last residual is NaN. -/
structure DetStateNan where
  ts : TurnStateNan := {}
  stack : List PtN := []
  last : Option (Option Int) := none
  cycles : List Cycle := []
  chunks : List Nat := []
deriving Repr, DecidableEq

/-- `FourPointDetector.process(samples)` on NaN-able samples, in the style of `fpProcess` (stack
model; `Proofs/C01Literal.lean` ties that style to the literal loop).  `residuals = samples[:1]` on
the first chunk puts the first sample on the stack even if it is NaN; the last sample of the chunk
closes provisionally (nothing, if it is NaN) and becomes the last residual. -/
def fpProcessNan (st : DetStateNan) (samples : List (Option Int)) : DetStateNan :=
  match samples with
  | [] => st
  | s0 :: _ =>
    let base : List PtN := if st.last.isNone then [(0, s0)] else st.stack
    let (ts', turns) := newTurnsNan st.ts samples
    let r := fpFeedN base (turns.map fun p => (p.1, some p.2))
    let lastv : Option Int := samples.getLast?.getD none
    let r2 := fpCloseN r.2 lastv
    { ts := ts', stack := r2.2, last := some lastv,
      cycles := st.cycles ++ r.1 ++ r2.1, chunks := st.chunks ++ [samples.length] }

def fpRunNan (chunks : List (List (Option Int))) : DetStateNan := chunks.foldl fpProcessNan {}

/-- `residuals` property (NaN = `none`). -/
def DetStateNan.residuals (st : DetStateNan) : List (Option Int) :=
  match st.last with
  | none => []
  | some l => st.stack.reverse.map (·.2) ++ [l]

/-- `residual_index` property. -/
def DetStateNan.residualIndex (st : DetStateNan) : List Int :=
  match st.last with
  | none => [0, -1]
  | some _ => st.stack.reverse.map (fun p => (p.1 : Int)) ++ [(st.ts.head : Int) - 1]

/-! The FKM detector only consumes what `_new_turns` returns (`fkm.py`: `turns_index, turns =
self._new_turns(samples, flush)`, then a loop over `turns`), so NaNs reach it through `newTurnsNan`
only.  `core` is the state of `fkmTurn` (its own `ts` field stays unused). -/

structure FkmStateNan where
  ts : TurnStateNan := {}
  core : FkmState := {}
deriving Repr, DecidableEq

def fkmProcessNan (st : FkmStateNan) (samples : List (Option Int)) : FkmStateNan :=
  let (ts', turns) := newTurnsNan st.ts samples
  { ts := ts', core := turns.foldl (fun s p => fkmTurn s p.2) st.core }

def fkmRunNan (chunks : List (List (Option Int))) : FkmStateNan := chunks.foldl fkmProcessNan {}

def FkmStateNan.residualIndex (st : FkmStateNan) : List Int := [0, (st.ts.head : Int) - 1]

end PylifeVerif.Rainflow
