/-
Models of the three rainflow detectors (`fourpoint.py`, `threepoint.py`, `fkm.py`) and the loops
of `extension.pyx`, as state machines over lists.  No Mathlib import.
-/
import Model.Rainflow.Turns

namespace PylifeVerif.Rainflow

/-- A recorded cycle: `from` and `to` point. -/
abbrev Cycle := Pt × Pt

def absDiff (a b : Int) : Nat := (a - b).natAbs

/-! ### Four-point -/

/-- Closing part of `fourpoint_loop` for a new point with value `d`.  The stack is kept
top-first: `c :: b :: a :: _`.  While `|b-c| ≤ |a-b| ∧ |b-c| ≤ |c-d|` the cycle `(b, c)` is
recorded and `b`, `c` are removed. -/
def fpClose : List Pt → Int → List Cycle × List Pt
  | c :: b :: a :: rest, d =>
    if absDiff b.2 c.2 ≤ absDiff a.2 b.2 ∧ absDiff b.2 c.2 ≤ absDiff c.2 d then
      let r := fpClose (a :: rest) d
      ((b, c) :: r.1, r.2)
    else ([], c :: b :: a :: rest)
  | st, _ => ([], st)
termination_by st => st.length

/-- Feed one decided turning point: close, then push. -/
def fpPush (st : List Pt) (p : Pt) : List Cycle × List Pt :=
  let r := fpClose st p.2
  (r.1, p :: r.2)

/-- Feed a list of decided turning points. -/
def fpFeed : List Pt → List Pt → List Cycle × List Pt
  | st, [] => ([], st)
  | st, p :: ps =>
    let r := fpPush st p
    let r' := fpFeed r.2 ps
    (r.1 ++ r'.1, r'.2)

/-- State of a three- or four-point detector: chunk bookkeeping, the residual stack of *decided*
turning points (top first; empty before the first sample), the last sample seen (the provisional
end point that the code keeps as last residual) and the recorder's content. -/
structure DetState where
  ts : TurnState := {}
  stack : List Pt := []
  last : Option Int := none
  cycles : List Cycle := []
  chunks : List Nat := []
deriving Repr, DecidableEq

/-- `FourPointDetector.process(samples)` for a non-empty chunk (an empty chunk is outside the
property's quantifier; the model leaves the state unchanged). -/
def fpProcess (st : DetState) (samples : List Int) : DetState :=
  match samples with
  | [] => st
  | s0 :: _ =>
    let base := if st.last.isNone then [(0, s0)] else st.stack
    let (ts', turns) := newTurns st.ts samples
    let r := fpFeed base turns
    let lastv := samples.getLast!
    let r2 := fpClose r.2 lastv
    { ts := ts', stack := r2.2, last := some lastv,
      cycles := st.cycles ++ r.1 ++ r2.1, chunks := st.chunks ++ [samples.length] }

/-- `residuals` property: decided residual values (oldest first) followed by the last sample. -/
def DetState.residuals (st : DetState) : List Int :=
  match st.last with
  | none => []
  | some l => st.stack.reverse.map (·.2) ++ [l]

/-- `residual_index` property. -/
def DetState.residualIndex (st : DetState) : List Int :=
  match st.last with
  | none => [0, -1]     -- `np.append([0], 0 - 1)` before any sample
  | some _ => st.stack.reverse.map (fun p => (p.1 : Int)) ++ [(st.ts.head : Int) - 1]

def fpRun (chunks : List (List Int)) : DetState := chunks.foldl fpProcess {}

/-! ### Three-point

`threepoint_loop` restarts from position 2 of the residual array on every chunk and works with
positions into the `turns` array; the model mirrors that literally (positions, `highest_front`,
`lowest_front`). -/

/-- First position of the maximum (`np.argmax`). -/
def argmax (l : List Int) : Nat :=
  (l.zipIdx.foldl (fun (acc : Option (Int × Nat)) x =>
    match acc with
    | none => some x
    | some a => if x.1 > a.1 then some x else some a) none).map (·.2) |>.getD 0

def argmin (l : List Int) : Nat := argmax (l.map (fun x => -x))

structure TpLoop where
  ri : List Nat            -- residual positions, top first
  hf : Nat
  lf : Nat
  cycles : List (Nat × Nat)  -- (start position, front position), in order of detection
deriving Repr

/-- One iteration family of `threepoint_loop` for the point at position `back`; `fuel` bounds the
number of closings (at most `ri.length / 2`). -/
def tpBack (turns : Array Int) (back : Nat) : Nat → TpLoop → TpLoop
  | 0, L => { L with ri := back :: L.ri }
  | fuel+1, L =>
    match L.ri with
    | front :: start :: rest =>
      let sv := turns[start]!; let fv := turns[front]!; let bv := turns[back]!
      if fv > turns[L.hf]! then { L with hf := front, ri := back :: L.ri }
      else if fv < turns[L.lf]! then { L with lf := front, ri := back :: L.ri }
      else if start ≥ max L.lf L.hf ∧ absDiff bv fv ≥ absDiff fv sv then
        tpBack turns back fuel { L with ri := rest, cycles := L.cycles ++ [(start, front)] }
      else { L with ri := back :: L.ri }
    | _ => { L with ri := back :: L.ri }

def tpLoop (turns : Array Int) (hf lf : Nat) : TpLoop :=
  (List.range (turns.size - 2)).foldl
    (fun L k => tpBack turns (k + 2) (L.ri.length / 2 + 1) L)
    { ri := [1, 0], hf := hf, lf := lf, cycles := [] }

/-- `ThreePointDetector.process(samples)` for a non-empty chunk. -/
def tpProcess (st : DetState) (samples : List Int) : DetState :=
  match samples with
  | [] => st
  | s0 :: _ =>
    let base : List Pt := if st.last.isNone then [(0, s0)] else st.stack.reverse
    let (ts', turns) := newTurns st.ts samples
    let lastv := samples.getLast!
    let pts : Array Pt := (base ++ turns).toArray
    let vals : Array Int := (base ++ turns).toArray.map (·.2) |>.push lastv
    let resid := base.map (·.2)
    let L := tpLoop vals (argmax resid) (argmin resid)
    let cyc := L.cycles.map fun (s, f) => (pts[s]!, pts[f]!)
    -- the top of `ri` is always the provisional last sample
    let stack' := (L.ri.drop 1).map fun i => pts[i]!
    { ts := ts', stack := stack', last := some lastv,
      cycles := st.cycles ++ cyc, chunks := st.chunks ++ [samples.length] }

def tpRun (chunks : List (List Int)) : DetState := chunks.foldl tpProcess {}

/-! ### FKM (Clormann–Seeger HCM) detector -/

structure FkmState where
  ts : TurnState := {}
  res : List Int := []       -- residuals, top first
  ir : Nat := 1
  maxTurn : Nat := 0
  cycles : List (Int × Int) := []
deriving Repr, DecidableEq

/-- The `while loop_assumed` loop of `FKMDetector.process` for one turning point `cur`. -/
def fkmLoop (cur : Int) (maxTurn : Nat) : Nat → List Int → Nat → List (Int × Int) →
    List Int × Nat × List (Int × Int)
  | 0, res, ir, acc => (res, ir, acc)
  | fuel+1, res, ir, acc =>
    let iz := res.length
    if iz < ir then (res, ir, acc)
    else if iz > ir then
      match res with
      | last0 :: last1 :: rest =>
        if absDiff cur last0 ≥ absDiff last0 last1 then
          fkmLoop cur maxTurn fuel rest ir (acc ++ [(last1, last0)])
        else (res, ir, acc)
      | _ => (res, ir, acc)
    else
      if cur.natAbs > maxTurn then (res, ir + 1, acc) else (res, ir, acc)

def fkmTurn (st : FkmState) (cur : Int) : FkmState :=
  let (res, ir, acc) := fkmLoop cur st.maxTurn (st.res.length / 2 + 2) st.res st.ir []
  { st with res := cur :: res, ir := ir, maxTurn := max cur.natAbs st.maxTurn,
            cycles := st.cycles ++ acc }

def fkmProcess (st : FkmState) (samples : List Int) : FkmState :=
  let (ts', turns) := newTurns st.ts samples
  turns.foldl (fun s p => fkmTurn s p.2) { st with ts := ts' }

def fkmRun (chunks : List (List Int)) : FkmState := chunks.foldl fkmProcess {}

def FkmState.residualIndex (st : FkmState) : List Int := [0, (st.ts.head : Int) - 1]

end PylifeVerif.Rainflow
