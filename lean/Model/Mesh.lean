/-
Model of pyLife's mesh operators (property C19):

* `mesh/gradient.py`  `Gradient3D` – per element the shape-function gradient at every corner
  (`_compute_gradient_hexahedral`, `_compute_gradient_simplex`: the code's explicit Jacobian entries,
  `np.linalg.inv`, `Σₐ fₐ Σⱼ ∂φₐ/∂ξⱼ · J⁻¹[j,k]`), elements taken in ascending element id (stable), per node
  the value of the first row (`~index.duplicated(keep='first')`);
* `mesh/gradient.py`  `Gradient` – per node the least-squares plane through the neighbour nodes (nodes that
  share an element): rows `x_j − x_i`, right-hand side `f_j − f_i`, `np.linalg.lstsq(rcond=None)` = the
  minimum-norm least-squares solution (`lstsq3`: normal equations for rank 3, `(t·r − M r)/e₂` for rows in one
  plane of ANY orientation, `r/t` for rows on one line).
  Node rows are addressed through the id → position map of the sorted node ids (the behaviour after the
  repair of F-5; the unrepaired code uses `id − 1` as position);
* `mesh/hotspot.py`  `HotSpot.calc` / `__hs_sel` – threshold `≥ limit_frac · max`, region growing over rows
  that share a node id or an element id, labels 1, 2, … by descending peak;
* `mesh/meshmapping.py` – `scipy.interpolate.griddata(method='linear')` on a triangulation handed in by the caller
  (`mapMesh3` / `mapMesh2`: value of the first simplex that contains the point, barycentric interpolation, NaN
  outside every simplex); the Delaunay triangulation itself (Qhull) is external;
* `mesh/surface.py` – for hexahedral block meshes only: a node is flagged iff fewer than 8 elements meet
  there (the solid-angle arithmetic is not modelled); `blockRows` is the block mesh the theorem speaks about.

The numeric functions are generic in the carrier (driver: `Float`, proofs: `ℝ`); the hot-spot model only needs
an order and a product.  No Mathlib.
-/
import Model.Num

namespace PylifeVerif.Mesh

/-! ## 3-vectors and 3×3 matrices -/

structure V3 (α : Type) where
  x : α
  y : α
  z : α

structure M3 (α : Type) where
  a11 : α
  a12 : α
  a13 : α
  a21 : α
  a22 : α
  a23 : α
  a31 : α
  a32 : α
  a33 : α

section Numeric

variable {α : Type} [Add α] [Sub α] [Mul α] [Div α] [Neg α] [OfScientific α]
  [LT α] [LE α] [DecidableLT α] [DecidableLE α]

instance : Inhabited (V3 α) := ⟨⟨0.0, 0.0, 0.0⟩⟩

def V3.sub (a b : V3 α) : V3 α := ⟨a.x - b.x, a.y - b.y, a.z - b.z⟩
def V3.dot (a b : V3 α) : α := a.x * b.x + a.y * b.y + a.z * b.z
def V3.zero : V3 α := ⟨0.0, 0.0, 0.0⟩

/-- `x = 0` with comparisons only (`Float` has no decidable equality; false for NaN). -/
def isZero (x : α) : Bool := decide (x ≤ 0.0) && decide (0.0 ≤ x)

def det3 (m : M3 α) : α :=
  m.a11 * (m.a22 * m.a33 - m.a23 * m.a32) - m.a12 * (m.a21 * m.a33 - m.a23 * m.a31)
    + m.a13 * (m.a21 * m.a32 - m.a22 * m.a31)

/-- The contract of `np.linalg.inv` for a 3×3 matrix: adjugate over determinant. -/
def inv3 (m : M3 α) : M3 α :=
  let d := det3 m
  ⟨(m.a22 * m.a33 - m.a23 * m.a32) / d, (m.a13 * m.a32 - m.a12 * m.a33) / d, (m.a12 * m.a23 - m.a13 * m.a22) / d,
   (m.a23 * m.a31 - m.a21 * m.a33) / d, (m.a11 * m.a33 - m.a13 * m.a31) / d, (m.a13 * m.a21 - m.a11 * m.a23) / d,
   (m.a21 * m.a32 - m.a22 * m.a31) / d, (m.a12 * m.a31 - m.a11 * m.a32) / d, (m.a11 * m.a22 - m.a12 * m.a21) / d⟩

/-- `m[j,k]`, 0-based. -/
def M3.get (m : M3 α) (j k : Nat) : α :=
  match j, k with
  | 0, 0 => m.a11 | 0, 1 => m.a12 | 0, _ => m.a13
  | 1, 0 => m.a21 | 1, 1 => m.a22 | 1, _ => m.a23
  | _, 0 => m.a31 | _, 1 => m.a32 | _, _ => m.a33

def M3.mulVec (m : M3 α) (v : V3 α) : V3 α :=
  ⟨m.a11 * v.x + m.a12 * v.y + m.a13 * v.z, m.a21 * v.x + m.a22 * v.y + m.a23 * v.z,
   m.a31 * v.x + m.a32 * v.y + m.a33 * v.z⟩

/-- `acc₀ + f l₀ + f l₁ + …` from the left, as the Python loops and `np.sum` over a handful of terms do. -/
def sumMap {β : Type} (f : β → α) (l : List β) : α := l.foldl (fun acc r => acc + f r) 0.0

/-! ## `Gradient3D`: one element -/

/-- One row of an element: a corner's coordinates and its nodal value. -/
structure Corner (α : Type) where
  p : V3 α
  f : α

instance : Inhabited (Corner α) := ⟨⟨default, 0.0⟩⟩

/-- 1-D hat function `phi(xi, a)`: `1 - xi` for the left node, `xi` for the right node. -/
def phi (xi : α) (a : Bool) : α := if a then xi else 1.0 - xi

/-- Derivative of the hat function: `-1` left, `1` right. -/
def dphi (a : Bool) : α := if a then 1.0 else -1.0

def hexAx (a : Nat) : Bool := a == 1 || a == 2 || a == 5 || a == 6
def hexAy (a : Nat) : Bool := a == 2 || a == 3 || a == 6 || a == 7
def hexAz (a : Nat) : Bool := a == 4 || a == 5 || a == 6 || a == 7

/-- `dphi_a_dxi_j(xi, a, j)` of `_initialize_ansatz_function_derivative_hexahedral`. -/
def hexDphi (xi : V3 α) (a j : Nat) : α :=
  match j with
  | 0 => dphi (hexAx a) * phi xi.y (hexAy a) * phi xi.z (hexAz a)
  | 1 => phi xi.x (hexAx a) * dphi (hexAy a) * phi xi.z (hexAz a)
  | _ => phi xi.x (hexAx a) * phi xi.y (hexAy a) * dphi (hexAz a)

/-- First column entry of the code's Jacobian (`J11`, `J21`, `J31` share the pattern; `c1 … c8` are one
coordinate of the eight corners). -/
def hexJ1 (c1 c2 c3 c4 c5 c6 c7 c8 xi2 xi3 : α) : α :=
  xi3 * (-c5 * (1.0 - xi2) + c6 * (1.0 - xi2) + c7 * xi2 - c8 * xi2)
    + (1.0 - xi3) * (-c1 * (1.0 - xi2) + c2 * (1.0 - xi2) + c3 * xi2 - c4 * xi2)

/-- `J12`, `J22`, `J32`. -/
def hexJ2 (c1 c2 c3 c4 c5 c6 c7 c8 xi1 xi3 : α) : α :=
  xi3 * (-c5 * (1.0 - xi1) - c6 * xi1 + c7 * xi1 + c8 * (1.0 - xi1))
    + (1.0 - xi3) * (-c1 * (1.0 - xi1) - c2 * xi1 + c3 * xi1 + c4 * (1.0 - xi1))

/-- `J13`, `J23`, `J33`. -/
def hexJ3 (c1 c2 c3 c4 c5 c6 c7 c8 xi1 xi2 : α) : α :=
  -c1 * (1.0 - xi1) * (1.0 - xi2) - c2 * xi1 * (1.0 - xi2) - c3 * xi1 * xi2 - c4 * xi2 * (1.0 - xi1)
    + c5 * (1.0 - xi1) * (1.0 - xi2) + c6 * xi1 * (1.0 - xi2) + c7 * xi1 * xi2 + c8 * xi2 * (1.0 - xi1)

/-- The eight corners of a hexahedral element in the code's local order. -/
structure Hex (α : Type) where
  c1 : Corner α
  c2 : Corner α
  c3 : Corner α
  c4 : Corner α
  c5 : Corner α
  c6 : Corner α
  c7 : Corner α
  c8 : Corner α

def Hex.corners (h : Hex α) : List (Corner α) := [h.c1, h.c2, h.c3, h.c4, h.c5, h.c6, h.c7, h.c8]

/-- The Jacobian `J` of `_compute_gradient_hexahedral` at reference point `xi`. -/
def hexJ (h : Hex α) (xi : V3 α) : M3 α :=
  let cx (f : V3 α → α) (g : α → α → α → α → α → α → α → α → α) : α :=
    g (f h.c1.p) (f h.c2.p) (f h.c3.p) (f h.c4.p) (f h.c5.p) (f h.c6.p) (f h.c7.p) (f h.c8.p)
  ⟨cx V3.x (hexJ1 · · · · · · · · xi.y xi.z), cx V3.x (hexJ2 · · · · · · · · xi.x xi.z), cx V3.x (hexJ3 · · · · · · · · xi.x xi.y),
   cx V3.y (hexJ1 · · · · · · · · xi.y xi.z), cx V3.y (hexJ2 · · · · · · · · xi.x xi.z), cx V3.y (hexJ3 · · · · · · · · xi.x xi.y),
   cx V3.z (hexJ1 · · · · · · · · xi.y xi.z), cx V3.z (hexJ2 · · · · · · · · xi.x xi.z), cx V3.z (hexJ3 · · · · · · · · xi.x xi.y)⟩

/-- `result[k]` of `_compute_gradient_*_single_node`: `Σₐ fₐ · (Σⱼ ∂φₐ/∂ξⱼ · Jinv[j,k])`, both sums started at 0
and accumulated in the code's order. -/
def gradComp (fs : List α) (d : Nat → Nat → α) (jinv : M3 α) (k : Nat) : α :=
  sumMap (fun (af : Nat × α) => af.2 * sumMap (fun j => d af.1 j * jinv.get j k) [0, 1, 2])
    ((List.range fs.length).zip fs)

def gradVec (fs : List α) (d : Nat → Nat → α) (jinv : M3 α) : V3 α :=
  ⟨gradComp fs d jinv 0, gradComp fs d jinv 1, gradComp fs d jinv 2⟩

/-- The reference coordinates of the eight corners, in local node order. -/
def hexXi : List (V3 α) :=
  [⟨0.0, 0.0, 0.0⟩, ⟨1.0, 0.0, 0.0⟩, ⟨1.0, 1.0, 0.0⟩, ⟨0.0, 1.0, 0.0⟩,
   ⟨0.0, 0.0, 1.0⟩, ⟨1.0, 0.0, 1.0⟩, ⟨1.0, 1.0, 1.0⟩, ⟨0.0, 1.0, 1.0⟩]

/-- Gradient of a hexahedral element at reference point `xi` (zeros when `np.linalg.inv` raises: singular `J`). -/
def hexGradAt (h : Hex α) (xi : V3 α) : V3 α :=
  let J := hexJ h xi
  if isZero (det3 J) then V3.zero
  else gradVec (h.corners.map (·.f)) (hexDphi xi) (inv3 J)

/-- The eight nodal gradients of one hexahedral element. -/
def hexGrad (h : Hex α) : List (V3 α) := hexXi.map (hexGradAt h)

/-- The four corners of a tetrahedral element. -/
structure Tet (α : Type) where
  c1 : Corner α
  c2 : Corner α
  c3 : Corner α
  c4 : Corner α

def Tet.corners (t : Tet α) : List (Corner α) := [t.c1, t.c2, t.c3, t.c4]

/-- `dphi_a_dxi_j(node_index, a, j)` of the simplex: `-1` for `a = 0`, else `δ_{j, a-1}`. -/
def tetDphi (a j : Nat) : α := if a == 0 then -1.0 else if j + 1 == a then 1.0 else 0.0

/-- The (constant) Jacobian of `_compute_gradient_simplex`: columns `x₂−x₁, x₃−x₁, x₄−x₁`. -/
def tetJ (t : Tet α) : M3 α :=
  ⟨-t.c1.p.x + t.c2.p.x, -t.c1.p.x + t.c3.p.x, -t.c1.p.x + t.c4.p.x,
   -t.c1.p.y + t.c2.p.y, -t.c1.p.y + t.c3.p.y, -t.c1.p.y + t.c4.p.y,
   -t.c1.p.z + t.c2.p.z, -t.c1.p.z + t.c3.p.z, -t.c1.p.z + t.c4.p.z⟩

/-- The gradient of a tetrahedral element (the same at its four nodes). -/
def tetGradAt (t : Tet α) : V3 α :=
  let J := tetJ t
  if isZero (det3 J) then V3.zero
  else gradVec (t.corners.map (·.f)) tetDphi (inv3 J)

def tetGrad (t : Tet α) : List (V3 α) := [tetGradAt t, tetGradAt t, tetGradAt t, tetGradAt t]

/-! ## Mesh rows and the `gradient_3D` pipeline -/

/-- One row of the mesh frame: `(node_id, element_id)` index, coordinates and the value column. -/
structure MRow (α : Type) where
  node : Int
  elem : Int
  p : V3 α
  v : α

def MRow.corner (r : MRow α) : Corner α := ⟨r.p, r.v⟩

/-- Insert keeping ascending order, dropping duplicates. -/
def insertSorted (x : Int) : List Int → List Int
  | [] => [x]
  | y :: ys => if x < y then x :: y :: ys else if x == y then y :: ys else y :: insertSorted x ys

/-- `np.unique`: ascending, without duplicates. -/
def sortedUnique (l : List Int) : List Int := l.foldl (fun acc x => insertSorted x acc) []

/-- `groupby('element_id')` after the stable sort by element id: the groups in ascending id, rows in frame order. -/
def elemGroups (rows : List (MRow α)) : List (List (MRow α)) :=
  (sortedUnique (rows.map (·.elem))).map fun e => rows.filter (·.elem == e)

/-- `_compute_gradient` of one element group: per row `(node_id, gradient)`; `none` stands for the NaN rows of an
element with an unsupported number of nodes. -/
def elemGrad (g : List (MRow α)) : List (Int × Option (V3 α)) :=
  let n := g.length
  let c (i : Nat) : Corner α := (g.getD i ⟨0, 0, default, 0.0⟩).corner
  if n == 8 || n == 16 || n == 20 then
    let gr := hexGrad ⟨c 0, c 1, c 2, c 3, c 4, c 5, c 6, c 7⟩
    (List.range n).map fun i => ((g.getD i ⟨0, 0, default, 0.0⟩).node, some (gr.getD i V3.zero))
  else if n == 4 || n == 10 then
    let gr := tetGrad ⟨c 0, c 1, c 2, c 3⟩
    (List.range n).map fun i => ((g.getD i ⟨0, 0, default, 0.0⟩).node, some (gr.getD i V3.zero))
  else g.map fun r => (r.node, none)

/-- Keep the first entry per key (`~index.duplicated(keep='first')`). -/
def dedupFirst {β : Type} : List (Int × β) → List Int → List (Int × β)
  | [], _ => []
  | (k, b) :: rest, seen => if seen.contains k then dedupFirst rest seen else (k, b) :: dedupFirst rest (k :: seen)

/-- `Gradient3D.gradient_of`: per node id (order of first appearance in the element-sorted frame) the gradient
computed in the first element that lists the node. -/
def gradient3D (rows : List (MRow α)) : List (Int × Option (V3 α)) :=
  dedupFirst ((elemGroups rows).flatMap elemGrad) []

/-! ## `Gradient`: least squares through the neighbour nodes -/

def det2 (a b c d : α) : α := a * d - b * c

/-- `AᵀA` for rows `a ∈ A`. -/
def normalMatrix (A : List (V3 α)) : M3 α :=
  let s (f : V3 α → α) := sumMap f A
  ⟨s (fun a => a.x * a.x), s (fun a => a.x * a.y), s (fun a => a.x * a.z),
   s (fun a => a.y * a.x), s (fun a => a.y * a.y), s (fun a => a.y * a.z),
   s (fun a => a.z * a.x), s (fun a => a.z * a.y), s (fun a => a.z * a.z)⟩

/-- `Aᵀb`. -/
def normalRhs (Ab : List (V3 α × α)) : V3 α :=
  ⟨sumMap (fun r => r.1.x * r.2) Ab, sumMap (fun r => r.1.y * r.2) Ab, sumMap (fun r => r.1.z * r.2) Ab⟩

/-- Sum of the principal 2×2 minors (= trace of the adjugate = `λ₁λ₂ + λ₁λ₃ + λ₂λ₃`). -/
def adjTrace (m : M3 α) : α :=
  (m.a22 * m.a33 - m.a23 * m.a32) + (m.a11 * m.a33 - m.a13 * m.a31) + (m.a11 * m.a22 - m.a12 * m.a21)

def M3.trace (m : M3 α) : α := m.a11 + m.a22 + m.a33

/-- The contract of `np.linalg.lstsq(A, b, rcond=None)[0]` for an `n×3` system: the MINIMUM-NORM least-squares
solution `A⁺b`, where singular values below the rank cut-off count as zero.  In terms of `M = AᵀA` (eigenvalues
`λ₁ ≥ λ₂ ≥ λ₃ ≥ 0` = squared singular values), `r = Aᵀb`, `t = tr M`, `e₂ = tr adj M`:

* rank 3 (`det M > rtol·e₂·t`, i.e. `λ₃/λ₁` above the cut-off): the normal equations `M⁻¹ r`;
* rank 2 (`det M ≤ rtol·e₂·t`: all rows of `A` in one plane, any orientation): on the range of `M` Cayley–Hamilton gives
  `M⁺ = (t·I − M)/e₂`, so `A⁺b = (t·I − M) r/e₂` – for `b = A g` this is `g` minus its component normal to the plane;
* rank ≤ 1 (`e₂ ≤ rtol·t²`: all rows on one line): `r/t`; no rows / all rows zero: `0`.

`rtol` stands for LAPACK's relative cut-off (`rcond = eps·max(n,3)` on the singular values, i.e. its square on the
eigenvalue ratios); the driver runs with `1e-12`, the theorems hold for every `rtol ≥ 0`. -/
def lstsq3 (rtol : α) (Ab : List (V3 α × α)) : V3 α :=
  let A := Ab.map (·.1)
  let M := normalMatrix A
  let r := normalRhs Ab
  let t := M.trace
  let e2 := adjTrace M
  if e2 ≤ rtol * (t * t) then
    if t ≤ 0.0 then V3.zero else ⟨r.x / t, r.y / t, r.z / t⟩
  else if det3 M ≤ rtol * (e2 * t) then
    -- `(t·I − M) r / e₂`, the diagonal of `t·I − M` written without the cancelling term (for a mesh in a coordinate
    -- plane this is Cramer's rule for the 2×2 normal equations)
    ⟨((M.a22 + M.a33) * r.x - M.a12 * r.y - M.a13 * r.z) / e2,
     (-M.a21 * r.x + (M.a11 + M.a33) * r.y - M.a23 * r.z) / e2,
     (-M.a31 * r.x - M.a32 * r.y + (M.a11 + M.a22) * r.z) / e2⟩
  else (inv3 M).mulVec r

/-- Position of `id` in the sorted node ids (`Index.get_indexer`, the repaired addressing). -/
def indexOf (ids : List Int) (id : Int) : Nat := ids.findIdx (· == id)

/-- `_find_neighbor`: the other node ids of all elements the node belongs to, ascending. -/
def neighbors (rows : List (MRow α)) (node : Int) : List Int :=
  let elems := (rows.filter (·.node == node)).map (·.elem)
  (sortedUnique ((rows.filter (fun r => elems.contains r.elem)).map (·.node))).filter (· != node)

/-- `groups.first()[x,y,z]` and `groups[value].mean()` per sorted node id. -/
def nodeData (rows : List (MRow α)) (ids : List Int) (cnt : Nat → α) : List (V3 α × α) :=
  ids.map fun id =>
    let rs := rows.filter (·.node == id)
    ((rs.head?.map (·.p)).getD default, sumMap (·.v) rs / cnt rs.length)

/-- `Gradient.gradient_of`: per sorted node id the least-squares gradient.  `cnt` turns a row count into the
carrier (`Nat.toFloat`, `Nat.cast`), `rtol` is the rank cut-off of `lstsq3`. -/
def gradientLsq (rtol : α) (cnt : Nat → α) (rows : List (MRow α)) : List (Int × V3 α) :=
  let ids := sortedUnique (rows.map (·.node))
  let data := (nodeData rows ids cnt).toArray
  let zero : V3 α × α := (default, 0.0)
  ids.zipIdx.map fun (id, pos) =>
    let row := data.getD pos zero
    let Ab := (neighbors rows id).map fun nb =>
      let d := data.getD (indexOf ids nb) zero
      (d.1.sub row.1, d.2 - row.2)
    (id, lstsq3 rtol Ab)

/-! ## Barycentric interpolation in one simplex (`griddata(method='linear')`) -/

/-- Weights of `p` in the tetrahedron `p₀ p₁ p₂ p₃`: `(λ₁,λ₂,λ₃) = T⁻¹ (p − p₀)`, `λ₀ = 1 − λ₁ − λ₂ − λ₃`. -/
def baryWeights3 (p0 p1 p2 p3 p : V3 α) : α × V3 α :=
  let a := p1.sub p0
  let b := p2.sub p0
  let c := p3.sub p0
  let T : M3 α := ⟨a.x, b.x, c.x, a.y, b.y, c.y, a.z, b.z, c.z⟩
  let l := (inv3 T).mulVec (p.sub p0)
  (1.0 - l.x - l.y - l.z, l)

def baryInterp3 (p0 p1 p2 p3 : V3 α) (f0 f1 f2 f3 : α) (p : V3 α) : α :=
  let w := baryWeights3 p0 p1 p2 p3 p
  w.1 * f0 + w.2.x * f1 + w.2.y * f2 + w.2.z * f3

/-- Weights of `(px,py)` in the triangle `(x0,y0) (x1,y1) (x2,y2)`. -/
def baryWeights2 (x0 y0 x1 y1 x2 y2 px py : α) : α × α × α :=
  let d := det2 (x1 - x0) (x2 - x0) (y1 - y0) (y2 - y0)
  let l1 := ((px - x0) * (y2 - y0) - (x2 - x0) * (py - y0)) / d
  let l2 := ((x1 - x0) * (py - y0) - (px - x0) * (y1 - y0)) / d
  (1.0 - l1 - l2, l1, l2)

def baryInterp2 (x0 y0 x1 y1 x2 y2 f0 f1 f2 px py : α) : α :=
  let w := baryWeights2 x0 y0 x1 y1 x2 y2 px py
  w.1 * f0 + w.2.1 * f1 + w.2.2 * f2

/-! ## `Meshmapper.process`: `griddata(method='linear')` on a triangulation -/

/-- `p` lies in the tetrahedron (every barycentric weight `≥ −tol`; false for NaN weights of a flat simplex). -/
def inTet (tol : α) (t : Tet α) (p : V3 α) : Bool :=
  let w := baryWeights3 t.c1.p t.c2.p t.c3.p t.c4.p p
  decide (-tol ≤ w.1) && decide (-tol ≤ w.2.x) && decide (-tol ≤ w.2.y) && decide (-tol ≤ w.2.z)

def tetInterp (t : Tet α) (p : V3 α) : α :=
  baryInterp3 t.c1.p t.c2.p t.c3.p t.c4.p t.c1.f t.c2.f t.c3.f t.c4.f p

/-- Linear interpolation on a list of tetrahedra: the value in the first one that contains `p`, `none` (NaN in
the code) when `p` is outside all of them. -/
def mapMesh3 (tol : α) (tets : List (Tet α)) (p : V3 α) : Option α :=
  (tets.find? (inTet tol · p)).map (tetInterp · p)

/-- A triangle of a 2-D mesh: corner coordinates and nodal values. -/
structure Tri (α : Type) where
  x0 : α
  y0 : α
  x1 : α
  y1 : α
  x2 : α
  y2 : α
  f0 : α
  f1 : α
  f2 : α

def inTri (tol : α) (t : Tri α) (px py : α) : Bool :=
  let w := baryWeights2 t.x0 t.y0 t.x1 t.y1 t.x2 t.y2 px py
  decide (-tol ≤ w.1) && decide (-tol ≤ w.2.1) && decide (-tol ≤ w.2.2)

def triInterp (t : Tri α) (px py : α) : α :=
  baryInterp2 t.x0 t.y0 t.x1 t.y1 t.x2 t.y2 t.f0 t.f1 t.f2 px py

def mapMesh2 (tol : α) (tris : List (Tri α)) (px py : α) : Option α :=
  (tris.find? (inTri tol · px py)).map (triInterp · px py)

end Numeric

/-! ## Hot spots -/

section HotSpot

variable {α : Type} [LT α] [LE α] [DecidableLT α] [DecidableLE α]

/-- `idxmax` over the remaining rows: the first index with the largest value. -/
def argmaxFirst (val : Nat → α) : List Nat → Option Nat
  | [] => none
  | i :: rest => some (rest.foldl (fun best j => if val best < val j then j else best) i)

/-- One pass of the `while new_entries` loop of `__hs_sel`: add every remaining row that shares a node id or an
element id (`adj`) with a row already in the hot spot. -/
def growStep (adj : Nat → Nat → Bool) (rem S : List Nat) : List Nat :=
  S ++ rem.filter (fun i => !S.contains i && S.any (fun j => adj j i))

/-- The loop of `__hs_sel`: repeat until nothing is added (`fuel` ≥ number of remaining rows suffices). -/
def grow (adj : Nat → Nat → Bool) (rem : List Nat) : Nat → List Nat → List Nat
  | 0, S => S
  | fuel + 1, S =>
    let S' := growStep adj rem S
    if S'.length == S.length then S else grow adj rem fuel S'

/-- The `while above_limit.any()` loop of `calc`: hot spots in the order they are found. -/
def components (adj : Nat → Nat → Bool) (val : Nat → α) : Nat → List Nat → List (List Nat)
  | 0, _ => []
  | fuel + 1, rem =>
    match argmaxFirst val rem with
    | none => []
    | some p =>
      let c := grow adj rem rem.length [p]
      c :: components adj val fuel (rem.filter (fun i => !c.contains i))

/-- Label of row `i`: 1 + position of the hot spot that contains it, 0 if none does. -/
def labelOf (comps : List (List Nat)) (i : Nat) : Nat :=
  match comps.findIdx? (·.contains i) with
  | some k => k + 1
  | none => 0

/-- Maximum of a list (`Series.max`), `none` for the empty list. -/
def maxOf : List α → Option α
  | [] => none
  | x :: xs => some (xs.foldl (fun m y => if m < y then y else m) x)

/-- The thresholded rows and the labels, for an abstract adjacency and value function on row positions `0 … n-1`.
`cap = some t` is `artefact_threshold`: only values `< t` enter the maximum. -/
def hotspotCore [Mul α] (n : Nat) (adj : Nat → Nat → Bool) (val : Nat → α) (frac : α) (cap : Option α) : List Nat :=
  let idx := List.range n
  -- `Series.max` skips NaN (`val i ≤ val i` is false exactly for NaN; `NaN < t` is false anyway)
  let cand := match cap with
    | none => idx.filter (fun i => val i ≤ val i)
    | some t => idx.filter (fun i => val i < t)
  match maxOf (cand.map val) with
  | none => idx.map (fun _ => 0)
  | some m =>
    let above := idx.filter (fun i => frac * m ≤ val i)
    let comps := components adj val n above
    idx.map (labelOf comps)

/-- Rows of the mesh frame as the hot-spot detection sees them. -/
structure HRow (α : Type) where
  node : Int
  elem : Int
  v : α

/-- Two rows are adjacent iff they carry the same node id or the same element id. -/
def rowAdj (nodes elems : Array Int) (i j : Nat) : Bool :=
  nodes.getD i 0 == nodes.getD j 0 || elems.getD i 0 == elems.getD j 0

/-- `HotSpot.calc(value_key, limit_frac, artefact_threshold)`: one label per row, in frame order. -/
def hotspot [Mul α] [Inhabited α] (rows : List (HRow α)) (frac : α) (cap : Option α) : List Nat :=
  let nodes := (rows.map (·.node)).toArray
  let elems := (rows.map (·.elem)).toArray
  let vals := (rows.map (·.v)).toArray
  hotspotCore rows.length (rowAdj nodes elems) (fun i => vals.getD i default) frac cap

end HotSpot

/-! ## Surface of a hexahedral block (combinatorial part only) -/

/-- Number of cells `a < n` of one axis that touch grid line `i` (`a = i` or `a + 1 = i`). -/
def axisCount (n i : Nat) : Nat := ((List.range n).filter (fun a => a == i || a + 1 == i)).length

/-- Number of elements of an `nx × ny × nz` block that meet at grid node `(i, j, k)`. -/
def incidentCount (nx ny nz i j k : Nat) : Nat := axisCount nx i * axisCount ny j * axisCount nz k

/-- For a hexahedral block mesh given as `(node_id, element_id)` rows: per sorted node id whether fewer than 8
elements meet there. -/
def surfaceFlags (rows : List (Int × Int)) : List (Int × Bool) :=
  (sortedUnique (rows.map (·.1))).map fun id =>
    (id, decide ((sortedUnique ((rows.filter (·.1 == id)).map (·.2))).length < 8))

/-- Local corner offsets of a hexahedron of the block, in the element's local node order. -/
def hexOffsets : List (Nat × Nat × Nat) :=
  [(0, 0, 0), (1, 0, 0), (1, 1, 0), (0, 1, 0), (0, 0, 1), (1, 0, 1), (1, 1, 1), (0, 1, 1)]

/-- Number of grid node `(i, j, k)` of an `nx × ny × nz` block, `x` fastest. -/
def gridNode (nx ny i j k : Nat) : Nat := i + (nx + 1) * (j + (ny + 1) * k)

/-- Number of the cell with lower corner `(a, b, c)`. -/
def gridElem (nx ny a b c : Nat) : Nat := a + nx * (b + ny * c)

/-- The `(node_id, element_id)` rows of the hexahedral block mesh with `nx × ny × nz` cells; `nid` / `eid` map grid
numbers to the ids of the frame. -/
def blockRows (nx ny nz : Nat) (nid eid : Nat → Int) : List (Int × Int) :=
  (List.range nz).flatMap fun c => (List.range ny).flatMap fun b => (List.range nx).flatMap fun a =>
    hexOffsets.map fun (d : Nat × Nat × Nat) =>
      (nid (gridNode nx ny (a + d.1) (b + d.2.1) (c + d.2.2)), eid (gridElem nx ny a b c))

end PylifeVerif.Mesh
