/-
Model of the Miner-rule code of pyLife (property C11):

  * `pylife/materiallaws/woehlercurve.py`  `basquin_cycles` / `_make_k` (`cycles`), `miner_original`,
    `miner_elementary`, `miner_haibach`
  * `pylife/strength/fatigue.py`           `Fatigue.damage`
  * `pylife/strength/solidity.py`          `haibach`
  * `pylife/strength/miner.py`             `finite_life_factor`, `effective_damage_sum`, `gassner_cycles`,
                                           `MinerElementary.lifetime_multiple` / `gassner`,
                                           `MinerHaibach.lifetime_multiple`

A load collective / load histogram is seen through its two accessors `amplitude` and `cycles`
(`load_histogram.py`, `load_collective.py`): a list of classes `(amplitude, cycles)`.

The Miner functions are modelled in their REPAIRED form (/repo commit 110dd2d):
`gassner_cycles` and `MinerHaibach.lifetime_multiple` take the largest OCCUPIED amplitude
(`amplitude[cycles > 0].max()`, as `solidity.haibach` always did), `gassner_cycles` reads the cycle number of
that amplitude off the `k_1` line (`self.miner_elementary().cycles`), `MinerElementary.gassner` sets
`k_2 = k_1` on the shifted curve.  The unrepaired `gassner_cycles` (largest amplitude of ALL classes, the
object's own `k_2` below `SD`) is kept as `gassnerCyclesOld` so that the defect is stated and refuted in Lean.

Curves given for a native failure probability other than 50 % and with scatter (`TN`, `TS`): `Fatigue.damage`,
`WoehlerCurve.cycles` and therefore `gassner_cycles` always evaluate the curve transformed to 50 %
(`transform_to_failure_probability(0.5)`, modelled in `Model/Woehler.lean` - imported, not re-modelled).  The
section "native curves" at the end lifts every function to a `Woehler.Curve` through `at50`.  Second repair
(/repo commit 54050c5): `MinerHaibach.lifetime_multiple` splits the classes at the knee of the
50 % curve (before: at the native `SD`, inconsistent with the curve the damage is computed on).

Generic in the carrier (see `Model/Num.lean`): `Float` in the driver, `ℝ` in the proofs.  No Mathlib.
-/
import Model.Num
import Model.Woehler
namespace PylifeVerif.Miner

variable {α : Type} [Add α] [Sub α] [Mul α] [Div α] [Neg α] [OfScientific α]
  [LT α] [LE α] [DecidableLT α] [DecidableLE α] [Transc α]

/-- The Wöhler curve parameters the Miner code reads.  `k2 = none` is `k_2 = ∞` (the default). -/
structure Curve (α : Type) where
  k1 : α
  k2 : Option α
  SD : α
  ND : α

/-- One entry per class / per hysteresis loop: `(amplitude, cycles)`. -/
abbrev Coll (α : Type) := List (α × α)

/-- `ND * np.power(load / SD, -k)` -/
def basquin (c : Curve α) (k S : α) : α := c.ND * Transc.pow (S / c.SD) (-k)

/-- `WoehlerCurve.cycles` at the native failure probability: `k_2` strictly below `SD`, `k_1` from `SD`
    upwards; `none` is the value `inf` left in place where the exponent is not finite. -/
def cycles (c : Curve α) (S : α) : Option α :=
  if S < c.SD then c.k2.map (fun k => basquin c k S) else some (basquin c c.k1 S)

def minerOriginal (c : Curve α) : Curve α := { c with k2 := none }
def minerElementary (c : Curve α) : Curve α := { c with k2 := some c.k1 }
def minerHaibach (c : Curve α) : Curve α := { c with k2 := some (2.0 * c.k1 - 1.0) }

/-- left-to-right sum (the code uses `Series.sum`, `np.sum`, `np.dot`) -/
def sumL : List α → α
  | [] => 0.0
  | x :: xs => x + sumL xs

/-- one element of `Fatigue.damage`: `cycles / N(amplitude)`; `n / inf = 0`. -/
def damageTerm (c : Curve α) (p : α × α) : α :=
  match cycles c p.1 with
  | none => 0.0
  | some N => p.2 / N

def damage (c : Curve α) (l : Coll α) : List α := l.map (damageTerm c)

/-- the damage sum `Fatigue.damage(collective).sum()` -/
def damageSum (c : Curve α) (l : Coll α) : α := sumL (damage c l)

def total (l : Coll α) : α := sumL (l.map Prod.snd)

/-- maximum of a list (`Series.max`); the real code yields NaN for an empty selection, the model `0`. -/
def maxL : List α → α
  | [] => 0.0
  | x :: xs => xs.foldl (fun m y => if m < y then y else m) x

def occupied (l : Coll α) : Coll α := l.filter (fun p => decide (0.0 < p.2))

/-- `amplitude[cycles > 0].max()` -/
def maxOcc (l : Coll α) : α := maxL ((occupied l).map Prod.fst)

/-- `amplitude.max()` over all classes, occupied or not (used by the unrepaired code only) -/
def maxAll (l : Coll α) : α := maxL (l.map Prod.fst)

/-- `solidity.haibach(collective, k)`: `np.sum(hi * (S / S[hi > 0].max())**k / hi.sum())` -/
def solidityHaibach (l : Coll α) (k : α) : α :=
  sumL (l.map fun p => (p.2 * Transc.pow (p.1 / maxOcc l) k) / total l)

/-- `solidity.fkm(collective, k)`: `haibach(collective, k) ** (1. / k)` -/
def solidityFkm (l : Coll α) (k : α) : α := Transc.pow (solidityHaibach l k) (1.0 / k)

/-- `MinerElementary.lifetime_multiple` -/
def lifetimeMultipleElementary (c : Curve α) (l : Coll α) : α := 1.0 / solidityHaibach l c.k1

/-- `MinerHaibach.lifetime_multiple` normalised by the amplitude `M` -/
def lifetimeMultipleHaibachAt (c : Curve α) (M : α) (l : Coll α) : α :=
  let xD := c.SD / M
  let sum1 := sumL ((l.filter fun p => decide (xD ≤ p.1 / M)).map fun p => p.2 * Transc.pow (p.1 / M) c.k1)
  let sum2 := Transc.pow xD (1.0 - c.k1) *
    sumL ((l.filter fun p => decide (p.1 / M < xD)).map fun p => p.2 * Transc.pow (p.1 / M) (2.0 * c.k1 - 1.0))
  total l / (sum1 + sum2)

/-- `MinerHaibach.lifetime_multiple` (repaired: largest occupied amplitude) -/
def lifetimeMultipleHaibach (c : Curve α) (l : Coll α) : α := lifetimeMultipleHaibachAt c (maxOcc l) l

/-- `MinerBase.gassner_cycles` (repaired): `miner_elementary().cycles(max occupied amplitude) * A`;
    with `k_2 = k_1` both branches of `cycles` are the `k_1` line. -/
def gassnerCycles (c : Curve α) (l : Coll α) (A : α) : α := basquin c c.k1 (maxOcc l) * A

def gassnerCyclesElementary (c : Curve α) (l : Coll α) : α := gassnerCycles c l (lifetimeMultipleElementary c l)
def gassnerCyclesHaibach (c : Curve α) (l : Coll α) : α := gassnerCycles c l (lifetimeMultipleHaibach c l)

/-- `MinerBase.gassner_cycles` as it was before the repair: `self.cycles(amplitude.max()) * A`
    (`none` = `inf`). -/
def gassnerCyclesOld (c : Curve α) (l : Coll α) (A : α) : Option α :=
  (cycles c (maxAll l)).map (· * A)

/-- `MinerElementary.gassner` (repaired): the curve shifted to `ND * A_ele`, continued with `k_1`. -/
def gassnerCurve (c : Curve α) (l : Coll α) : Curve α :=
  { c with ND := c.ND * lifetimeMultipleElementary c l, k2 := some c.k1 }

/-- Python's builtin `max(a, b)` / `min(a, b)` on two floats (first argument wins ties and NaN). -/
def pyMax (a b : α) : α := if a < b then b else a
def pyMin (a b : α) : α := if b < a then b else a

/-- `miner.effective_damage_sum(A)`: `min(max(0.3, 2 / A**(1/4)), 1.0)` -/
def effectiveDamageSum (A : α) : α := pyMin (pyMax 0.3 (2.0 / Transc.pow A 0.25)) 1.0

/-- `MinerBase.finite_life_factor(N)`: `np.power(ND / N, 1 / k_1)` -/
def finiteLifeFactor (c : Curve α) (N : α) : α := Transc.pow (c.ND / N) (1.0 / c.k1)

/-- multiply every cycle count by `t` -/
def scaleCounts (t : α) (l : Coll α) : Coll α := l.map fun p => (p.1, t * p.2)

/-- multiply every amplitude by `t` (`collective.scale(t)`) -/
def scaleAmps (t : α) (l : Coll α) : Coll α := l.map fun p => (t * p.1, p.2)

/-- the collective applied for `N` cycles in total (same shape) -/
def applyFor (N : α) (l : Coll α) : Coll α := scaleCounts (N / total l) l

/-! ## native curves: failure probability and scatter (`Model/Woehler.lean`) -/

/-- the four parameters the Miner code reads off a validated Wöhler curve signal -/
def ofWoehler (w : Woehler.Curve α) : Curve α :=
  { k1 := w.k1
    k2 := match w.k2 with
      | Woehler.Life.finite k => if Transc.isFinite k then some k else none
      | Woehler.Life.inf => none
    SD := w.SD
    ND := w.ND }

/-- the curve `cycles()` / `Fatigue.damage` work on: `transform_to_failure_probability(0.5)` -/
def at50 (ppf : α → α) (w : Woehler.Curve α) : Curve α := ofWoehler (Woehler.transform ppf w 0.5)

/-- `Fatigue(w).damage(collective)` (per class) and its sum -/
def damageW (ppf : α → α) (w : Woehler.Curve α) (l : Coll α) : List α := damage (at50 ppf w) l
def damageSumW (ppf : α → α) (w : Woehler.Curve α) (l : Coll α) : α := damageSum (at50 ppf w) l

/-- `MinerElementary(w).lifetime_multiple` (curve-free apart from `k_1`) -/
def lifetimeMultipleElementaryW (w : Woehler.Curve α) (l : Coll α) : α := lifetimeMultipleElementary (ofWoehler w) l

/-- `MinerHaibach(w).lifetime_multiple` (repaired: knee of the 50 % curve) -/
def lifetimeMultipleHaibachW (ppf : α → α) (w : Woehler.Curve α) (l : Coll α) : α :=
  lifetimeMultipleHaibach (at50 ppf w) l

/-- `MinerHaibach(w).lifetime_multiple` before the second repair: knee at the native `SD` -/
def lifetimeMultipleHaibachNativeKnee (w : Woehler.Curve α) (l : Coll α) : α :=
  lifetimeMultipleHaibach (ofWoehler w) l

/-- `gassner_cycles`: `miner_elementary().cycles(max occupied amplitude)` is read off the 50 % curve -/
def gassnerCyclesElementaryW (ppf : α → α) (w : Woehler.Curve α) (l : Coll α) : α :=
  gassnerCycles (at50 ppf w) l (lifetimeMultipleElementaryW w l)
def gassnerCyclesHaibachW (ppf : α → α) (w : Woehler.Curve α) (l : Coll α) : α :=
  gassnerCycles (at50 ppf w) l (lifetimeMultipleHaibachW ppf w l)

/-- `MinerElementary(w).gassner(collective)`: the NATIVE curve with `ND * A_ele` and `k_2 = k_1` -/
def gassnerCurveW (w : Woehler.Curve α) (l : Coll α) : Woehler.Curve α :=
  { w with ND := w.ND * lifetimeMultipleElementaryW w l, k2 := Woehler.Life.finite w.k1 }

/-! ## the accessor objects as a state machine

`wc.gassner_miner_elementary`, `wc.gassner_miner_haibach` (`MinerElementary(wc)`, `MinerHaibach(wc)`) and `wc.fatigue`
are OBJECTS a script keeps and calls many times with different collectives
(`me = MinerElementary(wc); for c in collectives: me.gassner_cycles(c)`).  What an object carries from one call to the
next is its class and the validated curve (`self._obj` after `_validate`: the seven values `k_1 k_2 SD ND TN TS
failure_probability`); the code keeps nothing else (no cache, no counters) and no method writes to `self._obj`
(`gassner`, `miner_elementary()`, `transform_to_failure_probability` work on copies).  The state machine below says
exactly that: `step` answers a call from the state and the arguments and hands the state on unchanged.  The driver runs
whole call sequences through `run` (threading the state), the harness runs the same sequences on ONE real object and
compares every answer and the final state - a per-object cache or a method that modifies the curve shows as a
disagreement.  `none` = the class has no such method. -/

/-- the class of the accessor object -/
inductive Kind where
  | elementary   -- `series.gassner_miner_elementary`
  | haibach      -- `series.gassner_miner_haibach`
  | fatigue      -- `series.fatigue`
  deriving DecidableEq, Repr

/-- `fatigue.damage` directly (`own`) or after `miner_original()` / `miner_elementary()` / `miner_haibach()` -/
inductive Variant where
  | own | original | elementary | haibach
  deriving DecidableEq, Repr

/-- what the object holds between two calls -/
structure Obj (α : Type) where
  kind : Kind
  curve : Woehler.Curve α

/-- one method call with its argument -/
inductive Op (α : Type) where
  | lifetimeMultiple (l : Coll α)       -- `obj.lifetime_multiple(collective)`
  | gassnerCycles (l : Coll α)          -- `obj.gassner_cycles(collective)`
  | effectiveDamageSum (l : Coll α)     -- `obj.effective_damage_sum(collective)`
  | gassnerND (l : Coll α)              -- `obj.gassner(collective).ND`   (Miner elementary only)
  | finiteLifeFactor (N : α)            -- `obj.finite_life_factor(N)`
  | damageSum (v : Variant) (l : Coll α) -- `obj[.miner_xxx()].damage(collective).sum()`   (fatigue only)

def variantCurve (v : Variant) (w : Woehler.Curve α) : Woehler.Curve α :=
  match v with
  | .own => w
  | .original => Woehler.minerOriginal w
  | .elementary => Woehler.minerElementary w
  | .haibach => Woehler.minerHaibach w

/-- the value a call returns, from the state and the argument -/
def answer (ppf : α → α) (o : Obj α) : Op α → Option α
  | .lifetimeMultiple l =>
    match o.kind with
    | .elementary => some (lifetimeMultipleElementaryW o.curve l)
    | .haibach => some (lifetimeMultipleHaibachW ppf o.curve l)
    | .fatigue => none
  | .gassnerCycles l =>
    match o.kind with
    | .elementary => some (gassnerCyclesElementaryW ppf o.curve l)
    | .haibach => some (gassnerCyclesHaibachW ppf o.curve l)
    | .fatigue => none
  | .effectiveDamageSum l =>
    match o.kind with
    | .elementary => some (effectiveDamageSum (lifetimeMultipleElementaryW o.curve l))
    | .haibach => some (effectiveDamageSum (lifetimeMultipleHaibachW ppf o.curve l))
    | .fatigue => none
  | .gassnerND l =>
    match o.kind with
    | .elementary => some (gassnerCurveW o.curve l).ND
    | _ => none
  | .finiteLifeFactor N =>
    match o.kind with
    | .fatigue => none
    | _ => some (finiteLifeFactor (ofWoehler o.curve) N)
  | .damageSum v l =>
    match o.kind with
    | .fatigue => some (damageSumW ppf (variantCurve v o.curve) l)
    | _ => none

/-- one call: the new state of the object and the returned value.  The state is handed on as it is. -/
def step (ppf : α → α) (o : Obj α) (op : Op α) : Obj α × Option α := (o, answer ppf o op)

/-- a sequence of calls on ONE object: final state and the answers in call order -/
def run (ppf : α → α) : Obj α → List (Op α) → Obj α × List (Option α)
  | o, [] => (o, [])
  | o, op :: ops =>
    let r := step ppf o op
    let rest := run ppf r.1 ops
    (rest.1, r.2 :: rest.2)

end PylifeVerif.Miner
