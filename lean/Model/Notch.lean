/-
Model of the notch approximation laws (property C06) and of the binned look-up law (property C07).

Anchored code:

  * `materiallaws/rambgood.py`                      RambergOsgood.strain / delta_strain
  * `materiallaws/notch_approximation_law.py`       ExtendedNeuber._e_star, _neuber_strain, _stress_implicit,
                                                    _delta_e_star, _neuber_strain_secondary, _stress_secondary_implicit
                                                    (`_load_implicit(L, σ)` IS `_stress_implicit(σ, L)`, as in the code);
                                                    Binned._create_bins_* (class edges) and the four look-up functions
  * `materiallaws/notch_approximation_law_seegerbeste.py`   SeegerBeste._u_term, _middle_term, _stress_implicit and the
                                                    `_secondary` variants

The defining functions are written once, generic in the carrier (`Model/Num.lean`): the driver runs them at
`Float`, the proofs at `ℝ`.  `np.divide(a, b, out=np.ones_like(..), where=c)` is `if c then a / b else 1`.
What the iterative solvers (`scipy.optimize.newton`) return is NOT modelled: the laws' values are *roots* of the
defining functions; the driver finds them by bisection (`bisect`), the theorems speak about exact roots.

The binned law is piecewise constant: it is generic over a carrier with `<`, `≤`, `*`, `/`, `-x`, `0`, `1` and a
cast from `Nat` (the proofs use an arbitrary linearly ordered field).  No Mathlib import.
-/
import Model.Num

namespace PylifeVerif.Notch

/-! ## C06: the defining functions -/
section laws

/-- `np.pi` -/
class HasPi (α : Type) where
  pi : α

instance : HasPi Float := ⟨3.141592653589793⟩

/-- `np.sin` and `np.log1p` (`ln(1 + x)`), used by the Seeger-Beste middle term. -/
class HasSinLog1p (α : Type) where
  sin : α → α
  log1p : α → α

/-- `log1p` at `Float` without loss of digits for small `x` (Kahan): `ln(w) · x / (w − 1)` with `w = 1 + x`. -/
def floatLog1p (x : Float) : Float :=
  let w := 1.0 + x
  if w == 1.0 then x else if w - 1.0 == x then Float.log w else Float.log w * (x / (w - 1.0))

instance : HasSinLog1p Float := ⟨Float.sin, floatLog1p⟩

variable {α : Type} [Add α] [Sub α] [Mul α] [Div α] [Neg α] [OfScientific α]
  [LT α] [LE α] [DecidableLT α] [DecidableLE α] [Transc α]

/-- The constructor arguments of a notch approximation law: `E`, `K'`, `n'`, `K_p`. -/
structure Mat (α : Type) where
  E : α
  K : α
  n : α
  Kp : α

/-- `x != 0` of numpy for numbers (not NaN) -/
def nz (x : α) : Prop := x < 0.0 ∨ 0.0 < x

instance (x : α) : Decidable (nz x) := by unfold nz; infer_instance

/-- `RambergOsgood.strain`: `σ/E + sign σ · (|σ|/K')^(1/n')`. -/
def roStrain (m : Mat α) (s : α) : α :=
  s / m.E + Transc.sign s * Transc.pow (Transc.abs s / m.K) (1.0 / m.n)

/-- `RambergOsgood.delta_strain` (Masing): `2 · strain(Δσ / 2)`. -/
def roDeltaStrain (m : Mat α) (ds : α) : α := 2.0 * roStrain m (ds / 2.0)

/-- `_e_star`: `strain(L / K_p)`. -/
def eStar (m : Mat α) (L : α) : α := roStrain m (L / m.Kp)

/-- `load / stress` with the fall-back `1` where `stress == 0`. -/
def ratio (a b : α) : α := if nz b then a / b else 1.0

/-- `_neuber_strain`: `L/σ · K_p · e*(L)`. -/
def neuberStrain (m : Mat α) (s L : α) : α := ratio L s * m.Kp * eStar m L

/-- `ExtendedNeuber._stress_implicit(σ, L)` = `_load_implicit(L, σ)` (eq. 2.5-45). -/
def stressImplicit (m : Mat α) (s L : α) : α := roStrain m s - neuberStrain m s L

/-- `_delta_e_star`. -/
def deltaEStar (m : Mat α) (dL : α) : α := roDeltaStrain m (dL / m.Kp)

/-- `_neuber_strain_secondary`. -/
def neuberStrainSec (m : Mat α) (ds dL : α) : α := ratio dL ds * m.Kp * deltaEStar m dL

/-- `ExtendedNeuber._stress_secondary_implicit(Δσ, ΔL)` = `_load_secondary_implicit(ΔL, Δσ)` (eq. 2.5-46). -/
def stressSecImplicit (m : Mat α) (ds dL : α) : α := roDeltaStrain m ds - neuberStrainSec m ds dL

/-- `ExtendedNeuber.strain(σ, L)` = `SeegerBeste.strain(σ, L)`: the Ramberg-Osgood strain of the stress (the load
argument is not used by the code). -/
def lawStrain (m : Mat α) (s _L : α) : α := roStrain m s

/-- `strain_secondary_branch(Δσ, ΔL)` of both laws: the Masing-doubled Ramberg-Osgood strain of the stress range. -/
def lawStrainSec (m : Mat α) (ds _dL : α) : α := roDeltaStrain m ds

variable [HasPi α] [HasSinLog1p α]

/-- `SeegerBeste._u_term` (= `_u_term_secondary`): `π/2 · ((L/σ − 1) / (K_p − 1))`. -/
def uTerm (m : Mat α) (s L : α) : α := (HasPi.pi / 2.0) * ((ratio L s - 1.0) / (m.Kp - 1.0))

/-- `SeegerBeste._middle_term` (= `_middle_term_secondary`):
`2/u² · ln(1/cos u) + (σ/L)² − σ/L` with the three `np.divide(…, where=…)` fall-backs.

The logarithm is written in the form of the REPAIRED code (/repo commit de286fc):
`ln(1/cos u) = ln(1 + 2 sin²(u/2) / cos u) = log1p(2 sin²(u/2) / cos u)` where `cos u > 0`, fall-back `log1p(0) = 0`
elsewhere - the same fall-back value as `ln(1)` of the original form `np.log(np.divide(1, cos u, out=ones, where=cos u > 0))`.
Over ℝ both forms are the same function (`Proofs/Lemmas/Notch.lean: middleTerm_eq` restates it with `Real.log (1 / cos u)`);
at `Float` the original form loses all digits for `u → 0` (`cos u → 1`), i.e. for stresses next to the load. -/
def middleTerm (m : Mat α) (s L : α) : α :=
  let factor := ratio s L
  let u := uTerm m s L
  let f1 := if nz u then 2.0 / (u * u) else 1.0
  let h := HasSinLog1p.sin (u / 2.0)
  let f2 := if 0.0 < Transc.cos u then 2.0 * (h * h) / Transc.cos u else 0.0
  f1 * HasSinLog1p.log1p f2 + factor * factor - factor

/-- `SeegerBeste._stress_implicit(σ, L)` = `_load_implicit(L, σ)` (eq. 2.8-42, quotient form). -/
def sbStressImplicit (m : Mat α) (s L : α) : α :=
  roStrain m s / (middleTerm m s L * neuberStrain m s L) - 1.0

/-- `SeegerBeste._stress_secondary_implicit(Δσ, ΔL)` (eq. 2.8-43, quotient form). -/
def sbStressSecImplicit (m : Mat α) (ds dL : α) : α :=
  roDeltaStrain m ds / (middleTerm m ds dL * neuberStrainSec m ds dL) - 1.0

/-- Bisection for a sign change of `f` on `[lo, hi]` (`f lo ≤ 0 ≤ f hi` expected), `fuel` halvings.
Driver only (reference root at `Float`). -/
def bisect (f : α → α) : Nat → α → α → α
  | 0, lo, hi => (lo + hi) / 2.0
  | fuel + 1, lo, hi =>
    let mid := (lo + hi) / 2.0
    if f mid < 0.0 then bisect f fuel mid hi else bisect f fuel lo mid

end laws

/-! ## C07: the binned law -/
section binned

variable {α : Type} [Mul α] [Div α] [Neg α] [OfNat α 0] [OfNat α 1] [NatCast α]
  [LT α] [LE α] [DecidableLT α] [DecidableLE α]

/-- Upper edge of class `i` (1-based), the code's expression
`index / number_of_bins * maximum_absolute_load` (left to right). -/
def edge (n : Nat) (maxL : α) (i : Nat) : α := ((i : α) / (n : α)) * maxL

/-- `np.abs` -/
def absM (x : α) : α := if x < 0 then -x else x

/-- `np.sign` (for numbers) -/
def signM (x : α) : α := if 0 < x then 1 else if x < 0 then -1 else 0

/-- The look-up table of `m` classes (`m = n`: primary branch, `m = 2n`: secondary branch) for a wrapped law
`law`: rows `(upper edge, law(upper edge))`, classes `1 … m`. -/
def table {β : Type} (n : Nat) (maxL : α) (m : Nat) (law : α → β) : List (α × β) :=
  (List.range m).map fun k => (edge n maxL (k + 1), law (edge n maxL (k + 1)))

/-- Class selection `searchsorted(|x|)` (side = left) followed by "the next higher class": the first row whose
load is `≥ a`; `none` when there is none (the code raises `ValueError`). -/
def lookupAbs {β : Type} : List (α × β) → α → Option β
  | [], _ => none
  | (e, v) :: rest, a => if a ≤ e then some v else lookupAbs rest a

/-- Position form of the same search (`np.searchsorted`, 0-based; `= length` when out of range). -/
def searchsorted : List α → α → Nat
  | [], _ => 0
  | e :: rest, a => if a ≤ e then 0 else searchsorted rest a + 1

/-- `Binned.stress / strain / stress_secondary_branch / strain_secondary_branch` for one value on a single table:
`sign(x) · value of the selected class`. -/
def lookup (tbl : List (α × α)) (x : α) : Option α :=
  (lookupAbs tbl (absM x)).map fun v => signM x * v

/-- The binned law built from `law`: table construction + look-up. -/
def binned (n : Nat) (maxL : α) (m : Nat) (law : α → α) (x : α) : Option α :=
  lookup (table n maxL m law) x

/-- Per-point table (MultiIndex `class_index × node_id`): row of class `i` = (loads of all points, values of all points),
point `j` has its own maximum `maxLs[j]`. -/
def tableMulti (n : Nat) (maxLs : List α) (m : Nat) (law : α → α) : List (List α × List α) :=
  (List.range m).map fun k =>
    (maxLs.map fun M => edge n M (k + 1), maxLs.map fun M => law (edge n M (k + 1)))

/-- `Series.fillna(0)` of the Series look-up on a single table: NaN (the only value with `¬ x ≤ x`) becomes `0`
(so does its sign); the identity on every number. -/
def fillna0 (x : α) : α := if x ≤ x then x else 0

/-- One entry of a Series look-up on a single table (`load.fillna(0)`, then as the scalar look-up). -/
def lookupSeries (tbl : List (α × α)) (x : α) : Option α := lookup tbl (fillna0 x)

/-- Column `j` of a per-point table: the rows `(load, value)` of point `j`, i.e. the table the point reads. -/
def column (tbl : List (List α × List α)) (j : Nat) : List (α × α) :=
  tbl.map fun r => (r.1.getD j 0, r.2.getD j 0)

/-- Per-point look-ups for the points `j, j+1, …` with the loads `xs` (paired by position): every point is looked up
in its own column; one point outside its range makes the whole look-up fail. -/
def lookupFrom (tbl : List (List α × List α)) : Nat → List α → Option (List α)
  | _, [] => some []
  | j, x :: xs =>
    match lookup (column tbl j) x, lookupFrom tbl (j + 1) xs with
    | some v, some vs => some (v :: vs)
    | _, _ => none

/-- Look-up on a per-point table of `p` points, REPAIRED behaviour (/repo commit 3047e0d):
the loads are paired with the points by position (the index labels of the Series are not used); every point
selects the class in its own load column and is checked against its own range; `none` (`ValueError`) when a point
is out of its range or when the Series does not hold exactly one load per point. -/
def lookupMulti (p : Nat) (tbl : List (List α × List α)) (xs : List α) : Option (List α) :=
  if xs.length = p then lookupFrom tbl 0 xs else none

/-- Look-up on a per-point table as coded BEFORE the repair (kept for the refutation theorem and for recognising
the recorded defect): the class is selected with the FIRST point's load column and the first entry of the load
Series; every point gets `sign(x_j) · value_j` of that class; only the first point is checked against its range.
An empty Series is not modelled (the code raises `IndexError`). -/
def lookupMultiFirst (tbl : List (List α × List α)) (xs : List α) : Option (List α) :=
  match xs with
  | [] => none
  | x0 :: _ =>
    (lookupAbs (tbl.map fun r => (r.1.headD 0, r.2)) (absM x0)).map fun vals =>
      List.zipWith (fun x v => signM x * v) xs vals

end binned

end PylifeVerif.Notch
