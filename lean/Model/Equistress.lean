/-
Model of `pylife/stress/equistress.py` (C17), one tensor (one row) at a time.

* `Voigt α` = the six components `S11 S22 S33 S12 S13 S23` the functions receive.
* `Principal α` = what `eigenval` (= `numpy.linalg.eigvalsh` of the assembled symmetric matrix) returns
  for that row: the three eigenvalues, ascending.  `eigvalsh` itself is NOT modelled – the eigenvalue
  based functions take its result as an input; its contract (roots of the characteristic polynomial,
  ascending) is `IsEigTriple` in `Proofs/Lemmas/Equistress.lean`.
* Every function is written as the code computes it (same operations in the same order), generic in
  the carrier: the driver runs it at `Float`, the proofs at `ℝ`.
* `mises` is the REPAIRED formula of /repo commit a83078d (finding F-13, class mises-cancellation);
  `misesExpanded` is the formula of the unrepaired code, kept because the theorems state that both
  agree over ℝ and that the expanded radicand is non-negative over ℝ (which floating point violates).
* The accessor `df.equistress.f()` is `column f rows` (row-wise map, index kept).

No Mathlib import.
-/
import Model.Num
namespace PylifeVerif.Equistress

structure Voigt (α : Type) where
  s11 : α
  s22 : α
  s33 : α
  s12 : α
  s13 : α
  s23 : α

/-- result of `eigenval` for one row: `w[0] ≤ w[1] ≤ w[2]` by the contract of `eigvalsh` -/
structure Principal (α : Type) where
  w0 : α
  w1 : α
  w2 : α

variable {α : Type} [Add α] [Sub α] [Mul α] [Div α] [Neg α] [OfScientific α]
  [LT α] [LE α] [DecidableLT α] [DecidableLE α] [Transc α]

/-- `x ** 2` (numpy evaluates the scalar power 2 as `x * x`) -/
def sq (x : α) : α := x * x

/-- radicand of `mises` in the unrepaired code:
`s11**2 + s22**2 + s33**2 - s11*s22 - s11*s33 - s22*s33 + 3*(s12**2 + s13**2 + s23**2)` -/
def misesRadicandExpanded (v : Voigt α) : α :=
  sq v.s11 + sq v.s22 + sq v.s33 - v.s11 * v.s22 - v.s11 * v.s33 - v.s22 * v.s33
    + 3.0 * (sq v.s12 + sq v.s13 + sq v.s23)

def misesExpanded (v : Voigt α) : α := Transc.sqrt (misesRadicandExpanded v)

/-- radicand of `mises` (repaired):
`0.5*((s11-s22)**2 + (s22-s33)**2 + (s33-s11)**2) + 3*(s12**2 + s13**2 + s23**2)` -/
def misesRadicand (v : Voigt α) : α :=
  0.5 * (sq (v.s11 - v.s22) + sq (v.s22 - v.s33) + sq (v.s33 - v.s11))
    + 3.0 * (sq v.s12 + sq v.s13 + sq v.s23)

def mises (v : Voigt α) : α := Transc.sqrt (misesRadicand v)

/-- `np.maximum` / `np.minimum` on two non-NaN numbers -/
def max2 (a b : α) : α := if a < b then b else a
def min2 (a b : α) : α := if b < a then b else a

/-- `np.amax(w, axis=0)` / `np.amin(w, axis=0)` over the three eigenvalues (the code does not rely on the order) -/
def amax3 (a b c : α) : α := max2 (max2 a b) c
def amin3 (a b c : α) : α := min2 (min2 a b) c

def maxPrincipal (w : Principal α) : α := amax3 w.w0 w.w1 w.w2
def minPrincipal (w : Principal α) : α := amin3 w.w0 w.w1 w.w2

/-- `tresca`: `amax([fabs(w0-w1), fabs(w0-w2), fabs(w1-w2)])` -/
def tresca (w : Principal α) : α :=
  amax3 (Transc.abs (w.w0 - w.w1)) (Transc.abs (w.w0 - w.w2)) (Transc.abs (w.w1 - w.w2))

/-- `x == 0` written with the comparisons of the bundle (false for NaN, as in numpy) -/
def isZero (x : α) : Bool := decide (x ≤ 0.0) && decide (0.0 ≤ x)

/-- `_sign_trace`: `sgn = np.sign(s11 + s22 + s33)`; `sgn == 0` is replaced by `1` -/
def signTrace (v : Voigt α) : α :=
  let sgn := Transc.sign (v.s11 + v.s22 + v.s33)
  if isZero sgn then 1.0 else sgn

/-- `_sign_abs_max_principal`: `sgn = np.sign(w_max + w_min)`; `sgn + int(sgn == 0)` -/
def signAbsMax (w : Principal α) : α :=
  let sgn := Transc.sign (maxPrincipal w + minPrincipal w)
  sgn + (if isZero sgn then 1.0 else 0.0)

/-- `abs_max_principal`: `w_max * (sign >= 0) + w_min * ~(sign >= 0)` (booleans multiply as 1.0 / 0.0) -/
def absMaxPrincipal (w : Principal α) : α :=
  let pos : Bool := decide (0.0 ≤ signAbsMax w)
  maxPrincipal w * (if pos then 1.0 else 0.0) + minPrincipal w * (if pos then 0.0 else 1.0)

def signedTrescaTrace (v : Voigt α) (w : Principal α) : α := signTrace v * tresca w
def signedTrescaAbsMax (w : Principal α) : α := signAbsMax w * tresca w
def signedMisesTrace (v : Voigt α) : α := signTrace v * mises v
def signedMisesAbsMax (v : Voigt α) (w : Principal α) : α := signAbsMax w * mises v

/-- the accessor methods: the plain function applied to every row, in row order -/
def column {β γ : Type} (f : β → γ) (rows : List β) : List γ := rows.map f

end PylifeVerif.Equistress
