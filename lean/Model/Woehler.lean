/-
Model of `pylife/materiallaws/woehlercurve.py` (accessor `WoehlerCurve`) and of
`pylife/utils/functions.py: scattering_range_to_std / std_to_scattering_range`.

Generic in the carrier (see `Model/Num.lean`): the driver runs it at `Float`, the proofs at `ℝ`.
`scipy.stats.norm.ppf` is a parameter `ppf : α → α` (abstract in the theorems, a `Float` series
implementation in the driver).  `k_2 = np.inf` ("perfect endurance") is `Life.inf`.

No Mathlib import.
-/
import Model.Num
namespace PylifeVerif.Woehler

/-- A cycle number or a slope that may be infinite (`np.inf`). -/
inductive Life (α : Type) where
  | finite : α → Life α
  | inf : Life α
  deriving Repr

/-- The validated signal (`_validate` has filled in `k_2`, `TN`, `TS`, `failure_probability`). -/
structure Curve (α : Type) where
  k1 : α
  k2 : Life α
  SD : α
  ND : α
  TN : α
  TS : α
  pf : α

variable {α : Type} [Add α] [Sub α] [Mul α] [Div α] [Neg α] [OfScientific α]
  [LT α] [LE α] [DecidableLT α] [DecidableLE α] [Transc α]

/-- the literal of `scattering_range_to_std` ("actually 1/(2*norm.ppf(0.9))") -/
def cRange : α := 0.39015207303618954
/-- the literal of `std_to_scattering_range` ("actually 2*norm.ppf(0.9)") -/
def cStd : α := 2.5631031310892007

/-- `c * np.log10(T)` with the constant as a parameter (the theorems quantify over it). -/
def scatteringRangeToStdWith (c T : α) : α := c * Transc.log10 T
/-- `10**(c2 * std)` with the constant as a parameter. -/
def stdToScatteringRangeWith (c2 s : α) : α := Transc.pow 10.0 (c2 * s)

/-- `functions.scattering_range_to_std`: `0.39015207303618954*np.log10(T)` -/
def scatteringRangeToStd (T : α) : α := scatteringRangeToStdWith cRange T
/-- `functions.std_to_scattering_range`: `10**(2.5631031310892007*std)` -/
def stdToScatteringRange (s : α) : α := stdToScatteringRangeWith cStd s

/-- `_validate`: defaults of `TN`/`TS` (both missing: 1, 1; one missing: computed from the other
with `k_1`).  Returns `(TN, TS)`. -/
def validateScatter (k1 : α) : Option α → Option α → α × α
  | none, none => (1.0, 1.0)
  | some tn, none => (tn, Transc.pow tn (1.0 / k1))
  | none, some ts => (Transc.pow ts k1, ts)
  | some tn, some ts => (tn, ts)

/-- `_make_k(src, ref, wc)`: `k_1`, replaced by `k_2` where `src < ref`. -/
def makeK (w : Curve α) (src ref : α) : Life α :=
  if src < ref then w.k2 else Life.finite w.k1

/-- `basquin_cycles` on an already transformed curve: `ND * (load/SD)^(-k)` where `k` is finite,
`inf` elsewhere (`cycles = np.full_like(ld, np.inf)`, `in_limit = np.isfinite(k)`). -/
def cyclesAt (w : Curve α) (L : α) : Life α :=
  match makeK w L w.SD with
  | Life.inf => Life.inf
  | Life.finite k =>
    if Transc.isFinite k then Life.finite (w.ND * Transc.pow (L / w.SD) (-k)) else Life.inf

/-- `basquin_load` on an already transformed curve: `_make_k(-cyc, -ND)`, i.e. `k_2` where
`cycles > ND`; `SD * (cycles/ND)^(-1/k)` where `k` is finite, `SD` elsewhere. -/
def loadAt (w : Curve α) (N : α) : α :=
  match makeK w (-N) (-w.ND) with
  | Life.inf => w.SD
  | Life.finite k =>
    if Transc.isFinite k then w.SD * Transc.pow (N / w.ND) ((-(1.0 : α)) / k) else w.SD

/-- `transform_to_failure_probability(p)`:
`SD' = SD / 10**((z0-z)*std(TS))`, `ND' = ND / 10**((z0-z)*std(TN))`, and where `SD' != 0`
`ND' *= (SD'/SD)**(-k_1)`; `failure_probability = p`; everything else copied. -/
def transform (ppf : α → α) (w : Curve α) (p : α) : Curve α :=
  let z0 := ppf w.pf
  let z := ppf p
  let sd := w.SD / Transc.pow 10.0 ((z0 - z) * scatteringRangeToStd w.TS)
  let nd0 := w.ND / Transc.pow 10.0 ((z0 - z) * scatteringRangeToStd w.TN)
  let nd := if sd < 0.0 ∨ 0.0 < sd then nd0 * Transc.pow (sd / w.SD) (-w.k1) else nd0
  { w with SD := sd, ND := nd, pf := p }

/-- `cycles(load, failure_probability)` = `basquin_cycles`. -/
def cycles (ppf : α → α) (w : Curve α) (p L : α) : Life α := cyclesAt (transform ppf w p) L

/-- `load(cycles, failure_probability)` = `basquin_load`. -/
def load (ppf : α → α) (w : Curve α) (p N : α) : α := loadAt (transform ppf w p) N

/-- `miner_original`: `k_2 = inf` on a copy. -/
def minerOriginal (w : Curve α) : Curve α := { w with k2 := Life.inf }
/-- `miner_elementary`: `k_2 = k_1` on a copy. -/
def minerElementary (w : Curve α) : Curve α := { w with k2 := Life.finite w.k1 }
/-- `miner_haibach`: `k_2 = 2*k_1 - 1` on a copy. -/
def minerHaibach (w : Curve α) : Curve α := { w with k2 := Life.finite (2.0 * w.k1 - 1.0) }

/-- Broadcast of one curve over indexed loads (Series / array): element-wise. -/
def cyclesSeries (ppf : α → α) (w : Curve α) (p : α) (Ls : List α) : List (Life α) :=
  Ls.map (cycles ppf w p)
def loadSeries (ppf : α → α) (w : Curve α) (p : α) (Ns : List α) : List α :=
  Ns.map (load ppf w p)
/-- Broadcast of a frame of curves against indexed loads with a *different* index name: the
cross product, curve-major (as `Broadcaster` builds it). -/
def cyclesCross (ppf : α → α) (ws : List (Curve α)) (p : α) (Ls : List α) : List (Life α) :=
  ws.flatMap fun w => cyclesSeries ppf w p Ls
/-- Broadcast of a frame of curves against loads on the *same* index (or a plain array of the
same length): row by row. -/
def cyclesZip (ppf : α → α) (ws : List (Curve α)) (p : α) (Ls : List α) : List (Life α) :=
  List.zipWith (fun w L => cycles ppf w p L) ws Ls

end PylifeVerif.Woehler
