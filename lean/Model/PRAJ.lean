/-
Model of the P_RAJ pipeline of the FKM-nonlinear assessment (extends the C09 / C10 slices):

  * `strength/damage_parameter.py`  class `P_RAJ`: crack opening stress `S_open` (`_compute_S_open`),
        fictitious single-step opening strain `epsilon_open_ein`, the crack opening / closure loop over the
        recorded hystereses (`_compute_crack_opening_loop`: cases 1, 2, 3, 4a, 4b, the running
        `epsilon_open_alt`, `epsilon_min_alt_SP`, `epsilon_max_alt_SP`, use of `epsilon_min_LF / epsilon_max_LF`),
        the crack closure stress `S_close` (scipy.optimize.newton, Newton-Raphson with the analytic derivative),
        `P_RAJ` of a hysteresis (`_calculate_P_RAJ`), damage with the CURRENT endurance value `P_RAJ_D`,
        lowering of `P_RAJ_D` with the accumulated damage (`_calculate_fatigue_limit_variables`),
        `l_star`, `P_RAJ_D_e`, and the per-point `P_RAJ_klass_max` (`_calculate_P_RAJ_klass_max`)
  * `strength/fkm_nonlinear/damage_calculator.py`  class `DamageCalculatorPRAJ`: the `n_bins` logarithmic classes
        (`np.logspace`), class middles, class index (`n_bins - searchsorted(flip(edges), P)`), class counts of the
        second run, `H_0`, cumulative damage / `searchsorted`, the crack-length summation `_compute_xbar_minus_2`
        (the loop as written, with `previous_j = j + 1`), `N_bar`, lifetime, infinite-life verdict, `N_max_bearable`
  * `strength/fkm_nonlinear/parameter_calculations.py`  `calculate_material_woehler_parameters_P_RAJ`,
        `calculate_failure_probability_factor_P_RAJ`, `calculate_component_woehler_parameters_P_RAJ`
  * `materiallaws/rambgood.py`  `strain`, `delta_strain`, `tangential_compliance`

Everything numeric is written once, generic in the carrier (`Model/Num.lean`): the driver runs it at `Float`,
the proofs at `ℝ`.  The closure-stress solver is a PARAMETER of the model (`Solver`); the code's instance is
`newtonClose` (the scipy iteration: start `S_min`, `tol = 1.48e-8`, at most 50 steps, failure = `RuntimeError`).
One assessment point at a time: every quantity of `P_RAJ` / `DamageCalculatorPRAJ` is kept per point by the
(repaired) code; the only batch-wide quantity left is the start index `min(q)` of the x-bar loop, which is the
parameter `jmin` here.

Restriction of the class-index model: `np.searchsorted` is modelled by counting the edges below the value, which
is what the binary search returns on a sorted array, i.e. for `P_RAJ_D_e < P_RAJ_klass_max` (descending edges).
No Mathlib import.
-/
import Model.FkmNonlinear
import Model.Assessment

namespace PylifeVerif.PRAJ
open PylifeVerif.FkmNl PylifeVerif.HCM

variable {α : Type} [Add α] [Sub α] [Mul α] [Div α] [Neg α] [OfScientific α]
  [LT α] [LE α] [DecidableLT α] [DecidableLE α] [Transc α]

/-- a count as an element of the carrier (exact in doubles) -/
def natTo : Nat → α
  | 0 => 0.0
  | k+1 => natTo k + 1.0

def maxOf (a b : α) : α := if a < b then b else a
def minOf (a b : α) : α := if b < a then b else a

/-! ### arithmetic on `Life` (a double that may be `np.inf`) -/

def Life.add : Life α → Life α → Life α
  | .finite a, .finite b => .finite (a + b)
  | _, _ => .inf

def Life.map (f : α → α) : Life α → Life α
  | .finite a => .finite (f a)
  | .inf => .inf

/-! ### Ramberg-Osgood relation (`materiallaws/rambgood.py`) -/

/-- what `P_RAJ` reads from `assessment_parameters`: `E`, `K_prime`, `n_prime`, `R_m`, and `M_sigma`
(`a_M · 1e-3 · R_m + b_M`, `FkmNl.mSigma`) -/
structure Mat (α : Type) where
  E : α
  K : α
  n : α
  Rm : α
  M : α

/-- `RambergOsgood.strain`: `σ/E + sign σ · (|σ|/K')^(1/n')` -/
def roStrain (m : Mat α) (s : α) : α :=
  s / m.E + Transc.sign s * Transc.pow (Transc.abs s / m.K) (1.0 / m.n)

/-- `RambergOsgood.delta_strain`: `2 · strain(Δσ/2)` (Masing) -/
def deltaStrain (m : Mat α) (ds : α) : α := 2.0 * roStrain m (ds / 2.0)

/-- `RambergOsgood.tangential_compliance` -/
def tangCompl (m : Mat α) (s : α) : α :=
  1.0 / m.E + 1.0 / (m.n * m.K) * Transc.pow (Transc.abs s / m.K) (1.0 / m.n - 1.0)

/-! ### crack closure stress -/

/-- a solver for `delta_strain(S_max − S_close) = ε_max − ε_open`: arguments `S_min S_max ε_max ε_open`;
`none` = the code raises -/
abbrev Solver (α : Type) := α → α → α → α → Option α

/-- `scipy.optimize.newton(f, x0, fprime=…)`, scalar Newton-Raphson: stop when `f = 0` or when the step is
`≤ tol = 1.48e-8` (`np.isclose(p, p0, rtol=0, atol=tol)`); a vanishing derivative or `maxiter` steps without
convergence raise `RuntimeError` (`none`). -/
def newtonFrom (m : Mat α) (sMax target : α) : Nat → α → Option α
  | 0, _ => none
  | fuel+1, p0 =>
    let fval := deltaStrain m (sMax - p0) - target
    if fval ≤ 0.0 ∧ 0.0 ≤ fval then some p0
    else
      let fder := -(tangCompl m ((sMax - p0) / 2.0))
      if fder ≤ 0.0 ∧ 0.0 ≤ fder then none
      else
        let p := p0 - fval / fder
        if Transc.abs (p - p0) ≤ 1.48e-8 then some p else newtonFrom m sMax target fuel p

/-- the code's solver: `x0 = S_min`, `maxiter = 50` -/
def newtonClose (m : Mat α) : Solver α :=
  fun sMin sMax eMax eOpen => newtonFrom m sMax (eMax - eOpen) 50 sMin

/-! ### one recorded hysteresis of one assessment point -/

/-- the recorder columns `P_RAJ` reads -/
structure HRow (α : Type) where
  sMin : α
  sMax : α
  eMin : α
  eMax : α
  eMinLF : α
  eMaxLF : α
  closed : Bool
  zeroMean : Bool
  run : Nat

/-- recorder column `S_a` -/
def HRow.Sa (r : HRow α) : α := 0.5 * (r.sMax - r.sMin)
/-- recorder column `S_m` (zero for a Memory-3 hysteresis) -/
def HRow.Sm (r : HRow α) : α := if r.zeroMean then 0.0 else 0.5 * (r.sMin + r.sMax)
/-- recorder column `R` (−1 for a Memory-3 hysteresis) -/
def HRow.R (r : HRow α) : α := if r.zeroMean then -(1.0) else r.sMin / r.sMax

/-- `np.pi` -/
def piLit : α := 3.141592653589793

/-- yield stress `S_F = 0.5 (R_p0.2 + R_m)`, `R_p0.2 = 0.002^n' · K'`, eq. (2.8-64) -/
def sF (m : Mat α) : α := 0.5 * (Transc.pow 0.002 m.n * m.K + m.Rm)

/-- `_compute_S_open`: crack opening stress, eqs. (2.8-63 … 65) -/
def sOpen (m : Mat α) (r : HRow α) : α :=
  let R := r.R
  let Am := if r.Sm < 0.0 then 0.4 - m.M / 4.0
            else 0.47 * (1.0 - 1.5 * m.M) * Transc.pow (1.0 + R) (1.0 + R + m.M)
  let A0 := 0.535 * Transc.cos (piLit / 2.0 * r.sMax / sF m) + Am
  let A1 := 0.344 * r.sMax / sF m + Am
  let A3 := 2.0 * A0 + A1 - 1.0
  let A2 := 1.0 - A0 - A1 - A3
  let factor :=
    if 0.0 ≤ R ∧ R < 1.0 then A0 + A1 * R + A2 * (R * R) + A3 * Transc.pow R 3.0
    else if R < 0.0 then A0 + A1 * R
    else 1.0
  r.sMax * factor

/-- `epsilon_open_ein`, eq. (2.9-99) -/
def eOpenEin (m : Mat α) (r : HRow α) : α := r.eMin + deltaStrain m (sOpen m r - r.sMin)

/-- `_calculate_P_RAJ`, eq. (2.9-110) -/
def prajValue (m : Mat α) (dS dE : α) : α :=
  1.24 * (dS * dS) / m.E + 1.02 / Transc.sqrt m.n * dS * (dE - dS / m.E)

/-! ### short-crack constants and the lowering of the endurance value -/

structure Crack (α : Type) where
  m : α
  C : α
  aEnd : α
  a0 : α
  dJ : α
  lStar : α
  PDe : α

/-- `m`, `C`, `a_end`, `a_0`, `ΔJ_eff,th` of `_calculate_fatigue_limit_variables`, `l*` (2.9-124), `P_RAJ_D_e` (2.9-123) -/
def crackOf (E : α) (c : PrajCurve α) : Crack α :=
  let m := (-(1.0)) / c.d
  let C := 1.0e-5 * Transc.pow 5.0e5 m * Transc.pow E (-m)
  let aEnd := 0.5
  let a0 := Transc.pow (Transc.pow aEnd (1.0 - m) - (1.0 - m) * C * Transc.pow c.PZ m) (1.0 / (1.0 - m))
  let dJ := E / 5.0e6
  let lStar := dJ / c.PD0 - a0
  { m := m, C := C, aEnd := aEnd, a0 := a0, dJ := dJ, lStar := lStar,
    PDe := c.PD0 * (a0 + lStar) / (aEnd + lStar) }

/-- `P_RAJ_D` for the accumulated damage `D_akt`, eq. (2.9-116) -/
def fatigueLimit (k : Crack α) (c : PrajCurve α) (Dakt : α) : α :=
  let e := 1.0 - k.m
  k.dJ * 1.0 /
    (Transc.pow ((Transc.pow k.aEnd e - Transc.pow k.a0 e) * Dakt + Transc.pow k.a0 e) (1.0 / e)
      + k.dJ / c.PD0 - k.a0)

/-! ### the crack opening loop -/

/-- the variables carried from hysteresis to hysteresis (per assessment point) -/
structure LoopSt (α : Type) where
  eOpenAlt : α
  eMinAlt : α
  eMaxAlt : α
  eOpen : α
  Dakt : α
  PD : α

/-- what the loop writes into the collective for one hysteresis -/
structure ORow (α : Type) where
  /-- `case_name`: 1, 2, 3, 4 (0: no case, only with NaN data) -/
  case : Nat
  /-- 4a (`S_a ≥ 0.4 S_F`) rather than 4b -/
  sub4a : Bool
  sOpen : α
  eOpenEin : α
  eOpen : α
  sClose : α
  dS : α
  dE : α
  P : α
  N : Life α
  D : α
  PD : α
  eOpenAlt : α
  closed : Bool
  run : Nat

def initSt (c : PrajCurve α) : LoopSt α :=
  { eOpenAlt := 0.0, eMinAlt := 0.0, eMaxAlt := 0.0, eOpen := 0.0, Dakt := 0.0, PD := c.PD0 }

/-- case selection of one loop iteration: `(case, 4a?)` -/
def caseOf (m : Mat α) (st : LoopSt α) (r : HRow α) : Nat × Bool :=
  let ein := eOpenEin m r
  if r.eMax < st.eOpenAlt then (1, false)
  else if st.eMaxAlt < r.eMaxLF ∨ r.eMinLF < st.eMinAlt then (2, false)
  else if st.eOpenAlt ≤ ein then (3, false)
  else if ein < st.eOpenAlt then (4, decide (0.4 * sF m ≤ r.Sa))
  else (0, false)

/-- the crack opening strain `epsilon_open` of the hysteresis -/
def eOpenOf (m : Mat α) (st : LoopSt α) (r : HRow α) : α :=
  match caseOf m st r with
  | (1, _) => st.eOpenAlt
  | (2, _) => eOpenEin m r
  | (3, _) => st.eOpenAlt
  | (4, a) => if a then eOpenEin m r else if r.Sa < 0.4 * sF m then st.eOpenAlt else st.eOpen
  | _ => st.eOpen

/-- effective ranges and `P_RAJ` of a hysteresis for a given case flag "crack stays closed" and opening strain:
`(S_close, ΔS_eff, Δε_eff, P_RAJ)` -/
def hystP (m : Mat α) (closedCrack : Bool) (eOpen x : α) (r : HRow α) : α × α × α × α :=
  let sClose := if eOpen < r.eMin then r.sMin else x
  let dS := r.sMax - sClose
  let dE := if eOpen < r.eMin then r.eMax - r.eMin else r.eMax - eOpen
  (sClose, dS, dE, if closedCrack then 0.0 else prajValue m dS dE)

/-- one iteration of the loop over the hystereses; `none` = the closure-stress solver raises -/
def stepRow (m : Mat α) (c : PrajCurve α) (k : Crack α) (sc : Solver α) (st : LoopSt α) (r : HRow α) :
    Option (LoopSt α × ORow α) :=
  let cs := caseOf m st r
  let ein := eOpenEin m r
  let eOpen := eOpenOf m st r
  let eMinAlt := if cs.1 = 2 then r.eMinLF else if cs.1 = 0 then st.eMinAlt else minOf st.eMinAlt r.eMin
  let eMaxAlt := if cs.1 = 2 then r.eMaxLF else if cs.1 = 0 then st.eMaxAlt else maxOf st.eMaxAlt r.eMax
  match sc r.sMin r.sMax r.eMax eOpen with
  | none => none
  | some x =>
    let (sClose, dS, dE, P) := hystP m (cs.1 == 1) eOpen x r
    let N := prajCalcN { c with PD := st.PD } P
    let D := match N with
      | .inf => 0.0
      | .finite n => if r.closed then 1.0 / n else 0.5 / n
    let Dakt := st.Dakt + D
    let eOpenAlt :=
      if cs.1 = 3 then
        match N with
        | .inf => st.eOpenAlt
        | .finite n => if r.eMin ≤ eOpen then ein - (ein - st.eOpenAlt) * Transc.exp ((-(15.0)) / n) else st.eOpenAlt
      else if cs.1 = 0 then st.eOpenAlt
      else eOpen
    let PD := fatigueLimit k c Dakt
    some ({ eOpenAlt := eOpenAlt, eMinAlt := eMinAlt, eMaxAlt := eMaxAlt, eOpen := eOpen, Dakt := Dakt, PD := PD },
          { case := cs.1, sub4a := cs.2, sOpen := sOpen m r, eOpenEin := ein, eOpen := eOpen, sClose := sClose,
            dS := dS, dE := dE, P := P, N := N, D := D, PD := PD, eOpenAlt := eOpenAlt, closed := r.closed, run := r.run })

/-- the loop -/
def runRows (m : Mat α) (c : PrajCurve α) (k : Crack α) (sc : Solver α) : LoopSt α → List (HRow α) → Option (List (ORow α))
  | _, [] => some []
  | st, r :: rest =>
    match stepRow m c k sc st r with
    | none => none
    | some (st', o) => (runRows m c k sc st' rest).map (o :: ·)

/-- `P_RAJ(collective, assessment_parameters, curve).collective` for one point -/
def prajRows (m : Mat α) (c : PrajCurve α) (sc : Solver α) (rows : List (HRow α)) : Option (List (ORow α)) :=
  runRows m c (crackOf m.E c) sc (initSt c) rows

/-- largest `|S_max|`, `|S_min|` of the point's hystereses (both runs) -/
def maxAbsS (rows : List (HRow α)) : α :=
  rows.foldl (fun mx r => maxOf (maxOf mx (Transc.abs r.sMax)) (Transc.abs r.sMin)) 0.0

/-- `_calculate_P_RAJ_klass_max`, eq. (2.9-125), of ONE point: from the point's own largest absolute stress -/
def klassMax (m : Mat α) (rows : List (HRow α)) : α :=
  let ds := 2.0 * maxAbsS rows
  prajValue m ds (deltaStrain m ds)

/-! ### the classes of `DamageCalculatorPRAJ` -/

/-- `np.linspace(a, b, n + 1)[i]` -/
def edgeExp (n : Nat) (a b : α) (i : Nat) : α :=
  if i = n then b else natTo i * ((b - a) / natTo n) + a

/-- `_binned_P_RAJ = np.logspace(log10 P_RAJ_klass_max, log10 P_RAJ_D_e, n_bins + 1)`: descending edges -/
def edges (n : Nat) (kmax PDe : α) : List α :=
  (List.range (n + 1)).map fun i => Transc.pow 10.0 (edgeExp n (Transc.log10 kmax) (Transc.log10 PDe) i)

/-- `_binned_P_RAJ_m`: arithmetic middle of neighbouring edges, eq. (2.9-131) - the class representative -/
def mids : List α → List α
  | a :: b :: rest => (a + b) / 2.0 :: mids (b :: rest)
  | _ => []

/-- number of edges below `P` (= `np.searchsorted(np.flip(edges), P)` for descending edges) -/
def countLt (P : α) (es : List α) : Nat := (es.filter fun e => decide (e < P)).length

/-- class index `n_bins − searchsorted(flip(edges), P)`: `i` for `edge (i+1) < P ≤ edge i`, `n_bins` for
`P ≤ P_RAJ_D_e`, `−1` for `P > P_RAJ_klass_max` (numpy then addresses the LAST column, which is cut off) -/
def classIdx (n : Nat) (es : List α) (P : α) : Int := (n : Int) - (countLt P es : Int)

/-- `groupby(...).last()` of the column `P_RAJ_D`: the last value that is not NaN (`x ≤ x` fails exactly for NaN;
over ℝ this is simply the last value).  `P_RAJ_D` is NaN once the accumulated damage exceeds one by so much that the
crack-length bracket of eq. (2.9-116) is negative. -/
def lastPDOf (out : List (ORow α)) : Option α := (out.reverse.find? fun o => decide (o.PD ≤ o.PD)).map (·.PD)

/-- class `q` of the final endurance value; `−1` when there is none (numpy sorts NaN behind every edge) -/
def qOf (n : Nat) (es : List α) : Option α → Int
  | some v => classIdx n es v
  | none => -1

/-- a hysteresis with parameter `P` is counted in class `i` (`P > P_RAJ_D_e` and index `i`) -/
def inClass (n : Nat) (es : List α) (PDe : α) (i : Nat) (P : α) : Bool :=
  decide (classIdx n es P = (i : Int)) && decide (PDe < P)

/-- `_binned_h` of one point: class counts over the given `P_RAJ` values (those of the SECOND run) -/
def binnedH (n : Nat) (es : List α) (PDe : α) (Ps : List α) : List Nat :=
  (List.range n).map fun i => (Ps.filter (inClass n es PDe i)).length

/-- `_n_not_in_bin` -/
def nNotInBin (PDe : α) (Ps : List α) : Nat := (Ps.filter fun P => decide (P ≤ PDe)).length

/-- `f(j)`, eq. (2.9-139), at the class middle `Pm` -/
def fOf (k : Crack α) (c : PrajCurve α) (Pm : α) : α :=
  let e := 1.0 - k.m
  let bracket := c.PD0 / Pm * (k.a0 + k.lStar * (1.0 - Pm / c.PD0))
  (Transc.pow k.a0 e - Transc.pow bracket e) / (Transc.pow k.a0 e - Transc.pow k.aEnd e)

/-- damage of class `i` per pass, eq. (2.9-140): `h_i / N(P_m,i)` above the final endurance value, else 0 -/
def classDamage (c : PrajCurve α) (lastPD : Option α) (Pm : α) (h : Nat) : α :=
  match lastPD with
  | some v => if v < Pm then natTo h / prajN c Pm else 0.0
  | none => 0.0

/-- the per-class damages and the increments of `f` as functions of the class number -/
def dmOf (c : PrajCurve α) (lastPD : Option α) (ms : List α) (h : List Nat) : Nat → α :=
  fun i => classDamage c lastPD (ms.getD i 0.0) (h.getD i 0)

def fdOf (k : Crack α) (c : PrajCurve α) (ms : List α) : Nat → α :=
  fun j => fOf k c (ms.getD (j + 1) 0.0) - fOf k c (ms.getD j 0.0)

/-! ### the x-bar summation, eq. (2.9-138) -/

/-- `for i in range(lo, lo + cnt): den += dm(i)` -/
def addRange (dm : Nat → α) : α → Nat → Nat → α
  | den, _, 0 => den
  | den, lo, cnt+1 => addRange dm (den + dm lo) (lo + 1) cnt

/-- the summand of one `j`: `(f(j+1) − f(j)) / denominator`, `inf` for a vanishing denominator -/
def xTerm (fd : Nat → α) (den : α) (j : Nat) : Life α :=
  if 1.0e-13 < Transc.abs den then .finite (fd j / den) else .inf

structure XSt (α : Type) where
  den : α
  acc : Life α
  prev : Nat

/-- one iteration `j` of the outer loop of `_compute_xbar_minus_2` (as repaired: `previous_j = j + 1`) -/
def xStep (dm fd : Nat → α) (q : Nat) (st : XSt α) (j : Nat) : XSt α :=
  let den := addRange dm st.den st.prev (j + 1 - st.prev)
  { den := den, acc := Life.add st.acc (if q ≤ j then xTerm fd den j else .finite 0.0), prev := j + 1 }

/-- the unrepaired loop body (`previous_j = j`): class `j` is added again in the next iteration.  NOT the code. -/
def xStepOld (dm fd : Nat → α) (q : Nat) (st : XSt α) (j : Nat) : XSt α :=
  let den := addRange dm st.den st.prev (j + 1 - st.prev)
  { den := den, acc := Life.add st.acc (if q ≤ j then xTerm fd den j else .finite 0.0), prev := j }

def xInit : XSt α := { den := 0.0, acc := .finite 0.0, prev := 0 }

/-- `_xbar_minus_2` of a point with class `q`, when the loop starts at `jmin` (`min(q)` over the batch):
`for j in range(jmin, n_bins − 1)` -/
def xbarLoop (dm fd : Nat → α) (q jmin n : Nat) : Life α :=
  ((List.range' jmin (n - 1 - jmin)).foldl (xStep dm fd q) xInit).acc

def xbarLoopOld (dm fd : Nat → α) (q jmin n : Nat) : Life α :=
  ((List.range' jmin (n - 1 - jmin)).foldl (xStepOld dm fd q) xInit).acc

/-- the direct definition: `Σ_{j=q}^{n−2} (f(j+1) − f(j)) / Σ_{i=0}^{j} dm(i)`, every class once -/
def xbarSum (dm fd : Nat → α) (q n : Nat) : Life α :=
  (List.range' q (n - 1 - q)).foldl (fun acc j => Life.add acc (xTerm fd (addRange dm 0.0 0 (j + 1)) j)) (.finite 0.0)

/-! ### `DamageCalculatorPRAJ` for one point -/

structure Result (α : Type) where
  kmax : α
  PDe : α
  es : List α
  h : List Nat
  nNot : Nat
  H0 : Nat
  q : Int
  /-- `_n_cycles_until_damage` -/
  idx : Nat
  early : Bool
  xbarM2 : Life α
  nSeq : Life α
  nCycles : Life α
  infinite : Bool

/-- `DamageCalculatorPRAJ` for given class edges `es` (`n + 1` values), short-crack constants `k` and loop output `out`
(read: `P`, `D`, `PD`, `run`).  `n` = `n_bins`; `jmin` = start of the x-bar loop (`none`: the point's own class `q`,
i.e. the point assessed alone). -/
def damageCore (c : PrajCurve α) (k : Crack α) (n : Nat) (kmax : α) (es : List α) (jmin : Option Nat) (out : List (ORow α)) :
    Result α :=
  let ms := mids es
  let P2 := (out.filter (·.run == 2)).map (·.P)
  let h := binnedH n es k.PDe P2
  let nNot := nNotInBin k.PDe P2
  let H0 := h.sum + nNot
  let cum := cumsumFrom 0.0 (out.map (·.D))
  let idx := firstGe 1.0 cum
  let early := decide (idx < out.length)
  let lastPD := lastPDOf out
  let q := qOf n es lastPD
  let dm := dmOf c lastPD ms h
  let fd := fdOf k c ms
  let xb : Life α := if q < 0 then .inf else xbarLoop dm fd q.toNat (match jmin with | some j => j | none => q.toNat) n
  let nbar := Life.map (fun x => natTo H0 * (2.0 + x)) xb
  { kmax := kmax, PDe := k.PDe, es := es, h := h, nNot := nNot, H0 := H0, q := q, idx := idx, early := early,
    xbarM2 := xb,
    nSeq := if early then .finite 0.0 else Life.map (fun x => 2.0 + x) xb,
    nCycles := if early then .finite (firstGeNum 1.0 cum) else nbar,
    infinite := (out.filter (·.run == 2)).all fun o => decide (o.P ≤ c.PD0) }

/-- lifetime logic from the loop output, with the class grid of the point: edges from the point's own
`P_RAJ_klass_max` down to `P_RAJ_D_e` -/
def damageCalc (m : Mat α) (c : PrajCurve α) (n : Nat) (jmin : Option Nat) (rows : List (HRow α)) (out : List (ORow α)) :
    Result α :=
  let k := crackOf m.E c
  damageCore c k n (klassMax m rows) (edges n (klassMax m rows) k.PDe) jmin out

/-- `P_RAJ` followed by `DamageCalculatorPRAJ` for one point -/
def assessRows (m : Mat α) (c : PrajCurve α) (sc : Solver α) (n : Nat) (jmin : Option Nat) (rows : List (HRow α)) :
    Option (Result α) :=
  (prajRows m c sc rows).map (damageCalc m c n jmin rows)

/-- `N_max_bearable(P_A)` of `get_lifetime_functions` (no clipping): `lifetime · 10^((log10 f_2.5% − (0.8β − 2)·0.155)·|1/d|)` -/
def nMaxBearable (life : Life α) (f25 d beta : α) : Life α :=
  Life.map (fun l => l * Transc.pow 10.0 ((Transc.log10 f25 - (0.8 * beta - 2.0) * 0.155) * Transc.abs (1.0 / d))) life

/-! ### parameter formulas -/

/-- `gamma_M_RAJ`, eq. (2.8-38): `max(10^((0.8β − 2)·0.155), 1.2)`, 1 for `P_A = 0.5` -/
def gammaMJ (beta : α) (pa05 : Bool) : α :=
  if pa05 then 1.0 else
    let g := Transc.pow 10.0 ((0.8 * beta - 2.0) * 0.155)
    if g < 1.2 then 1.2 else g

/-- `f_RAJ = gamma_M / (n_P² K_R,P²)`, eq. (2.8-22) -/
def fRAJ (gM np krp : α) : α := gM / (np * np * (krp * krp))

def pzWSJ (k : Consts α) (Rm : α) (pa05 : Bool) : α :=
  if pa05 then k.a_PZ_RAJ * Transc.pow Rm k.b_PZ_RAJ else k.f25_RAJ * (k.a_PZ_RAJ * Transc.pow Rm k.b_PZ_RAJ)

def pdWSJ (k : Consts α) (Rm : α) (pa05 : Bool) : α :=
  if pa05 then k.a_PD_RAJ * Transc.pow Rm k.b_PD_RAJ else k.f25_RAJ * (k.a_PD_RAJ * Transc.pow Rm k.b_PD_RAJ)

/-- component curve, eqs. (2.8-23 … 25) -/
def curveOfJ (k : Consts α) (f zws dws : α) : PrajCurve α :=
  { d := k.d_RAJ, PZ := 1.0 / f * zws, PD0 := 1.0 / f * dws, PD := 1.0 / f * dws }

/-- `_calculate_local_parameters` + `_compute_component_woehler_curves` (P_RAJ part) -/
def componentCurveJ (p : Assess.Params α) : PrajCurve α :=
  let k : Consts α := consts p.g
  curveOfJ k (fRAJ (gammaMJ p.beta p.pa05) (Assess.nP k p.Aref p.Asigma p.Rm p.G) p.krp) (pzWSJ k p.Rm p.pa05) (pdWSJ k p.Rm p.pa05)

/-! ### the composition with the HCM model -/

/-- recorder columns of point `k` of one recorded hysteresis -/
def hrowOf (conv : Int → α) (k : Nat) (h : Hyst) : HRow α :=
  { sMin := conv (h.sMin.getD k 0), sMax := conv (h.sMax.getD k 0), eMin := conv (h.eMin.getD k 0), eMax := conv (h.eMax.getD k 0),
    eMinLF := conv (h.eMinLF.getD k 0), eMaxLF := conv (h.eMaxLF.getD k 0),
    closed := h.closed, zeroMean := h.zeroMean, run := h.run }

/-- the P_RAJ assessment of point `k` of a recorded collective -/
def assessRecs (conv : Int → α) (m : Mat α) (c : PrajCurve α) (sc : Solver α) (n : Nat) (jmin : Option Nat) (k : Nat)
    (recs : List Hyst) : Option (Result α) :=
  assessRows m c sc n jmin (recs.map (hrowOf conv k))

/-- Point `k` in a call for all points `cs` (per-point load maxima, per-point look-up tables of the binned
Seeger-Beste law with `nb` classes, class selection and every HCM decision on the first point); the x-bar loop
starts at the batch-wide `jmin`. -/
def assessBatch (conv : Int → α) (nb : Nat) (m : Mat α) (c : PrajCurve α) (sc : Solver α) (n : Nat) (jmin : Nat)
    (t : Assess.Tables) (L cs : List Int) (k : Nat) : Option (Result α) :=
  let law := Assess.lawBatch nb (Assess.maxAbsI (L.map (cs.headD 1 * ·))) (cs.headD 1) (cs.getD k 1) t
  assessRecs conv m c sc n (some jmin) k (twoPass law (Assess.batchLoads L cs)).recs

/-- The point alone (load sequence `c·l`): the x-bar loop starts at its own class `q`. -/
def assessSingle (conv : Int → α) (nb : Nat) (m : Mat α) (c : PrajCurve α) (sc : Solver α) (n : Nat)
    (t : Assess.Tables) (L : List Int) (cc : Int) : Option (Result α) :=
  let Lc := L.map (cc * ·)
  assessRecs conv m c sc n none 0 (twoPass (Assess.lawOwn nb (Assess.maxAbsI Lc) t) (Lc.map fun l => [l])).recs

end PylifeVerif.PRAJ
