/-
Model of `pylife/strength/failure_probability.py` (property C15).

`FailureProbability(strength_median, strength_std)` keeps `s_50 = log10(strength_median)` and
`s_std = strength_std`; everything lives in log10 space.  `scipy.stats.norm.cdf(x, loc, scale)` is
`Φ((x - loc) / scale)`; `Φ` is a PARAMETER of the model (the proofs instantiate it with an abstract
strictly increasing continuous function with values in (0,1), and with the standard normal
distribution function of Mathlib's `gaussianReal 0 1`; the driver with a `Float` series / continued
fraction).

  * `pfSimpleLoad`     = `pf_simple_load(load)`            (deterministic load)
  * `pfNormLoad`       = `pf_norm_load(load_median, load_std)` with the default integration limits:
                         the VALUE of the integral `∫ pdf_L(x) · cdf_S(x) dx`, i.e. the closed form
                         `Φ((log10 load_median − log10 strength_median) / √(load_std² + strength_std²))`
                         (that the integral has this value is theorem `C15.overlap_integral_eq_closed_form`;
                         that `scipy.integrate.quad` returns the value of the integral is its contract, measured by
                         the correspondence check)
  * `pfArbitraryLoad`  = `pf_arbitrary_load(load_values, load_pdf)`: the composite trapezoidal rule of
                         `np.trapezoid(load_pdf * cdf_S(load_values), x = load_values)`.

Generic in the carrier (see `Model/Num.lean`).  No Mathlib import.
-/
import Model.Num

namespace PylifeVerif.FailureProb

variable {α : Type} [Add α] [Sub α] [Mul α] [Div α] [Neg α] [OfScientific α]
  [LT α] [LE α] [DecidableLT α] [DecidableLE α] [Transc α]

/-- `norm.cdf(x, loc, scale)` -/
def normCdf (Φ : α → α) (x loc scale : α) : α := Φ ((x - loc) / scale)

/-- `pf_simple_load(load)`: the strength's distribution function at the (log10 of the) load. -/
def pfSimpleLoad (Φ : α → α) (strengthMedian strengthStd load : α) : α :=
  normCdf Φ (Transc.log10 load) (Transc.log10 strengthMedian) strengthStd

/-- the argument of `Φ` in the closed form of the overlap integral -/
def safetyIndex (strengthMedian strengthStd loadMedian loadStd : α) : α :=
  (Transc.log10 loadMedian - Transc.log10 strengthMedian)
    / Transc.sqrt (loadStd * loadStd + strengthStd * strengthStd)

/-- `pf_norm_load(load_median, load_std)` (default limits): value of the overlap integral. -/
def pfNormLoad (Φ : α → α) (strengthMedian strengthStd loadMedian loadStd : α) : α :=
  Φ (safetyIndex strengthMedian strengthStd loadMedian loadStd)

/-- the complementary probability `1 − pf` evaluated without cancellation (`Φ(−z)`) -/
def survNormLoad (Φ : α → α) (strengthMedian strengthStd loadMedian loadStd : α) : α :=
  Φ (-(safetyIndex strengthMedian strengthStd loadMedian loadStd))

/-- composite trapezoidal rule `np.trapezoid(y, x = x)` on a list of nodes `(x, y)` -/
def trapezoid : List (α × α) → α
  | (x₀, y₀) :: (x₁, y₁) :: rest => (x₁ - x₀) * (y₁ + y₀) / 2.0 + trapezoid ((x₁, y₁) :: rest)
  | _ => 0.0

/-- `pf_arbitrary_load(load_values, load_pdf)`; `pts` = the pairs `(load_values[i], load_pdf[i])`. -/
def pfArbitraryLoad (Φ : α → α) (strengthMedian strengthStd : α) (pts : List (α × α)) : α :=
  trapezoid (pts.map fun p => (p.1, p.2 * normCdf Φ p.1 (Transc.log10 strengthMedian) strengthStd))

end PylifeVerif.FailureProb
