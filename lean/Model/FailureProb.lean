/-
Model of `pylife/strength/failure_probability.py` (property C15).

`FailureProbability(strength_median, strength_std)` keeps `s_50 = log10(strength_median)` and
`s_std = strength_std`; everything lives in log10 space.  `scipy.stats.norm.cdf(x, loc, scale)` is
`Φ((x - loc) / scale)`; `Φ` is a PARAMETER of the model (the proofs instantiate it with an abstract
strictly increasing continuous function with values in (0,1), and with the standard normal
distribution function of Mathlib's `gaussianReal 0 1`; the driver with a `Float` series / continued
fraction).

  * `pfSimpleLoad`     = `pf_simple_load(load)`            (deterministic load)
  * `pfNormLoad`       = `pf_norm_load(load_median, load_std)` with the default integration limits:
                         the VALUE of the integral `∫ pdf_L(x) · cdf_S(x) dx`, i.e. the closed form
                         `Φ((log10 load_median − log10 strength_median) / √(load_std² + strength_std²))`
                         (that the integral has this value is theorem `C15.overlap_integral_eq_closed_form`;
                         that `scipy.integrate.quad` returns the value of the integral is its contract, measured by
                         the correspondence check)
  * `pfNormLoadCode`   = `pf_norm_load(load_median, load_std, lower_limit, upper_limit)` AS THE CODE COMPUTES IT
                         (repaired code, /repo commits 2a91979 + 04bca38 + 2da931b):
                         `load_std = 0` is a deterministic load (`pf_simple_load` if it lies within the limits, else 0);
                         otherwise the limits are standardised (`t = (log10 load − log10 load_median) / load_std`, default
                         ±16, explicit ones clipped to ±16), `loc = s_50 − log10 load_median`,
                         `mass = cdf(upper) − cdf(lower)` (as `sf(lower) − sf(upper)` for a window above the load median),
                         `direct = quad(pdf(t) · cdf((sc·t − loc)/s_std))`, `viaComplement = mass − quad(pdf(t) · sf(…))`.
                         BRANCH RULE OF THE MODEL (= that of /repo 2da931b): with the default limits and `loc < 0`
                         (pf > 1/2 by symmetry) `viaComplement`; otherwise `direct` if `direct ≤ mass/2`, else `viaComplement`
                         - the smaller one of the two complementary probabilities is the one that is integrated.
                         THE CODE follows the rule of /repo 9f34536 since: in the second case it returns `direct` also when
                         `|mass| < 1/2`, i.e. `viaComplement` only if the complement is the smaller one AND at least half of the
                         load lies in the window (in a narrow window `mass − quad(…)` cancels: −5.4e-24 for 4.1e-47).  The model
                         was deliberately left as it is: both rules choose between the same two expressions, each equal to the
                         window integral (`window_sf_identity`, `C15.pf_norm_load_code_eq_window_integral`), so the theorems
                         carry over to the code's rule (not restated) and the correspondence check compares the values within
                         its tolerance; the narrow windows themselves are covered by the oracle (corpus
                         `C15/fixreview-d-narrow-window-{a,b,c}`), where the harness compares with its own window integral.
                         `quad` (the value scipy's adaptive quadrature is contracted to deliver), `Φ`, the survival
                         function `Ψ` and the density `φ` are PARAMETERS: the proofs instantiate `quad` with the interval
                         integral (`C15.pf_norm_load_code_eq_window_integral`, `C15.pf_norm_load_code_near_closed_form`), the
                         driver with a composite 8-point Gauss–Legendre rule on the pieces the code's break points define.
  * `pfArbitraryLoad`  = `pf_arbitrary_load(load_values, load_pdf)`: the composite trapezoidal rule of
                         `np.trapezoid(load_pdf * cdf_S(load_values), x = load_values)`.

Generic in the carrier (see `Model/Num.lean`).  No Mathlib import.
-/
import Model.Num

namespace PylifeVerif.FailureProb

variable {α : Type} [Add α] [Sub α] [Mul α] [Div α] [Neg α] [OfScientific α]
  [LT α] [LE α] [DecidableLT α] [DecidableLE α] [Transc α]

/-- `norm.cdf(x, loc, scale)` -/
def normCdf (Φ : α → α) (x loc scale : α) : α := Φ ((x - loc) / scale)

/-- `pf_simple_load(load)`: the strength's distribution function at the (log10 of the) load. -/
def pfSimpleLoad (Φ : α → α) (strengthMedian strengthStd load : α) : α :=
  normCdf Φ (Transc.log10 load) (Transc.log10 strengthMedian) strengthStd

/-- the argument of `Φ` in the closed form of the overlap integral -/
def safetyIndex (strengthMedian strengthStd loadMedian loadStd : α) : α :=
  (Transc.log10 loadMedian - Transc.log10 strengthMedian)
    / Transc.sqrt (loadStd * loadStd + strengthStd * strengthStd)

/-- `pf_norm_load(load_median, load_std)` (default limits): value of the overlap integral. -/
def pfNormLoad (Φ : α → α) (strengthMedian strengthStd loadMedian loadStd : α) : α :=
  Φ (safetyIndex strengthMedian strengthStd loadMedian loadStd)

/-- the complementary probability `1 − pf` evaluated without cancellation (`Φ(−z)`) -/
def survNormLoad (Φ : α → α) (strengthMedian strengthStd loadMedian loadStd : α) : α :=
  Φ (-(safetyIndex strengthMedian strengthStd loadMedian loadStd))

/-- `np.clip(x, -16, 16)`: beyond 16 load standard deviations the code neglects the load (its default range) -/
def clip16 (x : α) : α := if x < -16.0 then -16.0 else if x > 16.0 then 16.0 else x

/-- standardised integration limit: `None` → the default, else `(limit − log10 load_median) / load_std` clipped to ±16 -/
def stdLimit (dflt : α) (loadMedian loadStd : α) : Option α → α
  | none => dflt
  | some l => clip16 ((l - Transc.log10 loadMedian) / loadStd)

/-- `lower_limit ≤ x` / `x ≤ upper_limit` with `None` = no limit -/
def withinLimits (x : α) (lower upper : Option α) : Bool :=
  (match lower with | none => true | some l => decide (l ≤ x)) &&
  (match upper with | none => true | some u => decide (x ≤ u))

/-- `pf_norm_load(load_median, load_std, lower_limit, upper_limit)` as the code computes it; `quad f a b` stands for
`scipy.integrate.quad(f, a, b, …)[0]`, `Ψ` for `norm.sf`, `φ` for `norm.pdf`.  (`load_std < 0` raises in the code and is
outside the model's domain: here it takes the deterministic branch.) -/
def pfNormLoadCode (Φ Ψ φ : α → α) (quad : (α → α) → α → α → α)
    (strengthMedian strengthStd loadMedian loadStd : α) (lower upper : Option α) : α :=
  if loadStd ≤ 0.0 then
    (if withinLimits (Transc.log10 loadMedian) lower upper then pfSimpleLoad Φ strengthMedian strengthStd loadMedian else 0.0)
  else
    let lo := stdLimit (-16.0) loadMedian loadStd lower
    let hi := stdLimit 16.0 loadMedian loadStd upper
    let loc := Transc.log10 strengthMedian - Transc.log10 loadMedian
    let mass := if lo > 0.0 then Ψ lo - Ψ hi else Φ hi - Φ lo
    let direct := quad (fun t => φ t * Φ ((loadStd * t - loc) / strengthStd)) lo hi
    let viaComplement := mass - quad (fun t => φ t * Ψ ((loadStd * t - loc) / strengthStd)) lo hi
    if lower.isNone && upper.isNone && decide (loc < 0.0) then viaComplement
    else if direct ≤ 0.5 * mass then direct else viaComplement

/-- positive half of the 8-point Gauss–Legendre rule on [-1, 1]: (node, weight) -/
def gl8 : List (α × α) :=
  [(0.18343464249564978, 0.36268378337836166), (0.525532409916329, 0.3137066458778869),
   (0.7966664774136267, 0.22238103445337443), (0.9602898564975362, 0.10122853629037706)]

/-- one Gauss–Legendre panel on `[a, a + h]` -/
def glPanel (f : α → α) (a h : α) : α :=
  let c := a + h / 2.0
  let r := h / 2.0
  r * (gl8.foldl (fun s (p : α × α) => s + p.2 * (f (c - r * p.1) + f (c + r * p.1))) 0.0)

/-- `n` consecutive panels of width `h` starting at `a`, added to `acc` -/
def glComposite (f : α → α) (h : α) : Nat → α → α → α
  | 0, _, acc => acc
  | n + 1, a, acc => glComposite f h n (a + h) (acc + glPanel f a h)

/-- composite trapezoidal rule `np.trapezoid(y, x = x)` on a list of nodes `(x, y)` -/
def trapezoid : List (α × α) → α
  | (x₀, y₀) :: (x₁, y₁) :: rest => (x₁ - x₀) * (y₁ + y₀) / 2.0 + trapezoid ((x₁, y₁) :: rest)
  | _ => 0.0

/-- `pf_arbitrary_load(load_values, load_pdf)`; `pts` = the pairs `(load_values[i], load_pdf[i])`. -/
def pfArbitraryLoad (Φ : α → α) (strengthMedian strengthStd : α) (pts : List (α × α)) : α :=
  trapezoid (pts.map fun p => (p.1, p.2 * normCdf Φ p.1 (Transc.log10 strengthMedian) strengthStd))

end PylifeVerif.FailureProb
