/-
Model of `pylife.vmap.VMAPExport` / `VMAPImport` (property C20).  No Mathlib.

HDF5 / h5py is "a store that returns what was written": a file is the record `File` below, a group that
was created is there until it is deleted, a dataset holds exactly the rows written.  Values (`V`) are
opaque cells (binary64 in the real file, written and read back bit for bit); the code applies two operations
to a value: the comparison `z[0] == z` that decides the dimension of a mesh, and the "is it missing"
test inside `groupby('node_id').first()` (first NON-NULL cell per column) - hence the class `Cell`.

The model follows the code step by step, including the order of the checks, the groups that are created
before a check fails and the roll-back (`del group[name]`) in the `except` branches.  It models the code WITH
the repairs committed in /repo: mixed element types are written (5bedc75); element nodal values are written
grouped by element (c3a1079); the importer reads set names written by the exporter (810bb8c) and two-column
coordinates (6fd00f9); the dimension of a geometry is decided from its own frame, no `_dimension` carried from call
to call (ba72c38); identifiers that do not fit the 32 bit integers of the format are refused (0e66e4b);
and with the follow-up repairs, committed as well: 1c1257e (sets accept any iterable of ids again; `add_variable` validates its
arguments before it creates anything) and 57828f0: element nodal values are written in the order of the connectivity stored by `add_geometry`,
whatever the row order of the variable's frame is (a frame whose rows are not the (element, node) pairs of whole
elements of the geometry is refused).
-/
namespace PylifeVerif.Vmap

inductive Err where
  | key | exportErr | value | apiUse | typeErr | overflow
  deriving DecidableEq, Repr

/-- What the code does with a cell: IEEE comparison and the missing-value test of pandas (`NaN`). -/
class Cell (V : Type) extends BEq V where
  isNull : V → Bool

/-- One row of a mesh frame: the `(element_id, node_id)` index entry and the cells of all columns. -/
structure Row (V : Type) where
  eid : Int
  nid : Int
  vals : List V

/-- A pandas mesh frame: column labels, the labels of the columns whose dtype HDF5 cannot store
(`object`), and the rows in frame order. -/
structure Frame (V : Type) where
  cols : List String
  objCols : List String
  rows : List (Row V)

def Row.key {V} (r : Row V) : Int × Int := (r.eid, r.nid)

/-- The identifiers of the VMAP format are 32 bit integers. -/
def fits32 (i : Int) : Bool := decide (-2147483648 ≤ i) && decide (i ≤ 2147483647)

/-- Positions of the requested column labels (`mesh[column_names]`); `none` = a label is missing (KeyError). -/
def colIdx (cols : List String) (names : List String) : Option (List Nat) :=
  if names.all (fun n => cols.contains n) then some (names.map (fun n => cols.idxOf n)) else none

/-- The selected cells of a row. -/
def selRow {V} (idx : List Nat) (r : Row V) : List V := idx.filterMap (fun i => r.vals[i]?)

/-- Insertion into a strictly ascending list (no duplicates). -/
def insertU (a : Int) : List Int → List Int
  | [] => [a]
  | b :: l => if a < b then a :: b :: l else if a = b then b :: l else b :: insertU a l

/-- Sorted distinct keys: the group keys of `DataFrame.groupby`. -/
def sortU (l : List Int) : List Int := l.foldr insertU []

/-- The rows of node `n`, in frame order (one `groupby('node_id')` group). -/
def nodeRows {V} (rows : List (Row V)) (n : Int) : List (Row V) := rows.filter (fun r => r.nid == n)

/-- `GroupBy.first()` on one column of one group: the first cell that is not missing; when all are
missing the result is missing (the group's first cell stands for it). -/
def firstValid {V} [Cell V] (cells : List V) : Option V :=
  match cells.find? (fun v => !Cell.isNull v) with
  | some v => some v
  | none => cells.head?

/-- Column `i` of `groupby('node_id').first()` at node `n`. -/
def nodeCell {V} [Cell V] (rows : List (Row V)) (n : Int) (i : Nat) : Option V :=
  firstValid ((nodeRows rows n).filterMap (fun r => r.vals[i]?))

/-- One row of `groupby('node_id').first()[names]`. -/
def nodeValue {V} [Cell V] (rows : List (Row V)) (idx : List Nat) (n : Int) : List V :=
  idx.filterMap (nodeCell rows n)

/-- The rows of element `e`, in frame order (one `groupby('element_id')` group). -/
def elemRows {V} (rows : List (Row V)) (e : Int) : List (Row V) := rows.filter (fun r => r.eid == e)

/-- The frame sorted stably by element id (`mesh.iloc[np.argsort(element_id, kind='stable')]`). -/
def byElement {V} (rows : List (Row V)) : List (Row V) :=
  (sortU (rows.map (·.eid))).flatMap (elemRows rows)

structure GSet where
  kind : Nat          -- MYSETTYPE: 0 node set, 1 element set
  name : String
  ids : List Int

structure Geometry (V : Type) where
  pointIds : List Int
  ncoord : Nat                          -- number of coordinate columns (2 or 3)
  coords : List (List V)                -- aligned with pointIds
  elements : List (Int × Nat × List Int)  -- myIdentifier, myElementType, myConnectivity
  sets : List GSet                      -- in creation order (group names 000000, 000001, …)

structure Variable (V : Type) where
  loc : Nat                             -- MYLOCATION: 2 node, 6 element nodal
  ncols : Nat                           -- MYDIMENSION
  ids : List Int                        -- MYGEOMETRYIDS
  values : List (List V)                -- MYVALUES

/-- The content of a VMAP file that the property speaks about.  `groups` are the (state, geometry) groups
under /VMAP/VARIABLES that exist, `vars` the variable groups keyed by (state, geometry, variable). -/
structure File (V : Type) where
  geoms : List (String × Geometry V)
  groups : List (String × String)
  vars : List ((String × String × String) × Variable V)

def File.empty {V} : File V := ⟨[], [], []⟩

def emptyGeom {V} : Geometry V := ⟨[], 3, [], [], []⟩

def eraseKey {α β} [BEq α] (k : α) (l : List (α × β)) : List (α × β) := l.filter (fun p => !(p.1 == k))

def setKey {α β} [BEq α] (k : α) (v : β) (l : List (α × β)) : List (α × β) :=
  l.map (fun p => if p.1 == k then (k, v) else p)

/-- `VMAPExport._element_types`: (dimension, number of nodes) ↦ myElementType. -/
def elemType : Nat → Nat → Option Nat
  | 2, 3 => some 0 | 2, 6 => some 1 | 2, 4 => some 2 | 2, 8 => some 3
  | 3, 4 => some 4 | 3, 10 => some 5 | 3, 6 => some 6 | 3, 15 => some 7 | 3, 8 => some 8 | 3, 20 => some 9
  | _, _ => none

/-- The coordinate columns the exporter writes for a frame. -/
def coordNames {V} (fr : Frame V) : List String :=
  if fr.cols.contains "z" then ["x", "y", "z"] else ["x", "y"]

/-- The node ids of a frame, ascending and distinct (the index of `groupby('node_id').first()`). -/
def nodeIds {V} (fr : Frame V) : List Int := sortU (fr.rows.map (·.nid))

/-- The element ids of a frame, ascending and distinct. -/
def elemIds {V} (fr : Frame V) : List Int := sortU (fr.rows.map (·.eid))

/-- The dimension of a mesh frame, decided from the frame alone: 3 when there is a `z` column whose values
(one per node) are not all equal (`(z[0] == z).all()`, IEEE comparison), else 2. -/
def ownDim {V} [Cell V] (fr : Frame V) : Nat :=
  if fr.cols.contains "z" then
    let iz := fr.cols.idxOf "z"
    let zs := (nodeIds fr).filterMap (fun n => nodeCell fr.rows n iz)
    match zs with
    | [] => 2
    | z0 :: _ => if zs.all (fun z => z0 == z) then 2 else 3
  else 2

/-- `_create_points_datasets`: the point ids, the number of coordinate columns and the coordinates, or an
error: a node id outside int32, `z[0]` of an empty `z` column (IndexError), a missing coordinate column
(KeyError), a coordinate column HDF5 cannot store (TypeError). -/
def buildPoints {V} [Cell V] (fr : Frame V) : Except Err (List Int × Nat × List (List V)) :=
  let ids := nodeIds fr
  if !(ids.all fits32) then .error .overflow else
  if fr.cols.contains "z" && ids.isEmpty then .error .exportErr else
  match colIdx fr.cols (coordNames fr) with
  | none => .error .key
  | some idx =>
    if (coordNames fr).any (fun c => fr.objCols.contains c) then .error .typeErr
    else .ok (ids, (coordNames fr).length, ids.map (nodeValue fr.rows idx))

/-- Connectivity per element id ascending, nodes in frame order. -/
def connectivity {V} (rows : List (Row V)) : List (Int × List Int) :=
  (sortU (rows.map (·.eid))).map (fun e => (e, (elemRows rows e).map (·.nid)))

/-- `_create_elements_dataset`: an element id outside int32 is refused; an element whose
(dimension, node count) is not in the table is a KeyError. -/
def buildElements {V} (dim : Nat) (fr : Frame V) : Except Err (List (Int × Nat × List Int)) :=
  let cs := connectivity fr.rows
  if !((elemIds fr).all fits32) then .error .overflow else
  if cs.all (fun c => (elemType dim c.2.length).isSome) then
    .ok (cs.map (fun c => (c.1, (elemType dim c.2.length).getD 0, c.2)))
  else .error .key

/-- `add_geometry`.  Result: file after the call, error raised (if any). -/
def addGeometry {V} [Cell V] (f : File V) (name : String) (fr : Frame V) : File V × Option Err :=
  if (f.geoms.lookup name).isSome then (f, some .key) else
  -- `_create_geometry_groups`: the (still empty) geometry group exists from here on
  let f1 : File V := { f with geoms := f.geoms ++ [(name, emptyGeom)] }
  -- the `except` branch: `del geometry_group[geometry_name]`
  let rollback : File V := { f1 with geoms := eraseKey name f1.geoms }
  match buildPoints fr with
  | .error _ => (rollback, some .exportErr)
  | .ok (ids, nc, coords) =>
    match buildElements (ownDim fr) fr with
    | .error _ => (rollback, some .exportErr)
    | .ok els => ({ f1 with geoms := setKey name ⟨ids, nc, coords, els, []⟩ f1.geoms }, none)

/-- `vmap_structures.column_names`. -/
def defaultCols : String → Option (List String × Nat)
  | "DISPLACEMENT" => some (["dx", "dy", "dz"], 2)
  | "STRESS_CAUCHY" => some (["S11", "S22", "S33", "S12", "S13", "S23"], 6)
  | "E" => some (["E11", "E22", "E33", "E12", "E13", "E23"], 6)
  | _ => none

/-- The optional `column_names` argument, defaulted from the table. -/
def resolveCols (var : String) : Option (List String) → Option (List String)
  | some c => some c
  | none => match defaultCols var with
    | some d => some d.1
    | none => none

/-- The optional `location` argument, defaulted from the table. -/
def resolveLoc (var : String) : Option Nat → Option Nat
  | some l => some l
  | none => match defaultCols var with
    | some d => some d.2
    | none => none

/-- Pairwise distinct keys (`Index.is_unique`). -/
def allDistinct : List (Int × Int) → Bool
  | [] => true
  | a :: l => !(l.contains a) && allDistinct l

/-- The stored elements of the geometry that occur in the variable's frame, in stored order. -/
def enElements {V} (g : Geometry V) (fr : Frame V) : List (Int × Nat × List Int) :=
  g.elements.filter (fun el => (fr.rows.map (·.eid)).contains el.1)

/-- The (element, node) pairs of those elements in the order of the stored connectivity: the order in which a
reader assigns the values of an element nodal variable. -/
def enTarget {V} (g : Geometry V) (fr : Frame V) : List (Int × Int) :=
  (enElements g fr).flatMap (fun el => el.2.2.map (fun n => (el.1, n)))

/-- The frame row with a given (element, node) key. -/
def rowAt {V} (rows : List (Row V)) (k : Int × Int) : Option (Row V) := rows.find? (fun r => r.key == k)

/-- The two datasets of a variable group for a frame whose columns `idx` are exported.  NODE: first
non-missing cell per node.  ELEMENT_NODAL (`_element_nodal_positions`): the frame's rows looked up by the stored
(element, node) pairs; `none` (KeyError / InvalidIndexError) when the frame's keys are not distinct, a stored pair has no
row, or the frame has other rows than those.
Scope: the model asks for distinct keys.  The code (/repo commit a06569b) also accepts the geometry's OWN repeated pairs - a
collapsed element such as 1 2 4 4 - by numbering the occurrences on both sides; frames with repeated (element, node) pairs are
outside this model and its theorems (pyLife's importer multiplies such rows in its joins); that case is judged on the file by the
harness (scenario `collapsed`).  The code collects the values and runs these checks before it creates the state / geometry
groups; the model creates the groups first - groups that hold no variable are not content and are not compared. -/
def buildVariable {V} [Cell V] (loc : Nat) (g : Geometry V) (fr : Frame V) (idx : List Nat) : Option (Variable V) :=
  if loc = 2 then
    some ⟨2, idx.length, nodeIds fr, (nodeIds fr).map (nodeValue fr.rows idx)⟩
  else
    let keys := fr.rows.map Row.key
    let tgt := enTarget g fr
    if allDistinct keys && tgt.all (fun k => keys.contains k) && (keys.length == tgt.length) then
      some ⟨loc, idx.length, (enElements g fr).map (·.1),
        tgt.filterMap (fun k => (rowAt fr.rows k).map (selRow idx))⟩
    else none

/-- The identifiers a variable of location `loc` writes fit the format. -/
def varIdsFit {V} (loc : Nat) (fr : Frame V) : Bool :=
  if loc = 2 then (nodeIds fr).all fits32 else (elemIds fr).all fits32

/-- The state group and the geometry group below it are created on demand (and stay). -/
def ensureGroup {V} (f : File V) (state geom : String) : File V :=
  if f.groups.contains (state, geom) then f else { f with groups := f.groups ++ [(state, geom)] }

/-- `add_variable` from the point where the arguments are resolved and the groups exist: the variable group is
created, filled, and deleted again if filling raises. -/
def addVariableCore {V} [Cell V] (f1 : File V) (g : Geometry V) (state geom var : String) (fr : Frame V)
    (names : List String) (l : Nat) : File V × Option Err :=
  if (f1.vars.lookup (state, geom, var)).isSome then (f1, some .key) else
  let f2 : File V := { f1 with vars := f1.vars ++ [((state, geom, var), (⟨l, names.length, [], []⟩ : Variable V))] }
  let rollback : File V := { f2 with vars := eraseKey (state, geom, var) f2.vars }
  match colIdx fr.cols names with
  | none => (rollback, some .exportErr)
  | some idx =>
    if names.any (fun c => fr.objCols.contains c) then (rollback, some .exportErr) else
    match buildVariable l g fr idx with
    | none => (rollback, some .exportErr)
    | some v => ({ f2 with vars := setKey (state, geom, var) v f2.vars }, none)

/-- `add_variable`.  `cols = none` / `loc = none`: the optional arguments are not given; `loc = some k` with
`k ∉ {2, 6}` stands for a `location` that is not a `VariableLocations` member. -/
def addVariable {V} [Cell V] (f : File V) (state geom var : String) (fr : Frame V)
    (cols : Option (List String)) (loc : Option Nat) : File V × Option Err :=
  match f.geoms.lookup geom with
  | none => (f, some .key)
  | some g =>
    -- the arguments are validated before anything is created in the file
    match resolveCols var cols with
    | none => (f, some .key)
    | some names =>
      match resolveLoc var loc with
      | none => (f, some .apiUse)
      | some l =>
        if l ≠ 2 ∧ l ≠ 6 then (f, some .apiUse) else
        if !(varIdsFit l fr) then (f, some .exportErr) else
        addVariableCore (ensureGroup f state geom) g state geom var fr names l

/-- The node ids (`kind = 0`) or element ids (`kind = 1`) of a frame. -/
def idsOf {V} (kind : Nat) (fr : Frame V) : List Int := fr.rows.map (fun r => if kind = 0 then r.nid else r.eid)

/-- `add_node_set` (`kind = 0`) / `add_element_set` (`kind = 1`); `nameOk = false`: `name` is not a `str`.
(The code looks the geometry up before it checks that the members fit int32; both refusals leave the file as it is, so their
order does not show.) -/
def addSet {V} (f : File V) (kind : Nat) (geom : String) (ids : List Int) (fr : Frame V)
    (nameOk : Bool) (name : String) : File V × Option Err :=
  if !(ids.all (fun i => (idsOf kind fr).contains i)) then (f, some .key) else
  if !nameOk then (f, some .typeErr) else
  if !(ids.all fits32) then (f, some .overflow) else
  match f.geoms.lookup geom with
  | none => (f, some .key)
  | some g => ({ f with geoms := setKey geom { g with sets := g.sets ++ [⟨kind, name, ids⟩] } f.geoms }, none)

/-! ### Importer -/

/-- `_mesh_index`: one (element, node) entry per connectivity entry, elements in file order. -/
def meshIndex {V} (g : Geometry V) : List (Int × Int) :=
  g.elements.flatMap (fun el => el.2.2.map (fun n => (el.1, n)))

/-- A joined block: one entry per mesh row; `none` = the row has no partner (NaN cells). -/
def cellsOf {V} (width : Nat) : Option (List V) → List (Option V)
  | some c => c.map some
  | none => List.replicate width none

/-- `nodes(geometry)` looked up at a node id. -/
def coordAt {V} (g : Geometry V) (n : Int) : Option (List V) := (g.pointIds.zip g.coords).lookup n

/-- `_make_index` for a variable. -/
def varIndex {V} (g : Geometry V) (v : Variable V) : List (Int × Int) :=
  v.ids.flatMap (fun e => (meshIndex g).filter (fun k => k.1 == e))

/-- The variable's value at a mesh row. -/
def varAt {V} (g : Geometry V) (v : Variable V) (k : Int × Int) : Option (List V) :=
  if v.loc = 2 then (v.ids.zip v.values).lookup k.2 else ((varIndex g v).zip v.values).lookup k

abbrev MeshRows (V : Type) := List ((Int × Int) × List (Option V))

/-- The importer object's state between calls. -/
structure Session (V : Type) where
  mesh : Option (List String × MeshRows V)   -- column labels, rows
  geometry : String
  state : Option String

def Session.init {V} : Session V := ⟨none, "", none⟩

inductive ImpOp where
  | makeMesh (geom : String) (state : Option String)
  | joinCoords
  | joinVar (var : String) (state : Option String) (cols : Option (List String))
  | filterNodes (set : String)
  | filterElems (set : String)

/-- Names of the sets of one kind, as the keys of the dict `_geometry_sets` builds. -/
def setNames {V} (g : Geometry V) (kind : Nat) : List String :=
  ((g.sets.filter (fun s => s.kind == kind)).map (·.name)).eraseDups

/-- The dict lookup: the last set stored under that name wins. -/
def setIds {V} (g : Geometry V) (kind : Nat) (name : String) : Option (List Int) :=
  (g.sets.reverse.find? (fun s => s.kind == kind && s.name == name)).map (·.ids)

def joinBlock {V} (labels : List String) (rows : MeshRows V) (newLabels : List String)
    (cells : (Int × Int) → List (Option V)) : Except Err (List String × MeshRows V) :=
  if newLabels.any (fun l => labels.contains l) then .error .value
  else .ok (labels ++ newLabels, rows.map (fun r => (r.1, r.2 ++ cells r.1)))

/-- The state a `join_variable` call uses: its own argument, else the one remembered by the object. -/
def pickState (st cur : Option String) : Option String :=
  match st with
  | some x => some x
  | none => cur

/-- One importer call.  Returns the session afterwards and the exception raised, if any. -/
def impStep {V} (f : File V) (s : Session V) : ImpOp → Session V × Option Err
  | .makeMesh geom st =>
    match f.geoms.lookup geom with
    | none => (s, some .key)
    | some g => (⟨some ([], (meshIndex g).map (fun k => (k, []))), geom, st⟩, none)
  | .joinCoords =>
    match s.mesh with
    | none => (s, some .apiUse)
    | some (labels, rows) =>
      match f.geoms.lookup s.geometry with
      | none => (s, some .key)
      | some g =>
        match joinBlock labels rows (["x", "y", "z"].take g.ncoord) (fun k => cellsOf g.ncoord (coordAt g k.2)) with
        | .error e => (s, some e)
        | .ok m => ({ s with mesh := some m }, none)
  | .joinVar var st cols =>
    match s.mesh with
    | none => (s, some .apiUse)
    | some (labels, rows) =>
      match pickState st s.state with
      | none => (s, some .apiUse)
      | some state =>
        match f.geoms.lookup s.geometry with
        | none => (s, some .key)
        | some g =>
          if !(f.groups.contains (state, s.geometry)) then (s, some .key) else
          let s1 : Session V := { s with state := some state }     -- `self._state = state` precedes the look-up
          match resolveCols var cols with
          | none => (s1, some .key)
          | some names =>
            match f.vars.lookup (state, s.geometry, var) with
            | none => (s1, some .key)
            | some v =>
              if names.length ≠ v.ncols then (s1, some .value) else
              let index := if v.loc = 2 then v.ids.map (fun n => ((0 : Int), n)) else varIndex g v
              if index.length ≠ v.values.length then (s1, some .value) else
              match joinBlock labels rows names (fun k => cellsOf v.ncols (varAt g v k)) with
              | .error e => (s1, some e)
              | .ok m => ({ s1 with mesh := some m }, none)
  | .filterNodes set =>
    match s.mesh with
    | none => (s, some .apiUse)
    | some (labels, rows) =>
      match (f.geoms.lookup s.geometry).bind (fun g => setIds g 0 set) with
      | none => (s, some .key)
      | some ids => ({ s with mesh := some (labels, rows.filter (fun r => ids.contains r.1.2)) }, none)
  | .filterElems set =>
    match s.mesh with
    | none => (s, some .apiUse)
    | some (labels, rows) =>
      match (f.geoms.lookup s.geometry).bind (fun g => setIds g 1 set) with
      | none => (s, some .key)
      | some ids => ({ s with mesh := some (labels, rows.filter (fun r => ids.contains r.1.1)) }, none)

/-- A call chain `make_mesh(…).join…(…)…`; stops at the first exception (position reported). -/
def runChain {V} (f : File V) : Session V → List ImpOp → Nat → Session V × Option (Err × Nat)
  | s, [], _ => (s, none)
  | s, op :: ops, i =>
    match impStep f s op with
    | (s', some e) => (s', some (e, i))
    | (s', none) => runChain f s' ops (i + 1)

/-- `to_frame()`: hands out the mesh and resets it. -/
def toFrame {V} (s : Session V) : Session V × Except Err (List String × MeshRows V) :=
  match s.mesh with
  | none => (s, .error .apiUse)
  | some m => ({ s with mesh := none }, .ok m)

/-- A whole read: chain, then `to_frame()`. -/
def readFrame {V} (f : File V) (s : Session V) (ops : List ImpOp) :
    Session V × Except (Err × Nat) (List String × MeshRows V) :=
  match runChain f s ops 0 with
  | (s', some e) => (s', .error e)
  | (s', none) =>
    match toFrame s' with
    | (s'', .error e) => (s'', .error (e, ops.length))
    | (s'', .ok m) => (s'', .ok m)

end PylifeVerif.Vmap
