/-
Model of the FKM-nonlinear HCM detector (`pylife/stress/rainflow/fkm_nonlinear.py`,
`FKMNonlinearDetector`) with the recorder columns of `FKMNonlinearRecorder`.

Loads, stresses and strains are integers (see DESIGN §3: every decision compares loads / absolute
load differences / first-node stresses and strains; the `1e-12` tolerances of the code are inert
on integers).  The notch approximation law is a parameter.  Several assessment points ("nodes")
are carried as vectors; all decisions use the FIRST node, exactly as the code does.
No Mathlib import.
-/
import Model.Rainflow.Turns

namespace PylifeVerif.HCM
open PylifeVerif.Rainflow

abbrev Vec := List Int

/-- The four functions of a notch approximation law that the detector calls. -/
structure Law where
  sigma : Int → Int          -- `stress(load)`                      (primary branch)
  eps : Int → Int → Int      -- `strain(stress, load)`
  dsigma : Int → Int         -- `stress_secondary_branch(Δload)`     (Masing branch)
  deps : Int → Int → Int     -- `strain_secondary_branch(Δstress, Δload)`

structure HPoint where
  load : Vec
  stress : Vec
  strain : Vec
deriving Repr, DecidableEq, Inhabited

/-- One recorded hysteresis: a row block (one row per node) of the recorder. -/
structure Hyst where
  loadMin : Vec
  loadMax : Vec
  sMin : Vec
  sMax : Vec
  eMin : Vec
  eMax : Vec
  eMinLF : Vec
  eMaxLF : Vec
  closed : Bool
  zeroMean : Bool
  run : Nat
deriving Repr, DecidableEq

structure State where
  ts : TurnState := {}
  res : List HPoint := []        -- `_residuals`, top first
  iz : Nat := 0
  ir : Nat := 1
  loadMax : Nat := 0             -- `_load_max_seen`
  run : Nat := 0                 -- `_run_index`
  eMinLF : Vec := []
  eMaxLF : Vec := []
  started : Bool := false        -- `not _is_load_sequence_start`
  lastSample : Vec := []         -- `_last_sample`
  prevLoad : Int := 0            -- `_previous_load`: load of the last processed turning point
  strainValues : List Int := []  -- `_strain_values` (first node)
  nFirst : Nat := 0              -- `_n_strain_values_first_run`
  recs : List Hyst := []         -- recorder content, in order
  fed : List (Nat × Vec) := []   -- ghost: every turning point handed to the HCM loop, with its pass number
deriving Repr

def rep (v : Vec) : Int := v.headD 0

def vzip (f : Int → Int → Int) (a b : Vec) : Vec := List.zipWith f a b

/-- `_proceed_on_primary_branch` -/
def primary (law : Law) (load : Vec) : HPoint :=
  let s := load.map law.sigma
  { load := load, stress := s, strain := vzip law.eps s load }

/-- `_proceed_on_secondary_branch` -/
def secondary (law : Law) (prev : HPoint) (load : Vec) : HPoint :=
  let dL := vzip (· - ·) load prev.load
  let ds := dL.map law.dsigma
  let de := vzip law.deps ds dL
  { load := load, stress := vzip (· + ·) prev.stress ds, strain := vzip (· + ·) prev.strain de }

def vabs (v : Vec) : Vec := v.map fun x => (x.natAbs : Int)
def vneg (v : Vec) : Vec := v.map fun x => -x

/-- note a strain value (first node) and count it for the first run -/
def noteStrain (st : State) (p : HPoint) : State :=
  { st with strainValues := st.strainValues ++ [rep p.strain],
            nFirst := if st.run = 1 then st.nFirst + 1 else st.nFirst }

/-- `_handle_case_c_ii`: record the closed hysteresis `(p0, p1)`; every column picks one of the two
points wholesale according to the FIRST node's value of that column. -/
def closedHyst (st : State) (p0 p1 : HPoint) : Hyst :=
  let pick (lt : Bool) (a b : Vec) (sel : HPoint → Vec) : Vec :=
    if lt then (if rep a < rep b then sel p0 else sel p1) else (if rep a > rep b then sel p0 else sel p1)
  { loadMin := pick true p0.load p1.load (·.load), loadMax := pick false p0.load p1.load (·.load),
    sMin := pick true p0.stress p1.stress (·.stress), sMax := pick false p0.stress p1.stress (·.stress),
    eMin := pick true p0.strain p1.strain (·.strain), eMax := pick false p0.strain p1.strain (·.strain),
    eMinLF := st.eMinLF, eMaxLF := st.eMaxLF, closed := true, zeroMean := false, run := st.run }

/-- `_handle_case_a_i` record: half hysteresis (Memory 3), symmetric about zero. -/
def halfHyst (st : State) (prev : HPoint) : Hyst :=
  { loadMin := vneg (vabs prev.load), loadMax := vabs prev.load,
    sMin := vneg (vabs prev.stress), sMax := vabs prev.stress,
    eMin := vneg (vabs prev.strain), eMax := vabs prev.strain,
    eMinLF := st.eMinLF, eMaxLF := st.eMaxLF, closed := false, zeroMean := true, run := st.run }

/-- `_hcm_process_sample`: the `while True` loop for the turning point with load vector `load`.
Returns the state (residuals popped, records appended, `iz`, `ir` updated) and the new point.
`fuel` bounds the number of closings. -/
def processSample (law : Law) (load : Vec) : Nat → State → State × HPoint
  | 0, st => (st, primary law load)     -- unreachable with sufficient fuel
  | fuel+1, st =>
    let cur := rep load
    if st.iz = st.ir then
      match st.res with
      | prev :: _ =>
        if cur.natAbs > st.loadMax then
          -- case a) i.: half counted hysteresis, continue on the primary branch
          let p := primary law load
          let st := { st with recs := st.recs ++ [halfHyst st prev], ir := st.ir + 1 }
          (noteStrain st p, p)
        else
          let p := secondary law prev load     -- case a) ii.
          (noteStrain st p, p)
      | [] => (st, primary law load)        -- `self._residuals[-1]` would raise; unreachable (iz = |res|)
    else if st.iz < st.ir then
      let p := primary law load              -- case b)
      (noteStrain st p, p)
    else
      match st.res with
      | p1 :: p0 :: rest =>
        let curExt := (cur - rep p1.load).natAbs
        let prevExt := (rep p1.load - rep p0.load).natAbs
        if curExt < prevExt then
          let p := secondary law p1 load      -- case c) i.
          (noteStrain st p, p)
        else
          -- case c) ii.: closed hysteresis (p0, p1)
          let st := { st with recs := st.recs ++ [closedHyst st p0 p1], res := rest, iz := st.iz - 2 }
          if st.iz ≥ st.ir then
            processSample law load fuel st
          else
            let p := primary law load
            (noteStrain st p, p)
      | _ => (st, primary law load)          -- unreachable (iz > ir ≥ 1 and iz = |res|)

/-- `_hcm_update_min_max_strain_values`: the running strain extremes are kept for every assessment
point separately (element-wise maximum / minimum); which of the two is updated is decided by the
first point's loads. -/
def updateLF (st : State) (previousLoad cur : Int) (p : HPoint) : State :=
  if previousLoad < cur then
    { st with eMaxLF := vzip max st.eMaxLF p.strain }
  else
    { st with eMinLF := vzip min st.eMinLF p.strain }

/-- One iteration of the loop in `_perform_hcm_algorithm`. -/
def turnStep (law : Law) (acc : State × Int) (load : Vec) : State × Int :=
  let (st, previousLoad) := acc
  let cur := rep load
  let st := { st with fed := st.fed ++ [(st.run, load)] }
  let (st, p) := processSample law load (st.res.length / 2 + 2) st
  let st := if cur.natAbs > st.loadMax then { st with loadMax := cur.natAbs } else st
  let st := { st with iz := st.iz + 1, res := p :: st.res }
  (updateLF st previousLoad cur p, cur)

/-- `process(samples, flush)`; `samples` holds one load vector per load step. -/
def process (law : Law) (st : State) (samples : List Vec) (flush : Bool) : State :=
  let nNodes := (samples.headD []).length
  let st := if st.started then st else
    { st with started := true, eMinLF := List.replicate nNodes 0, eMaxLF := List.replicate nNodes 0 }
  let st := { st with run := st.run + 1 }
  let oldHead := st.ts.head
  let (ts', turns) := newTurns st.ts (samples.map rep) flush
  let arr := samples.toArray
  let loads : List Vec := turns.map fun p =>
    if p.1 < oldHead then st.lastSample else arr[p.1 - oldHead]!
  let st := { st with ts := ts', lastSample := samples.getLastD st.lastSample }
  let r := loads.foldl (turnStep law) (st, st.prevLoad)
  { r.1 with prevLoad := r.2 }

/-- `_adjust_samples_and_flush_for_hcm_first_run`: prepend a zero load step; flush iff the last
sample is a turning point of the doubled (zero-prefixed) sequence - i.e. of the zero-prefixed sequence
followed by ANOTHER zero and the sequence.  (This is what the code does; see `adjustFirstRunR`.) -/
def adjustFirstRun (samples : List Vec) : List Vec × Bool :=
  let nNodes := (samples.headD []).length
  let s' := List.replicate nNodes 0 :: samples
  let reps := s'.map rep
  let turnIdx := (findTurns (reps ++ reps)).map (·.1)
  (s', turnIdx.contains (s'.length - 1))

/-- REPAIRED VARIANT, NOT THE CODE: the flush decision taken on the zero-prefixed sequence continued
by the sequence itself (what the second run really feeds).  With it the last sample of a sequence
with two distinct values is always flushed in the first run (`flush_of_twoDistinct`) and the second
pass counts exactly the closed cycles of the repeated sequence.  The code cannot be repaired this way
without breaking its regression test `TestFKMMemory1Inner::test_strain_values` (DESIGN 9.3), so the
difference is recorded as the open finding `first-run-defers-last-sample`. -/
def adjustFirstRunR (samples : List Vec) : List Vec × Bool :=
  let nNodes := (samples.headD []).length
  let s' := List.replicate nNodes 0 :: samples
  let reps := s'.map rep
  let turnIdx := (findTurns (reps ++ reps.tail)).map (·.1)
  (s', turnIdx.contains (s'.length - 1))

/-- `_drop_trailing_non_reversals`: keep the samples up to the last turning point of the periodically
repeated sequence (found in the doubled sequence, first copy). -/
def dropTrailingNonReversals (samples : List Vec) : List Vec :=
  let reps := samples.map rep
  let n := reps.length
  let idx := ((findTurns (reps ++ reps)).map (·.1)).filter (· < n)
  match idx.getLast? with
  | none => samples
  | some t => if t = n - 1 ∨ t = 0 then samples else samples.take (t + 1)

/-- `process_hcm_first(samples).process_hcm_second(samples)` on a fresh detector. -/
def twoPass (law : Law) (samples : List Vec) : State :=
  let samples := dropTrailingNonReversals samples
  let (s1, flush) := adjustFirstRun samples
  let st := process law {} s1 flush
  process law st samples true

/-- the two passes with the repaired first-run flush decision (`adjustFirstRunR`; NOT the code) -/
def twoPassR (law : Law) (samples : List Vec) : State :=
  let samples := dropTrailingNonReversals samples
  let (s1, flush) := adjustFirstRunR samples
  let st := process law {} s1 flush
  process law st samples true

/-! ### Stub laws used by the correspondence check (exact in double arithmetic for small integers) -/

/-- linear: σ = 2L, ε = 3L, Δσ = 2ΔL, Δε = 3ΔL -/
def lawLinear : Law :=
  { sigma := fun l => 2 * l, eps := fun _ l => 3 * l, dsigma := fun d => 2 * d, deps := fun _ d => 3 * d }

def sat (a : Int) (x : Int) : Int :=
  if x.natAbs ≤ a.natAbs then 4 * x else (if x < 0 then -1 else 1) * (4 * a + (x.natAbs - a.natAbs))

/-- saturating (monotone, odd, Masing-doubled secondary branch), strain super-linear:
σ = sat₁₀₀(L), ε = 2σ + L·|L| (primary); Δσ = sat₂₀₀(ΔL), Δε = 2Δσ + ΔL·|ΔL|. -/
def lawSat : Law :=
  { sigma := fun l => sat 100 l,
    eps := fun s l => 2 * s + l * l.natAbs,
    dsigma := fun d => sat 200 d,
    deps := fun s d => 2 * s + d * d.natAbs }

def lawByName : String → Option Law
  | "linear" => some lawLinear
  | "sat" => some lawSat
  | _ => none

end PylifeVerif.HCM
