/-
Model of the FKM-nonlinear assessment with the damage parameter P_RAM, end to end (property C10):

  * `fkm_nonlinear/parameter_calculations.py`   calculate_nonlocal_parameters (n_st, n_bm, n_P),
        calculate_roughness_parameter (K_R,P), calculate_failure_probability_factor_P_RAM (gamma_M),
        calculate_material_woehler_parameters_P_RAM (P_RAM_Z_WS, P_RAM_D_WS with the f_2.5% factor),
        calculate_component_woehler_parameters_P_RAM (f_RAM, P_RAM_Z, P_RAM_D)
  * `materiallaws/notch_approximation_law.py`    Binned: look-up of the class whose upper edge is the first
        one `>= |load|`, value of that class with the sign of the load.  With per-point tables the code
        before repo commit 3047e0d chose the class from the FIRST point's load; since 3047e0d every point
        is looked up with its own load in its own table column.  The model keeps the first-point structure
        (`lawBatch`); for the proportional loads of an assessment `classQ_first_eq_own`
        (Proofs/Lemmas/Assessment.lean) proves that class equal to the own-column class of the repaired code
  * `stress/rainflow/fkm_nonlinear.py`           the HCM detector = `Model/HCM.lean` (imported, law = the look-up)
  * `stress/rainflow/recorders.py`               S_a, S_m, epsilon_a of a recorded hysteresis
  * `strength/damage_parameter.py`               P_RAM row function = `Model/FkmNonlinear.lean` (imported)
  * `fkm_nonlinear/damage_calculator.py`         DamageCalculatorPRAM = `Model/FkmNonlinear.lean` (imported),
        get_lifetime_functions / N_max_bearable (curve shifted by f_2.5% / gamma_M(P_A))
  * `fkm_nonlinear/assessment_nonlinear_standard.py`  the composition

Loads are integers (first point: `c₀·l`, point k: `c_k·l` – the code requires the points' load
sequences to be multiples of each other); look-up table VALUES are integers too (multiples of a
unit that is mapped into the numeric carrier by `conv`), because `Model/HCM.lean` works on
integers; sums of table values are therefore exact in the model and rounded in the code.
Class selection compares exact rationals.  No Mathlib import.
-/
import Model.HCM
import Model.FkmNonlinear

namespace PylifeVerif.Assess
open PylifeVerif.HCM PylifeVerif.FkmNl

/-! ### the binned look-up -/

/-- first `i ≥ start` (at most `fuel` candidates) with `p i`; `start + fuel` if there is none -/
def firstFrom (p : Nat → Bool) : Nat → Nat → Nat
  | i, 0 => i
  | i, fuel+1 => if p i then i else firstFrom p (i+1) fuel

/-- Number (1-based) of the first of `cnt` classes whose upper edge `i/n · maxL` is `≥ |num/den|`
(`searchsorted(|x|) + 1` on the `load` column of the look-up table); `cnt + 1` if `|x|` exceeds the last
edge (the code raises `ValueError`).  `den > 0`. -/
def classQ (n : Nat) (maxL num den : Int) (cnt : Nat) : Nat :=
  firstFrom (fun i => decide ((n : Int) * num.natAbs ≤ (i : Int) * maxL * den)) 1 cnt

/-- The four look-up columns of ONE assessment point: `stress`, `strain` (`n` classes) and `delta_stress`,
`delta_strain` (`2n` classes), as integer multiples of the value unit. -/
structure Tables where
  sig : List Int
  eps : List Int
  dsig : List Int
  deps : List Int
deriving Repr

/-- table value of class `cls` (1-based) with the sign of `x`.  Beyond the last edge (`cls = cnt + 1`) the
code raises `ValueError`; the model then returns the last class's value.  In an assessment this is never
reached for the point's own loads (the grid is sized by the maximum absolute load of the sequence). -/
def tval (tab : List Int) (cls : Nat) (x : Int) : Int := x.sign * tab.getD (min cls tab.length - 1) 0

/-- `Binned.stress / strain / stress_secondary_branch / strain_secondary_branch` for the point whose
own load (range) is `x`, when the tables are per point and the FIRST point's load is `c0/ck · x`
(points with proportional loads `c0·l`, `ck·l`): the class is found with the first point's load in
the first point's class grid (maximum absolute load `M0`), the value is taken from the point's own table.
This is the structure of the code before repo commit 3047e0d; the repaired code looks every point up with its own
load in its own column, which is the same class by `classQ_first_eq_own` (Proofs/Lemmas/Assessment.lean). -/
def lawBatch (n : Nat) (M0 c0 ck : Int) (t : Tables) : Law :=
  { sigma := fun x => tval t.sig (classQ n M0 (c0 * x) ck n) x
    eps := fun _ x => tval t.eps (classQ n M0 (c0 * x) ck n) x
    dsigma := fun d => tval t.dsig (classQ n M0 (c0 * d) ck (2 * n)) d
    deps := fun _ d => tval t.deps (classQ n M0 (c0 * d) ck (2 * n)) d }

/-- the same look-up for a point assessed alone: class from its own load in its own grid (maximum `M`) -/
def lawOwn (n : Nat) (M : Int) (t : Tables) : Law := lawBatch n M 1 1 t

/-- `max(abs(load))` of an integer load sequence -/
def maxAbsI (l : List Int) : Int := l.foldl (fun m x => max m (x.natAbs : Int)) 0

/-! ### parameter formulas (generic carrier) -/

variable {α : Type} [Add α] [Sub α] [Mul α] [Div α] [Neg α] [OfScientific α]
  [LT α] [LE α] [DecidableLT α] [DecidableLE α] [Transc α]

/-- `n_st`, eq. (2.5-28) -/
def nSt (k : Consts α) (Aref Asigma : α) : α := Transc.pow (Aref / Asigma) (1.0 / k.k_st)

/-- `n_bm`, eqs. (2.5-30 … 32): `max(n_bm_, 1)` -/
def nBm (k : Consts α) (nst Rm G : α) : α :=
  let k_ := 5.0 * nst + Rm / k.R_m_bm * Transc.sqrt ((7.5 + Transc.sqrt G) / (1.0 + 0.2 * Transc.sqrt G))
  let x := (5.0 + Transc.sqrt G) / k_
  if x < 1.0 then 1.0 else x

/-- `n_P = n_bm · n_st`, eq. (2.5-27) -/
def nP (k : Consts α) (Aref Asigma Rm G : α) : α :=
  nBm k (nSt k Aref Asigma) Rm G * nSt k Aref Asigma

/-- `K_R,P` from the roughness `R_z`, eq. (2.5-37) -/
def kRP (k : Consts α) (Rz Rm : α) : α :=
  if 1.0 < Rz then
    Transc.pow (1.0 - k.a_RP * Transc.log10 Rz * Transc.log10 (2.0 * Rm / k.R_m_N_min)) k.b_RP
  else 1.0

/-- `gamma_M_RAM`, eq. (2.5-38): `max(10^((0.8 β − 2)·0.08), 1.1)`, and `1` when `P_A` is (close to) 0.5 -/
def gammaM (beta : α) (pa05 : Bool) : α :=
  if pa05 then 1.0 else
    let g := Transc.pow 10.0 ((0.8 * beta - 2.0) * 0.08)
    if g < 1.1 then 1.1 else g

/-- `f_RAM`, eq. (2.5-24) -/
def fRAM (gM np krp : α) : α := gM / (np * krp)

/-- material curve points, eqs. (2.5-22/23): scaled by `f_2.5%` unless `P_A` is 0.5 -/
def pzWS (k : Consts α) (Rm : α) (pa05 : Bool) : α :=
  if pa05 then k.a_PZ_RAM * Transc.pow Rm k.b_PZ_RAM else k.f25_RAM * (k.a_PZ_RAM * Transc.pow Rm k.b_PZ_RAM)

def pdWS (k : Consts α) (Rm : α) (pa05 : Bool) : α :=
  if pa05 then k.a_PD_RAM * Transc.pow Rm k.b_PD_RAM else k.f25_RAM * (k.a_PD_RAM * Transc.pow Rm k.b_PD_RAM)

/-- the component curve from the material curve and `f_RAM`, eq. (2.5-25), rhs of (2.6-88) -/
def curveOf (k : Consts α) (f zws dws : α) : PramCurve α :=
  { d1 := k.d_1, d2 := k.d_2, PZ := 1.0 / f * zws, PD := 1.0 / f * dws }

/-- What the assessment is given for one point besides loads and tables. `krp` is the roughness factor
(given directly, or `kRP` of `R_z`). -/
structure Params (α : Type) where
  g : Group
  Rm : α
  krp : α
  beta : α
  pa05 : Bool
  Aref : α
  Asigma : α
  G : α

/-- `_calculate_local_parameters` + `_compute_component_woehler_curves` (P_RAM part) -/
def componentCurve (p : Params α) : PramCurve α :=
  let k : Consts α := consts p.g
  curveOf k (fRAM (gammaM p.beta p.pa05) (nP k p.Aref p.Asigma p.Rm p.G) p.krp) (pzWS k p.Rm p.pa05) (pdWS k p.Rm p.pa05)

/-! ### recorder columns and damage parameter of one point -/

/-- the columns of point `k` of one recorded hysteresis that the P_RAM assessment reads -/
def projK (k : Nat) (h : Hyst) : List Int × Bool × Bool × Nat :=
  ([h.loadMin.getD k 0, h.loadMax.getD k 0, h.sMin.getD k 0, h.sMax.getD k 0, h.eMin.getD k 0, h.eMax.getD k 0],
   h.closed, h.zeroMean, h.run)

/-- `S_a`, `S_m` (zero for a Memory-3 hysteresis), `epsilon_a` of the recorder and `P_RAM` of `damage_parameter.P_RAM` -/
def rowOfProj (conv : Int → α) (M E : α) (q : List Int × Bool × Bool × Nat) : Row α :=
  let sMin := conv (q.1.getD 2 0)
  let sMax := conv (q.1.getD 3 0)
  let eMin := conv (q.1.getD 4 0)
  let eMax := conv (q.1.getD 5 0)
  let Sa := 0.5 * (sMax - sMin)
  let Sm := if q.2.2.1 then 0.0 else 0.5 * (sMin + sMax)
  let ea := 0.5 * (eMax - eMin)
  { P := pRAM M E Sa Sm ea, closed := q.2.1, run := q.2.2.2 }

def rowsOf (conv : Int → α) (M E : α) (k : Nat) (recs : List Hyst) : List (Row α) :=
  (recs.map (projK k)).map (rowOfProj conv M E)

/-- result of the P_RAM assessment of one point -/
structure Result (α : Type) where
  infinite : Bool
  life : LifeResult α

/-- `_compute_damage_and_lifetimes_RAM` for point `k` of the recorded collective -/
def assessRecs (conv : Int → α) (p : Params α) (k : Nat) (recs : List Hyst) : Result α :=
  let c := componentCurve p
  let rows := rowsOf conv (mSigmaOf p.g p.Rm) (consts p.g : Consts α).E k recs
  { infinite := isLifeInfinite c rows, life := damagePRAM c rows }

/-- `N_max_bearable(P_A)` of `get_lifetime_functions` (no clipping): the curve's `P_RAM_Z` is replaced
by `P_RAM_Z · 10^(log10 f_2.5% − (0.8 β − 2)·0.08)` and the damages are recomputed. -/
def reducedCurve (c : PramCurve α) (f25 beta : α) : PramCurve α :=
  { c with PZ := c.PZ * Transc.pow 10.0 (Transc.log10 f25 - (0.8 * beta - 2.0) * 0.08) }

/-- lifetime with the early-failure test of the ORIGINAL curve (`_n_cycles_until_damage` is computed once in
`__init__` and not updated by `N_max_bearable`) and the damages `ds` of the reduced curve -/
def lifeReduced (base : LifeResult α) (ds : List (α × Nat)) : α :=
  if base.early then base.nCycles else (xOf (sumRun 1 ds) (sumRun 2 ds) + 1.0) * countRun 2 ds

def nMaxBearable (conv : Int → α) (p : Params α) (k : Nat) (recs : List Hyst) (beta : α) : α :=
  let c0 := componentCurve p
  let rows := rowsOf conv (mSigmaOf p.g p.Rm) (consts p.g : Consts α).E k recs
  let c := reducedCurve c0 (consts p.g : Consts α).f25_RAM beta
  lifeReduced (damagePRAM c0 rows) (rows.map fun r => (rowD c r, r.run))

/-! ### the composition -/

/-- load vectors of points with proportional load sequences `c·l` -/
def batchLoads (L : List Int) (cs : List Int) : List Vec := L.map fun l => cs.map (· * l)

/-- `fkm_load_sequence.maximum_absolute_load(max_load_independently_for_nodes=True)` for the point at POSITION `k` of the
rows of a multi-point load sequence: the maximum absolute value of column `k`.  (The maxima are matched to the points by
position - the look-up tables are built from them in this order and `Binned` / the HCM detector use them by position; the
code up to the repair /repo commit 64dfe3b returned them sorted by node label instead: finding
`batch-node-order`.) -/
def colMaxAbs (rows : List Vec) (k : Nat) : Int := maxAbsI (rows.map (·.getD k 0))

/-- The assessment of point `k` in a call for all points `cs` (per-point load maxima requested):
per-point look-up tables, class selection and every HCM decision on the first point. -/
def assessBatch (conv : Int → α) (n : Nat) (p : Params α) (t : Tables) (L cs : List Int) (k : Nat) : Result α :=
  let law := lawBatch n (maxAbsI (L.map (cs.headD 1 * ·))) (cs.headD 1) (cs.getD k 1) t
  assessRecs conv p k (twoPass law (batchLoads L cs)).recs

/-- The assessment of one point alone (load sequence `c·l`). -/
def assessSingle (conv : Int → α) (n : Nat) (p : Params α) (t : Tables) (L : List Int) (c : Int) : Result α :=
  let Lc := L.map (c * ·)
  assessRecs conv p 0 (twoPass (lawOwn n (maxAbsI Lc) t) (Lc.map fun l => [l])).recs

/-- `N_max_bearable` for a point assessed alone -/
def nMaxSingle (conv : Int → α) (n : Nat) (p : Params α) (t : Tables) (L : List Int) (c : Int) (beta : α) : α :=
  let Lc := L.map (c * ·)
  nMaxBearable conv p 0 (twoPass (lawOwn n (maxAbsI Lc) t) (Lc.map fun l => [l])).recs beta

end PylifeVerif.Assess
