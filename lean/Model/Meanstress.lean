/-
C12 — mean stress transformation along the iso-damage lines of a Haigh diagram.

Hand-written executable model of `pylife/strength/meanstress.py`
(`HaighDiagram.transform`, `_SegmentTransformer`, `HaighDiagram.fkm_goodman`, `HaighDiagram.five_segment`,
`MeanstressTransformMatrix._rebin_results`) and of the `R`/`amplitude` accessors of
`load_collective.py` / `load_histogram.py` as far as the transformation uses them.

Generic in the carrier: the driver runs it at `Float` (IEEE infinities are mapped to the constructors
of `ExtR` at the protocol boundary), the proofs at a linearly ordered field.  The order of the
floating-point operations is the order of the Python expressions, so that `Float` results are
bit-identical to numpy's.

The model follows the code *after* the repair `tools/fixes/C12-beyond-R1-key.diff`
(the segment `(1, inf]` gets the sort key `-inf` instead of `-1`; see `segKey`).  The only inputs on
which this differs from the unrepaired code are: target `R = -inf`, cycle with `R > 1`.
-/
import Model.Num

namespace PylifeVerif.Meanstress

/-- An R value as `_SegmentTransformer` keeps it in a float column. -/
inductive ExtR (α : Type) where
  | fin (r : α)
  | pinf
  | ninf
  | nan
  deriving Repr

/-- One segment of the Haigh diagram: the `pd.Interval(lo, hi)` of the `R` index and its slope. -/
structure Seg (α : Type) where
  lo : ExtR α
  hi : ExtR α
  M : α

/-- A cycle as kept in `transformed_cycles`: amplitude and R. -/
structure Cyc (α : Type) where
  amp : α
  R : ExtR α

variable {α : Type} [Add α] [Sub α] [Mul α] [Div α] [Neg α] [OfScientific α]
  [LT α] [LE α] [DecidableLT α] [DecidableLE α]

namespace ExtR

/-- IEEE `a ≤ b` on the extended values (`nan` compares false). -/
def le : ExtR α → ExtR α → Bool
  | nan, _ => false
  | _, nan => false
  | ninf, _ => true
  | _, pinf => true
  | fin a, fin b => decide (a ≤ b)
  | fin _, ninf => false
  | pinf, fin _ => false
  | pinf, ninf => false

/-- IEEE `a < b`. -/
def lt : ExtR α → ExtR α → Bool
  | nan, _ => false
  | _, nan => false
  | pinf, _ => false
  | _, ninf => false
  | ninf, _ => true
  | fin a, fin b => decide (a < b)
  | fin _, pinf => true

/-- `x == 1.0` -/
def isOne : ExtR α → Bool
  | fin r => decide (r ≤ 1.0 ∧ 1.0 ≤ r)
  | _ => false

end ExtR

open ExtR

/-- `fake_meanstress(R) = (1+R)/(1-R)` evaluated in IEEE arithmetic: `nan` at `±inf`. -/
def fake : ExtR α → ExtR α
  | fin r => fin ((1.0 + r) / (1.0 - r))
  | _ => nan

/-- `IntervalIndex.mid = 0.5 * (left + right)`. -/
def mid : ExtR α → ExtR α → ExtR α
  | fin a, fin b => fin (0.5 * (a + b))
  | nan, _ => nan
  | _, nan => nan
  | pinf, ninf => nan
  | ninf, pinf => nan
  | pinf, _ => pinf
  | _, pinf => pinf
  | ninf, _ => ninf
  | _, ninf => ninf

/-- Sort key of a segment in `_distance_from_R_goal`: `fake_meanstress(mid).fillna(-1.0)`;
(repaired code) `-inf` where `mid == +inf`, i.e. for the segment beyond `R = 1`. -/
def segKey (s : Seg α) : ExtR α :=
  match mid s.lo s.hi with
  | pinf => ninf
  | m => match fake m with
    | nan => fin (-1.0)
    | k => k

/-- `meanstress_goal`. -/
def goalKey : ExtR α → ExtR α
  | ninf => fin (-1.0)
  | g => fake g

/-- Stable insertion (ascending by key): `x` goes in front of the first element whose key is not smaller. -/
def insertAsc (x : Seg α) : List (Seg α) → List (Seg α)
  | [] => [x]
  | y :: ys => if ExtR.lt (segKey y) (segKey x) then y :: insertAsc x ys else x :: y :: ys

/-- Stable insertion (descending by key). -/
def insertDesc (x : Seg α) : List (Seg α) → List (Seg α)
  | [] => [x]
  | y :: ys => if ExtR.lt (segKey x) (segKey y) then y :: insertDesc x ys else x :: y :: ys

/-- `distances[distances < 0].sort_values(ascending=True)` (stable for the ≤ 16 segments of a diagram). -/
def segsLeft (D : List (Seg α)) (g : ExtR α) : List (Seg α) :=
  (D.filter fun s => ExtR.lt (segKey s) (goalKey g)).foldr insertAsc []

/-- `distances[distances > 0].sort_values(ascending=False)`. -/
def segsRight (D : List (Seg α)) (g : ExtR α) : List (Seg α) :=
  (D.filter fun s => ExtR.lt (goalKey g) (segKey s)).foldr insertDesc []

/-- `segments_containing_R_goal`: right-closed membership, if there is none left-closed membership. -/
def segsContaining (D : List (Seg α)) (g : ExtR α) : List (Seg α) :=
  let c := D.filter fun s => ExtR.lt s.lo g && ExtR.le g s.hi
  if c.isEmpty then D.filter fun s => ExtR.le s.lo g && ExtR.lt g s.hi else c

/-- `push_over_flipping_point`. -/
def push (R g : ExtR α) : ExtR α :=
  match R with
  | ninf => if ExtR.lt (fin 1.0) g then pinf else ninf
  | pinf => if ExtR.lt g (fin 1.0) then ninf else pinf
  | r => r

/-- `fillna(0.0)` on a computed value (`t ≤ t` fails exactly for an IEEE NaN). -/
def fillna0 (t : α) : α := if t ≤ t then t else 0.0

/-- `transformed_amplitude` for one cycle; `g` is the goal after `1.0 ↦ -inf`. -/
def transAmp (M : α) (c : Cyc α) (g : ExtR α) : α :=
  match c.R with
  | pinf => 0.0
  | nan => 0.0
  | R =>
    let mean : α := match R with
      | fin r => if r ≤ 1.0 ∧ 1.0 ≤ r then -c.amp else c.amp * (1.0 + r) / (1.0 - r)
      | _ => -c.amp
    match g with
    | ninf => fillna0 ((c.amp + M * mean) / (1.0 - M))
    | fin q => fillna0 ((1.0 - q) * (c.amp + M * mean) / (1.0 - q + M * (1.0 + q)))
    | _ => 0.0

/-- `transform_cycles_in_interval(interval, R_goal)` seen by one cycle whose diagram row has this segment. -/
def step (s : Seg α) (g : ExtR α) (c : Cyc α) : Cyc α :=
  let Rp := push c.R g
  if ExtR.le s.lo Rp && ExtR.le Rp s.hi then
    let g' := if g.isOne then ninf else g
    ⟨transAmp s.M c g', g'⟩
  else c

/-- `interval.right if interval.right < 1.0 else interval.left` -/
def leftBoundary (s : Seg α) : ExtR α := if ExtR.lt s.hi (fin 1.0) then s.hi else s.lo

/-- `HaighDiagram.transform` for one cycle. -/
def transform (D : List (Seg α)) (g : ExtR α) (c : Cyc α) : Cyc α :=
  let c := (segsLeft D g).foldl (fun c s => step s (leftBoundary s) c) c
  let c := (segsRight D g).foldl (fun c s => step s s.lo c) c
  (segsContaining D g).foldl (fun c s => step s g c) c

/-- `((1+R)/(1-R)).fillna(-1.0)` times the amplitude: the `mean` column of the result. -/
def resultMean (c : Cyc α) : α :=
  match c.R with
  | fin r => c.amp * fillna0' ((1.0 + r) / (1.0 - r))
  | _ => c.amp * (-1.0)
where fillna0' (t : α) : α := if t ≤ t then t else -1.0

/-- `HaighDiagram.fkm_goodman`: `(1, inf] ↦ 0`, `(-inf, 0] ↦ M`, `(0, 1] ↦ M2`. -/
def goodman (M M2 : α) : List (Seg α) :=
  [⟨fin 1.0, pinf, 0.0⟩, ⟨ninf, fin 0.0, M⟩, ⟨fin 0.0, fin 1.0, M2⟩]

/-- `HaighDiagram.five_segment`. -/
def fiveSegment (M0 M1 M2 M3 M4 R12 R23 : α) : List (Seg α) :=
  [⟨fin 1.0, pinf, M4⟩, ⟨ninf, fin 0.0, M0⟩, ⟨fin 0.0, fin R12, M1⟩, ⟨fin R12, fin R23, M2⟩,
   ⟨fin R23, fin 1.0, M3⟩]

/-! ### Matrix interface: re-binning of the transformed ranges -/

/-- `np.linspace(0, mx, n+1)`: `i * (mx / n)` with the last break set to `mx`. -/
def linspace0 [NatCast α] (mx : α) (n : Nat) : List α :=
  (List.range (n + 1)).map fun i => if i = n then mx else (i : α) * (mx / (n : α))

/-- `sum_intervals`: cycles whose range lies in `(l, r]`, resp. `[0, r]` for the first class. -/
def classSum (l r : α) (items : List (α × α)) : α :=
  (items.filter fun it => (if l ≤ 0.0 ∧ 0.0 ≤ l then decide (l ≤ it.1) else decide (l < it.1)) && decide (it.1 ≤ r)).foldl
    (fun acc it => acc + it.2) 0.0

/-- The class sums for consecutive breaks `e₀ e₁ … eₙ`. -/
def rebin : List α → List (α × α) → List α
  | l :: r :: es, items => classSum l r items :: rebin (r :: es) items
  | _, _ => []

end PylifeVerif.Meanstress
