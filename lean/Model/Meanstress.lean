/-
C12 — mean stress transformation along the iso-damage lines of a Haigh diagram.

Hand-written executable model of `pylife/strength/meanstress.py`
(`HaighDiagram.transform`, `_SegmentTransformer`, `HaighDiagram.fkm_goodman`, `HaighDiagram.five_segment`,
`MeanstressTransformMatrix._rebin_results`) and of the `R`/`amplitude` accessors of
`load_collective.py` / `load_histogram.py` as far as the transformation uses them.

Generic in the carrier: the driver runs it at `Float` (IEEE infinities are mapped to the constructors
of `ExtR` at the protocol boundary), the proofs at a linearly ordered field.  The order of the
floating-point operations is the order of the Python expressions, so that `Float` results are
bit-identical to numpy's.

The model follows the code *after* the repairs (all committed in the repo) 1ef2d1a
(the segment `(1, inf]` gets the sort key `-inf` instead of `-1`; see `segKey`),
c28a67e (`load_collective.R`: an upper load `-0.0` counts as `+0.0`; see `cycR`),
ab50530 and ef4f38d, which supersedes it (the matrix accessor pairs transformed ranges and counts by label for
every order of the index levels; see `matrixTransform`), 9e46386
(`M2 = M/3` without writing into the caller's parameter frame; value unchanged, see `goodmanDefault`) and
3b0f832 (`HaighDiagram.five_segment` builds the segments row by row: slopes and `R12` / `R23` of one parameter row
stay together; the model is per cycle and sees the segments of its own diagram row).
-/
import Model.Num

namespace PylifeVerif.Meanstress

/-- An R value as `_SegmentTransformer` keeps it in a float column. -/
inductive ExtR (α : Type) where
  | fin (r : α)
  | pinf
  | ninf
  | nan
  deriving Repr

/-- One segment of the Haigh diagram: the `pd.Interval(lo, hi)` of the `R` index and its slope. -/
structure Seg (α : Type) where
  lo : ExtR α
  hi : ExtR α
  M : α

/-- A cycle as kept in `transformed_cycles`: amplitude and R. -/
structure Cyc (α : Type) where
  amp : α
  R : ExtR α

variable {α : Type} [Add α] [Sub α] [Mul α] [Div α] [Neg α] [OfScientific α]
  [LT α] [LE α] [DecidableLT α] [DecidableLE α]

namespace ExtR

/-- IEEE `a ≤ b` on the extended values (`nan` compares false). -/
def le : ExtR α → ExtR α → Bool
  | nan, _ => false
  | _, nan => false
  | ninf, _ => true
  | _, pinf => true
  | fin a, fin b => decide (a ≤ b)
  | fin _, ninf => false
  | pinf, fin _ => false
  | pinf, ninf => false

/-- IEEE `a < b`. -/
def lt : ExtR α → ExtR α → Bool
  | nan, _ => false
  | _, nan => false
  | pinf, _ => false
  | _, ninf => false
  | ninf, _ => true
  | fin a, fin b => decide (a < b)
  | fin _, pinf => true

/-- `x == 1.0` -/
def isOne : ExtR α → Bool
  | fin r => decide (r ≤ 1.0 ∧ 1.0 ≤ r)
  | _ => false

end ExtR

open ExtR

/-- `fake_meanstress(R) = (1+R)/(1-R)` evaluated in IEEE arithmetic: `nan` at `±inf`. -/
def fake : ExtR α → ExtR α
  | fin r => fin ((1.0 + r) / (1.0 - r))
  | _ => nan

/-- `IntervalIndex.mid = 0.5 * (left + right)`. -/
def mid : ExtR α → ExtR α → ExtR α
  | fin a, fin b => fin (0.5 * (a + b))
  | nan, _ => nan
  | _, nan => nan
  | pinf, ninf => nan
  | ninf, pinf => nan
  | pinf, _ => pinf
  | _, pinf => pinf
  | ninf, _ => ninf
  | _, ninf => ninf

/-- Sort key of a segment in `_distance_from_R_goal`: `fake_meanstress(mid).fillna(-1.0)`;
(repaired code) `-inf` where `mid == +inf`, i.e. for the segment beyond `R = 1`. -/
def segKey (s : Seg α) : ExtR α :=
  match mid s.lo s.hi with
  | pinf => ninf
  | m => match fake m with
    | nan => fin (-1.0)
    | k => k

/-- `meanstress_goal`. -/
def goalKey : ExtR α → ExtR α
  | ninf => fin (-1.0)
  | g => fake g

/-- Stable insertion (ascending by key): `x` goes in front of the first element whose key is not smaller. -/
def insertAsc (x : Seg α) : List (Seg α) → List (Seg α)
  | [] => [x]
  | y :: ys => if ExtR.lt (segKey y) (segKey x) then y :: insertAsc x ys else x :: y :: ys

/-- Stable insertion (descending by key). -/
def insertDesc (x : Seg α) : List (Seg α) → List (Seg α)
  | [] => [x]
  | y :: ys => if ExtR.lt (segKey x) (segKey y) then y :: insertDesc x ys else x :: y :: ys

/-- `distances[distances < 0].sort_values(ascending=True)` (stable for the ≤ 16 segments of a diagram). -/
def segsLeft (D : List (Seg α)) (g : ExtR α) : List (Seg α) :=
  (D.filter fun s => ExtR.lt (segKey s) (goalKey g)).foldr insertAsc []

/-- `distances[distances > 0].sort_values(ascending=False)`. -/
def segsRight (D : List (Seg α)) (g : ExtR α) : List (Seg α) :=
  (D.filter fun s => ExtR.lt (goalKey g) (segKey s)).foldr insertDesc []

/-- `segments_containing_R_goal`: right-closed membership, if there is none left-closed membership. -/
def segsContaining (D : List (Seg α)) (g : ExtR α) : List (Seg α) :=
  let c := D.filter fun s => ExtR.lt s.lo g && ExtR.le g s.hi
  if c.isEmpty then D.filter fun s => ExtR.le s.lo g && ExtR.lt g s.hi else c

/-- `push_over_flipping_point`. -/
def push (R g : ExtR α) : ExtR α :=
  match R with
  | ninf => if ExtR.lt (fin 1.0) g then pinf else ninf
  | pinf => if ExtR.lt g (fin 1.0) then ninf else pinf
  | r => r

/-- `fillna(0.0)` on a computed value (`t ≤ t` fails exactly for an IEEE NaN). -/
def fillna0 (t : α) : α := if t ≤ t then t else 0.0

/-- `transformed_amplitude` for one cycle; `g` is the goal after `1.0 ↦ -inf`. -/
def transAmp (M : α) (c : Cyc α) (g : ExtR α) : α :=
  match c.R with
  | pinf => 0.0
  | nan => 0.0
  | R =>
    let mean : α := match R with
      | fin r => if r ≤ 1.0 ∧ 1.0 ≤ r then -c.amp else c.amp * (1.0 + r) / (1.0 - r)
      | _ => -c.amp
    match g with
    | ninf => fillna0 ((c.amp + M * mean) / (1.0 - M))
    | fin q => fillna0 ((1.0 - q) * (c.amp + M * mean) / (1.0 - q + M * (1.0 + q)))
    | _ => 0.0

/-- `transform_cycles_in_interval(interval, R_goal)` seen by one cycle whose diagram row has this segment. -/
def step (s : Seg α) (g : ExtR α) (c : Cyc α) : Cyc α :=
  let Rp := push c.R g
  if ExtR.le s.lo Rp && ExtR.le Rp s.hi then
    let g' := if g.isOne then ninf else g
    ⟨transAmp s.M c g', g'⟩
  else c

/-- `interval.right if interval.right < 1.0 else interval.left` -/
def leftBoundary (s : Seg α) : ExtR α := if ExtR.lt s.hi (fin 1.0) then s.hi else s.lo

/-- `HaighDiagram.transform` for one cycle. -/
def transform (D : List (Seg α)) (g : ExtR α) (c : Cyc α) : Cyc α :=
  let c := (segsLeft D g).foldl (fun c s => step s (leftBoundary s) c) c
  let c := (segsRight D g).foldl (fun c s => step s s.lo c) c
  (segsContaining D g).foldl (fun c s => step s g c) c

/-- `((1+R)/(1-R)).fillna(-1.0)` times the amplitude: the `mean` column of the result. -/
def resultMean (c : Cyc α) : α :=
  match c.R with
  | fin r => c.amp * fillna0' ((1.0 + r) / (1.0 - r))
  | _ => c.amp * (-1.0)
where fillna0' (t : α) : α := if t ≤ t then t else -1.0

/-- `HaighDiagram.fkm_goodman`: `(1, inf] ↦ 0`, `(-inf, 0] ↦ M`, `(0, 1] ↦ M2`. -/
def goodman (M M2 : α) : List (Seg α) :=
  [⟨fin 1.0, pinf, 0.0⟩, ⟨ninf, fin 0.0, M⟩, ⟨fin 0.0, fin 1.0, M2⟩]

/-- `HaighDiagram.fkm_goodman` for a parameter set without `M2`: `M2 = M / 3.0`. -/
def goodmanDefault (M : α) : List (Seg α) := goodman M (M / 3.0)

/-- `HaighDiagram.five_segment`. -/
def fiveSegment (M0 M1 M2 M3 M4 R12 R23 : α) : List (Seg α) :=
  [⟨fin 1.0, pinf, M4⟩, ⟨ninf, fin 0.0, M0⟩, ⟨fin 0.0, fin R12, M1⟩, ⟨fin R12, fin R23, M2⟩,
   ⟨fin R23, fin 1.0, M3⟩]

/-! ### Frames: the cycle `(amplitude, R)` of a row, and the row of a cycle

`ext` classifies a carrier value as `HaighDiagram.transform` sees it in a float column (`Float`: IEEE infinities
and NaN go to the constructors of `ExtR`; `ℝ`: `ExtR.fin`). -/

/-- The three ways a cycle is handed over: DataFrame with `range`/`mean`, DataFrame with `from`/`to`, histogram
(class mid of the range resp. `|from - to|` of the class mids, class mid of the mean). -/
inductive Iface where
  | rm
  | ft
  | h
  deriving Repr, DecidableEq

/-- `x != x` -/
def isNaN (x : α) : Bool := !(decide (x ≤ x))

/-- `load_collective.R = (lower / (upper + 0.0)).fillna(0.0)` (after repo commit c28a67e: an upper
load of either signed zero is `+0.0`): division by zero spelled out, so that it means the same at every carrier. -/
def cycR (ext : α → ExtR α) (lower upper : α) : ExtR α :=
  if upper ≤ 0.0 ∧ 0.0 ≤ upper then
    if lower < 0.0 then ninf else if 0.0 < lower then pinf else fin 0.0
  else match ext (lower / upper) with
    | nan => fin 0.0
    | r => r

/-- `np.abs(a - b)` (for `a`, `b` not NaN). -/
def absDiff (a b : α) : α := if a < b then b - a else a - b

/-- The cycle `(amplitude, R)` as the accessors of `load_collective.py` / `load_histogram.py` compute it. -/
def mkCycle (ext : α → ExtR α) (kind : Iface) (x y : α) : Cyc α :=
  match kind with
  | .h =>
    let amp := x / 2.0
    ⟨amp, cycR ext (y - amp) (y + amp)⟩
  | k =>
    let ft : α × α := if k = .rm then (y - x / 2.0, y + x / 2.0) else (x, y)
    let fr := ft.1
    let to := ft.2
    -- DataFrame.max/min(axis=1) skip NaN
    let upper := if isNaN fr then to else if isNaN to then fr else if fr < to then to else fr
    let lower := if isNaN fr then to else if isNaN to then fr else if fr < to then fr else to
    ⟨absDiff fr to / 2.0, cycR ext lower upper⟩

/-- The row (`range`, `mean`) of the result frame for a transformed cycle. -/
def rowOf (c : Cyc α) : α × α := (2.0 * c.amp, resultMean c)

/-- One pass of `HaighDiagram.transform` on a row; the result row is (`range`, `mean`). -/
def transformFrame (ext : α → ExtR α) (D : List (Seg α)) (g : ExtR α) (kind : Iface) (xy : α × α) : α × α :=
  rowOf (transform D g (mkCycle ext kind xy.1 xy.2))

/-- Successive transforms `hd.transform(hd.transform(frame, g₁), g₂) …`: every result frame is a `range`/`mean` frame. -/
def transformChain (ext : α → ExtR α) (D : List (Seg α)) (kind : Iface) (goals : List (ExtR α)) (xy : α × α) : α × α :=
  match goals with
  | [] => xy
  | g :: gs => gs.foldl (fun r g => transformFrame ext D g .rm r) (transformFrame ext D g kind xy)

/-- `res.load_collective.amplitude` of a (`range`, `mean`) row. -/
def frameAmp (xy : α × α) : α := absDiff (xy.2 - xy.1 / 2.0) (xy.2 + xy.1 / 2.0) / 2.0

/-! ### Matrix interface: re-binning of the transformed ranges -/

/-- `np.linspace(0, mx, n+1)`: `i * (mx / n)` with the last break set to `mx`. -/
def linspace0 [NatCast α] (mx : α) (n : Nat) : List α :=
  (List.range (n + 1)).map fun i => if i = n then mx else (i : α) * (mx / (n : α))

/-- `sum_intervals`: cycles whose range lies in `(l, r]`, resp. `[0, r]` for the first class. -/
def classSum (l r : α) (items : List (α × α)) : α :=
  (items.filter fun it => (if l ≤ 0.0 ∧ 0.0 ≤ l then decide (l ≤ it.1) else decide (l < it.1)) && decide (it.1 ≤ r)).foldl
    (fun acc it => acc + it.2) 0.0

/-- The class sums for consecutive breaks `e₀ e₁ … eₙ`. -/
def rebin : List α → List (α × α) → List α
  | l :: r :: es, items => classSum l r items :: rebin (r :: es) items
  | _, _ => []

/-- One class of a rainflow matrix as `series.meanstress_transform.fkm_goodman` sees it: the key of the remaining index
levels (`node`), the Haigh diagram of that key, class mids (`x` = range, `y` = mean) and the number of cycles. -/
structure Cell (α : Type) where
  node : Nat
  D : List (Seg α)
  x : α
  y : α
  count : α

/-- (transformed range, count) of every class. -/
def matItems (ext : α → ExtR α) (g : ExtR α) (cells : List (Cell α)) : List (α × α) :=
  cells.map fun c => ((transformFrame ext c.D g .h (c.x, c.y)).1, c.count)

/-- `ranges.max()` -/
def maxRange (items : List (α × α)) : α :=
  items.foldl (fun m it => if m < it.1 then it.1 else m) (items.headD (0.0, 0.0)).1

/-- `resulting_intervals`: `bincount = int(np.ceil(ranges_max / binsize))` (`ceilNat`), breaks `np.linspace(0, ranges_max, bincount+1)`;
one set of breaks for all keys of the remaining levels. -/
def matBreaks [NatCast α] (ext : α → ExtR α) (ceilNat : α → Nat) (g : ExtR α) (binsize : α) (cells : List (Cell α)) : List α :=
  let mx := maxRange (matItems ext g cells)
  linspace0 mx (ceilNat (mx / binsize))

/-- `MeanstressTransformMatrix.fkm_goodman` / `_rebin_results`: the class sums of the key `node`
(`aggregate_on_projection`); a matrix without remaining levels has the single key `0`. -/
def matrixTransform [NatCast α] (ext : α → ExtR α) (ceilNat : α → Nat) (g : ExtR α) (binsize : α) (cells : List (Cell α))
    (node : Nat) : List α :=
  rebin (matBreaks ext ceilNat g binsize cells) (matItems ext g (cells.filter fun c => c.node == node))

end PylifeVerif.Meanstress
