import Model.Num
import Model.Rainflow.Turns
import Model.Rainflow.Detectors
import Model.Rainflow.Spec
import Model.HCM
import Model.FkmNonlinear
import Model.Woehler
import Model.Collective
