import Model.Notch
import Driver.Util
/-
Line protocol for the notch-law model (`Model/Notch.lean`) at `Float`.

C07 (binned law):
  c07.edges  n maxL m                         -> m × hex          upper class edges `(i / n) * maxL`, i = 1..m
  c07.lookup m <m loads> <m values> x…        -> per x: hex | ValueError       single table, one answer per load
  c07.pos    m <m loads> x…                   -> per x: position (np.searchsorted, 0-based)
  c07.series m <m loads> <m values> x…        -> per x: hex | ValueError       Series on a single table (NaN -> 0)
  c07.multi  m p <m·p loads> <m·p values> x…  -> ValueError | p × hex     per-point table (class-major rows), every
                                                 point in its own column; ValueError unless exactly p loads
  c07.multifirst m p <m·p loads> <m·p values> x… -> ValueError | hex…     the same as coded before the repair (class of
                                                 the first point for all points)

C06 (defining functions / reference roots); kind ∈ np (Neuber primary), ns (Neuber secondary),
sp (Seeger-Beste primary), ss (Seeger-Beste secondary):
  c06.F    kind E K n Kp s L   -> hex(F(s, L)) hex(a) hex(b) hex(u) hex(M)
                                  Neuber: a = strain term, b = Neuber term (F = a − b), u = 0, M = 1
                                  Seeger-Beste: a = strain term, b = middle term · Neuber term (F = a / b − 1), u = u-term,
                                  M = middle term
  c06.strain kind E K n Kp s L -> hex   `law.strain(s, L)` (kinds np, sp) resp. `law.strain_secondary_branch(s, L)` (ns, ss)
  c06.root kind E K n Kp L     -> hex   root in σ of F(σ, L) by bisection on [L/K_p, L] (200 halvings)
  c06.load kind E K n Kp s     -> hex   root in L of F(s, L) by bisection on [s, K_p·s]
-/
namespace PylifeVerif.Driver.NotchD
open PylifeVerif PylifeVerif.Notch PylifeVerif.Driver

instance : NatCast Float := ⟨Float.ofNat⟩

def showOpt : Option Float → String
  | some x => floatHex x
  | none => "ValueError"

def fNeg (x : Float) : Float := -x

/-- the defining function of the given kind -/
def defining (kind : String) (m : Mat Float) : Option (Float → Float → Float) :=
  match kind with
  | "np" => some (stressImplicit m)
  | "ns" => some (stressSecImplicit m)
  | "sp" => some (sbStressImplicit m)
  | "ss" => some (sbStressSecImplicit m)
  | _ => none

/-- Is the defining function odd (Neuber) or even (Seeger-Beste quotient form) under (σ, L) ↦ (−σ, −L)?  Only used
to orient the bisection for negative arguments; the function is evaluated at the actual (negative) arguments. -/
def isNeuber (kind : String) : Bool := kind = "np" ∨ kind = "ns"

/-- root in σ for load `L` on `[|L|/K_p, |L|]` (sign of `L` restored) -/
def rootStress (kind : String) (m : Mat Float) (F : Float → Float → Float) (L : Float) : Float :=
  if L == 0.0 then 0.0
  else if L > 0.0 then bisect (fun t => F t L) 200 (L / m.Kp) L
  else
    let a := -L
    let t := bisect (fun t => if isNeuber kind then -(F (-t) L) else F (-t) L) 200 (a / m.Kp) a
    fNeg t

/-- root in L for stress `s` on `[|s|, K_p·|s|]`; `F(s, ·)` is decreasing there, so bisect on `−F`. -/
def rootLoad (kind : String) (m : Mat Float) (F : Float → Float → Float) (s : Float) : Float :=
  if s == 0.0 then 0.0
  else if s > 0.0 then bisect (fun t => -(F s t)) 200 s (m.Kp * s)
  else
    let a := -s
    let t := bisect (fun t => if isNeuber kind then F s (-t) else -(F s (-t))) 200 a (m.Kp * a)
    fNeg t

/-- `c07.multi` (repaired per-point look-up) / `c07.multifirst` (class of the first point for all points, as coded
before the repair) on a class-major per-point table; any number of loads may follow the table. -/
def multi (first : Bool) (m p : String) (rest : List String) : Option String := do
  let m ← m.toNat?
  let p ← p.toNat?
  let loads ← parseFloats (rest.take (m * p))
  let vals ← parseFloats ((rest.drop (m * p)).take (m * p))
  let xs ← parseFloats (rest.drop (2 * m * p))
  if loads.length ≠ m * p ∨ vals.length ≠ m * p then none
  else
    let lrows := splitLens (List.replicate m p) loads
    let vrows := splitLens (List.replicate m p) vals
    let r := if first then lookupMultiFirst (lrows.zip vrows) xs else lookupMulti p (lrows.zip vrows) xs
    match r with
    | some r => some (joinFloats r)
    | none => some "ValueError"

def handle : List String → Option String
  | ["c07.edges", n, maxL, m] => do
    let n ← n.toNat?
    let m ← m.toNat?
    let maxL ← parseFloat? maxL
    some (joinFloats ((List.range m).map fun k => edge n maxL (k + 1)))
  | "c07.lookup" :: m :: rest => do
    let m ← m.toNat?
    let loads ← parseFloats (rest.take m)
    let vals ← parseFloats ((rest.drop m).take m)
    let xs ← parseFloats (rest.drop (2 * m))
    if loads.length ≠ m ∨ vals.length ≠ m then none
    else some (" ".intercalate (xs.map fun x => showOpt (lookup (loads.zip vals) x)))
  | "c07.pos" :: m :: rest => do
    let m ← m.toNat?
    let loads ← parseFloats (rest.take m)
    let xs ← parseFloats (rest.drop m)
    some (joinNats (xs.map fun x => searchsorted loads (absM x)))
  | "c07.series" :: m :: rest => do
    let m ← m.toNat?
    let loads ← parseFloats (rest.take m)
    let vals ← parseFloats ((rest.drop m).take m)
    let xs ← parseFloats (rest.drop (2 * m))
    if loads.length ≠ m ∨ vals.length ≠ m then none
    else some (" ".intercalate (xs.map fun x => showOpt (lookupSeries (loads.zip vals) x)))
  | "c07.multi" :: m :: p :: rest => multi false m p rest
  | "c07.multifirst" :: m :: p :: rest => multi true m p rest
  | ["c06.F", kind, e, k, n, kp, s, l] => do
    let m : Mat Float := { E := ← parseFloat? e, K := ← parseFloat? k, n := ← parseFloat? n, Kp := ← parseFloat? kp }
    let s ← parseFloat? s
    let l ← parseFloat? l
    let F ← defining kind m
    let (a, b, u, mid) :=
      match kind with
      | "np" => (roStrain m s, neuberStrain m s l, 0.0, 1.0)
      | "ns" => (roDeltaStrain m s, neuberStrainSec m s l, 0.0, 1.0)
      | "sp" => (roStrain m s, middleTerm m s l * neuberStrain m s l, uTerm m s l, middleTerm m s l)
      | _ => (roDeltaStrain m s, middleTerm m s l * neuberStrainSec m s l, uTerm m s l, middleTerm m s l)
    some s!"{floatHex (F s l)} {floatHex a} {floatHex b} {floatHex u} {floatHex mid}"
  | ["c06.strain", kind, e, k, n, kp, s, l] => do
    let m : Mat Float := { E := ← parseFloat? e, K := ← parseFloat? k, n := ← parseFloat? n, Kp := ← parseFloat? kp }
    let s ← parseFloat? s
    let l ← parseFloat? l
    match kind with
    | "np" | "sp" => some (floatHex (lawStrain m s l))
    | "ns" | "ss" => some (floatHex (lawStrainSec m s l))
    | _ => none
  | ["c06.root", kind, e, k, n, kp, l] => do
    let m : Mat Float := { E := ← parseFloat? e, K := ← parseFloat? k, n := ← parseFloat? n, Kp := ← parseFloat? kp }
    let F ← defining kind m
    some (floatHex (rootStress kind m F (← parseFloat? l)))
  | ["c06.load", kind, e, k, n, kp, s] => do
    let m : Mat Float := { E := ← parseFloat? e, K := ← parseFloat? k, n := ← parseFloat? n, Kp := ← parseFloat? kp }
    let F ← defining kind m
    some (floatHex (rootLoad kind m F (← parseFloat? s)))
  | _ => none

end PylifeVerif.Driver.NotchD

namespace PylifeVerif.Driver

/-- protocol handler of the notch-law model (ops `c06.*`, `c07.*`) -/
def handleNotch : List String → Option String := NotchD.handle

end PylifeVerif.Driver
