import Model.Mesh
import Driver.Util
namespace PylifeVerif.Driver
open PylifeVerif.Mesh

/-- Parse `k` groups of `(node elem f₁ … f_m)` into rows. -/
def parseMeshRows (m : Nat) : List String → Option (List (Int × Int × List Float))
  | [] => some []
  | n :: e :: rest => do
    let n ← parseInt? n
    let e ← parseInt? e
    let fs ← parseFloats (rest.take m)
    if fs.length ≠ m then none else
    let tl ← parseMeshRows m (rest.drop m)
    some ((n, e, fs) :: tl)
  | _ => none
termination_by l => l.length
decreasing_by simp [List.length_drop]; omega

def toMRow : Int × Int × List Float → MRow Float
  | (n, e, fs) => ⟨n, e, ⟨fs.getD 0 0, fs.getD 1 0, fs.getD 2 0⟩, fs.getD 3 0⟩

def showV3 (v : V3 Float) : String := s!"{floatHex v.x},{floatHex v.y},{floatHex v.z}"

def v3s : List Float → List (V3 Float)
  | x :: y :: z :: rest => ⟨x, y, z⟩ :: v3s rest
  | _ => []

def xyPairs : List Float → List (Float × Float)
  | x :: y :: r => (x, y) :: xyPairs r
  | _ => []

/-- `n` consecutive pieces of length `k`. -/
def meshChunks (k : Nat) : Nat → List Float → List (List Float)
  | 0, _ => []
  | n + 1, xs => xs.take k :: meshChunks k n (xs.drop k)

/-- 12 coordinates (4 vertices) followed by 4 values. -/
def tetOf (xs : List Float) : Option (Tet Float) :=
  match v3s (xs.take 12), xs.drop 12 with
  | [p0, p1, p2, p3], [f0, f1, f2, f3] => some ⟨⟨p0, f0⟩, ⟨p1, f1⟩, ⟨p2, f2⟩, ⟨p3, f3⟩⟩
  | _, _ => none

/-- `x0 y0 x1 y1 x2 y2 f0 f1 f2`. -/
def triOf : List Float → Option (Tri Float)
  | [x0, y0, x1, y1, x2, y2, f0, f1, f2] => some ⟨x0, y0, x1, y1, x2, y2, f0, f1, f2⟩
  | _ => none

def showOptFloats (l : List (Option Float)) : String :=
  " ".intercalate (l.map fun o => match o with | some v => floatHex v | none => "nan")

/-- Ops of the C19 slice (all start with `m19`):
* `m19 g3d (node elem x y z v)*`      → `node:gx,gy,gz …` in the order of `Gradient3D.gradient_of`
* `m19 lsq (node elem x y z v)*`      → the same for `Gradient.gradient_of` (sorted node ids)
* `m19 hot <frac> <cap|-> (node elem v)*` → one label per row
* `m19 bary3 <12 coords> <4 values> (x y z)*` / `m19 bary2 <6 coords> <3 values> (x y)*` → `mapMesh3` / `mapMesh2` on ONE simplex (`nan` outside: a weight below `-1e-9`; Qhull's own tolerance is external)
* `m19 map3 <n> (<12 coords> <4 values>)ⁿ (x y z)*` / `m19 map2 <n> (<6 coords> <3 values>)ⁿ (x y)*` → `mapMesh3` / `mapMesh2` on a triangulation of `n` simplices
* `m19 block nx ny nz`                → the rows `node elem …` of `blockRows` with 0-based grid numbers as ids
* `m19 surf (node elem)*`             → `node:0|1 …` sorted node ids (1 = fewer than 8 elements meet)
* `m19 inc nx ny nz`                  → `incidentCount` of every grid node, x fastest (no longer sent by harness/c19.py: the
  surface cases use `m19 block` + `m19 surf`) -/
def handleMesh : List String → Option String
  | "m19" :: "g3d" :: rest => do
    let rows ← parseMeshRows 4 rest
    let out := gradient3D (rows.map toMRow)
    some (" ".intercalate (out.map fun (id, g) => match g with
      | some g => s!"{id}:{showV3 g}"
      | none => s!"{id}:nan"))
  | "m19" :: "lsq" :: rest => do
    let rows ← parseMeshRows 4 rest
    let out := gradientLsq 1e-12 Nat.toFloat (rows.map toMRow)
    some (" ".intercalate (out.map fun (id, g) => s!"{id}:{showV3 g}"))
  | "m19" :: "hot" :: frac :: cap :: rest => do
    let frac ← parseFloat? frac
    let cap ← if cap == "-" then some none else (parseFloat? cap).map some
    let rows ← parseMeshRows 1 rest
    let labels := hotspot (rows.map fun (n, e, fs) => (⟨n, e, fs.getD 0 0⟩ : HRow Float)) frac cap
    some (joinNats labels)
  | "m19" :: "bary3" :: rest => do
    let xs ← parseFloats rest
    if xs.length < 16 ∨ (xs.length - 16) % 3 ≠ 0 then none else
    let t ← tetOf (xs.take 16)
    some (showOptFloats ((v3s (xs.drop 16)).map (mapMesh3 1e-9 [t])))
  | "m19" :: "bary2" :: rest => do
    let xs ← parseFloats rest
    if xs.length < 9 ∨ (xs.length - 9) % 2 ≠ 0 then none else
    let t ← triOf (xs.take 9)
    some (showOptFloats ((xyPairs (xs.drop 9)).map fun (px, py) => mapMesh2 1e-9 [t] px py))
  | "m19" :: "map3" :: n :: rest => do
    let n ← n.toNat?
    let xs ← parseFloats rest
    if xs.length < 16 * n ∨ (xs.length - 16 * n) % 3 ≠ 0 then none else
    let tets ← (meshChunks 16 n xs).mapM tetOf
    some (showOptFloats ((v3s (xs.drop (16 * n))).map (mapMesh3 1e-9 tets)))
  | "m19" :: "map2" :: n :: rest => do
    let n ← n.toNat?
    let xs ← parseFloats rest
    if xs.length < 9 * n ∨ (xs.length - 9 * n) % 2 ≠ 0 then none else
    let tris ← (meshChunks 9 n xs).mapM triOf
    some (showOptFloats ((xyPairs (xs.drop (9 * n))).map fun (px, py) => mapMesh2 1e-9 tris px py))
  | ["m19", "block", nx, ny, nz] => do
    let nx ← nx.toNat?
    let ny ← ny.toNat?
    let nz ← nz.toNat?
    some (" ".intercalate ((blockRows nx ny nz (fun n => (n : Int)) (fun e => (e : Int))).map fun (n, e) => s!"{n} {e}"))
  | "m19" :: "surf" :: rest => do
    let rows ← parseMeshRows 0 rest
    let out := surfaceFlags (rows.map fun (n, e, _) => (n, e))
    some (" ".intercalate (out.map fun (id, b) => s!"{id}:{if b then 1 else 0}"))
  | ["m19", "inc", nx, ny, nz] => do
    let nx ← nx.toNat?
    let ny ← ny.toNat?
    let nz ← nz.toNat?
    let out := (List.range (nz + 1)).flatMap fun k => (List.range (ny + 1)).flatMap fun j =>
      (List.range (nx + 1)).map fun i => incidentCount nx ny nz i j k
    some (joinNats out)
  | _ => none

end PylifeVerif.Driver
