import Model.Mesh
import Driver.Util
namespace PylifeVerif.Driver
open PylifeVerif.Mesh

/-- Parse `k` groups of `(node elem f₁ … f_m)` into rows. -/
def parseMeshRows (m : Nat) : List String → Option (List (Int × Int × List Float))
  | [] => some []
  | n :: e :: rest => do
    let n ← parseInt? n
    let e ← parseInt? e
    let fs ← parseFloats (rest.take m)
    if fs.length ≠ m then none else
    let tl ← parseMeshRows m (rest.drop m)
    some ((n, e, fs) :: tl)
  | _ => none
termination_by l => l.length
decreasing_by simp [List.length_drop]; omega

def toMRow : Int × Int × List Float → MRow Float
  | (n, e, fs) => ⟨n, e, ⟨fs.getD 0 0, fs.getD 1 0, fs.getD 2 0⟩, fs.getD 3 0⟩

def showV3 (v : V3 Float) : String := s!"{floatHex v.x},{floatHex v.y},{floatHex v.z}"

def v3s : List Float → List (V3 Float)
  | x :: y :: z :: rest => ⟨x, y, z⟩ :: v3s rest
  | _ => []

/-- Ops of the C19 slice (all start with `m19`):
* `m19 g3d (node elem x y z v)*`      → `node:gx,gy,gz …` in the order of `Gradient3D.gradient_of`
* `m19 lsq (node elem x y z v)*`      → the same for `Gradient.gradient_of` (sorted node ids)
* `m19 hot <frac> <cap|-> (node elem v)*` → one label per row
* `m19 bary3 <12 coords> <4 values> (x y z)*` / `m19 bary2 <6 coords> <3 values> (x y)*` → interpolated values (`nan` when a weight is below `-1e-9`: outside; Qhull's own tolerance is external)
* `m19 surf (node elem)*`             → `node:0|1 …` sorted node ids (1 = fewer than 8 elements meet)
* `m19 inc nx ny nz`                  → `incidentCount` of every grid node, x fastest -/
def handleMesh : List String → Option String
  | "m19" :: "g3d" :: rest => do
    let rows ← parseMeshRows 4 rest
    let out := gradient3D (rows.map toMRow)
    some (" ".intercalate (out.map fun (id, g) => match g with
      | some g => s!"{id}:{showV3 g}"
      | none => s!"{id}:nan"))
  | "m19" :: "lsq" :: rest => do
    let rows ← parseMeshRows 4 rest
    let out := gradientLsq Nat.toFloat (rows.map toMRow)
    some (" ".intercalate (out.map fun (id, g) => s!"{id}:{showV3 g}"))
  | "m19" :: "hot" :: frac :: cap :: rest => do
    let frac ← parseFloat? frac
    let cap ← if cap == "-" then some none else (parseFloat? cap).map some
    let rows ← parseMeshRows 1 rest
    let labels := hotspot (rows.map fun (n, e, fs) => (⟨n, e, fs.getD 0 0⟩ : HRow Float)) frac cap
    some (joinNats labels)
  | "m19" :: "bary3" :: rest => do
    let xs ← parseFloats rest
    if xs.length < 16 ∨ (xs.length - 16) % 3 ≠ 0 then none else
    match v3s (xs.take 12), xs.drop 12 |>.take 4 with
    | [p0, p1, p2, p3], [f0, f1, f2, f3] =>
      let pts := v3s (xs.drop 16)
      some (" ".intercalate (pts.map fun p =>
        let w := baryWeights3 p0 p1 p2 p3 p
        if w.1 < -1e-9 ∨ w.2.x < -1e-9 ∨ w.2.y < -1e-9 ∨ w.2.z < -1e-9 then "nan"
        else floatHex (baryInterp3 p0 p1 p2 p3 f0 f1 f2 f3 p)))
    | _, _ => none
  | "m19" :: "bary2" :: rest => do
    let xs ← parseFloats rest
    if xs.length < 9 ∨ (xs.length - 9) % 2 ≠ 0 then none else
    match xs.take 9 with
    | [x0, y0, x1, y1, x2, y2, f0, f1, f2] =>
      let rec pts : List Float → List (Float × Float)
        | x :: y :: r => (x, y) :: pts r
        | _ => []
      some (" ".intercalate ((pts (xs.drop 9)).map fun (px, py) =>
        let w := baryWeights2 x0 y0 x1 y1 x2 y2 px py
        if w.1 < -1e-9 ∨ w.2.1 < -1e-9 ∨ w.2.2 < -1e-9 then "nan"
        else floatHex (baryInterp2 x0 y0 x1 y1 x2 y2 f0 f1 f2 px py)))
    | _ => none
  | "m19" :: "surf" :: rest => do
    let rows ← parseMeshRows 0 rest
    let out := surfaceFlags (rows.map fun (n, e, _) => (n, e))
    some (" ".intercalate (out.map fun (id, b) => s!"{id}:{if b then 1 else 0}"))
  | ["m19", "inc", nx, ny, nz] => do
    let nx ← nx.toNat?
    let ny ← ny.toNat?
    let nz ← nz.toNat?
    let out := (List.range (nz + 1)).flatMap fun k => (List.range (ny + 1)).flatMap fun j =>
      (List.range (nx + 1)).map fun i => incidentCount nx ny nz i j k
    some (joinNats out)
  | _ => none

end PylifeVerif.Driver
