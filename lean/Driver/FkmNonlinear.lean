import Model.FkmNonlinear
import Driver.Util
/-
Line protocol for the C09 model (`Model/FkmNonlinear.lean`) at `Float`.  Ops (all prefixed `c09.`):

  c09.pramN  d1 d2 PZ PD P            -> `inf` | hex           (calc_N)
  c09.pramP  d1 d2 PZ PD (N|inf)      -> hex                   (calc_P_RAM)
  c09.pramND d1 d2 PZ PD              -> hex                   (fatigue_life_limit)
  c09.prajN  d PZ PD0 PD P            -> `inf` | hex
  c09.prajP  d PZ PD0 PD (N|inf)      -> hex
  c09.prajND d PZ PD0 PD              -> hex hex               (fatigue_life_limit, _final)
  c09.pram   group Rm E Sa Sm ea      -> hex(M_sigma) hex(P_RAM)
  c09.consts group                    -> 30 × (hex | none)
  c09.life   d1 d2 PZ PD (P closed run)*   -> early idx x nSeq nCycles infinite | D…
  c09.lifeD  (D run)*                 -> early idx x nSeq nCycles
  c09.lifeB  k n d1 d2 (PZ PD)*n (P closed run)*   -> the `c09.life` answer for point k of an n-point table
                                         (rows hysteresis-major: one row per point for every hysteresis)
  c09.gLnM   PA PL sL indep k n load…  -> hex | ValueError   (mesh, loads step-major; indep=1: node k, 0: whole mesh)
  c09.beta   PA                       -> hex   (−Φ⁻¹(PA), Φ by series / continued fraction + bisection)
  c09.getbeta PA                      -> hex | ValueError
  c09.gLn    PA PL sL load…           -> hex | ValueError
  c09.gLl    PA PL LSDs               -> hex | ValueError
  c09.gLb    PL                       -> hex | ValueError
-/
namespace PylifeVerif.Driver.C09
open PylifeVerif.FkmNl PylifeVerif.Driver

def showLife : Life Float → String
  | .finite n => floatHex n
  | .inf => "inf"

def parseLife? (s : String) : Option (Life Float) :=
  if s = "inf" then some .inf else (parseFloat? s).map .finite

def parseGroup? : String → Option Group
  | "Steel" => some .Steel
  | "SteelCast" => some .SteelCast
  | "Al_wrought" => some .AlWrought
  | _ => none

def parseRows : List String → Option (List (Row Float))
  | [] => some []
  | p :: c :: r :: rest => do
    let p ← parseFloat? p
    let r ← r.toNat?
    let rows ← parseRows rest
    some ({ P := p, closed := c = "1", run := r } :: rows)
  | _ => none

def parseDs : List String → Option (List (Float × Nat))
  | [] => some []
  | d :: r :: rest => do
    let d ← parseFloat? d
    let r ← r.toNat?
    let ds ← parseDs rest
    some ((d, r) :: ds)
  | _ => none

def showLifeResult (r : LifeResult Float) : String :=
  s!"{if r.early then 1 else 0} {r.idx} {floatHex r.x} {floatHex r.nSeq} {floatHex r.nCycles}"

def showOpt : Option Float → String
  | some x => floatHex x
  | none => "ValueError"

/-! ### a `Float` standard-normal distribution function for the reference quantile (driver only) -/

/-- density -/
def normPdf (x : Float) : Float := Float.exp (-(x * x) / 2.0) / Float.sqrt (2.0 * 3.141592653589793)

/-- Marsaglia's series `Φ(x) = 1/2 + φ(x) (x + x³/3 + x⁵/(3·5) + …)`; used for `|x| ≤ 3`. -/
def cdfSeries (x : Float) : Float := Id.run do
  let mut s := x
  let mut t := x
  for i in [1:200] do
    t := t * x * x / (2.0 * i.toFloat + 1.0)
    s := s + t
  return 0.5 + s * normPdf x

/-- upper tail `Q(z) = φ(z) / (z + 1/(z + 2/(z + 3/(z + …))))` for `z ≥ 3` (400 levels, evaluated backwards). -/
def tailCF (z : Float) : Float := Id.run do
  let mut f := z
  for j in [0:400] do
    let k := (400 - j).toFloat
    f := z + k / f
  return normPdf z / f

/-- `Φ(x)` for `x ≤ 0` with small relative error down to the far tail. -/
def normCdfNeg (x : Float) : Float :=
  if x < -3.0 then tailCF (-x) else cdfSeries x

/-- `Φ⁻¹(p)` for `0 < p ≤ 1/2` by bisection on `[-40, 0]`. -/
def normQuantileLow (p : Float) : Float := Id.run do
  let mut lo : Float := -40.0
  let mut hi : Float := 0.0
  for _ in [0:200] do
    let mid := (lo + hi) / 2.0
    if normCdfNeg mid < p then lo := mid else hi := mid
  return (lo + hi) / 2.0

def handle : List String → Option String
  | ["c09.pramN", d1, d2, pz, pd, p] => do
    let c : PramCurve Float := { d1 := ← parseFloat? d1, d2 := ← parseFloat? d2, PZ := ← parseFloat? pz, PD := ← parseFloat? pd }
    some (showLife (pramCalcN c (← parseFloat? p)))
  | ["c09.pramP", d1, d2, pz, pd, n] => do
    let c : PramCurve Float := { d1 := ← parseFloat? d1, d2 := ← parseFloat? d2, PZ := ← parseFloat? pz, PD := ← parseFloat? pd }
    some (floatHex (pramCalcPLife c (← parseLife? n)))
  | ["c09.pramND", d1, d2, pz, pd] => do
    let c : PramCurve Float := { d1 := ← parseFloat? d1, d2 := ← parseFloat? d2, PZ := ← parseFloat? pz, PD := ← parseFloat? pd }
    some (floatHex (pramLifeLimit c))
  | ["c09.prajN", d, pz, pd0, pd, p] => do
    let c : PrajCurve Float := { d := ← parseFloat? d, PZ := ← parseFloat? pz, PD0 := ← parseFloat? pd0, PD := ← parseFloat? pd }
    some (showLife (prajCalcN c (← parseFloat? p)))
  | ["c09.prajP", d, pz, pd0, pd, n] => do
    let c : PrajCurve Float := { d := ← parseFloat? d, PZ := ← parseFloat? pz, PD0 := ← parseFloat? pd0, PD := ← parseFloat? pd }
    some (floatHex (prajCalcPLife c (← parseLife? n)))
  | ["c09.prajND", d, pz, pd0, pd] => do
    let c : PrajCurve Float := { d := ← parseFloat? d, PZ := ← parseFloat? pz, PD0 := ← parseFloat? pd0, PD := ← parseFloat? pd }
    some s!"{floatHex (prajLifeLimit c)} {floatHex (prajLifeLimitFinal c)}"
  | ["c09.pram", g, rm, e, sa, sm, ea] => do
    let g ← parseGroup? g
    let rm ← parseFloat? rm
    some s!"{floatHex (mSigmaOf g rm)} {floatHex (pRAMOf g rm (← parseFloat? e) (← parseFloat? sa) (← parseFloat? sm) (← parseFloat? ea))}"
  | ["c09.consts", g] => do
    let g ← parseGroup? g
    some (" ".intercalate (((consts g : Consts Float).toList).map fun o => match o with
      | some x => floatHex x
      | none => "none"))
  | "c09.life" :: d1 :: d2 :: pz :: pd :: rest => do
    let c : PramCurve Float := { d1 := ← parseFloat? d1, d2 := ← parseFloat? d2, PZ := ← parseFloat? pz, PD := ← parseFloat? pd }
    let rows ← parseRows rest
    let r := damagePRAM c rows
    some s!"{showLifeResult r} {if isLifeInfinite c rows then 1 else 0} | {joinFloats (rows.map (rowD c))}"
  | "c09.lifeB" :: k :: n :: d1 :: d2 :: rest => do
    let k ← k.toNat?
    let n ← n.toNat?
    let d1 ← parseFloat? d1
    let d2 ← parseFloat? d2
    let cs ← parseFloats (rest.take (2 * n))
    let curves : List (PramCurve Float) := (List.range n).map fun i =>
      { d1 := d1, d2 := d2, PZ := cs.getD (2 * i) 0.0, PD := cs.getD (2 * i + 1) 0.0 }
    let rows ← parseRows (rest.drop (2 * n))
    let res := damagePRAMBatch curves rows
    let c ← curves[k]?
    let r ← res[k]?
    let mine := pointRows k (chunk n rows.length rows)
    some s!"{showLifeResult r.1} {if r.2 then 1 else 0} | {joinFloats (mine.map (rowD c))}"
  | "c09.lifeD" :: rest => do
    let ds ← parseDs rest
    some (showLifeResult (lifetimeOfDamages ds))
  | ["c09.beta", pa] => do
    some (floatHex (betaOfRoot (normQuantileLow (← parseFloat? pa))))
  | ["c09.getbeta", pa] => do
    some (showOpt (getBeta (← parseFloat? pa)))
  | "c09.gLn" :: pa :: pl :: sl :: loads => do
    let loads ← parseFloats loads
    some (showOpt (gammaLNormal (← parseFloat? pa) (← parseFloat? pl) (← parseFloat? sl) (maxAbs loads)))
  | "c09.gLnM" :: pa :: pl :: sl :: indep :: k :: n :: loads => do
    let k ← k.toNat?
    let n ← n.toNat?
    let loads ← parseFloats loads
    let cols : List (List Float) := (List.range n).map fun i => pointRows i (chunk n loads.length loads)
    let lmax ← if indep = "1" then (maxAbsPerNode cols)[k]? else some (maxAbsMesh cols)
    some (showOpt (gammaLNormal (← parseFloat? pa) (← parseFloat? pl) (← parseFloat? sl) lmax))
  | ["c09.gLl", pa, pl, lsd] => do
    some (showOpt (gammaLLognormal (← parseFloat? pa) (← parseFloat? pl) (← parseFloat? lsd)))
  | ["c09.gLb", pl] => do
    some (showOpt (gammaLBlanket (← parseFloat? pl)))
  | _ => none

end PylifeVerif.Driver.C09

namespace PylifeVerif.Driver

/-- protocol handler of the C09 model (ops `c09.*`) -/
def handleFkmNonlinear : List String → Option String := C09.handle

end PylifeVerif.Driver
