import Model.Assessment
import Driver.Util
/-
Line protocol for the C10 model (`Model/Assessment.lean`) at `Float`.

  c10.cls  n maxL num den cnt            -> class number (classQ)
  c10.par  group Rm (rz|krp) value beta pa05 Aref Asigma G
                                         -> hex(n_st) hex(n_bm) hex(n_P) hex(K_RP) hex(gamma_M) hex(f_RAM) hex(P_RAM_Z) hex(P_RAM_D)
  c10.run  mode group Rm krp beta pa05 Aref Asigma nBins nNodes nL nBeta  cs…  L…  betas…  (per node: G, 6·nBins table values)
        mode = batch : assessBatch for every point;  mode = single : assessSingle (nNodes = 1, load c·l)
                                         -> per node  `PZ PD infinite early idx nSeq nCycles | P_RAM of every hysteresis | N_max_bearable per beta`, nodes separated by ` ; `

Doubles travel as bit patterns.  Table values are turned into integers by the exact scaling 2^100
(`scaled`), the model's `conv` is the inverse scaling.
-/
namespace PylifeVerif.Driver.C10
open PylifeVerif.FkmNl PylifeVerif.Assess PylifeVerif.HCM PylifeVerif.Driver

def K : Nat := 100

/-- value · 2^K of the double with the given bit pattern, as an integer (exact for |x| ≥ 2^(52−K) or 0;
smaller values are truncated) -/
def scaledOfBits (bits : Nat) : Int :=
  let neg : Bool := bits / 2^63 % 2 = 1
  let e : Nat := bits / 2^52 % 2048
  let frac : Nat := bits % 2^52
  let mag : Nat :=
    if e = 0 then frac / 2^(1074 - K)             -- subnormal or zero: frac · 2^(−1074)
    else
      let mant : Nat := 2^52 + frac                -- mant · 2^(e − 1075) · 2^K
      if e + K ≥ 1075 then mant * 2^(e + K - 1075) else mant / 2^(1075 - e - K)
  if neg then -(mag : Int) else (mag : Int)

def parseScaled? (s : String) : Option Int :=
  if s.length ≠ 16 then none else (parseHex? s).map scaledOfBits

def conv (i : Int) : Float := (Float.ofInt i).scaleB (-(K : Int))

def parseGroup? : String → Option Group
  | "Steel" => some .Steel
  | "SteelCast" => some .SteelCast
  | "Al_wrought" => some .AlWrought
  | _ => none

def showResult (r : Result Float) : String :=
  s!"{if r.infinite then 1 else 0} {if r.life.early then 1 else 0} {r.life.idx} {floatHex r.life.nSeq} {floatHex r.life.nCycles}"

/-- parse the per-node blocks `G, sig n, eps n, dsig 2n, deps 2n` -/
def parseNodes (n : Nat) : Nat → List String → Option (List (Float × Tables))
  | 0, _ => some []
  | k+1, toks => do
    let g ← parseFloat? (← toks.head?)
    let toks := toks.drop 1
    let sig ← (toks.take n).mapM parseScaled?
    let eps ← ((toks.drop n).take n).mapM parseScaled?
    let dsig ← ((toks.drop (2*n)).take (2*n)).mapM parseScaled?
    let deps ← ((toks.drop (4*n)).take (2*n)).mapM parseScaled?
    if deps.length ≠ 2*n then none else
    let rest ← parseNodes n k (toks.drop (6*n))
    some ((g, { sig := sig, eps := eps, dsig := dsig, deps := deps }) :: rest)

def handle : List String → Option String
  | ["c10.cls", n, maxL, num, den, cnt] => do
    some (toString (classQ (← n.toNat?) (← maxL.toInt?) (← num.toInt?) (← den.toInt?) (← cnt.toNat?)))
  | ["c10.par", g, rm, rzMode, rz, beta, pa05, aref, asig, gg] => do
    let g ← parseGroup? g
    let k : Consts Float := consts g
    let rm ← parseFloat? rm
    let rz ← parseFloat? rz
    let beta ← parseFloat? beta
    let aref ← parseFloat? aref
    let asig ← parseFloat? asig
    let gg ← parseFloat? gg
    let pa05 := pa05 = "1"
    let krp := if rzMode = "rz" then kRP k rz rm else rz
    let p : Params Float := { g := g, Rm := rm, krp := krp, beta := beta, pa05 := pa05, Aref := aref, Asigma := asig, G := gg }
    let c := componentCurve p
    let nst := nSt k aref asig
    some (joinFloats [nst, nBm k nst rm gg, nP k aref asig rm gg, krp, gammaM beta pa05,
      fRAM (gammaM beta pa05) (nP k aref asig rm gg) krp, c.PZ, c.PD])
  | "c10.run" :: mode :: g :: rm :: krp :: beta :: pa05 :: aref :: asig :: nb :: nn :: nl :: nbeta :: rest => do
    let g ← parseGroup? g
    let rm ← parseFloat? rm
    let krp ← parseFloat? krp
    let beta ← parseFloat? beta
    let aref ← parseFloat? aref
    let asig ← parseFloat? asig
    let n ← nb.toNat?
    let nn ← nn.toNat?
    let nl ← nl.toNat?
    let nbeta ← nbeta.toNat?
    let cs ← parseInts (rest.take nn)
    let L ← parseInts ((rest.drop nn).take nl)
    let betas ← parseFloats ((rest.drop (nn + nl)).take nbeta)
    let nodes ← parseNodes n nn (rest.drop (nn + nl + nbeta))
    if cs.length ≠ nn ∨ L.length ≠ nl ∨ betas.length ≠ nbeta then none else
    let out := (List.range nn).zip nodes |>.map fun (k, (gg, t)) =>
      let p : Params Float := { g := g, Rm := rm, krp := krp, beta := beta, pa05 := pa05 = "1", Aref := aref, Asigma := asig, G := gg }
      let c := componentCurve p
      if mode = "single" then
        let ck := cs.getD k 1
        let Lc := L.map (ck * ·)
        let recs := (twoPass (lawOwn n (maxAbsI Lc) t) (Lc.map fun l => [l])).recs
        let rows := rowsOf conv (mSigmaOf g rm) (consts g : Consts Float).E 0 recs
        let r := assessSingle conv n p t L ck
        s!"{floatHex c.PZ} {floatHex c.PD} {showResult r} | {joinFloats (rows.map (·.P))} | {joinFloats (betas.map (nMaxSingle conv n p t L ck))}"
      else
        let law := lawBatch n (maxAbsI (L.map (cs.headD 1 * ·))) (cs.headD 1) (cs.getD k 1) t
        let recs := (twoPass law (batchLoads L cs)).recs
        let rows := rowsOf conv (mSigmaOf g rm) (consts g : Consts Float).E k recs
        let r := assessBatch conv n p t L cs k
        s!"{floatHex c.PZ} {floatHex c.PD} {showResult r} | {joinFloats (rows.map (·.P))} | {joinFloats (betas.map (nMaxBearable conv p k recs))}"
    some (" ; ".intercalate out)
  | _ => none

end PylifeVerif.Driver.C10

namespace PylifeVerif.Driver
def handleAssessment : List String → Option String := C10.handle
end PylifeVerif.Driver
