import Model.Meanstress
import Driver.Util
namespace PylifeVerif.Driver
open PylifeVerif.Meanstress

instance : NatCast Float := ⟨Float.ofNat⟩

/-- How a double sits in a float column: IEEE infinities and NaN are the constructors of `ExtR`. -/
def toExt (x : Float) : ExtR Float :=
  if x.isNaN then .nan else if x.isInf then (if x > 0 then .pinf else .ninf) else .fin x

/-- `int(np.ceil(x))` for `x ≥ 0`. -/
def ceilNat (x : Float) : Nat := (Float.ceil x).toUInt64.toNat

def parseIface : String → Option Iface
  | "rm" => some .rm
  | "ft" => some .ft
  | "h" => some .h
  | _ => none

def parseDiagram (kind : String) (p : List Float) : Option (List (Seg Float)) :=
  match kind, p with
  | "g", [m, m2] => some (goodman m m2)
  | "g", [m] => some (goodmanDefault m)
  | "f", [m0, m1, m2, m3, m4, r12, r23] => some (fiveSegment m0 m1 m2 m3 m4 r12 r23)
  | "d", l =>
    let rec go : List Float → Option (List (Seg Float))
      | [] => some []
      | lo :: hi :: m :: rest => (go rest).map (⟨toExt lo, toExt hi, m⟩ :: ·)
      | _ => none
    go l
  | _, _ => none

def pairs : List Float → List (Float × Float)
  | a :: b :: r => (a, b) :: pairs r
  | _ => []

/-- `<node> <np> <params…> <x> <y> <count>` per class. -/
partial def parseCells : List String → Option (List (Cell Float))
  | [] => some []
  | node :: np :: rest => do
    let node ← node.toNat?
    let np ← np.toNat?
    let ps ← parseFloats (rest.take np)
    let D ← parseDiagram "g" ps
    match ← parseFloats ((rest.drop np).take 3) with
    | [x, y, n] => (← parseCells ((rest.drop np).drop 3)) |> fun tl => some (⟨node, D, x, y, n⟩ :: tl)
    | _ => none
  | _ => none

/--
`mst <kind> <diag> <np> <params…> <ng> <goals…> <x y>…`  — successive transforms of every cycle;
  answer per cycle `amplitude range mean` of the last result frame.
`mstmat <goal> <binsize> <nnodes> (<node> <np> <M [M2]> <x> <y> <count>)…` — matrix interface with the keys
  `0 … nnodes-1` of the remaining index levels: answer `n` followed by the `n` class sums of every key.
-/
def handleMeanstress : List String → Option String
  | "mst" :: kind :: dk :: np :: rest => do
    let kind ← parseIface kind
    let np ← np.toNat?
    let ps ← parseFloats (rest.take np)
    let D ← parseDiagram dk ps
    let rest := rest.drop np
    let ng ← (← rest.head?).toNat?
    let goals ← parseFloats ((rest.drop 1).take ng)
    let cyc ← parseFloats ((rest.drop 1).drop ng)
    let out := (pairs cyc).map (transformChain toExt D kind (goals.map toExt))
    some (" ".intercalate (out.map fun r => s!"{floatHex (frameAmp r)} {floatHex r.1} {floatHex r.2}"))
  | "mstmat" :: g :: binsize :: nn :: rest => do
    let g := toExt (← parseFloat? g)
    let binsize ← parseFloat? binsize
    let nn ← nn.toNat?
    let cells ← parseCells rest
    let n := (matBreaks toExt ceilNat g binsize cells).length - 1
    let sums := (List.range nn).flatMap fun k => matrixTransform toExt ceilNat g binsize cells k
    some (" ".intercalate (toString n :: sums.map floatHex))
  | _ => none

end PylifeVerif.Driver
