import Model.Meanstress
import Driver.Util
namespace PylifeVerif.Driver
open PylifeVerif.Meanstress

instance : NatCast Float := ⟨Float.ofNat⟩

def toExt (x : Float) : ExtR Float :=
  if x.isNaN then .nan else if x.isInf then (if x > 0 then .pinf else .ninf) else .fin x

def nanTo (d x : Float) : Float := if x.isNaN then d else x

/-- The cycle `(amplitude, R)` as the accessors of `load_collective.py` / `load_histogram.py` compute it.
kind `rm`: DataFrame with `range`, `mean`; `ft`: DataFrame with `from`, `to`;
`h`: histogram with class-mid range `x` (= |from-to| resp. the range mid) and class-mid mean `y`. -/
def mkCycle (kind : String) (x y : Float) : Cyc Float :=
  match kind with
  | "h" =>
    let amp := x / 2.0
    ⟨amp, toExt (nanTo 0.0 ((y - amp) / (y + amp)))⟩
  | _ =>
    let (fr, to) := if kind == "rm" then (y - x / 2.0, y + x / 2.0) else (x, y)
    let amp := Float.abs (fr - to) / 2.0
    -- DataFrame.max/min(axis=1) skip NaN
    let upper := if fr.isNaN then to else if to.isNaN then fr else if fr < to then to else fr
    let lower := if fr.isNaN then to else if to.isNaN then fr else if fr < to then fr else to
    ⟨amp, toExt (nanTo 0.0 (lower / upper))⟩

def parseDiagram (kind : String) (p : List Float) : Option (List (Seg Float)) :=
  match kind, p with
  | "g", [m, m2] => some (goodman m m2)
  | "f", [m0, m1, m2, m3, m4, r12, r23] => some (fiveSegment m0 m1 m2 m3 m4 r12 r23)
  | "d", l =>
    let rec go : List Float → Option (List (Seg Float))
      | [] => some []
      | lo :: hi :: m :: rest => (go rest).map (⟨toExt lo, toExt hi, m⟩ :: ·)
      | _ => none
    go l
  | _, _ => none

/-- One pass of `HaighDiagram.transform` on a frame of cycles; the result frame is (`range`, `mean`). -/
def transformFrame (D : List (Seg Float)) (g : Float) (kind : String) (xy : Float × Float) : Float × Float :=
  let c := transform D (toExt g) (mkCycle kind xy.1 xy.2)
  (2.0 * c.amp, resultMean c)

def pairs : List Float → List (Float × Float)
  | a :: b :: r => (a, b) :: pairs r
  | _ => []

def triples : List Float → List (Float × Float × Float)
  | a :: b :: c :: r => (a, b, c) :: triples r
  | _ => []

/-- `res.load_collective.amplitude` of a (`range`, `mean`) frame. -/
def frameAmp (xy : Float × Float) : Float :=
  Float.abs ((xy.2 - xy.1 / 2.0) - (xy.2 + xy.1 / 2.0)) / 2.0

/--
`mst <kind> <diag> <np> <params…> <ng> <goals…> <x y>…`  — successive transforms of every cycle;
  answer per cycle `amplitude range mean` of the last result frame.
`mstmat <diag> <np> <params…> <goal> <binsize> <rng mean count>…` — matrix interface: answer
  `n` followed by the class sums.
-/
def handleMeanstress : List String → Option String
  | "mst" :: kind :: dk :: np :: rest => do
    let np ← np.toNat?
    let ps ← parseFloats (rest.take np)
    let D ← parseDiagram dk ps
    let rest := rest.drop np
    let ng ← (← rest.head?).toNat?
    let goals ← parseFloats ((rest.drop 1).take ng)
    let cyc ← parseFloats ((rest.drop 1).drop ng)
    let out := (pairs cyc).map fun xy =>
      match goals with
      | [] => xy
      | g :: gs =>
        let r := transformFrame D g kind xy
        gs.foldl (fun r g => transformFrame D g "rm" r) r
    some (" ".intercalate (out.map fun r => s!"{floatHex (frameAmp r)} {floatHex r.1} {floatHex r.2}"))
  | "mstmat" :: dk :: np :: rest => do
    let np ← np.toNat?
    let ps ← parseFloats (rest.take np)
    let D ← parseDiagram dk ps
    let fl ← parseFloats (rest.drop np)
    match fl with
    | g :: binsize :: cells =>
      let items := (triples cells).map fun (x, y, n) => ((transformFrame D g "h" (x, y)).1, n)
      let mx := items.foldl (fun m it => if it.1 > m then it.1 else m) (items.headD (0.0, 0.0)).1
      let n := (Float.ceil (mx / binsize)).toUInt64.toNat
      let sums := rebin (linspace0 mx n) items
      some (" ".intercalate (toString n :: sums.map floatHex))
    | _ => none
  | _ => none

end PylifeVerif.Driver
