/-
Driver ops for C16: the GENERATED definitions (Generated/MaterialLaws.lean, translated from the current
source by /verif/translate/translate.py) run at `Float`.  No Mathlib.

  ml.ro <fn> E K n x [y]        fn = elastic_strain | plastic_strain | strain | tangential_compliance |
                                     tangential_modulus | delta_strain | lower_hysteresis (x = stress, y = max_stress)
                                     | inverse | delta_stress   (bisection inverse of `strain`, NOT the Newton code)
  ml.h1  stress|strain E x
  ml.h2s stress|strain|moduli E nu a b c        plane stress
  ml.h2e stress|strain|moduli E nu a b c        plane strain
  ml.h3  stress|strain|moduli E nu a b c d e f  3D
  ml.true_strain x | ml.true_stress s e | ml.true_fracture_strain Z | ml.true_fracture_stress F A Z

Answers: doubles as 16 hex digits, blank separated; `ValueError` where the translated guard fires.
-/
import Generated.MaterialLaws
import Driver.Util
namespace PylifeVerif.Driver
open PylifeVerif PylifeVerif.Generated

/-- Inverse of the (generated) Ramberg-Osgood strain by bisection on `[0, min(E·ε, K·ε^n)]` for `ε ≥ 0`,
mirrored for `ε < 0`.  Independent of the Newton iteration of the implementation. -/
def roInverse (E K n eps : Float) : Float :=
  let a := Float.abs eps
  let sgn : Float := if eps < 0 then -1.0 else 1.0
  let hi0 := E * a
  let hi1 := K * Float.pow a n
  let hi := if hi1 < hi0 then hi1 else hi0
  let rec go (k : Nat) (lo hi : Float) : Float :=
    match k with
    | 0 => (lo + hi) / 2.0
    | k+1 =>
      let mid := (lo + hi) / 2.0
      if mid ≤ lo || hi ≤ mid then mid
      else if RambergOsgood.strain E K n mid < a then go k mid hi else go k lo mid
  if a == 0 then eps else sgn * go 1200 0.0 hi

def f1 (x : Float) : Option String := some (floatHex x)
def f3 (p : Float × Float × Float) : Option String := some (joinFloats [p.1, p.2.1, p.2.2])
def f4 (p : Float × Float × Float × Float) : Option String := some (joinFloats [p.1, p.2.1, p.2.2.1, p.2.2.2])
def f6 (p : Float × Float × Float × Float × Float × Float) : Option String :=
  some (joinFloats [p.1, p.2.1, p.2.2.1, p.2.2.2.1, p.2.2.2.2.1, p.2.2.2.2.2])

def handleMaterialLaws : List String → Option String
  | "ml.ro" :: fn :: rest => do
    let xs ← parseFloats rest
    match fn, xs with
    | "elastic_strain", [E, K, n, s] => f1 (RambergOsgood.elastic_strain E K n s)
    | "plastic_strain", [E, K, n, s] => f1 (RambergOsgood.plastic_strain E K n s)
    | "strain", [E, K, n, s] => f1 (RambergOsgood.strain E K n s)
    | "tangential_compliance", [E, K, n, s] => f1 (RambergOsgood.tangential_compliance E K n s)
    | "tangential_modulus", [E, K, n, s] => f1 (RambergOsgood.tangential_modulus E K n s)
    | "delta_strain", [E, K, n, s] => f1 (RambergOsgood.delta_strain E K n s)
    | "lower_hysteresis", [E, K, n, s, smax] =>
      if RambergOsgood.lower_hysteresis_raises E K n s smax then some "ValueError"
      else f1 (RambergOsgood.lower_hysteresis E K n s smax)
    | "inverse", [E, K, n, e] => f1 (roInverse E K n e)
    | "delta_stress", [E, K, n, e] => f1 (RambergOsgood.delta_stress E K n (roInverse E K n) e)
    | _, _ => none
  | ["ml.h1", fn, E, x] => do
    let E ← parseFloat? E
    let x ← parseFloat? x
    match fn with
    | "stress" => f1 (HookesLaw1d.stress E x)
    | "strain" => f1 (HookesLaw1d.strain E x)
    | _ => none
  | "ml.h2s" :: fn :: rest => do
    let xs ← parseFloats rest
    match fn, xs with
    | "stress", [E, nu, a, b, c] =>
      if HookesLaw2dPlaneStress.init_raises E nu then some "ValueError" else f3 (HookesLaw2dPlaneStress.stress E nu a b c)
    | "strain", [E, nu, a, b, c] =>
      if HookesLaw2dPlaneStress.init_raises E nu then some "ValueError" else f4 (HookesLaw2dPlaneStress.strain E nu a b c)
    | "moduli", [E, nu] =>
      if HookesLaw2dPlaneStress.init_raises E nu then some "ValueError"
      else some (joinFloats [HookesLaw2dPlaneStress.attr_G E nu, HookesLaw2dPlaneStress.attr_K E nu])
    | _, _ => none
  | "ml.h2e" :: fn :: rest => do
    let xs ← parseFloats rest
    match fn, xs with
    | "stress", [E, nu, a, b, c] =>
      if HookesLaw2dPlaneStrain.init_raises E nu then some "ValueError" else f4 (HookesLaw2dPlaneStrain.stress E nu a b c)
    | "strain", [E, nu, a, b, c] =>
      if HookesLaw2dPlaneStrain.init_raises E nu then some "ValueError" else f3 (HookesLaw2dPlaneStrain.strain E nu a b c)
    | "moduli", [E, nu] =>
      if HookesLaw2dPlaneStrain.init_raises E nu then some "ValueError"
      else some (joinFloats [HookesLaw2dPlaneStrain.attr_G E nu, HookesLaw2dPlaneStrain.attr_K E nu])
    | _, _ => none
  | "ml.h3" :: fn :: rest => do
    let xs ← parseFloats rest
    match fn, xs with
    | "stress", [E, nu, a, b, c, d, e, f] =>
      if HookesLaw3d.init_raises E nu then some "ValueError" else f6 (HookesLaw3d.stress E nu a b c d e f)
    | "strain", [E, nu, a, b, c, d, e, f] =>
      if HookesLaw3d.init_raises E nu then some "ValueError" else f6 (HookesLaw3d.strain E nu a b c d e f)
    | "moduli", [E, nu] =>
      if HookesLaw3d.init_raises E nu then some "ValueError"
      else some (joinFloats [HookesLaw3d.attr_G E nu, HookesLaw3d.attr_K E nu])
    | _, _ => none
  | ["ml.true_strain", x] => do f1 (true_strain (← parseFloat? x))
  | ["ml.true_stress", s, e] => do f1 (true_stress (← parseFloat? s) (← parseFloat? e))
  | ["ml.true_fracture_strain", z] => do f1 (true_fracture_strain (← parseFloat? z))
  | ["ml.true_fracture_stress", f, a, z] => do
    f1 (true_fracture_stress (← parseFloat? f) (← parseFloat? a) (← parseFloat? z))
  | _ => none

end PylifeVerif.Driver
