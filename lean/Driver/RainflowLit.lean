import Model.Rainflow.Literal
import Driver.Util
import Driver.Rainflow
namespace PylifeVerif.Driver
open PylifeVerif.Rainflow

def showCycles (l : List Cycle) : String :=
  " ".intercalate (l.map fun c => s!"{c.1.1}:{c.1.2}>{c.2.1}:{c.2.2}")

/-- same layout as `showDet` -/
def showDetLit (st : FpLitState) : String :=
  s!"cycles={showCycles st.cycles};residuals={joinInts st.residuals};rindex={joinInts st.residualIndexProp};chunks={joinNats st.chunks}"

def showOptInt : Option Int → String
  | some v => toString v
  | none => "nan"

def showDetNan (st : DetStateNan) : String :=
  let res := " ".intercalate (st.residuals.map showOptInt)
  s!"cycles={showCycles st.cycles};residuals={res};rindex={joinInts st.residualIndex};chunks={joinNats st.chunks}"

def parseOptInt? (s : String) : Option (Option Int) :=
  if s = "nan" then some none else s.toInt?.map some

def parseOptInts (l : List String) : Option (List (Option Int)) := l.mapM parseOptInt?

/-- `rf_lit fourpoint <k> <len_1> … <len_k> <v_1> … <v_n>`   literal `process`/`fourpoint_loop`
    `rf_nan fourpoint|fkm <k> <len_1> … <len_k> <v_1> … <v_n>`   samples may be the token `nan`
    `turns_nan_chunked <k> <len_1> … <len_k> <v_1> … <v_n>`  the turns `_new_turns` reports, call by call -/
def handleRainflowLit : List String → Option String
  | "rf_lit" :: det :: k :: rest => do
    let k ← k.toNat?
    let lens ← parseNats (rest.take k)
    let vals ← parseInts (rest.drop k)
    if lens.sum ≠ vals.length then none else
    let chunks := splitLens lens vals
    match det with
    | "fourpoint" => some (showDetLit (fpRunLit chunks))
    | _ => none
  | "rf_nan" :: det :: k :: rest => do
    let k ← k.toNat?
    let lens ← parseNats (rest.take k)
    let vals ← parseOptInts (rest.drop k)
    if lens.sum ≠ vals.length then none else
    let chunks := splitLens lens vals
    match det with
    | "fourpoint" => some (showDetNan (fpRunNan chunks))
    | "fkm" =>
      let st := fkmRunNan chunks
      let cyc := " ".intercalate (st.core.cycles.map fun c => s!"{c.1}>{c.2}")
      some s!"cycles={cyc};residuals={joinInts st.core.res.reverse};rindex={joinInts st.residualIndex}"
    | _ => none
  | "turns_nan_chunked" :: k :: rest => do
    let k ← k.toNat?
    let lens ← parseNats (rest.take k)
    let vals ← parseOptInts (rest.drop k)
    if lens.sum ≠ vals.length then none else
    let chunks := splitLens lens vals
    let r := chunks.foldl (fun (acc : TurnStateNan × List String) c =>
      let r := newTurnsNan acc.1 c; (r.1, acc.2 ++ [showPts r.2])) ({}, [])
    let tail := " ".intercalate (r.1.tail.map showOptInt)
    some s!"turns={"|".intercalate r.2};tail={tail};head={r.1.head}"
  | _ => none

end PylifeVerif.Driver
