import Model.Vmap
import Driver.Util
/-!
Protocol (one line = one case = frames + an operation history on one fresh file):

`vmap <nframes> {<ncols> <col>* <nobj> <objcol>* <nrows> {<eid> <nid> <hex>*}*}* <nops> {op}*`
(`objcol`: a column of dtype `object`, which HDF5 cannot store)

strings travel as `s:<text>` (so that the empty string is a token), an absent optional argument as `-`.
ops:  `G name frame` | `V state geom var frame cols loc` (cols = `-` or `<n> name*`; loc = `-` or a number)
    | `S kind geom <n> id* frame nameOk name` | `L geom` | `I <nchains> {<n> impop*}*` | `X` (a call the model does not
      describe and that leaves geometries and variables alone: answer `x`)
impop: `M geom state?` | `C` | `J var state? cols` | `N set` | `E set`.
Answer: one segment per op, joined by `|`.  What is compared is what the property speaks about: whether a call
raised (not the exception class), the stored geometries / variables (set members as a set, nodal variable rows by node id,
groups under /VMAP/VARIABLES only when they hold a variable) and, exactly, every frame the importer returns.
-/
namespace PylifeVerif.Driver
open PylifeVerif.Vmap

/-- binary64 cell carried as its bit pattern; `==` is the IEEE comparison numpy applies. -/
structure FBits where
  bits : Nat

instance : Cell FBits where
  beq a b := Float.ofBits a.bits.toUInt64 == Float.ofBits b.bits.toUInt64
  isNull a := (Float.ofBits a.bits.toUInt64).isNaN

def showV (v : FBits) : String :=
  if (Float.ofBits v.bits.toUInt64).isNaN then "nan" else hexOfNat v.bits 16

abbrev P := StateT (List String) Option

def tok : P String := fun s => match s with
  | [] => none
  | t :: r => some (t, r)

def pNat : P Nat := do let t ← tok; (t.toNat? : Option Nat)
def pInt : P Int := do let t ← tok; (t.toInt? : Option Int)
def pStr : P String := do
  let t ← tok
  if t.startsWith "s:" then pure (t.drop 2).toString else failure
def pOptStr : P (Option String) := do
  let t ← tok
  if t == "-" then pure none
  else if t.startsWith "s:" then pure (some (t.drop 2).toString) else failure
def pVal : P FBits := do
  let t ← tok
  if t.length ≠ 16 then failure else
  match parseHex? t with
  | some n => pure ⟨n⟩
  | none => failure

def pMany {α} (p : P α) : Nat → P (List α)
  | 0 => pure []
  | n + 1 => do let a ← p; let r ← pMany p n; pure (a :: r)

def pCounted {α} (p : P α) : P (List α) := do let n ← pNat; pMany p n

def pOptCols : P (Option (List String)) := fun s => match s with
  | "-" :: r => some (none, r)
  | _ => (do let l ← pCounted pStr; pure (some l) : P _) s

def pOptNat : P (Option Nat) := fun s => match s with
  | "-" :: r => some (none, r)
  | _ => (do let n ← pNat; pure (some n) : P _) s

def pFrame : P (Frame FBits) := do
  let cols ← pCounted pStr
  let objs ← pCounted pStr
  let nrows ← pNat
  let rows ← pMany (do
    let e ← pInt; let n ← pInt; let vs ← pMany pVal cols.length
    pure (⟨e, n, vs⟩ : Row FBits)) nrows
  pure ⟨cols, objs, rows⟩

def pImpOp : P ImpOp := do
  let t ← tok
  match t with
  | "M" => do let g ← pStr; let st ← pOptStr; pure (.makeMesh g st)
  | "C" => pure .joinCoords
  | "J" => do let v ← pStr; let st ← pOptStr; let c ← pOptCols; pure (.joinVar v st c)
  | "N" => do let s ← pStr; pure (.filterNodes s)
  | "E" => do let s ← pStr; pure (.filterElems s)
  | _ => failure

inductive Op where
  | geom (name : String) (frame : Nat)
  | var (state geom var : String) (frame : Nat) (cols : Option (List String)) (loc : Option Nat)
  | set (kind : Nat) (geom : String) (ids : List Int) (frame : Nat) (nameOk : Bool) (name : String)
  | list (geom : String)
  | imp (chains : List (List ImpOp))
  | other

def pOp : P Op := do
  let t ← tok
  match t with
  | "G" => do let n ← pStr; let f ← pNat; pure (.geom n f)
  | "V" => do
    let st ← pStr; let g ← pStr; let v ← pStr; let f ← pNat; let c ← pOptCols; let l ← pOptNat
    pure (.var st g v f c l)
  | "S" => do
    let k ← pNat; let g ← pStr; let ids ← pCounted pInt; let f ← pNat; let ok ← pNat; let n ← pStr
    pure (.set k g ids f (ok != 0) n)
  | "L" => do let g ← pStr; pure (.list g)
  | "I" => do let cs ← pCounted (pCounted pImpOp); pure (.imp cs)
  | "X" => pure .other
  | _ => failure


def commaInts (l : List Int) : String := ",".intercalate (l.map toString)
def showVals (l : List FBits) : String := ",".intercalate (l.map showV)

def sortByKey {α} (key : α → String) (l : List α) : List α :=
  l.mergeSort (fun a b => decide (key a ≤ key b))

def showGeom (p : String × Geometry FBits) : String :=
  let g := p.2
  let els := ",".intercalate (g.elements.map fun e => s!"{e.1}:{e.2.1}:" ++ ".".intercalate (e.2.2.map toString))
  let sets := ",".intercalate (g.sets.map fun s => s!"{s.kind}:{s.name}:" ++ ".".intercalate ((sortU s.ids).map toString))
  s!"[{p.1}:pts={commaInts g.pointIds};nc={g.ncoord};xyz=" ++ "/".intercalate (g.coords.map showVals)
    ++ s!";els={els};sets={sets}]"

def showFile (f : File FBits) : String :=
  let gs := "".intercalate ((sortByKey (·.1) f.geoms).map showGeom)
  let groups := sortByKey (fun p => p.1 ++ "/" ++ p.2)
    (f.groups.filter (fun p => f.vars.any (fun v => v.1.1 == p.1 && v.1.2.1 == p.2)))
  let showGroup (p : String × String) : String :=
    let vs := sortByKey (fun v => v.1.2.2) (f.vars.filter (fun v => v.1.1 == p.1 && v.1.2.1 == p.2))
    s!"[{p.1}/{p.2}:size={vs.length}" ++ "".intercalate (vs.map fun v =>
      s!";{v.1.2.2}:{v.2.loc}:{v.2.ncols}:{commaInts v.2.ids}:" ++ "/".intercalate (v.2.values.map showVals)) ++ "]"
  s!"G{gs}S" ++ "".intercalate (groups.map showGroup)

def showCell : Option FBits → String
  | none => "nan"
  | some v => showV v

def showFrame (m : List String × MeshRows FBits) : String :=
  "cols=" ++ ",".intercalate m.1 ++ ";rows=" ++ ";".intercalate (m.2.map fun r =>
    s!"{r.1.1}:{r.1.2}:" ++ ",".intercalate (r.2.map showCell))

def emptyFrame : Frame FBits := ⟨[], [], []⟩

def runOps (frames : Array (Frame FBits)) : List Op → File FBits → List String → List String
  | [], _, acc => acc.reverse
  | op :: ops, f, acc =>
    let fr (i : Nat) := frames.getD i emptyFrame
    let st (e : Option Err) := match e with | none => "ok" | some _ => "err"
    match op with
    | .geom n i =>
      let r := addGeometry f n (fr i)
      runOps frames ops r.1 (s!"{st r.2};{showFile r.1}" :: acc)
    | .var s g v i c l =>
      let r := addVariable f s g v (fr i) c l
      runOps frames ops r.1 (s!"{st r.2};{showFile r.1}" :: acc)
    | .set k g ids i ok n =>
      let r := addSet f k g ids (fr i) ok n
      runOps frames ops r.1 (s!"{st r.2};{showFile r.1}" :: acc)
    | .other => runOps frames ops f ("x" :: acc)
    | .list g =>
      let gs := "geoms=" ++ ",".intercalate ((sortByKey (·.1) f.geoms).map (·.1))
      let mine := f.vars.filter (fun v => v.1.2.1 == g)
      let sts := sortByKey id (mine.map (·.1.1)).eraseDups
      let vs := ";vars=" ++ ",".intercalate (sts.map fun st =>
        st ++ ":" ++ ".".intercalate (sortByKey id ((mine.filter (fun v => v.1.1 == st)).map (·.1.2.2))))
      let seg := match f.geoms.lookup g with
        | none => gs ++ ";err"
        | some geo => gs ++ ";nsets=" ++ ",".intercalate (setNames geo 0) ++ ";esets=" ++ ",".intercalate (setNames geo 1)
      runOps frames ops f ((seg ++ vs) :: acc)
    | .imp chains =>
      let rec go (s : Session FBits) : List (List ImpOp) → List String
        | [] => []
        | c :: cs =>
          let r := readFrame f s c
          (match r.2 with
            | .error (_, i) => s!"err@{i}"
            | .ok m => showFrame m) :: go r.1 cs
      runOps frames ops f ("/".intercalate (go Session.init chains) :: acc)

def parseCase : P (List (Frame FBits) × List Op) := do
  let frames ← pCounted pFrame
  let ops ← pCounted pOp
  pure (frames, ops)

def handleVmap : List String → Option String
  | "vmap" :: rest =>
    match parseCase rest with
    | some ((frames, ops), []) => some ("|".intercalate (runOps frames.toArray ops File.empty []))
    | _ => some "parse-error"
  | _ => none

end PylifeVerif.Driver
