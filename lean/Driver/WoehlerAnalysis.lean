import Model.WoehlerAnalysis
import Driver.FailureProb
import Driver.Util
/-
Line protocol for the C18 model (`Model/WoehlerAnalysis.lean`) at `Float`.  A data set travels as triples
`load cycles fracture(0|1)`.  Ops:

  c18.zones  tests…                     -> hex(transition) | z…      (z per test after irrelevant_runouts_dropped was NOT applied:
                                                                      F finite zone, I infinite zone, N neither, B both)
  c18.drop   tests…                     -> k…                        (1 = test kept by irrelevant_runouts_dropped)
  c18.elem   tests…                     -> k_1 ND SD TN TS
  c18.probit tests…                     -> k_1 ND SD TN TS
  c18.ols    (x y)…                     -> slope intercept
  c18.lik    SD TS k_1 ND TN tests…     -> fin inf                   (hex | -inf)
  c18.mlinf  r1 r2 tests…               -> k_1 ND SD TN TS           (`maxLikeInf` with the optimiser answering `(r1, r2)`)
  c18.mlinfobj p1 p2 tests…             -> value                     (objective of MaxLikeInf at the relative point; hex | -inf)
  c18.mlfull r_k1 r_ND r_SD r_TN r_TS tests… -> mode x0(5) k_1 ND SD TN TS (`maxLikeFull` with the optimiser answering `r`; mode =
                                                                      norun | fixTS | free: which parameters the code fixes;
                                                                      x0 = the start vector in scaled variables: 1, or 0 for a zero start)
  c18.mlfullobj r_k1 r_ND r_SD r_TN r_TS tests… -> value             (objective of MaxLikeFull at the relative point)

`Φ` is the driver's own distribution function (`Driver/FailureProb.lean`), `Φ⁻¹` its inverse by bisection.
-/
namespace PylifeVerif.Driver.C18
open PylifeVerif.WoehlerAnalysis PylifeVerif.Driver

def phi : Float → Float := C15.phi

/-- `Φ⁻¹(p)` by bisection on `[-40, 40]` (p in (0,1)); the lower-tail value is used on both sides for accuracy -/
def quantile (p : Float) : Float := Id.run do
  if p > 0.5 then
    -- Φ⁻¹(p) = −Φ⁻¹(1 − p) would lose digits; bisect Φ(−x) = 1 − p on the other tail only when that is exact enough
    let mut lo : Float := 0.0
    let mut hi : Float := 40.0
    for _ in [0:64] do
      let mid := (lo + hi) / 2.0
      if phi mid < p then lo := mid else hi := mid
    return (lo + hi) / 2.0
  else
    let mut lo : Float := -40.0
    let mut hi : Float := 0.0
    for _ in [0:64] do
      let mid := (lo + hi) / 2.0
      if phi mid < p then lo := mid else hi := mid
    return (lo + hi) / 2.0

def parseTests : List String → Option (List (Test Float))
  | [] => some []
  | l :: c :: f :: rest => do
    let l ← parseFloat? l
    let c ← parseFloat? c
    let r ← parseTests rest
    some ({ load := l, cycles := c, fracture := f = "1" } :: r)
  | _ => none

def showCurve (c : Curve Float) : String :=
  s!"{floatHex c.k1} {floatHex c.ND} {floatHex c.SD} {floatHex c.TN} {floatHex c.TS}"

def showOpt : Option Float → String
  | some x => floatHex x
  | none => "-inf"

/-- relative parameter vector in the order k_1 ND SD TN TS -/
def parseRel (a b c e f : String) : Option (Curve Float) := do
  let a ← parseFloat? a
  let b ← parseFloat? b
  let c ← parseFloat? c
  let e ← parseFloat? e
  let f ← parseFloat? f
  some { k1 := a, ND := b, SD := c, TN := e, TS := f }

def sameTest (a b : Test Float) : Bool := a.load == b.load && a.cycles == b.cycles && a.fracture == b.fracture

def handle : List String → Option String
  | "c18.zones" :: rest => do
    let d ← parseTests rest
    let fz := finiteZone d
    let iz := infiniteZone d
    let tr := transition d
    -- zone membership = membership in the MODEL's zone lists (tests are compared field by field; identical tests are in
    -- the same zone anyway since the zones are filters)
    let flag (t : Test Float) : String :=
      let inF := fz.any (sameTest t)
      let inI := iz.any (sameTest t)
      if inF && inI then "B" else if inF then "F" else if inI then "I" else "N"
    some s!"{floatHex tr} {fz.length} {iz.length} | {" ".intercalate (d.map flag)}"
  | "c18.drop" :: rest => do
    let d ← parseTests rest
    let kept := irrelevantRunoutsDropped d
    some s!"{kept.length} | {joinFloats (kept.map (·.load))}"
  | "c18.elem" :: rest => do
    let d ← parseTests rest
    some (showCurve (elementary quantile d))
  | "c18.probit" :: rest => do
    let d ← parseTests rest
    some (showCurve (probit quantile d))
  | "c18.ols" :: rest => do
    let pts ← C15.parsePairs rest
    let (s, i) := ols pts
    some s!"{floatHex s} {floatHex i}"
  | "c18.lik" :: sd :: ts :: k :: nd :: tn :: rest => do
    let sd ← parseFloat? sd
    let ts ← parseFloat? ts
    let k ← parseFloat? k
    let nd ← parseFloat? nd
    let tn ← parseFloat? tn
    let d ← parseTests rest
    some s!"{showOpt (likFinite d sd k nd tn)} {showOpt (likInfinite phi d sd ts)}"
  | "c18.mlinf" :: r1 :: r2 :: rest => do
    let r1 ← parseFloat? r1
    let r2 ← parseFloat? r2
    let d ← parseTests rest
    some (showCurve (maxLikeInf quantile phi (fun _ => (r1, r2)) d))
  | "c18.mlinfobj" :: p1 :: p2 :: rest => do
    let p1 ← parseFloat? p1
    let p2 ← parseFloat? p2
    let d ← parseTests rest
    some (showOpt (maxLikeInfObjective phi (irrelevantRunoutsDropped d) (p1, p2)))
  | "c18.mlfull" :: a :: b :: c :: e :: f :: rest => do
    let r ← parseRel a b c e f
    let d ← parseTests rest
    let dd := irrelevantRunoutsDropped d
    let mode := if (runouts dd).isEmpty then "norun" else if fewMixedLevels dd then "fixTS" else "free"
    some s!"{mode} {showCurve (fullStart (elementaryCore quantile dd))} {showCurve (maxLikeFull quantile phi (fun _ _ => r) d)}"
  | "c18.mlfullobj" :: a :: b :: c :: e :: f :: rest => do
    let r ← parseRel a b c e f
    let d ← parseTests rest
    let dd := irrelevantRunoutsDropped d
    some (showOpt (maxLikeFullObjective phi dd (elementaryCore quantile dd) r))
  | _ => none

end PylifeVerif.Driver.C18

namespace PylifeVerif.Driver

/-- protocol handler of the C18 model (ops `c18.*`) -/
def handleWoehlerAnalysis : List String → Option String := C18.handle

end PylifeVerif.Driver
