import Model.Rainflow.Spec
import Driver.Util
namespace PylifeVerif.Driver
open PylifeVerif.Rainflow

def showPts (l : List Pt) : String := " ".intercalate (l.map fun p => s!"{p.1}:{p.2}")

def showDet (st : DetState) : String :=
  let cyc := " ".intercalate (st.cycles.map fun c => s!"{c.1.1}:{c.1.2}>{c.2.1}:{c.2.2}")
  s!"cycles={cyc};residuals={joinInts st.residuals};rindex={joinInts st.residualIndex};chunks={joinNats st.chunks}"

def showFkm (st : FkmState) : String :=
  let cyc := " ".intercalate (st.cycles.map fun c => s!"{c.1}>{c.2}")
  s!"cycles={cyc};residuals={joinInts st.res.reverse};rindex={joinInts st.residualIndex}"

/-- `rf <detector> <k> <len_1> … <len_k> <v_1> … <v_n>` -/
def handleRainflow : List String → Option String
  | "rf" :: det :: k :: rest => do
    let k ← k.toNat?
    let lens ← parseNats (rest.take k)
    let vals ← parseInts (rest.drop k)
    if lens.sum ≠ vals.length then none else
    let chunks := splitLens lens vals
    match det with
    | "fourpoint" => some (showDet (fpRun chunks))
    | "threepoint" => some (showDet (tpRun chunks))
    | "fkm" => some (showFkm (fkmRun chunks))
    | _ => none
  | "turns" :: rest => do
    let vals ← parseInts rest
    some (showPts (findTurns vals))
  | "turns_np" :: rest => do
    let vals ← parseInts rest
    some (showPts (findTurnsNumpy vals))
  | "turns_nan" :: k :: rest => do
    let k ← k.toNat?
    let pos ← parseNats (rest.take k)
    let vals ← parseInts (rest.drop k)
    let s := pos.foldl (fun (acc : List (Option Int)) p => acc.take p ++ [none] ++ acc.drop p) (vals.map some)
    some (showPts (findTurnsNan s))
  | "spec" :: det :: rest => do
    let vals ← parseInts rest
    match det with
    | "fkm" =>
      let st := Spec.hcm ((Spec.reversals vals).map (·.2))
      let cyc := " ".intercalate (st.cycles.map fun c => s!"{c.1}>{c.2}")
      some s!"cycles={cyc};residuals={joinInts st.res.reverse}"
    | _ =>
      let r := Spec.fourPoint (Spec.turningPoints vals)
      let cyc := " ".intercalate (r.1.map fun c => s!"{c.1.1}:{c.1.2}>{c.2.1}:{c.2.2}")
      some s!"cycles={cyc};residuals={joinInts (r.2.map (·.2))};rindex={joinNats (r.2.map (·.1))}"
  | "cli" :: k :: rest => do
    let k ← k.toNat?
    let lens ← parseNats (rest.take k)
    let gs ← parseNats (rest.drop k)
    some (" ".intercalate (gs.map fun g => let r := chunkLocalIndex lens g; s!"{r.1}:{r.2}"))
  | _ => none

end PylifeVerif.Driver
