import Model.Equistress
import Driver.Util
namespace PylifeVerif.Driver
open PylifeVerif.Equistress

/-- `equi <s11 s22 s33 s12 s13 s23> <w0 w1 w2>` (nine doubles as hex bit patterns) →
`mises signed_mises_trace signed_mises_abs_max_principal tresca signed_tresca_trace
signed_tresca_abs_max_principal abs_max_principal max_principal min_principal mises_expanded` -/
def handleEquistress : List String → Option String
  | "equi" :: rest => do
    let xs ← parseFloats rest
    match xs with
    | [s11, s22, s33, s12, s13, s23, w0, w1, w2] =>
      let v : Voigt Float := ⟨s11, s22, s33, s12, s13, s23⟩
      let w : Principal Float := ⟨w0, w1, w2⟩
      some (joinFloats [mises v, signedMisesTrace v, signedMisesAbsMax v w, tresca w,
        signedTrescaTrace v w, signedTrescaAbsMax w, absMaxPrincipal w, maxPrincipal w,
        minPrincipal w, misesExpanded v])
    | _ => none
  | _ => none

end PylifeVerif.Driver
