import Driver.Rainflow
import Driver.RainflowLit
import Driver.HCM
import Driver.FkmNonlinear
import Driver.Woehler
import Driver.Collective
import Driver.Equistress
import Driver.Miner
import Driver.MaterialLaws
import Driver.Broadcast
import Driver.Meanstress
import Driver.Vmap
import Driver.Notch
import Driver.Mesh
import Driver.FailureProb
import Driver.WoehlerAnalysis
import Driver.Assessment
import Driver.PRAJ
open PylifeVerif.Driver

/-- All handlers; the first that recognises the op answers. -/
def handlers : List (List String → Option String) := [handleRainflow, handleRainflowLit, handleHCM, handleFkmNonlinear, handleWoehler, handleCollective, handleEquistress, handleMiner, handleMaterialLaws, handleBroadcast, handleMeanstress, handleVmap, handleNotch, handleMesh, handleFailureProb, handleWoehlerAnalysis, handleAssessment, handlePRAJ]

def answer (line : String) : String :=
  let toks := (line.splitOn " ").filter (· ≠ "")
  match handlers.findSome? (fun h => h toks) with
  | some s => s
  | none => "bad-op"

partial def loop (h : IO.FS.Stream) (out : IO.FS.Stream) : IO Unit := do
  let line ← h.getLine
  if line.isEmpty then return ()
  out.putStrLn (answer (line.trimAsciiEnd.toString))
  loop h out

def main : IO Unit := do
  let out ← IO.getStdout
  loop (← IO.getStdin) out
  out.flush
