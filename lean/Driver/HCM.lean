import Model.HCM
import Driver.Util
namespace PylifeVerif.Driver
open PylifeVerif.HCM

def showHyst (h : Hyst) : String :=
  let v (l : Vec) := ",".intercalate (l.map toString)
  s!"{h.run}{if h.closed then "C" else "H"}{if h.zeroMean then "Z" else "N"}|{v h.loadMin}|{v h.loadMax}|{v h.sMin}|{v h.sMax}|{v h.eMin}|{v h.eMax}|{v h.eMinLF}|{v h.eMaxLF}"

def chunksOf (n : Nat) : List α → Nat → List (List α)
  | _, 0 => []
  | xs, k+1 => xs.take n :: chunksOf n (xs.drop n) k

/-- `hcm <law> <nNodes> <v…>`: two-pass HCM; samples row-major (load step major, node minor). -/
def handleHCM : List String → Option String
  | "hcm" :: lawName :: nn :: rest => do
    let law ← lawByName lawName
    let nn ← nn.toNat?
    let vals ← parseInts rest
    if nn = 0 ∨ vals.length % nn ≠ 0 then none else
    let samples := chunksOf nn vals (vals.length / nn)
    let st := twoPass law samples
    let recs := " ".intercalate (st.recs.map showHyst)
    some s!"recs={recs};strain={joinInts st.strainValues};nfirst={st.nFirst};iz={st.iz};ir={st.ir};max={st.loadMax}"
  | _ => none

end PylifeVerif.Driver
