import Model.HCMSpec
import Driver.Util
namespace PylifeVerif.Driver
open PylifeVerif.HCM

def showHyst (h : Hyst) : String :=
  let v (l : Vec) := ",".intercalate (l.map toString)
  s!"{h.run}{if h.closed then "C" else "H"}{if h.zeroMean then "Z" else "N"}|{v h.loadMin}|{v h.loadMax}|{v h.sMin}|{v h.sMax}|{v h.eMin}|{v h.eMax}|{v h.eMinLF}|{v h.eMaxLF}"

def chunksOf (n : Nat) : List α → Nat → List (List α)
  | _, 0 => []
  | xs, k+1 => xs.take n :: chunksOf n (xs.drop n) k

/-- `hcm <law> <nNodes> <v…>`: two-pass HCM; samples row-major (load step major, node minor). -/
def handleHCM : List String → Option String
  | "hcm" :: lawName :: nn :: rest => do
    let law ← lawByName lawName
    let nn ← nn.toNat?
    let vals ← parseInts rest
    if nn = 0 ∨ vals.length % nn ≠ 0 then none else
    let samples := chunksOf nn vals (vals.length / nn)
    let st := twoPass law samples
    let recs := " ".intercalate (st.recs.map showHyst)
    let fed := " ".intercalate (st.fed.map fun f => s!"{f.1}:{rep f.2}")
    some s!"recs={recs};strain={joinInts st.strainValues};nfirst={st.nFirst};iz={st.iz};ir={st.ir};max={st.loadMax};fed={fed}"
  | "prf" :: rest => do
    let vals ← parseInts rest
    let r := Spec.periodicRainflow vals
    let sorted := r.toArray.qsort (fun a b => a.1 < b.1 || (a.1 == b.1 && a.2 < b.2)) |>.toList
    some (" ".intercalate (sorted.map fun c => s!"{c.1}:{c.2}"))
  | "hcmg" :: lawName :: n1 :: rest => do
    -- guideline procedure on one point: `hcmg <law> <n1> <turns of pass 1> <turns of pass 2>`
    let law ← lawByName lawName
    let n1 ← n1.toNat?
    let vals ← parseInts rest
    let st := Spec.guideline law (vals.take n1) (vals.drop n1)
    let sh (h : Spec.GHyst) := s!"{h.run}{if h.closed then "C" else "H"}|{h.loadMin}|{h.loadMax}|{h.sMin}|{h.sMax}|{h.eMin}|{h.eMax}|{h.eMinLF}|{h.eMaxLF}"
    some s!"recs={" ".intercalate (st.recs.map sh)};strain={joinInts st.strains}"
  | _ => none

end PylifeVerif.Driver
