import Model.Broadcast
import Driver.Util
/-
Protocol (C13):   <op> <OBJ> <PRM>      op ∈ bc_obj | bc_prm | bc_names
  OBJ = T <nlev> <name_1..name_nlev> <ncols> <nrows> <nrows*nlev key codes, row major> <nrows*ncols cells, row major>
  PRM = OBJ-form | S <v> | A <n> <v_1..v_n>
  level names: any token; `?o<i>` / `?p<i>` is the unnamed level at position i of the object / parameter.
Answers: bc_obj / bc_prm  → the returned object / parameter as the sorted list of  lvl=code,…>cell,…  items
         (levels sorted by name, `nan` for an absent payload);  bc_names → result level order (`-` = unnamed);
         `error ValueError` when the real code raises (array of a wrong length); a key level a row does not have is `nan`.
-/
namespace PylifeVerif.Driver
open PylifeVerif.Broadcast

namespace Bc

def parseName (s : String) : Name :=
  match s.toList with
  | '?' :: 'o' :: ds => match (String.ofList ds).toNat? with
    | some i => .anon 0 i
    | none => .named s
  | '?' :: 'p' :: ds => match (String.ofList ds).toNat? with
    | some i => .anon 1 i
    | none => .named s
  | _ => .named s

def nameStr : Name → String
  | .named s => s
  | .anon 0 i => s!"?o{i}"
  | .anon _ i => s!"?p{i}"

def nameShow : Name → String
  | .named s => s
  | .anon _ _ => "-"

def chunks {α : Type} (w : Nat) : Nat → List α → List (List α)
  | 0, _ => []
  | n+1, xs => xs.take w :: chunks w n (xs.drop w)

/-- parse one operand; returns it and the remaining tokens -/
def parseOperand : List String → Option (Prm (List Int) × List String)
  | "S" :: v :: rest => do
    let v ← parseInt? v
    some (.scalar [v], rest)
  | "A" :: n :: rest => do
    let n ← n.toNat?
    let vs ← parseInts (rest.take n)
    if vs.length ≠ n then none else
    some (.array (vs.map fun v => [v]), rest.drop n)
  | "T" :: nlev :: rest => do
    let nlev ← nlev.toNat?
    let names := (rest.take nlev).map parseName
    let rest := rest.drop nlev
    match rest with
    | ncols :: nrows :: rest => do
      let ncols ← ncols.toNat?
      let nrows ← nrows.toNat?
      let keys ← parseInts (rest.take (nrows * nlev))
      let rest := rest.drop (nrows * nlev)
      let vals ← parseInts (rest.take (nrows * ncols))
      if keys.length ≠ nrows * nlev ∨ vals.length ≠ nrows * ncols then none else
      let ks := chunks nlev nrows keys
      let vs := chunks ncols nrows vals
      some (.tbl ⟨names, ks.zip vs⟩, rest.drop (nrows * ncols))
    | _ => none
  | _ => none

def showKey (names : List Name) (k : RKey) : String :=
  let items := (names.zip k).map fun (n, c) =>
    (nameStr n, match c with | some c => toString c | none => "nan")
  let items := items.toArray.qsort (fun a b => a.1 < b.1)
  ",".intercalate (items.toList.map fun (n, c) => s!"{n}={c}")

def showRTbl (t : RTbl (List Int)) : String :=
  let items := t.rows.map fun (k, v) =>
    showKey t.names k ++ ">" ++ (match v with
      | some row => ",".intercalate (row.map toString)
      | none => "nan")
  " ".intercalate (items.toArray.qsort (· < ·)).toList

def showErr : Err → String
  | .valueError => "error ValueError"

end Bc
open Bc

def handleBroadcast : List String → Option String
  | op :: rest =>
    if op ≠ "bc_obj" ∧ op ≠ "bc_prm" ∧ op ≠ "bc_names" then none else do
    let (o, rest) ← parseOperand rest
    let (p, rest) ← parseOperand rest
    if rest ≠ [] then none else
    match o with
    | .tbl obj =>
      match broadcast obj p with
      | .error e => some (showErr e)
      | .ok out =>
        if op = "bc_obj" then some (showRTbl out.obj)
        else if op = "bc_prm" then some (showRTbl out.prm)
        else some (",".intercalate (out.obj.names.map nameShow))
    | _ => none
  | _ => none

end PylifeVerif.Driver
