import Model.FailureProb
import Driver.Util
/-
Line protocol for the C15 model (`Model/FailureProb.lean`) at `Float`.  Ops:

  c15.phi    x                         -> hex hex        (Φ(x), Φ(−x): the driver's own distribution function)
  c15.simple sm ss load                -> hex hex        (pf_simple_load and its complement)
  c15.norm   sm ss lm ls               -> hex hex        (pf_norm_load and its complement 1 − pf = Φ(−z))
  c15.arb    sm ss (x pdf)*            -> hex            (pf_arbitrary_load)
  c15.normw  sm ss lm ls lo hi         -> hex            (pf_norm_load AS THE CODE COMPUTES IT, `pfNormLoadCode`: standardised
                                                          window; the MODEL's branch rule = that of /repo 2da931b: direct integral
                                                          of pdf·cdf_S, or window load mass − integral of pdf·sf_S for default
                                                          limits with loc < 0 or direct > mass/2 (the code follows /repo 9f34536
                                                          since: complement in the second case only if also |mass| ≥ 1/2; the model
                                                          was deliberately left as it is, same window integral); load_std = 0 deterministic; lo, hi = explicit limits in log10 units or
                                                          `-` for the default; `quad` = composite Gauss–Legendre on the
                                                          pieces between the limits and transition ± 10 strength_std)

`Φ` at `Float`: Marsaglia's series for |x| ≤ 2.5, the Laplace continued fraction of the Mills ratio beyond;
relative accuracy about 1e-14 in BOTH tails (the upper tail value is returned separately as Φ(−x), never as 1 − Φ).
-/
namespace PylifeVerif.Driver.C15
open PylifeVerif.FailureProb PylifeVerif.Driver

def normPdf (x : Float) : Float := Float.exp (-(x * x) / 2.0) / Float.sqrt (2.0 * 3.141592653589793)

/-- `Φ(x) = 1/2 + φ(x) (x + x³/3 + x⁵/(3·5) + …)` -/
def cdfSeries (x : Float) : Float := Id.run do
  let mut s := x
  let mut t := x
  for i in [1:120] do
    t := t * x * x / (2.0 * i.toFloat + 1.0)
    s := s + t
  return 0.5 + s * normPdf x

/-- upper tail `Q(z) = φ(z) / (z + 1/(z + 2/(z + 3/(z + …))))`, `z ≥ 2.5` (evaluated backwards). -/
def tailCF (z : Float) : Float := Id.run do
  let mut f := z
  for j in [0:160] do
    let k := (160 - j).toFloat
    f := z + k / f
  return normPdf z / f

def phi (x : Float) : Float :=
  if x < -2.5 then tailCF (-x) else if x > 2.5 then 1.0 - tailCF x else cdfSeries x

def parsePairs : List String → Option (List (Float × Float))
  | [] => some []
  | x :: y :: rest => do
    let x ← parseFloat? x
    let y ← parseFloat? y
    let r ← parsePairs rest
    some ((x, y) :: r)
  | _ => none

/-- Stand-in for `scipy.integrate.quad` on `[a, b]`: composite 8-point Gauss–Legendre on the pieces cut by the candidate
break points `transition ± width` (the strength distribution's ±10 σ), panel width half of the shorter scale. -/
def quadGL (transition width scale : Float) (fine : Bool) (f : Float → Float) (a b : Float) : Float := Id.run do
  let a := if a < -40.0 then -40.0 else a        -- the standard normal density is 0.0 in double precision beyond 38.6
  let b := if b > 40.0 then 40.0 else b
  if !(a < b) then return 0.0
  let clip := fun (x : Float) => if x < a then a else if x > b then b else x
  -- inner zone: ±10 strength sd around the transition; shoulders: out to ±40 strength sd (beyond, the strength factor is
  -- 0.0 or 1.0 in double precision).  `fine` (explicit limits: the window may lie entirely in a tail, where the
  -- integrand falls by a factor e^35 per strength sd and a RELATIVE accuracy is wanted): panels of an eighth of the scale
  let edges := [clip (transition - 4.0 * width), clip (transition - width), clip (transition + width),
                clip (transition + 4.0 * width), b]
  let base := if fine then 0.125 else 0.5
  let ssc := if scale < 1.0 then scale else 1.0
  let mut s := 0.0
  let mut left := a
  for e in edges do
    let len := e - left
    if len > 0.0 then
      let inner := left ≥ transition - width && e ≤ transition + width
      let shoulder := fine && left ≥ transition - 4.0 * width && e ≤ transition + 4.0 * width
      let sc := if inner || shoulder then ssc else 1.0
      let nf := Float.ceil (len / (base * sc))
      let nf := if nf < 1.0 then 1.0 else if nf > 20000.0 then 20000.0 else nf
      let n := nf.toUInt64.toNat
      s := glComposite f (len / nf) n left s
    left := e
  return s

def parseLimit? (s : String) : Option (Option Float) :=
  if s == "-" then some none else (parseFloat? s).map some

def handle : List String → Option String
  | ["c15.normw", sm, ss, lm, ls, lo, hi] => do
    let sm ← parseFloat? sm
    let ss ← parseFloat? ss
    let lm ← parseFloat? lm
    let ls ← parseFloat? ls
    let lo ← parseLimit? lo
    let hi ← parseLimit? hi
    let loc := Float.log10 sm - Float.log10 lm
    let quad := quadGL (loc / ls) (10.0 * ss / ls) (ss / ls) (lo.isSome || hi.isSome)
    some (floatHex (pfNormLoadCode phi (fun x => phi (-x)) normPdf quad sm ss lm ls lo hi))
  | ["c15.phi", x] => do
    let x ← parseFloat? x
    some s!"{floatHex (phi x)} {floatHex (phi (-x))}"
  | ["c15.simple", sm, ss, load] => do
    let sm ← parseFloat? sm
    let ss ← parseFloat? ss
    let load ← parseFloat? load
    some s!"{floatHex (pfSimpleLoad phi sm ss load)} {floatHex (pfSimpleLoad (fun x => phi (-x)) sm ss load)}"
  | ["c15.norm", sm, ss, lm, ls] => do
    let sm ← parseFloat? sm
    let ss ← parseFloat? ss
    let lm ← parseFloat? lm
    let ls ← parseFloat? ls
    some s!"{floatHex (pfNormLoad phi sm ss lm ls)} {floatHex (survNormLoad phi sm ss lm ls)}"
  | "c15.arb" :: sm :: ss :: rest => do
    let sm ← parseFloat? sm
    let ss ← parseFloat? ss
    let pts ← parsePairs rest
    some (floatHex (pfArbitraryLoad phi sm ss pts))
  | _ => none

end PylifeVerif.Driver.C15

namespace PylifeVerif.Driver

/-- protocol handler of the C15 model (ops `c15.*`) -/
def handleFailureProb : List String → Option String := C15.handle

end PylifeVerif.Driver
