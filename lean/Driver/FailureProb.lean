import Model.FailureProb
import Driver.Util
/-
Line protocol for the C15 model (`Model/FailureProb.lean`) at `Float`.  Ops:

  c15.phi    x                         -> hex hex        (Φ(x), Φ(−x): the driver's own distribution function)
  c15.simple sm ss load                -> hex hex        (pf_simple_load and its complement)
  c15.norm   sm ss lm ls               -> hex hex        (pf_norm_load and its complement 1 − pf = Φ(−z))
  c15.arb    sm ss (x pdf)*            -> hex            (pf_arbitrary_load)

`Φ` at `Float`: Marsaglia's series for |x| ≤ 2.5, the Laplace continued fraction of the Mills ratio beyond;
relative accuracy about 1e-14 in BOTH tails (the upper tail value is returned separately as Φ(−x), never as 1 − Φ).
-/
namespace PylifeVerif.Driver.C15
open PylifeVerif.FailureProb PylifeVerif.Driver

def normPdf (x : Float) : Float := Float.exp (-(x * x) / 2.0) / Float.sqrt (2.0 * 3.141592653589793)

/-- `Φ(x) = 1/2 + φ(x) (x + x³/3 + x⁵/(3·5) + …)` -/
def cdfSeries (x : Float) : Float := Id.run do
  let mut s := x
  let mut t := x
  for i in [1:120] do
    t := t * x * x / (2.0 * i.toFloat + 1.0)
    s := s + t
  return 0.5 + s * normPdf x

/-- upper tail `Q(z) = φ(z) / (z + 1/(z + 2/(z + 3/(z + …))))`, `z ≥ 2.5` (evaluated backwards). -/
def tailCF (z : Float) : Float := Id.run do
  let mut f := z
  for j in [0:160] do
    let k := (160 - j).toFloat
    f := z + k / f
  return normPdf z / f

def phi (x : Float) : Float :=
  if x < -2.5 then tailCF (-x) else if x > 2.5 then 1.0 - tailCF x else cdfSeries x

def parsePairs : List String → Option (List (Float × Float))
  | [] => some []
  | x :: y :: rest => do
    let x ← parseFloat? x
    let y ← parseFloat? y
    let r ← parsePairs rest
    some ((x, y) :: r)
  | _ => none

def handle : List String → Option String
  | ["c15.phi", x] => do
    let x ← parseFloat? x
    some s!"{floatHex (phi x)} {floatHex (phi (-x))}"
  | ["c15.simple", sm, ss, load] => do
    let sm ← parseFloat? sm
    let ss ← parseFloat? ss
    let load ← parseFloat? load
    some s!"{floatHex (pfSimpleLoad phi sm ss load)} {floatHex (pfSimpleLoad (fun x => phi (-x)) sm ss load)}"
  | ["c15.norm", sm, ss, lm, ls] => do
    let sm ← parseFloat? sm
    let ss ← parseFloat? ss
    let lm ← parseFloat? lm
    let ls ← parseFloat? ls
    some s!"{floatHex (pfNormLoad phi sm ss lm ls)} {floatHex (survNormLoad phi sm ss lm ls)}"
  | "c15.arb" :: sm :: ss :: rest => do
    let sm ← parseFloat? sm
    let ss ← parseFloat? ss
    let pts ← parsePairs rest
    some (floatHex (pfArbitraryLoad phi sm ss pts))
  | _ => none

end PylifeVerif.Driver.C15

namespace PylifeVerif.Driver

/-- protocol handler of the C15 model (ops `c15.*`) -/
def handleFailureProb : List String → Option String := C15.handle

end PylifeVerif.Driver
