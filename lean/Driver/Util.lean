/- Parsing / printing helpers for the line protocol (no Mathlib). -/
namespace PylifeVerif.Driver

def parseInt? (s : String) : Option Int := s.toInt?

def parseInts (l : List String) : Option (List Int) := l.mapM parseInt?

def parseNats (l : List String) : Option (List Nat) := l.mapM String.toNat?

def hexDigit? (c : Char) : Option Nat :=
  if '0' ≤ c ∧ c ≤ '9' then some (c.toNat - '0'.toNat)
  else if 'a' ≤ c ∧ c ≤ 'f' then some (c.toNat - 'a'.toNat + 10)
  else none

def parseHex? (s : String) : Option Nat :=
  s.toList.foldlM (fun acc c => (hexDigit? c).map (fun d => acc * 16 + d)) 0

/-- Doubles travel as the 16 hex digits of their IEEE-754 bit pattern. -/
def parseFloat? (s : String) : Option Float :=
  if s.length ≠ 16 then none else (parseHex? s).map fun n => Float.ofBits n.toUInt64

def parseFloats (l : List String) : Option (List Float) := l.mapM parseFloat?

def hexOfNat (n : Nat) (width : Nat) : String :=
  let rec go (n : Nat) (k : Nat) (acc : List Char) : List Char :=
    match k with
    | 0 => acc
    | k+1 => go (n / 16) k (Nat.digitChar (n % 16) :: acc)
  String.ofList (go n width [])

def floatHex (x : Float) : String := hexOfNat x.toBits.toNat 16

def joinInts (l : List Int) : String := " ".intercalate (l.map toString)
def joinNats (l : List Nat) : String := " ".intercalate (l.map toString)
def joinFloats (l : List Float) : String := " ".intercalate (l.map floatHex)

/-- Split `xs` into consecutive pieces of the given lengths. -/
def splitLens : List Nat → List α → List (List α)
  | [], _ => []
  | n :: ns, xs => xs.take n :: splitLens ns (xs.drop n)

end PylifeVerif.Driver
