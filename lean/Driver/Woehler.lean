import Model.Num
import Model.Woehler
import Driver.Util
/-!
Protocol handler for the Woehler-curve model (C08).  `scipy.stats.norm.ppf` is replaced by a
`Float` implementation: Abramowitz-Stegun 26.2.23 start value + Newton steps on a series /
continued-fraction normal distribution function (accuracy ~1e-15, compared with a tolerance).
-/
namespace PylifeVerif.Driver.WC
open PylifeVerif PylifeVerif.Woehler PylifeVerif.Driver

namespace NormalQ

def invSqrt2Pi : Float := 0.3989422804014326779399460599343818684758586311649

def dens (x : Float) : Float := invSqrt2Pi * Float.exp (-(x * x) / 2.0)

/-- `Φ(x) − 1/2 = φ(x)·Σ_{n≥0} x^(2n+1)/(1·3·…·(2n+1))`, used for `|x| ≤ 2`. -/
def half (x : Float) : Float := Id.run do
  let x2 := x * x
  let mut term := x
  let mut sum := x
  for n in [1:120] do
    term := term * x2 / (2.0 * n.toFloat + 1.0)
    sum := sum + term
  return dens x * sum

/-- upper tail `Q(x) = φ(x) / (x + 1/(x + 2/(x + 3/(x + …))))` for `x > 2`. -/
def tail (x : Float) : Float := Id.run do
  let mut t := x
  for i in [0:400] do
    let k := (400 - i).toFloat
    t := x + k / t
  return dens x / t

/-- `Q(y) − p` for `p ≤ 1/2`. -/
def resid (y p : Float) : Float :=
  if y ≤ 1.0 then (0.5 - p) - half y else tail y - p

/-- `−Φ⁻¹(p)` for `0 < p ≤ 1/2`. -/
def upper (p : Float) : Float := Id.run do
  let t := Float.sqrt (-2.0 * Float.log p)
  let mut y := t - (2.515517 + 0.802853 * t + 0.010328 * t * t)
      / (1.0 + 1.432788 * t + 0.189269 * t * t + 0.001308 * t * t * t)
  for _ in [0:6] do
    y := y + resid y p / dens y
  return y

/-- `scipy.stats.norm.ppf` -/
def ppf (p : Float) : Float :=
  if p == 0.5 then 0.0
  else if p ≤ 0.0 then (if p == 0.0 then -(1.0 / 0.0) else 0.0 / 0.0)
  else if p ≥ 1.0 then (if p == 1.0 then 1.0 / 0.0 else 0.0 / 0.0)
  else if p < 0.5 then -(upper p)
  else if p > 0.5 then upper (1.0 - p)
  else 0.0 / 0.0

end NormalQ

def lifeOfFloat (x : Float) : Life Float := if x.isFinite then Life.finite x else Life.inf
def floatOfLife : Life Float → Float
  | Life.finite x => x
  | Life.inf => 1.0 / 0.0

def optFloat? (s : String) : Option (Option Float) :=
  if s == "-" then some none else (parseFloat? s).map some

/-- 7 tokens `k_1 k_2 SD ND TN TS failure_probability`; `-` for a missing `TN`, `TS`,
`failure_probability` (`_validate` fills them in). -/
def curveOf : List String → Option (Curve Float)
  | [k1, k2, sd, nd, tn, ts, pf] => do
    let k1 ← parseFloat? k1
    let k2 ← parseFloat? k2
    let sd ← parseFloat? sd
    let nd ← parseFloat? nd
    let tn ← optFloat? tn
    let ts ← optFloat? ts
    let pf ← optFloat? pf
    let t := validateScatter k1 tn ts
    some { k1 := k1, k2 := lifeOfFloat k2, SD := sd, ND := nd, TN := t.1, TS := t.2, pf := pf.getD 0.5 }
  | _ => none

def curvesOf : Nat → List String → Option (List (Curve Float))
  | 0, _ => some []
  | n+1, xs => do
    let c ← curveOf (xs.take 7)
    let cs ← curvesOf n (xs.drop 7)
    some (c :: cs)

def showCurve (w : Curve Float) : String :=
  joinFloats [w.k1, floatOfLife w.k2, w.SD, w.ND, w.TN, w.TS, w.pf]

end PylifeVerif.Driver.WC

namespace PylifeVerif.Driver
open PylifeVerif PylifeVerif.Woehler PylifeVerif.Driver.WC

/-- `wc <sub-op> …` -/
def handleWoehler : List String → Option String
  | "wc" :: "cyc" :: rest => do
    let w ← curveOf (rest.take 7)
    let xs ← parseFloats (rest.drop 7)
    match xs with
    | [p, l] => some (floatHex (floatOfLife (cycles NormalQ.ppf w p l)))
    | _ => none
  | "wc" :: "load" :: rest => do
    let w ← curveOf (rest.take 7)
    let xs ← parseFloats (rest.drop 7)
    match xs with
    | [p, n] => some (floatHex (load NormalQ.ppf w p n))
    | _ => none
  | "wc" :: "tr" :: rest => do
    let w ← curveOf (rest.take 7)
    let xs ← parseFloats (rest.drop 7)
    match xs with
    | [p] => some (showCurve (transform NormalQ.ppf w p))
    | _ => none
  | "wc" :: "tr2" :: rest => do
    let w ← curveOf (rest.take 7)
    let xs ← parseFloats (rest.drop 7)
    match xs with
    | [p1, p2] => some (showCurve (transform NormalQ.ppf (transform NormalQ.ppf w p1) p2))
    | _ => none
  | "wc" :: "miner" :: kind :: rest => do
    let w ← curveOf rest
    match kind with
    | "orig" => some (showCurve (minerOriginal w))
    | "elem" => some (showCurve (minerElementary w))
    | "haib" => some (showCurve (minerHaibach w))
    | _ => none
  | ["wc", "val", k1, tn, ts] => do
    let k1 ← parseFloat? k1
    let tn ← optFloat? tn
    let ts ← optFloat? ts
    let r := validateScatter k1 tn ts
    some (joinFloats [r.1, r.2])
  | ["wc", "r2s", t] => do
    let t ← parseFloat? t
    some (floatHex (scatteringRangeToStd t))
  | ["wc", "s2r", s] => do
    let s ← parseFloat? s
    some (floatHex (stdToScatteringRange s))
  | ["wc", "ppf", p] => do
    let p ← parseFloat? p
    some (floatHex (NormalQ.ppf p))
  | ["wc", "consts"] =>
    some (joinFloats [2.0 * NormalQ.ppf 0.9 * (cRange : Float) - 1.0, (cRange : Float) * cStd - 1.0,
                      (cStd : Float) - 2.0 * NormalQ.ppf 0.9])
  | "wc" :: "cycs" :: rest => do
    let w ← curveOf (rest.take 7)
    let xs ← parseFloats (rest.drop 7)
    match xs with
    | p :: ls => some (joinFloats ((cyclesSeries NormalQ.ppf w p ls).map floatOfLife))
    | _ => none
  | "wc" :: "loads" :: rest => do
    let w ← curveOf (rest.take 7)
    let xs ← parseFloats (rest.drop 7)
    match xs with
    | p :: ns => some (joinFloats (loadSeries NormalQ.ppf w p ns))
    | _ => none
  | "wc" :: "cross" :: n :: rest => do
    let n ← n.toNat?
    let ws ← curvesOf n rest
    let xs ← parseFloats (rest.drop (7 * n))
    match xs with
    | p :: ls => some (joinFloats ((cyclesCross NormalQ.ppf ws p ls).map floatOfLife))
    | _ => none
  | "wc" :: "zip" :: n :: rest => do
    let n ← n.toNat?
    let ws ← curvesOf n rest
    let xs ← parseFloats (rest.drop (7 * n))
    match xs with
    | p :: ls => some (joinFloats ((cyclesZip NormalQ.ppf ws p ls).map floatOfLife))
    | _ => none
  | _ => none

end PylifeVerif.Driver
