import Model.Collective
import Driver.Util
namespace PylifeVerif.Driver
open PylifeVerif.Collective

private def rowsOf : List Float → List (Row Float)
  | a :: b :: c :: rest => ⟨a, b, c⟩ :: rowsOf rest
  | _ => []

private def binsOfFlat : List Float → List (Bin Float)
  | a :: b :: c :: rest => ⟨a, b, c⟩ :: binsOfFlat rest
  | _ => []

private def cellsOfFlat : List Float → List (Cell Float)
  | a :: b :: c :: d :: e :: rest => ⟨a, b, c, d, e⟩ :: cellsOfFlat rest
  | _ => []

private def obinsOfFlat : List Float → List (OBin Float)
  | a :: b :: c :: rest => ⟨a, b, if c.isNaN then none else some c⟩ :: obinsOfFlat rest
  | _ => []

private def chainParts : Nat → List String → Option (List (List Float × List (Row Float)))
  | 0, _ => some []
  | k + 1, toks => do
    let ne ← (← toks.head?).toNat?
    let e ← parseFloats ((toks.drop 1).take ne)
    let toks2 := toks.drop (1 + ne)
    let nr ← (← toks2.head?).toNat?
    let v ← parseFloats ((toks2.drop 1).take (3 * nr))
    let more ← chainParts k (toks2.drop (1 + 3 * nr))
    some ((e, rowsOf v) :: more)

private def nanF : Float := 0.0 / 0.0

private def showOpts (l : List (Option Float)) : String := joinFloats (l.map fun v => v.getD nanF)

private def showBins (l : List (Bin Float)) : String :=
  joinFloats (l.flatMap fun b => [b.l, b.r, b.v])

/-- `c14 <op> <args…>`; doubles as 16 hex digits, counts decimal.

* `derive fr to`                      → amplitude mean upper lower R
* `rm range mean`                     → from to
* `scale f fr to` / `shift d fr to`   → from to
* `rhist ne e… (fr to cyc)…`          → class contents of `range_histogram(edges)`
* `rhistn n (fr to cyc)…`             → `edges;contents` of `range_histogram(n)`
* `hist2 ne e… (fr to cyc)…`          → contents (row-major) of `histogram(edges)`
* `hist2n n (fr to cyc)…`             → `range edges;mean edges;contents` of `histogram(n)`
* `fthist ne e… (fr to cyc)…`         → contents of the recorder's from/to histogram (handled, but the harness never emits
  it today: the recorder cases go through `fthist2` / `fthistn`)
* `fthist2 nex ex… ney ey… (fr to cyc)…` → `ex;ey;contents` with different edges for from and to (`[ex, ey]`)
* `fthistn nx ny (fr to cyc)…`        → `from edges;to edges;contents` for class counts `[nx, ny]`
* `chain nt t… k [ne e… nr (fr to cyc)×nr]×k` → per collective `range_histogram(e)`, `;`, each re-binned to `t`, `;`, combined
* `rmclass rl rr ml mr f d`           → `amp mean upper lower R;` same after `scale(f)`; same after `shift(d)`
* `r1class rl rr f d`                 → likewise for a range-only histogram (no mean level)
* `ftclass fl fr tl tr f d`           → likewise for a from/to matrix class
* `rebin nb b… (l r v)…`              → contents after `rebin_histogram(src, from_breaks(b))`
* `rebinn n (l r v)…`                 → `breaks;contents` of `rebin_histogram(src, n)`
* `rebin2 nb b… nc c… (l r v)…`       → contents after re-binning to `b` and then to `c`
* `rebin2d n1 n2 t1 nb1 b… t2 nb2 b… (xl xr yl yr v)…` → row-major contents of a two-level histogram (level names
  `n1 n2`) re-binned to a MultiIndex target whose levels `t1`, `t2` (any order) carry the breaks
* `combine k len₁ … len_k (l r v)…`   → combined `(l r v)…` (a NaN content is an unoccupied class)
* `rebino nd nb b… (l r v)…`          → contents after `rebin_histogram(src, from_breaks(b), nan_default=nd)`, NaN for unoccupied
  (handled, but the harness never emits it today: `nan_default` is exercised through `pipe`)
* `pipe nd nb b… k len₁ … len_k (l r v)…` → every histogram re-binned to `b` (`;`-separated), then `;` the combination
-/
def handleCollective : List String → Option String
  | "c14" :: op :: rest =>
    match op with
    | "derive" => do
      let v ← parseFloats rest
      match v with
      | [a, b] =>
        let r : Row Float := ⟨a, b, 1.0⟩
        some (joinFloats [amplitude r, meanstress r, upper r, lower r, rvalue r])
      | _ => none
    | "rm" => do
      let v ← parseFloats rest
      match v with
      | [a, b] => let r := fromRangeMean a b (1.0 : Float); some (joinFloats [r.fr, r.to])
      | _ => none
    | "scale" => do
      let v ← parseFloats rest
      match v with
      | [f, a, b] => let r := scale f (⟨a, b, 1.0⟩ : Row Float); some (joinFloats [r.fr, r.to])
      | _ => none
    | "shift" => do
      let v ← parseFloats rest
      match v with
      | [f, a, b] => let r := shift f (⟨a, b, 1.0⟩ : Row Float); some (joinFloats [r.fr, r.to])
      | _ => none
    | "rhist" | "hist2" | "fthist" => do
      let ne ← (← rest.head?).toNat?
      let v ← parseFloats rest.tail
      let edges := v.take ne
      let rows := rowsOf (v.drop ne)
      match op with
      | "rhist" => some (joinFloats (rangeHistogram edges rows))
      | "hist2" => some (joinFloats (rangeMeanHistogram edges edges rows).flatten)
      | _ => some (joinFloats (fromToHistogram edges edges rows).flatten)
    | "fthist2" => do
      -- fthist2 nex ex… ney ey… (fr to cyc)…
      let nex ← (← rest.head?).toNat?
      let ex ← parseFloats ((rest.drop 1).take nex)
      let rest2 := rest.drop (1 + nex)
      let ney ← (← rest2.head?).toNat?
      let v ← parseFloats rest2.tail
      some (joinFloats ex ++ ";" ++ joinFloats (v.take ney) ++ ";" ++
        joinFloats (fromToHistogram ex (v.take ney) (rowsOf (v.drop ney))).flatten)
    | "fthistn" => do
      -- fthistn nx ny (fr to cyc)…
      let nx ← (← rest.head?).toNat?
      let ny ← (← (rest.drop 1).head?).toNat?
      let rows := rowsOf (← parseFloats (rest.drop 2))
      let ef := autoEdges (rows.map (·.fr)) nx
      let et := autoEdges (rows.map (·.to)) ny
      some (joinFloats ef ++ ";" ++ joinFloats et ++ ";" ++ joinFloats (fromToHistogram ef et rows).flatten)
    | "chain" => do
      -- chain nt t… k [ne e… nr (fr to cyc)×nr]×k
      let nt ← (← rest.head?).toNat?
      let t ← parseFloats ((rest.drop 1).take nt)
      let rest2 := rest.drop (1 + nt)
      let k ← (← rest2.head?).toNat?
      let parts ← chainParts k rest2.tail
      let hs := parts.map fun p => rangeHistogram p.1 p.2
      let rb := parts.map fun p => rebin (binsOf p.1 (rangeHistogram p.1 p.2)) t
      some (";".intercalate (hs.map joinFloats) ++ ";" ++ ";".intercalate (rb.map joinFloats) ++ ";" ++
        showBins (histRebinCombine parts t))
    | "rhistn" => do
      let n ← (← rest.head?).toNat?
      let rows := rowsOf (← parseFloats rest.tail)
      let edges := autoEdges (rows.map rangeOf) n
      some (joinFloats edges ++ ";" ++ joinFloats (rangeHistogram edges rows))
    | "hist2n" => do
      let n ← (← rest.head?).toNat?
      let rows := rowsOf (← parseFloats rest.tail)
      let er := autoEdges (rows.map rangeOf) n
      let em := autoEdges (rows.map meanstress) n
      some (joinFloats er ++ ";" ++ joinFloats em ++ ";" ++ joinFloats (rangeMeanHistogram er em rows).flatten)
    | "rmclass" => do
      let v ← parseFloats rest
      match v with
      | [rl, rr, ml, mr, f, d] =>
        let c : RMClass Float := ⟨rl, rr, ml, mr⟩
        let q := fun (c : RMClass Float) => joinFloats [rmAmplitude c, rmMean c, rmUpper c, rmLower c, fillR (rmLower c) (rmUpper c)]
        some (q c ++ ";" ++ q (rmScale f c) ++ ";" ++ q (rmShift d c))
      | _ => none
    | "r1class" => do
      let v ← parseFloats rest
      match v with
      | [rl, rr, f, d] =>
        let c : RMClass Float := ⟨rl, rr, 0.0, 0.0⟩
        let q := fun (c : RMClass Float) => joinFloats [rmAmplitude c, rmMean c, rmUpper c, rmLower c, fillR (rmLower c) (rmUpper c)]
        some (q c ++ ";" ++ q (rmScale f c) ++ ";" ++ q (r1Shift d c))
      | _ => none
    | "ftclass" => do
      let v ← parseFloats rest
      match v with
      | [fl, fr, tl, tr, f, d] =>
        let c : FTClass Float := ⟨fl, fr, tl, tr⟩
        let q := fun (c : FTClass Float) => joinFloats [ftAmplitude c, ftMean c, ftUpper c, ftLower c, fillR (ftLower c) (ftUpper c)]
        some (q c ++ ";" ++ q (ftScale f c) ++ ";" ++ q (ftShift d c))
      | _ => none
    | "rebin" => do
      let nb ← (← rest.head?).toNat?
      let v ← parseFloats rest.tail
      some (joinFloats (rebin (binsOfFlat (v.drop nb)) (v.take nb)))
    | "rebinn" => do
      let n ← (← rest.head?).toNat?
      let src := binsOfFlat (← parseFloats rest.tail)
      let br := linspace (minL (src.map (·.l))) (maxL (src.map (·.r))) n
      some (joinFloats br ++ ";" ++ joinFloats (rebin src br))
    | "rebin2" => do
      let nb ← (← rest.head?).toNat?
      let b ← parseFloats ((rest.drop 1).take nb)
      let rest2 := rest.drop (1 + nb)
      let nc ← (← rest2.head?).toNat?
      let v ← parseFloats rest2.tail
      let src := binsOfFlat (v.drop nc)
      some (joinFloats (rebin (rebinBins src b) (v.take nc)))
    | "rebin2d" => do
      -- rebin2d n1 n2 t1 nb1 b… t2 nb2 b… (xl xr yl yr v)…
      match rest with
      | n1 :: n2 :: t1 :: nb1 :: rest1 =>
        let nb1 ← nb1.toNat?
        let b1 ← parseFloats (rest1.take nb1)
        match rest1.drop nb1 with
        | t2 :: nb2 :: rest2 =>
          let nb2 ← nb2.toNat?
          let b2 ← parseFloats (rest2.take nb2)
          let cells := cellsOfFlat (← parseFloats (rest2.drop nb2))
          some (joinFloats (rebin2Named (n1, n2) [(t1, b1), (t2, b2)] cells).flatten)
        | _ => none
      | _ => none
    | "combine" => do
      let k ← (← rest.head?).toNat?
      let lens ← parseNats ((rest.drop 1).take k)
      let v ← parseFloats (rest.drop (1 + k))
      let bins := obinsOfFlat v
      if lens.sum ≠ bins.length then none else
      some (showBins (combineOpt (splitLens lens bins)))
    | "rebino" => do
      -- rebino nd nb b… (l r v|NaN)…
      let nd ← (← rest.head?).toNat?
      let nb ← (← (rest.drop 1).head?).toNat?
      let v ← parseFloats (rest.drop 2)
      some (showOpts (rebinOpt (nd != 0) (obinsOfFlat (v.drop nb)) (v.take nb)))
    | "pipe" => do
      -- pipe nd nb b… k len₁ … len_k (l r v|NaN)…
      let nd ← (← rest.head?).toNat?
      let nb ← (← (rest.drop 1).head?).toNat?
      let b ← parseFloats ((rest.drop 2).take nb)
      let rest2 := rest.drop (2 + nb)
      let k ← (← rest2.head?).toNat?
      let lens ← parseNats ((rest2.drop 1).take k)
      let bins := obinsOfFlat (← parseFloats (rest2.drop (1 + k)))
      if lens.sum ≠ bins.length then none else
      let hs := splitLens lens bins
      let parts := hs.map fun h => showOpts (rebinOpt (nd != 0) h b)
      some (";".intercalate parts ++ ";" ++ showBins (rebinCombine (nd != 0) hs b))
    | _ => none
  | _ => none

end PylifeVerif.Driver
