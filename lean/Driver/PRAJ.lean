import Model.PRAJ
import Driver.Util
import Driver.Assessment
/-
Line protocol for the P_RAJ model (`Model/PRAJ.lean`) at `Float`.

  praj.par  group Rm krp beta pa05 Aref Asigma G
        -> hex(gamma_M_RAJ) hex(f_RAJ) hex(P_RAJ_Z) hex(P_RAJ_D_0)
  praj.cls  n  edge_0 … edge_n  P…          -> class index of every P in the GIVEN edges (exact)
  praj.xbar q jmin n  dm_0 … dm_{n-1}  fd_0 … fd_{n-2}
        -> hex(loop from jmin) hex(direct sum) hex(unrepaired loop from jmin)
  praj.calc d PZ PD0 a_0 l_star P_RAJ_D_e nBins jmin nRows  (P D P_RAJ_D run)…  edge_0 … edge_n
        DamageCalculatorPRAJ on GIVEN class edges and short-crack constants
        -> h_0 … h_{n-1} nNot H0 q idx early infinite hex(xbar-2) hex(n_seq) hex(n_cycles)
  praj.run  group Rm K' n' PZ PD0 nBins jmin nBeta nRows  betas…  rows…
        one row = S_min S_max eps_min eps_max eps_min_LF eps_max_LF closed zeroMean run;  jmin = `-` (own q) or a number
        -> rows:  case 4a? hex(S_open) hex(eps_open_ein) hex(eps_open) hex(S_close) hex(P_RAJ) hex(D) hex(P_RAJ_D) hex(eps_open_alt)
           | hex(klass_max) hex(P_RAJ_D_e) hex(a_0) hex(l_star)
           | edges
           | h_0 … h_{n-1} nNot H0 q idx early infinite
           | hex(xbar-2) hex(n_seq) hex(n_cycles) hex(xbar-2 by the direct sum)
           | N_max_bearable per beta
        or `fail` when the closure-stress iteration does not converge (the code raises RuntimeError)
-/
namespace PylifeVerif.Driver.PRAJ
open PylifeVerif.FkmNl PylifeVerif.PRAJ PylifeVerif.Driver

def inf : Float := 1.0 / 0.0

def lifeHex : Life Float → String
  | .finite x => floatHex x
  | .inf => floatHex inf

def parseRows : Nat → List String → Option (List (HRow Float))
  | 0, _ => some []
  | k+1, a :: b :: c :: d :: e :: f :: cl :: zm :: run :: rest => do
    let a ← parseFloat? a
    let b ← parseFloat? b
    let c ← parseFloat? c
    let d ← parseFloat? d
    let e ← parseFloat? e
    let f ← parseFloat? f
    let run ← run.toNat?
    let r : HRow Float := { sMin := a, sMax := b, eMin := c, eMax := d, eMinLF := e, eMaxLF := f, closed := cl = "1", zeroMean := zm = "1", run := run }
    (parseRows k rest).map (r :: ·)
  | _, _ => none

def showRow (o : ORow Float) : String :=
  s!"{o.case} {if o.sub4a then 1 else 0} {joinFloats [o.sOpen, o.eOpenEin, o.eOpen, o.sClose, o.P, o.D, o.PD, o.eOpenAlt]}"

def handle : List String → Option String
  | ["praj.par", g, rm, krp, beta, pa05, aref, asig, gg] => do
    let g ← C10.parseGroup? g
    let rm ← parseFloat? rm
    let krp ← parseFloat? krp
    let beta ← parseFloat? beta
    let aref ← parseFloat? aref
    let asig ← parseFloat? asig
    let gg ← parseFloat? gg
    let p : Assess.Params Float := { g := g, Rm := rm, krp := krp, beta := beta, pa05 := pa05 = "1", Aref := aref, Asigma := asig, G := gg }
    let k : Consts Float := consts g
    let c := componentCurveJ p
    some (joinFloats [gammaMJ p.beta p.pa05, fRAJ (gammaMJ p.beta p.pa05) (Assess.nP k p.Aref p.Asigma p.Rm p.G) p.krp, c.PZ, c.PD0])
  | "praj.cls" :: n :: rest => do
    let n ← n.toNat?
    let es ← parseFloats (rest.take (n + 1))
    let ps ← parseFloats (rest.drop (n + 1))
    if es.length ≠ n + 1 then none else
    some (joinInts (ps.map (classIdx n es)))
  | "praj.xbar" :: q :: jmin :: n :: rest => do
    let q ← q.toNat?
    let jmin ← jmin.toNat?
    let n ← n.toNat?
    let dm ← parseFloats (rest.take n)
    let fd ← parseFloats (rest.drop n)
    if dm.length ≠ n then none else
    let dmf : Nat → Float := fun i => dm.getD i 0.0
    let fdf : Nat → Float := fun i => fd.getD i 0.0
    some s!"{lifeHex (xbarLoop dmf fdf q jmin n)} {lifeHex (xbarSum dmf fdf q n)} {lifeHex (xbarLoopOld dmf fdf q jmin n)}"
  | "praj.calc" :: d :: pz :: pd0 :: a0 :: lstar :: pde :: nb :: jmin :: nrows :: rest => do
    -- rows: P D PD run ; then n+1 edges
    let d ← parseFloat? d
    let pz ← parseFloat? pz
    let pd0 ← parseFloat? pd0
    let a0 ← parseFloat? a0
    let lstar ← parseFloat? lstar
    let pde ← parseFloat? pde
    let n ← nb.toNat?
    let jm : Option Nat ← (if jmin = "-" then some none else jmin.toNat?.map some)
    let nrows ← nrows.toNat?
    let es ← parseFloats ((rest.drop (4 * nrows)).take (n + 1))
    if es.length ≠ n + 1 then none else
    let c : PrajCurve Float := { d := d, PZ := pz, PD0 := pd0, PD := pd0 }
    let kc : Crack Float := { m := (-(1.0)) / d, C := 0.0, aEnd := 0.5, a0 := a0, dJ := 0.0, lStar := lstar, PDe := pde }
    let rec rowsOf : Nat → List String → Option (List (ORow Float))
      | 0, _ => some []
      | k+1, p :: dd :: pd :: run :: more => do
        let p ← parseFloat? p
        let dd ← parseFloat? dd
        let pd ← parseFloat? pd
        let run ← run.toNat?
        let o : ORow Float := { case := 0, sub4a := false, sOpen := 0, eOpenEin := 0, eOpen := 0, sClose := 0, dS := 0, dE := 0,
                                P := p, N := .inf, D := dd, PD := pd, eOpenAlt := 0, closed := true, run := run }
        (rowsOf k more).map (o :: ·)
      | _, _ => none
    let out ← rowsOf nrows rest
    let r := damageCore c kc n (es.headD 0) es jm out
    let b (x : Bool) : String := if x then "1" else "0"
    some s!"{joinNats r.h} {r.nNot} {r.H0} {r.q} {r.idx} {b r.early} {b r.infinite} {lifeHex r.xbarM2} {lifeHex r.nSeq} {lifeHex r.nCycles}"
  | "praj.run" :: g :: rm :: kk :: nn :: pz :: pd0 :: nb :: jmin :: nbeta :: nrows :: rest => do
    let g ← C10.parseGroup? g
    let k : Consts Float := consts g
    let rm ← parseFloat? rm
    let kk ← parseFloat? kk
    let nn ← parseFloat? nn
    let m : Mat Float := { E := k.E, K := kk, n := nn, Rm := rm, M := mSigmaOf g rm }
    let pd0 ← parseFloat? pd0
    let pz ← parseFloat? pz
    let c : PrajCurve Float := { d := k.d_RAJ, PZ := pz, PD0 := pd0, PD := pd0 }
    let n ← nb.toNat?
    let jm : Option Nat ← (if jmin = "-" then some none else jmin.toNat?.map some)
    let nbeta ← nbeta.toNat?
    let nrows ← nrows.toNat?
    let betas ← parseFloats (rest.take nbeta)
    let rows ← parseRows nrows (rest.drop nbeta)
    if betas.length ≠ nbeta then none else
    match prajRows m c (newtonClose m) rows with
    | none => some "fail"
    | some out =>
      let r := damageCalc m c n jm rows out
      let kc := crackOf m.E c
      let ms := mids r.es
      let dm := dmOf c (lastPDOf out) ms r.h
      let fd := fdOf kc c ms
      let direct : Life Float := if r.q < 0 then .inf else xbarSum dm fd r.q.toNat n
      let b (x : Bool) : String := if x then "1" else "0"
      some (" | ".intercalate [
        " ".intercalate (out.map showRow),
        joinFloats [r.kmax, r.PDe, kc.a0, kc.lStar],
        joinFloats r.es,
        s!"{joinNats r.h} {r.nNot} {r.H0} {r.q} {r.idx} {b r.early} {b r.infinite}",
        s!"{lifeHex r.xbarM2} {lifeHex r.nSeq} {lifeHex r.nCycles} {lifeHex direct}",
        " ".intercalate (betas.map fun be => lifeHex (nMaxBearable r.nCycles k.f25_RAJ k.d_RAJ be))])
  | _ => none

end PylifeVerif.Driver.PRAJ

namespace PylifeVerif.Driver
def handlePRAJ : List String → Option String := PRAJ.handle
end PylifeVerif.Driver
