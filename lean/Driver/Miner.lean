import Model.Miner
import Driver.Util
import Driver.Woehler
/-! Line protocol of the Miner-rule model (C11).  Doubles travel as 16 hex digits.  The curve is the 7 tokens
`k_1 k_2 SD ND TN TS failure_probability` of the C08 protocol (`-` for a missing `TN`, `TS`, `failure_probability`;
`scipy.stats.norm.ppf` is the driver's `NormalQ.ppf`).

* `mn_damage <curve> S_1 n_1 … S_m n_m` → per-class damage values, then the damage sum (m+1 doubles)
* `mn_miner  <curve> S_1 n_1 … S_m n_m` → `degenerate` when no occupied class carries load, else
  `V A_ele A_hai NG_ele NG_hai Dm_ele Dm_hai flf(total) ND_gassner D_ele(applied NG_ele) D_hai(applied NG_hai)
   N_gassnercurve(maxOcc) D_orig D_hai D_ele V_fkm`
* `mn_seq <e|h|f> <curve> <call> …` → a sequence of calls on ONE accessor object (`Miner.run`, state threaded):
  the answers in call order (`n/a` = no such method), `|`, the object's class and curve after the last call.
  Calls: `lm k S_1 n_1 … S_k n_k` (lifetime_multiple), `gc k …` (gassner_cycles), `eds k …` (effective_damage_sum),
  `gnd k …` (gassner(…).ND), `flf N` (finite_life_factor), `dmg <own|o|e|h> k …` (damage(…).sum() of the variant)
* `mn_eds A` → effective damage sum;  `mn_flf k1 ND N` → finite life factor
-/
namespace PylifeVerif.Driver
open PylifeVerif PylifeVerif.Miner

namespace MN

def pairs : List Float → Option (Coll Float)
  | [] => some []
  | S :: n :: rest => (pairs rest).map ((S, n) :: ·)
  | _ => none

def optF : Option Float → Float
  | some x => x
  | none => 1.0 / 0.0

def ppf : Float → Float := WC.NormalQ.ppf

def takeColl (k : String) (toks : List String) : Option (Coll Float × List String) := do
  let k ← k.toNat?
  if toks.length < 2 * k then none else
  let l ← pairs (← parseFloats (toks.take (2 * k)))
  some (l, toks.drop (2 * k))

def variantOf : String → Option Variant
  | "own" => some .own
  | "o" => some .original
  | "e" => some .elementary
  | "h" => some .haibach
  | _ => none

/-- the calls of a `mn_seq` line (fuel = number of tokens) -/
def parseOps : Nat → List String → Option (List (Op Float))
  | _, [] => some []
  | 0, _ => none
  | fuel + 1, "flf" :: n :: rest => do
    let n ← parseFloat? n
    let r ← parseOps fuel rest
    some (Op.finiteLifeFactor n :: r)
  | fuel + 1, "dmg" :: v :: k :: rest => do
    let v ← variantOf v
    let (l, rest) ← takeColl k rest
    let r ← parseOps fuel rest
    some (Op.damageSum v l :: r)
  | fuel + 1, name :: k :: rest => do
    let (l, rest) ← takeColl k rest
    let op ← match name with
      | "lm" => some (Op.lifetimeMultiple l)
      | "gc" => some (Op.gassnerCycles l)
      | "eds" => some (Op.effectiveDamageSum l)
      | "gnd" => some (Op.gassnerND l)
      | _ => none
    let r ← parseOps fuel rest
    some (op :: r)
  | _, _ => none

def kindOf : String → Option Kind
  | "e" => some .elementary
  | "h" => some .haibach
  | "f" => some .fatigue
  | _ => none

def kindName : Kind → String
  | .elementary => "e"
  | .haibach => "h"
  | .fatigue => "f"

def showAnswer : Option Float → String
  | some x => floatHex x
  | none => "n/a"

end MN
open MN

def handleMiner : List String → Option String
  | "mn_damage" :: rest => do
    let w ← WC.curveOf (rest.take 7)
    let l ← pairs (← parseFloats (rest.drop 7))
    some (joinFloats (damageW ppf w l ++ [damageSumW ppf w l]))
  | "mn_miner" :: rest => do
    let w ← WC.curveOf (rest.take 7)
    let l ← pairs (← parseFloats (rest.drop 7))
    if (occupied l).isEmpty || !(0.0 < maxOcc l) then some "degenerate" else
    let Ae := lifetimeMultipleElementaryW w l
    let Ah := lifetimeMultipleHaibachW ppf w l
    let NGe := gassnerCyclesElementaryW ppf w l
    let NGh := gassnerCyclesHaibachW ppf w l
    let g := gassnerCurveW w l
    some (joinFloats [solidityHaibach l w.k1, Ae, Ah, NGe, NGh, effectiveDamageSum Ae, effectiveDamageSum Ah,
      finiteLifeFactor (ofWoehler w) (total l), g.ND,
      damageSumW ppf (Woehler.minerElementary w) (applyFor NGe l),
      damageSumW ppf (Woehler.minerHaibach w) (applyFor NGh l),
      optF (cycles (at50 ppf g) (maxOcc l)),
      damageSumW ppf (Woehler.minerOriginal w) l, damageSumW ppf (Woehler.minerHaibach w) l,
      damageSumW ppf (Woehler.minerElementary w) l, solidityFkm l w.k1])
  | "mn_seq" :: kind :: rest => do
    let kind ← kindOf kind
    let w ← WC.curveOf (rest.take 7)
    let ops ← parseOps rest.length (rest.drop 7)
    let r := run ppf { kind := kind, curve := w } ops
    some (" ".intercalate (r.2.map showAnswer ++ ["|", kindName r.1.kind, WC.showCurve r.1.curve]))
  | ["mn_eds", a] => do
    let a ← parseFloat? a
    some (floatHex (effectiveDamageSum a))
  | ["mn_flf", k1, nd, n] => do
    let k1 ← parseFloat? k1
    let nd ← parseFloat? nd
    let n ← parseFloat? n
    some (floatHex (finiteLifeFactor ({ k1 := k1, k2 := none, SD := 1.0, ND := nd } : Miner.Curve Float) n))
  | _ => none

end PylifeVerif.Driver
