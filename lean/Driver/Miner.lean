import Model.Miner
import Driver.Util
import Driver.Woehler
/-! Line protocol of the Miner-rule model (C11).  Doubles travel as 16 hex digits.  The curve is the 7 tokens
`k_1 k_2 SD ND TN TS failure_probability` of the C08 protocol (`-` for a missing `TN`, `TS`, `failure_probability`;
`scipy.stats.norm.ppf` is the driver's `NormalQ.ppf`).

* `mn_damage <curve> S_1 n_1 … S_m n_m` → per-class damage values, then the damage sum (m+1 doubles)
* `mn_miner  <curve> S_1 n_1 … S_m n_m` → `degenerate` when no occupied class carries load, else
  `V A_ele A_hai NG_ele NG_hai Dm_ele Dm_hai flf(total) ND_gassner D_ele(applied NG_ele) D_hai(applied NG_hai)
   N_gassnercurve(maxOcc) D_orig D_hai D_ele`
* `mn_eds A` → effective damage sum;  `mn_flf k1 ND N` → finite life factor
-/
namespace PylifeVerif.Driver
open PylifeVerif PylifeVerif.Miner

namespace MN

def pairs : List Float → Option (Coll Float)
  | [] => some []
  | S :: n :: rest => (pairs rest).map ((S, n) :: ·)
  | _ => none

def optF : Option Float → Float
  | some x => x
  | none => 1.0 / 0.0

def ppf : Float → Float := WC.NormalQ.ppf

end MN
open MN

def handleMiner : List String → Option String
  | "mn_damage" :: rest => do
    let w ← WC.curveOf (rest.take 7)
    let l ← pairs (← parseFloats (rest.drop 7))
    some (joinFloats (damageW ppf w l ++ [damageSumW ppf w l]))
  | "mn_miner" :: rest => do
    let w ← WC.curveOf (rest.take 7)
    let l ← pairs (← parseFloats (rest.drop 7))
    if (occupied l).isEmpty || !(0.0 < maxOcc l) then some "degenerate" else
    let Ae := lifetimeMultipleElementaryW w l
    let Ah := lifetimeMultipleHaibachW ppf w l
    let NGe := gassnerCyclesElementaryW ppf w l
    let NGh := gassnerCyclesHaibachW ppf w l
    let g := gassnerCurveW w l
    some (joinFloats [solidityHaibach l w.k1, Ae, Ah, NGe, NGh, effectiveDamageSum Ae, effectiveDamageSum Ah,
      finiteLifeFactor (ofWoehler w) (total l), g.ND,
      damageSumW ppf (Woehler.minerElementary w) (applyFor NGe l),
      damageSumW ppf (Woehler.minerHaibach w) (applyFor NGh l),
      optF (cycles (at50 ppf g) (maxOcc l)),
      damageSumW ppf (Woehler.minerOriginal w) l, damageSumW ppf (Woehler.minerHaibach w) l,
      damageSumW ppf (Woehler.minerElementary w) l])
  | ["mn_eds", a] => do
    let a ← parseFloat? a
    some (floatHex (effectiveDamageSum a))
  | ["mn_flf", k1, nd, n] => do
    let k1 ← parseFloat? k1
    let nd ← parseFloat? nd
    let n ← parseFloat? n
    some (floatHex (finiteLifeFactor ({ k1 := k1, k2 := none, SD := 1.0, ND := nd } : Miner.Curve Float) n))
  | _ => none

end PylifeVerif.Driver
