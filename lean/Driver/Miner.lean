import Model.Miner
import Driver.Util
/-! Line protocol of the Miner-rule model (C11).  Doubles travel as 16 hex digits.

* `mn_damage k1 k2 SD ND S_1 n_1 … S_m n_m` → per-class damage values, then the damage sum (m+1 doubles)
* `mn_miner  k1 k2 SD ND S_1 n_1 … S_m n_m` → `degenerate` when no occupied class carries load, else
  `V A_ele A_hai NG_ele NG_hai Dm_ele Dm_hai flf(total) ND_gassner D_ele(applied NG_ele) D_hai(applied NG_hai)
   N_gassnercurve(maxOcc) D_orig D_hai D_ele`
* `mn_eds A` → effective damage sum;  `mn_flf k1 ND N` → finite life factor
-/
namespace PylifeVerif.Driver
open PylifeVerif PylifeVerif.Miner

namespace MN

def pairs : List Float → Option (Coll Float)
  | [] => some []
  | S :: n :: rest => (pairs rest).map ((S, n) :: ·)
  | _ => none

def mkCurve (k1 k2 SD ND : Float) : Curve Float :=
  { k1 := k1, k2 := if k2.isFinite then some k2 else none, SD := SD, ND := ND }

def optF : Option Float → Float
  | some x => x
  | none => 1.0 / 0.0

end MN
open MN

def handleMiner : List String → Option String
  | "mn_damage" :: rest => do
    let v ← parseFloats rest
    match v with
    | k1 :: k2 :: SD :: ND :: cl =>
      let l ← pairs cl
      let c := mkCurve k1 k2 SD ND
      some (joinFloats (damage c l ++ [damageSum c l]))
    | _ => none
  | "mn_miner" :: rest => do
    let v ← parseFloats rest
    match v with
    | k1 :: k2 :: SD :: ND :: cl =>
      let l ← pairs cl
      let c := mkCurve k1 k2 SD ND
      if (occupied l).isEmpty || !(0.0 < maxOcc l) then some "degenerate" else
      let Ae := lifetimeMultipleElementary c l
      let Ah := lifetimeMultipleHaibach c l
      let NGe := gassnerCyclesElementary c l
      let NGh := gassnerCyclesHaibach c l
      let g := gassnerCurve c l
      some (joinFloats [solidityHaibach l c.k1, Ae, Ah, NGe, NGh, effectiveDamageSum Ae, effectiveDamageSum Ah,
        finiteLifeFactor c (total l), g.ND,
        damageSum (minerElementary c) (applyFor NGe l), damageSum (minerHaibach c) (applyFor NGh l),
        optF (cycles g (maxOcc l)),
        damageSum (minerOriginal c) l, damageSum (minerHaibach c) l, damageSum (minerElementary c) l])
    | _ => none
  | ["mn_eds", a] => do
    let a ← parseFloat? a
    some (floatHex (effectiveDamageSum a))
  | ["mn_flf", k1, nd, n] => do
    let k1 ← parseFloat? k1
    let nd ← parseFloat? nd
    let n ← parseFloat? n
    some (floatHex (finiteLifeFactor (mkCurve k1 k1 1.0 nd) n))
  | _ => none

end PylifeVerif.Driver
