/-
C12 — what the guard `TransformGuard` ("the exact iso-damage amplitude stays positive along the run") means for the
diagrams in standard form of `Proofs/C12General.lean`:

    TransformGuard D g c   ↔   the iso-damage potential is positive at the cycle's ray and at the target.

`→` is `potential_pos_at_cycle` / `potential_pos_at_target` (C12General), `←` is `transformGuard_of_pos` (here; helper
file `Proofs/Lemmas/MeanstressGuardGeneral.lean`).  Consequently the guard is a condition on the two END POINTS of the
move only, not on the run the code makes, and it is void (always true) where the potential is positive everywhere:
FKM-Goodman with `0 ≤ M2`, `0 ≤ M < 1` (`goodman_guard`, `Proofs/Lemmas/MeanstressGuard.lean`) and the five-segment
diagram with `M4 ≤ 0`, `0 ≤ M0 < 1`, `0 ≤ M1, M2, M3` (`fiveSegment_guard`), for which the five-segment theorems are
restated without guard hypotheses.
-/
import Proofs.C12General
import Proofs.Lemmas.MeanstressGuardGeneral

namespace PylifeVerif.C12
open PylifeVerif.Meanstress ExtR

/-! ### 1. Diagrams in standard form -/

section Std
variable (Minf M0 r1 : ℝ) (bs : List (ℝ × ℝ)) (Mn : ℝ)

/-- the guard holds as soon as the potential is positive at the cycle and at the target (with `guard_goal_pos`,
`guard_cycle_pos` this makes the guard EQUIVALENT to "the exact iso-damage amplitude stays positive") -/
theorem transformGuard_of_pos (hs : SortedR r1 bs) (hgood : GoodD Minf M0 r1 bs Mn) (g : ExtR ℝ) (c : Cyc ℝ)
    (hg : ValidR g) (hR : ValidR c.R)
    (hc : 0 < hD Minf M0 r1 bs Mn (pos c.R)) (hgp : 0 < hD Minf M0 r1 bs Mn (pos g)) :
    TransformGuard (diagram Minf M0 r1 bs Mn) g c :=
  diagram_guard_of_pos Minf M0 r1 bs Mn hs hgood g c hg hR hc hgp

/-- The guard is exactly: the potential is positive at the cycle's ray and at the target. -/
theorem transformGuard_iff_pos (hs : SortedR r1 bs) (hgood : GoodD Minf M0 r1 bs Mn) (g : ExtR ℝ) (c : Cyc ℝ)
    (hg : ValidR g) (hR : ValidR c.R) :
    TransformGuard (diagram Minf M0 r1 bs Mn) g c ↔
      0 < hD Minf M0 r1 bs Mn (pos c.R) ∧ 0 < hD Minf M0 r1 bs Mn (pos g) :=
  ⟨fun hG => ⟨potential_pos_at_cycle Minf M0 r1 bs Mn hs hgood g c hg hR hG,
      potential_pos_at_target Minf M0 r1 bs Mn hs hgood g c hg hR hG⟩,
    fun h => transformGuard_of_pos Minf M0 r1 bs Mn hs hgood g c hg hR h.1 h.2⟩

/-- The guard does not depend on the amplitude (only on the two rays). -/
theorem transformGuard_amp_irrelevant (hs : SortedR r1 bs) (hgood : GoodD Minf M0 r1 bs Mn) (g R : ExtR ℝ) (a₁ a₂ : ℝ)
    (hg : ValidR g) (hR : ValidR R) :
    TransformGuard (diagram Minf M0 r1 bs Mn) g ⟨a₁, R⟩ ↔ TransformGuard (diagram Minf M0 r1 bs Mn) g ⟨a₂, R⟩ := by
  rw [transformGuard_iff_pos Minf M0 r1 bs Mn hs hgood g ⟨a₁, R⟩ hg hR,
    transformGuard_iff_pos Minf M0 r1 bs Mn hs hgood g ⟨a₂, R⟩ hg hR]

/-- After a guarded move the guard of every further move from the target `g₁` is the guard at its end point only:
the middle guard `hGb` of path independence follows from the two outer ones. -/
theorem transformGuard_chain (hs : SortedR r1 bs) (hgood : GoodD Minf M0 r1 bs Mn) (g₁ g₂ : ExtR ℝ) (c : Cyc ℝ)
    (hg1 : ValidR g₁) (hg2 : ValidR g₂) (hR : ValidR c.R)
    (hGa : TransformGuard (diagram Minf M0 r1 bs Mn) g₁ c) (hGc : TransformGuard (diagram Minf M0 r1 bs Mn) g₂ c) :
    TransformGuard (diagram Minf M0 r1 bs Mn) g₂ (transform (diagram Minf M0 r1 bs Mn) g₁ c) := by
  have r1' := transform_arrives_at_target Minf M0 r1 bs Mn hs g₁ c hg1 hR
  refine transformGuard_of_pos Minf M0 r1 bs Mn hs hgood g₂ _ hg2 (by rw [r1']; exact hg1) ?_ ?_
  · rw [r1']; exact potential_pos_at_target Minf M0 r1 bs Mn hs hgood g₁ c hg1 hR hGa
  · exact potential_pos_at_target Minf M0 r1 bs Mn hs hgood g₂ c hg2 hR hGc

/-- Path independence with the two end-point guards only. -/
theorem diagram_path_independent' (hs : SortedR r1 bs) (hgood : GoodD Minf M0 r1 bs Mn) (g₁ g₂ : ExtR ℝ) (c : Cyc ℝ)
    (hg1 : ValidR g₁) (hg2 : ValidR g₂) (hR : ValidR c.R)
    (hGa : TransformGuard (diagram Minf M0 r1 bs Mn) g₁ c) (hGc : TransformGuard (diagram Minf M0 r1 bs Mn) g₂ c) :
    transform (diagram Minf M0 r1 bs Mn) g₂ (transform (diagram Minf M0 r1 bs Mn) g₁ c)
      = transform (diagram Minf M0 r1 bs Mn) g₂ c :=
  diagram_path_independent Minf M0 r1 bs Mn hs hgood g₁ g₂ c hg1 hg2 hR hGa
    (transformGuard_chain Minf M0 r1 bs Mn hs hgood g₁ g₂ c hg1 hg2 hR hGa hGc) hGc

/-- Idempotence with the guard of the first move only. -/
theorem diagram_idempotent' (hs : SortedR r1 bs) (hgood : GoodD Minf M0 r1 bs Mn) (g : ExtR ℝ) (c : Cyc ℝ)
    (hg : ValidR g) (hR : ValidR c.R) (hG : TransformGuard (diagram Minf M0 r1 bs Mn) g c) :
    transform (diagram Minf M0 r1 bs Mn) g (transform (diagram Minf M0 r1 bs Mn) g c)
      = transform (diagram Minf M0 r1 bs Mn) g c :=
  diagram_path_independent' Minf M0 r1 bs Mn hs hgood g g c hg hg hR hG hG

end Std

/-- Every diagram in standard form, listed in any order: one continuous potential `h` characterises the guard. -/
theorem stdDiagram_guard_iff (D : List (Seg ℝ)) (hD : StdDiagram D) :
    ∃ h : ℝ → ℝ, Continuous h ∧ ∀ g c, ValidR g → ValidR c.R →
      (TransformGuard D g c ↔ 0 < h (pos c.R) ∧ 0 < h (pos g)) := by
  obtain ⟨Minf, M0, r1, bs, Mn, hp, hs, hgood⟩ := hD
  refine ⟨Meanstress.hD Minf M0 r1 bs Mn, hD_continuous Minf M0 r1 bs Mn hs hgood, fun g c hg hR => ?_⟩
  rw [transformGuard_perm Minf M0 r1 bs Mn hs hp hg]
  exact transformGuard_iff_pos Minf M0 r1 bs Mn hs hgood g c hg hR

/-- Path independence for every diagram in standard form with the two end-point guards only. -/
theorem transform_path_independent' (D : List (Seg ℝ)) (hD : StdDiagram D) (g₁ g₂ : ExtR ℝ) (c : Cyc ℝ)
    (hg1 : ValidR g₁) (hg2 : ValidR g₂) (hR : ValidR c.R)
    (hGa : TransformGuard D g₁ c) (hGc : TransformGuard D g₂ c) :
    transform D g₂ (transform D g₁ c) = transform D g₂ c := by
  refine transform_path_independent D hD g₁ g₂ c hg1 hg2 hR hGa ?_ hGc
  obtain ⟨Minf, M0, r1, bs, Mn, hp, hs, hgood⟩ := hD
  rw [transformGuard_perm Minf M0 r1 bs Mn hs hp hg1] at hGa
  rw [transformGuard_perm Minf M0 r1 bs Mn hs hp hg2] at hGc ⊢
  rw [transform_perm Minf M0 r1 bs Mn hs hp hg1]
  exact transformGuard_chain Minf M0 r1 bs Mn hs hgood g₁ g₂ c hg1 hg2 hR hGa hGc

/-! ### 2. The five-segment diagram -/

section Five
variable {M0 M1 M2 M3 M4 R12 R23 : ℝ}

theorem fiveSegment_guard_iff (h : FiveSegOK M0 M1 M2 M3 M4 R12 R23) (g : ExtR ℝ) (c : Cyc ℝ) (hg : ValidR g)
    (hR : ValidR c.R) :
    TransformGuard (fiveSegment M0 M1 M2 M3 M4 R12 R23) g c ↔
      0 < h5 M0 M1 M2 M3 M4 R12 R23 (pos c.R) ∧ 0 < h5 M0 M1 M2 M3 M4 R12 R23 (pos g) := by
  rw [fiveSegment_diagram]
  exact transformGuard_iff_pos M4 M0 0 _ M3 h.sorted h.good g c hg hR

/-- In the usual parameter range (`M4 ≤ 0`, `0 ≤ M0 < 1`, `0 ≤ M1, M2, M3`) the potential is positive everywhere. -/
theorem h5_pos (hR1 : 0 < R12) (hR2 : R12 < R23) (hR3 : R23 < 1) (h4 : M4 ≤ 0) (h0 : 0 ≤ M0) (h0' : M0 < 1)
    (h1 : 0 ≤ M1) (h2 : 0 ≤ M2) (h3 : 0 ≤ M3) (x : ℝ) : 0 < h5 M0 M1 M2 M3 M4 R12 R23 x := by
  have p1 : 1 ≤ px R12 := one_le_pos hR1.le (by linarith)
  have p2 : 1 ≤ px R23 := one_le_pos (by linarith) hR3
  have q1 : 0 < 1 + M1 * px R12 := by nlinarith
  have q2 : 0 < 1 + M2 * px R12 := by nlinarith
  have q3 : 0 < 1 + M2 * px R23 := by nlinarith
  have q4 : 0 < 1 + M3 * px R23 := by nlinarith
  have q5 : 0 < 1 - M4 := by linarith
  have q6 : 0 < 1 - M0 := by linarith
  rw [h5_explicit]
  split_ifs with c1 c2 c3 c4
  · have : 0 < 1 + M4 * x := by nlinarith [mul_nonneg (neg_nonneg.2 h4) (by linarith : (0:ℝ) ≤ -x - 1)]
    positivity
  · have hx : -1 < x := not_le.1 c1
    nlinarith [mul_nonneg h0 (by linarith : (0:ℝ) ≤ x + 1)]
  · have hx : 1 < x := not_le.1 c2
    have : 0 < 1 + M1 * x := by nlinarith [mul_nonneg h1 (by linarith : (0:ℝ) ≤ x)]
    positivity
  · have hx : 1 < x := not_le.1 c2
    have : 0 < 1 + M2 * x := by nlinarith [mul_nonneg h2 (by linarith : (0:ℝ) ≤ x)]
    positivity
  · have hx : 1 < x := not_le.1 c2
    have : 0 < 1 + M3 * x := by nlinarith [mul_nonneg h3 (by linarith : (0:ℝ) ≤ x)]
    positivity

/-- … hence the guard holds for EVERY cycle and target. -/
theorem fiveSegment_guard (hR1 : 0 < R12) (hR2 : R12 < R23) (hR3 : R23 < 1) (h4 : M4 ≤ 0) (h0 : 0 ≤ M0) (h0' : M0 < 1)
    (h1 : 0 ≤ M1) (h2 : 0 ≤ M2) (h3 : 0 ≤ M3) (g : ExtR ℝ) (c : Cyc ℝ) (hg : ValidR g) (hR : ValidR c.R) :
    TransformGuard (fiveSegment M0 M1 M2 M3 M4 R12 R23) g c :=
  (fiveSegment_guard_iff (fiveSegOK_of_slopes _ _ _ _ _ _ _ hR1 hR2 hR3 (by linarith) h0 h0' h1 h2 h3) g c hg hR).2
    ⟨h5_pos hR1 hR2 hR3 h4 h0 h0' h1 h2 h3 _, h5_pos hR1 hR2 hR3 h4 h0 h0' h1 h2 h3 _⟩

/-- Five-segment amplitude formula without guard hypothesis (usual parameter range). -/
theorem fiveSegment_amp_of_slopes (hR1 : 0 < R12) (hR2 : R12 < R23) (hR3 : R23 < 1) (h4 : M4 ≤ 0) (h0 : 0 ≤ M0)
    (h0' : M0 < 1) (h1 : 0 ≤ M1) (h2 : 0 ≤ M2) (h3 : 0 ≤ M3) (g : ExtR ℝ) (c : Cyc ℝ) (hg : ValidR g) (hR : ValidR c.R) :
    (transform (fiveSegment M0 M1 M2 M3 M4 R12 R23) g c).amp
      = c.amp * h5 M0 M1 M2 M3 M4 R12 R23 (pos c.R) / h5 M0 M1 M2 M3 M4 R12 R23 (pos g) :=
  fiveSegment_amp (fiveSegOK_of_slopes _ _ _ _ _ _ _ hR1 hR2 hR3 (by linarith) h0 h0' h1 h2 h3) g c hg hR
    (fiveSegment_guard hR1 hR2 hR3 h4 h0 h0' h1 h2 h3 g c hg hR)

/-- Five-segment path independence without guard hypotheses (usual parameter range). -/
theorem fiveSegment_path_independent_of_slopes (hR1 : 0 < R12) (hR2 : R12 < R23) (hR3 : R23 < 1) (h4 : M4 ≤ 0)
    (h0 : 0 ≤ M0) (h0' : M0 < 1) (h1 : 0 ≤ M1) (h2 : 0 ≤ M2) (h3 : 0 ≤ M3) (g₁ g₂ : ExtR ℝ) (c : Cyc ℝ)
    (hg1 : ValidR g₁) (hg2 : ValidR g₂) (hR : ValidR c.R) :
    transform (fiveSegment M0 M1 M2 M3 M4 R12 R23) g₂ (transform (fiveSegment M0 M1 M2 M3 M4 R12 R23) g₁ c)
      = transform (fiveSegment M0 M1 M2 M3 M4 R12 R23) g₂ c := by
  have ok := fiveSegOK_of_slopes _ _ _ _ _ _ _ hR1 hR2 hR3 (by linarith : M4 < 1) h0 h0' h1 h2 h3
  have r1 := fiveSegment_arrives_at_target M0 M1 M2 M3 M4 R12 R23 hR1 hR2 hR3 g₁ c hg1 hR
  exact fiveSegment_path_independent ok g₁ g₂ c hg1 hg2 hR
    (fiveSegment_guard hR1 hR2 hR3 h4 h0 h0' h1 h2 h3 g₁ c hg1 hR)
    (fiveSegment_guard hR1 hR2 hR3 h4 h0 h0' h1 h2 h3 g₂ _ hg2 (by rw [r1]; exact hg1))
    (fiveSegment_guard hR1 hR2 hR3 h4 h0 h0' h1 h2 h3 g₂ c hg2 hR)

/-- Five-segment idempotence without guard hypotheses (usual parameter range). -/
theorem fiveSegment_idempotent_of_slopes (hR1 : 0 < R12) (hR2 : R12 < R23) (hR3 : R23 < 1) (h4 : M4 ≤ 0)
    (h0 : 0 ≤ M0) (h0' : M0 < 1) (h1 : 0 ≤ M1) (h2 : 0 ≤ M2) (h3 : 0 ≤ M3) (g : ExtR ℝ) (c : Cyc ℝ)
    (hg : ValidR g) (hR : ValidR c.R) :
    transform (fiveSegment M0 M1 M2 M3 M4 R12 R23) g (transform (fiveSegment M0 M1 M2 M3 M4 R12 R23) g c)
      = transform (fiveSegment M0 M1 M2 M3 M4 R12 R23) g c :=
  fiveSegment_path_independent_of_slopes hR1 hR2 hR3 h4 h0 h0' h1 h2 h3 g g c hg hg hR

end Five

/-! ### 3. Consistency with FKM-Goodman, non-vacuity -/

/-- The FKM-Goodman guard theorem is the instance `hG > 0` of the characterisation. -/
example (M M2 : ℝ) (h0 : 0 ≤ M2) (h1 : 0 ≤ M) (h2 : M < 1) (g : ExtR ℝ) (c : Cyc ℝ) (hg : ValidR g) (hR : ValidR c.R) :
    TransformGuard (goodman M M2) g c := by
  rw [goodman_diagram]
  refine transformGuard_of_pos 0 M 0 [] M2 (by simp [SortedR]) ?_ g c hg hR ?_ ?_
  · simp only [GoodD, GoodC, px0, mul_one]; exact ⟨by norm_num, h2, by linarith, by linarith⟩
  · rw [hD_goodman]; exact hG_pos M M2 h0 h1 h2 _
  · rw [hD_goodman]; exact hG_pos M M2 h0 h1 h2 _

/-- The guard is a real restriction: with a positive slope beyond R = 1 (`Minf = 1/2`) the iso-damage line through a
cycle at R = 2 (`x = -3`) has no positive amplitude (potential `1 - 3/2 < 0`) and the guard fails … -/
example : ¬ TransformGuard (diagram (1/2) (3/10) 0 [] (1/10)) (fin (-1)) ⟨1, fin 2⟩ := by
  have hs : SortedR (0:ℝ) [] := by simp [SortedR]
  have hg : GoodD (1/2) (3/10) 0 [] (1/10) := by norm_num [GoodD, GoodC, px]
  rw [transformGuard_iff_pos (1/2) (3/10) 0 [] (1/10) hs hg _ _ (by norm_num [ValidR]) (by norm_num [ValidR])]
  norm_num [hD, pos]

/-- … while for the cycle at R = 5 (`x = -3/2`, potential `∝ 1 - 3/4 > 0`) it holds. -/
example : TransformGuard (diagram (1/2) (3/10) 0 [] (1/10)) (fin (-1)) ⟨1, fin 5⟩ := by
  have hs : SortedR (0:ℝ) [] := by simp [SortedR]
  have hg : GoodD (1/2) (3/10) 0 [] (1/10) := by norm_num [GoodD, GoodC, px]
  rw [transformGuard_iff_pos (1/2) (3/10) 0 [] (1/10) hs hg _ _ (by norm_num [ValidR]) (by norm_num [ValidR])]
  norm_num [hD, pos, px]

/-- Five-segment parameters of the usual shape: guard for every cycle, e.g. from R = 7/10 to R = -1. -/
example : TransformGuard (fiveSegment (1/2) (1/3) (1/5) (1/10) (-2) (1/5) (3/5)) (fin (-1)) ⟨1, fin (7/10)⟩ :=
  fiveSegment_guard (by norm_num) (by norm_num) (by norm_num) (by norm_num) (by norm_num) (by norm_num) (by norm_num)
    (by norm_num) (by norm_num) _ _ (by norm_num [ValidR]) (by norm_num [ValidR])

example : transform (fiveSegment (1/2) (1/3) (1/5) (1/10) (-2) (1/5) (3/5)) (fin (-1))
      (transform (fiveSegment (1/2) (1/3) (1/5) (1/10) (-2) (1/5) (3/5)) (fin (1/10)) (⟨1, fin (7/10)⟩ : Cyc ℝ))
    = transform (fiveSegment (1/2) (1/3) (1/5) (1/10) (-2) (1/5) (3/5)) (fin (-1)) (⟨1, fin (7/10)⟩ : Cyc ℝ) :=
  fiveSegment_path_independent_of_slopes (by norm_num) (by norm_num) (by norm_num) (by norm_num) (by norm_num)
    (by norm_num) (by norm_num) (by norm_num) (by norm_num) _ _ _ (by norm_num [ValidR]) (by norm_num [ValidR])
    (by norm_num [ValidR])

end PylifeVerif.C12
