/-
C04 for THE CODE (`twoPass`): a non-reversal sample PREPENDED to a one-point load sequence changes
nothing that is recorded.  The sample has to be no reversal in both contexts in which the detector
sees it: behind the initial load 0 of the first pass and behind the last sample at the junction of
the repetition.  Helper lemmas: `Proofs/Lemmas/HCMPrependCode.lean`.
-/
import Proofs.Lemmas.HCMPrependCode
import Proofs.C04InsertCode

namespace PylifeVerif
open HCM Rainflow
namespace C04
open HCM.Insert

/-- A sample prepended to the sequence that lies between the initial load 0 and the first sample and also between the
last and the first sample (no reversal of the first pass, which starts at load 0, nor of the repeated sequence)
changes nothing that is recorded. -/
theorem hcm_prepend_nonreversal_code (law : Law) (s : List Int) (a z v : Int)
    (hs : s.head? = some a) (hz : s.getLast? = some z)
    (h0 : (0 ≤ v ∧ v ≤ a) ∨ (a ≤ v ∧ v ≤ 0))
    (hl : (z ≤ v ∧ v ≤ a) ∨ (a ≤ v ∧ v ≤ z)) :
    (twoPass law (one (v :: s))).recs = (twoPass law (one s)).recs := by
  cases s with
  | nil => simp at hs
  | cons a' s' =>
    have ha : a' = a := by simpa using hs
    subst ha
    by_cases hva : v = a'
    · -- a repetition of the first sample
      subst hva
      by_cases hs' : s' = []
      · subst hs'
        have e1 : [v, v] = List.replicate 2 v := rfl
        have e0 : [v] = List.replicate 1 v := rfl
        rw [e1, e0, const_twoPassC law _ v (by omega), const_twoPassC law _ v (by omega)]
      · exact recsC_of_ins law [v] s' v ⟨v, rfl, Or.inl rfl⟩ hs'
    · -- strictly off the first sample: 0 and the last sample lie on the same side of it as `v`
      have hza : z ≠ a' := by omega
      have hzm : z ∈ s' := by
        rcases List.mem_cons.mp (List.mem_of_getLast? hz) with h | h
        · exact absurd h hza
        · exact h
      have hne : idxf (a' :: s') ≠ [] := idxf_ne_nil a' s' ⟨z, hzm, hza⟩
      have hJ : InsOK (a' :: s') v (a' :: s') :=
        ⟨z, hz, by
          by_cases hvz : v = z
          · exact Or.inl hvz
          · exact Or.inr ⟨a', s', rfl, by omega⟩⟩
      apply recsC_of_fed law _ _ (by simp) (by simp)
      rw [trim_prepend a' s' v hva hJ hne]
      obtain ⟨r, z1, htr, hz1, hb1, hb2⟩ := trim_last a' s' z hz hza
      rw [htr]
      refine fedC_prepend (a' :: r) v ⟨0, rfl, ?_⟩ ⟨z1, hz1, ?_⟩
      · by_cases hv0 : v = 0
        · exact Or.inl hv0
        · exact Or.inr ⟨a', r, rfl, by omega⟩
      · by_cases hvz : v = z1
        · exact Or.inl hvz
        · exact Or.inr ⟨a', r, rfl, by omega⟩

end C04

/-! ### non-vacuity / sanity instances -/

-- `v = 100` strictly between the initial load 0 and the first sample 200, and between the last sample 50 and 200
example : (twoPass lawSat (C04.one (100 :: [200, -100, 300, 50]))).recs =
    (twoPass lawSat (C04.one [200, -100, 300, 50])).recs :=
  C04.hcm_prepend_nonreversal_code lawSat [200, -100, 300, 50] 200 50 100 rfl rfl (by decide) (by decide)
example : (100 : Int) ≠ 200 := by decide
example : (twoPass lawLinear (C04.one (100 :: [200, -100, 300, 50]))).recs ≠ [] := by decide +kernel
-- downward variant with `v = 0` (a repetition of the initial load) and a last sample above `v`
example : (twoPass lawSat (C04.one (0 :: [-200, 100, -300, 50]))).recs =
    (twoPass lawSat (C04.one [-200, 100, -300, 50])).recs :=
  C04.hcm_prepend_nonreversal_code lawSat [-200, 100, -300, 50] (-200) 50 0 rfl rfl (by decide) (by decide)
example : (twoPass lawLinear (C04.one (0 :: [-200, 100, -300, 50]))).recs ≠ [] := by decide +kernel

end PylifeVerif

#print axioms PylifeVerif.C04.hcm_prepend_nonreversal_code
