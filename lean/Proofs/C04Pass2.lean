/-
C04: the hystereses recorded by the second pass of the FKM-nonlinear HCM detector are exactly the
closed cycles of the endlessly repeated load sequence (`Spec.periodicRainflow`), each once – for
every notch approximation law.

Proof outline (helpers in `Proofs/Lemmas/HCMPass2*.lean`):
* `HCMPass2Sim`  – projection: the recorded `(min, max)` load ranges are those emitted by a
  load-only state machine `aRun` (residual loads, `ir`, largest absolute load); the law drops out
  (`pass2Ranges_feed`, on top of `Insert.twoPass_one`: the passes only see the fed turning points).
* `HCMPass2Trim` / `HCMPass2Fed` / `HCMPass2Turns` – what is fed: the trimmed signal
  `t = trimI s = t0 ++ [z]` ends with a turning point of the repeated signal (`trim_main`), pass 1 is
  flushed, pass 1 gets `tv 0 0 t ++ [z]`, pass 2 gets `tv 0 z t ++ [z]` (`CycEnd.fedI_eq`), a rotation
  of `cyclicReversals s` (`CycEnd.fed2_rot`); the concatenation alternates (`CycEnd.fed_zig`) and both
  passes end with the same values behind an occurrence of the first value `M` of largest absolute
  value of pass 1 (`CycEnd.fed_split`).
* `HCMPass2Abs` – return lemma: once `M` has been fed it sits at position `ir - 1` with `iz = ir`
  (`aRun_first_max`), afterwards the machine is the rooted machine `mStep` above `M` (`aRun_sat`);
  window shift: pass 2 = `[… → M) ++ [M → end)`, and `[M → end) ++ [… → M)` is one closed window
  (`abs_main`).
* `HCMPass2` – above a base of largest absolute value the HCM closing rule performs four-point
  `Step`s; over a closed window `M … M` it emits `outOf` of the window (`window`, via the confluence
  results `outOf_perm`, `five_nf` of `Proofs/Lemmas/Periodic.lean`).
* `cw_perm` (rotation invariance of the four-point count between positions of largest absolute
  value) identifies the window count with `prf (cyclicReversals s) = periodicRainflow s`.
-/
import Proofs.Lemmas.HCMPass2Sim
import Proofs.Lemmas.HCMPass2Trim

namespace PylifeVerif.C04
open PylifeVerif.Rainflow PylifeVerif.HCM PylifeVerif.HCM.Spec PylifeVerif.Sym PylifeVerif.HCM.Insert

/-- The four-point count of the closed window that starts at an element `M` of largest absolute
value of (a rotation `M :: V'` of) the cyclic word `W` is `prf W`. -/
theorem outOf_window_eq_prf (W V' : List Int) (M : Int) (hrot : W ~r (M :: V'))
    (hlen : 2 ≤ W.length) (hz : Zig (W ++ W)) (hb : ∀ x ∈ W, x.natAbs ≤ M.natAbs) :
    (outOf (M :: V' ++ [M])).Perm (prf W) := by
  obtain ⟨j, hj⟩ := hrot
  have hW : W ≠ [] := by intro h; simp [h] at hlen
  have hpos : 0 < W.length := by omega
  have hj' : W.rotate (j % W.length) = M :: V' := by rw [List.rotate_mod]; exact hj
  have hjl : j % W.length < W.length := Nat.mod_lt _ hpos
  have hget : W[j % W.length] = M := by
    have h0 : 0 < (W.rotate (j % W.length)).length := by simp; omega
    have := List.getElem_rotate W (j % W.length) 0 h0
    simp only [Nat.zero_add, Nat.mod_mod] at this
    rw [← this]
    simp [hj']
  have hcw : cw W (j % W.length) = M :: V' ++ [M] := by
    rw [cw_eq_rotate W _ hjl, hj', hget]
  obtain ⟨hk, hmk⟩ := argmaxAbs_spec W hW
  have hprf : prf W = outOf (cw W (argmaxAbs W)) := by
    unfold prf
    rw [if_neg (by omega)]
    rfl
  rw [hprf, ← hcw]
  exact cw_perm W hz _ _ hjl hk (by rw [hget]; exact hb) hmk

/-- The hystereses of the second pass are exactly the closed cycles of the endlessly repeated
sequence, each once. -/
theorem pass2_eq_periodicRainflow (law : Law) (s : List Int) (h2 : TwoDistinct s) :
    (pass2Ranges (twoPassR law (one s))).Perm (Spec.periodicRainflow s) := by
  have hs : s ≠ [] := by
    obtain ⟨a, ha, _⟩ := h2
    intro h; rw [h] at ha; simp at ha
  obtain ⟨t0, p, z, q, q', d, hst, hC1, hC2, hskip⟩ := trim_main s h2
  -- projection to the load-only machine on the fed values
  have h1 : pass2Ranges (twoPassR law (one s)) =
      (aRun (aRun aInit (tv 0 0 (trimI s) ++ [z])).2 (tv 0 z (trimI s) ++ [z])).1 := by
    have e : pass2Ranges (twoPassR law (one s)) = pass2Ranges (Insert.core (twoPassR law (one s))) := rfl
    rw [e, twoPass_one law s (trimI_ne_nil s hs), hC1.fedI_eq, pass2Ranges_feed]
  -- the abstract main theorem
  obtain ⟨M, q0, r0, q1, q2, r, f1, f2, f3, f4, f5, f6⟩ := hC1.fed_split
  have hzig := hC1.fed_zig
  have h3 := abs_main _ _ q0 r0 q1 q2 r M f1 f2 f3 f4 hzig f5 f6
  -- the window is a closed rotation of the cyclic reversal word
  have hzw : Zig (M :: (r ++ q2 ++ [M])) := by
    apply zig_infix q1 _ r
    rw [f3, f4] at hzig
    simpa using hzig
  have hrot : cyclicReversals s ~r (M :: (r ++ q2)) := by
    have a1 : (tv 0 z (trimI s) ++ [z]) ~r cyclicReversals (d ++ trimI s) := by
      have := hC2.fed2_rot
      have e := hskip []
      simp only [List.append_nil] at e
      rwa [e] at this
    have a2 : cyclicReversals (d ++ trimI s) ~r cyclicReversals s := by
      have := cyclicReversals_rotate d (trimI s)
      rwa [← hst] at this
    have a3 : (M :: (r ++ q2)) ~r (tv 0 z (trimI s) ++ [z]) := by
      rw [f4]
      have := List.isRotated_append (l := M :: r) (l' := q2)
      simpa using this
    exact ((a3.trans a1).trans a2).symm
  have hlenW : 2 ≤ (cyclicReversals s).length := by
    rw [hrot.perm.length_eq]
    cases hrq : r ++ q2 with
    | nil =>
      rw [hrq] at hzw
      obtain ⟨up, h, _⟩ := hzw
      cases up <;> simp at h
    | cons a l => simp
  have hbW : ∀ x ∈ cyclicReversals s, x.natAbs ≤ M.natAbs := by
    intro x hx
    have hx' : x ∈ M :: (r ++ q2) := hrot.perm.subset hx
    apply f5
    apply List.mem_append_right
    rw [f4]
    simp only [List.mem_cons, List.mem_append] at hx' ⊢
    tauto
  have h4 := outOf_window_eq_prf (cyclicReversals s) (r ++ q2) M hrot hlenW
    (cyclicReversals_zig s hlenW) hbW
  rw [h1, periodicRainflow_eq]
  have e : M :: (r ++ q2) ++ [M] = M :: (r ++ q2 ++ [M]) := by simp
  rw [e] at h4
  exact h3.trans h4

/-! Non-vacuity: a sequence with a tie of the largest absolute value of opposite sign, a plateau and
a trailing non-reversal; and the counterexample of the unrepaired model (`[5, 2, 4, 1]`). -/
example : (pass2Ranges (twoPassR lawSat (one [0, 3, 1, 2, 2, -3, 1, 3, -1, -1, 0]))).Perm
    (Spec.periodicRainflow [0, 3, 1, 2, 2, -3, 1, 3, -1, -1, 0]) :=
  pass2_eq_periodicRainflow lawSat _ ⟨0, by simp, 3, by simp, by decide⟩

example : (pass2Ranges (twoPassR lawLinear (one [5, 2, 4, 1]))).Perm
    (Spec.periodicRainflow [5, 2, 4, 1]) :=
  pass2_eq_periodicRainflow lawLinear _ ⟨5, by simp, 2, by simp, by decide⟩

/-! Non-vacuity of the window theorem: the closed window `5 2 4 1 5` (tie-free) and a window with a
recurrence of the base value and a value of opposite sign and equal absolute value. -/
example : mRun 5 [] [2, 4, 1, 5] = ([(2, 4), (1, 5)], []) := by decide
example : (outOf (5 :: [2, 4, 1, 5])).Perm (mRun 5 [] [2, 4, 1, 5]).1 :=
  (window 5 [2, 4, 1, 5] (by decide) (by decide) (by decide)).2
example : (outOf (5 :: [1, 5, -5, 5])).Perm (mRun 5 [] [1, 5, -5, 5]).1 :=
  (window 5 [1, 5, -5, 5] (by decide) (by decide) (by decide)).2

#print axioms pass2_eq_periodicRainflow
#print axioms window
#print axioms abs_main
#print axioms pass2Ranges_feed
#print axioms trim_main

end PylifeVerif.C04
