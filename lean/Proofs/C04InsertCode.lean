/-
C04 for THE CODE (`twoPass`, first-run flush flag decided on the zero-prefixed sequence doubled WITH
the zero): non-reversal samples do not change what the FKM-nonlinear HCM detector records.
Same proof as `Proofs/C04Insert.lean` (which is about the repaired variant `twoPassR`); the parts
that depend on the flush flag are in `Proofs/Lemmas/HCMInsertCode.lean` (`flushC_ins`, `fedC_ins`).
-/
import Proofs.Lemmas.HCMInsertCode
import Proofs.C04Insert

namespace PylifeVerif
open HCM Rainflow
namespace C04
open HCM.Insert

/-- the records of `twoPass` on a one-point sequence are those of the HCM loop on the fed values -/
theorem twoPassC_recs (law : Law) (s : List Int) (hs : s ≠ []) :
    (twoPass law (one s)).recs =
      (feed law (feed law {} 1 (one (fedC (trimI s)).1)) 1 (one (fedC (trimI s)).2)).recs := by
  have hc : (twoPass law (one s)).recs = (core (twoPass law (one s))).recs := rfl
  rw [hc, twoPassC_one law s (trimI_ne_nil s hs)]

theorem recsC_of_fed (law : Law) (s s0 : List Int) (hs : s ≠ []) (hs0 : s0 ≠ [])
    (h : fedC (trimI s) = fedC (trimI s0)) :
    (twoPass law (one s)).recs = (twoPass law (one s0)).recs := by
  rw [twoPassC_recs law s hs, twoPassC_recs law s0 hs0, h]

/-- insertion of a repetition or of a strictly intermediate value in front of a non-empty rest -/
theorem recsC_of_ins (law : Law) (A B : List Int) (v : Int) (h : InsOK A v B) (hB : B ≠ []) :
    (twoPass law (one (A ++ v :: B))).recs = (twoPass law (one (A ++ B))).recs := by
  apply recsC_of_fed law _ _ (by simp) (by simp [hB])
  rcases trim_ins A B v h hB with h1 | ⟨B1, hB1, h1, h2, h3⟩
  · rw [h1]
  · rw [h1, h2, fedC_ins A B1 v h3 hB1]

/-- a non-reversal sample at the end of a non-constant sequence is trimmed away -/
theorem recsC_of_append (law : Law) (s : List Int) (v : Int) (hs : s ≠ [])
    (h : idxf (s ++ [v]) = idxf s) (hne : idxf s ≠ []) :
    (twoPass law (one (s ++ [v]))).recs = (twoPass law (one s)).recs := by
  apply recsC_of_fed law _ _ (by simp) hs
  rw [trim_append_of_idxf s v h hne]

/-- A sample lying (weakly) between its neighbours changes nothing that is recorded. -/
theorem hcm_insert_nonreversal_interior_code (law : Law) (pre post : List Int) (x y v : Int)
    (hv : (x ≤ v ∧ v ≤ y) ∨ (y ≤ v ∧ v ≤ x)) :
    (twoPass law (one (pre ++ x :: v :: y :: post))).recs = (twoPass law (one (pre ++ x :: y :: post))).recs := by
  have e1 : pre ++ x :: v :: y :: post = (pre ++ [x]) ++ v :: (y :: post) := by simp
  have e0 : pre ++ x :: y :: post = (pre ++ [x]) ++ (y :: post) := by simp
  have hl : (pre ++ [x]).getLast? = some x := by simp
  by_cases hvx : v = x
  · -- a repetition of `x`
    rw [e1, e0]
    exact recsC_of_ins law _ _ v ⟨x, hl, Or.inl hvx⟩ (by simp)
  · by_cases hvy : v = y
    · -- a repetition of `y`
      subst hvy
      have e1' : pre ++ x :: v :: v :: post = (pre ++ [x, v]) ++ v :: post := by simp
      have e0' : pre ++ x :: v :: post = (pre ++ [x, v]) ++ post := by simp
      have hl' : (pre ++ [x, v]).getLast? = some v := by
        rw [List.getLast?_append_of_ne_nil _ (by simp)]; rfl
      rw [e1', e0']
      by_cases hp : post = []
      · subst hp
        rw [List.append_nil]
        refine recsC_of_append law _ v (by simp) (idxf_dup_end _ v hl') (idxf_ne_nil' _ ?_)
        exact ⟨x, by simp, v, by simp, fun h => hvx h.symm⟩
      · exact recsC_of_ins law _ _ v ⟨v, hl', Or.inl rfl⟩ hp
    · -- strictly between
      rw [e1, e0]
      refine recsC_of_ins law _ _ v ⟨x, hl, Or.inr ⟨y, post, rfl, ?_⟩⟩ (by simp)
      omega

/-- A sample appended at the end that lies between the last and the first sample (a non-reversal
at the junction of the passes; a repetition of the first sample would itself be the reversal) changes
nothing that is recorded. -/
theorem hcm_append_nonreversal_code (law : Law) (s : List Int) (a z v : Int) (hs : s.head? = some a) (hz : s.getLast? = some z)
    (hv : (a ≤ v ∧ v ≤ z) ∨ (z ≤ v ∧ v ≤ a)) (hne : v ≠ a ∨ v = z) :
    (twoPass law (one (s ++ [v]))).recs = (twoPass law (one s)).recs := by
  cases s with
  | nil => simp at hs
  | cons a' s' =>
    have ha : a' = a := by simpa using hs
    subst ha
    have hzm : z ∈ a' :: s' := List.mem_of_getLast? hz
    by_cases hvz : v = z
    · subst hvz
      by_cases hc : ∃ x ∈ s', x ≠ a'
      · exact recsC_of_append law _ v (by simp) (idxf_dup_end _ v hz) (idxf_ne_nil a' s' hc)
      · -- constant sequence: nothing is recorded at all
        have hall : ∀ x ∈ s', x = a' := fun x hx =>
          Classical.byContradiction fun hx' => hc ⟨x, hx, hx'⟩
        have hva : v = a' := by
          rcases List.mem_cons.mp hzm with h | h
          · exact h
          · exact hall v h
        have e0 : a' :: s' = List.replicate (s'.length + 1) a' := by
          rw [List.eq_replicate_iff]
          exact ⟨by simp, fun b hb => by
            rcases List.mem_cons.mp hb with h | h
            · exact h
            · exact hall b h⟩
        have e1 : (a' :: s') ++ [v] = List.replicate (s'.length + 2) a' := by
          rw [List.eq_replicate_iff]
          refine ⟨by simp, fun b hb => ?_⟩
          rcases List.mem_append.mp hb with h | h
          · rcases List.mem_cons.mp h with h | h
            · exact h
            · exact hall b h
          · rw [List.mem_singleton.mp h, hva]
        rw [e1, e0, const_twoPassC law _ a' (by omega), const_twoPassC law _ a' (by omega)]
    · -- strictly between the last and the first sample
      have hva : v ≠ a' := by
        rcases hne with h | h
        · exact h
        · exact absurd h hvz
      have hst : (z < v ∧ v < a') ∨ (a' < v ∧ v < z) := by omega
      have hza : z ≠ a' := by omega
      refine recsC_of_append law _ v (by simp) (idxf_strict_end a' s' z v hz hst)
        (idxf_ne_nil a' s' ⟨z, ?_, hza⟩)
      rcases List.mem_cons.mp hzm with h | h
      · exact absurd h hza
      · exact h

end C04

/-! ### non-vacuity / sanity instances -/

example : (twoPass lawSat (C04.one ([0, 100] ++ 300 :: 200 :: 100 :: [-200, 50]))).recs =
    (twoPass lawSat (C04.one ([0, 100] ++ 300 :: 100 :: [-200, 50]))).recs :=
  C04.hcm_insert_nonreversal_interior_code lawSat [0, 100] [-200, 50] 300 100 200 (by decide)
example : (twoPass lawLinear (C04.one ([0, 100] ++ 300 :: 200 :: 100 :: [-200, 50]))).recs ≠ [] := by
  decide +kernel
example : (twoPass lawSat (C04.one ([200, -100, 300, 50] ++ [100]))).recs =
    (twoPass lawSat (C04.one [200, -100, 300, 50])).recs :=
  C04.hcm_append_nonreversal_code lawSat [200, -100, 300, 50] 200 50 100 rfl rfl (by decide) (by decide)
example : (twoPass lawLinear (C04.one ([200, -100, 300, 50] ++ [100]))).recs ≠ [] := by decide +kernel
-- a sequence on which the code's flag and the repaired flag differ (the code defers the last sample)
example : HCM.Insert.flushC [200, 100] = false ∧ HCM.Insert.flushI [200, 100] = true := by decide

end PylifeVerif

#print axioms PylifeVerif.C04.hcm_insert_nonreversal_interior_code
#print axioms PylifeVerif.C04.hcm_append_nonreversal_code
