/-
C14 — load collectives and histograms account for every cycle exactly once.
Property theorems about `Model/Collective.lean` over ℝ.
-/
import Proofs.Lemmas.Collective

namespace PylifeVerif.C14
open PylifeVerif.Collective

/-! ## 1. Consistency of the derived quantities (`LoadCollective`) -/

/-- upper − lower = 2·amplitude, (upper + lower)/2 = mean, R = lower/upper (whenever the quotient exists;
`0/0` is filled with 0 by the code: `R_fillna`). -/
theorem collective_consistency (r : Row ℝ) :
    upper r - lower r = 2 * amplitude r ∧ (upper r + lower r) / 2 = meanstress r ∧
    (upper r ≠ 0 → rvalue r = lower r / upper r) := by
  refine ⟨?_, ?_, ?_⟩
  · unfold upper lower amplitude
    simp only [transc_abs, lit_two]
    split_ifs with h
    · rw [abs_of_nonpos (by linarith)]; ring
    · rw [abs_of_nonneg (by linarith)]; ring
  · unfold upper lower meanstress
    simp only [lit_two]
    split_ifs <;> ring
  · intro _
    unfold rvalue
    simp

example : upper (⟨3, -1, 2⟩ : Row ℝ) ≠ 0 := by unfold upper; norm_num

/-- `fillna(0.0)`: a loop `0 → 0` gets R = 0. -/
theorem R_fillna (r : Row ℝ) (hu : upper r = 0) (hl : lower r = 0) : rvalue r = 0 := by
  unfold rvalue; simp [hu, hl]

example : upper (⟨0, 0, 1⟩ : Row ℝ) = 0 ∧ lower (⟨0, 0, 1⟩ : Row ℝ) = 0 := by unfold upper lower; norm_num

/-- range/mean → from/to → range/mean is the identity (ranges are non-negative), cycles kept. -/
theorem rangemean_roundtrip (rng mean cyc : ℝ) (h : 0 ≤ rng) :
    rangeOf (fromRangeMean rng mean cyc) = rng ∧ meanstress (fromRangeMean rng mean cyc) = mean ∧
    (fromRangeMean rng mean cyc).cyc = cyc := by
  refine ⟨?_, ?_, rfl⟩
  · unfold rangeOf amplitude fromRangeMean
    simp only [transc_abs, lit_two]
    rw [abs_of_nonpos (by linarith)]; ring
  · unfold meanstress fromRangeMean
    simp only [lit_two]; ring

example : (0:ℝ) ≤ 4 := by norm_num

/-- from/to → range/mean → from/to gives the same loop with its lower value first
(`from`/`to` themselves when `from ≤ to`), cycles kept. -/
theorem fromto_roundtrip (r : Row ℝ) :
    (fromRangeMean (rangeOf r) (meanstress r) r.cyc).fr = lower r ∧
    (fromRangeMean (rangeOf r) (meanstress r) r.cyc).to = upper r ∧
    (fromRangeMean (rangeOf r) (meanstress r) r.cyc).cyc = r.cyc := by
  refine ⟨?_, ?_, rfl⟩
  · unfold fromRangeMean rangeOf amplitude meanstress lower
    simp only [transc_abs, lit_two]
    split_ifs with h
    · rw [abs_of_nonpos (by linarith)]; ring
    · rw [abs_of_nonneg (by linarith)]; ring
  · unfold fromRangeMean rangeOf amplitude meanstress upper
    simp only [transc_abs, lit_two]
    split_ifs with h
    · rw [abs_of_nonpos (by linarith)]; ring
    · rw [abs_of_nonneg (by linarith)]; ring

theorem fromto_roundtrip_id (r : Row ℝ) (h : r.fr ≤ r.to) :
    fromRangeMean (rangeOf r) (meanstress r) r.cyc = r := by
  obtain ⟨h1, h2, _⟩ := fromto_roundtrip r
  cases r with
  | mk a b c =>
    simp only [upper, lower] at h1 h2 h
    rw [if_pos h] at h1 h2
    unfold fromRangeMean at h1 h2 ⊢
    simp only at h1 h2
    rw [h1, h2]

example : (⟨1, 3, 1⟩ : Row ℝ).fr ≤ (⟨1, 3, 1⟩ : Row ℝ).to := by norm_num

/-- Scaling by `f`: amplitude × |f|, mean × f, upper/lower × f (swapped for negative `f`), cycles untouched. -/
theorem scale_equivariant (f : ℝ) (r : Row ℝ) :
    amplitude (scale f r) = |f| * amplitude r ∧ meanstress (scale f r) = f * meanstress r ∧
    (0 ≤ f → upper (scale f r) = f * upper r ∧ lower (scale f r) = f * lower r) ∧
    (f ≤ 0 → upper (scale f r) = f * lower r ∧ lower (scale f r) = f * upper r) ∧
    (scale f r).cyc = r.cyc := by
  refine ⟨?_, ?_, ?_, ?_, rfl⟩
  · unfold amplitude scale
    simp only [transc_abs, lit_two]
    rw [show r.fr * f - r.to * f = f * (r.fr - r.to) by ring, abs_mul]; ring
  · unfold meanstress scale; simp only [lit_two]; ring
  · intro hf
    unfold upper lower scale
    simp only
    constructor <;> split_ifs with h1 h2 h2 <;> nlinarith
  · intro hf
    unfold upper lower scale
    simp only
    constructor <;> split_ifs with h1 h2 h2 <;> nlinarith

example : (0:ℝ) ≤ 2.5 ∧ (-1:ℝ) ≤ 0 := by norm_num

/-- Shifting by `d`: amplitude unchanged, mean/upper/lower + d, cycles untouched. -/
theorem shift_equivariant (d : ℝ) (r : Row ℝ) :
    amplitude (shift d r) = amplitude r ∧ meanstress (shift d r) = meanstress r + d ∧
    upper (shift d r) = upper r + d ∧ lower (shift d r) = lower r + d ∧ (shift d r).cyc = r.cyc := by
  refine ⟨?_, ?_, ?_, ?_, rfl⟩
  · unfold amplitude shift
    simp only [transc_abs, lit_two]
    rw [show r.fr + d - (r.to + d) = r.fr - r.to by ring]
  · unfold meanstress shift; simp only [lit_two]; ring
  · unfold upper shift
    simp only
    split_ifs with h1 h2 h2 <;> linarith
  · unfold lower shift
    simp only
    split_ifs with h1 h2 h2 <;> linarith

/-! ## 2. The same for `LoadHistogram` (class mids) -/

/-- range/mean matrix: upper − lower = 2·amplitude, (upper + lower)/2 = mean; scaling by `f ≥ 0` (pandas rejects
a negative factor: the interval bounds would be inverted) scales amplitude and mean, shifting moves only the mean. -/
theorem histogram_rm_consistency (c : RMClass ℝ) (f d : ℝ) :
    rmUpper c - rmLower c = 2 * rmAmplitude c ∧ (rmUpper c + rmLower c) / 2 = rmMean c ∧
    rmAmplitude (rmScale f c) = f * rmAmplitude c ∧ rmMean (rmScale f c) = f * rmMean c ∧
    rmAmplitude (rmShift d c) = rmAmplitude c ∧ rmMean (rmShift d c) = rmMean c + d := by
  unfold rmUpper rmLower rmAmplitude rmMean rmScale rmShift mid
  simp only [lit_two, lit_half]
  refine ⟨?_, ?_, ?_, ?_, ?_, ?_⟩ <;> first | trivial | ring

/-- from/to matrix: the same identities; scaling multiplies the amplitude by |f|. -/
theorem histogram_ft_consistency (c : FTClass ℝ) (f d : ℝ) :
    ftUpper c - ftLower c = 2 * ftAmplitude c ∧ (ftUpper c + ftLower c) / 2 = ftMean c ∧
    ftAmplitude (ftScale f c) = |f| * ftAmplitude c ∧ ftMean (ftScale f c) = f * ftMean c ∧
    ftAmplitude (ftShift d c) = ftAmplitude c ∧ ftMean (ftShift d c) = ftMean c + d := by
  unfold ftUpper ftLower ftAmplitude ftMean ftScale ftShift mid
  simp only [lit_two, lit_half, transc_abs]
  refine ⟨?_, ?_, ?_, ?_, ?_, ?_⟩
  · ring
  · ring
  rotate_left
  · ring
  rotate_left
  · ring
  · rw [show 1 / 2 * (c.fl * f + c.frr * f) - 1 / 2 * (c.tl * f + c.tr * f) =
      f * (1 / 2 * (c.fl + c.frr) - 1 / 2 * (c.tl + c.tr)) by ring, abs_mul]; ring
  · rw [show 1 / 2 * (c.fl + d + (c.frr + d)) - 1 / 2 * (c.tl + d + (c.tr + d)) =
      1 / 2 * (c.fl + c.frr) - 1 / 2 * (c.tl + c.tr) by ring]

/-! ## 3. Histograms: every cycle inside the covered range is in exactly one class -/

/-- numpy's bin rule over weakly increasing edges `e₀ ≤ … ≤ eₙ` (n ≥ 1): a value in `[e₀, eₙ]` lies in exactly
one class, a value outside in none. -/
theorem histogram_exactly_one_class (e0 : ℝ) (rest : List ℝ) (v : ℝ) (hne : rest ≠ []) (hm : Mono (e0 :: rest)) :
    (classes (e0 :: rest)).countP (fun c => inBin c.1 c.2.1 c.2.2 v) =
      if e0 ≤ v ∧ v ≤ (e0 :: rest).getLast (List.cons_ne_nil _ _) then 1 else 0 := by
  rw [classes_count e0 rest v hne hm]
  simp [inRange]

example : ([1, 1, 2] : List ℝ) ≠ [] ∧ Mono ([0, 1, 1, 2] : List ℝ) := by
  refine ⟨by simp, ?_⟩; unfold Mono Mono Mono Mono; norm_num

/-- Partition: the class contents sum to the cycles of the rows whose range lies in `[e₀, eₙ]`
(`range_histogram`; weights = the cycles column, 1 per row without one). -/
theorem histogram_partition (e0 : ℝ) (rest : List ℝ) (rows : List (Row ℝ)) (hne : rest ≠ []) (hm : Mono (e0 :: rest)) :
    total (rangeHistogram (e0 :: rest) rows) =
      ((rows.filter fun r => decide (e0 ≤ rangeOf r) &&
          decide (rangeOf r ≤ (e0 :: rest).getLast (List.cons_ne_nil _ _))).map (·.cyc)).sum := by
  unfold rangeHistogram
  rw [hist_total e0 rest _ hne hm]
  unfold fsum inRange
  rw [List.filter_map, List.map_map]
  rfl

example : ([2, 5] : List ℝ) ≠ [] ∧ Mono ([0, 2, 5] : List ℝ) ∧
    total (rangeHistogram [0, 2, 5] ([⟨0, 2, 3⟩, ⟨1, -5, 1⟩, ⟨4, 1, 2⟩] : List (Row ℝ))) = 5 := by
  refine ⟨by simp, by unfold Mono Mono Mono; norm_num, ?_⟩
  rw [histogram_partition 0 [2, 5] _ (by simp) (by unfold Mono Mono Mono; norm_num)]
  simp [rangeOf, amplitude, List.filter_cons]
  norm_num [abs_of_nonneg, abs_of_nonpos]

/-- Two-dimensional partition (`histogram`, and the recorder's from/to histogram): the contents of all classes sum to the
cycles of the points whose both coordinates are covered. -/
theorem histogram2d_partition (x0 y0 : ℝ) (xr yr : List ℝ) (pts : List (ℝ × ℝ × ℝ))
    (hx : xr ≠ []) (hy : yr ≠ []) (hmx : Mono (x0 :: xr)) (hmy : Mono (y0 :: yr)) :
    total ((hist2d (x0 :: xr) (y0 :: yr) pts).map total) =
      ((pts.filter fun p =>
          (decide (x0 ≤ p.1) && decide (p.1 ≤ (x0 :: xr).getLast (List.cons_ne_nil _ _))) &&
          (decide (y0 ≤ p.2.1) && decide (p.2.1 ≤ (y0 :: yr).getLast (List.cons_ne_nil _ _)))).map (·.2.2)).sum := by
  rw [hist2d_rows_total _ y0 yr pts hy hmy, hist_total x0 xr _ hx hmx]
  unfold fsum inRange
  rw [List.filter_map, List.map_map, List.filter_filter]
  rfl

/-- When every mean lies in the covered mean range, the range histogram is the marginal (row sums) of the
range/mean histogram. -/
theorem range_hist_is_marginal (er : List ℝ) (m0 : ℝ) (mr : List ℝ) (rows : List (Row ℝ)) (hne : mr ≠ [])
    (hm : Mono (m0 :: mr))
    (hcov : ∀ r ∈ rows, m0 ≤ meanstress r ∧ meanstress r ≤ (m0 :: mr).getLast (List.cons_ne_nil _ _)) :
    (rangeMeanHistogram er (m0 :: mr) rows).map total = rangeHistogram er rows := by
  unfold rangeMeanHistogram rangeHistogram
  rw [hist2d_rows_total er m0 mr _ hne hm]
  congr 1
  have : rows.filter ((fun p : ℝ × ℝ × ℝ => inRange m0 ((m0 :: mr).getLast (List.cons_ne_nil _ _)) p.2.1) ∘
      fun r : Row ℝ => (rangeOf r, meanstress r, r.cyc)) = rows := by
    apply List.filter_eq_self.mpr
    intro r hr
    obtain ⟨a, b⟩ := hcov r hr
    simp [inRange, a, b]
  rw [List.filter_map, this, List.map_map]
  rfl

example : ∀ r ∈ ([⟨0, 2, 1⟩, ⟨1, 2, 3⟩] : List (Row ℝ)),
    (0:ℝ) ≤ meanstress r ∧ meanstress r ≤ ([0, 1, 2] : List ℝ).getLast (List.cons_ne_nil _ _) := by
  intro r hr
  simp at hr
  rcases hr with rfl | rfl <;> simp [meanstress] <;> norm_num

/-! ## 4. Re-binning -/

/-- Re-binning to a gap-free binning (weakly increasing breaks `b₀ … bₙ`) that covers every source class
conserves the total.  Source classes must have positive width (the code silently drops the content of a
zero-width class: `rebin_zero_width_class_lost`). -/
theorem rebin_conserves_total (src : List (Bin ℝ)) (b0 : ℝ) (rest : List ℝ) (hm : Mono (b0 :: rest))
    (hpos : ∀ s ∈ src, s.l < s.r)
    (hcov : ∀ s ∈ src, b0 ≤ s.l ∧ s.r ≤ (b0 :: rest).getLast (List.cons_ne_nil _ _)) :
    total (rebin src (b0 :: rest)) = binTotal src := by
  rw [total_rebin, binTotal, total_eq_sum]
  congr 1
  apply List.map_congr_left
  intro s hs
  rw [kap_sum s.l s.r b0 rest hm (hpos s hs) (hcov s hs).1 (hcov s hs).2]; ring

example : Mono ([0, 1.5, 4] : List ℝ) ∧ ∀ s ∈ ([⟨0, 1, 10⟩, ⟨1, 4, 5⟩] : List (Bin ℝ)), s.l < s.r := by
  refine ⟨?_, ?_⟩
  · unfold Mono Mono Mono; norm_num
  · intro s hs; simp at hs; rcases hs with rfl | rfl <;> norm_num

/-- The guard of `rebin_conserves_total` is needed: a zero-width source class is lost. -/
theorem rebin_zero_width_class_lost :
    total (rebin ([⟨1, 1, 5⟩] : List (Bin ℝ)) [0, 2]) = 0 ∧ binTotal ([⟨1, 1, 5⟩] : List (Bin ℝ)) = 5 := by
  constructor
  · simp [rebin, pairs, aggregate, share, total, minA, maxA]
  · simp [binTotal, total]

/-- Re-binning to the histogram's own (strictly increasing) binning is the identity. -/
theorem rebin_same_binning_id (breaks vals : List ℝ) (hs : SMono breaks) (hlen : vals.length = (pairs breaks).length) :
    rebin (binsOf breaks vals) breaks = vals :=
  rebin_self breaks vals hs hlen

example : SMono ([0, 1, 3] : List ℝ) ∧ ([10, 20] : List ℝ).length = (pairs ([0, 1, 3] : List ℝ)).length := by
  refine ⟨?_, by simp [pairs]⟩; unfold SMono SMono SMono; norm_num

/-- The literal reading "A→B→C = A→C for every intermediate binning B" is false:
A = (0,1]:10, (1,2]:0;  B = (0,2];  C = A's binning.  A→B→C = [5, 5], A→C = [10, 0]. -/
theorem rebin_compose_literal_false :
    rebin (rebinBins ([⟨0, 1, 10⟩, ⟨1, 2, 0⟩] : List (Bin ℝ)) [0, 2]) [0, 1, 2] = [5, 5] ∧
    rebin ([⟨0, 1, 10⟩, ⟨1, 2, 0⟩] : List (Bin ℝ)) [0, 1, 2] = [10, 0] := by
  constructor <;>
    (simp [rebin, rebinBins, pairs, aggregate, share, total, minA, maxA]; try norm_num)

/-- Composition conserves the total: A→B→C has A's total when B covers A and C covers B
(B strictly increasing so that its classes have positive width). -/
theorem rebin_compose_conserves_total (src : List (Bin ℝ)) (b0 c0 : ℝ) (brest crest : List ℝ)
    (hb : SMono (b0 :: brest)) (hc : Mono (c0 :: crest)) (hpos : ∀ s ∈ src, s.l < s.r)
    (hcovB : ∀ s ∈ src, b0 ≤ s.l ∧ s.r ≤ (b0 :: brest).getLast (List.cons_ne_nil _ _))
    (hcovC : c0 ≤ b0 ∧ (b0 :: brest).getLast (List.cons_ne_nil _ _) ≤ (c0 :: crest).getLast (List.cons_ne_nil _ _)) :
    total (rebin (rebinBins src (b0 :: brest)) (c0 :: crest)) = binTotal src := by
  rw [rebin_conserves_total _ c0 crest hc]
  · rw [← rebin_conserves_total src b0 brest hb.mono hpos hcovB]
    unfold binTotal rebinBins rebin
    rw [List.map_map]; rfl
  · intro s hs
    unfold rebinBins at hs
    obtain ⟨p, hp, rfl⟩ := List.mem_map.mp hs
    exact pairs_strict _ hb p hp
  · intro s hs
    unfold rebinBins at hs
    obtain ⟨p, hp, rfl⟩ := List.mem_map.mp hs
    obtain ⟨h1, _, h3⟩ := pairs_bounds b0 brest hb.mono p hp
    exact ⟨le_trans hcovC.1 h1, le_trans h3 hcovC.2⟩

/-- Composition: A→B→C = A→C whenever B covers A and refines it (no class of B straddles an end point of a class of A);
C is any gap-free binning. -/
theorem rebin_compose_of_refines (src : List (Bin ℝ)) (b0 : ℝ) (brest : List ℝ) (cbreaks : List ℝ)
    (hb : SMono (b0 :: brest)) (hc : Mono cbreaks) (hpos : ∀ s ∈ src, s.l < s.r)
    (hcovB : ∀ s ∈ src, b0 ≤ s.l ∧ s.r ≤ (b0 :: brest).getLast (List.cons_ne_nil _ _))
    (href : ∀ s ∈ src, RefinesClass s.l s.r (b0 :: brest)) :
    rebin (rebinBins src (b0 :: brest)) cbreaks = rebin src cbreaks := by
  unfold rebin
  apply List.map_congr_left
  intro q hq
  have hq12 : q.1 ≤ q.2 := by
    cases cbreaks with
    | nil => simp [pairs] at hq
    | cons c0 crest => exact (pairs_bounds c0 crest hc q hq).2.1
  unfold aggregate rebinBins
  simp only [total_eq_sum, List.map_map, share_fun, Function.comp_def, aggregate]
  have h1 : ((pairs (b0 :: brest)).map fun p => (src.map fun s => s.v * kap p.1 p.2 s.l s.r).sum * kap q.1 q.2 p.1 p.2) =
      (pairs (b0 :: brest)).map fun p => (src.map fun s => s.v * (kap p.1 p.2 s.l s.r * kap q.1 q.2 p.1 p.2)).sum := by
    apply List.map_congr_left
    intro p _
    rw [← List.sum_map_mul_right]
    congr 1
    apply List.map_congr_left
    intro s _; ring
  rw [h1, sum_map_sum_comm]
  congr 1
  apply List.map_congr_left
  intro s hs
  rw [List.sum_map_mul_left,
    kap_compose s.l s.r q.1 q.2 b0 brest hb (hpos s hs) hq12 (hcovB s hs).1 (hcovB s hs).2 (href s hs)]

example : RefinesClass 0 2 ([0, 1, 2, 3] : List ℝ) ∧ SMono ([0, 1, 2, 3] : List ℝ) := by
  constructor
  · intro p hp
    simp [pairs] at hp
    rcases hp with rfl | rfl | rfl <;> norm_num
  · unfold SMono SMono SMono SMono; norm_num

/-- …in particular when B contains every break of A's (strictly increasing) binning. -/
theorem rebin_compose_of_breaks_subset (abreaks vals : List ℝ) (b0 : ℝ) (brest : List ℝ) (cbreaks : List ℝ)
    (ha : SMono abreaks) (hb : SMono (b0 :: brest)) (hc : Mono cbreaks)
    (hsub : ∀ x ∈ abreaks, x ∈ b0 :: brest) :
    rebin (rebinBins (binsOf abreaks vals) (b0 :: brest)) cbreaks = rebin (binsOf abreaks vals) cbreaks := by
  have hmem := binsOf_mem abreaks vals ha
  apply rebin_compose_of_refines _ b0 brest cbreaks hb hc
  · intro s hs; exact (hmem s hs).1
  · intro s hs
    obtain ⟨_, h2, h3⟩ := hmem s hs
    exact ⟨(mono_mem_bounds b0 brest hb.mono _ (hsub _ h2)).1, (mono_mem_bounds b0 brest hb.mono _ (hsub _ h3)).2⟩
  · intro s hs
    obtain ⟨h1, h2, h3⟩ := hmem s hs
    exact refinesClass_of_mem s.l s.r _ hb (le_of_lt h1) (hsub _ h2) (hsub _ h3)

example : SMono ([0, 1, 2] : List ℝ) ∧ SMono ([0, 0.5, 1, 2, 3] : List ℝ) ∧
    ∀ x ∈ ([0, 1, 2] : List ℝ), x ∈ ([0, 0.5, 1, 2, 3] : List ℝ) := by
  refine ⟨?_, ?_, ?_⟩
  · unfold SMono SMono SMono; norm_num
  · unfold SMono SMono SMono SMono SMono; norm_num
  · intro x hx; simp at hx ⊢; rcases hx with rfl | rfl | rfl <;> simp

/-! ## 4b. Re-binning a two-level histogram (MultiIndex of two interval levels) -/

/-- Each target cell receives from each source cell its content times the product of the per-level shares. -/
theorem rebin2d_cell_is_product (pl pr ql qr : ℝ) (c : Cell ℝ) :
    share2 pl pr ql qr c = c.v * (kap pl pr c.xl c.xr * kap ql qr c.yl c.yr) :=
  share2_eq pl pr ql qr c

/-- Two-level re-bin to gap-free binnings that cover every source cell on both levels conserves the total
(source cells of positive width on both levels). -/
theorem rebin2d_conserves_total (cells : List (Cell ℝ)) (x0 y0 : ℝ) (xr yr : List ℝ)
    (hmx : Mono (x0 :: xr)) (hmy : Mono (y0 :: yr))
    (hpos : ∀ c ∈ cells, c.xl < c.xr ∧ c.yl < c.yr)
    (hcovx : ∀ c ∈ cells, x0 ≤ c.xl ∧ c.xr ≤ (x0 :: xr).getLast (List.cons_ne_nil _ _))
    (hcovy : ∀ c ∈ cells, y0 ≤ c.yl ∧ c.yr ≤ (y0 :: yr).getLast (List.cons_ne_nil _ _)) :
    total ((rebin2 cells (x0 :: xr) (y0 :: yr)).map total) = (cells.map (·.v)).sum := by
  rw [total_rebin2]
  congr 1
  apply List.map_congr_left
  intro c hc
  rw [kap_sum c.xl c.xr x0 xr hmx (hpos c hc).1 (hcovx c hc).1 (hcovx c hc).2,
    kap_sum c.yl c.yr y0 yr hmy (hpos c hc).2 (hcovy c hc).1 (hcovy c hc).2]
  ring

example : Mono ([0, 0.25, 1] : List ℝ) ∧ Mono ([0, 4, 10, 12] : List ℝ) ∧
    ∀ c ∈ ([⟨0, 0.5, 0, 5, 1⟩, ⟨0.5, 1, 5, 10, 4⟩] : List (Cell ℝ)), c.xl < c.xr ∧ c.yl < c.yr := by
  refine ⟨by unfold Mono Mono Mono; norm_num, by unfold Mono Mono Mono Mono; norm_num, ?_⟩
  intro c hc; simp at hc; rcases hc with rfl | rfl <;> norm_num

/-- The target binning of a level is found by the level's name: listing the target's levels in the
histogram's order or in the other order gives the same re-bin. -/
theorem rebin2d_by_level_name (n1 n2 : String) (h : n1 ≠ n2) (bx bys : List ℝ) (cells : List (Cell ℝ)) :
    rebin2Named (n1, n2) [(n1, bx), (n2, bys)] cells = rebin2 cells bx bys ∧
    rebin2Named (n1, n2) [(n2, bys), (n1, bx)] cells = rebin2 cells bx bys := by
  have h' : n2 ≠ n1 := fun e => h e.symm
  have e1 : (n1 == n2) = false := beq_false_of_ne h
  have e2 : (n2 == n1) = false := beq_false_of_ne h'
  constructor <;> simp [rebin2Named, pickBreaks, List.find?, e1, e2]

example : ("from" : String) ≠ "to" := by decide

/-! ## 5. Combining -/

/-- `combine_histogram(…, 'sum')` conserves the grand total. -/
theorem combine_sum_conserves (hists : List (List (Bin ℝ))) :
    binTotal (combine hists) = (hists.map binTotal).sum := by
  unfold combine
  rw [binTotal_foldl]
  have : ∀ l : List (List (Bin ℝ)), binTotal l.flatten = (l.map binTotal).sum := by
    intro l
    induction l with
    | nil => simp [binTotal, total_eq_sum]
    | cons a as ih => rw [List.flatten_cons, binTotal_append, ih, List.map_cons, List.sum_cons]
  rw [this]
  simp [binTotal, total_eq_sum]

example : binTotal (combine ([[⟨0, 1, 5⟩, ⟨1, 2, 10⟩], [⟨1, 2, 12⟩, ⟨2, 3, 3⟩]] : List (List (Bin ℝ)))) = 30 := by
  rw [combine_sum_conserves]; simp [binTotal, total]; norm_num

/-! ## 6. Unoccupied classes (NaN contents, `nan_default=True`) -/

/-- `nan_default=True` marks exactly the target classes that no occupied source class overlaps. -/
theorem rebin_nan_default_marks_unoccupied (src : List (OBin ℝ)) (tl tr : ℝ) :
    aggregateOpt true src tl tr = none ↔ (present src).filter (overlapsB tl tr) = [] := by
  unfold aggregateOpt
  constructor
  · intro h
    by_cases he : ((present src).filter (overlapsB tl tr)).isEmpty = true
    · exact List.isEmpty_iff.mp he
    · simp [he] at h
  · intro h
    simp [h]

/-- Re-binning with `nan_default` (True or False) conserves the total, NaN counted as nothing: for a gap-free
target that covers every occupied source class (occupied classes of positive width). -/
theorem rebin_nan_default_conserves_total (nd : Bool) (src : List (OBin ℝ)) (b0 : ℝ) (rest : List ℝ)
    (hm : Mono (b0 :: rest)) (hpos : ∀ s ∈ present src, s.l < s.r)
    (hcov : ∀ s ∈ present src, b0 ≤ s.l ∧ s.r ≤ (b0 :: rest).getLast (List.cons_ne_nil _ _)) :
    ototal (rebinOpt nd src (b0 :: rest)) = binTotal (present src) := by
  unfold ototal
  simp only [lit_zero]
  rw [rebinOpt_getD]
  exact rebin_conserves_total (present src) b0 rest hm hpos hcov

example : present ([⟨0, 1, some 10⟩, ⟨1, 2, none⟩, ⟨2, 4, some 5⟩] : List (OBin ℝ)) = [⟨0, 1, 10⟩, ⟨2, 4, 5⟩] := by
  simp [present]

/-- Combining by sum with unoccupied classes: the grand total is the sum of the totals of the parts, NaN counted as
nothing (pandas' groupby-sum skips NaN). -/
theorem combine_sum_conserves_optional (hists : List (List (OBin ℝ))) :
    binTotal (combineOpt hists) = (hists.map fun h => binTotal (present h)).sum := by
  unfold combineOpt
  rw [combine_sum_conserves, List.map_map]
  congr 1
  apply List.map_congr_left
  intro h _
  exact binTotal_getD h

/-- The pipeline of the docstring - every histogram re-binned (`nan_default` either way) to one common gap-free
binning that covers it, then combined by sum - conserves the grand total of the occupied classes. -/
theorem rebin_then_combine_conserves (nd : Bool) (hists : List (List (OBin ℝ))) (b0 : ℝ) (rest : List ℝ)
    (hm : Mono (b0 :: rest)) (hpos : ∀ h ∈ hists, ∀ s ∈ present h, s.l < s.r)
    (hcov : ∀ h ∈ hists, ∀ s ∈ present h, b0 ≤ s.l ∧ s.r ≤ (b0 :: rest).getLast (List.cons_ne_nil _ _)) :
    binTotal (rebinCombine nd hists (b0 :: rest)) = (hists.map fun h => binTotal (present h)).sum := by
  unfold rebinCombine
  rw [combine_sum_conserves_optional, List.map_map]
  congr 1
  apply List.map_congr_left
  intro h hh
  simp only [Function.comp]
  rw [binTotal_present, ← rebin_nan_default_conserves_total nd h b0 rest hm (hpos h hh) (hcov h hh)]
  unfold ototal rebinOptBins rebinOpt
  simp [total_eq_sum, Function.comp_def]

end PylifeVerif.C14
