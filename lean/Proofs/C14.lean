/-
C14 — load collectives and histograms account for every cycle exactly once.
Property theorems about `Model/Collective.lean` over ℝ.
-/
import Proofs.Lemmas.Collective
import Proofs.Lemmas.CollectiveCount

namespace PylifeVerif.C14
open PylifeVerif.Collective

/-! ## 1. Consistency of the derived quantities (`LoadCollective`) -/

/-- upper − lower = 2·amplitude, (upper + lower)/2 = mean, R = lower/upper (whenever the quotient exists;
`0/0` is filled with 0 by the code: `R_fillna`). -/
theorem collective_consistency (r : Row ℝ) :
    upper r - lower r = 2 * amplitude r ∧ (upper r + lower r) / 2 = meanstress r ∧
    (upper r ≠ 0 → rvalue r = lower r / upper r) := by
  refine ⟨?_, ?_, ?_⟩
  · unfold upper lower amplitude
    simp only [transc_abs, lit_two]
    split_ifs with h
    · rw [abs_of_nonpos (by linarith)]; ring
    · rw [abs_of_nonneg (by linarith)]; ring
  · unfold upper lower meanstress
    simp only [lit_two]
    split_ifs <;> ring
  · intro _
    unfold rvalue
    simp

example : upper (⟨3, -1, 2⟩ : Row ℝ) ≠ 0 := by unfold upper; norm_num

/-- `fillna(0.0)`: a loop `0 → 0` gets R = 0. -/
theorem R_fillna (r : Row ℝ) (hu : upper r = 0) (hl : lower r = 0) : rvalue r = 0 := by
  unfold rvalue; simp [hu, hl]

example : upper (⟨0, 0, 1⟩ : Row ℝ) = 0 ∧ lower (⟨0, 0, 1⟩ : Row ℝ) = 0 := by unfold upper lower; norm_num

/-- range/mean → from/to → range/mean is the identity (ranges are non-negative), cycles kept. -/
theorem rangemean_roundtrip (rng mean cyc : ℝ) (h : 0 ≤ rng) :
    rangeOf (fromRangeMean rng mean cyc) = rng ∧ meanstress (fromRangeMean rng mean cyc) = mean ∧
    (fromRangeMean rng mean cyc).cyc = cyc := by
  refine ⟨?_, ?_, rfl⟩
  · unfold rangeOf amplitude fromRangeMean
    simp only [transc_abs, lit_two]
    rw [abs_of_nonpos (by linarith)]; ring
  · unfold meanstress fromRangeMean
    simp only [lit_two]; ring

example : (0:ℝ) ≤ 4 := by norm_num

/-- from/to → range/mean → from/to gives the same loop with its lower value first
(`from`/`to` themselves when `from ≤ to`), cycles kept. -/
theorem fromto_roundtrip (r : Row ℝ) :
    (fromRangeMean (rangeOf r) (meanstress r) r.cyc).fr = lower r ∧
    (fromRangeMean (rangeOf r) (meanstress r) r.cyc).to = upper r ∧
    (fromRangeMean (rangeOf r) (meanstress r) r.cyc).cyc = r.cyc := by
  refine ⟨?_, ?_, rfl⟩
  · unfold fromRangeMean rangeOf amplitude meanstress lower
    simp only [transc_abs, lit_two]
    split_ifs with h
    · rw [abs_of_nonpos (by linarith)]; ring
    · rw [abs_of_nonneg (by linarith)]; ring
  · unfold fromRangeMean rangeOf amplitude meanstress upper
    simp only [transc_abs, lit_two]
    split_ifs with h
    · rw [abs_of_nonpos (by linarith)]; ring
    · rw [abs_of_nonneg (by linarith)]; ring

theorem fromto_roundtrip_id (r : Row ℝ) (h : r.fr ≤ r.to) :
    fromRangeMean (rangeOf r) (meanstress r) r.cyc = r := by
  obtain ⟨h1, h2, _⟩ := fromto_roundtrip r
  cases r with
  | mk a b c =>
    simp only [upper, lower] at h1 h2 h
    rw [if_pos h] at h1 h2
    unfold fromRangeMean at h1 h2 ⊢
    simp only at h1 h2
    rw [h1, h2]

example : (⟨1, 3, 1⟩ : Row ℝ).fr ≤ (⟨1, 3, 1⟩ : Row ℝ).to := by norm_num

/-- Scaling by `f`: amplitude × |f|, mean × f, upper/lower × f (swapped for negative `f`), cycles untouched. -/
theorem scale_equivariant (f : ℝ) (r : Row ℝ) :
    amplitude (scale f r) = |f| * amplitude r ∧ meanstress (scale f r) = f * meanstress r ∧
    (0 ≤ f → upper (scale f r) = f * upper r ∧ lower (scale f r) = f * lower r) ∧
    (f ≤ 0 → upper (scale f r) = f * lower r ∧ lower (scale f r) = f * upper r) ∧
    (scale f r).cyc = r.cyc := by
  refine ⟨?_, ?_, ?_, ?_, rfl⟩
  · unfold amplitude scale
    simp only [transc_abs, lit_two]
    rw [show r.fr * f - r.to * f = f * (r.fr - r.to) by ring, abs_mul]; ring
  · unfold meanstress scale; simp only [lit_two]; ring
  · intro hf
    unfold upper lower scale
    simp only
    constructor <;> split_ifs with h1 h2 h2 <;> nlinarith
  · intro hf
    unfold upper lower scale
    simp only
    constructor <;> split_ifs with h1 h2 h2 <;> nlinarith

example : (0:ℝ) ≤ 2.5 ∧ (-1:ℝ) ≤ 0 := by norm_num

/-- Shifting by `d`: amplitude unchanged, mean/upper/lower + d, cycles untouched. -/
theorem shift_equivariant (d : ℝ) (r : Row ℝ) :
    amplitude (shift d r) = amplitude r ∧ meanstress (shift d r) = meanstress r + d ∧
    upper (shift d r) = upper r + d ∧ lower (shift d r) = lower r + d ∧ (shift d r).cyc = r.cyc := by
  refine ⟨?_, ?_, ?_, ?_, rfl⟩
  · unfold amplitude shift
    simp only [transc_abs, lit_two]
    rw [show r.fr + d - (r.to + d) = r.fr - r.to by ring]
  · unfold meanstress shift; simp only [lit_two]; ring
  · unfold upper shift
    simp only
    split_ifs with h1 h2 h2 <;> linarith
  · unfold lower shift
    simp only
    split_ifs with h1 h2 h2 <;> linarith

/-! ## 2. The same for `LoadHistogram` (class mids) -/

/-- range/mean matrix: upper − lower = 2·amplitude, (upper + lower)/2 = mean; scaling by any factor `f` scales
amplitude and mean (the statement has no hypothesis on the sign of `f`; in the code only `f ≥ 0` is reachable, pandas
rejects a negative factor because the interval bounds would be inverted), shifting moves only the mean. -/
theorem histogram_rm_consistency (c : RMClass ℝ) (f d : ℝ) :
    rmUpper c - rmLower c = 2 * rmAmplitude c ∧ (rmUpper c + rmLower c) / 2 = rmMean c ∧
    rmAmplitude (rmScale f c) = f * rmAmplitude c ∧ rmMean (rmScale f c) = f * rmMean c ∧
    rmAmplitude (rmShift d c) = rmAmplitude c ∧ rmMean (rmShift d c) = rmMean c + d := by
  unfold rmUpper rmLower rmAmplitude rmMean rmScale rmShift mid
  simp only [lit_two, lit_half]
  refine ⟨?_, ?_, ?_, ?_, ?_, ?_⟩ <;> first | trivial | ring

/-- from/to matrix: the same identities; scaling multiplies the amplitude by |f|. -/
theorem histogram_ft_consistency (c : FTClass ℝ) (f d : ℝ) :
    ftUpper c - ftLower c = 2 * ftAmplitude c ∧ (ftUpper c + ftLower c) / 2 = ftMean c ∧
    ftAmplitude (ftScale f c) = |f| * ftAmplitude c ∧ ftMean (ftScale f c) = f * ftMean c ∧
    ftAmplitude (ftShift d c) = ftAmplitude c ∧ ftMean (ftShift d c) = ftMean c + d := by
  unfold ftUpper ftLower ftAmplitude ftMean ftScale ftShift mid
  simp only [lit_two, lit_half, transc_abs]
  refine ⟨?_, ?_, ?_, ?_, ?_, ?_⟩
  · ring
  · ring
  rotate_left
  · ring
  rotate_left
  · ring
  · rw [show 1 / 2 * (c.fl * f + c.frr * f) - 1 / 2 * (c.tl * f + c.tr * f) =
      f * (1 / 2 * (c.fl + c.frr) - 1 / 2 * (c.tl + c.tr)) by ring, abs_mul]; ring
  · rw [show 1 / 2 * (c.fl + d + (c.frr + d)) - 1 / 2 * (c.tl + d + (c.tr + d)) =
      1 / 2 * (c.fl + c.frr) - 1 / 2 * (c.tl + c.tr) by ring]

/-! ## 3. Histograms: every cycle inside the covered range is in exactly one class -/

/-- numpy's bin rule over weakly increasing edges `e₀ ≤ … ≤ eₙ` (n ≥ 1): a value in `[e₀, eₙ]` lies in exactly
one class, a value outside in none. -/
theorem histogram_exactly_one_class (e0 : ℝ) (rest : List ℝ) (v : ℝ) (hne : rest ≠ []) (hm : Mono (e0 :: rest)) :
    (classes (e0 :: rest)).countP (fun c => inBin c.1 c.2.1 c.2.2 v) =
      if e0 ≤ v ∧ v ≤ (e0 :: rest).getLast (List.cons_ne_nil _ _) then 1 else 0 := by
  rw [classes_count e0 rest v hne hm]
  simp [inRange]

example : ([1, 1, 2] : List ℝ) ≠ [] ∧ Mono ([0, 1, 1, 2] : List ℝ) := by
  refine ⟨by simp, ?_⟩; unfold Mono Mono Mono Mono; norm_num

/-- Partition: the class contents sum to the cycles of the rows whose range lies in `[e₀, eₙ]`
(`range_histogram`; weights = the cycles column, 1 per row without one). -/
theorem histogram_partition (e0 : ℝ) (rest : List ℝ) (rows : List (Row ℝ)) (hne : rest ≠ []) (hm : Mono (e0 :: rest)) :
    total (rangeHistogram (e0 :: rest) rows) =
      ((rows.filter fun r => decide (e0 ≤ rangeOf r) &&
          decide (rangeOf r ≤ (e0 :: rest).getLast (List.cons_ne_nil _ _))).map (·.cyc)).sum := by
  unfold rangeHistogram
  rw [hist_total e0 rest _ hne hm]
  unfold fsum inRange
  rw [List.filter_map, List.map_map]
  rfl

example : ([2, 5] : List ℝ) ≠ [] ∧ Mono ([0, 2, 5] : List ℝ) ∧
    total (rangeHistogram [0, 2, 5] ([⟨0, 2, 3⟩, ⟨1, -5, 1⟩, ⟨4, 1, 2⟩] : List (Row ℝ))) = 5 := by
  refine ⟨by simp, by unfold Mono Mono Mono; norm_num, ?_⟩
  rw [histogram_partition 0 [2, 5] _ (by simp) (by unfold Mono Mono Mono; norm_num)]
  simp [rangeOf, amplitude, List.filter_cons]
  norm_num [abs_of_nonneg, abs_of_nonpos]

/-- Two-dimensional partition (`histogram`, and the recorder's from/to histogram): the contents of all classes sum to the
cycles of the points whose both coordinates are covered. -/
theorem histogram2d_partition (x0 y0 : ℝ) (xr yr : List ℝ) (pts : List (ℝ × ℝ × ℝ))
    (hx : xr ≠ []) (hy : yr ≠ []) (hmx : Mono (x0 :: xr)) (hmy : Mono (y0 :: yr)) :
    total ((hist2d (x0 :: xr) (y0 :: yr) pts).map total) =
      ((pts.filter fun p =>
          (decide (x0 ≤ p.1) && decide (p.1 ≤ (x0 :: xr).getLast (List.cons_ne_nil _ _))) &&
          (decide (y0 ≤ p.2.1) && decide (p.2.1 ≤ (y0 :: yr).getLast (List.cons_ne_nil _ _)))).map (·.2.2)).sum := by
  rw [hist2d_rows_total _ y0 yr pts hy hmy, hist_total x0 xr _ hx hmx]
  unfold fsum inRange
  rw [List.filter_map, List.map_map, List.filter_filter]
  rfl

/-- When every mean lies in the covered mean range, the range histogram is the marginal (row sums) of the
range/mean histogram. -/
theorem range_hist_is_marginal (er : List ℝ) (m0 : ℝ) (mr : List ℝ) (rows : List (Row ℝ)) (hne : mr ≠ [])
    (hm : Mono (m0 :: mr))
    (hcov : ∀ r ∈ rows, m0 ≤ meanstress r ∧ meanstress r ≤ (m0 :: mr).getLast (List.cons_ne_nil _ _)) :
    (rangeMeanHistogram er (m0 :: mr) rows).map total = rangeHistogram er rows := by
  unfold rangeMeanHistogram rangeHistogram
  rw [hist2d_rows_total er m0 mr _ hne hm]
  congr 1
  have : rows.filter ((fun p : ℝ × ℝ × ℝ => inRange m0 ((m0 :: mr).getLast (List.cons_ne_nil _ _)) p.2.1) ∘
      fun r : Row ℝ => (rangeOf r, meanstress r, r.cyc)) = rows := by
    apply List.filter_eq_self.mpr
    intro r hr
    obtain ⟨a, b⟩ := hcov r hr
    simp [inRange, a, b]
  rw [List.filter_map, this, List.map_map]
  rfl

example : ∀ r ∈ ([⟨0, 2, 1⟩, ⟨1, 2, 3⟩] : List (Row ℝ)),
    (0:ℝ) ≤ meanstress r ∧ meanstress r ≤ ([0, 1, 2] : List ℝ).getLast (List.cons_ne_nil _ _) := by
  intro r hr
  simp at hr
  rcases hr with rfl | rfl <;> simp [meanstress] <;> norm_num

/-! ## 3b. Bin specification "count": numpy's automatic edges -/

/-- `range_histogram(n)` with an integer class count `n ≥ 1` (numpy rejects `n = 0`): the automatic edges
`linspace(min, max, n + 1)` (`min = max` widened by ±0.5) cover every range, so every cycle is in a class:
the class contents sum to ALL cycles. -/
theorem count_histogram_partition (rows : List (Row ℝ)) (n : Nat) (hn : 0 < n) :
    total (rangeHistogram (autoEdges (rows.map rangeOf) n) rows) = (rows.map (·.cyc)).sum :=
  rangeHistogram_count_total rows n hn

example : autoEdges ([1, 3] : List ℝ) 2 = [1, 2, 3] ∧ 0 < 2 := by
  refine ⟨?_, by norm_num⟩
  simp [autoEdges, minL, maxL, linspace, natTo, List.range, List.range.loop]
  norm_num

/-- The same for `histogram(n)` (range × mean, automatic edges per axis). -/
theorem count_histogram2d_partition (rows : List (Row ℝ)) (n : Nat) (hn : 0 < n) :
    total ((rangeMeanHistogram (autoEdges (rows.map rangeOf) n) (autoEdges (rows.map meanstress) n) rows).map total) =
      (rows.map (·.cyc)).sum :=
  rangeMeanHistogram_count_total rows n hn

/-- …and for the recorder's `histogram([nx, ny])` (from × to). -/
theorem count_fromto_histogram_partition (rows : List (Row ℝ)) (nx ny : Nat) (hx : 0 < nx) (hy : 0 < ny) :
    total ((fromToHistogram (autoEdges (rows.map (·.fr)) nx) (autoEdges (rows.map (·.to)) ny) rows).map total) =
      (rows.map (·.cyc)).sum :=
  fromToHistogram_count_total rows nx ny hx hy

example : (0 : Nat) < 3 ∧ (0 : Nat) < 1 := by decide

/-! ## 4. Re-binning -/

/-- Re-binning to a gap-free binning (weakly increasing breaks `b₀ … bₙ`, n ≥ 1) that covers every source class
conserves the total - source classes of zero width included (a zero-width class is a point mass at its right
bound and goes, undivided, to the one target class that numpy's bin rule puts the point in).
Guard `s.l ≤ s.r`: pandas' `IntervalIndex` rejects `left > right`.  Guard `rest ≠ []`: a binning needs one class. -/
theorem rebin_conserves_total (src : List (Bin ℝ)) (b0 : ℝ) (rest : List ℝ) (hne : rest ≠ []) (hm : Mono (b0 :: rest))
    (hval : ∀ s ∈ src, s.l ≤ s.r)
    (hcov : ∀ s ∈ src, b0 ≤ s.l ∧ s.r ≤ (b0 :: rest).getLast (List.cons_ne_nil _ _)) :
    total (rebin src (b0 :: rest)) = binTotal src :=
  total_rebin_cover src b0 rest hne hm hval hcov

example : ([1.5, 4] : List ℝ) ≠ [] ∧ Mono ([0, 1.5, 4] : List ℝ) ∧
    (∀ s ∈ ([⟨0, 1, 10⟩, ⟨1, 1, 2⟩, ⟨1, 4, 5⟩] : List (Bin ℝ)), s.l ≤ s.r) ∧
    (∀ s ∈ ([⟨0, 1, 10⟩, ⟨1, 1, 2⟩, ⟨1, 4, 5⟩] : List (Bin ℝ)),
      (0:ℝ) ≤ s.l ∧ s.r ≤ ([0, 1.5, 4] : List ℝ).getLast (List.cons_ne_nil _ _)) := by
  refine ⟨by simp, ?_, ?_, ?_⟩
  · unfold Mono Mono Mono; norm_num
  · intro s hs; simp at hs; rcases hs with rfl | rfl | rfl <;> norm_num
  · intro s hs; simp at hs; rcases hs with rfl | rfl | rfl <;> norm_num

/-- The zero-width branch, explicitly: no quotient is formed; the class gives everything to the target class that
holds its point (and nothing to every other class). -/
theorem rebin_zero_width_class (c : ℝ × ℝ × Bool) (s : Bin ℝ) (h : s.l = s.r) :
    shareC c s = if inBin c.1 c.2.1 c.2.2 s.r = true then s.v else 0 := by
  unfold shareC
  rw [if_neg (by rw [h]; exact lt_irrefl _), lit_zero]

example : (⟨1, 1, 5⟩ : Bin ℝ).l = (⟨1, 1, 5⟩ : Bin ℝ).r ∧ shareC (0, 2, true) (⟨1, 1, 5⟩ : Bin ℝ) = 5 := by
  refine ⟨rfl, ?_⟩
  rw [rebin_zero_width_class _ _ rfl]
  simp [inBin]

/-- The witness of the former defect (`range_histogram([0, 1, 1])` of three cycles, re-binned): nothing is lost. -/
theorem rebin_zero_width_class_kept :
    rebin ([⟨0, 1, 1⟩, ⟨1, 1, 2⟩] : List (Bin ℝ)) [0, 2] = [3] ∧
    rebin ([⟨0, 1, 1⟩, ⟨1, 1, 2⟩] : List (Bin ℝ)) [0, 1, 2] = [1, 2] ∧
    rebin ([⟨0, 1, 1⟩, ⟨1, 1, 2⟩] : List (Bin ℝ)) [0, 1, 1] = [1, 2] := by
  refine ⟨?_, ?_, ?_⟩ <;>
    (simp [rebin, classes, aggregate, shareC, share, inBin, total, minA, maxA]; try norm_num)

/-- Re-binning to the histogram's own (strictly increasing) binning is the identity. -/
theorem rebin_same_binning_id (breaks vals : List ℝ) (hs : SMono breaks) (hlen : vals.length = (pairs breaks).length) :
    rebin (binsOf breaks vals) breaks = vals :=
  rebin_self breaks vals hs hlen

example : SMono ([0, 1, 3] : List ℝ) ∧ ([10, 20] : List ℝ).length = (pairs ([0, 1, 3] : List ℝ)).length := by
  refine ⟨?_, by simp [pairs]⟩; unfold SMono SMono SMono; norm_num

/-- …also for the shape numpy produces when the last edge is repeated: a zero-width LAST class `(bₙ, bₙ]` holding `v`. -/
theorem rebin_same_binning_id_point_last (breaks vals : List ℝ) (v : ℝ) (hs : SMono breaks) (hne : breaks ≠ [])
    (hlen : vals.length = (pairs breaks).length) :
    rebin (binsOf (breaks ++ [breaks.getLast hne]) (vals ++ [v])) (breaks ++ [breaks.getLast hne]) = vals ++ [v] :=
  rebin_self_point_last breaks vals v hs hne hlen

example : rebin (binsOf ([0, 1] ++ [([0, 1] : List ℝ).getLast (by simp)]) ([1] ++ [2])) ([0, 1] ++ [([0, 1] : List ℝ).getLast (by simp)])
    = ([1] ++ [2] : List ℝ) :=
  rebin_same_binning_id_point_last [0, 1] [1] 2 (by unfold SMono SMono; norm_num) (by simp) (by simp [pairs])

/-- The literal reading "A→B→C = A→C for every intermediate binning B" is false:
A = (0,1]:10, (1,2]:0;  B = (0,2];  C = A's binning.  A→B→C = [5, 5], A→C = [10, 0]. -/
theorem rebin_compose_literal_false :
    rebin (rebinBins ([⟨0, 1, 10⟩, ⟨1, 2, 0⟩] : List (Bin ℝ)) [0, 2]) [0, 1, 2] = [5, 5] ∧
    rebin ([⟨0, 1, 10⟩, ⟨1, 2, 0⟩] : List (Bin ℝ)) [0, 1, 2] = [10, 0] := by
  constructor <;>
    (simp [rebin, rebinBins, classes, aggregate, shareC, share, total, minA, maxA]; try norm_num)

/-- Composition conserves the total: A→B→C has A's total when B covers A and C covers B
(B strictly increasing so that its classes have positive width; A may contain zero-width classes). -/
theorem rebin_compose_conserves_total (src : List (Bin ℝ)) (b0 c0 : ℝ) (brest crest : List ℝ)
    (hbne : brest ≠ []) (hcne : crest ≠ [])
    (hb : SMono (b0 :: brest)) (hc : Mono (c0 :: crest)) (hval : ∀ s ∈ src, s.l ≤ s.r)
    (hcovB : ∀ s ∈ src, b0 ≤ s.l ∧ s.r ≤ (b0 :: brest).getLast (List.cons_ne_nil _ _))
    (hcovC : c0 ≤ b0 ∧ (b0 :: brest).getLast (List.cons_ne_nil _ _) ≤ (c0 :: crest).getLast (List.cons_ne_nil _ _)) :
    total (rebin (rebinBins src (b0 :: brest)) (c0 :: crest)) = binTotal src := by
  rw [rebin_conserves_total _ c0 crest hcne hc]
  · rw [binTotal_rebinBins]
    exact rebin_conserves_total src b0 brest hbne hb.mono hval hcovB
  · intro s hs
    exact le_of_lt (rebinBins_pos src _ hb s hs)
  · intro s hs
    obtain ⟨h1, _, h3⟩ := rebinBins_bounds src b0 brest hb.mono s hs
    exact ⟨le_trans hcovC.1 h1, le_trans h3 hcovC.2⟩

example : ([1, 2] : List ℝ) ≠ [] ∧ ([3] : List ℝ) ≠ [] ∧ SMono ([0, 1, 2] : List ℝ) ∧ Mono ([0, 3] : List ℝ) ∧
    (∀ s ∈ ([⟨0, 1, 1⟩, ⟨1, 1, 2⟩] : List (Bin ℝ)), s.l ≤ s.r) ∧
    (∀ s ∈ ([⟨0, 1, 1⟩, ⟨1, 1, 2⟩] : List (Bin ℝ)),
      (0:ℝ) ≤ s.l ∧ s.r ≤ ([0, 1, 2] : List ℝ).getLast (List.cons_ne_nil _ _)) ∧
    ((0:ℝ) ≤ 0 ∧ ([0, 1, 2] : List ℝ).getLast (List.cons_ne_nil _ _) ≤ ([0, 3] : List ℝ).getLast (List.cons_ne_nil _ _)) := by
  refine ⟨by simp, by simp, ?_, ?_, ?_, ?_, ?_⟩
  · unfold SMono SMono SMono; norm_num
  · unfold Mono Mono; norm_num
  · intro s hs; simp at hs; rcases hs with rfl | rfl <;> norm_num
  · intro s hs; simp at hs; rcases hs with rfl | rfl <;> norm_num
  · norm_num

/-- Generic composition step (used for both sufficient conditions below): if for every source class and every class `q`
of C the shares compose - Σ over the classes `p` of B of (share of the source class in `p`) × (share of `p` in `q`) is the
share of the source class in `q` - then A→B→C = A→C.  Source classes of positive width (a point mass cannot be spread
linearly, so the linear composition law does not apply to it); B strictly increasing. -/
theorem rebin_compose_of_kap (src : List (Bin ℝ)) (b0 : ℝ) (brest : List ℝ) (cbreaks : List ℝ)
    (hb : SMono (b0 :: brest)) (hpos : ∀ s ∈ src, s.l < s.r)
    (hk : ∀ s ∈ src, ∀ q ∈ pairs cbreaks,
      ((pairs (b0 :: brest)).map fun p => kap p.1 p.2 s.l s.r * kap q.1 q.2 p.1 p.2).sum = kap q.1 q.2 s.l s.r) :
    rebin (rebinBins src (b0 :: brest)) cbreaks = rebin src cbreaks := by
  rw [rebin_eq_rebinS _ _ (rebinBins_pos src _ hb), rebinBins_eq_rebinBinsS src _ hpos, rebin_eq_rebinS src _ hpos]
  exact rebinS_compose_of_kap src (b0 :: brest) cbreaks hk

/-- non-vacuity: the source (0,2] through B = (0,1],(1,2] to C = (0,2]: 1/2·1 + 1/2·1 = 1. -/
example : SMono ([0, 1, 2] : List ℝ) ∧ (∀ s ∈ ([⟨0, 2, 7⟩] : List (Bin ℝ)), s.l < s.r) ∧
    ∀ s ∈ ([⟨0, 2, 7⟩] : List (Bin ℝ)), ∀ q ∈ pairs ([0, 2] : List ℝ),
      ((pairs ([0, 1, 2] : List ℝ)).map fun p => kap p.1 p.2 s.l s.r * kap q.1 q.2 p.1 p.2).sum = kap q.1 q.2 s.l s.r := by
  refine ⟨?_, ?_, ?_⟩
  · unfold SMono SMono SMono; norm_num
  · intro s hs; simp at hs; subst hs; norm_num
  · intro s hs q hq
    simp at hs; subst hs
    simp [pairs] at hq; subst hq
    simp [pairs, kap]
    norm_num

/-- Composition: A→B→C = A→C whenever B covers A and refines it (no class of B straddles an end point of a class of A);
C is any gap-free binning. -/
theorem rebin_compose_of_refines (src : List (Bin ℝ)) (b0 : ℝ) (brest : List ℝ) (cbreaks : List ℝ)
    (hb : SMono (b0 :: brest)) (hc : Mono cbreaks) (hpos : ∀ s ∈ src, s.l < s.r)
    (hcovB : ∀ s ∈ src, b0 ≤ s.l ∧ s.r ≤ (b0 :: brest).getLast (List.cons_ne_nil _ _))
    (href : ∀ s ∈ src, RefinesClass s.l s.r (b0 :: brest)) :
    rebin (rebinBins src (b0 :: brest)) cbreaks = rebin src cbreaks := by
  apply rebin_compose_of_kap src b0 brest cbreaks hb hpos
  intro s hs q hq
  have hq12 : q.1 ≤ q.2 := by
    cases cbreaks with
    | nil => simp [pairs] at hq
    | cons c0 crest => exact (pairs_bounds c0 crest hc q hq).2.1
  exact kap_compose s.l s.r q.1 q.2 b0 brest hb (hpos s hs) hq12 (hcovB s hs).1 (hcovB s hs).2 (href s hs)

example : RefinesClass 0 2 ([0, 1, 2, 3] : List ℝ) ∧ SMono ([0, 1, 2, 3] : List ℝ) := by
  constructor
  · intro p hp
    simp [pairs] at hp
    rcases hp with rfl | rfl | rfl <;> norm_num
  · unfold SMono SMono SMono SMono; norm_num

/-- …in particular when B contains every break of A's (strictly increasing) binning. -/
theorem rebin_compose_of_breaks_subset (abreaks vals : List ℝ) (b0 : ℝ) (brest : List ℝ) (cbreaks : List ℝ)
    (ha : SMono abreaks) (hb : SMono (b0 :: brest)) (hc : Mono cbreaks)
    (hsub : ∀ x ∈ abreaks, x ∈ b0 :: brest) :
    rebin (rebinBins (binsOf abreaks vals) (b0 :: brest)) cbreaks = rebin (binsOf abreaks vals) cbreaks := by
  have hmem := binsOf_mem abreaks vals ha
  apply rebin_compose_of_refines _ b0 brest cbreaks hb hc
  · intro s hs; exact (hmem s hs).1
  · intro s hs
    obtain ⟨_, h2, h3⟩ := hmem s hs
    exact ⟨(mono_mem_bounds b0 brest hb.mono _ (hsub _ h2)).1, (mono_mem_bounds b0 brest hb.mono _ (hsub _ h3)).2⟩
  · intro s hs
    obtain ⟨h1, h2, h3⟩ := hmem s hs
    exact refinesClass_of_mem s.l s.r _ hb (le_of_lt h1) (hsub _ h2) (hsub _ h3)

example : SMono ([0, 1, 2] : List ℝ) ∧ SMono ([0, 0.5, 1, 2, 3] : List ℝ) ∧
    ∀ x ∈ ([0, 1, 2] : List ℝ), x ∈ ([0, 0.5, 1, 2, 3] : List ℝ) := by
  refine ⟨?_, ?_, ?_⟩
  · unfold SMono SMono SMono; norm_num
  · unfold SMono SMono SMono SMono SMono; norm_num
  · intro x hx; simp at hx ⊢; rcases hx with rfl | rfl | rfl <;> simp

/-- Composition, second sufficient condition: A→B→C = A→C whenever the last binning C coarsens the middle one
(every break of C is a break of B).  B need not cover A: what B cuts off, C - whose range lies inside B's - cuts off as well.
Source classes of positive width. -/
theorem rebin_compose_of_target_coarsens (src : List (Bin ℝ)) (b0 : ℝ) (brest : List ℝ) (cbreaks : List ℝ)
    (hb : SMono (b0 :: brest)) (hc : Mono cbreaks) (hpos : ∀ s ∈ src, s.l < s.r)
    (hsub : ∀ x ∈ cbreaks, x ∈ b0 :: brest) :
    rebin (rebinBins src (b0 :: brest)) cbreaks = rebin src cbreaks := by
  apply rebin_compose_of_kap src b0 brest cbreaks hb hpos
  intro s hs q hq
  have hq12 : q.1 ≤ q.2 := by
    cases cbreaks with
    | nil => simp [pairs] at hq
    | cons c0 crest => exact (pairs_bounds c0 crest hc q hq).2.1
  obtain ⟨h1, h2⟩ := pairs_mem_of_mem cbreaks q hq
  exact kap_compose_coarsen s.l s.r q.1 q.2 b0 brest hb (hpos s hs) hq12 (hsub _ h1) (hsub _ h2)

/-- non-vacuity: A = (1/2, 5/2], B = [0,1,2,3] does not refine A, C = [0,2,3] is a sub-list of B's breaks. -/
example : SMono ([0, 1, 2, 3] : List ℝ) ∧ Mono ([0, 2, 3] : List ℝ) ∧
    (∀ s ∈ ([⟨1/2, 5/2, 8⟩] : List (Bin ℝ)), s.l < s.r) ∧ ∀ x ∈ ([0, 2, 3] : List ℝ), x ∈ ([0, 1, 2, 3] : List ℝ) := by
  refine ⟨by unfold SMono SMono SMono SMono; norm_num, by unfold Mono Mono Mono; norm_num, ?_, ?_⟩
  · intro s hs; simp at hs; subst hs; norm_num
  · intro x hx; simp at hx ⊢; rcases hx with rfl | rfl | rfl <;> simp

/-- `rebin_histogram(src, n)` with an integer class count `n ≥ 1`: the binning `linspace(min left, max right, n + 1)` is
gap-free and covers every source class, so the total is conserved (zero-width source classes included). -/
theorem rebinN_conserves_total (src : List (Bin ℝ)) (n : Nat) (hn : 0 < n) (hne : src ≠ [])
    (hval : ∀ s ∈ src, s.l ≤ s.r) :
    total (rebinN src n) = binTotal src := by
  obtain ⟨b0, rest, hb, hrest, hm, hcov⟩ := rebinN_breaks_spec src n hn hval hne
  unfold rebinN
  rw [hb]
  exact rebin_conserves_total src b0 rest hrest hm hval hcov

example : (0 : Nat) < 2 ∧ ([⟨0, 1, 1⟩, ⟨1, 1, 2⟩] : List (Bin ℝ)) ≠ [] ∧
    ∀ s ∈ ([⟨0, 1, 1⟩, ⟨1, 1, 2⟩] : List (Bin ℝ)), s.l ≤ s.r := by
  refine ⟨by decide, by simp, ?_⟩
  intro s hs; simp at hs; rcases hs with rfl | rfl <;> norm_num

/-! ## 4b. Re-binning a two-level histogram (MultiIndex of two interval levels) -/

/-- Each target cell `p × q` receives from each source cell its content times the product of the per-level shares
(`kapC`: the linear share of a level of positive width, all-or-nothing by numpy's bin rule for a level of zero width). -/
theorem rebin2d_cell_is_product (p q : ℝ × ℝ × Bool) (c : Cell ℝ) :
    share2 p q c = c.v * (kapC p c.xl c.xr * kapC q c.yl c.yr) :=
  share2_eq p q c

example : share2 (0, 1, true) (0, 4, false) (⟨0, 2, 3, 3, 8⟩ : Cell ℝ) = 4 := by
  rw [rebin2d_cell_is_product]
  simp [kapC, kap, inBin]
  norm_num

/-- Two-level re-bin to gap-free binnings (n ≥ 1 classes each) that cover every source cell on both levels conserves
the total - cells of zero width on either level included.  Guard `xl ≤ xr`, `yl ≤ yr`: pandas rejects inverted intervals. -/
theorem rebin2d_conserves_total (cells : List (Cell ℝ)) (x0 y0 : ℝ) (xr yr : List ℝ) (hxne : xr ≠ []) (hyne : yr ≠ [])
    (hmx : Mono (x0 :: xr)) (hmy : Mono (y0 :: yr))
    (hval : ∀ c ∈ cells, c.xl ≤ c.xr ∧ c.yl ≤ c.yr)
    (hcovx : ∀ c ∈ cells, x0 ≤ c.xl ∧ c.xr ≤ (x0 :: xr).getLast (List.cons_ne_nil _ _))
    (hcovy : ∀ c ∈ cells, y0 ≤ c.yl ∧ c.yr ≤ (y0 :: yr).getLast (List.cons_ne_nil _ _)) :
    total ((rebin2 cells (x0 :: xr) (y0 :: yr)).map total) = (cells.map (·.v)).sum := by
  rw [total_rebin2]
  congr 1
  apply List.map_congr_left
  intro c hc
  rw [kapC_sum c.xl c.xr x0 xr hxne hmx (hval c hc).1 (hcovx c hc).1 (hcovx c hc).2,
    kapC_sum c.yl c.yr y0 yr hyne hmy (hval c hc).2 (hcovy c hc).1 (hcovy c hc).2]
  ring

example : ([0.25, 1] : List ℝ) ≠ [] ∧ ([4, 10, 12] : List ℝ) ≠ [] ∧
    Mono ([0, 0.25, 1] : List ℝ) ∧ Mono ([0, 4, 10, 12] : List ℝ) ∧
    ∀ c ∈ ([⟨0, 0.5, 0, 5, 1⟩, ⟨0.5, 1, 5, 5, 4⟩] : List (Cell ℝ)), c.xl ≤ c.xr ∧ c.yl ≤ c.yr := by
  refine ⟨by simp, by simp, by unfold Mono Mono Mono; norm_num, by unfold Mono Mono Mono Mono; norm_num, ?_⟩
  intro c hc; simp at hc; rcases hc with rfl | rfl <;> norm_num

/-- The target binning of a level is found by the level's name: listing the target's levels in the
histogram's order or in the other order gives the same re-bin. -/
theorem rebin2d_by_level_name (n1 n2 : String) (h : n1 ≠ n2) (bx bys : List ℝ) (cells : List (Cell ℝ)) :
    rebin2Named (n1, n2) [(n1, bx), (n2, bys)] cells = rebin2 cells bx bys ∧
    rebin2Named (n1, n2) [(n2, bys), (n1, bx)] cells = rebin2 cells bx bys := by
  have h' : n2 ≠ n1 := fun e => h e.symm
  have e1 : (n1 == n2) = false := beq_false_of_ne h
  have e2 : (n2 == n1) = false := beq_false_of_ne h'
  constructor <;> simp [rebin2Named, pickBreaks, List.find?, e1, e2]

example : ("from" : String) ≠ "to" := by decide

/-! ## 5. Combining -/

/-- `combine_histogram(…, 'sum')` conserves the grand total. -/
theorem combine_sum_conserves (hists : List (List (Bin ℝ))) :
    binTotal (combine hists) = (hists.map binTotal).sum := by
  unfold combine
  rw [binTotal_foldl]
  have : ∀ l : List (List (Bin ℝ)), binTotal l.flatten = (l.map binTotal).sum := by
    intro l
    induction l with
    | nil => simp [binTotal, total_eq_sum]
    | cons a as ih => rw [List.flatten_cons, binTotal_append, ih, List.map_cons, List.sum_cons]
  rw [this]
  simp [binTotal, total_eq_sum]

example : binTotal (combine ([[⟨0, 1, 5⟩, ⟨1, 2, 10⟩], [⟨1, 2, 12⟩, ⟨2, 3, 3⟩]] : List (List (Bin ℝ)))) = 30 := by
  rw [combine_sum_conserves]; simp [binTotal, total]; norm_num

/-! ## 6. Unoccupied classes (NaN contents, `nan_default=True`) -/

/-- `nan_default=True` marks exactly the target classes that no occupied source class occupies (a class of positive
width occupies the target classes it overlaps, a class of zero width the one that holds its point). -/
theorem rebin_nan_default_marks_unoccupied (src : List (OBin ℝ)) (c : ℝ × ℝ × Bool) :
    aggregateOpt true src c = none ↔ (present src).filter (occupies c) = [] := by
  unfold aggregateOpt
  constructor
  · intro h
    by_cases he : ((present src).filter (occupies c)).isEmpty = true
    · exact List.isEmpty_iff.mp he
    · simp [he] at h
  · intro h
    simp [h]

example : aggregateOpt true ([⟨0, 1, some 10⟩, ⟨1, 2, none⟩, ⟨3, 3, some 5⟩] : List (OBin ℝ)) (1, 2, false) = none ∧
    aggregateOpt true ([⟨0, 1, some 10⟩, ⟨1, 2, none⟩, ⟨3, 3, some 5⟩] : List (OBin ℝ)) (2, 3, true) ≠ none := by
  constructor
  · rw [rebin_nan_default_marks_unoccupied]
    simp [present, occupies, overlapsB, inBin, List.filter_cons]
    norm_num
  · rw [Ne, rebin_nan_default_marks_unoccupied]
    simp [present, occupies, overlapsB, inBin, List.filter_cons]
    norm_num

/-- Re-binning with `nan_default` (True or False) conserves the total, NaN counted as nothing: for a gap-free
target (n ≥ 1 classes) that covers every occupied source class (occupied classes of zero width included). -/
theorem rebin_nan_default_conserves_total (nd : Bool) (src : List (OBin ℝ)) (b0 : ℝ) (rest : List ℝ) (hne : rest ≠ [])
    (hm : Mono (b0 :: rest)) (hval : ∀ s ∈ present src, s.l ≤ s.r)
    (hcov : ∀ s ∈ present src, b0 ≤ s.l ∧ s.r ≤ (b0 :: rest).getLast (List.cons_ne_nil _ _)) :
    ototal (rebinOpt nd src (b0 :: rest)) = binTotal (present src) := by
  unfold ototal
  simp only [lit_zero]
  rw [rebinOpt_getD]
  exact rebin_conserves_total (present src) b0 rest hne hm hval hcov

example : present ([⟨0, 1, some 10⟩, ⟨1, 2, none⟩, ⟨2, 4, some 5⟩, ⟨4, 4, some 1⟩] : List (OBin ℝ)) =
    [⟨0, 1, 10⟩, ⟨2, 4, 5⟩, ⟨4, 4, 1⟩] := by
  simp [present]

/-- Combining by sum with unoccupied classes: the grand total is the sum of the totals of the parts, NaN counted as
nothing (pandas' groupby-sum skips NaN). -/
theorem combine_sum_conserves_optional (hists : List (List (OBin ℝ))) :
    binTotal (combineOpt hists) = (hists.map fun h => binTotal (present h)).sum := by
  unfold combineOpt
  rw [combine_sum_conserves, List.map_map]
  congr 1
  apply List.map_congr_left
  intro h _
  exact binTotal_getD h

example : binTotal (combineOpt ([[⟨0, 1, some 5⟩, ⟨1, 2, none⟩], [⟨1, 2, some 12⟩, ⟨2, 3, none⟩]] : List (List (OBin ℝ)))) = 17 := by
  rw [combine_sum_conserves_optional]; simp [present, binTotal, total]; norm_num

/-- The pipeline of the docstring - every histogram re-binned (`nan_default` either way) to one common gap-free
binning that covers it, then combined by sum - conserves the grand total of the occupied classes. -/
theorem rebin_then_combine_conserves (nd : Bool) (hists : List (List (OBin ℝ))) (b0 : ℝ) (rest : List ℝ) (hne : rest ≠ [])
    (hm : Mono (b0 :: rest)) (hval : ∀ h ∈ hists, ∀ s ∈ present h, s.l ≤ s.r)
    (hcov : ∀ h ∈ hists, ∀ s ∈ present h, b0 ≤ s.l ∧ s.r ≤ (b0 :: rest).getLast (List.cons_ne_nil _ _)) :
    binTotal (rebinCombine nd hists (b0 :: rest)) = (hists.map fun h => binTotal (present h)).sum := by
  unfold rebinCombine
  rw [combine_sum_conserves_optional, List.map_map]
  congr 1
  apply List.map_congr_left
  intro h hh
  simp only [Function.comp]
  rw [binTotal_present, ← rebin_nan_default_conserves_total nd h b0 rest hne hm (hval h hh) (hcov h hh)]
  unfold ototal rebinOptBins rebinOpt
  simp [total_eq_sum, Function.comp_def]

example : ([2, 4] : List ℝ) ≠ [] ∧ Mono ([0, 2, 4] : List ℝ) ∧
    ∀ h ∈ ([[⟨0, 1, some 5⟩, ⟨1, 1, some 2⟩], [⟨1, 2, none⟩, ⟨2, 4, some 3⟩]] : List (List (OBin ℝ))),
      ∀ s ∈ present h, s.l ≤ s.r ∧ (0:ℝ) ≤ s.l ∧ s.r ≤ ([0, 2, 4] : List ℝ).getLast (List.cons_ne_nil _ _) := by
  refine ⟨by simp, by unfold Mono Mono Mono; norm_num, ?_⟩
  intro h hh
  simp at hh
  rcases hh with rfl | rfl <;> (intro s hs; simp [present] at hs)
  · rcases hs with rfl | rfl <;> norm_num
  · subst hs; norm_num

/-! ## 7. From collectives to one combined histogram -/

/-- The documented pipeline collective → `range_histogram(edges)` → re-bin to one common binning → combine by sum:
the grand total is the sum of the range-histogram totals, i.e. (by `histogram_partition`) the number of cycles inside
the covered range of each collective's own edges.  The edges of a collective may repeat (numpy accepts weakly
increasing edges; the zero-width classes this produces are kept by the re-bin); the common binning is gap-free with
n ≥ 1 classes and covers every collective's edges. -/
theorem hist_rebin_combine_conserves (parts : List (List ℝ × List (Row ℝ))) (b0 : ℝ) (rest : List ℝ) (hne : rest ≠ [])
    (hm : Mono (b0 :: rest))
    (hparts : ∀ p ∈ parts, ∃ e0 er, p.1 = e0 :: er ∧ er ≠ [] ∧ Mono (e0 :: er) ∧ b0 ≤ e0 ∧
        (e0 :: er).getLast (List.cons_ne_nil _ _) ≤ (b0 :: rest).getLast (List.cons_ne_nil _ _)) :
    binTotal (histRebinCombine parts (b0 :: rest)) = (parts.map fun p => total (rangeHistogram p.1 p.2)).sum := by
  unfold histRebinCombine
  rw [combine_sum_conserves, List.map_map]
  congr 1
  apply List.map_congr_left
  intro p hp
  obtain ⟨e0, er, he, _, hme, hlo, hhi⟩ := hparts p hp
  simp only [Function.comp]
  rw [binTotal_rebinBins, he, rebin_conserves_total _ b0 rest hne hm]
  · exact binTotal_binsOf _ _ (hist_length _ _)
  · intro s hs
    exact (binsOf_bounds e0 er _ hme s hs).2.1
  · intro s hs
    obtain ⟨h1, _, h3⟩ := binsOf_bounds e0 er _ hme s hs
    exact ⟨le_trans hlo h1, le_trans h3 hhi⟩

example : ([2, 4] : List ℝ) ≠ [] ∧ Mono ([0, 2, 4] : List ℝ) ∧
    ∀ p ∈ ([([0, 1, 1], [⟨0, 1, 1⟩, ⟨0, 0.5, 2⟩]), ([1, 2, 4], [⟨-1, 1, 3⟩])] : List (List ℝ × List (Row ℝ))),
      ∃ e0 er, p.1 = e0 :: er ∧ er ≠ [] ∧ Mono (e0 :: er) ∧ (0:ℝ) ≤ e0 ∧
        (e0 :: er).getLast (List.cons_ne_nil _ _) ≤ ([0, 2, 4] : List ℝ).getLast (List.cons_ne_nil _ _) := by
  refine ⟨by simp, by unfold Mono Mono Mono; norm_num, ?_⟩
  intro p hp
  simp at hp
  rcases hp with rfl | rfl
  · exact ⟨0, [1, 1], rfl, by simp, by unfold Mono Mono Mono; norm_num, by norm_num, by norm_num⟩
  · exact ⟨1, [2, 4], rfl, by simp, by unfold Mono Mono Mono; norm_num, by norm_num, by norm_num⟩

end PylifeVerif.C14
