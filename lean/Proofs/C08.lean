/-
C08 — Woehler curve algebra.  Property theorems about `Model/Woehler.lean` at `α := ℝ`.

Quantifier of the property: every `k_1 > 1`, `k_2 ≥ k_1` or `inf`, `SD, ND > 0`, `TN, TS ≥ 1`
(`Valid w`), every native and target failure probability in `(0,1)`, every positive load / cycle
number.  `ppf` (= `scipy.stats.norm.ppf`) is an arbitrary function unless a theorem says
`IsQuantile ppf` (strictly increasing on `(0,1)`, `ppf (1-p) = -ppf p`).

Loads and cycle numbers are positive in every theorem: for `load ≤ 0` the code does not raise,
it returns `inf` (`0^(-k)`) or `NaN`; `Real.rpow` is totalised differently there, so nothing is
claimed.  `cycles … = Life.finite N` means: the code's `k` is finite, the life is `N`.
-/
import Proofs.Lemmas.Woehler
import Mathlib.Topology.Order.Basic
import Mathlib.Analysis.SpecialFunctions.Pow.Continuity

namespace PylifeVerif.C08
open PylifeVerif PylifeVerif.Woehler

variable {ppf : ℝ → ℝ} {w : Curve ℝ}

/-! ## inverses, knee, monotonicity, slopes -/

/-- `load(cycles(L)) = L` wherever the life is finite (any failure probability, both branches). -/
theorem load_cycles_inverse (h : Valid w) (p : ℝ) {L N : ℝ} (hL : 0 < L)
    (hc : cycles ppf w p L = Life.finite N) : load ppf w p N = L :=
  loadAt_cyclesAt (h.transform ppf p) hL hc

example : load (fun _ => 0) ⟨5, Life.finite 9, 100, 1000, 4, 2, 0.5⟩ 0.5
    (1000 * ((50 : ℝ) / 100) ^ (-(9 : ℝ))) = 50 := by
  have hv : Valid (⟨5, Life.finite 9, 100, 1000, 4, 2, 0.5⟩ : Curve ℝ) :=
    ⟨by norm_num, by intro k hk; cases hk; norm_num, by norm_num, by norm_num, by norm_num, by norm_num⟩
  refine load_cycles_inverse hv 0.5 (by norm_num) ?_
  have hid : transform (fun _ => (0:ℝ)) (⟨5, Life.finite 9, 100, 1000, 4, 2, 0.5⟩ : Curve ℝ) 0.5
      = ⟨5, Life.finite 9, 100, 1000, 4, 2, 0.5⟩ := by
    apply Curve.ext' <;> simp [transform_SD, transform_ND, shift]
  unfold cycles
  rw [hid, cyclesAt_below (by norm_num) rfl]

/-- `cycles(load(N)) = N` for every `N` on the finite-life part of the curve: `N ≤ ND_p`, or any
`N` when `k_2` is finite. -/
theorem cycles_load_inverse (h : Valid w) (p : ℝ) {N : ℝ} (hN : 0 < N)
    (hfin : N ≤ (transform ppf w p).ND ∨ ∃ k, w.k2 = Life.finite k) :
    cycles ppf w p (load ppf w p N) = Life.finite N :=
  cyclesAt_loadAt (h.transform ppf p) hN hfin

example (h : Valid w) (p : ℝ) :
    cycles ppf w p (load ppf w p (transform ppf w p).ND) = Life.finite (transform ppf w p).ND :=
  cycles_load_inverse h p (h.transform ppf p).ND (Or.inl le_rfl)

/-- The remaining case, stated so that nothing is hidden: with `k_2 = inf` every cycle number beyond
`ND_p` is mapped to the endurance limit `SD_p`, whose life is `ND_p` (not `N`). -/
theorem cycles_load_endurance (h : Valid w) (p : ℝ) (hk : w.k2 = Life.inf) {N : ℝ}
    (hN : (transform ppf w p).ND < N) :
    load ppf w p N = (transform ppf w p).SD ∧
      cycles ppf w p (load ppf w p N) = Life.finite (transform ppf w p).ND := by
  have hl : load ppf w p N = (transform ppf w p).SD := loadAt_below_inf hN (by simpa using hk)
  exact ⟨hl, by rw [hl]; exact cyclesAt_knee (h.transform ppf p)⟩

example (h : Valid w) (hk : w.k2 = Life.inf) (p : ℝ) :
    load ppf w p ((transform ppf w p).ND + 1) = (transform ppf w p).SD :=
  (cycles_load_endurance h p hk (by linarith)).1

/-- Branch consistency across the knee: `L ≥ SD_p ⇔ N ≤ ND_p`. -/
theorem knee_branch_consistency (h : Valid w) (p : ℝ) {L N : ℝ} (hL : 0 < L)
    (hc : cycles ppf w p L = Life.finite N) :
    (transform ppf w p).SD ≤ L ↔ N ≤ (transform ppf w p).ND :=
  knee_iff (h.transform ppf p) hL hc

example (h : Valid w) (p : ℝ) :
    (transform ppf w p).SD ≤ (transform ppf w p).SD ↔ (transform ppf w p).ND ≤ (transform ppf w p).ND :=
  knee_branch_consistency h p (h.transform ppf p).SD (cyclesAt_knee (h.transform ppf p))

/-- Allowable cycles are non-increasing in the load (`inf` is the largest life). -/
theorem cycles_antitone (h : Valid w) (p : ℝ) {L₁ L₂ : ℝ} (h1 : 0 < L₁) (h12 : L₁ ≤ L₂) :
    Life.le (cycles ppf w p L₂) (cycles ppf w p L₁) :=
  cyclesAt_antitone (h.transform ppf p) h1 h12

example (h : Valid w) (p : ℝ) :
    Life.le (cycles ppf w p ((transform ppf w p).SD + 1)) (cycles ppf w p (transform ppf w p).SD) :=
  cycles_antitone h p (h.transform ppf p).SD (by linarith)

/-- Continuity at the knee, value form: at `SD_p` the code takes the `k_1` branch and returns
`ND_p`; the `k_2` branch formula gives the same value there, for every finite `k`; and
`load(ND_p) = SD_p`. -/
theorem continuous_at_knee (h : Valid w) (p : ℝ) :
    cycles ppf w p (transform ppf w p).SD = Life.finite (transform ppf w p).ND ∧
      (∀ k : ℝ, (transform ppf w p).ND * ((transform ppf w p).SD / (transform ppf w p).SD) ^ (-k)
        = (transform ppf w p).ND) ∧
      load ppf w p (transform ppf w p).ND = (transform ppf w p).SD := by
  have v := h.transform ppf p
  refine ⟨cyclesAt_knee v, ?_, loadAt_knee v⟩
  intro k
  rw [div_self v.SD.ne', Real.one_rpow, mul_one]

example (h : Valid w) : cycles ppf w 0.5 (transform ppf w 0.5).SD = Life.finite (transform ppf w 0.5).ND :=
  (continuous_at_knee h 0.5).1

/-- Continuity at the knee, topological form (finite `k_2`): the life is a real function of the
load near `SD_p` and that function is continuous at `SD_p` with value `ND_p`. -/
theorem cycles_tendsto_knee (h : Valid w) (p : ℝ) {k : ℝ} (hk : w.k2 = Life.finite k) :
    ∃ f : ℝ → ℝ, (∀ L, cycles ppf w p L = Life.finite (f L)) ∧
      ContinuousAt f (transform ppf w p).SD ∧ f (transform ppf w p).SD = (transform ppf w p).ND := by
  have v := h.transform ppf p
  set SD := (transform ppf w p).SD with hSD
  set ND := (transform ppf w p).ND with hND
  have hk1 : w.k1 ≤ k := h.k2 k hk
  let g : ℝ → ℝ → ℝ := fun κ L => ND * (L / SD) ^ (-κ)
  have hg : ∀ κ, ContinuousAt (g κ) SD := by
    intro κ
    have h1 : ContinuousAt (fun L : ℝ => L / SD) SD := continuousAt_id.div_const SD
    have h2 : ContinuousAt (fun L : ℝ => (L / SD) ^ (-κ)) SD :=
      h1.rpow_const (Or.inl (by rw [div_self v.SD.ne']; exact one_ne_zero))
    exact continuousAt_const.mul h2
  have hgSD : ∀ κ, g κ SD = ND := by
    intro κ; simp only [g]; rw [div_self v.SD.ne', Real.one_rpow, mul_one]
  refine ⟨fun L => if L < SD then g k L else g w.k1 L, ?_, ?_, ?_⟩
  · intro L
    by_cases hlt : L < SD
    · simp only [if_pos hlt]
      exact cyclesAt_below hlt (by simpa using hk)
    · simp only [if_neg hlt]
      exact cyclesAt_above (not_lt.mp hlt)
  · -- near SD (where L > 0) the piecewise function is the maximum of the two branch formulas
    have hmax : ContinuousAt (fun L => max (g w.k1 L) (g k L)) SD := (hg w.k1).max (hg k)
    refine hmax.congr ?_
    filter_upwards [eventually_gt_nhds v.SD] with L hL
    have hx : 0 < L / SD := div_pos hL v.SD
    by_cases hlt : L < SD
    · simp only [if_pos hlt]
      have hx1 : L / SD ≤ 1 := ((div_lt_one v.SD).mpr hlt).le
      have := Real.rpow_le_rpow_of_exponent_ge hx hx1 (neg_le_neg hk1)
      exact max_eq_right (mul_le_mul_of_nonneg_left this v.ND.le)
    · simp only [if_neg hlt]
      have hx1 : 1 ≤ L / SD := (one_le_div v.SD).mpr (not_lt.mp hlt)
      have := Real.rpow_le_rpow_of_exponent_le hx1 (neg_le_neg hk1)
      exact max_eq_left (mul_le_mul_of_nonneg_left this v.ND.le)
  · simp only [lt_irrefl, if_false]
    exact hgSD _

example (h : Valid w) (hk : w.k2 = Life.finite (2 * w.k1 - 1)) :
    ∃ f : ℝ → ℝ, (∀ L, cycles ppf w 0.5 L = Life.finite (f L)) ∧
      ContinuousAt f (transform ppf w 0.5).SD ∧ f (transform ppf w 0.5).SD = (transform ppf w 0.5).ND :=
  cycles_tendsto_knee h 0.5 hk

/-- Above the endurance limit `log N` is affine in `log L` with slope `-k_1`. -/
theorem slope_k1_above (h : Valid w) (p : ℝ) {L : ℝ} (hL : (transform ppf w p).SD ≤ L) :
    ∃ N, cycles ppf w p L = Life.finite N ∧ 0 < N ∧
      Real.log N = Real.log (transform ppf w p).ND
        - w.k1 * (Real.log L - Real.log (transform ppf w p).SD) := by
  have v := h.transform ppf p
  have hL0 : 0 < L := lt_of_lt_of_le v.SD hL
  exact ⟨_, cyclesAt_above hL, basquin_pos _ v.ND v.SD hL0, log_basquin _ v.ND v.SD hL0⟩

example (h : Valid w) (p : ℝ) : ∃ N, cycles ppf w p (2 * (transform ppf w p).SD) = Life.finite N ∧ 0 < N ∧
    Real.log N = Real.log (transform ppf w p).ND
      - w.k1 * (Real.log (2 * (transform ppf w p).SD) - Real.log (transform ppf w p).SD) :=
  slope_k1_above h p (by linarith [(h.transform ppf p).SD])

/-- Below the endurance limit (finite `k_2`) the slope is `-k_2`. -/
theorem slope_k2_below (h : Valid w) (p : ℝ) {k L : ℝ} (hk : w.k2 = Life.finite k) (hL0 : 0 < L)
    (hL : L < (transform ppf w p).SD) :
    ∃ N, cycles ppf w p L = Life.finite N ∧ 0 < N ∧
      Real.log N = Real.log (transform ppf w p).ND
        - k * (Real.log L - Real.log (transform ppf w p).SD) := by
  have v := h.transform ppf p
  exact ⟨_, cyclesAt_below hL (by simpa using hk), basquin_pos _ v.ND v.SD hL0,
    log_basquin _ v.ND v.SD hL0⟩

example (h : Valid w) (p : ℝ) {k : ℝ} (hk : w.k2 = Life.finite k) :
    ∃ N, cycles ppf w p ((transform ppf w p).SD / 2) = Life.finite N ∧ 0 < N ∧
      Real.log N = Real.log (transform ppf w p).ND
        - k * (Real.log ((transform ppf w p).SD / 2) - Real.log (transform ppf w p).SD) :=
  slope_k2_below h p hk (by linarith [(h.transform ppf p).SD]) (by linarith [(h.transform ppf p).SD])

/-- `k_2 = inf`: infinite life below the endurance limit (no positivity needed). -/
theorem k2_inf_endurance (p : ℝ) (hk : w.k2 = Life.inf) {L : ℝ} (hL : L < (transform ppf w p).SD) :
    cycles ppf w p L = Life.inf :=
  cyclesAt_below_inf hL (by simpa using hk)

example (h : Valid w) (hk : w.k2 = Life.inf) (p : ℝ) :
    cycles ppf w p ((transform ppf w p).SD / 2) = Life.inf :=
  k2_inf_endurance p hk (by linarith [(h.transform ppf p).SD])

/-! ## Miner variants -/

/-- The Miner modifiers change `k_2` only (original: `inf`, elementary: `k_1`, Haibach: `2 k_1 − 1`)
and stay inside the property's quantifier.  (That the *Python object* is not altered is pandas
glue: checked on the real code by the oracle.) -/
theorem miner_variants (w : Curve ℝ) :
    (minerOriginal w = { w with k2 := Life.inf }) ∧
    (minerElementary w = { w with k2 := Life.finite w.k1 }) ∧
    (minerHaibach w = { w with k2 := Life.finite (2 * w.k1 - 1) }) ∧
    (∀ m ∈ [minerOriginal w, minerElementary w, minerHaibach w],
      m.k1 = w.k1 ∧ m.SD = w.SD ∧ m.ND = w.ND ∧ m.TN = w.TN ∧ m.TS = w.TS ∧ m.pf = w.pf ∧
      (Valid w → Valid m)) := by
  refine ⟨rfl, rfl, ?_, ?_⟩
  · simp [minerHaibach]
  · intro m hm
    simp only [List.mem_cons, List.mem_nil_iff, or_false] at hm
    rcases hm with rfl | rfl | rfl
    · exact ⟨rfl, rfl, rfl, rfl, rfl, rfl, fun h => ⟨h.k1, (by intro k hk; cases hk), h.SD, h.ND, h.TN, h.TS⟩⟩
    · exact ⟨rfl, rfl, rfl, rfl, rfl, rfl, fun h =>
        ⟨h.k1, (by intro k hk; simp only [minerElementary] at hk; cases hk; exact le_rfl), h.SD, h.ND, h.TN, h.TS⟩⟩
    · refine ⟨rfl, rfl, rfl, rfl, rfl, rfl, fun h => ⟨h.k1, ?_, h.SD, h.ND, h.TN, h.TS⟩⟩
      intro k hk
      simp only [minerHaibach, Life.finite.injEq] at hk
      have := h.k1
      show w.k1 ≤ k
      rw [← hk]; norm_num; linarith

example : (minerHaibach (⟨5, Life.inf, 100, 1000, 4, 2, 0.5⟩ : Curve ℝ)).k2 = Life.finite 9 := by
  rw [(miner_variants _).2.2.1]; norm_num

/-- … and therefore leave the curve above the (transformed) knee unchanged, for every failure
probability. -/
theorem miner_variants_above_knee (p : ℝ) {L : ℝ} (hL : (transform ppf w p).SD ≤ L) :
    cycles ppf (minerOriginal w) p L = cycles ppf w p L ∧
    cycles ppf (minerElementary w) p L = cycles ppf w p L ∧
    cycles ppf (minerHaibach w) p L = cycles ppf w p L := by
  refine ⟨?_, ?_, ?_⟩ <;>
  · unfold cycles
    rw [cyclesAt_above (w := transform ppf w p) hL, cyclesAt_above (by exact hL)]
    rfl

example (h : Valid w) (p : ℝ) :
    cycles ppf (minerHaibach w) p (transform ppf w p).SD = Life.finite (transform ppf w p).ND := by
  rw [(miner_variants_above_knee p le_rfl).2.2]; exact (continuous_at_knee h p).1

/-! ## failure probability -/

/-- Allowable cycles grow with the failure probability. -/
theorem cycles_monotone_in_pf (hq : IsQuantile ppf) (h : Valid w) {p₁ p₂ L : ℝ}
    (hp1 : p₁ ∈ Set.Ioo (0 : ℝ) 1) (hp2 : p₂ ∈ Set.Ioo (0 : ℝ) 1) (h12 : p₁ ≤ p₂) (hL : 0 < L) :
    Life.le (cycles ppf w p₁ L) (cycles ppf w p₂ L) :=
  cycles_mono_pf_core ppf h (shift_mono hq w hp1 hp2 h12) hL

/-- a quantile function in the sense of `IsQuantile` with `2·ppf(0.9)·c = 1` exists (non-vacuity of
the hypotheses used below) -/
theorem isQuantile_example :
    IsQuantile (fun p : ℝ => (p - 1 / 2) * (1 / (2 * (4 / 10) * (cRange : ℝ)))) ∧
      2 * ((fun p : ℝ => (p - 1 / 2) * (1 / (2 * (4 / 10) * (cRange : ℝ)))) 0.9) * (cRange : ℝ) = 1 := by
  have hc : (0 : ℝ) < 1 / (2 * (4 / 10) * (cRange : ℝ)) := by
    have := cRange_pos; positivity
  refine ⟨⟨?_, ?_⟩, ?_⟩
  · intro a _ b _ hab
    show (a - 1 / 2) * _ < (b - 1 / 2) * _
    exact mul_lt_mul_of_pos_right (by linarith) hc
  · intro p _
    show (1 - p - 1 / 2) * _ = -((p - 1 / 2) * _)
    ring
  · have := cRange_pos.ne'
    show 2 * ((0.9 - 1 / 2) * (1 / (2 * (4 / 10) * (cRange : ℝ)))) * (cRange : ℝ) = 1
    field_simp
    norm_num

example (h : Valid w) : Life.le
    (cycles (fun p : ℝ => (p - 1 / 2) * (1 / (2 * (4 / 10) * (cRange : ℝ)))) w 0.1 w.SD)
    (cycles (fun p : ℝ => (p - 1 / 2) * (1 / (2 * (4 / 10) * (cRange : ℝ)))) w 0.9 w.SD) :=
  cycles_monotone_in_pf isQuantile_example.1 h (by norm_num) (by norm_num) (by norm_num) h.SD

theorem shift_90_10 (hq : IsQuantile ppf) (w : Curve ℝ) :
    shift ppf w 0.9 - shift ppf w 0.1 = 2 * ppf 0.9 * cRange := by
  have h := hq.odd 0.9 (by norm_num)
  have e : (1 : ℝ) - 0.9 = 0.1 := by norm_num
  rw [e] at h
  unfold shift
  rw [h]; ring

/-- `SD_90 / SD_10 = TS^(2·z₀.₉·c)` with the code's constant `c`; it is `TS` when `2·z₀.₉·c = 1`
(for scipy's ppf and the literal `c`, `|2·z₀.₉·c − 1| < 1e-15` is checked numerically on every run). -/
theorem SD90_over_SD10 (hq : IsQuantile ppf) (h : Valid w) :
    (transform ppf w 0.9).SD / (transform ppf w 0.1).SD = w.TS ^ (2 * ppf 0.9 * cRange) ∧
      (2 * ppf 0.9 * (cRange : ℝ) = 1 →
        (transform ppf w 0.9).SD / (transform ppf w 0.1).SD = w.TS) := by
  have e : (transform ppf w 0.9).SD / (transform ppf w 0.1).SD = w.TS ^ (2 * ppf 0.9 * cRange) := by
    apply exp_log_ratio (h.transform ppf _).SD (h.transform ppf _).SD h.TS_pos
    rw [log_transform_SD ppf h, log_transform_SD ppf h, ← shift_90_10 hq w]
    ring
  exact ⟨e, fun hc => by rw [e, hc, Real.rpow_one]⟩

example (h : Valid w) :
    (transform (fun p : ℝ => (p - 1 / 2) * (1 / (2 * (4 / 10) * (cRange : ℝ)))) w 0.9).SD /
      (transform (fun p : ℝ => (p - 1 / 2) * (1 / (2 * (4 / 10) * (cRange : ℝ)))) w 0.1).SD = w.TS :=
  (SD90_over_SD10 isQuantile_example.1 h).2 isQuantile_example.2

/-- `N_90 / N_10 = TN^(2·z₀.₉·c)` (`= TN` when `2·z₀.₉·c = 1`) at every load on the finite-life
line of both curves, i.e. `L ≥ SD_90` (`SD_10 ≤ SD_90`).  This is the reading of "N_90/N_10
equals TN" that is proved; for loads below `SD_10` see `N90_over_N10_below_knee`. -/
theorem N90_over_N10 (hq : IsQuantile ppf) (h : Valid w) {L : ℝ} (hL : (transform ppf w 0.9).SD ≤ L) :
    ∃ n90 n10, cycles ppf w 0.9 L = Life.finite n90 ∧ cycles ppf w 0.1 L = Life.finite n10 ∧
      0 < n10 ∧ n90 / n10 = w.TN ^ (2 * ppf 0.9 * cRange) ∧
      (2 * ppf 0.9 * (cRange : ℝ) = 1 → n90 / n10 = w.TN) := by
  have v9 := h.transform ppf 0.9
  have v1 := h.transform ppf 0.1
  have hL0 : 0 < L := lt_of_lt_of_le v9.SD hL
  have hs : shift ppf w 0.1 ≤ shift ppf w 0.9 :=
    shift_mono hq w (by norm_num) (by norm_num) (by norm_num)
  have hL1 : (transform ppf w 0.1).SD ≤ L := le_trans (transform_SD_mono ppf h hs) hL
  have e : (transform ppf w 0.9).ND * (L / (transform ppf w 0.9).SD) ^ (-(transform ppf w 0.9).k1) /
      ((transform ppf w 0.1).ND * (L / (transform ppf w 0.1).SD) ^ (-(transform ppf w 0.1).k1))
        = w.TN ^ (2 * ppf 0.9 * cRange) := by
    apply exp_log_ratio (basquin_pos _ v9.ND v9.SD hL0) (basquin_pos _ v1.ND v1.SD hL0) h.TN_pos
    rw [log_basquin _ v9.ND v9.SD hL0, log_basquin _ v1.ND v1.SD hL0, log_transform_SD ppf h,
      log_transform_SD ppf h, log_transform_ND ppf h, log_transform_ND ppf h, ← shift_90_10 hq w]
    simp only [transform_k1]
    ring
  exact ⟨_, _, cyclesAt_above hL, cyclesAt_above hL1, basquin_pos _ v1.ND v1.SD hL0, e,
    fun hc => by rw [e, hc, Real.rpow_one]⟩

example (h : Valid w) : ∃ n90 n10,
    cycles (fun p : ℝ => (p - 1 / 2) * (1 / (2 * (4 / 10) * (cRange : ℝ)))) w 0.9
      (transform (fun p : ℝ => (p - 1 / 2) * (1 / (2 * (4 / 10) * (cRange : ℝ)))) w 0.9).SD = Life.finite n90 ∧
    cycles (fun p : ℝ => (p - 1 / 2) * (1 / (2 * (4 / 10) * (cRange : ℝ)))) w 0.1
      (transform (fun p : ℝ => (p - 1 / 2) * (1 / (2 * (4 / 10) * (cRange : ℝ)))) w 0.9).SD = Life.finite n10 ∧
    n90 / n10 = w.TN := by
  obtain ⟨a, b, h1, h2, _, _, h5⟩ := N90_over_N10 isQuantile_example.1 h le_rfl
  exact ⟨a, b, h1, h2, h5 isQuantile_example.2⟩

/-- The literal reading "N_90/N_10 = TN at every load" is not what a curve with two slopes and a
scatter band shifted in both directions can satisfy: below both knees (finite `k_2 = k`) the ratio is
`TN^e · TS^(e·(k − k_1))`, `e = 2·z₀.₉·c`, i.e. `TN` only if `k_2 = k_1` or `TS = 1`. -/
theorem N90_over_N10_below_knee (hq : IsQuantile ppf) (h : Valid w) {k L : ℝ}
    (hk : w.k2 = Life.finite k) (hL0 : 0 < L) (hL : L < (transform ppf w 0.1).SD) :
    ∃ n90 n10, cycles ppf w 0.9 L = Life.finite n90 ∧ cycles ppf w 0.1 L = Life.finite n10 ∧
      0 < n10 ∧ Real.log n90 - Real.log n10 =
        (2 * ppf 0.9 * cRange) * (Real.log w.TN + (k - w.k1) * Real.log w.TS) := by
  have v9 := h.transform ppf 0.9
  have v1 := h.transform ppf 0.1
  have hs : shift ppf w 0.1 ≤ shift ppf w 0.9 :=
    shift_mono hq w (by norm_num) (by norm_num) (by norm_num)
  have hL9 : L < (transform ppf w 0.9).SD := lt_of_lt_of_le hL (transform_SD_mono ppf h hs)
  refine ⟨_, _, cyclesAt_below hL9 (by simpa using hk), cyclesAt_below hL (by simpa using hk),
    basquin_pos _ v1.ND v1.SD hL0, ?_⟩
  rw [log_basquin _ v9.ND v9.SD hL0, log_basquin _ v1.ND v1.SD hL0, log_transform_SD ppf h,
    log_transform_SD ppf h, log_transform_ND ppf h, log_transform_ND ppf h, ← shift_90_10 hq w]
  ring

example (h : Valid w) {k : ℝ} (hk : w.k2 = Life.finite k) : ∃ n90 n10,
    cycles (fun p : ℝ => (p - 1 / 2) * (1 / (2 * (4 / 10) * (cRange : ℝ)))) w 0.9
      ((transform (fun p : ℝ => (p - 1 / 2) * (1 / (2 * (4 / 10) * (cRange : ℝ)))) w 0.1).SD / 2) = Life.finite n90 ∧
    cycles (fun p : ℝ => (p - 1 / 2) * (1 / (2 * (4 / 10) * (cRange : ℝ)))) w 0.1
      ((transform (fun p : ℝ => (p - 1 / 2) * (1 / (2 * (4 / 10) * (cRange : ℝ)))) w 0.1).SD / 2) = Life.finite n10 ∧
    Real.log n90 - Real.log n10 = 1 * (Real.log w.TN + (k - w.k1) * Real.log w.TS) := by
  have v := (h.transform (fun p : ℝ => (p - 1 / 2) * (1 / (2 * (4 / 10) * (cRange : ℝ)))) 0.1).SD
  obtain ⟨a, b, h1, h2, _, h4⟩ := N90_over_N10_below_knee isQuantile_example.1 h hk
    (half_pos v) (half_lt_self v)
  exact ⟨a, b, h1, h2, by rw [h4, isQuantile_example.2]⟩

/-- The remaining loads, BETWEEN the two knees (`SD_10 ≤ L < SD_90`): the 10 % curve is on its `k_1` line there, the
90 % curve already on its `k_2` line.  With `k_2 = inf` the 90 % life is infinite (no ratio); with a finite
`k_2 = k` the log-ratio exceeds the nominal `e·log TN`, `e = 2·z₀.₉·c`, by `(k − k_1)·(log SD_90 − log L) ≥ 0`.
Together with `N90_over_N10` (`L ≥ SD_90`) and `N90_over_N10_below_knee` (`L < SD_10`) every positive load is covered;
"N_90/N_10 equals TN" holds as stated exactly on `L ≥ SD_90` (and everywhere if `k_2 = k_1`). -/
theorem N90_over_N10_between_knees (hq : IsQuantile ppf) (h : Valid w) {L : ℝ}
    (hL1 : (transform ppf w 0.1).SD ≤ L) (hL9 : L < (transform ppf w 0.9).SD) :
    (w.k2 = Life.inf → cycles ppf w 0.9 L = Life.inf ∧ ∃ n10, cycles ppf w 0.1 L = Life.finite n10) ∧
    (∀ k, w.k2 = Life.finite k →
      ∃ n90 n10, cycles ppf w 0.9 L = Life.finite n90 ∧ cycles ppf w 0.1 L = Life.finite n10 ∧ 0 < n10 ∧
        Real.log n90 - Real.log n10 = (2 * ppf 0.9 * cRange) * Real.log w.TN
          + (k - w.k1) * (Real.log (transform ppf w 0.9).SD - Real.log L) ∧
        (2 * ppf 0.9 * cRange) * Real.log w.TN ≤ Real.log n90 - Real.log n10) := by
  have v9 := h.transform ppf 0.9
  have v1 := h.transform ppf 0.1
  have hL0 : 0 < L := lt_of_lt_of_le v1.SD hL1
  refine ⟨fun hk => ⟨cyclesAt_below_inf hL9 (by simpa using hk), _, cyclesAt_above hL1⟩, fun k hk => ?_⟩
  have e : Real.log ((transform ppf w 0.9).ND * (L / (transform ppf w 0.9).SD) ^ (-k)) -
      Real.log ((transform ppf w 0.1).ND * (L / (transform ppf w 0.1).SD) ^ (-(transform ppf w 0.1).k1))
        = (2 * ppf 0.9 * cRange) * Real.log w.TN
          + (k - w.k1) * (Real.log (transform ppf w 0.9).SD - Real.log L) := by
    rw [log_basquin _ v9.ND v9.SD hL0, log_basquin _ v1.ND v1.SD hL0, log_transform_SD ppf h,
      log_transform_SD ppf h, log_transform_ND ppf h, log_transform_ND ppf h, ← shift_90_10 hq w]
    simp only [transform_k1]
    ring
  refine ⟨_, _, cyclesAt_below hL9 (by simpa using hk), cyclesAt_above hL1, basquin_pos _ v1.ND v1.SD hL0, e, ?_⟩
  rw [e]
  have hk1 : 0 ≤ k - w.k1 := sub_nonneg.2 (h.k2 k hk)
  have hlog : 0 ≤ Real.log (transform ppf w 0.9).SD - Real.log L :=
    sub_nonneg.2 (Real.log_le_log hL0 hL9.le)
  nlinarith [mul_nonneg hk1 hlog]

example (h : Valid w) {k : ℝ} (hk : w.k2 = Life.finite k)
    (hgap : (transform (fun p : ℝ => (p - 1 / 2) * (1 / (2 * (4 / 10) * (cRange : ℝ)))) w 0.1).SD
      < (transform (fun p : ℝ => (p - 1 / 2) * (1 / (2 * (4 / 10) * (cRange : ℝ)))) w 0.9).SD) : ∃ n90 n10,
    cycles (fun p : ℝ => (p - 1 / 2) * (1 / (2 * (4 / 10) * (cRange : ℝ)))) w 0.9
      (transform (fun p : ℝ => (p - 1 / 2) * (1 / (2 * (4 / 10) * (cRange : ℝ)))) w 0.1).SD = Life.finite n90 ∧
    cycles (fun p : ℝ => (p - 1 / 2) * (1 / (2 * (4 / 10) * (cRange : ℝ)))) w 0.1
      (transform (fun p : ℝ => (p - 1 / 2) * (1 / (2 * (4 / 10) * (cRange : ℝ)))) w 0.1).SD = Life.finite n10 ∧
    1 * Real.log w.TN ≤ Real.log n90 - Real.log n10 := by
  obtain ⟨a, b, h1, h2, _, _, h5⟩ := (N90_over_N10_between_knees isQuantile_example.1 h le_rfl hgap).2 k hk
  exact ⟨a, b, h1, h2, by rw [← isQuantile_example.2]; exact h5⟩

/-- Transforming to `p₁` and then to `p₂` equals transforming to `p₂` directly (every `ppf`). -/
theorem transform_compose (h : Valid w) (p₁ p₂ : ℝ) :
    transform ppf (transform ppf w p₁) p₂ = transform ppf w p₂ := by
  have v1 := h.transform ppf p₁
  have hsh : shift ppf w p₁ + shift ppf (transform ppf w p₁) p₂ = shift ppf w p₂ := by
    unfold shift; simp only [transform_pf]; ring
  apply Curve.ext' <;> try rfl
  · apply Real.log_injOn_pos (Set.mem_Ioi.2 (v1.transform ppf p₂).SD) (Set.mem_Ioi.2 (h.transform ppf p₂).SD)
    rw [log_transform_SD ppf v1, log_transform_SD ppf h, log_transform_SD ppf h, ← hsh]
    simp only [transform_TS]; ring
  · apply Real.log_injOn_pos (Set.mem_Ioi.2 (v1.transform ppf p₂).ND) (Set.mem_Ioi.2 (h.transform ppf p₂).ND)
    rw [log_transform_ND ppf v1, log_transform_ND ppf h, log_transform_ND ppf h, ← hsh]
    simp only [transform_TS, transform_TN, transform_k1]; ring

example (h : Valid w) : transform ppf (transform ppf w 0.1) 0.9 = transform ppf w 0.9 :=
  transform_compose h 0.1 0.9

/-- Transforming to the native failure probability is the identity. -/
theorem transform_native_id (h : Valid w) : transform ppf w w.pf = w := by
  have hsh : shift ppf w w.pf = 0 := by unfold shift; ring
  apply Curve.ext' <;> try rfl
  · rw [transform_SD ppf w _ h.TS_pos, hsh, Real.rpow_zero, mul_one]
  · rw [transform_ND ppf w _ h.TS_pos h.TN_pos h.SD, hsh, Real.rpow_zero, Real.rpow_zero,
      Real.one_rpow, mul_one, mul_one]

example (h : Valid w) (L : ℝ) : cycles ppf w w.pf L = cyclesAt w L := by
  unfold cycles; rw [transform_native_id h]

/-! ## scatter range ↔ standard deviation -/

/-- With the exact constants `c = 1/(2 z₀.₉)`, `c₂ = 2 z₀.₉` the two conversions are mutual
inverses and `T = 10^(2 z₀.₉ s)`. -/
theorem std_range_inverse {z90 : ℝ} (hz : z90 ≠ 0) :
    (∀ T : ℝ, 0 < T → stdToScatteringRangeWith (2 * z90) (scatteringRangeToStdWith (1 / (2 * z90)) T) = T) ∧
    (∀ s : ℝ, scatteringRangeToStdWith (1 / (2 * z90)) (stdToScatteringRangeWith (2 * z90) s) = s) ∧
    (∀ s : ℝ, stdToScatteringRangeWith (2 * z90) s = (10 : ℝ) ^ (2 * z90 * s)) := by
  have h10 : (0 : ℝ) < 10 := by norm_num
  have hl : Real.log 10 ≠ 0 := (Real.log_pos (by norm_num : (1 : ℝ) < 10)).ne'
  refine ⟨?_, ?_, ?_⟩
  · intro T hT
    simp only [stdToScatteringRangeWith, scatteringRangeToStdWith, transc_pow, transc_log10, sci_ten]
    have : 2 * z90 * (1 / (2 * z90) * (Real.log T / Real.log 10)) = 1 * (Real.log T / Real.log 10) := by
      field_simp
    rw [this, ten_rpow_log10 hT, Real.rpow_one]
  · intro s
    simp only [stdToScatteringRangeWith, scatteringRangeToStdWith, transc_pow, transc_log10, sci_ten]
    rw [Real.log_rpow h10]
    field_simp
  · intro s
    simp [stdToScatteringRangeWith]

example : stdToScatteringRangeWith (2 * (1.2815515655446004 : ℝ))
    (scatteringRangeToStdWith (1 / (2 * 1.2815515655446004)) 4) = 4 :=
  (std_range_inverse (by norm_num)).1 4 (by norm_num)

/-- With the two literals of the code the compositions are `T ↦ T^(c·c₂)` and `s ↦ (c·c₂)·s`, and
`|c·c₂ − 1| < 1e-16` (exact decimal arithmetic). -/
theorem std_range_literals :
    (∀ T : ℝ, 0 < T → stdToScatteringRange (scatteringRangeToStd T) = T ^ ((cRange : ℝ) * cStd)) ∧
    (∀ s : ℝ, scatteringRangeToStd (stdToScatteringRange s) = ((cRange : ℝ) * cStd) * s) ∧
    |(cRange : ℝ) * cStd - 1| < 1e-16 := by
  have h10 : (0 : ℝ) < 10 := by norm_num
  have hl : Real.log 10 ≠ 0 := (Real.log_pos (by norm_num : (1 : ℝ) < 10)).ne'
  refine ⟨?_, ?_, ?_⟩
  · intro T hT
    simp only [stdToScatteringRange, scatteringRangeToStd, stdToScatteringRangeWith,
      scatteringRangeToStdWith, transc_pow, transc_log10, sci_ten]
    rw [← mul_assoc, mul_comm (cStd : ℝ) cRange, ten_rpow_log10 hT]
  · intro s
    simp only [stdToScatteringRange, scatteringRangeToStd, stdToScatteringRangeWith,
      scatteringRangeToStdWith, transc_pow, transc_log10, sci_ten]
    rw [Real.log_rpow h10]
    field_simp
  · unfold cRange cStd
    rw [abs_lt]
    constructor <;> norm_num

example : stdToScatteringRange (scatteringRangeToStd (4 : ℝ)) = 4 ^ ((cRange : ℝ) * cStd) :=
  std_range_literals.1 4 (by norm_num)

/-! ## `_validate` and broadcasting -/

/-- Missing `TN`/`TS`: no scatter when both are missing, otherwise the missing one is derived so
that `TN = TS^k_1`. -/
theorem validate_scatter_consistent {k1 : ℝ} (hk : k1 ≠ 0) :
    validateScatter k1 none none = (1, 1) ∧
    (∀ tn : ℝ, 0 < tn → (validateScatter k1 (some tn) none).1 = tn ∧
        (validateScatter k1 (some tn) none).2 ^ k1 = tn) ∧
    (∀ ts : ℝ, (validateScatter k1 none (some ts)).2 = ts ∧
        (validateScatter k1 none (some ts)).1 = ts ^ k1) ∧
    (∀ tn ts : ℝ, validateScatter k1 (some tn) (some ts) = (tn, ts)) := by
  refine ⟨by simp [validateScatter], ?_, fun ts => ⟨rfl, rfl⟩, fun _ _ => rfl⟩
  intro tn htn
  refine ⟨rfl, ?_⟩
  show (tn ^ ((1.0 : ℝ) / k1)) ^ k1 = tn
  rw [← Real.rpow_mul htn.le, sci_one, one_div_mul_cancel hk, Real.rpow_one]

example : (validateScatter (5 : ℝ) (some 4) none).2 ^ (5 : ℝ) = 4 :=
  ((validate_scatter_consistent (by norm_num)).2.1 4 (by norm_num)).2

/-- Broadcast inputs are evaluated element-wise: indexed loads against one curve (`map`), a frame
of curves against loads on another index (cross product, curve-major) and on the same index (row by
row).  The tie of these three shapes to pandas' behaviour is the correspondence check. -/
theorem broadcast_elementwise (ppf : ℝ → ℝ) (p : ℝ) :
    (∀ (w : Curve ℝ) (Ls : List ℝ) (i : Nat),
        (cyclesSeries ppf w p Ls)[i]? = (Ls[i]?).map (cycles ppf w p)) ∧
    (∀ (w : Curve ℝ) (Ns : List ℝ) (i : Nat),
        (loadSeries ppf w p Ns)[i]? = (Ns[i]?).map (load ppf w p)) ∧
    (∀ (w : Curve ℝ) (ws : List (Curve ℝ)) (Ls : List ℝ),
        cyclesCross ppf (w :: ws) p Ls = Ls.map (cycles ppf w p) ++ cyclesCross ppf ws p Ls) ∧
    (∀ (ws : List (Curve ℝ)) (Ls : List ℝ) (i : Nat) (hw : i < ws.length) (hl : i < Ls.length),
        (cyclesZip ppf ws p Ls)[i]? = some (cycles ppf ws[i] p Ls[i])) := by
  refine ⟨?_, ?_, ?_, ?_⟩
  · intro w Ls i; simp [cyclesSeries]
  · intro w Ns i; simp [loadSeries]
  · intro w ws Ls; simp [cyclesCross, cyclesSeries]
  · intro ws Ls i hw hl; simp [cyclesZip, hw, hl]

example (ppf : ℝ → ℝ) (w : Curve ℝ) : cyclesSeries ppf w 0.5 [1, 2] = [cycles ppf w 0.5 1, cycles ppf w 0.5 2] := rfl

end PylifeVerif.C08
