import Model.Rainflow.Spec
