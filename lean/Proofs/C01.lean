/- C01: chunk independence. The property theorems live in the imported files. -/
import Proofs.C01Core
import Proofs.C03Sym
import Proofs.ThreePointC01
import Proofs.RainflowCorollaries
import Proofs.C01Literal
