/-
C12 — mean stress transformation follows the iso-damage lines of the Haigh diagram.
Property theorems about the model `Model/Meanstress.lean` (carrier ℝ).  Helper lemmas:
`Proofs/Lemmas/Meanstress.lean` (generic: every segment shift conserves the damage potential),
`Proofs/Lemmas/MeanstressGoodman.lean` (FKM-Goodman: processing order, arrival, potential),
`Proofs/Lemmas/MeanstressGuard.lean` (FKM-Goodman: the guard holds for every cycle and target),
`Proofs/Lemmas/MeanstressRebin.lean` (re-binning).

Admissible R values (`ValidR`): a real number ≠ 1, or -∞ (what `load_collective.R` produces for a cycle of
positive amplitude; targets `1` and `+∞` are outside the domain of the code).
`TransformGuard D g c` is the property's restriction "the exact iso-damage amplitude stays positive",
spelled out along the run the code makes: a finite conjunction of comparisons of real numbers.
For the FKM-Goodman diagram with `0 ≤ M2`, `0 ≤ M < 1` it holds for every cycle and every admissible target
(`goodman_guard`), so the FKM-Goodman theorems below carry no guard hypothesis.
-/
import Proofs.Lemmas.MeanstressGoodman
import Proofs.Lemmas.MeanstressGuard
import Proofs.Lemmas.MeanstressRebin

namespace PylifeVerif.C12
open PylifeVerif.Meanstress ExtR

/-! ### Specification, written independently of the code: textbook FKM-Goodman -/

/-- Equivalent amplitude at R = -1 of the cycle (amplitude `a`, mean `m`): regions R > 1, -∞ ≤ R ≤ 0, 0 < R < 1. -/
noncomputable def eqAmp (M M2 a m : ℝ) : ℝ :=
  if m < -a then a * (1 - M) else if m ≤ a then a + M * m else (1 + M) * (a + M2 * m) / (1 + M2)

/-- Amplitude at the ray `g` of the iso-damage line through amplitude 1 at R = -1, inverted. -/
noncomputable def backFactor (M M2 : ℝ) : ExtR ℝ → ℝ
  | fin q => if 1 < q then 1 - M else if q ≤ 0 then 1 + M * ((1 + q) / (1 - q))
             else (1 + M) / (1 + M2) * (1 + M2 * ((1 + q) / (1 - q)))
  | _ => 1 - M

/-- The closed-form FKM-Goodman transformation. -/
noncomputable def goodmanClosed (M M2 a m : ℝ) (g : ExtR ℝ) : ℝ := eqAmp M M2 a m / backFactor M M2 g

theorem hG_goal (M M2 : ℝ) (hM2 : 0 ≤ M2) (g : ExtR ℝ) (hg : ValidR g) : hG M M2 (pos g) = backFactor M M2 g := by
  rcases g with q | _ | _ | _
  · simp only [ValidR] at hg
    simp only [backFactor]
    split_ifs with h1 h0
    · exact hG_seg0 _ _ (pos_lt_m1 h1).le
    · exact hG_seg1 _ _ (m1_lt_pos (by linarith)).le (pos_le_1 h0)
    · have : q < 1 := lt_of_le_of_ne (not_lt.1 h1) hg
      exact hG_seg2 _ _ (by linarith) (one_le_pos (le_of_lt (not_le.1 h0)) this)
  · exact absurd hg (by simp [ValidR])
  · exact hG_seg0 _ _ (by simp [pos])
  · exact absurd hg (by simp [ValidR])

theorem hG_cycle (M M2 a : ℝ) (hM2 : 0 ≤ M2) (ha : 0 < a) (x : ℝ) :
    a * hG M M2 x = eqAmp M M2 a (a * x) := by
  unfold eqAmp
  have e1 : (a * x < -a) ↔ x < -1 := by constructor <;> intro h <;> nlinarith
  have e2 : (a * x ≤ a) ↔ x ≤ 1 := by constructor <;> intro h <;> nlinarith
  simp only [e1, e2]
  split_ifs with h1 h2
  · rw [hG_seg0 _ _ h1.le]
  · rw [hG_seg1 _ _ (not_lt.1 h1) h2]; ring
  · rw [hG_seg2 _ _ (by linarith) (le_of_lt (not_le.1 h2))]
    have : (1 + M2) ≠ 0 := by linarith
    field_simp

theorem hG_pos (M M2 : ℝ) (h0 : 0 ≤ M2) (h1 : 0 ≤ M) (h2 : M < 1) (x : ℝ) : 0 < hG M M2 x := by
  unfold hG
  split_ifs with a b
  · linarith
  · nlinarith
  · have hx : 1 < x := not_le.1 b
    have : 0 < 1 + M2 * x := by nlinarith
    positivity

/-! ### 1. Every run conserves the damage potential (any diagram) -/

/-- For ANY diagram `D` (any list of segments, any order) and any function `h` that restricted to each
segment is an iso-damage line `k·(1 + M·x)` (`Compat`), `HaighDiagram.transform` conserves
`amplitude · h(mean/amplitude)`: each cycle is moved along the iso-damage lines. -/
theorem transform_conserves_potential (h : ℝ → ℝ) (D : List (Seg ℝ)) (g : ExtR ℝ) (c : Cyc ℝ)
    (hc : Compat h D g) (hg : TransformGuard D g c) :
    (transform D g c).amp * h (pos (transform D g c).R) = c.amp * h (pos c.R) :=
  transform_potential h D g c hc hg

/-! ### 2. FKM-Goodman -/

/-- The transformed cycle lies on the target ray (every admissible target incl. `-∞` and `R > 1`). -/
theorem goodman_arrives_at_target (M M2 : ℝ) (g : ExtR ℝ) (c : Cyc ℝ) (hg : ValidR g) (hR : ValidR c.R) :
    (transform (goodman M M2) g c).R = g :=
  goodman_arrives M M2 c.amp g c.R hg hR

/-- The code's result equals the closed-form FKM-Goodman formula, for every cycle and every target. -/
theorem goodman_eq_closed_form (M M2 : ℝ) (h0 : 0 ≤ M2) (h1 : 0 ≤ M) (h2 : M < 1) (g : ExtR ℝ) (c : Cyc ℝ)
    (ha : 0 < c.amp) (hg : ValidR g) (hR : ValidR c.R) :
    (transform (goodman M M2) g c).amp = goodmanClosed M M2 c.amp (c.amp * pos c.R) g := by
  have hG' : TransformGuard (goodman M M2) g c := goodman_guard M M2 h0 h1 h2 g c hg hR
  have hp := transform_potential (hG M M2) (goodman M M2) g c (goodman_compat M M2 (by linarith) g hg) hG'
  unfold potential at hp
  rw [goodman_arrives_at_target M M2 g c hg hR, hG_goal M M2 h0 g hg, hG_cycle M M2 c.amp h0 ha] at hp
  have hb : backFactor M M2 g ≠ 0 := by
    rw [← hG_goal M M2 h0 g hg]; exact (hG_pos M M2 h0 h1 h2 _).ne'
  unfold goodmanClosed
  rw [eq_div_iff hb]; exact hp

/-- General form used below: amplitude after the transform, via the potential. -/
theorem goodman_amp (M M2 : ℝ) (h0 : 0 ≤ M2) (h1 : 0 ≤ M) (h2 : M < 1) (g : ExtR ℝ) (c : Cyc ℝ)
    (hg : ValidR g) (hR : ValidR c.R) :
    (transform (goodman M M2) g c).amp = c.amp * hG M M2 (pos c.R) / hG M M2 (pos g) := by
  have hG' : TransformGuard (goodman M M2) g c := goodman_guard M M2 h0 h1 h2 g c hg hR
  have hp := transform_potential (hG M M2) (goodman M M2) g c (goodman_compat M M2 (by linarith) g hg) hG'
  unfold potential at hp
  rw [goodman_arrives_at_target M M2 g c hg hR] at hp
  rw [eq_div_iff (hG_pos M M2 h0 h1 h2 _).ne']; exact hp

/-- A cycle that already is at the target R is unchanged. -/
theorem goodman_fixes_target_R (M M2 : ℝ) (h0 : 0 ≤ M2) (h1 : 0 ≤ M) (h2 : M < 1) (c : Cyc ℝ)
    (hR : ValidR c.R) :
    transform (goodman M M2) c.R c = c := by
  have ha := goodman_amp M M2 h0 h1 h2 c.R c hR hR
  have hr := goodman_arrives_at_target M M2 c.R c hR hR
  rw [mul_div_assoc, div_self (hG_pos M M2 h0 h1 h2 _).ne', mul_one] at ha
  cases hc : transform (goodman M M2) c.R c with
  | mk a R => rw [hc] at ha hr; cases c; simp_all

/-- Transforming twice to the same R changes nothing. -/
theorem goodman_idempotent (M M2 : ℝ) (h0 : 0 ≤ M2) (h1 : 0 ≤ M) (h2 : M < 1) (g : ExtR ℝ) (c : Cyc ℝ)
    (hg : ValidR g) (hR : ValidR c.R) :
    transform (goodman M M2) g (transform (goodman M M2) g c) = transform (goodman M M2) g c := by
  have hr := goodman_arrives_at_target M M2 g c hg hR
  have := goodman_fixes_target_R M M2 h0 h1 h2 (transform (goodman M M2) g c) (by rw [hr]; exact hg)
  rw [hr] at this; exact this

/-- Path independence: to `g₁` and then to `g₂` equals to `g₂` directly. -/
theorem goodman_path_independent (M M2 : ℝ) (h0 : 0 ≤ M2) (h1 : 0 ≤ M) (h2 : M < 1) (g₁ g₂ : ExtR ℝ) (c : Cyc ℝ)
    (hg1 : ValidR g₁) (hg2 : ValidR g₂) (hR : ValidR c.R) :
    transform (goodman M M2) g₂ (transform (goodman M M2) g₁ c) = transform (goodman M M2) g₂ c := by
  have r1 := goodman_arrives_at_target M M2 g₁ c hg1 hR
  have a1 := goodman_amp M M2 h0 h1 h2 g₁ c hg1 hR
  have r12 := goodman_arrives_at_target M M2 g₂ (transform (goodman M M2) g₁ c) hg2 (by rw [r1]; exact hg1)
  have a12 := goodman_amp M M2 h0 h1 h2 g₂ (transform (goodman M M2) g₁ c) hg2 (by rw [r1]; exact hg1)
  have r2 := goodman_arrives_at_target M M2 g₂ c hg2 hR
  have a2 := goodman_amp M M2 h0 h1 h2 g₂ c hg2 hR
  rw [r1, a1, div_mul_cancel₀ _ (hG_pos M M2 h0 h1 h2 _).ne'] at a12
  cases hx : transform (goodman M M2) g₂ (transform (goodman M M2) g₁ c) with
  | mk a R =>
    cases hy : transform (goodman M M2) g₂ c with
    | mk a' R' => rw [hx] at r12 a12; rw [hy] at r2 a2; simp_all

/-- On a fixed ray the result is linear in the amplitude with a positive factor (hence continuous and
strictly increasing in the amplitude). -/
theorem goodman_monotone_in_amplitude_fixed_R (M M2 : ℝ) (h0 : 0 ≤ M2) (h1 : 0 ≤ M) (h2 : M < 1) (g R : ExtR ℝ)
    (a₁ a₂ : ℝ) (hg : ValidR g) (hR : ValidR R) (h12 : a₁ ≤ a₂) :
    (transform (goodman M M2) g ⟨a₁, R⟩).amp ≤ (transform (goodman M M2) g ⟨a₂, R⟩).amp ∧
    (transform (goodman M M2) g ⟨a₂, R⟩).amp - (transform (goodman M M2) g ⟨a₁, R⟩).amp
      = (a₂ - a₁) * (hG M M2 (pos R) / hG M M2 (pos g)) := by
  rw [goodman_amp M M2 h0 h1 h2 g ⟨a₁, R⟩ hg hR, goodman_amp M M2 h0 h1 h2 g ⟨a₂, R⟩ hg hR]
  have hp : 0 < hG M M2 (pos R) / hG M M2 (pos g) := div_pos (hG_pos M M2 h0 h1 h2 _) (hG_pos M M2 h0 h1 h2 _)
  constructor
  · simp only [mul_div_assoc]; nlinarith
  · ring

/-- The guard of the FKM-Goodman theorems above is discharged once and for all (re-exported from
`Proofs/Lemmas/MeanstressGuard.lean`). -/
theorem goodman_guard_holds (M M2 : ℝ) (h0 : 0 ≤ M2) (h1 : 0 ≤ M) (h2 : M < 1) (g : ExtR ℝ) (c : Cyc ℝ)
    (hg : ValidR g) (hR : ValidR c.R) : TransformGuard (goodman M M2) g c :=
  goodman_guard M M2 h0 h1 h2 g c hg hR

/-! #### Parameter sets without `M2`: `M2 = M / 3` -/

/-- The default diagram is the FKM-Goodman diagram with `M2 = M/3` (the literal `3.0` is `3`). -/
theorem goodmanDefault_eq (M : ℝ) : goodmanDefault M = goodman M (M / 3) := by
  unfold goodmanDefault; norm_num

/-- … and `M2 = M/3` is admissible (`0 ≤ M2 ≤ M`) whenever `0 ≤ M < 1`. -/
theorem goodmanDefault_admissible (M : ℝ) (h1 : 0 ≤ M) (h2 : M < 1) : 0 ≤ M / 3 ∧ M / 3 ≤ M := by
  have _ := h2   -- (the bound `M < 1` is part of the admissibility statement, not needed for `M2 = M/3`)
  constructor <;> linarith

/-- default M2 = M/3: closed form for every cycle and target -/
theorem goodmanDefault_eq_closed_form (M : ℝ) (h1 : 0 ≤ M) (h2 : M < 1) (g : ExtR ℝ) (c : Cyc ℝ) (ha : 0 < c.amp)
    (hg : ValidR g) (hR : ValidR c.R) :
    (transform (goodmanDefault M) g c).amp = goodmanClosed M (M / 3) c.amp (c.amp * pos c.R) g := by
  rw [goodmanDefault_eq]
  exact goodman_eq_closed_form M (M / 3) (goodmanDefault_admissible M h1 h2).1 h1 h2 g c ha hg hR

/-- At a fixed mean stress `m` the closed form is continuous and non-decreasing in the amplitude:
`eqAmp` (and with it `goodmanClosed`, which divides by a positive constant) is monotone and 1-Lipschitz-bounded
`eqAmp a₂ - eqAmp a₁ ≤ (1 + M)·(a₂ - a₁)`. -/
theorem goodman_closed_form_monotone_continuous (M M2 : ℝ) (h0 : 0 ≤ M2) (h21 : M2 ≤ M) (h2 : M < 1) (m a₁ a₂ : ℝ)
    (ha : 0 ≤ a₁) (h12 : a₁ ≤ a₂) :
    eqAmp M M2 a₁ m ≤ eqAmp M M2 a₂ m ∧ eqAmp M M2 a₂ m - eqAmp M M2 a₁ m ≤ (1 + M) * (a₂ - a₁) := by
  have hM : 0 ≤ M := le_trans h0 h21
  have hd : 0 < 1 + M2 := by linarith
  unfold eqAmp
  have key : ∀ a, (1 + M) * (a + M2 * m) / (1 + M2) = ((1 + M) / (1 + M2)) * a + ((1 + M) / (1 + M2)) * M2 * m := by
    intro a; field_simp
  have hk : 0 < (1 + M) / (1 + M2) := by positivity
  have hk1 : (1 + M) / (1 + M2) ≤ 1 + M := by
    rw [div_le_iff₀ hd]; nlinarith
  have hk2 : 1 ≤ (1 + M) / (1 + M2) := by
    rw [le_div_iff₀ hd]; linarith
  simp only [key]
  set k := (1 + M) / (1 + M2) with hkdef
  have hkm : k * (1 + M2) = 1 + M := by rw [hkdef]; field_simp
  split_ifs with c1 c2 c3 c4 c5 c6 <;> constructor <;> nlinarith

/-! ### 3. Arbitrary diagrams -/

/-- SUPERSEDED (kept as a lemma, not listed in the harness `THEOREMS`): the full statement - for every gap-free
diagram `D` with exactly one segment `(1, ∞]` beyond R = 1 and every admissible `g₁ g₂ c` under the guards,
`transform D g₂ (transform D g₁ c) = transform D g₂ c` - is `transform_path_independent` in Proofs/C12General.lean,
where the potential is constructed (`stdDiagram_has_potential`) and arrival is proved (`transform_arrives`).
Proved here under two extra hypotheses: an iso-damage potential `h` of `D` exists (`Compat`; for a gap-free diagram
it is the continuous piecewise function `k_i·(1 + M_i·x)`), and the runs arrive at their target R
(`arrive`; proved for FKM-Goodman above, by the order analysis of the segments).  Missing: the construction of `h`
and the arrival proof for a general segment list - both are supplied by Proofs/C12General.lean (also for the
five-segment diagram: `fiveSegment_path_independent`). -/
theorem transform_path_independent_partial (h : ℝ → ℝ) (D : List (Seg ℝ)) (g₁ g₂ : ExtR ℝ) (c : Cyc ℝ)
    (hc1 : Compat h D g₁) (hc2 : Compat h D g₂) (hpos : ∀ x, 0 < h x)
    (arrive : ∀ g c', (g = g₁ ∨ g = g₂) → (transform D g c').R = g)
    (hGa : TransformGuard D g₁ c) (hGb : TransformGuard D g₂ (transform D g₁ c)) (hGc : TransformGuard D g₂ c) :
    transform D g₂ (transform D g₁ c) = transform D g₂ c := by
  have p1 := transform_potential h D g₁ c hc1 hGa
  have p12 := transform_potential h D g₂ (transform D g₁ c) hc2 hGb
  have p2 := transform_potential h D g₂ c hc2 hGc
  unfold potential at p1 p12 p2
  have r12 := arrive g₂ (transform D g₁ c) (Or.inr rfl)
  have r2 := arrive g₂ c (Or.inr rfl)
  rw [r12, p1, ← p2, r2] at p12
  have := mul_right_cancel₀ (hpos (pos g₂)).ne' p12
  cases hx : transform D g₂ (transform D g₁ c) with
  | mk a R =>
    cases hy : transform D g₂ c with
    | mk a' R' => rw [hx] at r12 this; rw [hy] at r2 this; simp_all

/-- Idempotence and "a cycle at the target is unchanged" for an arbitrary diagram, same extra hypotheses.
SUPERSEDED by `transform_fixes_target` / `transform_idempotent` in Proofs/C12General.lean (not listed in the harness
`THEOREMS`). -/
theorem transform_fixes_target_partial (h : ℝ → ℝ) (D : List (Seg ℝ)) (c : Cyc ℝ)
    (hc : Compat h D c.R) (hpos : ∀ x, 0 < h x) (arrive : (transform D c.R c).R = c.R)
    (hG' : TransformGuard D c.R c) : transform D c.R c = c := by
  have p := transform_potential h D c.R c hc hG'
  unfold potential at p
  rw [arrive] at p
  have := mul_right_cancel₀ (hpos (pos c.R)).ne' p
  cases hx : transform D c.R c with
  | mk a R => rw [hx] at arrive this; cases c; simp_all

/-! ### 4. Matrix interface: the re-binning conserves the cycles -/

/-- With the class breaks `np.linspace(0, max range, n+1)` (`n ≥ 1`, `max range > 0`) every transformed range
`0 ≤ r ≤ max range` lies in exactly one of the classes `[0,e₁], (e₁,e₂], …` and the class sums add up to the
total number of cycles. -/
theorem rebin_conserves_cycles (mx : ℝ) (n : ℕ) (hmx : 0 < mx) (hn : 1 ≤ n) (items : List (ℝ × ℝ))
    (hr : ∀ it ∈ items, 0 ≤ it.1 ∧ it.1 ≤ mx) :
    (rebin (linspace0 mx n) items).sum = (items.map Prod.snd).sum ∧
    ∀ x, 0 ≤ x → x ≤ mx → (rebin (linspace0 mx n) [(x, 1)]).sum = 1 := by
  obtain ⟨rest, hne, he, hs, hl⟩ := linspace0_breaks mx n hmx hn
  rw [he]
  exact ⟨rebin_conserves rest items hne hs (fun it hit => by rw [hl]; exact hr it hit),
    fun x h0 h1 => rebin_exactly_one rest x hne hs ⟨h0, by rw [hl]; exact h1⟩⟩


/-! ### Known finding `split-beyond-R1` (open): diagrams with more than one segment beyond R = 1 -/

/-- Kernel-checked on the model: diagram `{(1,2]: 1/10, (2,∞]: 1/5, (-∞,0]: 3/10, (0,1]: 1/10}`, cycle of amplitude 1
at R = 5/3 (mean -4), target R = -1.  The code uses the slope of `(1,2]` all the way to R = -∞ and returns 7/15;
moving along the iso-damage lines gives (6/10)/(7/10) · (4/10)/(8/10) · (7/10) = 3/10.  The theorems above
therefore speak about diagrams whose only segment beyond R = 1 is `(1, ∞]` (FKM-Goodman, five-segment). -/
theorem split_beyond_R1_fails_at_witness :
    (transform [⟨fin 1, fin 2, 1/10⟩, ⟨fin 2, pinf, 1/5⟩, ⟨ninf, fin 0, 3/10⟩, ⟨fin 0, fin 1, 1/10⟩]
      (fin (-1)) (⟨1, fin (5/3)⟩ : Cyc ℝ)).amp = 7/15 := by
  norm_num [transform, segsLeft, segsRight, segsContaining, segKey, mid, fake, goalKey, List.filter, insertAsc,
    insertDesc, ExtR.lt, ExtR.le, step, push, leftBoundary, ExtR.isOne, List.foldl, transAmp, fillna0]

/-! ### Non-vacuity: the hypotheses are satisfiable on cycles that cross segment borders -/

/-- The guard computed by hand for: M = 1/2, M2 = 1/6, cycle amplitude 1 at R = 1/2 (mean 3), target R = -∞ (crosses
R = 0).  (`goodman_guard` gives it for every cycle; kept as a concrete instance of what the guard says.) -/
theorem guard_example : TransformGuard (goodman (1/2) (1/6)) ninf ⟨1, fin (1/2)⟩ := by
  unfold TransformGuard afterRight afterLeft
  rw [left_ninf, right_ninf, cont_ninf]
  norm_num [FoldGuard, StepGuard, step, push, memSeg, G0, G1, G2, leftBoundary, ExtR.le, ExtR.lt, normGoal,
    ExtR.isOne, pos, transAmp, fillna0, List.foldl]

example : (transform (goodman (1/2) (1/6)) ninf ⟨1, fin (1/2)⟩).amp
    = goodmanClosed (1/2) (1/6) 1 (1 * pos (fin (1/2))) ninf :=
  goodman_eq_closed_form (1/2) (1/6) (by norm_num) (by norm_num) (by norm_num) ninf ⟨1, fin (1/2)⟩
    (by norm_num) (by simp [ValidR]) (by simp [ValidR])

/-- … and the closed form gives (1 + 1/2)·(1 + 3/6)/(1 + 1/6) / (1 - 1/2) = 27/7 for it. -/
example : goodmanClosed (1/2) (1/6) 1 (1 * pos (fin (1/2))) ninf = 27/7 := by
  norm_num [goodmanClosed, eqAmp, backFactor, pos]

/-- A cycle in compression beyond R = 1 (amplitude 1, R = 3, mean -2) moved to R = 1/2 crosses all three segments. -/
example : (transform (goodman (1/2) (1/6)) (fin (1/2)) ⟨1, fin 3⟩).amp
    = goodmanClosed (1/2) (1/6) 1 (1 * pos (fin 3)) (fin (1/2)) :=
  goodman_eq_closed_form (1/2) (1/6) (by norm_num) (by norm_num) (by norm_num) (fin (1/2)) ⟨1, fin 3⟩
    (by norm_num) (by norm_num [ValidR]) (by norm_num [ValidR])

example : goodmanClosed (1/2) (1/6) 1 (1 * pos (fin 3)) (fin (1/2)) = 7/27 := by
  norm_num [goodmanClosed, eqAmp, backFactor, pos]

example : transform (goodman (1/2 : ℝ) (1/6)) (fin (1/2)) ⟨1, fin (1/2)⟩ = ⟨1, fin (1/2)⟩ :=
  goodman_fixes_target_R (1/2) (1/6) (by norm_num) (by norm_num) (by norm_num) ⟨1, fin (1/2)⟩ (by norm_num [ValidR])

example : transform (goodman (1/2 : ℝ) (1/6)) (fin (-1)) (transform (goodman (1/2 : ℝ) (1/6)) (fin (-1)) ⟨1, fin 3⟩)
    = transform (goodman (1/2 : ℝ) (1/6)) (fin (-1)) ⟨1, fin 3⟩ :=
  goodman_idempotent (1/2) (1/6) (by norm_num) (by norm_num) (by norm_num) (fin (-1)) ⟨1, fin 3⟩
    (by norm_num [ValidR]) (by norm_num [ValidR])

example : transform (goodman (1/2 : ℝ) (1/6)) (fin (-1)) (transform (goodman (1/2 : ℝ) (1/6)) ninf ⟨1, fin (1/2)⟩)
    = transform (goodman (1/2 : ℝ) (1/6)) (fin (-1)) ⟨1, fin (1/2)⟩ :=
  goodman_path_independent (1/2) (1/6) (by norm_num) (by norm_num) (by norm_num) ninf (fin (-1)) ⟨1, fin (1/2)⟩
    (by simp [ValidR]) (by norm_num [ValidR]) (by norm_num [ValidR])

example : (transform (goodman (1/2 : ℝ) (1/6)) (fin (-1)) ⟨1, fin (1/2)⟩).amp
    ≤ (transform (goodman (1/2 : ℝ) (1/6)) (fin (-1)) ⟨2, fin (1/2)⟩).amp :=
  (goodman_monotone_in_amplitude_fixed_R (1/2) (1/6) (by norm_num) (by norm_num) (by norm_num) (fin (-1)) (fin (1/2)) 1 2
    (by norm_num [ValidR]) (by norm_num [ValidR]) (by norm_num)).1

/-- default `M2 = M/3` with M = 3/10: cycle of amplitude 1 at R = 1/2 to R = -1. -/
example : (transform (goodmanDefault (3/10)) (fin (-1)) ⟨1, fin (1/2)⟩).amp
    = goodmanClosed (3/10) ((3/10) / 3) 1 (1 * pos (fin (1/2))) (fin (-1)) :=
  goodmanDefault_eq_closed_form (3/10) (by norm_num) (by norm_num) (fin (-1)) ⟨1, fin (1/2)⟩ (by norm_num)
    (by norm_num [ValidR]) (by norm_num [ValidR])

example : goodmanClosed (3/10) ((3/10) / 3) 1 (1 * pos (fin (1/2))) (fin (-1)) = 169/110 := by
  norm_num [goodmanClosed, eqAmp, backFactor, pos]

example : (transform (goodman (1/2 : ℝ) (1/6)) ninf ⟨1, fin (1/2)⟩).R = ninf :=
  goodman_arrives_at_target (1/2) (1/6) ninf ⟨1, fin (1/2)⟩ (by simp [ValidR]) (by simp [ValidR])

example : Compat (hG (1/2) (1/6)) (goodman (1/2) (1/6)) (fin 2) :=
  goodman_compat _ _ (by norm_num) _ (by simp [ValidR])

example : ∀ x : ℝ, 0 ≤ x → x ≤ 10 → (rebin (linspace0 10 4) [(x, 1)]).sum = 1 :=
  (rebin_conserves_cycles 10 4 (by norm_num) (by norm_num) [] (by simp)).2

example : eqAmp (1/2) (1/6) 1 3 ≤ eqAmp (1/2) (1/6) 4 3 :=
  (goodman_closed_form_monotone_continuous (1/2) (1/6) (by norm_num) (by norm_num) (by norm_num) 3 1 4
    (by norm_num) (by norm_num)).1

end PylifeVerif.C12
