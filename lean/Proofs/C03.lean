/- C03: symmetries. -/
import Proofs.C03Sym
import Proofs.C02Fkm
import Proofs.ThreePoint
import Proofs.RainflowCorollaries
import Proofs.C03Nan
import Proofs.RainflowLiteral
