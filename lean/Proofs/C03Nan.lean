/-
C03, audit item C03-2: NaN samples at DETECTOR level (`Model/Rainflow/Literal.lean`, part 2).

Samples are `Option Int` (`none` = NaN).  `newTurnsNan` is `_new_turns` with NaNs inside
`_sample_tail` (index bookkeeping in original coordinates), `fpRunNan` the four-point detector on
such chunks (the first sample of the first chunk and the last sample of every chunk enter
`turns_np` unfiltered; every comparison with a NaN operand is false).

* `newTurnsNan_chunked`  (no guard on the NaN positions): after any list of non-empty chunks
  `_new_turns` has reported exactly `findTurnsNan` of the concatenated signal - the turning points of
  the cleaned signal at their original positions - and is in the canonical state.
* `fourPoint_nan_chunked`: if the first sample of the first chunk and the last sample of the last
  chunk are not NaN (and no chunk is empty), the detector has the cycle / residual VALUES of the
  one-piece run on the cleaned signal, every reported index is `origIndex` of the clean index, and
  the recorder has the chunk sizes.  NaNs may sit anywhere else: at chunk ends (then the provisional
  residual is NaN and nothing is closed provisionally), whole chunks of NaN, NaNs inside the tail.
* `fourPoint_nan_chunk_independent`, `fourPoint_nan_index_valid`: corollaries.
* `fkm_nan_chunked`: the FKM detector sees the samples through `_new_turns` only; no guard on the ends.
* the two guards of the four-point theorem are necessary (examples at the end).
Not covered: the three-point detector on NaN samples (no model).
-/
import Proofs.Lemmas.FpNan
import Proofs.C02FourPoint

namespace PylifeVerif.C03
open PylifeVerif.Rainflow PylifeVerif.Rainflow.Nan

def reidxPt (g : Nat → Nat) (p : Pt) : Pt := (g p.1, p.2)
def reidxCycle (g : Nat → Nat) (c : Cycle) : Cycle := (reidxPt g c.1, reidxPt g c.2)

/-- Feeding chunks with NaNs to `_new_turns`: final bookkeeping state and all reported turns. -/
def turnsRunNan (cs : List (List (Option Int))) : TurnStateNan × List Pt :=
  cs.foldl (fun acc c => let r := newTurnsNan acc.1 c; (r.1, acc.2 ++ r.2)) ({}, [])

theorem findTurnsNan_append (P ch : List (Option Int)) :
    findTurnsNan (P ++ ch) =
      findTurnsNan P ++ (newTurnsOf (clean P) (clean ch)).map (reidx (origIndex (P ++ ch))) := by
  rw [findTurnsNan_eq, findTurnsNan_eq, clean_append, findTurns_append_eq, List.map_append]
  congr 1
  apply List.map_congr_left
  intro p hp
  simp only [reidx]
  rw [origIndex_append P ch p.1 (Sym.findTurns_index_lt _ p hp)]

theorem turnsFoldNan (cs : List (List (Option Int))) (hne : ∀ c ∈ cs, c ≠ []) :
    ∀ P : List (Option Int),
    cs.foldl (fun (acc : TurnStateNan × List Pt) c =>
        let r := newTurnsNan acc.1 c; (r.1, acc.2 ++ r.2)) (canonNanTs P, findTurnsNan P) =
      (canonNanTs (P ++ cs.flatten), findTurnsNan (P ++ cs.flatten)) := by
  induction cs with
  | nil => intro P; simp
  | cons c cs ih =>
    intro P
    simp only [List.foldl_cons, List.flatten_cons]
    rw [newTurnsNan_canon P c (hne c (by simp)), ← findTurnsNan_append,
      ih (fun c' h => hne c' (by simp [h])), List.append_assoc]

/-- **`_new_turns` with NaNs, any chunking, NaNs anywhere.**  The reported turns are the turning
points of the cleaned signal, at their original positions (`findTurnsNan_reindex`), the tail is the
original signal from the last reported turn on. -/
theorem newTurnsNan_chunked (cs : List (List (Option Int))) (hne : ∀ c ∈ cs, c ≠ []) :
    turnsRunNan cs = (canonNanTs cs.flatten, findTurnsNan cs.flatten) ∧
      (turnsRunNan cs).2 =
        (findTurns (cs.flatten.filterMap id)).map (fun p => (origIndex cs.flatten p.1, p.2)) := by
  have h := turnsFoldNan cs hne []
  have h0 : findTurnsNan [] = [] := by decide
  rw [canonNanTs_nil, h0, List.nil_append] at h
  have h1 : turnsRunNan cs = (canonNanTs cs.flatten, findTurnsNan cs.flatten) := h
  refine ⟨h1, ?_⟩
  rw [h1]
  exact findTurnsNan_reindex _

theorem newTurnsNan_chunk_independent (cs : List (List (Option Int))) (hne : ∀ c ∈ cs, c ≠ [])
    (h0 : cs ≠ []) : turnsRunNan cs = turnsRunNan [cs.flatten] := by
  have hs : cs.flatten ≠ [] := by
    cases cs with
    | nil => exact absurd rfl h0
    | cons c cs => have := hne c (by simp); simp [this]
  rw [(newTurnsNan_chunked cs hne).1, (newTurnsNan_chunked [cs.flatten] (by simpa using hs)).1]
  simp

/-- **Four-point detector on chunks with NaNs.**  Guard: no chunk is empty, the first sample of
the first chunk is not NaN, the last sample of the last chunk is not NaN. -/
theorem fourPoint_nan_chunked (cs : List (List (Option Int))) (hne : ∀ c ∈ cs, c ≠ [])
    (x0 xl : Int) (hfirst : cs.flatten.head? = some (some x0))
    (hlast : cs.flatten.getLast? = some (some xl)) :
    let flat := cs.flatten
    let a := fpRunNan cs
    let b := fpRun [flat.filterMap id]
    a.cycles = b.cycles.map (reidxCycle (origIndex flat)) ∧
      a.residuals = b.residuals.map some ∧
      a.residualIndex = b.residualIndex.map (fun i => ((origIndex flat i.toNat : Nat) : Int)) ∧
      a.chunks = cs.map List.length := by
  intro flat a b
  -- shape of the signal
  obtain ⟨F', hflat⟩ : ∃ F', flat = some x0 :: F' := by
    cases hf : flat with
    | nil => simp [flat, hf] at hfirst
    | cons y Y =>
      have : cs.flatten = y :: Y := hf
      rw [this] at hfirst
      simp only [List.head?_cons, Option.some.injEq] at hfirst
      exact ⟨Y, by rw [hfirst]⟩
  obtain ⟨A, hA⟩ : ∃ A, flat = A ++ [some xl] := List.getLast?_eq_some_iff.mp hlast
  have hclean : clean flat = x0 :: clean F' := by rw [hflat]; simp [clean]
  have hxl : (x0 :: clean F').getLast! = xl := by
    rw [← hclean]; exact clean_getLast flat xl hlast
  have hne0 : flat ≠ [] := by rw [hflat]; simp
  -- the invariant at the end
  have hinv : Inv (origIndex flat) x0 flat a := by
    have := inv_run flat x0 F' hflat cs hne [] [] {} (by simp [flat])
      (inv_init _ (by rw [hflat]; exact origIndex_zero_some x0 F') x0)
    rw [List.nil_append] at this
    exact this
  obtain ⟨hts, _, hlS, w, hw1, _, hstack, hcyc⟩ := hinv
  have hw : w = some xl := hw1 xl hlast
  have hal : a.last = some (some xl) := by
    rw [hlS hne0]
    have : flat.getLast? = some (some xl) := hlast
    rw [this]; rfl
  rw [hal, hw] at hstack
  rw [hw] at hcyc
  simp only [Option.isNone_some, Bool.false_eq_true, if_false, closeOpt, hclean] at hstack hcyc
  -- the one-piece run on the cleaned signal
  have hb : b = fpCanon (x0 :: clean F') [(x0 :: clean F').length] := by
    have := C01.fpRun_eq [x0 :: clean F'] (by simp)
    simp only [List.flatten_cons, List.flatten_nil, List.append_nil, List.map_cons, List.map_nil]
      at this
    rw [← this, ← hclean]
  have hbc : b.cycles = (fpFeed [(0, x0)] (findTurns (x0 :: clean F'))).1 ++
      (fpClose (fpFeed [(0, x0)] (findTurns (x0 :: clean F'))).2 xl).1 := by
    rw [hb]; simp only [fpCanon, fpFeedClose, hxl]
  have hbs : b.stack = (fpClose (fpFeed [(0, x0)] (findTurns (x0 :: clean F'))).2 xl).2 := by
    rw [hb]; simp only [fpCanon, fpFeedClose, hxl]
  have hbl : b.last = some xl := by rw [hb]; simp only [fpCanon, hxl]
  have hbh : b.ts.head = (clean flat).length := by rw [hb, hclean]; simp [fpCanon, canonTs]
  refine ⟨?_, ?_, ?_, ?_⟩
  · rw [hcyc, hbc]; rfl
  · simp only [DetStateNan.residuals, DetState.residuals, hal, hbl, hstack, hbs]
    simp [liftPt, Function.comp_def]
  · simp only [DetStateNan.residualIndex, DetState.residualIndex, hal, hbl, hstack, hbs, hts, hbh]
    have hlen : (clean flat).length = (clean A).length + 1 := by
      rw [hA, clean_append]; simp [clean]
    have hlast' : origIndex flat (clean A).length = A.length := by
      rw [hA]; exact origIndex_last A xl
    have hfl : flat.length = A.length + 1 := by rw [hA]; simp
    simp only [canonNanTs, List.map_append, List.map_map, List.map_reverse, List.map_cons,
      List.map_nil, hlen, hfl]
    have e : ((((clean A).length + 1 : Nat) : Int) - 1).toNat = (clean A).length := by omega
    rw [e, hlast']
    simp [liftPt, Function.comp_def]
  · have := chunks_run cs {}
    have hfil : cs.filter (· ≠ []) = cs := by
      rw [List.filter_eq_self]
      intro c hc; simpa using hne c hc
    rw [hfil] at this
    simpa [a, fpRunNan] using this

/-- Consequence: with the guard of `fourPoint_nan_chunked`, cycles, residuals and residual indices
do not depend on the chunking. -/
theorem fourPoint_nan_chunk_independent (cs : List (List (Option Int))) (hne : ∀ c ∈ cs, c ≠ [])
    (x0 xl : Int) (hfirst : cs.flatten.head? = some (some x0))
    (hlast : cs.flatten.getLast? = some (some xl)) :
    let a := fpRunNan cs; let b := fpRunNan [cs.flatten]
    a.cycles = b.cycles ∧ a.residuals = b.residuals ∧ a.residualIndex = b.residualIndex := by
  have hs : cs.flatten ≠ [] := by
    intro h; rw [h] at hfirst; simp at hfirst
  obtain ⟨a1, a2, a3, _⟩ := fourPoint_nan_chunked cs hne x0 xl hfirst hlast
  obtain ⟨b1, b2, b3, _⟩ := fourPoint_nan_chunked [cs.flatten] (by simpa using hs) x0 xl
    (by simpa using hfirst) (by simpa using hlast)
  simp only [List.flatten_cons, List.flatten_nil, List.append_nil] at b1 b2 b3
  exact ⟨a1.trans b1.symm, a2.trans b2.symm, a3.trans b3.symm⟩

/-- Consequence: every cycle end point reported on a signal with NaNs addresses, in the ORIGINAL
signal, a sample with the reported value. -/
theorem fourPoint_nan_index_valid (cs : List (List (Option Int))) (hne : ∀ c ∈ cs, c ≠ [])
    (x0 xl : Int) (hfirst : cs.flatten.head? = some (some x0))
    (hlast : cs.flatten.getLast? = some (some xl))
    (h2 : 2 ≤ (cs.flatten.filterMap id).length) :
    ∀ c ∈ (fpRunNan cs).cycles,
      cs.flatten[c.1.1]? = some (some c.1.2) ∧ cs.flatten[c.2.1]? = some (some c.2.2) := by
  obtain ⟨a1, _, _, _⟩ := fourPoint_nan_chunked cs hne x0 xl hfirst hlast
  intro c hc
  rw [a1] at hc
  obtain ⟨c0, hc0, rfl⟩ := List.mem_map.mp hc
  have hv := C02.fourPoint_index_valid (cs.flatten.filterMap id) h2
  have hm1 : c0.1 ∈ (fpRun [cs.flatten.filterMap id]).cycles.flatMap (fun c => [c.1, c.2]) ++
      C02.residualPts (fpRun [cs.flatten.filterMap id]) :=
    List.mem_append_left _ (List.mem_flatMap.mpr ⟨c0, hc0, by simp⟩)
  have hm2 : c0.2 ∈ (fpRun [cs.flatten.filterMap id]).cycles.flatMap (fun c => [c.1, c.2]) ++
      C02.residualPts (fpRun [cs.flatten.filterMap id]) :=
    List.mem_append_left _ (List.mem_flatMap.mpr ⟨c0, hc0, by simp⟩)
  simp only [reidxCycle, reidxPt, origIndex_eq_origIdx]
  exact ⟨Sym.getElem?_origIdx _ _ _ (hv _ hm1), Sym.getElem?_origIdx _ _ _ (hv _ hm2)⟩

/-! ### FKM detector: it sees the samples through `_new_turns` only -/

theorem fkmFoldNan (cs : List (List (Option Int))) :
    ∀ (tst : TurnStateNan) (tl : List Pt) (c0 : FkmState),
    cs.foldl fkmProcessNan { ts := tst, core := tl.foldl (fun s p => fkmTurn s p.2) c0 } =
      { ts := (cs.foldl (fun (acc : TurnStateNan × List Pt) c =>
            let r := newTurnsNan acc.1 c; (r.1, acc.2 ++ r.2)) (tst, tl)).1,
        core := (cs.foldl (fun (acc : TurnStateNan × List Pt) c =>
            let r := newTurnsNan acc.1 c; (r.1, acc.2 ++ r.2)) (tst, tl)).2.foldl
          (fun s p => fkmTurn s p.2) c0 } := by
  induction cs with
  | nil => intros; rfl
  | cons c cs ih =>
    intro tst tl c0
    simp only [List.foldl_cons]
    rw [← ih]
    congr 1
    simp only [fkmProcessNan, List.foldl_append]

theorem fkmRunNan_eq (cs : List (List (Option Int))) :
    fkmRunNan cs = { ts := (turnsRunNan cs).1,
                     core := (turnsRunNan cs).2.foldl (fun s p => fkmTurn s p.2) {} } :=
  fkmFoldNan cs {} [] {}

/-- **FKM detector on chunks with NaNs** (NaNs anywhere, also at the two ends; no chunk empty): the
recorded cycles, the residuals, `ir` and the running maximum are those of the one-piece run on the
cleaned signal; `residual_index` is `[0, n - 1]` with `n` the ORIGINAL number of samples. -/
theorem fkm_nan_chunked (cs : List (List (Option Int))) (hne : ∀ c ∈ cs, c ≠ []) :
    let a := fkmRunNan cs
    let b := fkmRun [cs.flatten.filterMap id]
    a.core.cycles = b.cycles ∧ a.core.res = b.res ∧ a.core.ir = b.ir ∧
      a.core.maxTurn = b.maxTurn ∧ a.residualIndex = [0, (cs.flatten.length : Int) - 1] := by
  intro a b
  have ha : a = { ts := canonNanTs cs.flatten,
                  core := (findTurns (cs.flatten.filterMap id)).foldl (fun s p => fkmTurn s p.2) {} } := by
    show fkmRunNan cs = _
    rw [fkmRunNan_eq, (newTurnsNan_chunked cs hne).1]
    simp only [findTurnsNan_eq, List.foldl_map, reidx]
  have hturns : (C01.turnsRun [cs.flatten.filterMap id]).2 = findTurns (cs.flatten.filterMap id) := by
    by_cases hc : cs.flatten.filterMap id = []
    · rw [hc]; decide
    · exact C01.turnsRun_turns [cs.flatten.filterMap id] (by simpa using hc) |>.trans (by simp)
  have hb : b = { (findTurns (cs.flatten.filterMap id)).foldl (fun s p => fkmTurn s p.2) {} with
                  ts := (C01.turnsRun [cs.flatten.filterMap id]).1 } := by
    show fkmRun _ = _
    rw [C01.fkmRun_eq, hturns]
  rw [ha, hb]
  exact ⟨rfl, rfl, rfl, rfl, by simp [FkmStateNan.residualIndex, canonNanTs]⟩

/-! ### Non-vacuity -/

/-- NaN at a chunk end (provisional residual NaN), an all-NaN chunk, NaN inside the tail -/
def exNan : List (List (Option Int)) :=
  [[some 0, none, some 3, some 3], [some 1, none], [none], [some 2, some 2, none, some (-1), some 4]]

example := fourPoint_nan_chunked exNan (by decide) 0 4 (by decide) (by decide)
example := fourPoint_nan_chunk_independent exNan (by decide) 0 4 (by decide) (by decide)
example := fourPoint_nan_index_valid exNan (by decide) 0 4 (by decide) (by decide) (by decide)
example := newTurnsNan_chunked exNan (by decide)
example : (fpRunNan exNan).cycles = [((4, 1), (7, 2))] := by decide +kernel
example : (fpRunNan exNan).residuals = [some 0, some 3, some (-1), some 4] := by decide +kernel
example : (fpRunNan exNan).residualIndex = [0, 2, 10, 11] := by decide +kernel
example : (fpRun [exNan.flatten.filterMap id]).cycles = [((3, 1), (4, 2))] := by decide +kernel
example : (fpRun [exNan.flatten.filterMap id]).residualIndex = [0, 1, 6, 7] := by decide +kernel
example : (turnsRunNan exNan).2 = [(2, 3), (4, 1), (7, 2), (10, -1)] := by decide +kernel
/-- after the second chunk the provisional residual is NaN -/
example : (fpRunNan (exNan.take 2)).residuals = [some 0, some 3, none] := by decide +kernel

example := fkm_nan_chunked exNan (by decide)
/-- FKM needs no guard on the ends -/
example := fkm_nan_chunked [[none, some 0, some 3], [some 1, none, some 2], [some 0, none, some 5]] (by decide)
example : (fkmRunNan [[none, some 0, some 3], [some 1, none, some 2], [some 0, none, some 5]]).core.cycles =
    [(1, 2)] := by decide +kernel
example : (fkmRunNan [[none, some 0, some 3], [some 1, none, some 2], [some 0, none, some 5]]).residualIndex =
    [0, 8] := by decide +kernel

/-- the guards are necessary: first sample NaN - the NaN stays the first residual for ever -/
example : (fpRunNan [[none, some 0, some 3, some 1, some 2, some 0]]).residuals =
    [none, some 3, some 0] ∧
    (fpRun [[0, 3, 1, 2, 0]]).residuals = [0, 3, 0] := by decide +kernel
/-- last sample NaN - nothing is closed provisionally and the last residual is NaN -/
example : (fpRunNan [[some 0, some 3, some 1, some 2, some 0, none]]).residuals =
    [some 0, some 3, some 1, some 2, none] ∧
    (fpRun [[0, 3, 1, 2, 0]]).residuals = [0, 3, 0] := by decide +kernel

end PylifeVerif.C03

section AxiomCheck
#print axioms PylifeVerif.C03.newTurnsNan_chunked
#print axioms PylifeVerif.C03.newTurnsNan_chunk_independent
#print axioms PylifeVerif.C03.fourPoint_nan_chunked
#print axioms PylifeVerif.C03.fourPoint_nan_chunk_independent
#print axioms PylifeVerif.C03.fourPoint_nan_index_valid
#print axioms PylifeVerif.C03.fkm_nan_chunked
end AxiomCheck
