import Proofs.Lemmas.Sym

namespace PylifeVerif
open Rainflow

namespace C01
theorem chunkLocalIndex_correct (cs : List (List Int)) (hne : ∀ c ∈ cs, c ≠ []) (g : Nat)
    (hg : g < cs.flatten.length) :
    ∃ c, cs[(chunkLocalIndex (cs.map List.length) g).1]? = some c ∧
      c[(chunkLocalIndex (cs.map List.length) g).2]? = cs.flatten[g]? ∧
      (chunkLocalIndex (cs.map List.length) g).2 < c.length := by
  induction cs generalizing g with
  | nil => simp at hg
  | cons c rest ih =>
    simp only [List.map_cons, chunkLocalIndex, List.flatten_cons]
    by_cases h : g < c.length
    · rw [if_pos h]
      exact ⟨c, by simp, by simp [List.getElem?_append_left h], h⟩
    · rw [if_neg h]
      have hg' : g - c.length < rest.flatten.length := by
        simp only [List.flatten_cons, List.length_append] at hg; omega
      obtain ⟨c', h1, h2, h3⟩ := ih (fun c hc => hne c (List.mem_cons_of_mem _ hc)) (g - c.length) hg'
      refine ⟨c', by simpa using h1, ?_, h3⟩
      rw [List.getElem?_append_right (by omega)]
      exact h2
end C01

namespace C03

theorem findTurns_neg (s : List Int) :
    findTurns (s.map (- ·)) = (findTurns s).map fun p => (p.1, -p.2) := by
  have h := Sym.findTurns_affine_ne (-1) 0 (by decide) s
  have e1 : (fun x : Int => -1 * x + 0) = (- ·) := by funext x; omega
  have e2 : (fun p : Pt => (p.1, -1 * p.2 + 0)) = fun p => (p.1, -p.2) := by
    funext p; congr 1; omega
  rw [e1, e2] at h; exact h

theorem findTurns_affine (s : List Int) (a b : Int) (ha : 0 < a) :
    findTurns (s.map (a * · + b)) = (findTurns s).map fun p => (p.1, a * p.2 + b) :=
  Sym.findTurns_affine_ne a b (by omega) s

def mapPt (f : Int → Int) (p : Pt) : Pt := (p.1, f p.2)
def mapCycle (f : Int → Int) (c : Cycle) : Cycle := (mapPt f c.1, mapPt f c.2)

theorem fourPoint_affine (cs : List (List Int)) (a b : Int) (ha : a ≠ 0) :
    let f := fun x => a * x + b
    let r := fpRun (cs.map (List.map f)); let r0 := fpRun cs
    r.cycles = r0.cycles.map (mapCycle f) ∧ r.stack = r0.stack.map (mapPt f) ∧ r.last = r0.last.map f ∧
      r.ts.head = r0.ts.head ∧ r.chunks = r0.chunks := by
  intro f r r0
  have h : r = Sym.aDet a b r0 := Sym.fpRun_affine a b ha cs
  rw [h]
  exact ⟨rfl, rfl, rfl, rfl, rfl⟩

/-- Inserting a sample `v` that lies (weakly) between its neighbours `x`,`y` keeps the turn values and
moves the indices behind the insertion point by one. -/
theorem findTurns_insert_nonreversal (pre post : List Int) (x y v : Int)
    (hv : (x ≤ v ∧ v ≤ y) ∨ (y ≤ v ∧ v ≤ x)) :
    (findTurns (pre ++ x :: v :: y :: post)).map (·.2) = (findTurns (pre ++ x :: y :: post)).map (·.2) :=
  Sym.findTurns_insert_vals pre post x y v hv

set_option linter.unusedVariables false in
/-- position map of the NaN filter: number of NaNs needed so that a clean index lands at its
original position -/
def origIndex : List (Option Int) → Nat → Nat
  | [], i => i
  | none :: rest, i => origIndex rest i + 1
  | some _ :: rest, 0 => 0
  | some _ :: rest, i+1 => origIndex rest i + 1

theorem origIndex_eq_origIdx (s : List (Option Int)) : ∀ i, origIndex s i = Sym.origIdx s i := by
  induction s with
  | nil => intro i; rfl
  | cons x rest ih =>
    intro i
    cases x with
    | none => simp only [origIndex, Sym.origIdx, ih]
    | some v =>
      cases i with
      | zero => rfl
      | succ i => simp only [origIndex, Sym.origIdx, ih]

theorem findTurnsNan_reindex (s : List (Option Int)) :
    findTurnsNan s = (findTurns (s.filterMap id)).map fun p => (origIndex s p.1, p.2) := by
  rw [Sym.findTurnsNan_eq]
  simp only [origIndex_eq_origIdx]

theorem findTurnsNan_index_valid (s : List (Option Int)) :
    ∀ p ∈ findTurnsNan s, s[p.1]? = some (some p.2) :=
  Sym.findTurnsNan_valid s

end C03

/-! ### non-vacuity / sanity instances -/

example : findTurns ([1, 3, 3, 2, 5].map (- ·)) = [(1, -3), (3, -2)] := by decide
example : (findTurns [1, 3, 3, 2, 5]).map (fun p => (p.1, -p.2)) = [(1, -3), (3, -2)] := by decide
example : (fpRun [[0, 4, 1], [3, -2, 6]]).cycles ≠ [] := by decide +kernel
example : (findTurns ([0, 2] ++ 1 :: 3 :: 5 :: [4])).map (·.2) = [2, 1, 5] := by decide
example : findTurnsNan [some 0, none, some 2, none, some 1, some 3] = [(2, 2), (4, 1)] := by decide
example : chunkLocalIndex ([[1, 2], [3], [4, 5, 6]].map List.length) 4 = (2, 1) := by decide

end PylifeVerif

#print axioms PylifeVerif.C03.findTurns_neg
#print axioms PylifeVerif.C03.findTurns_affine
#print axioms PylifeVerif.C03.fourPoint_affine
#print axioms PylifeVerif.C03.findTurns_insert_nonreversal
#print axioms PylifeVerif.C03.findTurnsNan_reindex
#print axioms PylifeVerif.C03.findTurnsNan_index_valid
#print axioms PylifeVerif.C01.chunkLocalIndex_correct
