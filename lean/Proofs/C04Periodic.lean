/-
C04: the closed cycles of the endlessly repeated load sequence (`Spec.periodicRainflow`) do not
depend on non-reversal samples anywhere in the cyclic word, nor on where the period is cut.

Proof outline (details in `Proofs/Lemmas/Periodic.lean` – rewriting system and core –,
`Proofs/Lemmas/PeriodicRev.lean` – `cyclicReversals` –, shared definitions `Alt` / `Zig` in
`Proofs/Lemmas/PeriodicDefs.lean`):
* `cyclicReversals` of the two inputs are rotations of each other (`cyclicReversals_insert`,
  `cyclicReversals_rotate`) and cyclically strictly alternating (`cyclicReversals_zig`);
* the four-point rule is a rewriting system with the diamond property on alternating words, so the
  multiset of counted cycles does not depend on the order of the removals (`nf_unique`);
* a closed alternating word that starts at an element of largest absolute value reduces to three
  elements (`collapse`); cutting the cyclic word at two such elements `x`, `y` gives the closed words
  `x P y Q x` and `y Q x P y`, both of which reduce via the normal forms of `x P y` and `y Q x`
  (`core`); hence `prf_rotate`: the count is the same for every rotation of the reversal word –
  including ties of the largest absolute value (also of opposite sign).
-/
import Proofs.Lemmas.Periodic
import Proofs.Lemmas.PeriodicRev

namespace PylifeVerif.C04
open PylifeVerif.HCM

theorem prf_isRotated {W W' : List Int} (h : W ~r W') (hz : 2 ≤ W.length → Zig (W ++ W)) :
    (prf W').Perm (prf W) := by
  obtain ⟨j, rfl⟩ := h
  exact prf_rotate W hz j

/-- The closed cycles of the repeated sequence do not depend on non-reversal samples anywhere in
the cyclic word. -/
theorem periodicRainflow_insert (pre post : List Int) (x y v : Int)
    (hv : (x ≤ v ∧ v ≤ y) ∨ (y ≤ v ∧ v ≤ x)) :
    (Spec.periodicRainflow (pre ++ x :: v :: y :: post)).Perm (Spec.periodicRainflow (pre ++ x :: y :: post)) := by
  rw [periodicRainflow_eq, periodicRainflow_eq]
  exact prf_isRotated (cyclicReversals_insert pre post x y v hv).symm (cyclicReversals_zig _)

/-- … and not on where the period is cut. -/
theorem periodicRainflow_rotate (a b : List Int) :
    (Spec.periodicRainflow (a ++ b)).Perm (Spec.periodicRainflow (b ++ a)) := by
  rw [periodicRainflow_eq, periodicRainflow_eq]
  exact prf_isRotated (cyclicReversals_rotate b a) (cyclicReversals_zig _)

/-! Non-vacuity: an input with a tie of the largest absolute value of opposite sign (`3`, `-3`) and
an inserted non-reversal. -/
example : (Spec.periodicRainflow ([0, 3] ++ 1 :: 2 :: 2 :: [-3, 1, 3, -1])).Perm
    (Spec.periodicRainflow ([0, 3] ++ 1 :: 2 :: [-3, 1, 3, -1])) :=
  periodicRainflow_insert [0, 3] [-3, 1, 3, -1] 1 2 2 (by decide)

example : (Spec.periodicRainflow ([0, 3, 1, 2] ++ [-3, 1, 3, -1])).Perm
    (Spec.periodicRainflow ([-3, 1, 3, -1] ++ [0, 3, 1, 2])) :=
  periodicRainflow_rotate _ _

#print axioms periodicRainflow_insert
#print axioms periodicRainflow_rotate
#print axioms prf_rotate

end PylifeVerif.C04
