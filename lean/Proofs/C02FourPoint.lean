/-
C02, four-point part: the scan `findTurns` finds exactly the declarative reversals, and the
four-point detector model on a single chunk is the textbook four-point rule on the turning-point
sequence; cycles and residual partition the turning points; all reported indices are valid.
-/
import Proofs.Lemmas.Reversals
import Proofs.Lemmas.FourPointSpec

namespace PylifeVerif.C02
open PylifeVerif.Rainflow

/-- the scan of the code finds exactly the declaratively defined interior reversals -/
theorem findTurns_eq_reversals (s : List Int) : findTurns s = Spec.reversals s := by
  rw [findTurns_eq_revList, reversals_eq_revList]

/-- residual as points: decided stack (oldest first) and the last sample -/
def residualPts (st : DetState) : List Pt :=
  match st.last with
  | none => []
  | some l => st.stack.reverse ++ [(st.ts.head - 1, l)]

/-- `_new_turns` on the first chunk: all local turns, offset 0, head = chunk length. -/
theorem newTurns_init (s0 : Int) (tl : List Int) :
    (newTurns {} (s0 :: tl)).2 = findTurns (s0 :: tl) ∧
      (newTurns {} (s0 :: tl)).1.head = (s0 :: tl).length := by
  simp [newTurns]

/-- The four-point model on a single non-empty chunk, unfolded. -/
theorem fpRun_single (s0 : Int) (tl : List Int) :
    (fpRun [s0 :: tl]).cycles =
        (fpFeed [(0, s0)] (findTurns (s0 :: tl))).1 ++
          (fpClose (fpFeed [(0, s0)] (findTurns (s0 :: tl))).2 (s0 :: tl).getLast!).1 ∧
      residualPts (fpRun [s0 :: tl]) =
        (fpClose (fpFeed [(0, s0)] (findTurns (s0 :: tl))).2 (s0 :: tl).getLast!).2.reverse ++
          [((s0 :: tl).length - 1, (s0 :: tl).getLast!)] := by
  obtain ⟨h1, h2⟩ := newTurns_init s0 tl
  constructor
  · simp only [fpRun, List.foldl_cons, List.foldl_nil, fpProcess]
    simp [h1]
  · simp only [fpRun, List.foldl_cons, List.foldl_nil, fpProcess, residualPts]
    simp [h1, h2]

theorem fourPoint_eq_spec (s : List Int) (h : 2 ≤ s.length) :
    ((fpRun [s]).cycles, residualPts (fpRun [s])) = Spec.fourPoint (Spec.turningPoints s) := by
  match s, h with
  | s0 :: tl, _ =>
    obtain ⟨h1, h2⟩ := fpRun_single s0 tl
    rw [h1, h2]
    simp only [Spec.turningPoints, ← findTurns_eq_reversals]
    rw [fourPoint_spec_eq]

/-- Cycle end points and residual of `Spec.fourPoint` on `first :: turns ++ [lastp]` partition it. -/
theorem fourPoint_spec_perm (first : Pt) (turns : List Pt) (lastp : Pt) :
    (((Spec.fourPoint (first :: turns ++ [lastp])).1.flatMap fun c => [c.1, c.2]) ++
      (Spec.fourPoint (first :: turns ++ [lastp])).2).Perm (first :: turns ++ [lastp]) := by
  rw [fourPoint_spec_eq]
  simp only [List.flatMap_append]
  have h1 := fpFeed_perm turns [first]
  have h2 := fpClose_perm (fpFeed [first] turns).2 lastp.2
  simp only [List.reverse_cons, List.reverse_nil, List.nil_append, List.singleton_append] at h1
  have step : ((((fpClose (fpFeed [first] turns).2 lastp.2).1).flatMap endpoints) ++
      (fpClose (fpFeed [first] turns).2 lastp.2).2.reverse).Perm (fpFeed [first] turns).2.reverse :=
    (List.Perm.append_left _ (List.reverse_perm _)).trans (h2.trans (List.reverse_perm _).symm)
  have key := (List.Perm.append_left ((fpFeed [first] turns).1.flatMap endpoints) step).trans h1
  have key2 := key.append_right [lastp]
  simp only [List.append_assoc] at key2 ⊢
  exact key2

theorem fourPoint_partition (s : List Int) (h : 2 ≤ s.length) :
    (((fpRun [s]).cycles.flatMap fun c => [c.1, c.2]) ++ residualPts (fpRun [s])).Perm (Spec.turningPoints s) := by
  have h3 := fourPoint_eq_spec s h
  have hc : (fpRun [s]).cycles = (Spec.fourPoint (Spec.turningPoints s)).1 := congrArg Prod.fst h3
  have hr : residualPts (fpRun [s]) = (Spec.fourPoint (Spec.turningPoints s)).2 := congrArg Prod.snd h3
  rw [hc, hr]
  match s, h with
  | s0 :: tl, _ =>
    simp only [Spec.turningPoints]
    exact fourPoint_spec_perm _ _ _

/-- Every declarative turning point addresses a real sample. -/
theorem turningPoints_index_valid (s : List Int) :
    ∀ p ∈ Spec.turningPoints s, s[p.1]? = some p.2 := by
  match s with
  | [] => simp [Spec.turningPoints]
  | s0 :: tl =>
    intro p hp
    simp only [Spec.turningPoints, List.mem_cons, List.mem_append, List.not_mem_nil, or_false] at hp
    rcases hp with (rfl | hp) | rfl
    · simp
    · simp only [Spec.reversals, List.mem_map, List.mem_filter, List.mem_range] at hp
      obtain ⟨i, ⟨hi, _⟩, rfl⟩ := hp
      simp [List.getElem?_eq_getElem hi]
    · simp [List.getLast!_eq_getLast?_getD, List.getLast?_eq_getElem?]

theorem fourPoint_index_valid (s : List Int) (h : 2 ≤ s.length) :
    ∀ p ∈ ((fpRun [s]).cycles.flatMap fun c => [c.1, c.2]) ++ residualPts (fpRun [s]), s[p.1]? = some p.2 := by
  intro p hp
  exact turningPoints_index_valid s p ((fourPoint_partition s h).mem_iff.mp hp)

/-! Non-vacuity / sanity examples -/

example : findTurns [0, 3, 3, 1, 1, 4, 2, 2] = [(1, 3), (3, 1), (5, 4)] := by decide
example : Spec.turningPoints [0, 3, 3, 1, 1, 4, 2, 2] = [(0, 0), (1, 3), (3, 1), (5, 4), (7, 2)] := by
  decide
example : (fpRun [[0, 5, 2, 4, 1, 6, 0]]).cycles = [((2, 2), (3, 4)), ((1, 5), (4, 1))] := by
  simp [fpRun, fpProcess, newTurns, findTurns, findTurnsAux, fpFeed, fpPush, fpClose, sgn, absDiff]

/-- the hypotheses of (3)-(5) are satisfiable on a signal with plateaus and nested cycles -/
example : 2 ≤ ([0, 5, 5, 2, 4, 4, 1, 6, 6, 0] : List Int).length := by decide
example := fourPoint_eq_spec [0, 5, 5, 2, 4, 4, 1, 6, 6, 0] (by decide)
example := fourPoint_partition [0, 5, 5, 2, 4, 4, 1, 6, 6, 0] (by decide)
example := fourPoint_index_valid [0, 5, 5, 2, 4, 4, 1, 6, 6, 0] (by decide)

end PylifeVerif.C02

section AxiomCheck
open PylifeVerif.C02
#print axioms findTurns_eq_reversals
#print axioms fourPoint_eq_spec
#print axioms fourPoint_partition
#print axioms fourPoint_index_valid
end AxiomCheck
