/-
C04: non-reversal samples do not change what the FKM-nonlinear HCM detector records
(`twoPassR` on one-point load sequences).

Proof idea (helpers in `Proofs/Lemmas/HCMInsert.lean`):
* Part H – for a one-point sequence the HCM loop only sees the VALUES of the turning points that
  `newTurns` hands to it in the two passes (`twoPass_one`): the records are a function of
  `fedI (trimI s)`.
* Part T – inserting a non-reversal sample moves the turning points of the (doubled) sequence by a
  known index map (`findTurns_ins`), hence the trimmed sequences are equal or related by the same
  insertion (`trim_ins`), the flush flag is unchanged (`flush_ins`) and the fed values are unchanged
  (`fed_ins`).  A non-reversal sample appended at the end is trimmed away
  (`trim_append_of_idxf`); constant sequences record nothing (`const_twoPass`).
-/
import Proofs.Lemmas.HCMInsert
import Proofs.C04Basic

namespace PylifeVerif
open HCM Rainflow
namespace C04
open HCM.Insert

/-- the records of `twoPassR` on a one-point sequence are those of the HCM loop on the fed values -/
theorem twoPass_recs (law : Law) (s : List Int) (hs : s ≠ []) :
    (twoPassR law (one s)).recs =
      (feed law (feed law {} 1 (one (fedI (trimI s)).1)) 1 (one (fedI (trimI s)).2)).recs := by
  have hc : (twoPassR law (one s)).recs = (core (twoPassR law (one s))).recs := rfl
  rw [hc, twoPass_one law s (trimI_ne_nil s hs)]

theorem recs_of_fed (law : Law) (s s0 : List Int) (hs : s ≠ []) (hs0 : s0 ≠ [])
    (h : fedI (trimI s) = fedI (trimI s0)) :
    (twoPassR law (one s)).recs = (twoPassR law (one s0)).recs := by
  rw [twoPass_recs law s hs, twoPass_recs law s0 hs0, h]

/-- insertion of a repetition or of a strictly intermediate value in front of a non-empty rest -/
theorem recs_of_ins (law : Law) (A B : List Int) (v : Int) (h : InsOK A v B) (hB : B ≠ []) :
    (twoPassR law (one (A ++ v :: B))).recs = (twoPassR law (one (A ++ B))).recs := by
  apply recs_of_fed law _ _ (by simp) (by simp [hB])
  rcases trim_ins A B v h hB with h1 | ⟨B1, hB1, h1, h2, h3⟩
  · rw [h1]
  · rw [h1, h2, fed_ins A B1 v h3 hB1]

/-- a non-reversal sample at the end of a non-constant sequence is trimmed away -/
theorem recs_of_append (law : Law) (s : List Int) (v : Int) (hs : s ≠ [])
    (h : idxf (s ++ [v]) = idxf s) (hne : idxf s ≠ []) :
    (twoPassR law (one (s ++ [v]))).recs = (twoPassR law (one s)).recs := by
  apply recs_of_fed law _ _ (by simp) hs
  rw [trim_append_of_idxf s v h hne]

theorem idxf_ne_nil' (s : List Int) (h : ∃ p ∈ s, ∃ q ∈ s, p ≠ q) : idxf s ≠ [] := by
  obtain ⟨p, hp, q, hq, hpq⟩ := h
  cases s with
  | nil => simp at hp
  | cons a s' =>
    apply idxf_ne_nil
    by_cases hpa : p = a
    · refine ⟨q, ?_, fun h => hpq (by rw [hpa, h])⟩
      rcases List.mem_cons.mp hq with h | h
      · exact absurd (by rw [hpa, h]) hpq
      · exact h
    · refine ⟨p, ?_, hpa⟩
      rcases List.mem_cons.mp hp with h | h
      · exact absurd h hpa
      · exact h

/-- A sample lying (weakly) between its neighbours changes nothing that is recorded. -/
theorem hcm_insert_nonreversal_interior (law : Law) (pre post : List Int) (x y v : Int)
    (hv : (x ≤ v ∧ v ≤ y) ∨ (y ≤ v ∧ v ≤ x)) :
    (twoPassR law (one (pre ++ x :: v :: y :: post))).recs = (twoPassR law (one (pre ++ x :: y :: post))).recs := by
  have e1 : pre ++ x :: v :: y :: post = (pre ++ [x]) ++ v :: (y :: post) := by simp
  have e0 : pre ++ x :: y :: post = (pre ++ [x]) ++ (y :: post) := by simp
  have hl : (pre ++ [x]).getLast? = some x := by simp
  by_cases hvx : v = x
  · -- a repetition of `x`
    rw [e1, e0]
    exact recs_of_ins law _ _ v ⟨x, hl, Or.inl hvx⟩ (by simp)
  · by_cases hvy : v = y
    · -- a repetition of `y`
      subst hvy
      have e1' : pre ++ x :: v :: v :: post = (pre ++ [x, v]) ++ v :: post := by simp
      have e0' : pre ++ x :: v :: post = (pre ++ [x, v]) ++ post := by simp
      have hl' : (pre ++ [x, v]).getLast? = some v := by
        rw [List.getLast?_append_of_ne_nil _ (by simp)]; rfl
      rw [e1', e0']
      by_cases hp : post = []
      · subst hp
        rw [List.append_nil]
        refine recs_of_append law _ v (by simp) (idxf_dup_end _ v hl') (idxf_ne_nil' _ ?_)
        exact ⟨x, by simp, v, by simp, fun h => hvx h.symm⟩
      · exact recs_of_ins law _ _ v ⟨v, hl', Or.inl rfl⟩ hp
    · -- strictly between
      rw [e1, e0]
      refine recs_of_ins law _ _ v ⟨x, hl, Or.inr ⟨y, post, rfl, ?_⟩⟩ (by simp)
      omega

/-- A sample appended at the end that lies between the last and the first sample (a non-reversal
at the junction of the passes; a repetition of the first sample would itself be the reversal) changes
nothing that is recorded. -/
theorem hcm_append_nonreversal (law : Law) (s : List Int) (a z v : Int) (hs : s.head? = some a) (hz : s.getLast? = some z)
    (hv : (a ≤ v ∧ v ≤ z) ∨ (z ≤ v ∧ v ≤ a)) (hne : v ≠ a ∨ v = z) :
    (twoPassR law (one (s ++ [v]))).recs = (twoPassR law (one s)).recs := by
  cases s with
  | nil => simp at hs
  | cons a' s' =>
    have ha : a' = a := by simpa using hs
    subst ha
    have hzm : z ∈ a' :: s' := List.mem_of_getLast? hz
    by_cases hvz : v = z
    · subst hvz
      by_cases hc : ∃ x ∈ s', x ≠ a'
      · exact recs_of_append law _ v (by simp) (idxf_dup_end _ v hz) (idxf_ne_nil a' s' hc)
      · -- constant sequence: nothing is recorded at all
        have hall : ∀ x ∈ s', x = a' := fun x hx =>
          Classical.byContradiction fun hx' => hc ⟨x, hx, hx'⟩
        have hva : v = a' := by
          rcases List.mem_cons.mp hzm with h | h
          · exact h
          · exact hall v h
        have e0 : a' :: s' = List.replicate (s'.length + 1) a' := by
          rw [List.eq_replicate_iff]
          exact ⟨by simp, fun b hb => by
            rcases List.mem_cons.mp hb with h | h
            · exact h
            · exact hall b h⟩
        have e1 : (a' :: s') ++ [v] = List.replicate (s'.length + 2) a' := by
          rw [List.eq_replicate_iff]
          refine ⟨by simp, fun b hb => ?_⟩
          rcases List.mem_append.mp hb with h | h
          · rcases List.mem_cons.mp h with h | h
            · exact h
            · exact hall b h
          · rw [List.mem_singleton.mp h, hva]
        rw [e1, e0, const_twoPass law _ a' (by omega), const_twoPass law _ a' (by omega)]
    · -- strictly between the last and the first sample
      have hva : v ≠ a' := by
        rcases hne with h | h
        · exact h
        · exact absurd h hvz
      have hst : (z < v ∧ v < a') ∨ (a' < v ∧ v < z) := by omega
      have hza : z ≠ a' := by omega
      refine recs_of_append law _ v (by simp) (idxf_strict_end a' s' z v hz hst)
        (idxf_ne_nil a' s' ⟨z, ?_, hza⟩)
      rcases List.mem_cons.mp hzm with h | h
      · exact absurd h hza
      · exact h

end C04

/-! ### non-vacuity / sanity instances -/

-- interior insertion: the three kinds (repetition of `x`, of `y`, strictly between)
example : (twoPassR lawSat (C04.one ([0, 100] ++ 300 :: 200 :: 100 :: [-200, 50]))).recs =
    (twoPassR lawSat (C04.one ([0, 100] ++ 300 :: 100 :: [-200, 50]))).recs :=
  C04.hcm_insert_nonreversal_interior lawSat [0, 100] [-200, 50] 300 100 200 (by decide)
example : (twoPassR lawLinear (C04.one ([0, 100] ++ 300 :: 200 :: 100 :: [-200, 50]))).recs ≠ [] := by
  decide +kernel
-- append: strictly between last (50) and first (200) sample; and a repetition of the last sample
example : (twoPassR lawSat (C04.one ([200, -100, 300, 50] ++ [100]))).recs =
    (twoPassR lawSat (C04.one [200, -100, 300, 50])).recs :=
  C04.hcm_append_nonreversal lawSat [200, -100, 300, 50] 200 50 100 rfl rfl (by decide) (by decide)
example : (twoPassR lawLinear (C04.one ([200, -100, 300, 50] ++ [100]))).recs ≠ [] := by decide +kernel
-- the key index lemma on an example
example : findTurns ([1, 3] ++ 2 :: [1, 4, 0]) =
    (findTurns ([1, 3] ++ [1, 4, 0])).map (HCM.Insert.bump 2) := by decide

end PylifeVerif

#print axioms PylifeVerif.C04.hcm_insert_nonreversal_interior
#print axioms PylifeVerif.C04.hcm_append_nonreversal
