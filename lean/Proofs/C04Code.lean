/-
C04 / C05 for the CODE model `twoPass` (first-run flush flag from `findTurns (reps ++ reps)`), as
opposed to the repaired variant `twoPassR` about which `C04Basic`, `C04Pass2`, `C05Mirror` speak.
-/
import Proofs.Lemmas.HCMCode
import Proofs.C04Basic
import Proofs.C04Pass2
import Proofs.C05Mirror

namespace PylifeVerif
open HCM Rainflow
namespace C04

/-- the code's first run flushes, i.e. is fed the last sample of the trimmed sequence -/
def FirstRunFlushes (s : List Vec) : Prop := (adjustFirstRun (dropTrailingNonReversals s)).2 = true

instance (s : List Vec) : Decidable (FirstRunFlushes s) := by
  unfold FirstRunFlushes; infer_instance

/-- When the code's first run flushes, the code and the repaired variant coincide. -/
theorem twoPass_eq_twoPassR (law : Law) (s : List Vec) (h2 : TwoDistinct (s.map rep))
    (hf : FirstRunFlushes s) : twoPass law s = twoPassR law s := by
  have hR := flush_of_twoDistinct s h2
  unfold FirstRunFlushes at hf
  rw [Code.twoPass_code_eq, twoPass_eq, hf, hR, Code.adjust_fst_eq]

/-- Half-counted (Memory 3) hystereses are symmetric about zero and carry the zero-mean flag;
closed ones do not (code model). -/
theorem memory3_symmetric_code (law : Law) (s : List Vec) :
    ∀ h ∈ (twoPass law s).recs,
      (h.closed = false → h.zeroMean = true ∧ h.loadMin = vneg h.loadMax ∧ h.sMin = vneg h.sMax ∧ h.eMin = vneg h.eMax) ∧
      (h.closed = true → h.zeroMean = false) := by
  rw [Code.twoPass_code_eq]
  have p1 := process_recs law RecOK {} (adjustFirstRun (dropTrailingNonReversals s)).1
    (adjustFirstRun (dropTrailingNonReversals s)).2
    (fun _ st' prev _ => recOK_half st' prev) (fun st' p0 p1 _ => recOK_closed st' p0 p1)
    (by intro h hh; simp at hh)
  have p2 := process_recs law RecOK _ (dropTrailingNonReversals s) true
    (fun _ st' prev _ => recOK_half st' prev) (fun st' p0 p1 _ => recOK_closed st' p0 p1) p1.2.2.2
  exact p2.2.2.2

/-- If the first pass (flushing or not) is fed, for every sample of the zero-prefixed sequence, a load
at least as large in absolute value, then the second pass records closed hystereses only. -/
theorem pass2_closed_of_dom (law : Law) (s' : List Vec) (z : Vec) (flush : Bool)
    (hdom : ∀ x ∈ (z :: s').map rep, ∃ load ∈ procLoads {} (z :: s') flush,
      x.natAbs ≤ (rep load).natAbs) :
    ∀ h ∈ (process law (process law {} (z :: s') flush) s' true).recs, h.run = 2 → h.closed = true := by
  have p1 := process_recs law Pass2Closed {} (z :: s') flush
    (fun _ st' prev hr => by intro h2; simp [halfHyst, hr] at h2)
    (fun st' p0 p1 _ => by intro _; rfl)
    (by intro h hh; simp at hh)
  obtain ⟨r1, _, d1, q1⟩ := p1
  have hdom' : ∀ x ∈ (z :: s').map rep,
      x.natAbs ≤ (process law {} (z :: s') flush).loadMax := by
    intro x hx
    obtain ⟨load, hl, hle⟩ := hdom x hx
    exact Nat.le_trans hle (d1 load hl)
  have hls : (process law {} (z :: s') flush).lastSample ∈ z :: s' := by
    rw [process_lastSample, List.getLastD_cons]
    cases hs : s' with
    | nil => simp
    | cons a l =>
      rw [List.getLastD_eq_getLast?, List.getLast?_eq_some_getLast (List.cons_ne_nil _ _)]
      exact List.mem_cons_of_mem _ (List.getLast_mem _)
  have hno : ¬ ∃ load ∈ procLoads (process law {} (z :: s') flush) s' true,
      (rep load).natAbs > (process law {} (z :: s') flush).loadMax := by
    rintro ⟨load, hl, hgt⟩
    rcases procLoads_mem _ _ _ load hl with h | h | h
    · have := hdom' (rep load) (List.mem_map.mpr ⟨load, by rw [h]; exact hls, rfl⟩)
      omega
    · have := hdom' (rep load) (List.mem_map.mpr ⟨load, List.mem_cons_of_mem _ h, rfl⟩)
      omega
    · rw [h] at hgt; simp [rep] at hgt
  have p2 := process_recs law Pass2Closed (process law {} (z :: s') flush) s' true
    (fun hex => absurd hex hno) (fun st' p0 p1 _ => by intro _; rfl) q1
  exact p2.2.2.2

/-- Memory 3 occurs only in the first pass: every hysteresis of pass 2 is a full one (code model,
whether or not the first run flushes). -/
theorem pass2_all_closed_code (law : Law) (s : List Vec) (h2 : TwoDistinct (s.map rep)) :
    ∀ h ∈ (twoPass law s).recs, h.run = 2 → h.closed = true := by
  have hR := flush_of_twoDistinct s h2
  rw [Code.twoPass_code_eq, Code.adjust_code_fst]
  generalize hs' : dropTrailingNonReversals s = s' at hR ⊢
  generalize hz : List.replicate (s'.headD []).length (0 : Int) = z
  have hz0 : rep z = 0 := by rw [← hz]; exact rep_replicate_zero _
  apply pass2_closed_of_dom
  cases hC : (adjustFirstRun s').2 with
  | true => exact pass1_dominates s' z hz0
  | false =>
    intro x hx
    simp only [List.map_cons, hz0] at hx
    obtain ⟨p, hp, hle⟩ := Code.code_noflush_dominated s' hR hC x hx
    have hl := Code.procLoads_init_noflush (z :: s') (List.cons_ne_nil _ _)
    simp only [List.map_cons, hz0] at hl
    have : p.2 ∈ (procLoads {} (z :: s') false).map rep := by
      rw [hl]; exact List.mem_map.mpr ⟨p, hp, rfl⟩
    obtain ⟨load, hload, hr⟩ := List.mem_map.mp this
    exact ⟨load, hload, by rw [hr]; exact hle⟩

/-- The hystereses of the second pass are exactly the closed cycles of the endlessly repeated
sequence, each once - for the code model under the hypothesis that its first run flushes. -/
theorem pass2_eq_periodicRainflow_partial (law : Law) (s : List Int) (h2 : TwoDistinct s)
    (hf : FirstRunFlushes (one s)) :
    (pass2Ranges (twoPass law (one s))).Perm (Spec.periodicRainflow s) := by
  have h2' : TwoDistinct ((one s).map rep) := by
    have : (one s).map rep = s := by
      simp [one, List.map_map, Function.comp_def, rep]
    rw [this]; exact h2
  rw [twoPass_eq_twoPassR law (one s) h2' hf]
  exact pass2_eq_periodicRainflow law s h2

/-- Without the hypothesis the statement is false for the code: the deferred last sample produces an
extra closed hysteresis in pass 2 (open finding `first-run-defers-last-sample`). -/
theorem pass2_eq_periodicRainflow_fails_at_witness :
    ¬ (pass2Ranges (twoPass lawLinear (one [500,200,400,100]))).Perm
        (Spec.periodicRainflow [500,200,400,100]) := by decide +kernel

/-- `FirstRunFlushes` holds on a non-trivial sequence and fails at the witness -/
example : FirstRunFlushes (one [100, -200, 0, 200, -100, 100]) ∧
    ¬ FirstRunFlushes (one [500, 200, 400, 100]) := by decide +kernel

/-- the unguarded theorems apply at the non-flushing witness (two distinct values, flag false) -/
example : ∀ h ∈ (twoPass lawLinear (one [500, 200, 400, 100])).recs, h.run = 2 → h.closed = true :=
  pass2_all_closed_code lawLinear _ ⟨500, by decide, 200, by decide, by decide⟩

end C04

namespace C05

theorem adjustFirstRun_code_neg (s : List Vec) :
    adjustFirstRun (s.map vneg) = ((adjustFirstRun s).1.map vneg, (adjustFirstRun s).2) := by
  unfold adjustFirstRun
  have hl : ((s.map vneg).headD []).length = (s.headD []).length := by
    cases s <;> simp [length_vneg]
  have h0 : List.replicate (s.headD []).length (0 : Int) :: s.map vneg =
      (List.replicate (s.headD []).length (0 : Int) :: s).map vneg := by
    simp [vneg_replicate_zero]
  simp only [hl, h0, rep_map_vneg, ← List.map_append, findTurns_neg_idx, List.length_map]

/-- **C05, negation mirror, code model** (unguarded).  In both passes consecutive fed turning points
have different first-node loads, whether or not the first run flushes; only the very last turning
point of pass 2 may tie with its predecessor, which is harmless (`process_neg_weak`). -/
theorem hcm_neg_mirror_code (law : Law) (ho : OddLaw law) (s : List Vec) :
    (twoPass law (s.map vneg)).recs = (twoPass law s).recs.map mirror ∧
    (twoPass law (s.map vneg)).strainValues = (twoPass law s).strainValues.map (- ·) := by
  have chains : ChainNe 0 (procLoads {} (adjustFirstRun (dropTrailingNonReversals s)).1
        (adjustFirstRun (dropTrailingNonReversals s)).2) ∧
      ChainNe (process law {} (adjustFirstRun (dropTrailingNonReversals s)).1
          (adjustFirstRun (dropTrailingNonReversals s)).2).prevLoad
        (procLoads (process law {} (adjustFirstRun (dropTrailingNonReversals s)).1
          (adjustFirstRun (dropTrailingNonReversals s)).2) (dropTrailingNonReversals s) true).dropLast := by
    rw [chainNe_iff, chainNe_iff, List.map_dropLast]
    cases hf : (adjustFirstRun (dropTrailingNonReversals s)).2 with
    | true => exact Code.chains_of_code_flush law _ hf
    | false => exact Code.chains_of_code_noflush law _
  rw [Code.twoPass_code_eq, Code.twoPass_code_eq, dropTrailing_neg, adjustFirstRun_code_neg]
  have h1 := process_neg ho {} _ _ chains.1
  rw [negSt_init] at h1
  simp only [h1]
  exact process_neg_weak ho _ _ true chains.2

end C05
end PylifeVerif
