/-
C20 — VMAP export followed by import returns the same mesh and fields; reading is repeatable; filtering by
a stored set returns exactly its members; a failed export leaves no partial geometry or variable; a valid
export succeeds; identifiers outside int32 are refused; stored element types follow the table; variables,
groups and sets persist; the importer's join steps hold on any session state.

The theorems are about the model `Model/Vmap.lean` of `VMAPExport` / `VMAPImport` (abstract file; HDF5 is a
store that returns what was written; ids are the integers the format stores).  `byElement rows` is the frame
ordered by element id with the row order inside every element kept; `roundtrip_mesh` proves exactly that
characterisation, so the later theorems can state "the frame read back is `byElement` of the exported frame".
A *valid mesh frame* has pairwise distinct (element_id, node_id) pairs (`(rows.map Row.key).Nodup`); the
hypothesis is stated where it is used.  Meshes with a collapsed element (a node repeated in one element's connectivity) have
non-distinct keys: they are NOT covered by the element nodal theorems (nor by pyLife's own importer, whose joins multiply such
rows); what the exporter writes for them is checked on the file by the harness only.

What the proofs add and what they do not.  Proof content: the stable-sort characterisation of the read-back order
(`byElement_sorted/_filter/_perm`), the importer's mesh index = the exported connectivity (`meshIndex_connectivity`),
the alignment of element nodal values with the rebuilt index: the importer's `varIndex` is the exporter's target order
`enTarget` because the element ids of an exported geometry are distinct (`varIndex_eq_enTarget`, `filter_blocks`), the target
order is the geometry's mesh index for EVERY row order of the variable's frame (`enTarget_any_row_order`), and a key finds its
own row under distinct keys (`rowAt_of_mem`, `rowAt_own`); `firstValid` on a per-node constant column
(`node_value_is_own_cells`), the success theorems (`addGeometry_succeeds`, `addVariable_succeeds`, … : every check of the model
passes for a valid call; the verdict does not depend on earlier calls) and the persistence / step theorems (a stored variable
or set is read back after any later history, by any chain shape).  Near-definitional: `import_repeatable` (make_mesh overwrites
the whole session), the `failed_*` / `refused_*` theorems (the model's error branches return the file they were given / delete
the group they appended) and the `filter_*` theorems (look-up of an appended set).  For those clauses the tie to the real code
is the correspondence check and the oracle (dump of the whole HDF5 file before/after every failing call, including storage
failures injected after data were written), not the proof.
-/
import Proofs.Lemmas.Vmap

set_option linter.unusedSimpArgs false

namespace PylifeVerif.C20
open PylifeVerif.Vmap

variable {V : Type}

/-- **Round trip of the mesh.**  After a successful `add_geometry(name, frame)`, `make_mesh(name).to_frame()`
on any importer state returns the rows of the frame ordered by element id (3rd line), with the node order of
every element preserved (4th line); nothing is lost or duplicated (5th line). -/
theorem roundtrip_mesh [Cell V] (f : File V) (name : String) (fr : Frame V)
    (h : (addGeometry f name fr).2 = none) (s : Session V) (st : Option String) :
    (readFrame (addGeometry f name fr).1 s [.makeMesh name st]).2
        = .ok ([], (byElement fr.rows).map (fun r => (r.key, []))) ∧
      (byElement fr.rows).Pairwise (fun a b => a.eid ≤ b.eid) ∧
      (∀ e, (byElement fr.rows).filter (fun r => r.eid == e) = fr.rows.filter (fun r => r.eid == e)) ∧
      (byElement fr.rows).Perm fr.rows := by
  obtain ⟨_, g, idx, hg, hx, _⟩ := addGeometry_ok h
  refine ⟨?_, byElement_sorted _, fun e => byElement_filter _ e, byElement_perm _⟩
  simp [readFrame, runChain, impStep, hg, toFrame, hx.mesh, List.map_map, Function.comp_def]

theorem coordAt_exported [Cell V] {g : Geometry V} {fr : Frame V} {idx : List Nat} (hx : ExportedFrom g fr idx)
    {n : Int} (hn : n ∈ nodeIds fr) : coordAt g n = some (nodeValue fr.rows idx n) := by
  unfold coordAt
  rw [hx.coords, lookup_zip_map, hx.ids, if_pos hn]

theorem nid_mem_nodeIds {fr : Frame V} {r : Row V} (hr : r ∈ fr.rows) : r.nid ∈ nodeIds fr :=
  mem_sortU.2 (List.mem_map_of_mem hr)

/-- **Round trip of the coordinates.**  `make_mesh(name).join_coordinates().to_frame()` returns, for every
exported row (ordered as in `roundtrip_mesh`), the coordinate cells stored for its node
(`groupby('node_id').first()`: per column the first non-missing cell of the node's rows), under the column
labels the exporter found (x, y and z if present). -/
theorem roundtrip_coordinates [Cell V] (f : File V) (name : String) (fr : Frame V)
    (h : (addGeometry f name fr).2 = none) (s : Session V) (st : Option String) :
    ∃ idx, colIdx fr.cols (coordNames fr) = some idx ∧
      (readFrame (addGeometry f name fr).1 s [.makeMesh name st, .joinCoords]).2
        = .ok (coordNames fr,
            (byElement fr.rows).map (fun r => (r.key, (nodeValue fr.rows idx r.nid).map some))) := by
  obtain ⟨_, g, idx, hg, hx, _⟩ := addGeometry_ok h
  refine ⟨idx, hx.cidx, ?_⟩
  simp [readFrame, runChain, impStep, hg, toFrame, joinBlock, hx.mesh, hx.ncoord, List.map_map, Function.comp_def]
  intro a ha
  have hc := coordAt_exported hx (nid_mem_nodeIds (mem_byElement.1 ha))
  simp only [Row.key]
  rw [hc]; rfl

/-- For a nodal field (every selected column has the same cell in all rows of a node) the value stored for a node is
every one of its rows' own cells. -/
theorem node_value_is_own_cells [Cell V] (rows : List (Row V)) (idx : List Nat)
    (hcons : ∀ r ∈ rows, ∀ r' ∈ rows, r.nid = r'.nid → ∀ i ∈ idx, r.vals[i]? = r'.vals[i]?)
    {r : Row V} (hr : r ∈ rows) : nodeValue rows idx r.nid = selRow idx r := by
  unfold nodeValue selRow
  apply List.filterMap_congr
  intro i hi
  unfold nodeCell
  have hall : ∀ r' ∈ nodeRows rows r.nid, r'.vals[i]? = r.vals[i]? := by
    intro r' hr'
    unfold nodeRows at hr'
    rw [List.mem_filter] at hr'
    exact hcons r' hr'.1 r hr (by simpa using hr'.2) i hi
  have hmem : r ∈ nodeRows rows r.nid := by
    unfold nodeRows
    rw [List.mem_filter]
    exact ⟨hr, by simp⟩
  cases hc : r.vals[i]? with
  | none =>
    have : (nodeRows rows r.nid).filterMap (fun r => r.vals[i]?) = [] := by
      rw [List.filterMap_eq_nil_iff]
      intro r' hr'
      rw [hall r' hr', hc]
    rw [this]; rfl
  | some c =>
    apply firstValid_const
    · intro hnil
      rw [List.filterMap_eq_nil_iff] at hnil
      have := hnil r hmem
      rw [hc] at this
      cases this
    · intro x hx
      rw [List.mem_filterMap] at hx
      obtain ⟨r', hr', hx⟩ := hx
      rw [hall r' hr', hc] at hx
      exact (Option.some.inj hx).symm

/-! ### Step theorems: one importer call on ANY session state -/

/-- join_coordinates on ANY session state of geometry `geom` (after filters, after other joins): every mesh row gets the
coordinates stored for its node. -/
theorem joinCoords_step [Cell V] (f : File V) (geom : String) (g : Geometry V) (fr : Frame V) (cidx : List Nat)
    (hg : f.geoms.lookup geom = some g) (hx : ExportedFrom g fr cidx)
    (s : Session V) (labels : List String) (rows : MeshRows V) (hs : s.mesh = some (labels, rows)) (hgeo : s.geometry = geom)
    (hdisj : (coordNames fr).any (fun l => labels.contains l) = false)
    (hrows : ∀ r ∈ rows, r.1.2 ∈ nodeIds fr) :
    impStep f s .joinCoords = ({ s with mesh := some (labels ++ coordNames fr,
        rows.map (fun r => (r.1, r.2 ++ (nodeValue fr.rows cidx r.1.2).map some))) }, none) := by
  subst hgeo
  have hmap : rows.map (fun r => (r.1, r.2 ++ cellsOf g.ncoord (coordAt g r.1.2)))
      = rows.map (fun r => (r.1, r.2 ++ (nodeValue fr.rows cidx r.1.2).map some)) := by
    apply List.map_congr_left
    intro r hr
    rw [coordAt_exported hx (hrows r hr)]
    rfl
  simp only [impStep, hs, hg, joinBlock, hx.ncoord, hdisj, Bool.false_eq_true, if_false, hmap]

/-- join_variable of a NODE variable stored earlier from `fr` (any calls may have followed), on any session state of that
geometry.  The stored record in `hv` is `buildVariable 2 g' fr idx` for every geometry `g'` (`buildVariable_two`). -/
theorem joinVar_step_node_stored [Cell V] (f : File V) (state geom var : String) (fr : Frame V) (idx : List Nat)
    (g : Geometry V) (hg : f.geoms.lookup geom = some g)
    (hv : f.vars.lookup (state, geom, var)
      = some ⟨2, idx.length, nodeIds fr, (nodeIds fr).map (nodeValue fr.rows idx)⟩) (hgrp : (state, geom) ∈ f.groups)
    (s : Session V) (labels : List String) (rows : MeshRows V) (hs : s.mesh = some (labels, rows)) (hgeo : s.geometry = geom)
    (st : Option String) (hst : pickState st s.state = some state) (newLabels : List String)
    (hdisj : newLabels.any (fun l => labels.contains l) = false) (hlen : newLabels.length = idx.length) :
    impStep f s (.joinVar var st (some newLabels))
      = ({ s with state := some state, mesh := some (labels ++ newLabels, rows.map (fun r => (r.1, r.2 ++
          cellsOf idx.length (if r.1.2 ∈ nodeIds fr then some (nodeValue fr.rows idx r.1.2) else none)))) }, none) := by
  subst hgeo
  have hgrp' : f.groups.contains (state, s.geometry) = true := by simpa using hgrp
  have hne : ¬ (newLabels.length ≠ idx.length) := by simp [hlen]
  have hne2 : ¬ ((List.map (fun n => ((0 : Int), n)) (nodeIds fr)).length
      ≠ (List.map (nodeValue fr.rows idx) (nodeIds fr)).length) := by simp
  have hmap : rows.map (fun r => (r.1, r.2 ++ cellsOf idx.length
        (((nodeIds fr).zip ((nodeIds fr).map (nodeValue fr.rows idx))).lookup r.1.2)))
      = rows.map (fun r => (r.1, r.2 ++
          cellsOf idx.length (if r.1.2 ∈ nodeIds fr then some (nodeValue fr.rows idx r.1.2) else none))) := by
    apply List.map_congr_left
    intro r _
    rw [lookup_zip_map]
  simp only [impStep, hs, hst, hg, hgrp', Bool.not_true, Bool.false_eq_true, if_false, resolveCols, hv,
    if_true, hne, hne2, joinBlock, hdisj, varAt, hmap]

/-- the same for an ELEMENT_NODAL variable stored from a frame `vfr` (any row order; it may differ from the geometry's
frame `fr`): a mesh row whose (element, node) key is one of the stored pairs of the elements occurring in `vfr`
(`enTarget g vfr`) gets the cells of THE ROW OF `vfr` WITH THAT KEY; other mesh rows get NaN cells. -/
theorem joinVar_step_element_nodal_stored [Cell V] (f : File V) (state geom var : String) (fr vfr : Frame V)
    (idx : List Nat) (g : Geometry V) (cidx : List Nat) (v : Variable V)
    (hg : f.geoms.lookup geom = some g) (hx : ExportedFrom g fr cidx)
    (hb : buildVariable 6 g vfr idx = some v)
    (hv : f.vars.lookup (state, geom, var) = some v) (hgrp : (state, geom) ∈ f.groups)
    (s : Session V) (labels : List String) (rows : MeshRows V) (hs : s.mesh = some (labels, rows)) (hgeo : s.geometry = geom)
    (st : Option String) (hst : pickState st s.state = some state) (newLabels : List String)
    (hdisj : newLabels.any (fun l => labels.contains l) = false) (hlen : newLabels.length = idx.length) :
    impStep f s (.joinVar var st (some newLabels))
      = ({ s with state := some state, mesh := some (labels ++ newLabels, rows.map (fun r => (r.1, r.2 ++
          cellsOf idx.length (if r.1 ∈ enTarget g vfr then (rowAt vfr.rows r.1).map (selRow idx) else none)))) },
         none) := by
  subst hgeo
  obtain ⟨rfl, _, hsub, _⟩ := buildVariable_six_some hb
  have hgrp' : f.groups.contains (state, s.geometry) = true := by simpa using hgrp
  have hne : ¬ (newLabels.length ≠ idx.length) := by simp [hlen]
  have hsome : ∀ k ∈ enTarget g vfr, ((rowAt vfr.rows k).map (selRow idx)).isSome = true := by
    intro k hk
    obtain ⟨r, hr, _⟩ := rowAt_of_mem (hsub k hk)
    rw [hr]; rfl
  -- the index the importer rebuilds is the order in which the exporter wrote the values
  have hidx : varIndex g ⟨6, idx.length, (enElements g vfr).map (·.1),
        (enTarget g vfr).filterMap (fun k => (rowAt vfr.rows k).map (selRow idx))⟩ = enTarget g vfr :=
    varIndex_eq_enTarget g vfr _ (exported_elem_ids_nodup hx) rfl
  have hne2 : ¬ ((enTarget g vfr).length
      ≠ ((enTarget g vfr).filterMap (fun k => (rowAt vfr.rows k).map (selRow idx))).length) := by
    rw [length_filterMap_of_isSome _ _ hsome]; simp
  have h62 : ¬ ((6 : Nat) = 2) := by decide
  have hmap : rows.map (fun r => (r.1, r.2 ++ cellsOf idx.length
        (((enTarget g vfr).zip ((enTarget g vfr).filterMap (fun k => (rowAt vfr.rows k).map (selRow idx)))).lookup r.1)))
      = rows.map (fun r => (r.1, r.2 ++
          cellsOf idx.length (if r.1 ∈ enTarget g vfr then (rowAt vfr.rows r.1).map (selRow idx) else none))) := by
    apply List.map_congr_left
    intro r _
    rw [lookup_zip_filterMap _ _ hsome]
  simp only [impStep, hs, hst, hg, hgrp', Bool.not_true, Bool.false_eq_true, if_false, resolveCols, hv,
    h62, hne, hidx, hne2, joinBlock, hdisj, varAt, hmap]

/-- **The stored order does not depend on the row order of the variable's frame**: when the keys of `vfr` are a
rearrangement of the keys of the geometry's frame `fr`, the (element, node) pairs the values are written for are the mesh
index of the geometry (`roundtrip_mesh`), whatever the order of `vfr`'s rows. -/
theorem enTarget_any_row_order [Cell V] (g : Geometry V) (fr vfr : Frame V) (cidx : List Nat) (hx : ExportedFrom g fr cidx)
    (hperm : (vfr.rows.map Row.key).Perm (fr.rows.map Row.key)) :
    enTarget g vfr = (byElement fr.rows).map Row.key ∧ enTarget g vfr = meshIndex g := by
  have h := (enTarget_of_covering hx (eids_of_keys_perm hperm)).2
  exact ⟨h, h.trans hx.mesh.symm⟩

/-- Remark to `joinVar_step_element_nodal*` and the round trip: in a frame with distinct (element, node) pairs the look-up
finds the frame row with that key. -/
theorem find_own_row {fr : Frame V} (hvalid : (fr.rows.map Row.key).Nodup) {r : Row V} (hr : r ∈ fr.rows)
    {k : Int × Int} (hk : k = r.key) : rowAt fr.rows k = some r := by
  subst hk
  exact rowAt_own hvalid hr

/-- What a successful `add_variable` leaves in the file for the step theorems. -/
theorem addVariable_stored [Cell V] (f : File V) (state geom var : String) (fr : Frame V)
    (cols : Option (List String)) (loc : Option Nat) (h : (addVariable f state geom var fr cols loc).2 = none) :
    ∃ g names l idx v, f.geoms.lookup geom = some g ∧ resolveCols var cols = some names ∧ resolveLoc var loc = some l ∧
      colIdx fr.cols names = some idx ∧ buildVariable l g fr idx = some v ∧
      (addVariable f state geom var fr cols loc).1.geoms = f.geoms ∧
      (state, geom) ∈ (addVariable f state geom var fr cols loc).1.groups ∧
      (addVariable f state geom var fr cols loc).1.vars.lookup (state, geom, var) = some v := by
  obtain ⟨g, names, l, idx, v, hg, h1, h2, _, _, h4, hb, h5, h6, h7, _⟩ := addVariable_ok h
  exact ⟨g, names, l, idx, v, hg, h1, h2, h4, hb, h5, by simpa using h6, h7⟩

/-- join_variable of a NODE variable just exported from `fr`, on any session state of that geometry. -/
theorem joinVar_step_node [Cell V] (f : File V) (state geom var : String) (fr : Frame V) (cols : Option (List String))
    (loc : Option Nat)
    (h : (addVariable f state geom var fr cols loc).2 = none) (hloc : resolveLoc var loc = some 2)
    (s : Session V) (labels : List String) (rows : MeshRows V) (hs : s.mesh = some (labels, rows)) (hgeo : s.geometry = geom)
    (st : Option String) (hst : pickState st s.state = some state) (newLabels : List String)
    (hdisj : newLabels.any (fun l => labels.contains l) = false) :
    ∃ names idx, resolveCols var cols = some names ∧ colIdx fr.cols names = some idx ∧
      (newLabels.length = names.length →
        impStep (addVariable f state geom var fr cols loc).1 s (.joinVar var st (some newLabels))
          = ({ s with state := some state, mesh := some (labels ++ newLabels, rows.map (fun r => (r.1, r.2 ++
              cellsOf idx.length (if r.1.2 ∈ nodeIds fr then some (nodeValue fr.rows idx r.1.2) else none)))) }, none)) := by
  obtain ⟨g, names, l, idx, v, hg, h1, h2, h4, hb, h5, h6, h7⟩ := addVariable_stored f state geom var fr cols loc h
  rw [hloc] at h2
  obtain rfl : 2 = l := by simpa using h2
  rw [buildVariable_two] at hb
  obtain rfl := Option.some.inj hb
  refine ⟨names, idx, h1, h4, fun hlen => ?_⟩
  exact joinVar_step_node_stored _ state geom var fr idx g (by rw [h5]; exact hg) h7 h6 s labels rows hs hgeo st hst
    newLabels hdisj (by rw [hlen, colIdx_length h4])

/-- join_variable of an ELEMENT_NODAL variable just exported from a frame `vfr` (any row order, possibly only some whole
elements of the geometry), on any session state of that geometry. -/
theorem joinVar_step_element_nodal [Cell V] (f : File V) (state geom var : String) (fr vfr : Frame V)
    (cols : Option (List String)) (loc : Option Nat) (g : Geometry V) (cidx : List Nat)
    (hg : f.geoms.lookup geom = some g) (hx : ExportedFrom g fr cidx)
    (h : (addVariable f state geom var vfr cols loc).2 = none) (hloc : resolveLoc var loc = some 6)
    (s : Session V) (labels : List String) (rows : MeshRows V) (hs : s.mesh = some (labels, rows)) (hgeo : s.geometry = geom)
    (st : Option String) (hst : pickState st s.state = some state) (newLabels : List String)
    (hdisj : newLabels.any (fun l => labels.contains l) = false) :
    ∃ names idx, resolveCols var cols = some names ∧ colIdx vfr.cols names = some idx ∧
      (newLabels.length = names.length →
        impStep (addVariable f state geom var vfr cols loc).1 s (.joinVar var st (some newLabels))
          = ({ s with state := some state, mesh := some (labels ++ newLabels, rows.map (fun r => (r.1, r.2 ++
              cellsOf idx.length (if r.1 ∈ enTarget g vfr then (rowAt vfr.rows r.1).map (selRow idx) else none)))) },
             none)) := by
  obtain ⟨g', names, l, idx, v, hg', h1, h2, h4, hb, h5, h6, h7⟩ := addVariable_stored f state geom var vfr cols loc h
  rw [hg] at hg'
  obtain rfl := Option.some.inj hg'
  rw [hloc] at h2
  obtain rfl : 6 = l := by simpa using h2
  refine ⟨names, idx, h1, h4, fun hlen => ?_⟩
  exact joinVar_step_element_nodal_stored _ state geom var fr vfr idx g cidx v (by rw [h5]; exact hg) hx hb h7 h6 s labels
    rows hs hgeo st hst newLabels hdisj (by rw [hlen, colIdx_length h4])

/-- … and when the keys of `vfr` are a rearrangement of the keys of the geometry's frame: every mesh row of the geometry
gets the cells of the row of `vfr` with its key - for ANY row order of `vfr`. -/
theorem joinVar_step_element_nodal_any_order [Cell V] (f : File V) (state geom var : String) (fr vfr : Frame V)
    (cols : Option (List String)) (loc : Option Nat) (g : Geometry V) (cidx : List Nat)
    (hperm : (vfr.rows.map Row.key).Perm (fr.rows.map Row.key))
    (hg : f.geoms.lookup geom = some g) (hx : ExportedFrom g fr cidx)
    (h : (addVariable f state geom var vfr cols loc).2 = none) (hloc : resolveLoc var loc = some 6)
    (s : Session V) (labels : List String) (rows : MeshRows V) (hs : s.mesh = some (labels, rows)) (hgeo : s.geometry = geom)
    (st : Option String) (hst : pickState st s.state = some state) (newLabels : List String)
    (hdisj : newLabels.any (fun l => labels.contains l) = false)
    (hrows : ∀ r ∈ rows, r.1 ∈ fr.rows.map Row.key) :
    ∃ names idx, resolveCols var cols = some names ∧ colIdx vfr.cols names = some idx ∧
      (newLabels.length = names.length →
        impStep (addVariable f state geom var vfr cols loc).1 s (.joinVar var st (some newLabels))
          = ({ s with state := some state, mesh := some (labels ++ newLabels, rows.map (fun r => (r.1, r.2 ++
              cellsOf idx.length ((rowAt vfr.rows r.1).map (selRow idx))))) }, none)) := by
  obtain ⟨names, idx, h1, h4, hstep⟩ := joinVar_step_element_nodal f state geom var fr vfr cols loc g cidx hg hx h hloc
    s labels rows hs hgeo st hst newLabels hdisj
  refine ⟨names, idx, h1, h4, fun hlen => ?_⟩
  rw [hstep hlen]
  congr 4
  apply List.map_congr_left
  intro r hr
  rw [if_pos]
  rw [(enTarget_any_row_order g fr vfr cidx hx hperm).1]
  have := hrows r hr
  rw [← ((byElement_perm fr.rows).map Row.key).mem_iff] at this
  exact this

/-! ### Whole reads -/

/-- **Round trip of a nodal variable.**  The geometry `geom` of the file was exported from `fr`
(`ExportedFrom`, provided by `addGeometry_ok` and kept by every later call), `add_variable` with location
NODE succeeds: reading the variable back under any column labels of the right length returns, per mesh
row, the value stored for its node (`groupby('node_id').first()`). -/
theorem roundtrip_node_variable [Cell V] (f : File V) (state geom var : String) (fr : Frame V)
    (cols : Option (List String)) (loc : Option Nat) (g : Geometry V) (cidx : List Nat)
    (hg : f.geoms.lookup geom = some g) (hx : ExportedFrom g fr cidx)
    (h : (addVariable f state geom var fr cols loc).2 = none) (hloc : resolveLoc var loc = some 2)
    (s : Session V) (labels : List String) :
    ∃ names idx, resolveCols var cols = some names ∧ colIdx fr.cols names = some idx ∧
      (labels.length = names.length →
        (readFrame (addVariable f state geom var fr cols loc).1 s
            [.makeMesh geom (some state), .joinVar var none (some labels)]).2
          = .ok (labels, (byElement fr.rows).map (fun r => (r.key, (nodeValue fr.rows idx r.nid).map some)))) := by
  obtain ⟨names, idx, h1, h4, hstep⟩ := joinVar_step_node f state geom var fr cols loc h hloc
    ⟨some ([], (meshIndex g).map (fun k => (k, []))), geom, some state⟩ [] _ rfl rfl none rfl labels (by simp)
  refine ⟨names, idx, h1, h4, fun hlen => ?_⟩
  have hg' : (addVariable f state geom var fr cols loc).1.geoms.lookup geom = some g := by
    rw [addVariable_geoms]; exact hg
  simp only [readFrame, runChain]
  rw [show impStep (addVariable f state geom var fr cols loc).1 s (.makeMesh geom (some state))
      = (⟨some ([], (meshIndex g).map (fun k => (k, []))), geom, some state⟩, none) by simp only [impStep, hg']]
  simp only [hstep hlen]
  simp only [toFrame, hx.mesh, List.map_map, Function.comp_def, List.nil_append]
  congr 2
  apply List.map_congr_left
  intro a ha
  have hm : a.key.2 ∈ nodeIds fr := nid_mem_nodeIds (mem_byElement.1 ha)
  rw [if_pos hm]
  rfl

/-- **Round trip of an element nodal variable, for ANY row order of the variable's frame.**  The geometry was exported from
`fr` (valid: distinct (element, node) pairs); the variable is exported from a frame `vfr` whose keys are a permutation of
`fr`'s keys (e.g. `fr.sort_index()`, reversed, shuffled; other columns, other values).  Reading it back returns, for every
row of the mesh (ordered as in `roundtrip_mesh`), the cells of THE ROW OF `vfr` WITH THAT (element, node) KEY
(`roundtrip_element_nodal_row_found`: there is exactly one, so no NaN block appears). -/
theorem roundtrip_element_nodal_variable [Cell V] (f : File V) (state geom var : String) (fr vfr : Frame V)
    (cols : Option (List String)) (loc : Option Nat) (g : Geometry V) (cidx : List Nat)
    (hvalid : (fr.rows.map Row.key).Nodup) (hperm : (vfr.rows.map Row.key).Perm (fr.rows.map Row.key))
    (hg : f.geoms.lookup geom = some g) (hx : ExportedFrom g fr cidx)
    (h : (addVariable f state geom var vfr cols loc).2 = none) (hloc : resolveLoc var loc = some 6)
    (s : Session V) (labels : List String) :
    ∃ names idx, resolveCols var cols = some names ∧ colIdx vfr.cols names = some idx ∧
      (labels.length = names.length →
        (readFrame (addVariable f state geom var vfr cols loc).1 s
            [.makeMesh geom (some state), .joinVar var none (some labels)]).2
          = .ok (labels, (byElement fr.rows).map (fun r =>
              (r.key, cellsOf idx.length ((rowAt vfr.rows r.key).map (selRow idx)))))) := by
  -- `hvalid` is the premise of the property; the proof does not need it (`h` and `hperm` imply it: the exporter refuses
  -- duplicate keys); it is what makes the partner row unique (`roundtrip_element_nodal_row_found`)
  have _ := hvalid
  obtain ⟨names, idx, h1, h4, hstep⟩ := joinVar_step_element_nodal f state geom var fr vfr cols loc g cidx hg hx h hloc
    ⟨some ([], (meshIndex g).map (fun k => (k, []))), geom, some state⟩ [] _ rfl rfl none rfl labels (by simp)
  refine ⟨names, idx, h1, h4, fun hlen => ?_⟩
  have hg' : (addVariable f state geom var vfr cols loc).1.geoms.lookup geom = some g := by
    rw [addVariable_geoms]; exact hg
  simp only [readFrame, runChain]
  rw [show impStep (addVariable f state geom var vfr cols loc).1 s (.makeMesh geom (some state))
      = (⟨some ([], (meshIndex g).map (fun k => (k, []))), geom, some state⟩, none) by simp only [impStep, hg']]
  simp only [hstep hlen]
  simp only [toFrame, hx.mesh, List.map_map, Function.comp_def, List.nil_append]
  congr 2
  apply List.map_congr_left
  intro a ha
  rw [if_pos]
  rw [(enTarget_any_row_order g fr vfr cidx hx hperm).1]
  exact List.mem_map_of_mem ha

/-- Corollary to `roundtrip_element_nodal_variable`: under its hypotheses every row `r` of the geometry's frame has exactly
one partner in the variable's frame - the look-up `rowAt vfr.rows r.key` returns it - so the frame read back contains no
NaN block. -/
theorem roundtrip_element_nodal_row_found (fr vfr : Frame V)
    (hvalid : (fr.rows.map Row.key).Nodup) (hperm : (vfr.rows.map Row.key).Perm (fr.rows.map Row.key))
    (r : Row V) (hr : r ∈ fr.rows) :
    ∃ r', rowAt vfr.rows r.key = some r' ∧ r' ∈ vfr.rows ∧ r'.key = r.key ∧
      ∀ r'' ∈ vfr.rows, r''.key = r.key → r'' = r' := by
  obtain ⟨r', h1, h2, h3⟩ := rowAt_of_mem (hperm.mem_iff.2 (List.mem_map_of_mem hr))
  refine ⟨r', h1, h2, h3, fun r'' h4 h5 => ?_⟩
  exact List.inj_on_of_nodup_map (hperm.nodup_iff.2 hvalid) h4 h2 (h5.trans h3.symm)

/-- **Round trip of an element nodal variable exported from the geometry's own frame** (valid frame: distinct (element, node)
pairs).  Reading the variable back returns every exported row's own cells. -/
theorem roundtrip_element_nodal_variable_same_frame [Cell V] (f : File V) (state geom var : String) (fr : Frame V)
    (cols : Option (List String)) (loc : Option Nat) (g : Geometry V) (cidx : List Nat)
    (hvalid : (fr.rows.map Row.key).Nodup)
    (hg : f.geoms.lookup geom = some g) (hx : ExportedFrom g fr cidx)
    (h : (addVariable f state geom var fr cols loc).2 = none) (hloc : resolveLoc var loc = some 6)
    (s : Session V) (labels : List String) :
    ∃ names idx, resolveCols var cols = some names ∧ colIdx fr.cols names = some idx ∧
      (labels.length = names.length →
        (readFrame (addVariable f state geom var fr cols loc).1 s
            [.makeMesh geom (some state), .joinVar var none (some labels)]).2
          = .ok (labels, (byElement fr.rows).map (fun r => (r.key, (selRow idx r).map some)))) := by
  obtain ⟨names, idx, h1, h4, hread⟩ := roundtrip_element_nodal_variable f state geom var fr fr cols loc g cidx hvalid
    (List.Perm.refl _) hg hx h hloc s labels
  refine ⟨names, idx, h1, h4, fun hlen => ?_⟩
  rw [hread hlen]
  congr 2
  apply List.map_congr_left
  intro a ha
  rw [find_own_row hvalid (mem_byElement.1 ha) rfl]
  rfl

/-- **Reading is repeatable.**  A call chain that starts with `make_mesh` returns the same frame (or raises
the same exception at the same call) whatever the importer object went through before - in particular when
the same chain is run again on the same object. -/
theorem import_repeatable (f : File V) (s s' : Session V) (geom : String) (st : Option String)
    (ops : List ImpOp) :
    (readFrame f s (.makeMesh geom st :: ops)).2 = (readFrame f s' (.makeMesh geom st :: ops)).2 ∧
      (readFrame f (readFrame f s (.makeMesh geom st :: ops)).1 (.makeMesh geom st :: ops)).2
        = (readFrame f s (.makeMesh geom st :: ops)).2 := by
  have key : ∀ s s' : Session V,
      (readFrame f s (.makeMesh geom st :: ops)).2 = (readFrame f s' (.makeMesh geom st :: ops)).2 := by
    intro s s'
    unfold readFrame runChain
    cases hl : f.geoms.lookup geom with
    | none => simp [impStep, hl]
    | some g => simp [impStep, hl]
  exact ⟨key s s', key _ _⟩

/-- **Filtering by a stored node set returns exactly its members**: after a successful `add_node_set`, the
set is listed and `filter_node_set(name)` keeps exactly the mesh rows whose node is a member - on any session
state of that geometry.  (The importer looks sets up by name: a set of the same kind and name stored EARLIER
in the same geometry is replaced by this one in look-ups; sets under other names, of the other kind or of other
geometries keep answering as before - `sets_persist_addSet`.) -/
theorem filter_returns_set (f : File V) (geom : String) (ids : List Int) (fr : Frame V) (name : String)
    (h : (addSet f 0 geom ids fr true name).2 = none)
    (s : Session V) (labels : List String) (rows : MeshRows V)
    (hs : s.mesh = some (labels, rows)) (hgeo : s.geometry = geom) :
    impStep (addSet f 0 geom ids fr true name).1 s (.filterNodes name)
        = ({ s with mesh := some (labels, rows.filter (fun r => ids.contains r.1.2)) }, none) ∧
      (∀ r, r ∈ rows.filter (fun r => ids.contains r.1.2) ↔ r ∈ rows ∧ r.1.2 ∈ ids) ∧
      ∃ g', (addSet f 0 geom ids fr true name).1.geoms.lookup geom = some g' ∧ name ∈ setNames g' 0 := by
  obtain ⟨g, hg, _, hg', _⟩ := addSet_ok h
  have hset : setIds { g with sets := g.sets ++ [⟨0, name, ids⟩] } 0 name = some ids := by
    simp [setIds]
  refine ⟨?_, ?_, _, hg', ?_⟩
  · simp [impStep, hs, hgeo, hg', hset]
  · intro r; simp
  · simp [setNames, List.mem_eraseDups]

/-- The same for element sets and `filter_element_set`. -/
theorem filter_returns_element_set (f : File V) (geom : String) (ids : List Int) (fr : Frame V) (name : String)
    (h : (addSet f 1 geom ids fr true name).2 = none)
    (s : Session V) (labels : List String) (rows : MeshRows V)
    (hs : s.mesh = some (labels, rows)) (hgeo : s.geometry = geom) :
    impStep (addSet f 1 geom ids fr true name).1 s (.filterElems name)
        = ({ s with mesh := some (labels, rows.filter (fun r => ids.contains r.1.1)) }, none) ∧
      (∀ r, r ∈ rows.filter (fun r => ids.contains r.1.1) ↔ r ∈ rows ∧ r.1.1 ∈ ids) ∧
      ∃ g', (addSet f 1 geom ids fr true name).1.geoms.lookup geom = some g' ∧ name ∈ setNames g' 1 := by
  obtain ⟨g, hg, _, hg', _⟩ := addSet_ok h
  have hset : setIds { g with sets := g.sets ++ [⟨1, name, ids⟩] } 1 name = some ids := by
    simp [setIds]
  refine ⟨?_, ?_, _, hg', ?_⟩
  · simp [impStep, hs, hgeo, hg', hset]
  · intro r; simp
  · simp [setNames, List.mem_eraseDups]

/-- **A failed `add_geometry` leaves the file unchanged** (the group created before the failure is deleted
again; the name check precedes the creation). -/
theorem failed_addGeometry_leaves_file_unchanged [Cell V] (f : File V) (name : String) (fr : Frame V)
    (e : Err) (h : (addGeometry f name fr).2 = some e) : (addGeometry f name fr).1 = f :=
  addGeometry_err h

/-- **A failed `add_variable` leaves no partial variable**: geometries and variable groups are exactly those
of the input file.  (The empty state / geometry groups the call created before failing may remain; they hold
no variable.) -/
theorem failed_addVariable_leaves_no_partial_variable [Cell V] (f : File V) (state geom var : String) (fr : Frame V)
    (cols : Option (List String)) (loc : Option Nat) (e : Err)
    (h : (addVariable f state geom var fr cols loc).2 = some e) :
    (addVariable f state geom var fr cols loc).1.geoms = f.geoms ∧
      (addVariable f state geom var fr cols loc).1.vars = f.vars ∧
      ∀ p ∈ (addVariable f state geom var fr cols loc).1.groups, p ∈ f.groups ∨ p = (state, geom) :=
  addVariable_err h

/-- **A failed `add_node_set` / `add_element_set` leaves the file unchanged.** -/
theorem failed_addSet_leaves_file_unchanged (f : File V) (kind : Nat) (geom : String) (ids : List Int)
    (fr : Frame V) (nameOk : Bool) (name : String) (e : Err)
    (h : (addSet f kind geom ids fr nameOk name).2 = some e) : (addSet f kind geom ids fr nameOk name).1 = f :=
  addSet_err h

/-! ### The link `ExportedFrom` between a stored geometry and its frame

`addGeometry_ok` establishes it; the three theorems below show that every later exporter call keeps it, so
the variable theorems above apply after any history of calls that follows the export of the geometry. -/

theorem exported_after_addGeometry [Cell V] (f : File V) (name : String) (fr : Frame V)
    (h : (addGeometry f name fr).2 = none) :
    ∃ g idx, (addGeometry f name fr).1.geoms.lookup name = some g ∧ ExportedFrom g fr idx := by
  obtain ⟨_, g, idx, hg, hx, _⟩ := addGeometry_ok h
  exact ⟨g, idx, hg, hx⟩

theorem exported_persists_addGeometry [Cell V] (f : File V) (name : String) (fr' : Frame V)
    (geom : String) (g : Geometry V) (hg : f.geoms.lookup geom = some g) :
    (addGeometry f name fr').1.geoms.lookup geom = some g := by
  cases he : (addGeometry f name fr').2 with
  | some e => rw [addGeometry_err he]; exact hg
  | none =>
    have hne : geom ≠ name := by
      rintro rfl
      rw [(addGeometry_ok he).1] at hg
      cases hg
    unfold addGeometry at he ⊢
    split at he
    · simp at he
    · rename_i hl
      simp only [hl, if_false, Bool.false_eq_true]
      split at he
      · simp at he
      · rename_i hbp
        split at he
        · simp at he
        · rename_i hbe
          simp only [hbe]
          rw [lookup_setKey_ne _ hne]
          exact lookup_append_of_some hg

theorem exported_persists_addVariable [Cell V] (f : File V) (state gname var : String) (fr' : Frame V)
    (cols : Option (List String)) (loc : Option Nat) :
    (addVariable f state gname var fr' cols loc).1.geoms = f.geoms :=
  addVariable_geoms f state gname var fr' cols loc

theorem addSet_lookup_ne (f : File V) (kind : Nat) (gname : String) (ids : List Int) (fr' : Frame V)
    (nameOk : Bool) (name : String) (geom : String) (hn : geom ≠ gname) :
    (addSet f kind gname ids fr' nameOk name).1.geoms.lookup geom = f.geoms.lookup geom := by
  cases he : (addSet f kind gname ids fr' nameOk name).2 with
  | some e => rw [addSet_err he]
  | none =>
    obtain ⟨g0, _, hf, _⟩ := addSet_ok he
    rw [hf]
    exact lookup_setKey_ne _ hn

theorem exported_persists_addSet [Cell V] (f : File V) (kind : Nat) (gname : String) (ids : List Int) (fr' : Frame V)
    (nameOk : Bool) (name : String) (geom : String) (g : Geometry V) (fr : Frame V) (idx : List Nat)
    (hg : f.geoms.lookup geom = some g) (hx : ExportedFrom g fr idx) :
    ∃ g', (addSet f kind gname ids fr' nameOk name).1.geoms.lookup geom = some g' ∧ ExportedFrom g' fr idx := by
  cases he : (addSet f kind gname ids fr' nameOk name).2 with
  | some e => rw [addSet_err he]; exact ⟨g, hg, hx⟩
  | none =>
    obtain ⟨g0, hg0, _, hg1, _⟩ := addSet_ok he
    by_cases hn : geom = gname
    · subst hn
      rw [hg] at hg0
      cases hg0
      exact ⟨_, hg1, ⟨hx.mesh, hx.ids, hx.coords, hx.ncoord, hx.ncoord_len, hx.cidx, hx.elems⟩⟩
    · refine ⟨g, ?_, hx⟩
      rw [addSet_lookup_ne _ _ _ _ _ _ _ _ hn]
      exact hg

/-! ### A valid export succeeds -/

/-- A frame is valid for the exporter. -/
def ValidMesh [Cell V] (fr : Frame V) : Prop :=
  (∀ r ∈ fr.rows, fits32 r.eid = true ∧ fits32 r.nid = true) ∧
  (fr.cols.contains "z" = true → fr.rows ≠ []) ∧
  (∀ c ∈ coordNames fr, c ∈ fr.cols ∧ c ∉ fr.objCols) ∧
  (∀ c ∈ connectivity fr.rows, (elemType (ownDim fr) c.2.length).isSome = true)

theorem addGeometry_succeeds [Cell V] (f : File V) (name : String) (fr : Frame V)
    (hname : f.geoms.lookup name = none) (hv : ValidMesh fr) : (addGeometry f name fr).2 = none := by
  obtain ⟨h1, h2, h3, h4⟩ := hv
  obtain ⟨idx, hbp⟩ := buildPoints_succeeds (fun r hr => (h1 r hr).2) h2 h3
  have hbe := buildElements_succeeds (dim := ownDim fr) (fun r hr => (h1 r hr).1) h4
  unfold addGeometry
  simp only [hname, hbp, hbe, Option.isSome_none, Bool.false_eq_true, if_false]

/-- The outcome of `add_geometry` does not depend on what was exported (or refused) before: same verdict and same stored
geometry for any two files in which the name is free.  (No sticky dimension.) -/
theorem addGeometry_history_independent [Cell V] (f f' : File V) (name : String) (fr : Frame V)
    (h : f.geoms.lookup name = none) (h' : f'.geoms.lookup name = none) :
    (addGeometry f name fr).2 = (addGeometry f' name fr).2 ∧
      (addGeometry f name fr).1.geoms.lookup name = (addGeometry f' name fr).1.geoms.lookup name := by
  unfold addGeometry
  simp only [h, h', Option.isSome_none, Bool.false_eq_true, if_false]
  cases hbp : buildPoints fr with
  | error e => simp only [eraseKey_append_self h, eraseKey_append_self h', h, h', and_self]
  | ok p =>
    obtain ⟨ids, nc, coords⟩ := p
    cases hbe : buildElements (ownDim fr) fr with
    | error e => simp only [eraseKey_append_self h, eraseKey_append_self h', h, h', and_self]
    | ok els => simp only [lookup_setKey_append, and_self]

/-- **A valid `add_variable` succeeds** (general form): the geometry exists, the variable name is free under (state,
geometry), column names and location resolve, the ids fit, the columns exist and can be stored; for ELEMENT_NODAL the keys of
the frame are distinct and are a rearrangement of the stored (element, node) pairs of the elements that occur in the frame
(whole elements of the geometry, in any row order). -/
theorem addVariable_succeeds_of_target [Cell V] (f : File V) (state geom var : String) (vfr : Frame V)
    (cols : Option (List String)) (loc : Option Nat) (names : List String) (l : Nat) (g : Geometry V)
    (hg : f.geoms.lookup geom = some g) (hfree : f.vars.lookup (state, geom, var) = none)
    (hc : resolveCols var cols = some names) (hl : resolveLoc var loc = some l) (hl26 : l = 2 ∨ l = 6)
    (hids : varIdsFit l vfr = true) (hcols : ∀ c ∈ names, c ∈ vfr.cols ∧ c ∉ vfr.objCols)
    (hen : l = 6 → (vfr.rows.map Row.key).Nodup ∧ (vfr.rows.map Row.key).Perm (enTarget g vfr)) :
    (addVariable f state geom var vfr cols loc).2 = none := by
  obtain ⟨_, e2, _⟩ := ensureGroup_facts f state geom
  have hidx := colIdx_of_mem (fun c hc => (hcols c hc).1)
  have hobj := any_objCols_false (fun c hc => (hcols c hc).2)
  have hl' : ¬ (l ≠ 2 ∧ l ≠ 6) := by omega
  have hb : ∃ v, buildVariable l g vfr (names.map (fun n => vfr.cols.idxOf n)) = some v := by
    rcases hl26 with rfl | rfl
    · exact ⟨_, rfl⟩
    · exact ⟨_, buildVariable_six_of_perm _ (hen rfl).1 (hen rfl).2⟩
  obtain ⟨v, hb⟩ := hb
  unfold addVariable addVariableCore
  simp only [hg, e2, hfree, hc, hl, hl', hids, hidx, hobj, hb, Option.isSome_none, Bool.not_true, Bool.false_eq_true,
    if_false]

/-- **A valid `add_variable` succeeds**: as above; for ELEMENT_NODAL the geometry was exported from a valid frame `fr`
(distinct (element, node) pairs) and the keys of the variable's frame are a permutation of `fr`'s keys - ANY row order. -/
theorem addVariable_succeeds [Cell V] (f : File V) (state geom var : String) (vfr : Frame V)
    (cols : Option (List String)) (loc : Option Nat) (names : List String) (l : Nat) (g : Geometry V)
    (hg : f.geoms.lookup geom = some g) (hfree : f.vars.lookup (state, geom, var) = none)
    (hc : resolveCols var cols = some names) (hl : resolveLoc var loc = some l) (hl26 : l = 2 ∨ l = 6)
    (hids : varIdsFit l vfr = true) (hcols : ∀ c ∈ names, c ∈ vfr.cols ∧ c ∉ vfr.objCols)
    (hen : l = 6 → ∃ fr cidx, ExportedFrom g fr cidx ∧ (fr.rows.map Row.key).Nodup ∧
      (vfr.rows.map Row.key).Perm (fr.rows.map Row.key)) :
    (addVariable f state geom var vfr cols loc).2 = none := by
  apply addVariable_succeeds_of_target f state geom var vfr cols loc names l g hg hfree hc hl hl26 hids hcols
  intro h6
  obtain ⟨fr, cidx, hx, hvalid, hperm⟩ := hen h6
  exact buildVariable_six_of_keys_perm hx hvalid hperm

/-- A call that is refused for its arguments (unknown geometry, no column names / location, ids that do not fit) leaves the
file exactly as it was - not even an empty group. -/
theorem refused_addVariable_creates_nothing [Cell V] (f : File V) (state geom var : String) (fr : Frame V)
    (cols : Option (List String)) (loc : Option Nat)
    (h : f.geoms.lookup geom = none ∨ resolveCols var cols = none ∨ resolveLoc var loc = none ∨
         (∃ l, resolveLoc var loc = some l ∧ ((l ≠ 2 ∧ l ≠ 6) ∨ varIdsFit l fr = false))) :
    (addVariable f state geom var fr cols loc).1 = f ∧ (addVariable f state geom var fr cols loc).2 ≠ none := by
  rcases addVariable_cases f state geom var fr cols loc with ⟨hf, hne, _⟩ | ⟨g, names, l, hg, hc, hl, hl26, hfit, _⟩
  · exact ⟨hf, hne⟩
  · exfalso
    rcases h with h | h | h | ⟨l', hl', h⟩
    · rw [hg] at h; cases h
    · rw [hc] at h; cases h
    · rw [hl] at h; cases h
    · rw [hl] at hl'
      obtain rfl := Option.some.inj hl'
      rcases h with h | h
      · omega
      · rw [hfit] at h; cases h

theorem addSet_succeeds (f : File V) (kind : Nat) (geom : String) (ids : List Int) (fr : Frame V) (name : String)
    (hg : (f.geoms.lookup geom).isSome = true) (hsub : ∀ i ∈ ids, i ∈ idsOf kind fr) (hfit : ∀ i ∈ ids, fits32 i = true) :
    (addSet f kind geom ids fr true name).2 = none := by
  have h1 : ids.all (fun i => (idsOf kind fr).contains i) = true := by
    rw [List.all_eq_true]
    intro i hi
    simpa using hsub i hi
  have h2 : ids.all fits32 = true := by rw [List.all_eq_true]; exact hfit
  obtain ⟨g, hg⟩ := Option.isSome_iff_exists.1 hg
  unfold addSet
  simp only [h1, h2, hg, Bool.not_true, Bool.false_eq_true, if_false]

/-! ### Identifiers are the 32 bit integers of the format -/

theorem addGeometry_ok_ids_fit [Cell V] (f : File V) (name : String) (fr : Frame V) (h : (addGeometry f name fr).2 = none) :
    ∀ r ∈ fr.rows, fits32 r.eid = true ∧ fits32 r.nid = true := by
  obtain ⟨_, g, idx, _, _, _, _, _, _, hn, he, _⟩ := addGeometry_ok h
  intro r hr
  exact ⟨elemIds_all_fits.1 he r hr, nodeIds_all_fits.1 hn r hr⟩

theorem addGeometry_refuses_overflow [Cell V] (f : File V) (name : String) (fr : Frame V) (r : Row V) (hr : r ∈ fr.rows)
    (h : fits32 r.eid = false ∨ fits32 r.nid = false) :
    (addGeometry f name fr).2 ≠ none ∧ (addGeometry f name fr).1 = f := by
  have hne : (addGeometry f name fr).2 ≠ none := by
    intro hok
    have := addGeometry_ok_ids_fit f name fr hok r hr
    rcases h with h | h
    · rw [this.1] at h; cases h
    · rw [this.2] at h; cases h
  refine ⟨hne, ?_⟩
  cases he : (addGeometry f name fr).2 with
  | none => exact absurd he hne
  | some e => exact addGeometry_err he

theorem addSet_refuses_overflow (f : File V) (kind : Nat) (geom : String) (ids : List Int) (fr : Frame V)
    (nameOk : Bool) (name : String) (i : Int) (hi : i ∈ ids) (h : fits32 i = false) :
    (addSet f kind geom ids fr nameOk name).2 ≠ none ∧ (addSet f kind geom ids fr nameOk name).1 = f := by
  have hne : (addSet f kind geom ids fr nameOk name).2 ≠ none := by
    intro hok
    obtain ⟨_, _, _, _, hfit⟩ := addSet_ok hok
    rw [List.all_eq_true] at hfit
    rw [hfit i hi] at h
    cases h
  refine ⟨hne, ?_⟩
  cases he : (addSet f kind geom ids fr nameOk name).2 with
  | none => exact absurd he hne
  | some e => exact addSet_err he

/-- `add_variable` refuses identifiers outside int32 as well (nodes for NODE, elements for ELEMENT_NODAL). -/
theorem addVariable_ok_ids_fit [Cell V] (f : File V) (state geom var : String) (fr : Frame V)
    (cols : Option (List String)) (loc : Option Nat) (h : (addVariable f state geom var fr cols loc).2 = none) :
    ∃ l, resolveLoc var loc = some l ∧ varIdsFit l fr = true := by
  obtain ⟨_, _, l, _, _, _, _, h2, _, hfit, _⟩ := addVariable_ok h
  exact ⟨l, h2, hfit⟩

/-! ### Element types -/

theorem elemType_injective {d d' n n' t : Nat} (h : elemType d n = some t) (h' : elemType d' n' = some t) :
    d = d' ∧ n = n' := by
  unfold elemType at h h'
  split at h <;> simp only [Option.some.injEq, reduceCtorEq] at h <;> subst h <;>
    split at h' <;> simp at h' <;> exact ⟨rfl, rfl⟩

/-- After a successful add_geometry every stored element has the type the table gives for the frame's OWN dimension and its
node count. -/
theorem stored_element_types [Cell V] (f : File V) (name : String) (fr : Frame V) (h : (addGeometry f name fr).2 = none) :
    ∃ g, (addGeometry f name fr).1.geoms.lookup name = some g ∧
      g.elements = (connectivity fr.rows).map (fun c => (c.1, (elemType (ownDim fr) c.2.length).getD 0, c.2)) ∧
      ∀ el ∈ g.elements, elemType (ownDim fr) el.2.2.length = some el.2.1 := by
  obtain ⟨_, g, idx, hg, _, _, _, _, hels, _, _, hall⟩ := addGeometry_ok h
  refine ⟨g, hg, hels, ?_⟩
  intro el hel
  rw [hels, List.mem_map] at hel
  obtain ⟨c, hc, rfl⟩ := hel
  rw [List.all_eq_true] at hall
  have := hall c hc
  obtain ⟨t, ht⟩ := Option.isSome_iff_exists.1 this
  simp only [ht, Option.getD_some]

/-! ### Persistence of variables, groups and sets -/

/-- `add_geometry` touches neither variables nor groups (in both outcomes). -/
theorem addGeometry_keeps_vars_groups [Cell V] (f : File V) (name : String) (fr : Frame V) :
    (addGeometry f name fr).1.vars = f.vars ∧ (addGeometry f name fr).1.groups = f.groups := by
  cases he : (addGeometry f name fr).2 with
  | some e => rw [addGeometry_err he]; exact ⟨rfl, rfl⟩
  | none =>
    obtain ⟨_, _, _, _, _, _, hgr, hv, _⟩ := addGeometry_ok he
    exact ⟨hv, hgr⟩

theorem vars_persist_addGeometry [Cell V] (f : File V) (name : String) (fr : Frame V) (k : String × String × String)
    (v : Variable V) (h : f.vars.lookup k = some v) : (addGeometry f name fr).1.vars.lookup k = some v := by
  rw [(addGeometry_keeps_vars_groups f name fr).1]; exact h

theorem groups_persist_addGeometry [Cell V] (f : File V) (name : String) (fr : Frame V) :
    ∀ p ∈ f.groups, p ∈ (addGeometry f name fr).1.groups := by
  rw [(addGeometry_keeps_vars_groups f name fr).2]; exact fun _ hp => hp

/-- A successful `add_variable` appends a NEW key; a failed one leaves the variables as they were. -/
theorem vars_persist_addVariable [Cell V] (f : File V) (state geom var : String) (fr : Frame V)
    (cols : Option (List String)) (loc : Option Nat) (k : String × String × String) (v : Variable V)
    (h : f.vars.lookup k = some v) : (addVariable f state geom var fr cols loc).1.vars.lookup k = some v := by
  cases he : (addVariable f state geom var fr cols loc).2 with
  | some e => rw [(addVariable_err he).2.1]; exact h
  | none =>
    obtain ⟨_, _, _, _, _, _, _, _, _, _, _, _, _, _, _, hfree, hvars⟩ := addVariable_ok he
    rw [hvars]
    have hne : k ≠ (state, geom, var) := by
      rintro rfl
      rw [hfree] at h
      cases h
    rw [lookup_setKey_ne _ hne]
    exact lookup_append_of_some h

theorem groups_persist_addVariable [Cell V] (f : File V) (state geom var : String) (fr : Frame V)
    (cols : Option (List String)) (loc : Option Nat) :
    ∀ p ∈ f.groups, p ∈ (addVariable f state geom var fr cols loc).1.groups := by
  intro p hp
  rcases addVariable_cases f state geom var fr cols loc with ⟨hf, _, _⟩ | ⟨g, names, l, _, _, _, _, _, heq⟩
  · rw [hf]; exact hp
  · rw [heq, (addVariableCore_groups _ g state geom var fr names l).1]
    exact (ensureGroup_facts f state geom).2.2.2.2 p hp

theorem vars_persist_addSet (f : File V) (kind : Nat) (geom : String) (ids : List Int) (fr : Frame V)
    (nameOk : Bool) (name : String) :
    (addSet f kind geom ids fr nameOk name).1.vars = f.vars ∧ (addSet f kind geom ids fr nameOk name).1.groups = f.groups := by
  cases he : (addSet f kind geom ids fr nameOk name).2 with
  | some e => rw [addSet_err he]; exact ⟨rfl, rfl⟩
  | none =>
    obtain ⟨_, _, hf, _⟩ := addSet_ok he
    rw [hf]; exact ⟨rfl, rfl⟩

theorem setIds_append_ne (g : Geometry V) (kind kind' : Nat) (name name' : String) (ids : List Int)
    (hne : (kind', name') ≠ (kind, name)) :
    setIds { g with sets := g.sets ++ [⟨kind, name, ids⟩] } kind' name' = setIds g kind' name' := by
  unfold setIds
  have : (kind == kind' && name == name') = false := by
    rw [Bool.and_eq_false_iff]
    by_cases hk : kind = kind'
    · right
      subst hk
      have : name ≠ name' := by rintro rfl; exact hne rfl
      simpa using this
    · left; simpa using hk
  simp only [List.reverse_append, List.reverse_cons, List.reverse_nil, List.nil_append, List.cons_append,
    List.find?_cons, this]

/-- Sets are only appended: every geometry keeps its sets as a prefix, and a look-up by (kind', name') other than the one just
stored gives what it gave before. -/
theorem sets_persist_addSet (f : File V) (kind : Nat) (gname : String) (ids : List Int) (fr' : Frame V)
    (nameOk : Bool) (name : String) (geom : String) (g : Geometry V) (hg : f.geoms.lookup geom = some g) :
    ∃ g', (addSet f kind gname ids fr' nameOk name).1.geoms.lookup geom = some g' ∧ (∃ extra, g'.sets = g.sets ++ extra) ∧
      ∀ kind' name', (geom, kind', name') ≠ (gname, kind, name) → setIds g' kind' name' = setIds g kind' name' := by
  by_cases hn : geom = gname
  · cases he : (addSet f kind gname ids fr' nameOk name).2 with
    | some e => rw [addSet_err he]; exact ⟨g, hg, ⟨[], by simp⟩, fun _ _ _ => rfl⟩
    | none =>
      obtain ⟨g0, hg0, _, hg1, _⟩ := addSet_ok he
      subst hn
      rw [hg] at hg0
      cases hg0
      refine ⟨_, hg1, ⟨_, rfl⟩, ?_⟩
      intro kind' name' hne
      apply setIds_append_ne
      intro heq
      apply hne
      rw [Prod.mk.injEq] at heq
      rw [heq.1, heq.2]
  · refine ⟨g, ?_, ⟨[], by simp⟩, fun _ _ _ => rfl⟩
    rw [addSet_lookup_ne _ _ _ _ _ _ _ _ hn]
    exact hg

/-- Sets survive `add_geometry` and `add_variable` (the stored geometry is the same object). -/
theorem sets_persist_addVariable [Cell V] (f : File V) (state gname var : String) (fr' : Frame V)
    (cols : Option (List String)) (loc : Option Nat) (geom : String) :
    (addVariable f state gname var fr' cols loc).1.geoms.lookup geom = f.geoms.lookup geom := by
  rw [exported_persists_addVariable]

/-! ### Non-vacuity

A mixed-type 2D mesh (a triangle and a quadrilateral) with element ids out of order, interleaved rows and id gaps.
Cells are `ExV` (a NaN and numbers, IEEE comparison).  Column `d`: node 1 has NaN in its FIRST row and 10 in its second;
column `p` is a free (element nodal) column; column `q` is a nodal field that is NaN at node 3. -/

inductive ExV | nan | v (n : Nat) deriving DecidableEq

instance : Cell ExV where
  beq a b := match a, b with | .v m, .v n => m == n | _, _ => false     -- IEEE: NaN ≠ NaN
  isNull a := match a with | .nan => true | _ => false

deriving instance DecidableEq for Variable

open ExV in
def exFrame : Frame ExV :=
  ⟨["x", "y", "z", "d", "p", "q"], [],
   [⟨7, 1, [v 0, v 0, v 0, nan, v 100, v 1]⟩, ⟨2, 5, [v 1, v 0, v 0, v 50, v 101, v 5]⟩,
    ⟨7, 2, [v 1, v 1, v 0, v 20, v 102, v 2]⟩, ⟨2, 1, [v 0, v 0, v 0, v 10, v 103, v 1]⟩,
    ⟨7, 3, [v 0, v 1, v 0, v 30, v 104, nan]⟩, ⟨2, 3, [v 0, v 1, v 0, v 30, v 105, nan]⟩,
    ⟨2, 4, [v 2, v 2, v 0, v 40, v 106, v 4]⟩]⟩

/-- a tetrahedron (3D: the z values differ) -/
def exTet : Frame ExV :=
  ⟨["x", "y", "z"], [],
   [⟨1, 1, [.v 0, .v 0, .v 0]⟩, ⟨1, 2, [.v 1, .v 0, .v 0]⟩, ⟨1, 3, [.v 0, .v 1, .v 0]⟩, ⟨1, 4, [.v 0, .v 0, .v 1]⟩]⟩

/-- a frame with a node id one above int32 -/
def exBig : Frame ExV :=
  ⟨["x", "y"], [], [⟨1, 1, [.v 0, .v 0]⟩, ⟨1, 2147483648, [.v 1, .v 0]⟩, ⟨1, 3, [.v 0, .v 1]⟩]⟩

/-- a frame with an element of two nodes (not in the table) and one with an object column -/
def exLine : Frame ExV := ⟨["x", "y"], [], [⟨1, 1, [.v 0, .v 0]⟩, ⟨1, 2, [.v 1, .v 0]⟩]⟩
def exObj : Frame ExV := { exFrame with objCols := ["y", "d"] }

def exFile : File ExV := (addGeometry File.empty "g" exFrame).1

/-- `exFrame.sort_index()`: the same (element, node) pairs sorted, another column, other values -/
def exSorted : Frame ExV :=
  ⟨["s"], [],
   [⟨2, 1, [.v 201]⟩, ⟨2, 3, [.v 203]⟩, ⟨2, 4, [.v 204]⟩, ⟨2, 5, [.v 205]⟩, ⟨7, 1, [.v 701]⟩, ⟨7, 2, [.v 702]⟩,
    ⟨7, 3, [.v 703]⟩]⟩
/-- `exFrame` with its rows reversed -/
def exRev : Frame ExV := { exFrame with rows := exFrame.rows.reverse }
/-- a row missing (2, 1); an extra row (7, 4); an extra row of an unknown element; a duplicate key (7, 3); element 7 only -/
def exMissing : Frame ExV := { exSorted with rows := exSorted.rows.drop 1 }
def exExtra : Frame ExV := { exSorted with rows := exSorted.rows ++ [⟨7, 4, [.v 704]⟩] }
def exExtraElem : Frame ExV := { exSorted with rows := exSorted.rows ++ [⟨9, 1, [.v 901]⟩] }
def exDup : Frame ExV := { exSorted with rows := exSorted.rows ++ [⟨7, 3, [.v 999]⟩] }
def exOnly7 : Frame ExV := { exSorted with rows := exSorted.rows.drop 4 }

-- hypotheses of roundtrip_mesh / roundtrip_coordinates / exported_after_addGeometry / stored_element_types /
-- addGeometry_ok_ids_fit
example : (addGeometry (File.empty : File ExV) "g" exFrame).2 = none := by decide
example : ownDim exFrame = 2 ∧ ownDim exTet = 3 := by decide
-- … and what is read back: element 2 (a quadrilateral) first, node order 5 1 3 4 kept
example : (readFrame exFile Session.init [.makeMesh "g" none, .joinCoords]).2
    = .ok (["x", "y", "z"],
        [((2, 5), [some (.v 1), some (.v 0), some (.v 0)]), ((2, 1), [some (.v 0), some (.v 0), some (.v 0)]),
         ((2, 3), [some (.v 0), some (.v 1), some (.v 0)]), ((2, 4), [some (.v 2), some (.v 2), some (.v 0)]),
         ((7, 1), [some (.v 0), some (.v 0), some (.v 0)]), ((7, 2), [some (.v 1), some (.v 1), some (.v 0)]),
         ((7, 3), [some (.v 0), some (.v 1), some (.v 0)])]) := by decide
-- the stored element types: quadrilateral (2) and triangle (0) in one geometry
example : (exFile.geoms.lookup "g").map (·.elements) = some [(2, 2, [5, 1, 3, 4]), (7, 0, [1, 2, 3])] := by decide
example : elemType 2 4 = some 2 ∧ elemType 3 4 = some 4 := by decide
-- `groupby('node_id').first()` skips the NaN of node 1's first row in column d …
example : nodeValue exFrame.rows [3] 1 = [.v 10] := by decide
-- … and the nodal fields x, y, z, q satisfy the hypothesis of node_value_is_own_cells (q is NaN in all rows of node 3)
example : ∀ r ∈ exFrame.rows, ∀ r' ∈ exFrame.rows, r.nid = r'.nid → ∀ i ∈ [0, 1, 2, 5], r.vals[i]? = r'.vals[i]? := by
  decide
example : nodeValue exFrame.rows [5] 3 = [.nan] := by decide
-- hypotheses of addGeometry_succeeds (and of addGeometry_history_independent: the name is free in two different files;
-- a 2D mesh after a 3D one and the other way round: no sticky dimension)
example : ValidMesh exFrame :=
  ⟨by decide, fun _ h => by simp [exFrame] at h, by decide, by decide⟩
example : ValidMesh exTet :=
  ⟨by decide, fun _ h => by simp [exTet] at h, by decide, by decide⟩
example : exFile.geoms.lookup "h" = none ∧ (File.empty : File ExV).geoms.lookup "h" = none := by decide
example : (addGeometry (addGeometry File.empty "t" exTet).1 "g" exFrame).2 = none
    ∧ (addGeometry exFile "t" exTet).2 = none := by decide
-- hypotheses of the variable theorems
example : (exFrame.rows.map Row.key).Nodup := by decide
example : (addVariable exFile "s" "g" "N" exFrame (some ["d"]) (some 2)).2 = none := by decide
example : (addVariable exFile "s" "g" "STRESS_CAUCHY" exFrame (some ["p", "d"]) none).2 = none
    ∧ resolveLoc "STRESS_CAUCHY" none = some 6 := by decide
example : (readFrame (addVariable exFile "s" "g" "EN" exFrame (some ["p"]) (some 6)).1 Session.init
    [.makeMesh "g" (some "s"), .joinVar "EN" none (some ["q"])]).2
    = .ok (["q"], [((2, 5), [some (.v 101)]), ((2, 1), [some (.v 103)]), ((2, 3), [some (.v 105)]),
        ((2, 4), [some (.v 106)]), ((7, 1), [some (.v 100)]), ((7, 2), [some (.v 102)]), ((7, 3), [some (.v 104)])]) := by
  decide
-- ANY ROW ORDER: hypotheses of roundtrip_element_nodal_variable / addVariable_succeeds (l = 6) for the sorted frame, the
-- reversed frame and the frame itself …
example : (exSorted.rows.map Row.key).Perm (exFrame.rows.map Row.key)
    ∧ (exRev.rows.map Row.key).Perm (exFrame.rows.map Row.key) := by decide
example : (addVariable exFile "s" "g" "ENS" exSorted (some ["s"]) (some 6)).2 = none
    ∧ (addVariable exFile "s" "g" "ENR" exRev (some ["p"]) (some 6)).2 = none
    ∧ varIdsFit 6 exSorted = true ∧ colIdx exSorted.cols ["s"] = some [0] := by decide
-- … the frame read back has each key's own value (mesh order: element 2 with nodes 5 1 3 4, then element 7) …
example : (readFrame (addVariable exFile "s" "g" "ENS" exSorted (some ["s"]) (some 6)).1 Session.init
    [.makeMesh "g" (some "s"), .joinVar "ENS" none (some ["q"])]).2
    = .ok (["q"], [((2, 5), [some (.v 205)]), ((2, 1), [some (.v 201)]), ((2, 3), [some (.v 203)]),
        ((2, 4), [some (.v 204)]), ((7, 1), [some (.v 701)]), ((7, 2), [some (.v 702)]), ((7, 3), [some (.v 703)])]) := by
  decide
-- … the reversed frame gives the same file content and the same frame read back as the frame itself …
example : (addVariable exFile "s" "g" "EN" exRev (some ["p"]) (some 6)).1.vars
    = (addVariable exFile "s" "g" "EN" exFrame (some ["p"]) (some 6)).1.vars := by decide
example : (readFrame (addVariable exFile "s" "g" "EN" exRev (some ["p"]) (some 6)).1 Session.init
    [.makeMesh "g" (some "s"), .joinVar "EN" none (some ["q"])]).2
    = .ok (["q"], [((2, 5), [some (.v 101)]), ((2, 1), [some (.v 103)]), ((2, 3), [some (.v 105)]),
        ((2, 4), [some (.v 106)]), ((7, 1), [some (.v 100)]), ((7, 2), [some (.v 102)]), ((7, 3), [some (.v 104)])]) := by
  decide
-- … a frame with a row missing / an extra row (known or unknown element) / a duplicate key is refused and the file keeps
-- its variables (here: none; a file with variables: below, `exF2`) …
example : (addVariable exFile "s" "g" "V" exMissing (some ["s"]) (some 6)).2 = some .exportErr
    ∧ (addVariable exFile "s" "g" "V" exExtra (some ["s"]) (some 6)).2 = some .exportErr
    ∧ (addVariable exFile "s" "g" "V" exExtraElem (some ["s"]) (some 6)).2 = some .exportErr
    ∧ (addVariable exFile "s" "g" "V" exDup (some ["s"]) (some 6)).2 = some .exportErr := by decide
example : (addVariable exFile "s" "g" "V" exMissing (some ["s"]) (some 6)).1.vars = exFile.vars
    ∧ (addVariable exFile "s" "g" "V" exExtra (some ["s"]) (some 6)).1.vars = exFile.vars
    ∧ (addVariable exFile "s" "g" "V" exDup (some ["s"]) (some 6)).1.vars = exFile.vars := by decide
-- … and whole elements of the geometry are accepted (element 7 only): the rows of element 2 read back as NaN cells
example : (readFrame (addVariable exFile "s" "g" "E7" exOnly7 (some ["s"]) (some 6)).1 Session.init
    [.makeMesh "g" (some "s"), .joinVar "E7" none (some ["q"])]).2
    = .ok (["q"], [((2, 5), [none]), ((2, 1), [none]), ((2, 3), [none]),
        ((2, 4), [none]), ((7, 1), [some (.v 701)]), ((7, 2), [some (.v 702)]), ((7, 3), [some (.v 703)])]) := by
  decide
-- hypotheses of refused_addVariable_creates_nothing: unknown geometry, no default columns, no default location, a location
-- that is no member, ids that do not fit; nothing is created (compare the colIdx failure below, which leaves the group)
example : exFile.geoms.lookup "nogeo" = none ∧ resolveCols "V" none = none ∧ resolveLoc "V" none = none
    ∧ resolveLoc "V" (some 5) = some 5 ∧ varIdsFit 2 exBig = false := by decide
example : (addVariable exFile "s" "g" "V" exBig (some ["x"]) (some 2)).1.groups = []
    ∧ (addVariable exFile "s" "g" "V" exFrame none (some 2)).1.groups = []
    ∧ (addVariable exFile "s" "g" "V" exFrame (some ["d"]) (some 5)).1.groups = [] := by decide
-- hypotheses of addVariable_succeeds
example : (exFile.geoms.lookup "g").isSome = true ∧ exFile.vars.lookup ("s", "g", "N") = none
    ∧ resolveCols "N" (some ["d", "q"]) = some ["d", "q"] ∧ resolveLoc "N" (some 2) = some 2
    ∧ varIdsFit 2 exFrame = true ∧ ∀ c ∈ ["d", "q"], c ∈ exFrame.cols ∧ c ∉ exFrame.objCols := by decide
-- hypotheses of the filter theorems and of addSet_succeeds
example : (addSet exFile 0 "g" [3, 1] exFrame true "FIX").2 = none := by decide
example : (addSet exFile 1 "g" [7] exFrame true "").2 = none := by decide
example : (∀ i ∈ [3, 1], i ∈ idsOf 0 exFrame) ∧ ∀ i ∈ [3, 1], fits32 i = true := by decide
-- failing calls exist for each failed_* theorem: duplicate name, unsupported node count (roll-back branch),
-- object coordinate column, missing column (roll-back branch), object data column, unknown geometry, members
-- outside the mesh, non-string name
example : (addGeometry exFile "g" exFrame).2 = some .key := by decide
example : (addGeometry exFile "h" exLine).2 = some .exportErr := by decide
example : (addGeometry exFile "h" exObj).2 = some .exportErr := by decide
example : (addVariable exFile "s" "g" "V" exFrame (some ["nope"]) (some 6)).2 = some .exportErr := by decide
example : (addVariable exFile "s" "g" "V" exObj (some ["d"]) (some 6)).2 = some .exportErr := by decide
example : (addVariable exFile "s" "nogeo" "V" exFrame (some ["d"]) (some 2)).2 = some .key := by decide
example : (addSet exFile 0 "g" [99] exFrame true "A").2 = some .key := by decide
example : (addSet exFile 0 "g" [1] exFrame false "A").2 = some .typeErr := by decide
-- a failed add_variable can leave the empty group it created (observation, outside the statement)
example : (addVariable exFile "s" "g" "V" exFrame (some ["nope"]) (some 6)).1.groups = [("s", "g")] := by decide
-- hypotheses of the *_refuses_overflow theorems: an id one above int32, in a geometry, a variable and a set
example : fits32 2147483648 = false ∧ fits32 2147483647 = true ∧ fits32 (-2147483648) = true
    ∧ fits32 (-2147483649) = false := by decide
example : (⟨1, 2147483648, [.v 1, .v 0]⟩ : Row ExV) ∈ exBig.rows := by simp [exBig]
example : (addGeometry exFile "h" exBig).2 = some .exportErr := by decide
example : (addVariable exFile "s" "g" "V" exBig (some ["x"]) (some 2)).2 = some .exportErr := by decide
example : (addSet exFile 0 "g" [2147483648] exBig true "A").2 = some .overflow := by decide

/-! A later history: variables `N` (node) and `EN` (element nodal), then another geometry, a refused geometry, a set, a
refused variable.  The hypotheses of the `*_stored` step theorems hold in the final file, and a chain of a shape other
than `[makeMesh, joinVar]` (filter, coordinates, two variables) reads what the step theorems say. -/

/-- what the two variables of the history below store -/
def exN : Variable ExV := ⟨2, 2, nodeIds exFrame, (nodeIds exFrame).map (nodeValue exFrame.rows [3, 5])⟩
def exEN : Variable ExV :=
  ⟨6, 1, [2, 7], [[.v 101], [.v 103], [.v 105], [.v 106], [.v 100], [.v 102], [.v 104]]⟩

/-- `exEN` is what `add_variable` builds from column `p` of `exFrame` for ANY geometry exported from `exFrame` (whatever
sets were added to it since). -/
theorem exEN_built (g : Geometry ExV) (cidx : List Nat) (hx : ExportedFrom g exFrame cidx) :
    buildVariable 6 g exFrame [4] = some exEN := by
  rw [buildVariable_exported hx]
  decide

def exF1 : File ExV := (addVariable exFile "s" "g" "N" exFrame (some ["d", "q"]) (some 2)).1
def exF2 : File ExV := (addVariable exF1 "s" "g" "EN" exFrame (some ["p"]) (some 6)).1
def exF3 : File ExV := (addGeometry exF2 "t" exTet).1
def exF4 : File ExV := (addGeometry exF3 "bad" exLine).1
def exF5 : File ExV := (addSet exF4 0 "g" [3, 1] exFrame true "FIX").1
def exFile2 : File ExV := (addVariable exF5 "s" "g" "V" exFrame (some ["nope"]) (some 6)).1

-- the verdicts of the six calls
example : (addVariable exFile "s" "g" "N" exFrame (some ["d", "q"]) (some 2)).2 = none
    ∧ (addVariable exF1 "s" "g" "EN" exFrame (some ["p"]) (some 6)).2 = none
    ∧ (addGeometry exF2 "t" exTet).2 = none ∧ (addGeometry exF3 "bad" exLine).2 = some .exportErr
    ∧ (addSet exF4 0 "g" [3, 1] exFrame true "FIX").2 = none
    ∧ (addVariable exF5 "s" "g" "V" exFrame (some ["nope"]) (some 6)).2 = some .exportErr := by decide

/-- The persistence theorems compose: the geometry `g` of the final file is still linked to `exFrame`. -/
theorem exFile2_exported : ∃ g idx, exFile2.geoms.lookup "g" = some g ∧ ExportedFrom g exFrame idx := by
  obtain ⟨g, idx, hg, hx⟩ := exported_after_addGeometry (File.empty : File ExV) "g" exFrame (by decide)
  have h1 : exF1.geoms.lookup "g" = some g := by unfold exF1; rw [exported_persists_addVariable]; exact hg
  have h2 : exF2.geoms.lookup "g" = some g := by unfold exF2; rw [exported_persists_addVariable]; exact h1
  have h3 : exF3.geoms.lookup "g" = some g := exported_persists_addGeometry exF2 "t" exTet "g" g h2
  have h4 : exF4.geoms.lookup "g" = some g := exported_persists_addGeometry exF3 "bad" exLine "g" g h3
  obtain ⟨g', h5, hx'⟩ := exported_persists_addSet exF4 0 "g" [3, 1] exFrame true "FIX" "g" g exFrame idx h4 hx
  refine ⟨g', idx, ?_, hx'⟩
  unfold exFile2
  rw [exported_persists_addVariable]
  exact h5

/-- … and the variables written at the beginning are still there (persistence theorems, not evaluation). -/
theorem exFile2_vars : exFile2.vars.lookup ("s", "g", "N") = some exN
    ∧ exFile2.vars.lookup ("s", "g", "EN") = some exEN ∧ ("s", "g") ∈ exFile2.groups := by
  have a1 : exF1.vars.lookup ("s", "g", "N") = some exN := by decide
  have b2 : exF2.vars.lookup ("s", "g", "EN") = some exEN := by decide
  have c2 : ("s", "g") ∈ exF2.groups := by decide
  have a2 := vars_persist_addVariable exF1 "s" "g" "EN" exFrame (some ["p"]) (some 6) _ _ a1
  have e5 : exF5.vars = exF4.vars := (vars_persist_addSet exF4 0 "g" [3, 1] exFrame true "FIX").1
  have g5 : exF5.groups = exF4.groups := (vars_persist_addSet exF4 0 "g" [3, 1] exFrame true "FIX").2
  refine ⟨?_, ?_, ?_⟩
  · apply vars_persist_addVariable
    rw [e5]
    exact vars_persist_addGeometry exF3 "bad" exLine _ _ (vars_persist_addGeometry exF2 "t" exTet _ _ a2)
  · apply vars_persist_addVariable
    rw [e5]
    exact vars_persist_addGeometry exF3 "bad" exLine _ _ (vars_persist_addGeometry exF2 "t" exTet _ _ b2)
  · apply groups_persist_addVariable
    rw [g5]
    exact groups_persist_addGeometry exF3 "bad" exLine _ (groups_persist_addGeometry exF2 "t" exTet _ c2)

/-- The step theorems apply in the final file to ANY session state of geometry `g`. -/
example (s : Session ExV) (labels : List String) (rows : MeshRows ExV) (hs : s.mesh = some (labels, rows))
    (hgeo : s.geometry = "g") (hst : pickState none s.state = some "s")
    (hd : ["dd", "qq"].any (fun l => labels.contains l) = false) :
    impStep exFile2 s (.joinVar "N" none (some ["dd", "qq"]))
      = ({ s with state := some "s", mesh := some (labels ++ ["dd", "qq"], rows.map (fun r => (r.1, r.2 ++
          cellsOf 2 (if r.1.2 ∈ nodeIds exFrame then some (nodeValue exFrame.rows [3, 5] r.1.2) else none)))) }, none) := by
  obtain ⟨g, _, hg, _⟩ := exFile2_exported
  exact joinVar_step_node_stored exFile2 "s" "g" "N" exFrame [3, 5] g hg exFile2_vars.1 exFile2_vars.2.2 s labels rows
    hs hgeo none hst _ hd rfl

example (s : Session ExV) (labels : List String) (rows : MeshRows ExV) (hs : s.mesh = some (labels, rows))
    (hgeo : s.geometry = "g") (hd : ["pp"].any (fun l => labels.contains l) = false) :
    impStep exFile2 s (.joinVar "EN" (some "s") (some ["pp"]))
      = ({ s with state := some "s", mesh := some (labels ++ ["pp"], rows.map (fun r => (r.1, r.2 ++
          cellsOf 1 (if r.1 ∈ (byElement exFrame.rows).map Row.key
            then (rowAt exFrame.rows r.1).map (selRow [4]) else none)))) }, none) := by
  obtain ⟨g, cidx, hg, hx⟩ := exFile2_exported
  rw [← (enTarget_any_row_order g exFrame exFrame cidx hx (List.Perm.refl _)).1]
  exact joinVar_step_element_nodal_stored exFile2 "s" "g" "EN" exFrame exFrame [4] g cidx exEN hg hx (exEN_built g cidx hx)
    exFile2_vars.2.1 exFile2_vars.2.2 s labels rows hs hgeo (some "s") rfl _ hd rfl

example (s : Session ExV) (labels : List String) (rows : MeshRows ExV) (hs : s.mesh = some (labels, rows))
    (hgeo : s.geometry = "g") (hd : (coordNames exFrame).any (fun l => labels.contains l) = false)
    (hrows : ∀ r ∈ rows, r.1.2 ∈ nodeIds exFrame) :
    ∃ cidx, colIdx exFrame.cols (coordNames exFrame) = some cidx ∧
      impStep exFile2 s .joinCoords = ({ s with mesh := some (labels ++ coordNames exFrame,
        rows.map (fun r => (r.1, r.2 ++ (nodeValue exFrame.rows cidx r.1.2).map some))) }, none) := by
  obtain ⟨g, cidx, hg, hx⟩ := exFile2_exported
  exact ⟨cidx, hx.cidx, joinCoords_step exFile2 "g" g exFrame cidx hg hx s labels rows hs hgeo hd hrows⟩

-- the new success / refusal theorems applied
example : (addGeometry exFile "t" exTet).2 = none :=
  addGeometry_succeeds exFile "t" exTet (by decide) ⟨by decide, fun _ h => by simp [exTet] at h, by decide, by decide⟩
example : (addVariable exFile "s" "g" "N" exFrame (some ["d", "q"]) (some 2)).2 = none := by
  obtain ⟨g, _, hg, _⟩ := exported_after_addGeometry (File.empty : File ExV) "g" exFrame (by decide)
  exact addVariable_succeeds exFile "s" "g" "N" exFrame _ _ ["d", "q"] 2 g hg (by decide) rfl rfl (Or.inl rfl)
    (by decide) (by decide) (fun h => absurd h (by decide))
-- ELEMENT_NODAL from the SORTED frame: accepted because its keys are a permutation of the geometry frame's keys …
example : (addVariable exFile "s" "g" "ENS" exSorted (some ["s"]) (some 6)).2 = none := by
  obtain ⟨g, cidx, hg, hx⟩ := exported_after_addGeometry (File.empty : File ExV) "g" exFrame (by decide)
  exact addVariable_succeeds exFile "s" "g" "ENS" exSorted _ _ ["s"] 6 g hg (by decide) rfl rfl (Or.inr rfl)
    (by decide) (by decide) (fun _ => ⟨exFrame, cidx, hx, by decide, by decide⟩)
-- … and the round-trip theorem applied to it, on any importer state: every mesh row gets the cells of the row of the SORTED
-- frame with its key
example (s : Session ExV) :
    (readFrame (addVariable exFile "s" "g" "ENS" exSorted (some ["s"]) (some 6)).1 s
        [.makeMesh "g" (some "s"), .joinVar "ENS" none (some ["q"])]).2
      = .ok (["q"], (byElement exFrame.rows).map (fun r =>
          (r.key, cellsOf 1 ((rowAt exSorted.rows r.key).map (selRow [0]))))) := by
  obtain ⟨g, cidx, hg, hx⟩ := exported_after_addGeometry (File.empty : File ExV) "g" exFrame (by decide)
  obtain ⟨names, idx, h1, h4, hread⟩ := roundtrip_element_nodal_variable exFile "s" "g" "ENS" exFrame exSorted
    (some ["s"]) (some 6) g cidx (by decide) (by decide) hg hx (by decide) rfl s ["q"]
  cases h1
  have h4' : colIdx exSorted.cols ["s"] = some [0] := by decide
  rw [h4'] at h4
  cases h4
  exact hread rfl
-- the values behind those look-ups, and the partner row the corollary promises
example : (byElement exFrame.rows).map (fun r => (r.key, cellsOf 1 ((rowAt exSorted.rows r.key).map (selRow [0]))))
    = [((2, 5), [some (.v 205)]), ((2, 1), [some (.v 201)]), ((2, 3), [some (.v 203)]),
        ((2, 4), [some (.v 204)]), ((7, 1), [some (.v 701)]), ((7, 2), [some (.v 702)]), ((7, 3), [some (.v 703)])] := by
  decide
example : ∃ r', rowAt exSorted.rows (2, 5) = some r' ∧ r' ∈ exSorted.rows ∧ r'.key = (2, 5) ∧
    ∀ r'' ∈ exSorted.rows, r''.key = (2, 5) → r'' = r' :=
  roundtrip_element_nodal_row_found exFrame exSorted (by decide) (by decide) ⟨2, 5, [.v 1, .v 0, .v 0, .v 50, .v 101, .v 5]⟩
    (by simp [exFrame])
-- a refused frame leaves the variables of a file that has some (the `N` and `EN` of `exF2`)
example : (addVariable exF2 "s" "g" "V" exMissing (some ["s"]) (some 6)).2 = some .exportErr
    ∧ (addVariable exF2 "s" "g" "V" exMissing (some ["s"]) (some 6)).1.vars.lookup ("s", "g", "EN") = some exEN
    ∧ (addVariable exF2 "s" "g" "V" exDup (some ["s"]) (some 6)).1.vars.lookup ("s", "g", "N") = some exN
    ∧ ((addVariable exF2 "s" "g" "V" exDup (some ["s"]) (some 6)).1.vars.map (·.1)) = exF2.vars.map (·.1) := by decide
example (f : File ExV) : (addVariable f "s" "g" "V" exBig (some ["x"]) (some 2)).1 = f
    ∧ (addVariable f "s" "g" "V" exBig (some ["x"]) (some 2)).2 ≠ none :=
  refused_addVariable_creates_nothing f "s" "g" "V" exBig _ _ (Or.inr (Or.inr (Or.inr ⟨2, rfl, Or.inr (by decide)⟩)))
example : (addSet exFile 0 "g" [3, 1] exFrame true "FIX").2 = none :=
  addSet_succeeds exFile 0 "g" [3, 1] exFrame "FIX" (by decide) (by decide) (by decide)
example (f : File ExV) (name : String) : (addGeometry f name exBig).2 ≠ none ∧ (addGeometry f name exBig).1 = f :=
  addGeometry_refuses_overflow f name exBig ⟨1, 2147483648, [.v 1, .v 0]⟩ (by simp [exBig]) (Or.inr (by decide))
example (f : File ExV) (fr : Frame ExV) :
    (addSet f 0 "g" [1, 2147483648] fr true "A").2 ≠ none ∧ (addSet f 0 "g" [1, 2147483648] fr true "A").1 = f :=
  addSet_refuses_overflow f 0 "g" [1, 2147483648] fr true "A" 2147483648 (by simp) (by decide)

example : exFile2.vars.lookup ("s", "g", "N") = some exN
    ∧ exFile2.vars.lookup ("s", "g", "EN") = some exEN
    ∧ ("s", "g") ∈ exFile2.groups ∧ (exFile2.geoms.lookup "g").isSome = true
    ∧ colIdx exFrame.cols ["d", "q"] = some [3, 5] := by decide
example : (readFrame exFile2 Session.init
    [.makeMesh "g" (some "s"), .filterNodes "FIX", .joinCoords, .joinVar "N" none (some ["dd", "qq"]),
     .joinVar "EN" (some "s") (some ["pp"])]).2
    = .ok (["x", "y", "z", "dd", "qq", "pp"],
        [((2, 1), [some (.v 0), some (.v 0), some (.v 0), some (.v 10), some (.v 1), some (.v 103)]),
         ((2, 3), [some (.v 0), some (.v 1), some (.v 0), some (.v 30), some .nan, some (.v 105)]),
         ((7, 1), [some (.v 0), some (.v 0), some (.v 0), some (.v 10), some (.v 1), some (.v 100)]),
         ((7, 3), [some (.v 0), some (.v 1), some (.v 0), some (.v 30), some .nan, some (.v 104)])]) := by decide
-- hypotheses `hdisj` / `hst` of the step theorems on a session that already has joined columns
example : (["dd", "qq"].any (fun l => ["x", "y", "z"].contains l)) = false
    ∧ pickState none (some "s") = some "s" ∧ pickState (some "s") none = some "s" := by decide
-- sets_persist_addSet: a second set of the same kind under another name leaves the first look-up alone
example : ((addSet exFile2 0 "g" [5] exFrame true "LOAD").1.geoms.lookup "g").bind (fun g => setIds g 0 "FIX")
    = some [3, 1] := by decide

end PylifeVerif.C20
