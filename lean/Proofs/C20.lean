/-
C20 — VMAP export followed by import returns the same mesh and fields; reading is repeatable; filtering by
a stored set returns exactly its members; a failed export leaves no partial geometry or variable.

The theorems are about the model `Model/Vmap.lean` of `VMAPExport` / `VMAPImport` (abstract file; HDF5 is a
store that returns what was written; ids are the integers the format stores).  `byElement rows` is the frame
ordered by element id with the row order inside every element kept; `roundtrip_mesh` proves exactly that
characterisation, so the later theorems can state "the frame read back is `byElement` of the exported frame".
A *valid mesh frame* has pairwise distinct (element_id, node_id) pairs (`(rows.map Row.key).Nodup`); the
hypothesis is stated where it is used.
-/
import Proofs.Lemmas.Vmap

set_option linter.unusedSimpArgs false

namespace PylifeVerif.C20
open PylifeVerif.Vmap

variable {V : Type}

/-- **Round trip of the mesh.**  After a successful `add_geometry(name, frame)`, `make_mesh(name).to_frame()`
on any importer state returns the rows of the frame ordered by element id (3rd line), with the node order of
every element preserved (4th line); nothing is lost or duplicated (5th line). -/
theorem roundtrip_mesh [BEq V] (dim : Nat) (f : File V) (name : String) (fr : Frame V)
    (h : (addGeometry dim f name fr).2.2 = none) (s : Session V) (st : Option String) :
    (readFrame (addGeometry dim f name fr).2.1 s [.makeMesh name st]).2
        = .ok ([], (byElement fr.rows).map (fun r => (r.key, []))) ∧
      (byElement fr.rows).Pairwise (fun a b => a.eid ≤ b.eid) ∧
      (∀ e, (byElement fr.rows).filter (fun r => r.eid == e) = fr.rows.filter (fun r => r.eid == e)) ∧
      (byElement fr.rows).Perm fr.rows := by
  obtain ⟨_, g, idx, hg, hx, _⟩ := addGeometry_ok h
  refine ⟨?_, byElement_sorted _, fun e => byElement_filter _ e, byElement_perm _⟩
  simp [readFrame, runChain, impStep, hg, toFrame, hx.mesh, List.map_map, Function.comp_def]

example : (addGeometry 2 (File.empty : File Nat) "g"
    ⟨["x", "y", "z"], [⟨7, 1, [0, 0, 0]⟩, ⟨2, 5, [1, 0, 0]⟩, ⟨7, 2, [1, 1, 0]⟩, ⟨2, 1, [0, 0, 0]⟩,
      ⟨7, 3, [0, 1, 0]⟩, ⟨2, 3, [0, 1, 0]⟩, ⟨2, 4, [2, 2, 0]⟩]⟩).2.2 = none := by decide

theorem coordAt_exported {g : Geometry V} {fr : Frame V} {idx : List Nat} (hx : ExportedFrom g fr idx)
    {r : Row V} (hr : r ∈ fr.rows) : coordAt g r.nid = some (nodeValue fr.rows idx r.nid) := by
  unfold coordAt
  rw [hx.coords, lookup_zip_map, hx.ids, if_pos]
  exact mem_sortU.2 (List.mem_map_of_mem hr)

/-- **Round trip of the coordinates.**  `make_mesh(name).join_coordinates().to_frame()` returns, for every
exported row (ordered as in `roundtrip_mesh`), the coordinate cells of the first frame row of its node
(`groupby('node_id').first()`), under the column labels the exporter found (x, y and z if present). -/
theorem roundtrip_coordinates [BEq V] (dim : Nat) (f : File V) (name : String) (fr : Frame V)
    (h : (addGeometry dim f name fr).2.2 = none) (s : Session V) (st : Option String) :
    ∃ idx, colIdx fr.cols (coordNames fr) = some idx ∧
      (readFrame (addGeometry dim f name fr).2.1 s [.makeMesh name st, .joinCoords]).2
        = .ok (coordNames fr,
            (byElement fr.rows).map (fun r => (r.key, (nodeValue fr.rows idx r.nid).map some))) := by
  obtain ⟨_, g, idx, hg, hx, _⟩ := addGeometry_ok h
  refine ⟨idx, hx.cidx, ?_⟩
  simp [readFrame, runChain, impStep, hg, toFrame, joinBlock, hx.mesh, hx.ncoord, List.map_map, Function.comp_def]
  intro a ha
  have hc := coordAt_exported hx (mem_byElement.1 ha)
  simp only [Row.key]
  rw [hc]; rfl

/-- For a nodal field (the selected cells are the same in all rows of a node) "first row of the node" is
the row itself: then `roundtrip_coordinates` / `roundtrip_node_variable` return every row's own cells. -/
theorem first_row_is_own_row (rows : List (Row V)) (idx : List Nat)
    (hcons : ∀ r ∈ rows, ∀ r' ∈ rows, r.nid = r'.nid → selRow idx r = selRow idx r')
    {r : Row V} (hr : r ∈ rows) : nodeValue rows idx r.nid = selRow idx r := by
  unfold nodeValue firstRow
  cases hf : rows.find? (fun x => x.nid == r.nid) with
  | none =>
    rw [List.find?_eq_none] at hf
    have := hf r hr
    simp at this
  | some r' =>
    have hmem := List.mem_of_find?_eq_some hf
    have hkey : r'.nid = r.nid := by simpa using List.find?_some hf
    exact hcons r' hmem r hr hkey

/-- **Round trip of a nodal variable.**  The geometry `geom` of the file was exported from `fr`
(`ExportedFrom`, provided by `addGeometry_ok` and kept by every later call), `add_variable` with location
NODE succeeds: reading the variable back under any column labels of the right length returns, per mesh
row, the cells of the first frame row of its node. -/
theorem roundtrip_node_variable (f : File V) (state geom var : String) (fr : Frame V)
    (cols : Option (List String)) (loc : Option Nat) (g : Geometry V) (cidx : List Nat)
    (hg : f.geoms.lookup geom = some g) (hx : ExportedFrom g fr cidx)
    (h : (addVariable f state geom var fr cols loc).2 = none) (hloc : resolveLoc var loc = some 2)
    (s : Session V) (labels : List String) :
    ∃ names idx, resolveCols var cols = some names ∧ colIdx fr.cols names = some idx ∧
      (labels.length = names.length →
        (readFrame (addVariable f state geom var fr cols loc).1 s
            [.makeMesh geom (some state), .joinVar var none (some labels)]).2
          = .ok (labels, (byElement fr.rows).map (fun r => (r.key, (nodeValue fr.rows idx r.nid).map some)))) := by
  obtain ⟨names, l, idx, h1, h2, _, h4, h5, h6, h7⟩ := addVariable_ok h
  rw [hloc] at h2
  obtain rfl : 2 = l := by simpa using h2
  refine ⟨names, idx, h1, h4, fun hlen => ?_⟩
  have hg' : (addVariable f state geom var fr cols loc).1.geoms.lookup geom = some g := by rw [h5]; exact hg
  have hlen' : labels.length = idx.length := by rw [hlen, colIdx_length h4]
  have h6' : (state, geom) ∈ (addVariable f state geom var fr cols loc).1.groups := by simpa using h6
  simp [readFrame, runChain, impStep, hg', toFrame, joinBlock, hx.mesh, List.map_map, Function.comp_def,
    h6', h7, resolveCols, buildVariable, hlen', varAt]
  intro a ha
  rw [lookup_zip_map, if_pos]
  · rfl
  · exact mem_sortU.2 (List.mem_map_of_mem (mem_byElement.1 ha))

/-- **Round trip of an element nodal variable** (valid frame: distinct (element, node) pairs).  Reading the
variable back returns every exported row's own cells. -/
theorem roundtrip_element_nodal_variable (f : File V) (state geom var : String) (fr : Frame V)
    (cols : Option (List String)) (loc : Option Nat) (g : Geometry V) (cidx : List Nat)
    (hvalid : (fr.rows.map Row.key).Nodup)
    (hg : f.geoms.lookup geom = some g) (hx : ExportedFrom g fr cidx)
    (h : (addVariable f state geom var fr cols loc).2 = none) (hloc : resolveLoc var loc = some 6)
    (s : Session V) (labels : List String) :
    ∃ names idx, resolveCols var cols = some names ∧ colIdx fr.cols names = some idx ∧
      (labels.length = names.length →
        (readFrame (addVariable f state geom var fr cols loc).1 s
            [.makeMesh geom (some state), .joinVar var none (some labels)]).2
          = .ok (labels, (byElement fr.rows).map (fun r => (r.key, (selRow idx r).map some)))) := by
  obtain ⟨names, l, idx, h1, h2, _, h4, h5, h6, h7⟩ := addVariable_ok h
  rw [hloc] at h2
  obtain rfl : 6 = l := by simpa using h2
  refine ⟨names, idx, h1, h4, fun hlen => ?_⟩
  have hg' : (addVariable f state geom var fr cols loc).1.geoms.lookup geom = some g := by rw [h5]; exact hg
  have hlen' : labels.length = idx.length := by rw [hlen, colIdx_length h4]
  have h6' : (state, geom) ∈ (addVariable f state geom var fr cols loc).1.groups := by simpa using h6
  -- the index the importer rebuilds is the exported frame grouped by element
  have hidx : varIndex g (buildVariable 6 fr idx) = (byElement fr.rows).map Row.key := by
    unfold varIndex
    simp only [buildVariable, hx.mesh]
    have : ∀ e, ((byElement fr.rows).map Row.key).filter (fun k => k.1 == e) = (elemRows fr.rows e).map Row.key := by
      intro e
      rw [← byElement_filter, List.filter_map]
      rfl
    simp only [this, if_neg (show ¬ (6 = 2) by decide)]
    unfold byElement
    rw [List.map_flatMap]
  have hvals : (buildVariable 6 fr idx).values = (byElement fr.rows).map (selRow idx) := by
    simp [buildVariable]
  have hloc6 : (buildVariable 6 fr idx).loc = 6 := by simp [buildVariable]
  have hnc : (buildVariable 6 fr idx).ncols = idx.length := by simp [buildVariable]
  simp [readFrame, runChain, impStep, hg', toFrame, joinBlock, h6', h7, resolveCols, hlen', varAt, hidx, hvals,
    hloc6, hnc, hx.mesh, List.map_map, Function.comp_def]
  intro a ha
  have hfind := find_key_of_nodup (l := byElement fr.rows) hvalid (fun x => mem_byElement) (mem_byElement.1 ha)
  have := lookup_zip_map_map (byElement fr.rows) Row.key (selRow idx) a.key
  rw [this, hfind]
  rfl

/-- **Reading is repeatable.**  A call chain that starts with `make_mesh` returns the same frame (or raises
the same exception at the same call) whatever the importer object went through before - in particular when
the same chain is run again on the same object. -/
theorem import_repeatable (f : File V) (s s' : Session V) (geom : String) (st : Option String)
    (ops : List ImpOp) :
    (readFrame f s (.makeMesh geom st :: ops)).2 = (readFrame f s' (.makeMesh geom st :: ops)).2 ∧
      (readFrame f (readFrame f s (.makeMesh geom st :: ops)).1 (.makeMesh geom st :: ops)).2
        = (readFrame f s (.makeMesh geom st :: ops)).2 := by
  have key : ∀ s s' : Session V,
      (readFrame f s (.makeMesh geom st :: ops)).2 = (readFrame f s' (.makeMesh geom st :: ops)).2 := by
    intro s s'
    unfold readFrame runChain
    cases hl : f.geoms.lookup geom with
    | none => simp [impStep, hl]
    | some g => simp [impStep, hl]
  exact ⟨key s s', key _ _⟩

/-- **Filtering by a stored node set returns exactly its members**: after a successful `add_node_set`, the
set is listed and `filter_node_set(name)` keeps exactly the mesh rows whose node is a member. -/
theorem filter_returns_set (f : File V) (geom : String) (ids : List Int) (fr : Frame V) (name : String)
    (h : (addSet f 0 geom ids fr true name).2 = none)
    (s : Session V) (labels : List String) (rows : MeshRows V)
    (hs : s.mesh = some (labels, rows)) (hgeo : s.geometry = geom) :
    impStep (addSet f 0 geom ids fr true name).1 s (.filterNodes name)
        = ({ s with mesh := some (labels, rows.filter (fun r => ids.contains r.1.2)) }, none) ∧
      (∀ r, r ∈ rows.filter (fun r => ids.contains r.1.2) ↔ r ∈ rows ∧ r.1.2 ∈ ids) ∧
      ∃ g', (addSet f 0 geom ids fr true name).1.geoms.lookup geom = some g' ∧ name ∈ setNames g' 0 := by
  obtain ⟨g, hg, hg'⟩ := addSet_ok h
  have hset : setIds { g with sets := g.sets ++ [⟨0, name, ids⟩] } 0 name = some ids := by
    simp [setIds]
  refine ⟨?_, ?_, _, hg', ?_⟩
  · simp [impStep, hs, hgeo, hg', hset]
  · intro r; simp
  · simp [setNames, List.mem_eraseDups]

/-- The same for element sets and `filter_element_set`. -/
theorem filter_returns_element_set (f : File V) (geom : String) (ids : List Int) (fr : Frame V) (name : String)
    (h : (addSet f 1 geom ids fr true name).2 = none)
    (s : Session V) (labels : List String) (rows : MeshRows V)
    (hs : s.mesh = some (labels, rows)) (hgeo : s.geometry = geom) :
    impStep (addSet f 1 geom ids fr true name).1 s (.filterElems name)
        = ({ s with mesh := some (labels, rows.filter (fun r => ids.contains r.1.1)) }, none) ∧
      (∀ r, r ∈ rows.filter (fun r => ids.contains r.1.1) ↔ r ∈ rows ∧ r.1.1 ∈ ids) ∧
      ∃ g', (addSet f 1 geom ids fr true name).1.geoms.lookup geom = some g' ∧ name ∈ setNames g' 1 := by
  obtain ⟨g, hg, hg'⟩ := addSet_ok h
  have hset : setIds { g with sets := g.sets ++ [⟨1, name, ids⟩] } 1 name = some ids := by
    simp [setIds]
  refine ⟨?_, ?_, _, hg', ?_⟩
  · simp [impStep, hs, hgeo, hg', hset]
  · intro r; simp
  · simp [setNames, List.mem_eraseDups]

/-- **A failed `add_geometry` leaves the file unchanged** (the group created before the failure is deleted
again; the name check precedes the creation). -/
theorem failed_addGeometry_leaves_file_unchanged [BEq V] (dim : Nat) (f : File V) (name : String) (fr : Frame V)
    (e : Err) (h : (addGeometry dim f name fr).2.2 = some e) : (addGeometry dim f name fr).2.1 = f :=
  addGeometry_err h

/-- **A failed `add_variable` leaves no partial variable**: geometries and variable groups are exactly those
of the input file.  (The empty state / geometry groups the call created before failing may remain; they hold
no variable.) -/
theorem failed_addVariable_leaves_no_partial_variable (f : File V) (state geom var : String) (fr : Frame V)
    (cols : Option (List String)) (loc : Option Nat) (e : Err)
    (h : (addVariable f state geom var fr cols loc).2 = some e) :
    (addVariable f state geom var fr cols loc).1.geoms = f.geoms ∧
      (addVariable f state geom var fr cols loc).1.vars = f.vars ∧
      ∀ p ∈ (addVariable f state geom var fr cols loc).1.groups, p ∈ f.groups ∨ p = (state, geom) :=
  addVariable_err h

/-- **A failed `add_node_set` / `add_element_set` leaves the file unchanged.** -/
theorem failed_addSet_leaves_file_unchanged (f : File V) (kind : Nat) (geom : String) (ids : List Int)
    (fr : Frame V) (nameOk : Bool) (name : String) (e : Err)
    (h : (addSet f kind geom ids fr nameOk name).2 = some e) : (addSet f kind geom ids fr nameOk name).1 = f :=
  addSet_err h

/-! ### The link `ExportedFrom` between a stored geometry and its frame

`addGeometry_ok` establishes it; the three theorems below show that every later exporter call keeps it, so
the variable theorems above apply after any history of calls that follows the export of the geometry. -/

theorem exported_after_addGeometry [BEq V] (dim : Nat) (f : File V) (name : String) (fr : Frame V)
    (h : (addGeometry dim f name fr).2.2 = none) :
    ∃ g idx, (addGeometry dim f name fr).2.1.geoms.lookup name = some g ∧ ExportedFrom g fr idx := by
  obtain ⟨_, g, idx, hg, hx, _⟩ := addGeometry_ok h
  exact ⟨g, idx, hg, hx⟩

theorem exported_persists_addGeometry [BEq V] (dim : Nat) (f : File V) (name : String) (fr' : Frame V)
    (geom : String) (g : Geometry V) (hg : f.geoms.lookup geom = some g) :
    (addGeometry dim f name fr').2.1.geoms.lookup geom = some g := by
  cases he : (addGeometry dim f name fr').2.2 with
  | some e => rw [addGeometry_err he]; exact hg
  | none =>
    have hne : geom ≠ name := by
      rintro rfl
      rw [(addGeometry_ok he).1] at hg
      cases hg
    unfold addGeometry at he ⊢
    split at he
    · simp at he
    · rename_i hl
      simp only [hl, if_false, Bool.false_eq_true]
      split at he
      · simp at he
      · rename_i hbp
        split at he
        · simp at he
        · rename_i hbe
          simp only [hbp, hbe]
          rw [lookup_setKey_ne _ hne]
          exact lookup_append_of_some hg

theorem exported_persists_addVariable (f : File V) (state gname var : String) (fr' : Frame V)
    (cols : Option (List String)) (loc : Option Nat) :
    (addVariable f state gname var fr' cols loc).1.geoms = f.geoms := by
  cases he : (addVariable f state gname var fr' cols loc).2 with
  | some e => exact (addVariable_err he).1
  | none =>
    obtain ⟨_, _, _, _, _, _, _, h5, _⟩ := addVariable_ok he
    exact h5

theorem exported_persists_addSet (f : File V) (kind : Nat) (gname : String) (ids : List Int) (fr' : Frame V)
    (nameOk : Bool) (name : String) (geom : String) (g : Geometry V) (fr : Frame V) (idx : List Nat)
    (hg : f.geoms.lookup geom = some g) (hx : ExportedFrom g fr idx) :
    ∃ g', (addSet f kind gname ids fr' nameOk name).1.geoms.lookup geom = some g' ∧ ExportedFrom g' fr idx := by
  cases he : (addSet f kind gname ids fr' nameOk name).2 with
  | some e => rw [addSet_err he]; exact ⟨g, hg, hx⟩
  | none =>
    obtain ⟨g0, hg0, hg1⟩ := addSet_ok he
    by_cases hn : geom = gname
    · subst hn
      rw [hg] at hg0
      cases hg0
      exact ⟨_, hg1, ⟨hx.mesh, hx.ids, hx.coords, hx.ncoord, hx.cidx⟩⟩
    · refine ⟨g, ?_, hx⟩
      unfold addSet at he ⊢
      generalize idsOf kind fr' = m at he ⊢
      split at he
      · simp at he
      · rename_i h1
        split at he
        · simp at he
        · rename_i h2
          rw [if_neg h1, if_neg h2]
          simp only [hg0]
          rw [lookup_setKey_ne _ hn]
          exact hg

/-! ### Non-vacuity: a mixed-type 2D mesh (a triangle and a quadrilateral) with element ids out of order,
interleaved rows and id gaps; a nodal column `d` and a free column `p`. -/

def exFrame : Frame Nat :=
  ⟨["x", "y", "z", "d", "p"],
   [⟨7, 1, [0, 0, 0, 10, 100]⟩, ⟨2, 5, [1, 0, 0, 50, 101]⟩, ⟨7, 2, [1, 1, 0, 20, 102]⟩, ⟨2, 1, [0, 0, 0, 10, 103]⟩,
    ⟨7, 3, [0, 1, 0, 30, 104]⟩, ⟨2, 3, [0, 1, 0, 30, 105]⟩, ⟨2, 4, [2, 2, 0, 40, 106]⟩]⟩

def exFile : File Nat := (addGeometry 2 File.empty "g" exFrame).2.1

-- hypotheses of roundtrip_mesh / roundtrip_coordinates
example : (addGeometry 2 (File.empty : File Nat) "g" exFrame).2.2 = none := by decide
-- … and what is read back: element 2 (a quadrilateral) first, node order 5 1 3 4 kept
example : (readFrame exFile Session.init [.makeMesh "g" none, .joinCoords]).2
    = .ok (["x", "y", "z"],
        [((2, 5), [some 1, some 0, some 0]), ((2, 1), [some 0, some 0, some 0]), ((2, 3), [some 0, some 1, some 0]),
         ((2, 4), [some 2, some 2, some 0]), ((7, 1), [some 0, some 0, some 0]), ((7, 2), [some 1, some 1, some 0]),
         ((7, 3), [some 0, some 1, some 0])]) := by decide
-- hypotheses of the variable theorems
example : (exFrame.rows.map Row.key).Nodup := by decide
example : (addVariable exFile "s" "g" "N" exFrame (some ["d"]) (some 2)).2 = none := by decide
example : (addVariable exFile "s" "g" "STRESS_CAUCHY" exFrame (some ["p", "d"]) none).2 = none
    ∧ resolveLoc "STRESS_CAUCHY" none = some 6 := by decide
example : (readFrame (addVariable exFile "s" "g" "EN" exFrame (some ["p"]) (some 6)).1 Session.init
    [.makeMesh "g" (some "s"), .joinVar "EN" none (some ["q"])]).2
    = .ok (["q"], [((2, 5), [some 101]), ((2, 1), [some 103]), ((2, 3), [some 105]), ((2, 4), [some 106]),
        ((7, 1), [some 100]), ((7, 2), [some 102]), ((7, 3), [some 104])]) := by decide
-- the nodal column is a nodal field (hypothesis of first_row_is_own_row)
example : ∀ r ∈ exFrame.rows, ∀ r' ∈ exFrame.rows, r.nid = r'.nid → selRow [3] r = selRow [3] r' := by decide
-- hypotheses of the filter theorems
example : (addSet exFile 0 "g" [3, 1] exFrame true "FIX").2 = none := by decide
example : (addSet exFile 1 "g" [7] exFrame true "").2 = none := by decide
-- failing calls exist for each failed_* theorem: duplicate name, unsupported node count (roll-back branch),
-- missing column (roll-back branch), unknown geometry, members outside the mesh, non-string name
example : (addGeometry 2 exFile "g" exFrame).2.2 = some .key := by decide
example : (addGeometry 3 exFile "h" exFrame).2.2 = some .exportErr := by decide
example : (addVariable exFile "s" "g" "V" exFrame (some ["nope"]) (some 6)).2 = some .exportErr := by decide
example : (addVariable exFile "s" "nogeo" "V" exFrame (some ["d"]) (some 2)).2 = some .key := by decide
example : (addSet exFile 0 "g" [99] exFrame true "A").2 = some .key := by decide
example : (addSet exFile 0 "g" [1] exFrame false "A").2 = some .typeErr := by decide
-- a failed add_variable can leave the empty group it created (observation, outside the statement)
example : (addVariable exFile "s" "g" "V" exFrame (some ["nope"]) (some 6)).1.groups = [("s", "g")] := by decide

end PylifeVerif.C20
