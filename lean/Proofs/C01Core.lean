/-
C01 (chunk independence) for `_new_turns`, the FKM detector and the four-point detector.

* `turnsRun_eq`  : after non-empty chunks, `_new_turns` is in the canonical state `canonTs s` of the
  concatenated signal `s` and has reported exactly `findTurns s`  (`Proofs/Lemmas/Turns.lean`).
* `fkmRun_eq`    : the FKM detector is the fold of `fkmTurn` over the reported turns.
* `fpRun_eq`     : the four-point detector is in the canonical state `fpCanon s chunkSizes`
  (`Proofs/Lemmas/FourPointChunks.lean`: a provisional closing with the last sample of a chunk
  never changes what later closings do).
-/
import Model.Rainflow.Spec
import Proofs.Lemmas.Turns
import Proofs.Lemmas.FourPointChunks

namespace PylifeVerif
open Rainflow

namespace C01

/-- Feeding chunks to `_new_turns`: final bookkeeping state and all decided turns so far. -/
def turnsRun (cs : List (List Int)) : TurnState × List Pt :=
  cs.foldl (fun acc c => let r := newTurns acc.1 c; (r.1, acc.2 ++ r.2)) ({}, [])

/-- After any list of non-empty chunks the bookkeeping state is the canonical state of the
concatenated signal (tail = samples from the last decided turn on, head = number of samples)
and the turns reported so far are exactly `findTurns` of the concatenated signal. -/
theorem turnsRun_eq (cs : List (List Int)) (hne : ∀ c ∈ cs, c ≠ []) :
    turnsRun cs = (canonTs cs.flatten, findTurns cs.flatten) := by
  have := turnsFold_canon cs hne []
  simpa [turnsRun, canonTs_nil, findTurns] using this

theorem turnsRun_state (cs : List (List Int)) (hne : ∀ c ∈ cs, c ≠ []) :
    (turnsRun cs).1 = { tail := cs.flatten.drop (lastIdx (findTurns cs.flatten)),
                        head := cs.flatten.length } := by
  rw [turnsRun_eq cs hne]; rfl

theorem turnsRun_turns (cs : List (List Int)) (hne : ∀ c ∈ cs, c ≠ []) :
    (turnsRun cs).2 = findTurns cs.flatten := by
  rw [turnsRun_eq cs hne]

theorem newTurns_chunk_independent (cs : List (List Int)) (hne : ∀ c ∈ cs, c ≠ []) :
    turnsRun cs = turnsRun [cs.flatten] := by
  by_cases h : cs.flatten = []
  · have hcs : cs = [] := by
      cases cs with
      | nil => rfl
      | cons c cs =>
        have := hne c (by simp)
        simp at h; exact absurd h.1 this
    subst hcs
    simp [turnsRun, newTurns]
  · rw [turnsRun_eq cs hne, turnsRun_eq [cs.flatten] (by simpa using h)]
    simp


/-! ### FKM -/

theorem fkmTurn_with_ts (st : FkmState) (t : TurnState) (cur : Int) :
    fkmTurn { st with ts := t } cur = { fkmTurn st cur with ts := t } := by
  cases st; simp [fkmTurn]

theorem fkmFold_with_ts (turns : List Pt) : ∀ (st : FkmState) (t : TurnState),
    turns.foldl (fun s p => fkmTurn s p.2) { st with ts := t } =
      { turns.foldl (fun s p => fkmTurn s p.2) st with ts := t } := by
  induction turns with
  | nil => intros; rfl
  | cons p turns ih =>
    intro st t
    rw [List.foldl_cons, List.foldl_cons, fkmTurn_with_ts, ih]

/-- The FKM detector only consumes the decided turns: its state is the fold of `fkmTurn` over
all turns reported by `_new_turns`, together with the bookkeeping state. -/
theorem fkmFold_eq (cs : List (List Int)) : ∀ (tst : TurnState) (tl : List Pt) (st0 : FkmState),
    cs.foldl fkmProcess { tl.foldl (fun s p => fkmTurn s p.2) st0 with ts := tst } =
      { (cs.foldl (fun (acc : TurnState × List Pt) c =>
            let r := newTurns acc.1 c; (r.1, acc.2 ++ r.2)) (tst, tl)).2.foldl
          (fun s p => fkmTurn s p.2) st0 with
        ts := (cs.foldl (fun (acc : TurnState × List Pt) c =>
            let r := newTurns acc.1 c; (r.1, acc.2 ++ r.2)) (tst, tl)).1 } := by
  induction cs with
  | nil => intros; rfl
  | cons c cs ih =>
    intro tst tl st0
    simp only [List.foldl_cons]
    rw [← ih]
    congr 1
    simp only [fkmProcess]
    rw [fkmFold_with_ts, List.foldl_append, fkmFold_with_ts]

theorem fkmRun_eq (cs : List (List Int)) :
    fkmRun cs = { (turnsRun cs).2.foldl (fun s p => fkmTurn s p.2) {} with
                  ts := (turnsRun cs).1 } := by
  have := fkmFold_eq cs {} [] {}
  exact this

theorem fkm_chunk_independent (cs : List (List Int)) (hne : ∀ c ∈ cs, c ≠ []) :
    fkmRun cs = fkmRun [cs.flatten] := by
  rw [fkmRun_eq, fkmRun_eq, newTurns_chunk_independent cs hne]


/-! ### Four-point -/

theorem fpFold_canon (cs : List (List Int)) (hne : ∀ c ∈ cs, c ≠ []) :
    ∀ (p : List Int) (ch : List Nat),
    cs.foldl fpProcess (fpCanon p ch) = fpCanon (p ++ cs.flatten) (ch ++ cs.map List.length) := by
  induction cs with
  | nil => intro p ch; simp
  | cons c cs ih =>
    intro p ch
    simp only [List.foldl_cons, List.flatten_cons, List.map_cons]
    rw [fpProcess_canon p c ch (hne c (by simp)), ih (fun c' h => hne c' (by simp [h]))]
    simp [List.append_assoc]

/-- After any list of non-empty chunks the four-point detector is in the canonical state of
the concatenated signal. -/
theorem fpRun_eq (cs : List (List Int)) (hne : ∀ c ∈ cs, c ≠ []) :
    fpRun cs = fpCanon cs.flatten (cs.map List.length) := by
  have := fpFold_canon cs hne [] []
  simpa [fpRun, fpCanon] using this

/-- four-point: everything observable except the recorder's chunk sizes -/
theorem fourPoint_chunk_independent (cs : List (List Int)) (hne : ∀ c ∈ cs, c ≠ []) (h0 : cs ≠ []) :
    let a := fpRun cs; let b := fpRun [cs.flatten]
    a.cycles = b.cycles ∧ a.stack = b.stack ∧ a.last = b.last ∧ a.ts = b.ts ∧
      a.residuals = b.residuals ∧ a.residualIndex = b.residualIndex ∧ a.chunks = cs.map List.length := by
  have hs : cs.flatten ≠ [] := by
    cases cs with
    | nil => exact absurd rfl h0
    | cons c cs =>
      have := hne c (by simp)
      simp [this]
  intro a b
  have ha : a = fpCanon cs.flatten (cs.map List.length) := fpRun_eq cs hne
  have hb : b = fpCanon cs.flatten [cs.flatten.length] := by
    have := fpRun_eq [cs.flatten] (by simpa using hs)
    simpa using this
  rw [ha, hb]
  cases hf : cs.flatten with
  | nil => exact absurd hf hs
  | cons s0 xs =>
    simp [fpCanon, DetState.residuals, DetState.residualIndex]


/-! ### Non-vacuity: the hypotheses hold on a chunking with turns, plateaus and closed cycles -/

example : turnsRun [[0, 3, 3], [1, 2], [2, -1, 4]] = turnsRun [[0, 3, 3, 1, 2, 2, -1, 4]] :=
  newTurns_chunk_independent [[0, 3, 3], [1, 2], [2, -1, 4]] (by decide)

example : (turnsRun [[0, 3, 3], [1, 2], [2, -1, 4]]).2 = [(1, 3), (3, 1), (4, 2), (6, -1)] := by
  decide +kernel

example : fkmRun [[0, 3, 3], [1, 2], [2, -1, 4]] = fkmRun [[0, 3, 3, 1, 2, 2, -1, 4]] :=
  fkm_chunk_independent [[0, 3, 3], [1, 2], [2, -1, 4]] (by decide)

example : (fpRun [[0, 3, 3], [1, 2], [2, -1, 4]]).cycles = (fpRun [[0, 3, 3, 1, 2, 2, -1, 4]]).cycles :=
  (fourPoint_chunk_independent [[0, 3, 3], [1, 2], [2, -1, 4]] (by decide) (by decide)).1

/-- the cycle `(3,1)-(4,2)` is only closed by the third chunk, after two provisional closings -/
example : (fpRun [[0, 3, 3], [1, 2], [2, -1, 4]]).cycles = [((3, 1), (4, 2))] := by
  simp [fpRun, fpProcess, newTurns, findTurns, findTurnsAux, fpFeed, fpPush, fpClose, sgn, absDiff]

end C01
end PylifeVerif
