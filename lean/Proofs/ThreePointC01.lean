/-
C01 for the three-point detector model: chunk independence.  Consequence of
`ThreePoint.tpRun_eq_fpRun` (three-point model = four-point model on every chunk list) and
`C01.fourPoint_chunk_independent`.
-/
import Proofs.Lemmas.ThreePoint
import Proofs.C01Core

namespace PylifeVerif.C01
open PylifeVerif.Rainflow PylifeVerif.ThreePoint

theorem threePoint_chunk_independent (cs : List (List Int)) (hne : ∀ c ∈ cs, c ≠ []) (h0 : cs ≠ []) :
    let a := tpRun cs; let b := tpRun [cs.flatten]
    a.cycles = b.cycles ∧ a.stack = b.stack ∧ a.last = b.last ∧ a.ts = b.ts ∧
      a.residuals = b.residuals ∧ a.residualIndex = b.residualIndex ∧ a.chunks = cs.map List.length := by
  rw [tpRun_eq_fpRun, tpRun_eq_fpRun]
  exact fourPoint_chunk_independent cs hne h0

/-! Non-vacuity: the cycle `(3,1)-(4,2)` is closed provisionally and re-found after a re-scan of the
stored residual. -/
example := threePoint_chunk_independent [[0, 3, 3], [1, 2], [2, -1, 4]] (by decide) (by decide)
example : (tpRun [[0, 3, 3], [1, 2], [2, -1, 4]]).cycles = [((3, 1), (4, 2))] := by decide +kernel
example : (tpRun [[0, 3, 3, 1, 2, 2, -1, 4]]).cycles = [((3, 1), (4, 2))] := by decide +kernel

end PylifeVerif.C01

section AxiomCheck
#print axioms PylifeVerif.C01.threePoint_chunk_independent
end AxiomCheck
