/-
C10 — FKM-nonlinear assessment with P_RAM (`Model/Assessment.lean`): batch independence with per-point load
maxima, insensitivity to non-reversal samples, N_10 ≤ N_50 ≤ N_90, monotonicity in roughness, failure
probability and load scale.

The HCM facts that other slices prove about `Model/HCM.lean` enter the `…_of_hcm_…` theorems as explicit hypotheses
(`HcmBatchEqSingle`, `HcmInsertInterior`, `HcmAppendNonreversal`: the statements of `tools/stmts/HCM.lean` about
`twoPass`, the code).  They are discharged by `C05.hcm_batch_eq_single_code`, `C04.hcm_insert_nonreversal_interior_code`
and `C04.hcm_append_nonreversal_code`, which gives the unconditional `assessment_batch_independent_PRAM` and
`assessment_sample_insensitive`.
-/
import Proofs.Lemmas.Assessment
import Proofs.C04InsertCode
import Proofs.C04PrependCode
import Proofs.C05Code
import Proofs.Lemmas.FkmRoughness

namespace PylifeVerif.C10
open PylifeVerif.HCM PylifeVerif.FkmNl PylifeVerif.Assess

/-! ## hypotheses about the HCM model (proved elsewhere) -/

/-- `C05.SignPreserving` -/
def SignPreserving (law : Law) : Prop :=
  ∀ d : Int, (0 < d → 0 < law.dsigma d ∧ 0 < law.deps (law.dsigma d) d) ∧
             (d < 0 → law.dsigma d < 0 ∧ law.deps (law.dsigma d) d < 0) ∧
             (d = 0 → law.dsigma d = 0 ∧ law.deps (law.dsigma d) d = 0)

/-- statement of `C05.hcm_batch_eq_single` (`projK` = `C05.proj`) -/
def HcmBatchEqSingle : Prop :=
  ∀ (law : Law), SignPreserving law → ∀ (L cs : List Int), (∀ c ∈ cs, 0 < c) → ∀ k : Nat, k < cs.length →
    ((twoPass law (L.map fun l => cs.map (· * l))).recs.map (projK k)) =
      ((twoPass law (L.map fun l => [cs.getD k 1 * l])).recs.map (projK 0))

/-- `C04.one` -/
def one (s : List Int) : List Vec := s.map fun x => [x]

/-- statement of `C04.hcm_insert_nonreversal_interior` -/
def HcmInsertInterior : Prop :=
  ∀ (law : Law) (pre post : List Int) (x y v : Int), ((x ≤ v ∧ v ≤ y) ∨ (y ≤ v ∧ v ≤ x)) →
    (twoPass law (one (pre ++ x :: v :: y :: post))).recs = (twoPass law (one (pre ++ x :: y :: post))).recs

/-- statement of `C04.hcm_append_nonreversal` -/
def HcmAppendNonreversal : Prop :=
  ∀ (law : Law) (s : List Int) (a z v : Int), s.head? = some a → s.getLast? = some z →
    ((a ≤ v ∧ v ≤ z) ∨ (z ≤ v ∧ v ≤ a)) → (v ≠ a ∨ v = z) →
    (twoPass law (one (s ++ [v]))).recs = (twoPass law (one s)).recs

/-! ## batch independence -/

theorem signPreserving_lawOwn (n : Nat) (M : Int) (t : Tables) (ht : t.SecPos) : SignPreserving (lawOwn n M t) := by
  obtain ⟨h1, h2, h3, h4⟩ := ht
  intro d
  simp only [lawOwn, lawBatch]
  have a := tval_sign t.dsig h1 h3 (classQ n M (1 * d) 1 (2 * n)) d
  have b := tval_sign t.deps h2 h4 (classQ n M (1 * d) 1 (2 * n)) d
  exact ⟨fun hd => ⟨a.1 hd, b.1 hd⟩, fun hd => ⟨a.2.1 hd, b.2.1 hd⟩, fun hd => ⟨a.2.2 hd, b.2.2 hd⟩⟩

section generic
variable {α : Type} [Add α] [Sub α] [Mul α] [Div α] [Neg α] [OfScientific α]
  [LT α] [LE α] [DecidableLT α] [DecidableLE α] [Transc α]

/-- **Batch independence (P_RAM).**  Points with proportional load sequences `c·l` (`c > 0`) are assessed in one call
with per-point load maxima: per-point look-up tables, the class of every look-up and every HCM decision taken from the
FIRST point.  Point `k` gets the infinite-life verdict and the lifetime it gets when it is assessed alone – for any
number of points, any positive ratios and any per-point parameters (`p` holds the point's own stress gradient).
Valid for every numeric carrier (ℝ and `Float` alike): the equality is structural.
From: `C05.hcm_batch_eq_single` (hypothesis), `classQ_first_eq_own` (the first point's class in the first point's grid
is the point's own class in its own grid), `maxAbsI_scale`. -/
theorem assessment_batch_independent_PRAM_of_hcm_batch (hb : HcmBatchEqSingle) (conv : Int → α) (n : Nat)
    (p : Params α) (t : Tables) (ht : t.SecPos) (L cs : List Int) (hc : ∀ c ∈ cs, 0 < c) (k : Nat) (hk : k < cs.length) :
    assessBatch conv n p t L cs k = assessSingle conv n p t L (cs.getD k 1) ∧
    ∀ beta, nMaxBearable conv p k
        (twoPass (lawBatch n (maxAbsI (L.map (cs.headD 1 * ·))) (cs.headD 1) (cs.getD k 1) t) (batchLoads L cs)).recs beta
      = nMaxSingle conv n p t L (cs.getD k 1) beta := by
  have hk0 : 0 < cs.getD k 1 := by
    rw [List.getD_eq_getElem?_getD, List.getElem?_eq_getElem hk]
    exact hc _ (List.getElem_mem hk)
  have h00 : 0 < cs.headD 1 := by
    cases cs with
    | nil => simp at hk
    | cons c0 rest => exact hc c0 List.mem_cons_self
  have hlaw : lawBatch n (maxAbsI (L.map (cs.headD 1 * ·))) (cs.headD 1) (cs.getD k 1) t
      = lawOwn n (maxAbsI (L.map (cs.getD k 1 * ·))) t := by
    rw [maxAbsI_scale _ h00.le, maxAbsI_scale _ hk0.le]
    exact lawBatch_eq_lawOwn n (maxAbsI L) _ _ t h00 hk0
  have hrecs := hb (lawOwn n (maxAbsI (L.map (cs.getD k 1 * ·))) t) (signPreserving_lawOwn _ _ t ht) L cs hc k hk
  have hsingle : ((L.map (cs.getD k 1 * ·)).map fun l => [l]) = L.map fun l => [cs.getD k 1 * l] := by
    rw [List.map_map]; rfl
  constructor
  · simp only [assessBatch, assessSingle, assessRecs, rowsOf, batchLoads, hlaw, hsingle, hrecs]
  · intro beta
    simp only [nMaxSingle, nMaxBearable, rowsOf, batchLoads, hlaw, hsingle, hrecs]

/-! ## insensitivity to samples that are no reversals -/

/-- **Sample insensitivity (P_RAM).**  A sample between its neighbours (an intermediate point, a repeated value), or a
sample appended at the end between the last and the first sample, changes neither the verdict nor the lifetime: the
maximum absolute load (hence the class grid) is unchanged and the recorded hystereses are unchanged
(`C04.hcm_insert_nonreversal_interior`, `C04.hcm_append_nonreversal`: hypotheses). -/
theorem assessment_sample_insensitive_of_hcm_insert (hi : HcmInsertInterior) (ha : HcmAppendNonreversal)
    (conv : Int → α) (n : Nat) (p : Params α) (t : Tables) :
    (∀ (pre post : List Int) (x y v : Int), ((x ≤ v ∧ v ≤ y) ∨ (y ≤ v ∧ v ≤ x)) →
      assessSingle conv n p t (pre ++ x :: v :: y :: post) 1 = assessSingle conv n p t (pre ++ x :: y :: post) 1) ∧
    (∀ (s : List Int) (a z v : Int), s.head? = some a → s.getLast? = some z →
      ((a ≤ v ∧ v ≤ z) ∨ (z ≤ v ∧ v ≤ a)) → (v ≠ a ∨ v = z) →
      assessSingle conv n p t (s ++ [v]) 1 = assessSingle conv n p t s 1) := by
  have hid : ∀ L : List Int, L.map (1 * ·) = L := by
    intro L; simp
  constructor
  · intro pre post x y v hv
    have h1 := hi (lawOwn n (maxAbsI (pre ++ x :: y :: post)) t) pre post x y v hv
    simp only [assessSingle, hid, maxAbsI_insert pre post x y v hv]
    simp only [one] at h1
    rw [h1]
  · intro s a z v hs hz hv hne
    have h1 := ha (lawOwn n (maxAbsI s) t) s a z v hs hz hv hne
    simp only [assessSingle, hid, maxAbsI_append s a z v hs hz hv]
    simp only [one] at h1
    rw [h1]

/-! ### the unconditional forms (HCM facts instantiated with the code-level theorems of the C04 / C05 slices) -/

theorem hcmBatchEqSingle : HcmBatchEqSingle :=
  fun law hl L cs hc k hk => C05.hcm_batch_eq_single_code law hl L cs hc k hk

theorem hcmInsertInterior : HcmInsertInterior :=
  fun law pre post x y v hv => C04.hcm_insert_nonreversal_interior_code law pre post x y v hv

theorem hcmAppendNonreversal : HcmAppendNonreversal :=
  fun law s a z v hs hz hv hne => C04.hcm_append_nonreversal_code law s a z v hs hz hv hne

/-- **Batch independence (P_RAM), unconditional**: `assessment_batch_independent_PRAM_of_hcm_batch` with
`C05.hcm_batch_eq_single_code` (a theorem about `twoPass`, the code). -/
theorem assessment_batch_independent_PRAM (conv : Int → α) (n : Nat)
    (p : Params α) (t : Tables) (ht : t.SecPos) (L cs : List Int) (hc : ∀ c ∈ cs, 0 < c) (k : Nat) (hk : k < cs.length) :
    assessBatch conv n p t L cs k = assessSingle conv n p t L (cs.getD k 1) ∧
    ∀ beta, nMaxBearable conv p k
        (twoPass (lawBatch n (maxAbsI (L.map (cs.headD 1 * ·))) (cs.headD 1) (cs.getD k 1) t) (batchLoads L cs)).recs beta
      = nMaxSingle conv n p t L (cs.getD k 1) beta :=
  assessment_batch_independent_PRAM_of_hcm_batch hcmBatchEqSingle conv n p t ht L cs hc k hk

/-- **Sample insensitivity (P_RAM), unconditional**: `assessment_sample_insensitive_of_hcm_insert` with
`C04.hcm_insert_nonreversal_interior_code` and `C04.hcm_append_nonreversal_code` (theorems about `twoPass`, the code). -/
theorem assessment_sample_insensitive (conv : Int → α) (n : Nat) (p : Params α) (t : Tables) :
    (∀ (pre post : List Int) (x y v : Int), ((x ≤ v ∧ v ≤ y) ∨ (y ≤ v ∧ v ≤ x)) →
      assessSingle conv n p t (pre ++ x :: v :: y :: post) 1 = assessSingle conv n p t (pre ++ x :: y :: post) 1) ∧
    (∀ (s : List Int) (a z v : Int), s.head? = some a → s.getLast? = some z →
      ((a ≤ v ∧ v ≤ z) ∨ (z ≤ v ∧ v ≤ a)) → (v ≠ a ∨ v = z) →
      assessSingle conv n p t (s ++ [v]) 1 = assessSingle conv n p t s 1) :=
  assessment_sample_insensitive_of_hcm_insert hcmInsertInterior hcmAppendNonreversal conv n p t

/-! ### a sample in FRONT of the sequence -/

/-- a sample between the initial load 0 and the first sample does not change the maximum absolute load -/
theorem maxAbsI_prepend (s : List Int) (a v : Int) (hs : s.head? = some a) (h0 : (0 ≤ v ∧ v ≤ a) ∨ (a ≤ v ∧ v ≤ 0)) :
    maxAbsI (v :: s) = maxAbsI s := by
  cases s with
  | nil => simp at hs
  | cons b t =>
    simp only [List.head?_cons, Option.some.injEq] at hs
    subst hs
    unfold maxAbsI
    simp only [List.foldl_cons]
    have : max (max (0:Int) (v.natAbs : Int)) (b.natAbs : Int) = max 0 (b.natAbs : Int) := by
      rcases h0 with h | h <;> omega
    rw [this]

/-- **Sample insensitivity (P_RAM), sample in front.**  The first pass of the HCM run starts at load 0 and the sequence is
repeated, so the first sample has TWO predecessors: the initial load 0 and the last sample.  A prepended sample that lies
between the first sample and both of them (no reversal of the first pass, no reversal at the junction of the repetition)
changes neither the verdict nor the lifetime.  (`C04.hcm_prepend_nonreversal_code`, a theorem about `twoPass`, the code.)
A sample between the last and the first sample that is NOT between 0 and the first sample is a reversal of the first pass:
`prepend_between_last_and_first_changes_records`. -/
theorem assessment_sample_insensitive_prepend (conv : Int → α) (n : Nat) (p : Params α) (t : Tables)
    (s : List Int) (a z v : Int) (hs : s.head? = some a) (hz : s.getLast? = some z)
    (h0 : (0 ≤ v ∧ v ≤ a) ∨ (a ≤ v ∧ v ≤ 0)) (hl : (z ≤ v ∧ v ≤ a) ∨ (a ≤ v ∧ v ≤ z)) :
    assessSingle conv n p t (v :: s) 1 = assessSingle conv n p t s 1 := by
  have hid : ∀ L : List Int, L.map (1 * ·) = L := by
    intro L; simp
  have h1 := C04.hcm_prepend_nonreversal_code (lawOwn n (maxAbsI s) t) s a z v hs hz h0 hl
  simp only [assessSingle, hid, maxAbsI_prepend s a v hs h0]
  simp only [C04.one] at h1
  rw [h1]

/-! ### batch independence with the tables BUILT per point -/

/-- the column maximum of a batch of proportional load sequences is the point's own maximum -/
theorem colMaxAbs_batchLoads (L cs : List Int) (k : Nat) (hk : k < cs.length) :
    colMaxAbs (batchLoads L cs) k = maxAbsI (L.map (cs.getD k 1 * ·)) := by
  unfold colMaxAbs batchLoads
  rw [List.map_map]
  congr 1
  apply List.map_congr_left
  intro l _
  simp only [Function.comp, List.getD_eq_getElem?_getD, List.getElem?_map, List.getElem?_eq_getElem hk, Option.map_some,
    Option.getD_some]

/-- **Batch independence (P_RAM) including the construction of the look-up tables.**  `tab M` is the look-up table that
`Binned` builds for a point whose maximum absolute load is `M` (the values of the notch law at the class edges `i/n·M`: a
function of the point's own maximum only - C07).  In a call for all points the table of the point at position `k` is built
from the maximum of column `k` of the load sequence (`colMaxAbs`: maxima matched to the points by position), alone from the
maximum of its own sequence: these are the same number (`colMaxAbs_batchLoads`), hence the same table, and the point gets
the same verdict and lifetime.  (`assessment_batch_independent_PRAM` takes ONE table for both sides; this form discharges
"the table built for point k inside the batch is the table built for it alone" for the position-matched maxima.) -/
theorem assessment_batch_independent_PRAM_tables (conv : Int → α) (n : Nat) (p : Params α) (tab : Int → Tables)
    (htab : ∀ M, (tab M).SecPos) (L cs : List Int) (hc : ∀ c ∈ cs, 0 < c) (k : Nat) (hk : k < cs.length) :
    assessBatch conv n p (tab (colMaxAbs (batchLoads L cs) k)) L cs k
      = assessSingle conv n p (tab (maxAbsI (L.map (cs.getD k 1 * ·)))) L (cs.getD k 1) := by
  rw [colMaxAbs_batchLoads L cs k hk]
  exact (assessment_batch_independent_PRAM conv n p _ (htab _) L cs hc k hk).1

end generic

/-- The scope of "non-reversal sample" at the head of the sequence is needed: 59 lies between the last sample 60 and the first
sample 1 but not between the initial load 0 and 1 - it is a reversal of the first pass, whose Memory-3 hysteresis becomes ±59
instead of ±1 (the real code: P_RAM lifetime 43.771 -> 43.306 for [10,-600,600] -> [590,10,-600,600]). -/
theorem prepend_between_last_and_first_changes_records :
    (twoPass lawSat (C04.one (59 :: [1, -60, 60]))).recs ≠ (twoPass lawSat (C04.one [1, -60, 60])).recs := by
  decide +kernel

/-! ## monotonicity of the lifetime (carrier ℝ) -/

/-- damage column of a collective under a curve -/
noncomputable def dam (c : PramCurve ℝ) (rows : List (Row ℝ)) : List (ℝ × Nat) := rows.map fun r => (rowD c r, r.run)

/-- what the rows of a recorded collective satisfy: `P_RAM ≥ 0` (a square root or 0), run index 1 or 2, and at least one
hysteresis of the second pass has `P_RAM > 0` (otherwise the code returns the lifetime `inf`) -/
structure RowsOk (rows : List (Row ℝ)) : Prop where
  nonneg : ∀ r ∈ rows, 0 ≤ r.P
  runs : ∀ r ∈ rows, r.run = 1 ∨ r.run = 2
  pos2 : ∃ r ∈ rows, r.run = 2 ∧ 0 < r.P

theorem dam_facts (c : PramCurve ℝ) (h : c.Adm) (rows : List (Row ℝ)) (ok : RowsOk rows) :
    (∀ q ∈ dam c rows, 0 ≤ q.1) ∧ (∀ q ∈ dam c rows, q.2 = 1 ∨ q.2 = 2) ∧ 0 < sumRun 2 (dam c rows) := by
  have h0 : ∀ q ∈ dam c rows, 0 ≤ q.1 := by
    intro q hq
    obtain ⟨r, hr, rfl⟩ := List.mem_map.mp hq
    exact C09.rowD_nonneg c h r (ok.nonneg r hr)
  refine ⟨h0, ?_, ?_⟩
  · intro q hq
    obtain ⟨r, hr, rfl⟩ := List.mem_map.mp hq
    exact ok.runs r hr
  · obtain ⟨r, hr, h2, hp⟩ := ok.pos2
    exact sumRun_pos 2 _ h0 ⟨(rowD c r, r.run), List.mem_map.mpr ⟨r, hr, rfl⟩, h2, rowD_pos c h r hp⟩

/-- The regime hypothesis of the monotonicity theorems: the more damaging configuration does not reach the damage sum one
within the two recorded passes, or the first pass recorded at most one hysteresis more than the second.  (The
early-failure lifetime is an index into ALL recorded hystereses, the regular lifetime a multiple of the number of
second-pass hystereses; without this the two are not comparable.) -/
-- The second disjunct is NOT a fact about `twoPass`: growing alternating loads give n1 = 2m − 1, n2 = m
-- (`Proofs/Lemmas/FkmRegime.lean`: `regime_second_disjunct_refuted`), and there the real code's lifetime does grow across the
-- early-failure boundary (finding `mono-P_RAM-early-failure-count`: 6.27 -> 7.0 cycles); `Regime` is a genuine hypothesis.
def Regime (dsMore dsLess : List (ℝ × Nat)) : Prop :=
  (lifetimeOfDamages dsMore).early = false ∨ countRun 1 dsLess ≤ countRun 2 dsLess + 1

/-- **Lifetime and verdict are monotone in the position of the component curve** (same slopes): a lower curve
(`P_RAM_Z' ≤ P_RAM_Z`, `P_RAM_D' ≤ P_RAM_D`) never gives a longer lifetime and never turns a finite-life verdict into an
infinite-life one.  Full statement: without `hreg`.  Missing: the comparison of an early failure (lifetime below two
passes) of the lower curve with a regular lifetime of the higher curve when the first pass has more than one hysteresis
more than the second. -/
theorem lifetime_antitone_in_curve_partial (c c' : PramCurve ℝ) (h : c.Adm) (h' : c'.Adm)
    (hd1 : c'.d1 = c.d1) (hd2 : c'.d2 = c.d2) (hPZ : c'.PZ ≤ c.PZ) (hPD : c'.PD ≤ c.PD)
    (rows : List (Row ℝ)) (ok : RowsOk rows) (hreg : Regime (dam c' rows) (dam c rows)) :
    (damagePRAM c' rows).nCycles ≤ (damagePRAM c rows).nCycles ∧
    (isLifeInfinite c' rows = true → isLifeInfinite c rows = true) := by
  constructor
  · obtain ⟨h0, hr, hD2⟩ := dam_facts c h rows ok
    have hle : DamLE (dam c rows) (dam c' rows) :=
      damLE_of_rows _ _ rows fun r hr => ⟨rowD_anti_PZ c c' h h' hd1 hd2 hPZ r (ok.nonneg r hr), rfl⟩
    refine nCycles_antitone hle h0 hr (fun _ => hD2) (fun _ he' => ?_)
    rcases hreg with hf | hc
    · have he2 : (lifetimeOfDamages (dam c' rows)).early = true := he'
      rw [hf] at he2; exact absurd he2 (by simp)
    · exact hc
  · intro hinf
    simp only [isLifeInfinite, List.all_eq_true, Bool.or_eq_true, bne_iff_ne, ne_eq, decide_eq_true_eq] at hinf ⊢
    intro r hr
    rcases hinf r hr with h1 | h1
    · exact Or.inl h1
    · exact Or.inr (le_trans h1 hPD)

/-- **Load scale (partial).**  If every hysteresis' `P_RAM` is non-decreasing under the scaling (same hysteresis
structure: same flags and pass numbers, which is the scale invariance of the HCM decisions), the lifetime does not increase
and a finite-life verdict does not become infinite.  Missing for the full statement: (i) that `P_RAM` of every hysteresis
of the binned Masing law is non-decreasing in the load scale, (ii) `hreg` as above. -/
theorem lifetime_antitone_in_load_scale_partial (c : PramCurve ℝ) (h : c.Adm) (rows rows' : List (Row ℝ))
    (ok : RowsOk rows)
    (hsc : List.Forall₂ (fun r r' => r.P ≤ r'.P ∧ r.closed = r'.closed ∧ r.run = r'.run) rows rows')
    (hreg : Regime (dam c rows') (dam c rows)) :
    (damagePRAM c rows').nCycles ≤ (damagePRAM c rows).nCycles ∧
    (isLifeInfinite c rows' = true → isLifeInfinite c rows = true) := by
  constructor
  · obtain ⟨h0, hr, hD2⟩ := dam_facts c h rows ok
    have hle : DamLE (dam c rows) (dam c rows') := by
      have : ∀ (a b : List (Row ℝ)), List.Forall₂ (fun r r' => r.P ≤ r'.P ∧ r.closed = r'.closed ∧ r.run = r'.run) a b →
          (∀ r ∈ a, 0 ≤ r.P) → DamLE (dam c a) (dam c b) := by
        intro a b hab
        induction hab with
        | nil => intro _; exact List.Forall₂.nil
        | @cons r r' as bs hrr _ ih =>
          intro hnn
          exact List.Forall₂.cons ⟨rowD_mono_P c h r r' (hnn r List.mem_cons_self) hrr.1 hrr.2.1, hrr.2.2⟩
            (ih fun q hq => hnn q (List.mem_cons_of_mem _ hq))
      exact this rows rows' hsc ok.nonneg
    refine nCycles_antitone hle h0 hr (fun _ => hD2) (fun _ he' => ?_)
    rcases hreg with hf | hc
    · have he2 : (lifetimeOfDamages (dam c rows')).early = true := he'
      rw [hf] at he2; exact absurd he2 (by simp)
    · exact hc
  · intro hinf
    simp only [isLifeInfinite, List.all_eq_true, Bool.or_eq_true, bne_iff_ne, ne_eq, decide_eq_true_eq] at hinf ⊢
    clear hreg ok
    induction hsc with
    | nil => intro r hr; simp at hr
    | @cons r r' as bs hrr _ ih =>
      intro q hq
      rcases List.mem_cons.mp hq with rfl | hq
      · rcases hinf r' List.mem_cons_self with h1 | h1
        · exact Or.inl (by rw [hrr.2.2]; exact h1)
        · exact Or.inr (le_trans hrr.1 h1)
      · exact ih (fun s hs => hinf s (List.mem_cons_of_mem _ hs)) q hq

/-! ## N_10 ≤ N_50 ≤ N_90 -/

theorem lifeReduced_antitone (base : LifeResult ℝ) {ds ds' : List (ℝ × Nat)} (h : DamLE ds ds')
    (h0 : ∀ q ∈ ds, 0 ≤ q.1) (hD1 : sumRun 1 ds ≤ 1) (hD2 : 0 < sumRun 2 ds) :
    lifeReduced base ds' ≤ lifeReduced base ds := by
  unfold lifeReduced
  split_ifs
  · exact le_rfl
  · rw [xOf_eq, xOf_eq, ← h.countRun_eq 2, lit_1]
    have h1 := h.sumRun_le 1
    have h2 := h.sumRun_le 2
    have hD2' : 0 < sumRun 2 ds' := lt_of_lt_of_le hD2 h2
    have hn : 0 ≤ countRun 2 ds := countRun_nonneg 2 ds
    have hx : (1 - sumRun 1 ds') / sumRun 2 ds' ≤ (1 - sumRun 1 ds) / sumRun 2 ds := by
      by_cases hs : 0 ≤ 1 - sumRun 1 ds'
      · rw [div_le_div_iff₀ hD2' hD2]; nlinarith
      · have a : (1 - sumRun 1 ds') / sumRun 2 ds' ≤ 0 := div_nonpos_of_nonpos_of_nonneg (by linarith) hD2'.le
        have b : 0 ≤ (1 - sumRun 1 ds) / sumRun 2 ds := div_nonneg (by linarith) hD2.le
        linarith
    nlinarith

/-- the reduced curve with an endurance value that makes it formally admissible (`rowD` does not read `PD`) -/
noncomputable def redAdm (c : PramCurve ℝ) (f25 b : ℝ) : PramCurve ℝ :=
  { reducedCurve c f25 b with PD := (reducedCurve c f25 b).PZ / 2 }

theorem dam_redAdm (c : PramCurve ℝ) (f25 b : ℝ) (rows : List (Row ℝ)) :
    dam (redAdm c f25 b) rows = dam (reducedCurve c f25 b) rows := rfl

theorem reducedCurve_PZ (c : PramCurve ℝ) (f25 b : ℝ) :
    (reducedCurve c f25 b).PZ = c.PZ * (10:ℝ) ^ (Real.log f25 / Real.log 10 - (0.8 * b - 2) * 0.08) := by
  simp only [reducedCurve, transc_pow, transc_log10]
  norm_num

theorem redAdm_adm (c : PramCurve ℝ) (hc : c.Adm) (f25 b : ℝ) : (redAdm c f25 b).Adm := by
  have hz : 0 < (reducedCurve c f25 b).PZ := by
    rw [reducedCurve_PZ]; exact mul_pos hc.PZ_pos (Real.rpow_pos_of_pos (by norm_num) _)
  exact ⟨by simp only [redAdm]; linarith, by simp only [redAdm]; linarith, hc.2.2.1, hc.2.2.2⟩

theorem reducedCurve_anti (c : PramCurve ℝ) (hc : c.Adm) (f25 b b' : ℝ) (hb : b' ≤ b) :
    (reducedCurve c f25 b).PZ ≤ (reducedCurve c f25 b').PZ := by
  rw [reducedCurve_PZ, reducedCurve_PZ]
  apply mul_le_mul_of_nonneg_left _ hc.PZ_pos.le
  apply Real.rpow_le_rpow_of_exponent_le (by norm_num)
  nlinarith

/-- `N_max_bearable(P_A)` of the model, spelled out -/
theorem nMaxBearable_eq (conv : Int → ℝ) (p : Params ℝ) (k : Nat) (recs : List Hyst) (beta : ℝ) :
    nMaxBearable conv p k recs beta =
      lifeReduced (damagePRAM (componentCurve p) (rowsOf conv (mSigmaOf p.g p.Rm) (consts p.g : Consts ℝ).E k recs))
        (dam (reducedCurve (componentCurve p) (consts p.g : Consts ℝ).f25_RAM beta)
          (rowsOf conv (mSigmaOf p.g p.Rm) (consts p.g : Consts ℝ).E k recs)) := rfl

/-- **N_10 ≤ N_50 ≤ N_90** for the lifetimes `N_max_bearable(P_A)` reported with a P_A = 0.5 assessment.
`β(P_A) = −Φ⁻¹(P_A)` for a strictly increasing distribution function `Φ`; `β` antitone in `P_A` ⇒ the reduction of the
curve antitone ⇒ damages monotone ⇒ lifetime monotone.  Full statement: without `hD1`.  Missing: the case that the
first pass alone exceeds the damage sum one on the 50 % curve although the assessed curve does not reach one in two
passes (then the code's `(1 − D₁)/D₂` is negative and no longer monotone in the damages). -/
theorem N10_le_N50_le_N90_partial (Φ : ℝ → ℝ) (hΦ : StrictMono Φ) (b10 b50 b90 : ℝ)
    (h10 : Φ (-b10) = 0.1) (h50 : Φ (-b50) = 0.5) (h90 : Φ (-b90) = 0.9)
    (c : PramCurve ℝ) (hc : c.Adm) (f25 : ℝ) (rows : List (Row ℝ)) (ok : RowsOk rows)
    (hD1 : sumRun 1 (dam (reducedCurve c f25 b50) rows) ≤ 1) :
    lifeReduced (damagePRAM c rows) (dam (reducedCurve c f25 b10) rows)
      ≤ lifeReduced (damagePRAM c rows) (dam (reducedCurve c f25 b50) rows) ∧
    lifeReduced (damagePRAM c rows) (dam (reducedCurve c f25 b50) rows)
      ≤ lifeReduced (damagePRAM c rows) (dam (reducedCurve c f25 b90) rows) := by
  have hb1 : b50 < b10 := by
    have : Φ (-b10) < Φ (-b50) := by rw [h10, h50]; norm_num
    have := hΦ.lt_iff_lt.mp this
    linarith
  have hb2 : b90 < b50 := by
    have : Φ (-b50) < Φ (-b90) := by rw [h50, h90]; norm_num
    have := hΦ.lt_iff_lt.mp this
    linarith
  have key : ∀ b b' : ℝ, b' ≤ b → DamLE (dam (reducedCurve c f25 b') rows) (dam (reducedCurve c f25 b) rows) := by
    intro b b' hb
    rw [← dam_redAdm, ← dam_redAdm]
    exact damLE_of_rows _ _ rows fun r hr =>
      ⟨rowD_anti_PZ _ _ (redAdm_adm c hc f25 b') (redAdm_adm c hc f25 b) rfl rfl (reducedCurve_anti c hc f25 b b' hb) r (ok.nonneg r hr), rfl⟩
  have f50 := dam_facts _ (redAdm_adm c hc f25 b50) rows ok
  have f90 := dam_facts _ (redAdm_adm c hc f25 b90) rows ok
  rw [dam_redAdm] at f50 f90
  constructor
  · exact lifeReduced_antitone _ (key b10 b50 hb1.le) f50.1 hD1 f50.2.2
  · exact lifeReduced_antitone _ (key b50 b90 hb2.le) f90.1 (le_trans ((key b50 b90 hb2.le).sumRun_le 1) hD1) f90.2.2

/-! ## roughness and failure probability through the parameter formulas -/

theorem componentCurve_PZ (p : Params ℝ) : (componentCurve p).PZ =
    p.krp * (nP (consts p.g) p.Aref p.Asigma p.Rm p.G / gammaM p.beta p.pa05 * pzWS (consts p.g) p.Rm p.pa05) := by
  simp only [componentCurve, curveOf, fRAM, lit_1, one_div_div]
  ring

theorem componentCurve_PD (p : Params ℝ) : (componentCurve p).PD =
    p.krp * (nP (consts p.g) p.Aref p.Asigma p.Rm p.G / gammaM p.beta p.pa05 * pdWS (consts p.g) p.Rm p.pa05) := by
  simp only [componentCurve, curveOf, fRAM, lit_1, one_div_div]
  ring

/-- **A rougher surface never increases the lifetime** (smaller roughness factor `K_R,P`; `K_R,P` as a function of the
roughness `R_z` is antitone: `Assess.kRP_antitone_group` in `Proofs/Lemmas/FkmRoughness.lean`).  Full statement: without `hreg` (see `lifetime_antitone_in_curve_partial`). -/
theorem lifetime_antitone_in_roughness_partial (conv : Int → ℝ) (p : Params ℝ) (krp' : ℝ) (hk0 : 0 < krp') (hk : krp' ≤ p.krp)
    (hA : (componentCurve p).Adm) (hA' : (componentCurve { p with krp := krp' }).Adm) (k : Nat) (recs : List Hyst)
    (ok : RowsOk (rowsOf conv (mSigmaOf p.g p.Rm) (consts p.g : Consts ℝ).E k recs))
    (hreg : Regime (dam (componentCurve { p with krp := krp' }) (rowsOf conv (mSigmaOf p.g p.Rm) (consts p.g : Consts ℝ).E k recs))
                   (dam (componentCurve p) (rowsOf conv (mSigmaOf p.g p.Rm) (consts p.g : Consts ℝ).E k recs))) :
    (assessRecs conv { p with krp := krp' } k recs).life.nCycles ≤ (assessRecs conv p k recs).life.nCycles ∧
    ((assessRecs conv { p with krp := krp' } k recs).infinite = true → (assessRecs conv p k recs).infinite = true) := by
  have hkp : 0 < p.krp := lt_of_lt_of_le hk0 hk
  have hZ := componentCurve_PZ p
  have hD := componentCurve_PD p
  have hZ' := componentCurve_PZ { p with krp := krp' }
  have hD' := componentCurve_PD { p with krp := krp' }
  simp only at hZ' hD'
  have hAz : 0 < nP (consts p.g) p.Aref p.Asigma p.Rm p.G / gammaM p.beta p.pa05 * pzWS (consts p.g) p.Rm p.pa05 := by
    have := hA.PZ_pos; rw [hZ] at this; exact (pos_iff_pos_of_mul_pos this).mp hkp
  have hAd : 0 < nP (consts p.g) p.Aref p.Asigma p.Rm p.G / gammaM p.beta p.pa05 * pdWS (consts p.g) p.Rm p.pa05 := by
    have := hA.1; rw [hD] at this; exact (pos_iff_pos_of_mul_pos this).mp hkp
  have hPZ : (componentCurve { p with krp := krp' }).PZ ≤ (componentCurve p).PZ := by
    rw [hZ, hZ']; exact mul_le_mul_of_nonneg_right hk hAz.le
  have hPD : (componentCurve { p with krp := krp' }).PD ≤ (componentCurve p).PD := by
    rw [hD, hD']; exact mul_le_mul_of_nonneg_right hk hAd.le
  exact lifetime_antitone_in_curve_partial (componentCurve p) (componentCurve { p with krp := krp' }) hA hA' rfl rfl hPZ hPD _ ok hreg

/-- **A rougher surface never increases the lifetime, in terms of the roughness `R_z`** (what the property speaks of):
`K_R,P = kRP(R_z, R_m)` (eq. 2.5-37) and `R_z ≤ R_z'`.  Composition of `lifetime_antitone_in_roughness_partial` with
`Assess.kRP_antitone_group` (`Proofs/Lemmas/FkmRoughness.lean`).  Hypotheses of that step: `R_m,N,min ≤ 2 R_m` and a
non-negative base of the power for the rougher surface (beyond it the code computes `negative ** b = NaN`); `hk0`: the
rougher surface's factor is positive (base > 0). -/
theorem lifetime_antitone_in_Rz_partial (conv : Int → ℝ) (p : Params ℝ) (Rz Rz' : ℝ) (hle : Rz ≤ Rz')
    (hp : p.krp = kRP (consts p.g) Rz p.Rm)
    (hRm : (consts p.g : Consts ℝ).R_m_N_min ≤ 2 * p.Rm)
    (hbase : 1 < Rz' → 0 ≤ 1 - (consts p.g : Consts ℝ).a_RP * Real.logb 10 Rz' *
      Real.logb 10 (2 * p.Rm / (consts p.g : Consts ℝ).R_m_N_min))
    (hk0 : 0 < kRP (consts p.g) Rz' p.Rm)
    (hA : (componentCurve p).Adm) (hA' : (componentCurve { p with krp := kRP (consts p.g) Rz' p.Rm }).Adm) (k : Nat) (recs : List Hyst)
    (ok : RowsOk (rowsOf conv (mSigmaOf p.g p.Rm) (consts p.g : Consts ℝ).E k recs))
    (hreg : Regime (dam (componentCurve { p with krp := kRP (consts p.g) Rz' p.Rm }) (rowsOf conv (mSigmaOf p.g p.Rm) (consts p.g : Consts ℝ).E k recs))
                   (dam (componentCurve p) (rowsOf conv (mSigmaOf p.g p.Rm) (consts p.g : Consts ℝ).E k recs))) :
    (assessRecs conv { p with krp := kRP (consts p.g) Rz' p.Rm } k recs).life.nCycles ≤ (assessRecs conv p k recs).life.nCycles ∧
    ((assessRecs conv { p with krp := kRP (consts p.g) Rz' p.Rm } k recs).infinite = true → (assessRecs conv p k recs).infinite = true) := by
  have hk : kRP (consts p.g) Rz' p.Rm ≤ p.krp := by
    rw [hp]; exact kRP_antitone_group p.g p.Rm Rz Rz' hRm hle hbase
  exact lifetime_antitone_in_roughness_partial conv p _ hk0 hk hA hA' k recs ok hreg

theorem gammaM_mono (b b' : ℝ) (hb : b ≤ b') : gammaM b false ≤ gammaM b' false := by
  simp only [gammaM, transc_pow, Bool.false_eq_true, if_false]
  have hp : (10:ℝ) ^ ((0.8 * b - 2.0) * 0.08) ≤ (10:ℝ) ^ ((0.8 * b' - 2.0) * 0.08) := by
    apply Real.rpow_le_rpow_of_exponent_le (by norm_num); nlinarith
  split_ifs <;> linarith

theorem gammaM_ge (b : ℝ) : (1.1:ℝ) ≤ gammaM b false := by
  simp only [gammaM, transc_pow, Bool.false_eq_true, if_false]
  split_ifs <;> linarith

/-- **Demanding a smaller failure probability never increases the lifetime**: a larger safety index `β' ≥ β`
(`β = −Φ⁻¹(P_A)` is antitone in `P_A`) with the statistical assessment switched on for both.  The step from
`P_A = 0.5` (no statistical assessment: `γ_M = 1`, no `f_2.5%`) to a `P_A' < 0.5` is decided by the oracle only.
Not covered, and false for the code: `P_A > 0.5` compared with `P_A = 0.5` (the special case `P_A = 0.5` removes the
`f_2.5%` factor, so 0.5 gives a LONGER life than 0.6).  Full statement: without `hreg`. -/
theorem lifetime_antitone_in_PA_partial (conv : Int → ℝ) (p : Params ℝ) (hpa : p.pa05 = false) (beta' : ℝ) (hb : p.beta ≤ beta')
    (hA : (componentCurve p).Adm) (hA' : (componentCurve { p with beta := beta' }).Adm) (k : Nat) (recs : List Hyst)
    (ok : RowsOk (rowsOf conv (mSigmaOf p.g p.Rm) (consts p.g : Consts ℝ).E k recs))
    (hreg : Regime (dam (componentCurve { p with beta := beta' }) (rowsOf conv (mSigmaOf p.g p.Rm) (consts p.g : Consts ℝ).E k recs))
                   (dam (componentCurve p) (rowsOf conv (mSigmaOf p.g p.Rm) (consts p.g : Consts ℝ).E k recs))) :
    (assessRecs conv { p with beta := beta' } k recs).life.nCycles ≤ (assessRecs conv p k recs).life.nCycles ∧
    ((assessRecs conv { p with beta := beta' } k recs).infinite = true → (assessRecs conv p k recs).infinite = true) := by
  have hZ := componentCurve_PZ p
  have hD := componentCurve_PD p
  have hZ' := componentCurve_PZ { p with beta := beta' }
  have hD' := componentCurve_PD { p with beta := beta' }
  simp only at hZ' hD'
  have g1 : (1.1:ℝ) ≤ gammaM p.beta p.pa05 := by rw [hpa]; exact gammaM_ge p.beta
  have g2 : gammaM p.beta p.pa05 ≤ gammaM beta' p.pa05 := by rw [hpa]; exact gammaM_mono p.beta beta' hb
  have hg : 0 < gammaM p.beta p.pa05 := by linarith
  have hg' : 0 < gammaM beta' p.pa05 := by linarith
  -- PZ = (krp · nP · zws) / γ
  have eZ : ∀ g : ℝ, p.krp * (nP (consts p.g) p.Aref p.Asigma p.Rm p.G / g * pzWS (consts p.g) p.Rm p.pa05)
      = (p.krp * nP (consts p.g) p.Aref p.Asigma p.Rm p.G * pzWS (consts p.g) p.Rm p.pa05) / g := by intro g; ring
  have eD : ∀ g : ℝ, p.krp * (nP (consts p.g) p.Aref p.Asigma p.Rm p.G / g * pdWS (consts p.g) p.Rm p.pa05)
      = (p.krp * nP (consts p.g) p.Aref p.Asigma p.Rm p.G * pdWS (consts p.g) p.Rm p.pa05) / g := by intro g; ring
  have nZ : 0 < p.krp * nP (consts p.g) p.Aref p.Asigma p.Rm p.G * pzWS (consts p.g) p.Rm p.pa05 := by
    have := hA.PZ_pos; rw [hZ, eZ] at this; exact (div_pos_iff_of_pos_right hg).mp this
  have nD : 0 < p.krp * nP (consts p.g) p.Aref p.Asigma p.Rm p.G * pdWS (consts p.g) p.Rm p.pa05 := by
    have := hA.1; rw [hD, eD] at this; exact (div_pos_iff_of_pos_right hg).mp this
  have hPZ : (componentCurve { p with beta := beta' }).PZ ≤ (componentCurve p).PZ := by
    rw [hZ, hZ', eZ, eZ]; exact div_le_div_of_nonneg_left nZ.le hg g2
  have hPD : (componentCurve { p with beta := beta' }).PD ≤ (componentCurve p).PD := by
    rw [hD, hD', eD, eD]; exact div_le_div_of_nonneg_left nD.le hg g2
  exact lifetime_antitone_in_curve_partial (componentCurve p) (componentCurve { p with beta := beta' }) hA hA' rfl rfl hPZ hPD _ ok hreg

/-! ## non-vacuity -/

/-- tables with positive secondary-branch values exist; ratios `[2, 3]`, point 1 -/
example : (⟨[5], [7], [9, 11], [2, 3]⟩ : Tables).SecPos ∧ (∀ c ∈ [(2:Int), 3], 0 < c) ∧ 1 < [(2:Int), 3].length := by
  refine ⟨⟨by simp, by simp, ?_, ?_⟩, ?_, by simp⟩ <;> intro v hv <;> simp at hv <;> omega

/-- the look-up really depends on the first point: with ratios 2 : 3 the first point's load 2·7 in the grid of maximum
2·10 and the point's own load 3·7 in the grid of maximum 3·10 give the same class 7 of 10 -/
example : classQ 10 (2 * 10) (2 * (3 * 7)) 3 10 = 7 ∧ classQ 10 (3 * 10) (3 * 7) 1 10 = 7 := by decide

/-- a sample between its neighbours / appended between last and first -/
example : ((3:Int) ≤ 4 ∧ (4:Int) ≤ 9) ∨ ((9:Int) ≤ 4 ∧ (4:Int) ≤ 3) := Or.inl ⟨by decide, by decide⟩

/-- a prepended sample between 0, the last and the first sample: `100 :: [200, -100, 300, 50]` -/
example : (([200, -100, 300, 50] : List Int).head? = some 200) ∧ (([200, -100, 300, 50] : List Int).getLast? = some 50) ∧
    (((0:Int) ≤ 100 ∧ (100:Int) ≤ 200) ∨ ((200:Int) ≤ 100 ∧ (100:Int) ≤ 0)) ∧
    (((50:Int) ≤ 100 ∧ (100:Int) ≤ 200) ∨ ((200:Int) ≤ 100 ∧ (100:Int) ≤ 50)) := by decide

/-- column maxima of the batch `L = [3, -7]`, ratios `[2, 3]`: 14 and 21, the points' own maxima -/
example : colMaxAbs (batchLoads [3, -7] [2, 3]) 0 = 14 ∧ colMaxAbs (batchLoads [3, -7] [2, 3]) 1 = 21 ∧
    maxAbsI ([(3:Int), -7].map (3 * ·)) = 21 := by decide

/-- a collective satisfying `RowsOk` and `Regime` (one hysteresis per pass), admissible curves one below the other -/
example : let rows : List (Row ℝ) := [⟨50, false, 1⟩, ⟨80, true, 2⟩]
    RowsOk rows ∧ (⟨-0.3, -0.2, 400, 100⟩ : PramCurve ℝ).Adm ∧ (⟨-0.3, -0.2, 300, 90⟩ : PramCurve ℝ).Adm ∧
    Regime (dam ⟨-0.3, -0.2, 300, 90⟩ rows) (dam ⟨-0.3, -0.2, 400, 100⟩ rows) := by
  intro rows
  refine ⟨⟨?_, ?_, ⟨⟨80, true, 2⟩, by simp [rows], rfl, by norm_num⟩⟩, ?_, ?_, Or.inr ?_⟩
  · intro r hr; simp [rows] at hr; rcases hr with rfl | rfl <;> norm_num
  · intro r hr; simp [rows] at hr; rcases hr with rfl | rfl <;> simp
  · unfold PramCurve.Adm; norm_num
  · unfold PramCurve.Adm; norm_num
  · simp only [dam, rows, List.map, countRun, lit_0, lit_1]; norm_num

/-- hypotheses of `N10_le_N50_le_N90_partial`: `Φ = id` (so β = −P_A), a collective without first-pass hystereses -/
example : StrictMono (id : ℝ → ℝ) ∧ id (-(-0.1 : ℝ)) = (0.1 : ℝ) ∧
    sumRun 1 (dam (reducedCurve (⟨-0.3, -0.2, 400, 100⟩ : PramCurve ℝ) 0.71 (-0.5)) [⟨80, true, 2⟩]) ≤ 1 := by
  refine ⟨strictMono_id, by simp, ?_⟩
  simp only [dam, List.map, sumRun, lit_0]
  norm_num

/-- hypotheses of `lifetime_antitone_in_Rz_partial` about the roughness: steel, `R_m = 600`, `R_z = 10 ≤ R_z' = 100` -/
example : (consts Group.Steel : Consts ℝ).R_m_N_min ≤ 2 * 600 ∧ (10:ℝ) ≤ 100 ∧
    (1 < (100:ℝ) → 0 ≤ 1 - (consts Group.Steel : Consts ℝ).a_RP * Real.logb 10 100 *
      Real.logb 10 (2 * 600 / (consts Group.Steel : Consts ℝ).R_m_N_min)) ∧
    0 < kRP (consts Group.Steel : Consts ℝ) 100 600 :=
  ⟨by simp [consts]; norm_num, by norm_num, fun _ => steel_base_pos.le, kRP_pos _ 600 100 (fun _ => steel_base_pos)⟩

/-- a safety index above another, statistical assessment on -/
example : ((3.09 : ℝ) ≤ 3.8) ∧ (1.1 : ℝ) ≤ gammaM 3.09 false := ⟨by norm_num, gammaM_ge _⟩

end PylifeVerif.C10
