/-
C12 — frames and the matrix interface of the mean stress transformation (carrier ℝ, classification `ExtR.fin`,
`ceilNat = Nat.ceil`).

B1  a row (`range`/`mean`, `from`/`to`, histogram class) of positive amplitude is read as a cycle of positive
    amplitude and admissible R whose amplitude and mean are the textbook quantities;
B2  the result row of a transform is read back as the same cycle by the next transform;
B3  frame-level FKM-Goodman statements;
B4  the matrix interface (transform + max + linspace + rebin) conserves the cycles of every node.
-/
import Proofs.C12
import Proofs.Lemmas.MeanstressGuard
import Mathlib.Algebra.Order.Archimedean.Real.Basic

namespace PylifeVerif.C12
open PylifeVerif.Meanstress ExtR

@[simp] theorem lit2_real : (2.0 : ℝ) = 2 := by norm_num

@[simp] theorem isNaN_real (x : ℝ) : isNaN x = false := by simp [isNaN]

/-! ### B1. Rows of positive amplitude -/

/-- The row has positive amplitude. -/
def RowPos : Iface → ℝ × ℝ → Prop
  | .rm, xy => 0 < xy.1
  | .ft, xy => xy.1 ≠ xy.2
  | .h,  xy => 0 < xy.1

/-- Textbook amplitude of a row. -/
noncomputable def rowAmp : Iface → ℝ × ℝ → ℝ
  | .rm, xy => xy.1 / 2
  | .ft, xy => |xy.1 - xy.2| / 2
  | .h,  xy => xy.1 / 2

/-- Textbook mean of a row. -/
noncomputable def rowMean : Iface → ℝ × ℝ → ℝ
  | .rm, xy => xy.2
  | .ft, xy => (xy.1 + xy.2) / 2
  | .h,  xy => xy.2

/-- `load_collective.R` of a cycle with `lower < upper`: admissible, and amplitude · pos R = mean. -/
theorem cycR_valid (l u : ℝ) (h : l < u) :
    ValidR (cycR fin l u) ∧ (u - l) / 2 * pos (cycR fin l u) = (u + l) / 2 := by
  unfold cycR
  by_cases hu : u ≤ 0 ∧ 0 ≤ u
  · have hu0 : u = 0 := le_antisymm hu.1 hu.2
    subst hu0
    simp only [lit0, le_refl, and_self, if_true, h]
    simp only [ValidR, pos, true_and]
    ring
  · have hu0 : u ≠ 0 := fun e => hu (by subst e; simp)
    simp only [lit0, hu, if_false]
    have hne : l / u ≠ 1 := by
      intro e; rw [div_eq_one_iff_eq hu0] at e; exact absurd e h.ne
    refine ⟨hne, ?_⟩
    simp only [pos]
    have h1 : u - l ≠ 0 := by linarith
    have h2 : 1 - l / u ≠ 0 := fun e => hne (by linarith)
    have h3 : 1 - l / u = (u - l) / u := by field_simp
    rw [h3]
    field_simp

theorem absDiff_real (a b : ℝ) : absDiff a b = |a - b| := by
  unfold absDiff
  split_ifs with h
  · rw [abs_of_neg (by linarith)]; ring
  · rw [abs_of_nonneg (by linarith)]

/-- The cycle of a `range`/`mean` row resp. of a histogram class. -/
theorem mkCycle_rm (x y : ℝ) (hx : 0 < x) :
    mkCycle fin .rm x y = ⟨x / 2, cycR fin (y - x / 2) (y + x / 2)⟩ := by
  have h : y - x / 2 < y + x / 2 := by linarith
  simp only [mkCycle, lit2_real, isNaN_real, if_true, h, absDiff, Bool.false_eq_true, if_false]
  congr 1
  ring

theorem mkCycle_h (x y : ℝ) : mkCycle fin .h x y = ⟨x / 2, cycR fin (y - x / 2) (y + x / 2)⟩ := by
  simp only [mkCycle, lit2_real]

theorem mkCycle_ft_lt (x y : ℝ) (h : x < y) : mkCycle fin .ft x y = ⟨(y - x) / 2, cycR fin x y⟩ := by
  simp [mkCycle, absDiff, h]

theorem mkCycle_ft_gt (x y : ℝ) (h : y < x) : mkCycle fin .ft x y = ⟨(x - y) / 2, cycR fin y x⟩ := by
  have : ¬ x < y := by linarith
  simp [mkCycle, absDiff, this]

theorem mkCycle_valid (kind : Iface) (xy : ℝ × ℝ) (h : RowPos kind xy) :
    0 < (mkCycle fin kind xy.1 xy.2).amp ∧ ValidR (mkCycle fin kind xy.1 xy.2).R := by
  obtain ⟨x, y⟩ := xy
  cases kind with
  | rm =>
    simp only [RowPos] at h
    rw [mkCycle_rm x y h]
    exact ⟨by simpa using h, (cycR_valid _ _ (by linarith)).1⟩
  | h =>
    simp only [RowPos] at h
    rw [mkCycle_h x y]
    exact ⟨by simpa using h, (cycR_valid _ _ (by linarith)).1⟩
  | ft =>
    simp only [RowPos] at h
    rcases lt_or_gt_of_ne h with h | h
    · rw [mkCycle_ft_lt x y h]
      exact ⟨by simp only; linarith, (cycR_valid _ _ h).1⟩
    · rw [mkCycle_ft_gt x y h]
      exact ⟨by simp only; linarith, (cycR_valid _ _ h).1⟩

/-- amplitude and mean of the row = the textbook quantities -/
theorem mkCycle_amp_mean (kind : Iface) (xy : ℝ × ℝ) (h : RowPos kind xy) :
    (mkCycle fin kind xy.1 xy.2).amp = rowAmp kind xy ∧
    (mkCycle fin kind xy.1 xy.2).amp * pos (mkCycle fin kind xy.1 xy.2).R = rowMean kind xy := by
  obtain ⟨x, y⟩ := xy
  cases kind with
  | rm =>
    simp only [RowPos] at h
    rw [mkCycle_rm x y h]
    refine ⟨rfl, ?_⟩
    have := (cycR_valid (y - x / 2) (y + x / 2) (by linarith)).2
    simp only [rowMean]
    rw [show (y + x / 2 - (y - x / 2)) / 2 = x / 2 by ring, show (y + x / 2 + (y - x / 2)) / 2 = y by ring] at this
    exact this
  | h =>
    simp only [RowPos] at h
    rw [mkCycle_h x y]
    refine ⟨rfl, ?_⟩
    have := (cycR_valid (y - x / 2) (y + x / 2) (by linarith)).2
    simp only [rowMean]
    rw [show (y + x / 2 - (y - x / 2)) / 2 = x / 2 by ring, show (y + x / 2 + (y - x / 2)) / 2 = y by ring] at this
    exact this
  | ft =>
    simp only [RowPos] at h
    rcases lt_or_gt_of_ne h with h | h
    · rw [mkCycle_ft_lt x y h]
      simp only [rowAmp, rowMean]
      refine ⟨by rw [abs_of_neg (by linarith)]; ring, ?_⟩
      rw [(cycR_valid x y h).2]; ring
    · rw [mkCycle_ft_gt x y h]
      simp only [rowAmp, rowMean]
      refine ⟨by rw [abs_of_pos (by linarith)], ?_⟩
      rw [(cycR_valid y x h).2]

/-! ### B2. Round trip -/

theorem resultMean_real (c : Cyc ℝ) : resultMean c = c.amp * pos c.R := by
  obtain ⟨a, R⟩ := c
  cases R <;> simp [resultMean, resultMean.fillna0', pos]

/-- Reading back `(a·(p-1), a·(p+1))` with `p = pos R` gives `R`. -/
theorem cycR_pos (a : ℝ) (R : ExtR ℝ) (ha : 0 < a) (hR : ValidR R) :
    cycR fin (a * pos R - a) (a * pos R + a) = R := by
  rcases R with r | _ | _ | _
  · simp only [ValidR] at hR
    have h1 : 1 - r ≠ 0 := fun e => hR (by linarith)
    have hu : a * pos (fin r) + a = 2 * a / (1 - r) := by simp only [pos]; field_simp; ring
    have hl : a * pos (fin r) - a = 2 * a * r / (1 - r) := by simp only [pos]; field_simp; ring
    have hu0 : 2 * a / (1 - r) ≠ 0 := by
      apply div_ne_zero _ h1; linarith
    have hn : ¬ (2 * a / (1 - r) ≤ 0 ∧ 0 ≤ 2 * a / (1 - r)) := fun e => hu0 (le_antisymm e.1 e.2)
    rw [hu, hl]
    unfold cycR
    simp only [lit0, hn, if_false]
    congr 1
    have : 2 * a ≠ 0 := by linarith
    field_simp
  · exact absurd hR (by simp [ValidR])
  · have : a * pos (ninf : ExtR ℝ) + a = 0 := by simp [pos]
    rw [this]
    have h2 : a * pos (ninf : ExtR ℝ) - a < 0 := by simp only [pos]; linarith
    simp [cycR, h2]
  · exact absurd hR (by simp [ValidR])

theorem mkCycle_rowOf (c : Cyc ℝ) (ha : 0 < c.amp) (hR : ValidR c.R) :
    mkCycle fin .rm (rowOf c).1 (rowOf c).2 = c := by
  obtain ⟨a, R⟩ := c
  simp only at ha hR
  simp only [rowOf, lit2_real, resultMean_real]
  rw [mkCycle_rm _ _ (by linarith)]
  rw [show 2 * a / 2 = a by ring, cycR_pos a R ha hR]

theorem frameAmp_rowOf (c : Cyc ℝ) (ha : 0 ≤ c.amp) : frameAmp (rowOf c) = c.amp := by
  simp only [frameAmp, rowOf, lit2_real, absDiff_real]
  rw [show resultMean c - 2 * c.amp / 2 - (resultMean c + 2 * c.amp / 2) = -(2 * c.amp) by ring, abs_neg,
    abs_of_nonneg (by linarith)]
  ring

/-! ### B4, first half: the class breaks cover every transformed range -/

theorem foldl_max_ge (l : List (ℝ × ℝ)) (m : ℝ) :
    m ≤ l.foldl (fun m it => if m < it.1 then it.1 else m) m ∧
    ∀ it ∈ l, it.1 ≤ l.foldl (fun m it => if m < it.1 then it.1 else m) m := by
  induction l generalizing m with
  | nil => simp
  | cons x xs ih =>
    simp only [List.foldl_cons]
    have hm : m ≤ (if m < x.1 then x.1 else m) := by split_ifs with h <;> linarith
    have hx : x.1 ≤ (if m < x.1 then x.1 else m) := by split_ifs with h <;> linarith
    obtain ⟨i1, i2⟩ := ih (if m < x.1 then x.1 else m)
    refine ⟨le_trans hm i1, ?_⟩
    intro it hit
    rcases List.mem_cons.1 hit with rfl | hit
    · exact le_trans hx i1
    · exact i2 it hit

/-- `ranges.max()` bounds every range. -/
theorem le_maxRange (items : List (ℝ × ℝ)) : ∀ it ∈ items, it.1 ≤ maxRange items := by
  intro it hit
  exact (foldl_max_ge items _).2 it hit

theorem maxRange_pos (items : List (ℝ × ℝ)) (hne : items ≠ []) (hp : ∀ it ∈ items, 0 < it.1) :
    0 < maxRange items := by
  cases items with
  | nil => exact absurd rfl hne
  | cons x xs => exact lt_of_lt_of_le (hp x List.mem_cons_self) (le_maxRange _ x List.mem_cons_self)

theorem rebin_nil_sum (es : List ℝ) : (rebin es ([] : List (ℝ × ℝ))).sum = 0 := by
  induction es with
  | nil => simp [rebin]
  | cons a as ih =>
    cases as with
    | nil => simp [rebin]
    | cons b bs =>
      simp only [rebin, List.sum_cons]
      rw [ih]
      simp [classSum]

/-- The composition max + linspace + rebin, for any way of producing positive ranges. -/
theorem matrix_conserves_of_pos (g : ExtR ℝ) (binsize : ℝ) (hb : 0 < binsize) (cells : List (Cell ℝ))
    (hp : ∀ it ∈ matItems fin g cells, 0 < it.1) (node : ℕ) :
    (matrixTransform fin (fun x => ⌈x⌉₊) g binsize cells node).sum
      = ((cells.filter fun c => c.node == node).map Cell.count).sum := by
  have hsnd : ∀ l : List (Cell ℝ), ((matItems fin g l).map Prod.snd).sum = (l.map Cell.count).sum := by
    intro l; simp [matItems, Function.comp_def]
  by_cases hne : cells = []
  · subst hne
    simp only [matrixTransform, List.filter_nil, matItems, List.map_nil, List.sum_nil]
    exact rebin_nil_sum _
  · have hne' : matItems fin g cells ≠ [] := by simpa [matItems] using hne
    have hmx := maxRange_pos _ hne' hp
    have hn : 1 ≤ ⌈maxRange (matItems fin g cells) / binsize⌉₊ :=
      Nat.one_le_iff_ne_zero.2 (Nat.ceil_pos.2 (div_pos hmx hb)).ne'
    unfold matrixTransform matBreaks
    rw [(rebin_conserves_cycles _ _ hmx hn (matItems fin g (cells.filter fun c => c.node == node)) ?_).1, hsnd]
    intro it hit
    have hmem : it ∈ matItems fin g cells := by
      simp only [matItems, List.mem_map, List.mem_filter] at hit ⊢
      obtain ⟨c, ⟨hc, _⟩, rfl⟩ := hit
      exact ⟨c, hc, rfl⟩
    exact ⟨(hp it hmem).le, le_maxRange _ it hmem⟩

/-! ### B3. Frame-level FKM-Goodman statements

The cycle-level facts are re-derived here from `transform_potential`, `goodman_compat`, `goodman_arrives` and
`goodman_guard`, so that this file does not depend on whether the theorems of `Proofs/C12.lean` still carry their
`TransformGuard` hypotheses. -/

section Goodman
variable (M M2 : ℝ) (h0 : 0 ≤ M2) (h1 : 0 ≤ M) (h2 : M < 1)
include h0 h1 h2

theorem cyc_goodman_amp (g : ExtR ℝ) (c : Cyc ℝ) (hg : ValidR g) (hR : ValidR c.R) :
    (transform (goodman M M2) g c).amp = c.amp * hG M M2 (pos c.R) / hG M M2 (pos g) := by
  have hp := transform_potential (hG M M2) (goodman M M2) g c (goodman_compat M M2 (by linarith) g hg)
    (goodman_guard M M2 h0 h1 h2 g c hg hR)
  unfold potential at hp
  rw [goodman_arrives M M2 c.amp g c.R hg hR] at hp
  rw [eq_div_iff (hG_pos M M2 h0 h1 h2 _).ne']; exact hp

theorem cyc_goodman_closed (g : ExtR ℝ) (c : Cyc ℝ) (ha : 0 < c.amp) (hg : ValidR g) (hR : ValidR c.R) :
    (transform (goodman M M2) g c).amp = goodmanClosed M M2 c.amp (c.amp * pos c.R) g := by
  rw [cyc_goodman_amp M M2 h0 h1 h2 g c hg hR, hG_goal M M2 h0 g hg, hG_cycle M M2 c.amp h0 ha]
  rfl

theorem cyc_goodman_pos (g : ExtR ℝ) (c : Cyc ℝ) (ha : 0 < c.amp) (hg : ValidR g) (hR : ValidR c.R) :
    0 < (transform (goodman M M2) g c).amp := by
  rw [cyc_goodman_amp M M2 h0 h1 h2 g c hg hR]
  exact div_pos (mul_pos ha (hG_pos M M2 h0 h1 h2 _)) (hG_pos M M2 h0 h1 h2 _)

theorem cyc_goodman_path (g₁ g₂ : ExtR ℝ) (c : Cyc ℝ) (hg1 : ValidR g₁) (hg2 : ValidR g₂) (hR : ValidR c.R) :
    transform (goodman M M2) g₂ (transform (goodman M M2) g₁ c) = transform (goodman M M2) g₂ c := by
  have r1 : (transform (goodman M M2) g₁ c).R = g₁ := goodman_arrives M M2 c.amp g₁ c.R hg1 hR
  have a1 := cyc_goodman_amp M M2 h0 h1 h2 g₁ c hg1 hR
  have hR1 : ValidR (transform (goodman M M2) g₁ c).R := by rw [r1]; exact hg1
  have r12 : (transform (goodman M M2) g₂ (transform (goodman M M2) g₁ c)).R = g₂ :=
    goodman_arrives M M2 _ g₂ _ hg2 hR1
  have a12 := cyc_goodman_amp M M2 h0 h1 h2 g₂ (transform (goodman M M2) g₁ c) hg2 hR1
  have r2 : (transform (goodman M M2) g₂ c).R = g₂ := goodman_arrives M M2 c.amp g₂ c.R hg2 hR
  have a2 := cyc_goodman_amp M M2 h0 h1 h2 g₂ c hg2 hR
  rw [r1, a1, div_mul_cancel₀ _ (hG_pos M M2 h0 h1 h2 _).ne'] at a12
  cases hx : transform (goodman M M2) g₂ (transform (goodman M M2) g₁ c) with
  | mk a R =>
    cases hy : transform (goodman M M2) g₂ c with
    | mk a' R' => rw [hx] at r12 a12; rw [hy] at r2 a2; simp_all

/-- The amplitude read from the result frame is the closed-form FKM-Goodman amplitude of the row. -/
theorem goodman_frame_eq_closed_form (g : ExtR ℝ) (hg : ValidR g) (kind : Iface) (xy : ℝ × ℝ) (h : RowPos kind xy) :
    frameAmp (transformFrame fin (goodman M M2) g kind xy) = goodmanClosed M M2 (rowAmp kind xy) (rowMean kind xy) g := by
  obtain ⟨ha, hR⟩ := mkCycle_valid kind xy h
  obtain ⟨e1, e2⟩ := mkCycle_amp_mean kind xy h
  unfold transformFrame
  rw [frameAmp_rowOf _ (cyc_goodman_pos M M2 h0 h1 h2 g _ ha hg hR).le,
    cyc_goodman_closed M M2 h0 h1 h2 g _ ha hg hR, e2, e1]

/-- The result row lies on the target ray: mean = amplitude · pos g. -/
theorem goodman_frame_on_target_ray (g : ExtR ℝ) (hg : ValidR g) (kind : Iface) (xy : ℝ × ℝ) (h : RowPos kind xy) :
    (transformFrame fin (goodman M M2) g kind xy).2
      = frameAmp (transformFrame fin (goodman M M2) g kind xy) * pos g := by
  obtain ⟨ha, hR⟩ := mkCycle_valid kind xy h
  unfold transformFrame
  rw [frameAmp_rowOf _ (cyc_goodman_pos M M2 h0 h1 h2 g _ ha hg hR).le]
  simp only [rowOf, resultMean_real]
  rw [goodman_arrives M M2 _ g _ hg hR]

/-- The transformed range is positive. -/
theorem goodman_frame_positive (g : ExtR ℝ) (hg : ValidR g) (kind : Iface) (xy : ℝ × ℝ) (h : RowPos kind xy) :
    0 < (transformFrame fin (goodman M M2) g kind xy).1 := by
  obtain ⟨ha, hR⟩ := mkCycle_valid kind xy h
  have := cyc_goodman_pos M M2 h0 h1 h2 g _ ha hg hR
  simp only [transformFrame, rowOf, lit2_real]
  linarith

/-- The next transform reads the result frame back as the transformed cycle. -/
theorem goodman_frame_readback (g : ExtR ℝ) (hg : ValidR g) (kind : Iface) (xy : ℝ × ℝ) (h : RowPos kind xy) :
    mkCycle fin .rm (transformFrame fin (goodman M M2) g kind xy).1 (transformFrame fin (goodman M M2) g kind xy).2
      = transform (goodman M M2) g (mkCycle fin kind xy.1 xy.2) := by
  obtain ⟨ha, hR⟩ := mkCycle_valid kind xy h
  unfold transformFrame
  apply mkCycle_rowOf _ (cyc_goodman_pos M M2 h0 h1 h2 g _ ha hg hR)
  rw [goodman_arrives M M2 _ g _ hg hR]; exact hg

theorem goodman_frame_path_independent (g₁ g₂ : ExtR ℝ) (hg1 : ValidR g₁) (hg2 : ValidR g₂) (kind : Iface)
    (xy : ℝ × ℝ) (h : RowPos kind xy) :
    transformChain fin (goodman M M2) kind [g₁, g₂] xy = transformChain fin (goodman M M2) kind [g₂] xy := by
  obtain ⟨ha, hR⟩ := mkCycle_valid kind xy h
  simp only [transformChain, List.foldl]
  rw [transformFrame, goodman_frame_readback M M2 h0 h1 h2 g₁ hg1 kind xy h,
    cyc_goodman_path M M2 h0 h1 h2 g₁ g₂ _ hg1 hg2 hR]
  rfl

theorem goodman_frame_idempotent (g : ExtR ℝ) (hg : ValidR g) (kind : Iface) (xy : ℝ × ℝ) (h : RowPos kind xy) :
    transformChain fin (goodman M M2) kind [g, g] xy = transformChain fin (goodman M M2) kind [g] xy :=
  goodman_frame_path_independent M M2 h0 h1 h2 g g hg hg kind xy h

end Goodman

/-! ### B4. Matrix interface -/

/-- `MeanstressTransformMatrix.fkm_goodman`: for every key `node` of the remaining index levels the class sums of the
re-binned transformed ranges add up to the number of cycles of that key (`hn : ∃ c ∈ cells, c.node = node` of the
task statement is not needed: for a key without classes both sides are 0). -/
theorem matrixTransform_conserves_cycles (g : ExtR ℝ) (hg : ValidR g) (binsize : ℝ) (hb : 0 < binsize) (cells : List (Cell ℝ))
    (hc : ∀ c ∈ cells, 0 < c.x ∧ ∃ M M2, 0 ≤ M2 ∧ 0 ≤ M ∧ M < 1 ∧ c.D = goodman M M2) (node : ℕ) :
    (matrixTransform fin (fun x => ⌈x⌉₊) g binsize cells node).sum
      = ((cells.filter fun c => c.node == node).map Cell.count).sum := by
  apply matrix_conserves_of_pos g binsize hb cells
  intro it hit
  simp only [matItems, List.mem_map] at hit
  obtain ⟨c, hcm, rfl⟩ := hit
  obtain ⟨hx, M, M2, h0, h1, h2, hD⟩ := hc c hcm
  rw [hD]
  exact goodman_frame_positive M M2 h0 h1 h2 g hg .h (c.x, c.y) hx

/-! ### Non-vacuity -/

example : RowPos .ft ((3 : ℝ), -1) := by simp [RowPos]; norm_num

/-- `from`/`to` row (3, -1): amplitude 2, R = -1/3 (mean 1). -/
example : mkCycle fin .ft (3 : ℝ) (-1) = ⟨2, fin (-1 / 3)⟩ := by
  rw [mkCycle_ft_gt _ _ (by norm_num)]
  norm_num [cycR]

example : (mkCycle fin .ft (3 : ℝ) (-1)).amp = 2 ∧
    (mkCycle fin .ft (3 : ℝ) (-1)).amp * pos (mkCycle fin .ft (3 : ℝ) (-1)).R = 1 := by
  have := mkCycle_amp_mean .ft ((3 : ℝ), -1) (by simp [RowPos]; norm_num)
  simp only [rowAmp, rowMean] at this
  norm_num at this
  exact this

/-- pulsating compression `range`/`mean` row (2, -1): upper load 0, R = -∞. -/
example : mkCycle fin .rm (2 : ℝ) (-1) = ⟨1, ninf⟩ := by
  rw [mkCycle_rm _ _ (by norm_num)]
  norm_num [cycR]

example : mkCycle fin .rm (rowOf (⟨1, fin 2⟩ : Cyc ℝ)).1 (rowOf (⟨1, fin 2⟩ : Cyc ℝ)).2 = ⟨1, fin 2⟩ :=
  mkCycle_rowOf _ (by norm_num) (by simp [ValidR])

example : frameAmp (rowOf (⟨0, ninf⟩ : Cyc ℝ)) = 0 := frameAmp_rowOf _ (by norm_num)

/-- M = 1/2, M2 = 1/6, histogram class (range 2, mean 3) (R = 1/2) to R = -∞: crosses R = 0. -/
example : frameAmp (transformFrame fin (goodman (1/2 : ℝ) (1/6)) ninf .h (2, 3)) = 27/7 := by
  rw [goodman_frame_eq_closed_form (1/2) (1/6) (by norm_num) (by norm_num) (by norm_num) ninf (by simp [ValidR]) .h
    (2, 3) (by simp [RowPos])]
  norm_num [goodmanClosed, eqAmp, backFactor, rowAmp, rowMean]

example : transformChain fin (goodman (1/2 : ℝ) (1/6)) .ft [fin 2, fin (-1)] (3, -1)
    = transformChain fin (goodman (1/2 : ℝ) (1/6)) .ft [fin (-1)] (3, -1) :=
  goodman_frame_path_independent (1/2) (1/6) (by norm_num) (by norm_num) (by norm_num) (fin 2) (fin (-1))
    (by simp [ValidR]) (by simp [ValidR]; norm_num) .ft (3, -1) (by simp [RowPos]; norm_num)

example : transformChain fin (goodman (1/2 : ℝ) (1/6)) .rm [ninf, ninf] (2, 3)
    = transformChain fin (goodman (1/2 : ℝ) (1/6)) .rm [ninf] (2, 3) :=
  goodman_frame_idempotent (1/2) (1/6) (by norm_num) (by norm_num) (by norm_num) ninf (by simp [ValidR]) .rm (2, 3)
    (by simp [RowPos])

example : (transformFrame fin (goodman (1/2 : ℝ) (1/6)) ninf .h (2, 3)).2
    = frameAmp (transformFrame fin (goodman (1/2 : ℝ) (1/6)) ninf .h (2, 3)) * pos ninf :=
  goodman_frame_on_target_ray (1/2) (1/6) (by norm_num) (by norm_num) (by norm_num) ninf (by simp [ValidR]) .h (2, 3)
    (by simp [RowPos])

example : 0 < (transformFrame fin (goodman (1/2 : ℝ) (1/6)) (fin 2) .rm (2, 3)).1 :=
  goodman_frame_positive (1/2) (1/6) (by norm_num) (by norm_num) (by norm_num) (fin 2) (by simp [ValidR]) .rm (2, 3)
    (by simp [RowPos])

/-- Two nodes with different diagrams, three classes; target R = -1, bin size 1/2: node 0 keeps its 7 + 5 cycles. -/
example :
    (matrixTransform fin (fun x : ℝ => ⌈x⌉₊) (fin (-1)) (1/2)
      [⟨0, goodman (1/2) (1/6), 2, 3, 7⟩, ⟨1, goodman (3/10) (1/10), 4, -1, 2⟩, ⟨0, goodman (1/2) (1/6), 1, 0, 5⟩] 0).sum
      = 12 := by
  rw [matrixTransform_conserves_cycles (fin (-1)) (by simp [ValidR]; norm_num) (1/2) (by norm_num)]
  · simp; norm_num
  · intro c hc
    simp only [List.mem_cons, List.not_mem_nil, or_false] at hc
    rcases hc with rfl | rfl | rfl
    · exact ⟨by norm_num, 1/2, 1/6, by norm_num, by norm_num, by norm_num, rfl⟩
    · exact ⟨by norm_num, 3/10, 1/10, by norm_num, by norm_num, by norm_num, rfl⟩
    · exact ⟨by norm_num, 1/2, 1/6, by norm_num, by norm_num, by norm_num, rfl⟩

end PylifeVerif.C12
