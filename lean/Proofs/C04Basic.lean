import Proofs.Lemmas.HCMBasic
import Proofs.Lemmas.HCMFlush

namespace PylifeVerif
open HCM
namespace C04

/-- a one-point load sequence -/
def one (s : List Int) : List Vec := s.map fun x => [x]

/-- (min, max) load of the first point of every hysteresis recorded in pass 2 -/
def pass2Ranges (st : State) : List (Int × Int) :=
  (st.recs.filter (·.run = 2)).map fun h => (rep h.loadMin, rep h.loadMax)

def TwoDistinct (s : List Int) : Prop := ∃ a ∈ s, ∃ b ∈ s, a ≠ b

/-- the property of one record claimed by `memory3_symmetric` -/
def RecOK (h : Hyst) : Prop :=
  (h.closed = false → h.zeroMean = true ∧ h.loadMin = vneg h.loadMax ∧ h.sMin = vneg h.sMax ∧ h.eMin = vneg h.eMax) ∧
  (h.closed = true → h.zeroMean = false)

theorem recOK_half (st : State) (prev : HPoint) : RecOK (halfHyst st prev) := by
  simp [RecOK, halfHyst]

theorem recOK_closed (st : State) (p0 p1 : HPoint) : RecOK (closedHyst st p0 p1) := by
  simp [RecOK, closedHyst]

/-- Half-counted (Memory 3) hystereses are symmetric about zero and carry the zero-mean flag;
closed ones do not. -/
theorem memory3_symmetric (law : Law) (s : List Vec) :
    ∀ h ∈ (twoPassR law s).recs,
      (h.closed = false → h.zeroMean = true ∧ h.loadMin = vneg h.loadMax ∧ h.sMin = vneg h.sMax ∧ h.eMin = vneg h.eMax) ∧
      (h.closed = true → h.zeroMean = false) := by
  unfold twoPassR
  have p1 := process_recs law RecOK {} (adjustFirstRunR (dropTrailingNonReversals s)).1
    (adjustFirstRunR (dropTrailingNonReversals s)).2
    (fun _ st' prev _ => recOK_half st' prev) (fun st' p0 p1 _ => recOK_closed st' p0 p1)
    (by intro h hh; simp at hh)
  have p2 := process_recs law RecOK _ (dropTrailingNonReversals s) true
    (fun _ st' prev _ => recOK_half st' prev) (fun st' p0 p1 _ => recOK_closed st' p0 p1) p1.2.2.2
  exact p2.2.2.2


/-- the property of one record claimed by `pass2_all_closed` -/
def Pass2Closed (h : Hyst) : Prop := h.run = 2 → h.closed = true

/-- Memory 3 occurs only in the first pass - under the explicit (decidable) hypothesis that the first
pass flushes, i.e. is fed the last sample of the trimmed sequence.  (This hypothesis is what
`TwoDistinct (s.map rep)` provides, see below.) -/
theorem pass2_all_closed_of_flush (law : Law) (s : List Vec)
    (hf : (adjustFirstRunR (dropTrailingNonReversals s)).2 = true) :
    ∀ h ∈ (twoPassR law s).recs, h.run = 2 → h.closed = true := by
  rw [twoPass_eq, hf, adjustFirstRun_fst]
  generalize dropTrailingNonReversals s = s'
  generalize hz : List.replicate (s'.headD []).length (0 : Int) = z
  have hz0 : rep z = 0 := by rw [← hz]; exact rep_replicate_zero _
  -- pass 1
  have p1 := process_recs law Pass2Closed {} (z :: s') true
    (fun _ st' prev hr => by intro h2; simp [halfHyst, hr] at h2)
    (fun st' p0 p1 _ => by intro _; rfl)
    (by intro h hh; simp at hh)
  obtain ⟨r1, _, d1, q1⟩ := p1
  have hdom : ∀ x ∈ (z :: s').map rep,
      x.natAbs ≤ (process law {} (z :: s') true).loadMax := by
    intro x hx
    obtain ⟨load, hl, hle⟩ := pass1_dominates s' z hz0 x hx
    exact Nat.le_trans hle (d1 load hl)
  have hls : (process law {} (z :: s') true).lastSample ∈ z :: s' := by
    rw [process_lastSample, List.getLastD_cons]
    cases hs : s' with
    | nil => simp
    | cons a l =>
      rw [List.getLastD_eq_getLast?, List.getLast?_eq_some_getLast (List.cons_ne_nil _ _)]
      exact List.mem_cons_of_mem _ (List.getLast_mem _)
  -- pass 2
  have hno : ¬ ∃ load ∈ procLoads (process law {} (z :: s') true) s' true,
      (rep load).natAbs > (process law {} (z :: s') true).loadMax := by
    rintro ⟨load, hl, hgt⟩
    rcases procLoads_mem _ _ _ load hl with h | h | h
    · have := hdom (rep load) (List.mem_map.mpr ⟨load, by rw [h]; exact hls, rfl⟩)
      omega
    · have := hdom (rep load) (List.mem_map.mpr ⟨load, List.mem_cons_of_mem _ h, rfl⟩)
      omega
    · rw [h] at hgt; simp [rep] at hgt
  have p2 := process_recs law Pass2Closed (process law {} (z :: s') true) s' true
    (fun hex => absurd hex hno) (fun st' p0 p1 _ => by intro _; rfl) q1
  exact p2.2.2.2


/-- Memory 3 occurs only in the first pass: every hysteresis of pass 2 is a full one. -/
theorem pass2_all_closed (law : Law) (s : List Vec) (h2 : TwoDistinct (s.map rep)) :
    ∀ h ∈ (twoPassR law s).recs, h.run = 2 → h.closed = true :=
  pass2_all_closed_of_flush law s (flush_of_twoDistinct s h2)

/-! ### non-vacuity -/

example : TwoDistinct ((one [100, -200, 0, 200, -100, 100]).map rep) :=
  ⟨100, by decide, -200, by decide, by decide⟩

/-- a sequence whose two passes record half (Memory 3) and closed hystereses, some of them in pass 2 -/
example : ((twoPassR lawLinear (one [100, -200, 0, 200, -100, 100])).recs.map
    fun h => (h.run, h.closed, rep h.loadMin, rep h.loadMax)) =
    [(1, false, -100, 100), (2, true, -100, 100), (2, true, -200, 200)] := by decide +kernel

end C04
end PylifeVerif
