import Proofs.Lemmas.HCMCommon

namespace PylifeVerif
open HCM
namespace C04

/-- a one-point load sequence -/
def one (s : List Int) : List Vec := s.map fun x => [x]

/-- (min, max) load of the first point of every hysteresis recorded in pass 2 -/
def pass2Ranges (st : State) : List (Int × Int) :=
  (st.recs.filter (·.run = 2)).map fun h => (rep h.loadMin, rep h.loadMax)

def TwoDistinct (s : List Int) : Prop := ∃ a ∈ s, ∃ b ∈ s, a ≠ b

end C04
end PylifeVerif
