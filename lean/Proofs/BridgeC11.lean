/-
Bridge C11: the definitions that /verif/translate/closedform.py regenerates from the CURRENT source of
  src/pylife/strength/miner.py   (Generated/Miner.lean: module function `effective_damage_sum`,
                                  `MinerBase.finite_life_factor`; `self.ND` / `self.k_1` are resolved through the
                                  properties of the base class in materiallaws/woehlercurve.py)
are equal, over ℝ, to the hand-written model `Model/Miner.lean` (`effectiveDamageSum`, `finiteLifeFactor`) that
`Proofs/C11.lean` (`effective_damage_sum_bounds`, …) is about.  Editing a bound, a coefficient or an exponent in the
source changes the generated definition and these proofs stop compiling.
`lifetime_multiple`, `gassner_cycles`, `gassner`, `solidity.haibach`, `Fatigue.damage` work on pandas collectives
(boolean masks, dot products, `.max()` over occupied classes): outside the translator's straight-line subset, tied by
the correspondence run (K).
-/
import Proofs.Lemmas.Miner
import Proofs.BridgeTactics
import Mathlib.Analysis.SpecialFunctions.Pow.Real
import Generated.Miner
import Generated.MinerStatus

set_option linter.unusedTactic false
set_option linter.unreachableTactic false
set_option linter.unusedVariables false
set_option linter.unnecessarySeqFocus false
set_option linter.unusedSimpArgs false

namespace PylifeVerif.Bridge
open PylifeVerif PylifeVerif.Miner

theorem effective_damage_sum_eq (A : ℝ) :
    Generated.effective_damage_sum A = effectiveDamageSum A := by
  (simp only [Generated.effective_damage_sum, Generated.py_min, Generated.py_max, effectiveDamageSum, pyMin, pyMax,
    transc_pow]) <;> bridge

theorem finite_life_factor_eq (c : Curve ℝ) (N : ℝ) :
    Generated.MinerBase.finite_life_factor c.ND c.k1 N = finiteLifeFactor c N := by
  (simp only [Generated.MinerBase.finite_life_factor, finiteLifeFactor, transc_pow]) <;> bridge

end PylifeVerif.Bridge
