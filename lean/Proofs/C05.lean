/- C05: HCM stress-strain bookkeeping, point by point. -/
import Model.HCMSpec
import Proofs.C05Core
import Proofs.C05Mirror
import Proofs.C05Code
import Proofs.C04Code
import Proofs.C05Literal
