import Model.HCMSpec
