/-
C02 for the three-point detector model: on a single chunk it records the same cycles as the
four-point detector model and leaves the same residual.  Consequence of
`ThreePoint.tpRun_eq_fpRun` (the two models agree on every chunk list, cycles in the same order).
-/
import Proofs.Lemmas.ThreePoint
import Proofs.C02FourPoint

namespace PylifeVerif.C02
open PylifeVerif.Rainflow PylifeVerif.ThreePoint

theorem threePoint_same_cycles (s : List Int) (_h : 2 ≤ s.length) :
    (tpRun [s]).cycles.Perm (fpRun [s]).cycles ∧ residualPts (tpRun [s]) = residualPts (fpRun [s]) := by
  rw [tpRun_eq_fpRun]
  exact ⟨List.Perm.refl _, rfl⟩

/-- Stronger form actually proved: same cycles in the same order. -/
theorem threePoint_same_cycles_eq (s : List Int) :
    (tpRun [s]).cycles = (fpRun [s]).cycles ∧ residualPts (tpRun [s]) = residualPts (fpRun [s]) := by
  rw [tpRun_eq_fpRun]
  exact ⟨rfl, rfl⟩

/-! Non-vacuity: plateaus, nested cycles, updates of highest and lowest front. -/
example : 2 ≤ ([0, 5, 5, 2, 4, 4, 1, 6, 6, 0] : List Int).length := by decide
example := threePoint_same_cycles [0, 5, 5, 2, 4, 4, 1, 6, 6, 0] (by decide)
example : (tpRun [[0, 5, 5, 2, 4, 4, 1, 6, 6, 0]]).cycles = [((3, 2), (4, 4)), ((1, 5), (6, 1))] := by
  decide +kernel
example : residualPts (tpRun [[0, 5, 5, 2, 4, 4, 1, 6, 6, 0]]) = [(0, 0), (7, 6), (9, 0)] := by
  decide +kernel

end PylifeVerif.C02

section AxiomCheck
#print axioms PylifeVerif.C02.threePoint_same_cycles
#print axioms PylifeVerif.C02.threePoint_same_cycles_eq
end AxiomCheck
