/-
Bridge C09: the definitions that /verif/translate/closedform.py regenerates from the CURRENT source of
  src/pylife/strength/woehler_fkm_nonlinear.py      (Generated/WoehlerFkmNonlinear.lean)
  src/pylife/strength/fkm_load_distribution.py      (Generated/FkmLoadDistribution.lean)
  src/pylife/strength/fkm_nonlinear/constants.py    (Generated/FkmConstants.lean)
are equal, over ℝ, to the hand-written model `Model/FkmNonlinear.lean` that the theorems of `Proofs/C09.lean` are
about.  Every C09 theorem about `pramCalcN`, `pramCalcP`, `pramLifeLimit`, `prajCalcN`, `prajCalcP`, `prajLifeLimit`,
`getBeta`, `gammaL…`, `consts` therefore is a theorem about what the python source says now.  Editing a
coefficient, a comparison or a branch in the source changes the generated definition and these proofs stop compiling;
re-ordering summands / factors or renaming locals does not.  The `…Status` modules fail to build when the translator
could not translate a whitelisted function (a broken proof obligation).
-/
import Proofs.Lemmas.FkmNonlinear
import Proofs.BridgeTactics
import Generated.WoehlerFkmNonlinear
import Generated.WoehlerFkmNonlinearStatus
import Generated.FkmLoadDistribution
import Generated.FkmLoadDistributionStatus
import Generated.FkmConstants
import Generated.FkmConstantsStatus

set_option linter.unusedTactic false
set_option linter.unreachableTactic false
set_option linter.unusedVariables false
set_option linter.unnecessarySeqFocus false
set_option linter.unusedSimpArgs false

namespace PylifeVerif.Bridge
open PylifeVerif PylifeVerif.FkmNl

/-- generated `Ext` (a number or `np.inf`) as the hand model's `Life` -/
def lifeOfExt : Generated.Ext ℝ → Life ℝ
  | .fin x => .finite x
  | .posInf => .inf

/-- the same for `Ext`-valued results compared through `lifeOfExt` -/
macro "bridge_ext" : tactic => `(tactic| ((try norm_num) <;>
  first
  | (split_ifs <;> simp only [lifeOfExt, Life.finite.injEq] <;> bridge_leaf)
  | (simp only [lifeOfExt, Life.finite.injEq] <;> bridge_leaf)))

/-! ## `woehler_fkm_nonlinear.py`: P_RAM curve -/

theorem pram_fatigue_life_limit_eq (c : PramCurve ℝ) :
    Generated.WoehlerCurvePRAM.fatigue_life_limit c.d1 c.d2 c.PZ c.PD = pramLifeLimit c := by
  simp only [Generated.WoehlerCurvePRAM.fatigue_life_limit, Generated.WoehlerCurvePRAM.fatigue_strength_limit,
    pramLifeLimit, transc_pow]
  norm_num

theorem pram_fatigue_strength_limit_eq (c : PramCurve ℝ) :
    Generated.WoehlerCurvePRAM.fatigue_strength_limit c.d1 c.d2 c.PZ c.PD = c.PD := by
  simp only [Generated.WoehlerCurvePRAM.fatigue_strength_limit]

theorem pram_calc_N_eq (c : PramCurve ℝ) (P : ℝ) :
    lifeOfExt (Generated.WoehlerCurvePRAM.calc_N c.d1 c.d2 c.PZ c.PD P) = pramCalcN c P := by
  (simp only [Generated.WoehlerCurvePRAM.calc_N, Generated.WoehlerCurvePRAM.fatigue_strength_limit,
    pramCalcN, pramN, transc_pow]) <;> bridge_ext

theorem pram_calc_P_RAM_eq (c : PramCurve ℝ) (N : ℝ) :
    Generated.WoehlerCurvePRAM.calc_P_RAM c.d1 c.d2 c.PZ c.PD N = pramCalcP c N := by
  (simp only [Generated.WoehlerCurvePRAM.calc_P_RAM, ← pram_fatigue_life_limit_eq,
    Generated.WoehlerCurvePRAM.fatigue_life_limit, Generated.WoehlerCurvePRAM.fatigue_strength_limit,
    pramCalcP, transc_pow]) <;> bridge

/-! ## `woehler_fkm_nonlinear.py`: P_RAJ curve -/

theorem praj_limits_eq (c : PrajCurve ℝ) :
    Generated.WoehlerCurvePRAJ.init_P_RAJ_D c.d c.PZ c.PD0 c.PD = c.PD0 ∧
    Generated.WoehlerCurvePRAJ.fatigue_strength_limit c.d c.PZ c.PD0 c.PD = c.PD0 ∧
    Generated.WoehlerCurvePRAJ.fatigue_strength_limit_final c.d c.PZ c.PD0 c.PD = c.PD ∧
    Generated.WoehlerCurvePRAJ.fatigue_life_limit c.d c.PZ c.PD0 c.PD = prajLifeLimit c ∧
    Generated.WoehlerCurvePRAJ.fatigue_life_limit_final c.d c.PZ c.PD0 c.PD = prajLifeLimitFinal c := by
  simp only [Generated.WoehlerCurvePRAJ.init_P_RAJ_D, Generated.WoehlerCurvePRAJ.fatigue_strength_limit,
    Generated.WoehlerCurvePRAJ.fatigue_strength_limit_final, Generated.WoehlerCurvePRAJ.fatigue_life_limit,
    Generated.WoehlerCurvePRAJ.fatigue_life_limit_final, prajLifeLimit, prajLifeLimitFinal, transc_pow]
  norm_num

/-- `calc_N(P_RAJ)` with the stored `_P_RAJ_D` (`P_RAJ_D=None`) -/
theorem praj_calc_N_eq (c : PrajCurve ℝ) (P : ℝ) :
    lifeOfExt (Generated.WoehlerCurvePRAJ.calc_N c.d c.PZ c.PD0 c.PD P none) = prajCalcN c P := by
  (simp only [Generated.WoehlerCurvePRAJ.calc_N, prajCalcN, prajN, transc_pow, Option.getD_none]) <;> bridge_ext

/-- `calc_N(P_RAJ, P_RAJ_D)` with an explicit endurance value = the curve whose `_P_RAJ_D` is that value -/
theorem praj_calc_N_explicit_eq (c : PrajCurve ℝ) (P x : ℝ) :
    lifeOfExt (Generated.WoehlerCurvePRAJ.calc_N c.d c.PZ c.PD0 c.PD P (some x)) = prajCalcN { c with PD := x } P := by
  (simp only [Generated.WoehlerCurvePRAJ.calc_N, prajCalcN, prajN, transc_pow, Option.getD_some]) <;> bridge_ext

theorem praj_calc_P_RAJ_eq (c : PrajCurve ℝ) (N : ℝ) :
    Generated.WoehlerCurvePRAJ.calc_P_RAJ c.d c.PZ c.PD0 c.PD N = prajCalcP c N := by
  (simp only [Generated.WoehlerCurvePRAJ.calc_P_RAJ, Generated.WoehlerCurvePRAJ.fatigue_life_limit,
    Generated.WoehlerCurvePRAJ.fatigue_strength_limit, prajCalcP, prajLifeLimit, transc_pow]) <;> bridge

/-! ## `fkm_load_distribution.py`: β table and the three `gamma_L` -/

theorem np_isclose_iff (a b : ℝ) : Generated.np_isclose a b ↔ isclose a b := by
  simp only [Generated.np_isclose, isclose]

theorem beta_table_eq : (Generated.FKMLoadSequence.P_A_beta_list : List (ℝ × ℝ)) = betaTable := by
  simp only [Generated.FKMLoadSequence.P_A_beta_list, betaTable, List.cons.injEq, Prod.mk.injEq, and_true]
  norm_num

theorem get_beta_eq (PA : ℝ) : Generated.FKMLoadSequence._get_beta PA = getBeta PA := by
  (simp only [Generated.FKMLoadSequence._get_beta, getBeta, getBetaIn, betaTable, np_isclose_iff]) <;> bridge

theorem gamma_L_normal_eq (PA PL sL Lmax : ℝ) :
    (Generated.FKMLoadSequence._get_beta PA).map
      (fun β => Generated.FKMLoadDistributionNormal.gamma_L PL sL β Lmax) = gammaLNormal PA PL sL Lmax := by
  rw [get_beta_eq]
  simp only [gammaLNormal]
  congr 1
  funext β
  (simp only [Generated.FKMLoadDistributionNormal.gamma_L, alphaL, np_isclose_iff]) <;> bridge

theorem gamma_L_lognormal_eq (PA PL LSDs : ℝ) :
    (Generated.FKMLoadSequence._get_beta PA).map
      (fun β => Generated.FKMLoadDistributionLognormal.gamma_L PL LSDs β) = gammaLLognormal PA PL LSDs := by
  rw [get_beta_eq]
  simp only [gammaLLognormal]
  congr 1
  funext β
  (simp only [Generated.FKMLoadDistributionLognormal.gamma_L, Generated.py_max, alphaL, np_isclose_iff, transc_pow]) <;> bridge

theorem gamma_L_blanket_eq (PL : ℝ) :
    Generated.FKMLoadDistributionBlanket.gamma_L PL = gammaLBlanket PL := by
  (simp only [Generated.FKMLoadDistributionBlanket.gamma_L, gammaLBlanket, np_isclose_iff]) <;> bridge

/-! ## `fkm_nonlinear/constants.py`: the table -/

/-- the column name of a material group in `all_constants` -/
def groupName : Group → String
  | .Steel => "Steel"
  | .SteelCast => "SteelCast"
  | .AlWrought => "Al_wrought"

/-- the keys of `all_constants` in the order of `Consts.toList` -/
def constKeys : List String :=
  ["E", "n_prime", "a_sigma", "a_epsilon", "b_sigma", "b_epsilon", "epsilon_grenz",
   "f_25percent_damage_woehler", "a_PZ_RAM", "b_PZ_RAM", "a_PD_RAM", "b_PD_RAM", "d_1", "d_2",
   "f_25percent_material_woehler_FKM_nonlinear_RAM", "f_25percent_material_woehler_FKM_roughness_RAM",
   "k_st", "a_RP", "b_RP", "R_m_N_min", "a_M", "b_M", "R_m_bm", "d_RAJ",
   "f_25percent_material_woehler_FKM_nonlinear_RAJ", "f_25percent_material_woehler_FKM_roughness_RAJ",
   "a_PZ_RAJ", "b_PZ_RAJ", "a_PD_RAJ", "b_PD_RAJ"]

/-- an entry of the generated table as the hand model carries it: `none` for `np.inf` and for a missing key (NaN) -/
def entry (tab : List (String × List (String × Generated.Ext ℝ))) (col key : String) : Option ℝ :=
  match (tab.lookup col).bind (fun rows => rows.lookup key) with
  | some (.fin x) => some x
  | _ => none

/-- the keys of `all_constants` that enter C09 (`Guideline.row` of `Proofs/C09.lean`, same order) -/
def c09Keys : List String :=
  ["E", "a_M", "b_M", "d_1", "d_2", "a_PZ_RAM", "b_PZ_RAM", "a_PD_RAM", "b_PD_RAM",
   "d_RAJ", "a_PZ_RAJ", "b_PZ_RAJ", "a_PD_RAJ", "b_PD_RAJ"]

/-- the generated copy of `all_constants` (what `constants.py` says now) carries, for the keys C09 reads, the values of the
hand model (which `C09.constants_eq_guideline` ties to the guideline's table).  The comparison of the WHOLE table
(`constants_eq`, `constants_keys_complete`) lives in `Proofs/BridgeConstsAll.lean`: the remaining keys (`k_st`, `a_RP`, `f_25…`,
…) are read by the assessment (C10) only, an edit there is not a C09 matter. -/
theorem constants_eq_c09 (g : Group) :
    c09Keys.map (entry Generated.all_constants (groupName g)) =
      [some (consts g : Consts ℝ).E, some (consts g).a_M, some (consts g).b_M, some (consts g).d_1, some (consts g).d_2,
       some (consts g).a_PZ_RAM, some (consts g).b_PZ_RAM, some (consts g).a_PD_RAM, some (consts g).b_PD_RAM,
       some (consts g).d_RAJ, some (consts g).a_PZ_RAJ, some (consts g).b_PZ_RAJ, some (consts g).a_PD_RAJ,
       some (consts g).b_PD_RAJ] := by
  cases g <;>
    simp [c09Keys, groupName, entry, Generated.all_constants, consts, List.lookup] <;>
    norm_num

end PylifeVerif.Bridge
