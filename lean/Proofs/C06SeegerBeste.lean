/-
C06, Seeger-Beste — the mathematical equation 2.8-42 on the OPEN bracket `L/K_p < σ < L`.

`Proofs/C06.lean` proves for the Seeger-Beste law only the symmetry, the Masing reduction and that inside the open
bracket no `np.divide` fall-back is taken (`seegerBeste_domain_partial`, `seegerBeste_root_iff_partial`).  This file closes
the gap named there: bracket (as one-sided limits), existence, strict monotonicity, uniqueness, monotone dependence on
the load and the backward function as the inverse, for

    G(σ, L) = sbG m σ L = ε(σ) − _middle_term(σ, L) · _neuber_strain(σ, L)

(`sbStressImplicit m σ L = 0 ↔ sbG m σ L = 0` on the open bracket, `seegerBeste_root_iff_G`) and for the coded quotient form
`sbStressImplicit` itself.  Hypotheses: `Mat.Adm` (`E, K' > 0`, `0 < n' < 1`, `K_p ≥ 1`) and `K_p > 1` (for `K_p = 1` the
`u`-term divides by zero), load `L > 0` (negative loads by the symmetry, `seegerBeste_exists_unique_root_neg`).

What is NOT claimed: anything about the END POINTS `σ = L/K_p`, `σ = L` (there the code evaluates fall-back values:
`u = 0` gives the middle term `0`, not its limit `1`; `cos(π/2) = 0` gives `ln 1`) and about stresses OUTSIDE the bracket:
uniqueness is uniqueness within `(L/K_p, L)`.  (Outside the bracket further positive roots are not excluded: for
`K_p < 2` the `u`-term reaches `−π/2` at `σ = L/(2 − K_p) > L`, where `ln(1/cos u)` is unbounded again.)  What
`scipy.optimize.newton` returns is not a subject.

Analysis used (`Proofs/Lemmas/NotchSBAnalysis.lean`): with `ℓ(u) = ln(1/cos u)`, `φ(u) = 2ℓ(u)/u²`:
`u²/2 ≤ ℓ(u)` and `2ℓ(u) ≤ u·tan u` on `[0, π/2)` (monotonicity from the sign of the derivative), hence
`1 ≤ φ(u) ≤ 1/cos u` (limit `1` at `0⁺` by squeezing), `φ' = 2/u³·(u tan u − 2ℓ) ≥ 0`, `φ → ∞` at `(π/2)⁻`; and
`_middle_term · _neuber_strain = K_p·e*(L)·H(σ/L)`, `H(f) = φ(u(f))/f + f − 1` strictly decreasing on `(1/K_p, 1)`.
-/
import Proofs.C06
import Proofs.Lemmas.NotchSBAnalysis

namespace PylifeVerif.C06
open PylifeVerif.Notch Filter Topology Set

variable {m : Mat ℝ}

/-! ## 1. the limit of the middle term -/

/-- **`lim_{u→0⁺} 2/u² · ln(1/cos u) = 1`.** -/
theorem seegerBeste_middle_limit :
    Tendsto (fun u : ℝ => 2 / (u * u) * Real.log (1 / Real.cos u)) (𝓝[>] 0) (𝓝 1) :=
  sbPhi_tendsto_one

/-- bounds behind the limit and the monotonicity: on `0 < u < π/2`
`1 ≤ 2/u²·ln(1/cos u) ≤ 1/cos u`, and the function is non-decreasing there. -/
theorem seegerBeste_middle_bounds :
    (∀ u : ℝ, 0 < u → u < Real.pi / 2 →
      1 ≤ 2 / (u * u) * Real.log (1 / Real.cos u) ∧ 2 / (u * u) * Real.log (1 / Real.cos u) ≤ 1 / Real.cos u) ∧
    MonotoneOn (fun u : ℝ => 2 / (u * u) * Real.log (1 / Real.cos u)) (Ioo 0 (Real.pi / 2)) :=
  ⟨fun _ h0 h1 => ⟨one_le_sbPhi h0 h1, sbPhi_le_inv_cos h0 h1⟩, sbPhi_monotoneOn⟩

/-- `2/u² · ln(1/cos u) → +∞` for `u → (π/2)⁻`. -/
theorem seegerBeste_middle_limit_top :
    Tendsto (fun u : ℝ => 2 / (u * u) * Real.log (1 / Real.cos u)) (𝓝[<] (Real.pi / 2)) atTop :=
  sbPhi_tendsto_atTop

/-- the coded `_middle_term(σ, L)` tends to `1` for `σ → L⁻` (its VALUE at `σ = L` is the fall-back `0`). -/
theorem seegerBeste_middleTerm_limit (hKp : 1 < m.Kp) {L : ℝ} (hL : 0 < L) :
    Tendsto (fun s => middleTerm m s L) (𝓝[<] L) (𝓝 1) ∧ middleTerm m L L = 0 := by
  constructor
  · have hr := ratio_tendsto_one_left hL
    have hid : Tendsto (fun s => s / L) (𝓝[<] L) (𝓝 1) := hr.mono_right nhdsWithin_le_nhds
    have hP : Tendsto (fun s => sbPhi (sbU m.Kp (s / L))) (𝓝[<] L) (𝓝 1) :=
      (sbPhi_tendsto_one.comp (sbU_tendsto_zero hKp)).comp hr
    have h1 := (hP.add (hid.mul hid)).sub hid
    have e : (1 : ℝ) + 1 * 1 - 1 = 1 := by norm_num
    rw [e] at h1
    refine h1.congr' ?_
    filter_upwards [Ioo_mem_nhdsLT (bracket_lt hKp hL)] with s hs
    rw [middleTerm_eq_on hKp hL hs.1 hs.2]
  · have hu : uTerm m L L = 0 := by
      rw [uTerm_eq, ratio_of_ne hL.ne', div_self hL.ne']; simp
    rw [middleTerm_eq, hu, ratio_of_ne hL.ne', div_self hL.ne']
    simp

/-! ## the equation as one function -/

/-- on the open bracket `σ` is a root of the coded quotient form iff `G(σ, L) = 0` -/
theorem seegerBeste_root_iff_G (h : m.Adm) (hKp : 1 < m.Kp) {s L : ℝ} (hL : 0 < L)
    (h1 : L / m.Kp < s) (h2 : s < L) :
    sbStressImplicit m s L = 0 ↔ sbG m s L = 0 := by
  rw [(seegerBeste_root_iff_partial h hKp hL h1 h2).2.2.2]
  unfold sbG
  rw [sub_eq_zero]

/-- the coded quotient form on the open bracket: `ε(σ) / (K_p·e*(L)·H(σ/L)) − 1` with a positive denominator -/
theorem seegerBeste_quotient_eq (h : m.Adm) (hKp : 1 < m.Kp) {s L : ℝ} (hL : 0 < L)
    (h1 : L / m.Kp < s) (h2 : s < L) :
    sbStressImplicit m s L = roStrain m s / (m.Kp * eStar m L * sbH m.Kp (s / L)) - 1 ∧
    0 < m.Kp * eStar m L * sbH m.Kp (s / L) := by
  have hr := (ratio_mem_iff hL).mp ⟨h1, h2⟩
  refine ⟨?_, mul_pos (mul_pos h.Kp_pos (eStar_pos h hL)) (sbH_pos hKp hr.1 hr.2)⟩
  unfold sbStressImplicit
  rw [sb_product_eq hKp hL h1 h2, lit1]

/-! ## 2. the bracket -/

/-- **Bracket (one-sided limits).**  `G(σ, L) → −∞` for `σ → (L/K_p)⁺`, `G(σ, L) → ε(L) − K_p·e*(L) > 0` for
`σ → L⁻`; hence there are `σ₁, σ₂` in the open bracket with `G(σ₁) < 0 < G(σ₂)`. -/
theorem seegerBeste_bracket (h : m.Adm) (hKp : 1 < m.Kp) {L : ℝ} (hL : 0 < L) :
    Tendsto (fun s => sbG m s L) (𝓝[>] (L / m.Kp)) atBot ∧
    Tendsto (fun s => sbG m s L) (𝓝[<] L) (𝓝 (roStrain m L - m.Kp * eStar m L)) ∧
    0 < roStrain m L - m.Kp * eStar m L ∧
    ∃ s₁ ∈ Ioo (L / m.Kp) L, ∃ s₂ ∈ Ioo (L / m.Kp) L, sbG m s₁ L < 0 ∧ 0 < sbG m s₂ L := by
  have hpos : 0 < roStrain m L - m.Kp * eStar m L := by
    have := kp_mul_estar_lt h hKp hL
    rw [eStar_eq]; linarith
  have hlo := sbG_tendsto_atBot_stress h hKp hL
  have hhi := sbG_tendsto_stress h hKp hL
  exact ⟨hlo, hhi, hpos,
    (exists_root_Ioo_atBot_left (bracket_lt hKp hL) (sbG_continuousOn_stress h hKp hL) hlo hhi hpos).1⟩

/-- **Bracket of the coded quotient form**: `sbStressImplicit(σ, L) → −1` for `σ → (L/K_p)⁺` and
`→ ε(L)/(K_p·e*(L)) − 1 > 0` for `σ → L⁻` (the values AT the end points are fall-back values and differ). -/
theorem seegerBeste_bracket_quotient (h : m.Adm) (hKp : 1 < m.Kp) {L : ℝ} (hL : 0 < L) :
    Tendsto (fun s => sbStressImplicit m s L) (𝓝[>] (L / m.Kp)) (𝓝 (-1)) ∧
    Tendsto (fun s => sbStressImplicit m s L) (𝓝[<] L) (𝓝 (roStrain m L / (m.Kp * eStar m L) - 1)) ∧
    0 < roStrain m L / (m.Kp * eStar m L) - 1 := by
  have hlo : 0 < L / m.Kp := div_pos hL h.Kp_pos
  have hc : 0 < m.Kp * eStar m L := mul_pos h.Kp_pos (eStar_pos h hL)
  refine ⟨?_, ?_, ?_⟩
  · have hε : Tendsto (roStrain m) (𝓝[>] (L / m.Kp)) (𝓝 (roStrain m (L / m.Kp))) :=
      (roStrain_continuousAt h hlo).tendsto.mono_left nhdsWithin_le_nhds
    have hH : Tendsto (fun s => m.Kp * eStar m L * sbH m.Kp (s / L)) (𝓝[>] (L / m.Kp)) atTop :=
      ((sbH_tendsto_atTop hKp).comp (ratio_tendsto_inv_Kp h hKp hL)).const_mul_atTop hc
    have h1 := (hε.div_atTop hH).sub_const 1
    rw [zero_sub] at h1
    refine h1.congr' ?_
    filter_upwards [Ioo_mem_nhdsGT (bracket_lt hKp hL)] with s hs
    rw [(seegerBeste_quotient_eq h hKp hL hs.1 hs.2).1]
  · have hε : Tendsto (roStrain m) (𝓝[<] L) (𝓝 (roStrain m L)) :=
      (roStrain_continuousAt h hL).tendsto.mono_left nhdsWithin_le_nhds
    have hH : Tendsto (fun s => m.Kp * eStar m L * sbH m.Kp (s / L)) (𝓝[<] L) (𝓝 (m.Kp * eStar m L * 1)) :=
      ((sbH_tendsto_one hKp).comp (ratio_tendsto_one_left hL)).const_mul _
    rw [mul_one] at hH
    have h1 := (hε.div hH hc.ne').sub_const 1
    refine h1.congr' ?_
    filter_upwards [Ioo_mem_nhdsLT (bracket_lt hKp hL)] with s hs
    rw [(seegerBeste_quotient_eq h hKp hL hs.1 hs.2).1]
    rfl
  · have := kp_mul_estar_lt h hKp hL
    rw [← eStar_eq] at this
    rw [sub_pos, lt_div_iff₀ hc]
    linarith

/-! ## 3. existence -/

/-- **A root exists in the open bracket** (continuity of `G(·, L)` on `(L/K_p, L)` + intermediate value theorem). -/
theorem seegerBeste_exists_root (h : m.Adm) (hKp : 1 < m.Kp) {L : ℝ} (hL : 0 < L) :
    ContinuousOn (fun s => sbG m s L) (Ioo (L / m.Kp) L) ∧
    ∃ s, L / m.Kp < s ∧ s < L ∧ sbG m s L = 0 ∧ sbStressImplicit m s L = 0 := by
  have hcont := sbG_continuousOn_stress h hKp hL
  obtain ⟨s, hs, hroot⟩ := (exists_root_Ioo_atBot_left (bracket_lt hKp hL) hcont
    (sbG_tendsto_atBot_stress h hKp hL) (sbG_tendsto_stress h hKp hL) (seegerBeste_bracket h hKp hL).2.2.1).2
  exact ⟨hcont, s, hs.1, hs.2, hroot, (seegerBeste_root_iff_G h hKp hL hs.1 hs.2).mpr hroot⟩

/-! ## 4. strict monotonicity and uniqueness -/

/-- **Strictly increasing in the stress on the open bracket**: `G(·, L)` and the coded quotient form. -/
theorem seegerBeste_strictMono_in_stress (h : m.Adm) (hKp : 1 < m.Kp) {L : ℝ} (hL : 0 < L) :
    StrictMonoOn (fun s => sbG m s L) (Ioo (L / m.Kp) L) ∧
    StrictMonoOn (fun s => sbStressImplicit m s L) (Ioo (L / m.Kp) L) := by
  refine ⟨sbG_strictMonoOn_stress h hKp hL, ?_⟩
  intro a ha b hb hab
  have hlo : 0 < L / m.Kp := div_pos hL h.Kp_pos
  have ha0 : 0 < a := lt_trans hlo ha.1
  have hb0 : 0 < b := lt_trans ha0 hab
  obtain ⟨ea, hPa⟩ := seegerBeste_quotient_eq h hKp hL ha.1 ha.2
  obtain ⟨eb, hPb⟩ := seegerBeste_quotient_eq h hKp hL hb.1 hb.2
  show sbStressImplicit m a L < sbStressImplicit m b L
  rw [ea, eb]
  have he := roStrain_strictMonoOn h (mem_Ici.mpr ha0.le) (mem_Ici.mpr hb0.le) hab
  have hεb := roStrain_pos h hb0
  have hH := sbH_strictAntiOn hKp ((ratio_mem_iff hL).mp ⟨ha.1, ha.2⟩) ((ratio_mem_iff hL).mp ⟨hb.1, hb.2⟩)
    (div_lt_div_of_pos_right hab hL)
  have hc : 0 < m.Kp * eStar m L := mul_pos h.Kp_pos (eStar_pos h hL)
  have hP : m.Kp * eStar m L * sbH m.Kp (b / L) < m.Kp * eStar m L * sbH m.Kp (a / L) :=
    mul_lt_mul_of_pos_left hH hc
  have h1 : roStrain m a / (m.Kp * eStar m L * sbH m.Kp (a / L))
      < roStrain m b / (m.Kp * eStar m L * sbH m.Kp (a / L)) := div_lt_div_of_pos_right he hPa
  have h2 : roStrain m b / (m.Kp * eStar m L * sbH m.Kp (a / L))
      < roStrain m b / (m.Kp * eStar m L * sbH m.Kp (b / L)) := div_lt_div_of_pos_left hεb hPb hP
  linarith

/-- **Existence and uniqueness of the Seeger-Beste root in the open bracket** `(L/K_p, L)`. -/
theorem seegerBeste_exists_unique_root (h : m.Adm) (hKp : 1 < m.Kp) {L : ℝ} (hL : 0 < L) :
    ∃ s, L / m.Kp < s ∧ s < L ∧ sbStressImplicit m s L = 0 ∧
      ∀ s', L / m.Kp < s' → s' < L → sbStressImplicit m s' L = 0 → s' = s := by
  obtain ⟨_, s, hs1, hs2, _, hroot⟩ := seegerBeste_exists_root h hKp hL
  refine ⟨s, hs1, hs2, hroot, fun s' h1 h2 hroot' => ?_⟩
  exact (seegerBeste_strictMono_in_stress h hKp hL).2.injOn ⟨h1, h2⟩ ⟨hs1, hs2⟩ (by simp only [hroot, hroot'])

/-- negative loads by the symmetry: for `L < 0` exactly one root in `(L, L/K_p)` -/
theorem seegerBeste_exists_unique_root_neg (h : m.Adm) (hKp : 1 < m.Kp) {L : ℝ} (hL : L < 0) :
    ∃ s, L < s ∧ s < L / m.Kp ∧ sbStressImplicit m s L = 0 ∧
      ∀ s', L < s' → s' < L / m.Kp → sbStressImplicit m s' L = 0 → s' = s := by
  obtain ⟨s, hs1, hs2, hroot, huniq⟩ := seegerBeste_exists_unique_root h hKp (neg_pos.mpr hL)
  rw [neg_div] at hs1 huniq
  refine ⟨-s, by linarith, by linarith, ?_, fun s' h1 h2 hr => ?_⟩
  · rw [← seegerBeste_root_odd m s (-L)] at hroot
    rwa [neg_neg] at hroot
  · have hr' : sbStressImplicit m (-s') (-L) = 0 := by rw [seegerBeste_root_odd]; exact hr
    have := huniq (-s') (by linarith) (by linarith) hr'
    linarith

/-! ## 5. dependence on the load, and the backward function -/

/-- **The root is strictly increasing in the load** (roots taken in their open brackets). -/
theorem seegerBeste_root_strictMono_in_load (h : m.Adm) (hKp : 1 < m.Kp) {L₁ L₂ s₁ s₂ : ℝ}
    (hL₁ : 0 < L₁) (hL : L₁ < L₂)
    (h11 : L₁ / m.Kp < s₁) (h12 : s₁ < L₁) (h21 : L₂ / m.Kp < s₂) (h22 : s₂ < L₂)
    (hr₁ : sbStressImplicit m s₁ L₁ = 0) (hr₂ : sbStressImplicit m s₂ L₂ = 0) : s₁ < s₂ := by
  have hL₂ : 0 < L₂ := lt_trans hL₁ hL
  have hK0 := h.Kp_pos
  have hs₁ : 0 < s₁ := lt_trans (div_pos hL₁ hK0) h11
  have hs₂ : 0 < s₂ := lt_trans (div_pos hL₂ hK0) h21
  rw [seegerBeste_root_iff_G h hKp hL₁ h11 h12, sbG_eq hKp hL₁ h11 h12, sub_eq_zero] at hr₁
  rw [seegerBeste_root_iff_G h hKp hL₂ h21 h22, sbG_eq hKp hL₂ h21 h22, sub_eq_zero] at hr₂
  by_contra hcon
  have hle : s₂ ≤ s₁ := not_lt.mp hcon
  have hε : roStrain m s₂ ≤ roStrain m s₁ :=
    (roStrain_strictMonoOn h).monotoneOn (mem_Ici.mpr hs₂.le) (mem_Ici.mpr hs₁.le) hle
  have hr1 := (ratio_mem_iff hL₁).mp ⟨h11, h12⟩
  have hr2 := (ratio_mem_iff hL₂).mp ⟨h21, h22⟩
  have hf : s₂ / L₂ < s₁ / L₁ := by
    calc s₂ / L₂ ≤ s₁ / L₂ := div_le_div_of_nonneg_right hle hL₂.le
      _ < s₁ / L₁ := div_lt_div_of_pos_left hs₁ hL₁ hL
  have hH := sbH_strictAntiOn hKp hr2 hr1 hf
  have hH1 := sbH_pos hKp hr1.1 hr1.2
  have he := eStar_strictMonoOn h (mem_Ioi.mpr hL₁) (mem_Ioi.mpr hL₂) hL
  have h1 : m.Kp * eStar m L₁ < m.Kp * eStar m L₂ := mul_lt_mul_of_pos_left he hK0
  have h2 : 0 < m.Kp * eStar m L₁ := mul_pos hK0 (eStar_pos h hL₁)
  have : m.Kp * eStar m L₁ * sbH m.Kp (s₁ / L₁) < m.Kp * eStar m L₂ * sbH m.Kp (s₂ / L₂) :=
    mul_lt_mul'' h1 hH h2.le hH1.le
  linarith

/-- **The backward function is the inverse.**  `_load_implicit(L, σ)` is the same function read in `L`.  For `σ > 0`,
`L ↦ G(σ, L)` is continuous and strictly decreasing on `(σ, K_p·σ)` (which is `L/K_p < σ < L`), tends to
`ε(σ) − K_p·e*(σ) > 0` at `σ⁺` and to `−∞` at `(K_p·σ)⁻`: exactly one load in `(σ, K_p·σ)` has `σ` as its root.  With
`seegerBeste_exists_unique_root`: `load(stress(L)) = L` and `stress(load(σ)) = σ` (roots within the brackets). -/
theorem seegerBeste_load_inverse (h : m.Adm) (hKp : 1 < m.Kp) {s : ℝ} (hs : 0 < s) :
    StrictAntiOn (fun L => sbG m s L) (Ioo s (m.Kp * s)) ∧
    Tendsto (fun L => sbG m s L) (𝓝[>] s) (𝓝 (roStrain m s - m.Kp * eStar m s)) ∧
    0 < roStrain m s - m.Kp * eStar m s ∧
    Tendsto (fun L => sbG m s L) (𝓝[<] (m.Kp * s)) atBot ∧
    (∃ L, s < L ∧ L < m.Kp * s ∧ sbStressImplicit m s L = 0) ∧
    (∀ L L', s < L → L < m.Kp * s → s < L' → L' < m.Kp * s →
      sbStressImplicit m s L = 0 → sbStressImplicit m s L' = 0 → L' = L) := by
  have hpos : 0 < roStrain m s - m.Kp * eStar m s := by
    have := kp_mul_estar_lt h hKp hs
    rw [eStar_eq]; linarith
  have hanti := sbG_strictAntiOn_load h hKp hs
  have hlo := sbG_tendsto_load h hKp hs
  have hhi := sbG_tendsto_atBot_load h hKp hs
  have hiff : ∀ L, s < L → L < m.Kp * s → (sbStressImplicit m s L = 0 ↔ sbG m s L = 0) := fun L h1 h2 => by
    have hb := (load_mem_iff hKp).mp ⟨h1, h2⟩
    exact seegerBeste_root_iff_G h hKp (lt_trans hs h1) hb.1 hb.2
  refine ⟨hanti, hlo, hpos, hhi, ?_, ?_⟩
  · obtain ⟨L, hL, hroot⟩ := (exists_root_Ioo_atBot_right (load_bracket_lt hKp hs)
      (sbG_continuousOn_load h hKp hs) hlo hpos hhi).2
    exact ⟨L, hL.1, hL.2, (hiff L hL.1 hL.2).mpr hroot⟩
  · intro L L' h1 h2 h1' h2' hr hr'
    rw [hiff L h1 h2] at hr
    rw [hiff L' h1' h2'] at hr'
    exact hanti.injOn ⟨h1', h2'⟩ ⟨h1, h2⟩ (by simp only [hr, hr'])

/-! ## secondary branch (Masing doubling) -/

/-- existence and uniqueness of the secondary root in the open bracket `(ΔL/K_p, ΔL)` -/
theorem seegerBeste_secondary_exists_unique_root (h : m.Adm) (hKp : 1 < m.Kp) {dL : ℝ} (hL : 0 < dL) :
    ∃ ds, dL / m.Kp < ds ∧ ds < dL ∧ sbStressSecImplicit m ds dL = 0 ∧
      ∀ ds', dL / m.Kp < ds' → ds' < dL → sbStressSecImplicit m ds' dL = 0 → ds' = ds := by
  obtain ⟨s, hs1, hs2, hroot, huniq⟩ := seegerBeste_exists_unique_root h hKp (by positivity : 0 < dL / 2)
  rw [div_right_comm] at hs1 huniq
  refine ⟨2 * s, by linarith, by linarith, ?_, fun ds' h1 h2 hr => ?_⟩
  · rw [seegerBeste_secondary_masing, mul_div_cancel_left₀ s two_ne_zero]; exact hroot
  · rw [seegerBeste_secondary_masing] at hr
    have := huniq (ds' / 2) (by linarith) (by linarith) hr
    linarith

/-- the secondary root is strictly increasing in the load range -/
theorem seegerBeste_secondary_root_strictMono_in_load (h : m.Adm) (hKp : 1 < m.Kp) {dL₁ dL₂ ds₁ ds₂ : ℝ}
    (hL₁ : 0 < dL₁) (hL : dL₁ < dL₂)
    (h11 : dL₁ / m.Kp < ds₁) (h12 : ds₁ < dL₁) (h21 : dL₂ / m.Kp < ds₂) (h22 : ds₂ < dL₂)
    (hr₁ : sbStressSecImplicit m ds₁ dL₁ = 0) (hr₂ : sbStressSecImplicit m ds₂ dL₂ = 0) : ds₁ < ds₂ := by
  rw [seegerBeste_secondary_masing] at hr₁ hr₂
  have := seegerBeste_root_strictMono_in_load h hKp (by positivity : 0 < dL₁ / 2)
    (by linarith : dL₁ / 2 < dL₂ / 2)
    (by rw [div_right_comm]; linarith) (by linarith) (by rw [div_right_comm]; linarith) (by linarith) hr₁ hr₂
  linarith

/-- the backward secondary function is the inverse: exactly one load range in `(Δσ, K_p·Δσ)` -/
theorem seegerBeste_secondary_load_inverse (h : m.Adm) (hKp : 1 < m.Kp) {ds : ℝ} (hs : 0 < ds) :
    (∃ dL, ds < dL ∧ dL < m.Kp * ds ∧ sbStressSecImplicit m ds dL = 0) ∧
    (∀ dL dL', ds < dL → dL < m.Kp * ds → ds < dL' → dL' < m.Kp * ds →
      sbStressSecImplicit m ds dL = 0 → sbStressSecImplicit m ds dL' = 0 → dL' = dL) := by
  obtain ⟨_, _, _, _, ⟨L, hL1, hL2, hroot⟩, huniq⟩ := seegerBeste_load_inverse h hKp (by positivity : 0 < ds / 2)
  constructor
  · refine ⟨2 * L, by linarith, by linarith, ?_⟩
    rw [seegerBeste_secondary_masing, mul_div_cancel_left₀ L two_ne_zero]; exact hroot
  · intro dL dL' h1 h2 h1' h2' hr hr'
    rw [seegerBeste_secondary_masing] at hr hr'
    have := huniq (dL / 2) (dL' / 2) (by linarith) (by linarith) (by linarith) (by linarith) hr hr'
    linarith

/-! ## non-vacuity -/

example : (⟨206000, 1184, 0.187, 3.5⟩ : Mat ℝ).Adm ∧ (1 : ℝ) < (⟨206000, 1184, 0.187, 3.5⟩ : Mat ℝ).Kp ∧
    (0 : ℝ) < 400 := by
  refine ⟨by constructor <;> norm_num, by norm_num, by norm_num⟩

/-- the theorems instantiated at a concrete material and load -/
example : ∃ s : ℝ, 400 / 3.5 < s ∧ s < 400 ∧
    sbStressImplicit (⟨206000, 1184, 0.187, 3.5⟩ : Mat ℝ) s 400 = 0 := by
  have hA : (⟨206000, 1184, 0.187, 3.5⟩ : Mat ℝ).Adm := by constructor <;> norm_num
  obtain ⟨s, h1, h2, hr, _⟩ := seegerBeste_exists_unique_root hA (by norm_num) (by norm_num : (0 : ℝ) < 400)
  exact ⟨s, h1, h2, hr⟩

end PylifeVerif.C06
