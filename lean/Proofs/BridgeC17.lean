/-
Bridge C17: `mises` as /verif/translate/closedform.py regenerates it from the CURRENT source of
  src/pylife/stress/equistress.py   (Generated/Equistress.lean)
is, over ℝ, the hand-written `Equistress.mises` (`Model/Equistress.lean`) that the theorems of `Proofs/C17.lean` are
about: the square root of the same radicand.  Editing a coefficient of the radicand in the source changes the generated
definition and this proof stops compiling; re-ordering its summands does not.
The current source (/repo df52b6f) first multiplies every component by the python float `1.0` (`np.asarray(x) * 1.0`: promotes
integer / unsigned / bool components to float64, leaves floating ones alone) and writes every square as `np.square`:
the translator renders these as `s * 1.0` and `x * x`; over ℝ the factor `1.0` disappears in the proof below (`bridge`).
(A source that writes `x ** 2` is translated to `Transc.pow x 2.0`, i.e. the real power `x ^ (2:ℝ) = x * x` - that is what
`rpow_two_lit` / `transc_pow` are for; on the current source they are unused simp lemmas and stay for such an edit.)
The eigenvalue based functions (`eigenval`, `tresca`, `principals`, the sign functions) call `np.linalg.eigvalsh` and
mutate arrays: outside the translator's straight-line subset, tied by the correspondence run (K).
-/
import Proofs.Lemmas.Equistress
import Proofs.BridgeTactics
import Mathlib.Analysis.SpecialFunctions.Pow.Real
import Generated.Equistress
import Generated.EquistressStatus

set_option linter.unusedTactic false
set_option linter.unreachableTactic false
set_option linter.unusedVariables false
set_option linter.unnecessarySeqFocus false
set_option linter.unusedSimpArgs false

namespace PylifeVerif.Bridge
open PylifeVerif PylifeVerif.Equistress

theorem rpow_two_lit (x : ℝ) : x ^ (2.0 : ℝ) = x * x := by
  rw [show (2.0 : ℝ) = 2 by norm_num, Real.rpow_two, _root_.sq]

/-- the radicand of the generated `mises` (what the source says now) is the model's radicand -/
theorem mises_eq (v : Voigt ℝ) :
    Generated.mises v.s11 v.s22 v.s33 v.s12 v.s13 v.s23 = Equistress.mises v := by
  (simp only [Generated.mises, Equistress.mises, misesRadicand, Equistress.sq, transc_sqrt, transc_pow,
    rpow_two_lit]) <;> bridge

end PylifeVerif.Bridge
