/-
C05 / C04 - a published literal pins the reading of the FKM-nonlinear HCM procedure.

The FKM guideline's worked example 2.7.1 ("Akademisches Beispiel", table 2.24; also pinned by the repository's own test
`tests/stress/rainflow/test_fkm_nonlinear.py::TestHCMExample1`) lists, for the load sequence
100, -200, 100, -250, 200, 0, 200, -200 (in units of the load factor), seven hystereses:
one half-counted (Memory 3) hysteresis (-100, 100), then the closed ones (-200, 100), (0, 200) in the first pass and
(-200, 100), (-200, 100), (-250, 200), (0, 200) in the second.  Which hystereses close, in which order, in which pass and
with which load limits does not depend on the notch law, so the statement is checked (by kernel evaluation) on the model of
the code with the exact linear stub law - for the model of the code as it is and for the repaired variant.
-/
import Model.HCM
import Model.HCMSpec

namespace PylifeVerif
open HCM
namespace C05

/-- the load sequence of FKM guideline example 2.7.1, one assessment point -/
def example271 : List Vec := [100, -200, 100, -250, 200, 0, 200, -200].map fun x => [x]

/-- (pass, closed?, lower load, upper load) of table 2.24 -/
def table224 : List (Nat × Bool × Vec × Vec) :=
  [(1, false, [-100], [100]), (1, true, [-200], [100]), (1, true, [0], [200]),
   (2, true, [-200], [100]), (2, true, [-200], [100]), (2, true, [-250], [200]), (2, true, [0], [200])]

theorem fkm_guideline_example_2_7_1_code :
    (twoPass lawLinear example271).recs.map (fun h => (h.run, h.closed, h.loadMin, h.loadMax)) = table224 := by
  decide +kernel

theorem fkm_guideline_example_2_7_1 :
    (twoPassR lawLinear example271).recs.map (fun h => (h.run, h.closed, h.loadMin, h.loadMax)) = table224 := by
  decide +kernel

/-- the same with the saturating (non-linear) stub law: the pattern is law-independent -/
example : (twoPass lawSat example271).recs.map (fun h => (h.run, h.closed, h.loadMin, h.loadMax)) = table224 := by
  decide +kernel

end C05
end PylifeVerif
