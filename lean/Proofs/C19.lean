/-
C19 — mesh operators are exact on linear fields and respect mesh connectivity.

Model: `Model/Mesh.lean` (tied to `src/pylife/mesh/{gradient,hotspot,meshmapping,surface}.py` by the
correspondence check of `harness/c19.py`).  Real-number semantics; `np.linalg.inv` = adjugate / determinant,
`np.linalg.lstsq` = normal equations.
-/
import Proofs.Lemmas.Mesh
import Proofs.Lemmas.MeshHotspot
import Proofs.Lemmas.MeshRank
import Proofs.Lemmas.MeshPipeline

namespace PylifeVerif.C19
open PylifeVerif.Mesh

/-! ## `gradient_3D`: shape-function gradients -/

/-- Hexahedron: for `f = g·x + c` on the eight corners and an invertible Jacobian at the reference point `xi`
(the real code skips the point when `np.linalg.inv` raises), `Σₐ fₐ ∂φₐ/∂x_k = g_k`.  Holds at every `xi`, in
particular at the eight corners `hexXi` where the code evaluates it. -/
theorem hex_gradient_exact (h : Hex ℝ) (g : V3 ℝ) (c : ℝ)
    (hlin : ∀ q ∈ h.corners, q.f = g.dot q.p + c)
    (xi : V3 ℝ) (hdet : det3 (hexJ h xi) ≠ 0) :
    hexGradAt h xi = g := by
  have hz : isZero (det3 (hexJ h xi)) = false := (isZero_false_iff _).2 hdet
  simp only [hexGradAt, hz, Bool.false_eq_true, if_false]
  simp only [Hex.corners, List.mem_cons, List.not_mem_nil, or_false, forall_eq_or_imp, forall_eq] at hlin
  obtain ⟨h1, h2, h3, h4, h5, h6, h7, h8⟩ := hlin
  apply gradVec_eq_of_row _ _ _ _ hdet <;>
    simp [Hex.corners, List.range, List.range.loop, hexDphi, hexJ, hexJ1, hexJ2, hexJ3, phi, dphi, hexAx, hexAy, hexAz,
      h1, h2, h3, h4, h5, h6, h7, h8, V3.dot] <;> ring

/-- All eight nodal gradients of a hexahedral element equal `g`. -/
theorem hex_gradient_exact_all (h : Hex ℝ) (g : V3 ℝ) (c : ℝ)
    (hlin : ∀ q ∈ h.corners, q.f = g.dot q.p + c)
    (hdet : ∀ xi ∈ (hexXi : List (V3 ℝ)), det3 (hexJ h xi) ≠ 0) :
    ∀ v ∈ hexGrad h, v = g := by
  intro v hv
  simp only [hexGrad, List.mem_map] at hv
  obtain ⟨xi, hxi, rfl⟩ := hv
  exact hex_gradient_exact h g c hlin xi (hdet xi hxi)

example : hexGradAt (⟨⟨⟨0, 0, 0⟩, 1⟩, ⟨⟨1, 0, 0⟩, 3⟩, ⟨⟨1, 1, 0⟩, 6⟩, ⟨⟨0, 1, 0⟩, 4⟩,
    ⟨⟨0, 0, 1⟩, 0⟩, ⟨⟨1, 0, 1⟩, 2⟩, ⟨⟨1, 1, 1⟩, 5⟩, ⟨⟨0, 1, 1⟩, 3⟩⟩ : Hex ℝ) ⟨1, 0, 1⟩ = ⟨2, 3, -1⟩ := by
  apply hex_gradient_exact _ ⟨2, 3, -1⟩ 1
  · simp [Hex.corners, V3.dot]; norm_num
  · simp [hexJ, hexJ1, hexJ2, hexJ3, det3]

/-- Tetrahedron: for `f = g·x + c` on the four corners and an invertible Jacobian the (constant) element
gradient is `g`. -/
theorem simplex_gradient_exact (t : Tet ℝ) (g : V3 ℝ) (c : ℝ)
    (hlin : ∀ q ∈ t.corners, q.f = g.dot q.p + c)
    (hdet : det3 (tetJ t) ≠ 0) :
    tetGradAt t = g := by
  have hz : isZero (det3 (tetJ t)) = false := (isZero_false_iff _).2 hdet
  simp only [tetGradAt, hz, Bool.false_eq_true, if_false]
  simp only [Tet.corners, List.mem_cons, List.not_mem_nil, or_false, forall_eq_or_imp, forall_eq] at hlin
  obtain ⟨h1, h2, h3, h4⟩ := hlin
  apply gradVec_eq_of_row _ _ _ _ hdet <;>
    simp [Tet.corners, List.range, List.range.loop, tetDphi, tetJ, h1, h2, h3, h4, V3.dot] <;> ring

example : tetGradAt (⟨⟨⟨0, 0, 0⟩, 1⟩, ⟨⟨2, 0, 0⟩, 5⟩, ⟨⟨0, 1, 0⟩, 4⟩, ⟨⟨0, 0, 1⟩, 0⟩⟩ : Tet ℝ) = ⟨2, 3, -1⟩ := by
  apply simplex_gradient_exact _ ⟨2, 3, -1⟩ 1
  · simp [Tet.corners, V3.dot]; norm_num
  · simp [tetJ, det3]

/-! ## `gradient`: least squares -/

/-- Least squares: if the right-hand side is `A g` (differences of a linear field) and `AᵀA` is invertible
(⇔ `A` has full column rank, `lstsq_full_rank`), the solution of the normal equations is `g`:
`(AᵀA)⁻¹ Aᵀ (A g) = g`.  Non-planar branch of the model (some `Δz ≠ 0`). -/
theorem lstsq_exact (A : List (V3 ℝ)) (g : V3 ℝ)
    (hnp : ¬ ∀ a ∈ A, a.z = 0)
    (hdet : det3 (normalMatrix A) ≠ 0) :
    lstsq3 (A.map fun a => (a, a.dot g)) = g := by
  have hall : (A.all fun a => isZero a.z) = false := by
    rw [Bool.eq_false_iff]; intro hc
    apply hnp; intro a ha
    rw [List.all_eq_true] at hc
    exact (isZero_iff _).1 (hc a ha)
  simp only [lstsq3, List.map_map, Function.comp_def, List.map_id', hall, Bool.false_eq_true, if_false]
  rw [normalRhs_linear]
  exact inv3_mulVec_mulVec _ hdet g

/-- Planar mesh (every `Δz = 0`, so `∂f/∂z` is not determined): the minimum-norm solution is `(g_x, g_y, 0)`
when the 2×2 normal matrix is invertible. -/
theorem lstsq_exact_planar (A : List (V3 ℝ)) (g : V3 ℝ)
    (hp : ∀ a ∈ A, a.z = 0)
    (hdet : det2 (normalMatrix A).a11 (normalMatrix A).a12 (normalMatrix A).a21 (normalMatrix A).a22 ≠ 0) :
    lstsq3 (A.map fun a => (a, a.dot g)) = ⟨g.x, g.y, 0⟩ := by
  have hall : (A.all fun a => isZero a.z) = true := by
    rw [List.all_eq_true]; intro a ha; exact (isZero_iff _).2 (hp a ha)
  simp only [lstsq3, List.map_map, Function.comp_def, List.map_id', hall, if_true]
  rw [normalRhs_linear]
  have h13 : (normalMatrix A).a13 = 0 := by
    simp only [normalMatrix, sumMap_eq_sum]
    exact sum_map_eq_zero _ _ (fun a ha => by rw [hp a ha]; ring)
  have h23 : (normalMatrix A).a23 = 0 := by
    simp only [normalMatrix, sumMap_eq_sum]
    exact sum_map_eq_zero _ _ (fun a ha => by rw [hp a ha]; ring)
  have hsym : (normalMatrix A).a21 = (normalMatrix A).a12 := by
    simp only [normalMatrix, sumMap_eq_sum]
    exact sum_map_congr _ _ _ (fun a => mul_comm _ _)
  generalize normalMatrix A = M at *
  simp only [det2] at hdet
  apply V3.eq_of <;> simp only [M3.mulVec, h13, h23, det2, lit_zero]
  · rw [hsym] at hdet ⊢; rw [div_eq_iff hdet]; ring
  · rw [hsym] at hdet ⊢; rw [div_eq_iff hdet]; ring

example : lstsq3 ([⟨1, 0, 0⟩, ⟨0, 1, 0⟩, ⟨0, 0, 1⟩, ⟨1, 1, 1⟩].map fun a => (a, a.dot (⟨2, 3, -1⟩ : V3 ℝ))) = ⟨2, 3, -1⟩ := by
  apply lstsq_exact
  · intro h; have := h ⟨0, 0, 1⟩ (by simp); simp at this
  · simp [normalMatrix, sumMap, det3]; norm_num

example : lstsq3 ([⟨1, 0, 0⟩, ⟨0, 1, 0⟩, ⟨1, 1, 0⟩].map fun a => (a, a.dot (⟨2, 3, 7⟩ : V3 ℝ))) = ⟨2, 3, 0⟩ := by
  apply lstsq_exact_planar
  · intro a ha; simp at ha; rcases ha with rfl | rfl | rfl <;> rfl
  · simp [normalMatrix, sumMap, det2]; norm_num

/-- Full column rank (only the zero vector is orthogonal to every row) makes `AᵀA` invertible. -/
theorem lstsq_full_rank (A : List (V3 ℝ))
    (hrank : ∀ v : V3 ℝ, (∀ a ∈ A, a.dot v = 0) → v = ⟨0, 0, 0⟩) :
    det3 (normalMatrix A) ≠ 0 :=
  det3_normalMatrix_ne_zero A hrank


/-! ## the whole `gradient_3D` pipeline -/

/-- One element group (8 rows: hexahedron, 4 rows: tetrahedron) of a linear field: every row gets `g`. -/
theorem elemGrad_exact (grp : List (MRow ℝ)) (g : V3 ℝ) (c : ℝ)
    (hlin : ∀ r ∈ grp, r.v = g.dot r.p + c)
    (hshape : grp.length = 8 ∨ grp.length = 4)
    (hhex : grp.length = 8 → ∀ xi ∈ (hexXi : List (V3 ℝ)), det3 (hexJ (hexOfGroup grp) xi) ≠ 0)
    (htet : grp.length = 4 → det3 (tetJ (tetOfGroup grp)) ≠ 0) :
    ∀ e ∈ elemGrad grp, e.2 = some g := by
  have hcorner : ∀ i, i < grp.length → (grp.getD i ⟨0, 0, default, 0.0⟩).corner.f
      = g.dot (grp.getD i ⟨0, 0, default, 0.0⟩).corner.p + c := by
    intro i hi
    exact hlin _ (getD_mem grp _ i hi)
  intro e he
  rcases hshape with h8 | h4
  · have hall := hex_gradient_exact_all (hexOfGroup grp) g c (by
      intro q hq
      simp only [hexOfGroup, Hex.corners, List.mem_cons, List.not_mem_nil, or_false] at hq
      rcases hq with rfl | rfl | rfl | rfl | rfl | rfl | rfl | rfl <;> exact hcorner _ (by omega)) (hhex h8)
    simp only [elemGrad, h8] at he
    simp only [BEq.rfl, Bool.true_or, if_true, List.mem_map, List.mem_range] at he
    obtain ⟨i, hi, rfl⟩ := he
    simp only [Option.some.injEq]
    apply hall
    exact getD_mem _ _ i (by simpa [hexGrad, hexXi] using hi)
  · have ht := simplex_gradient_exact (tetOfGroup grp) g c (by
      intro q hq
      simp only [tetOfGroup, Tet.corners, List.mem_cons, List.not_mem_nil, or_false] at hq
      rcases hq with rfl | rfl | rfl | rfl <;> exact hcorner _ (by omega)) (htet h4)
    simp only [elemGrad, h4] at he
    simp only [show ((4 : Nat) == 8) = false from rfl, show ((4 : Nat) == 16) = false from rfl,
      show ((4 : Nat) == 20) = false from rfl, Bool.or_self, Bool.false_eq_true, if_false, BEq.rfl, Bool.true_or,
      if_true, List.mem_map, List.mem_range] at he
    obtain ⟨i, hi, rfl⟩ := he
    simp only [Option.some.injEq]
    have hx : ∀ v ∈ tetGrad (tetOfGroup grp), v = g := by
      intro v hv
      simp only [tetGrad, List.mem_cons, List.not_mem_nil, or_false, or_self] at hv
      rw [hv]; exact ht
    exact hx _ (getD_mem (tetGrad (tetOfGroup grp)) V3.zero i (by simpa [tetGrad] using hi))


/-- **`Gradient3D.gradient_of` is exact on linear fields for every node / element numbering and row order**
(that keeps each element's local node order): if every element has 8 or 4 rows, the field is `g·x + c` on
every row and the Jacobians the code inverts are invertible, every row of the result carries `g`. -/
theorem gradient3D_exact (rows : List (MRow ℝ)) (g : V3 ℝ) (c : ℝ)
    (hlin : ∀ r ∈ rows, r.v = g.dot r.p + c)
    (hshape : ∀ grp ∈ elemGroups rows, grp.length = 8 ∨ grp.length = 4)
    (hhex : ∀ grp ∈ elemGroups rows, grp.length = 8 → ∀ xi ∈ (hexXi : List (V3 ℝ)), det3 (hexJ (hexOfGroup grp) xi) ≠ 0)
    (htet : ∀ grp ∈ elemGroups rows, grp.length = 4 → det3 (tetJ (tetOfGroup grp)) ≠ 0) :
    ∀ e ∈ gradient3D rows, e.2 = some g := by
  intro e he
  have he' := mem_dedupFirst _ _ _ he
  rw [List.mem_flatMap] at he'
  obtain ⟨grp, hgrp, hmem⟩ := he'
  exact elemGrad_exact grp g c (fun r hr => hlin r (mem_elemGroups_sub rows grp hgrp r hr))
    (hshape grp hgrp) (hhex grp hgrp) (htet grp hgrp) e hmem

/-! ## the whole `gradient` (least squares) pipeline -/

/-- **`Gradient.gradient_of` is exact on linear fields for every node numbering** (the model addresses node
rows through the id → position map, the repaired behaviour): if a node has one position in all its rows and
the field is `g·x + c`, the output row of node `id` is `g` whenever that node's least-squares system
`nbrDiffs rows id` (rows `x_j − x_i` over the neighbours) is non-planar with invertible normal matrix. -/
theorem gradientLsq_exact (rows : List (MRow ℝ)) (g : V3 ℝ) (c : ℝ)
    (hcoord : ∀ r ∈ rows, ∀ r' ∈ rows, r.node = r'.node → r.p = r'.p)
    (hlin : ∀ r ∈ rows, r.v = g.dot r.p + c)
    (id : Int) (gr : V3 ℝ) (hmem : (id, gr) ∈ gradientLsq (fun n => (n : ℝ)) rows)
    (hnp : ¬ ∀ a ∈ nbrDiffs rows id, a.z = 0)
    (hdet : det3 (normalMatrix (nbrDiffs rows id)) ≠ 0) :
    gr = g := by
  rw [(gradientLsq_exact_aux rows g c hcoord hlin id gr hmem).2]
  exact lstsq_exact _ g hnp hdet

/-- Planar meshes: `(g_x, g_y, 0)`. -/
theorem gradientLsq_exact_planar (rows : List (MRow ℝ)) (g : V3 ℝ) (c : ℝ)
    (hcoord : ∀ r ∈ rows, ∀ r' ∈ rows, r.node = r'.node → r.p = r'.p)
    (hlin : ∀ r ∈ rows, r.v = g.dot r.p + c)
    (id : Int) (gr : V3 ℝ) (hmem : (id, gr) ∈ gradientLsq (fun n => (n : ℝ)) rows)
    (hp : ∀ a ∈ nbrDiffs rows id, a.z = 0)
    (hdet : det2 (normalMatrix (nbrDiffs rows id)).a11 (normalMatrix (nbrDiffs rows id)).a12
      (normalMatrix (nbrDiffs rows id)).a21 (normalMatrix (nbrDiffs rows id)).a22 ≠ 0) :
    gr = ⟨g.x, g.y, 0⟩ := by
  rw [(gradientLsq_exact_aux rows g c hcoord hlin id gr hmem).2]
  exact lstsq_exact_planar _ g hp hdet

/-- One output row per node id, ascending. -/
theorem gradientLsq_nodes (rows : List (MRow ℝ)) :
    (gradientLsq (fun n => (n : ℝ)) rows).map (·.1) = sortedUnique (rows.map (·.node)) :=
  gradientLsq_ids _ rows

/-- Non-vacuity: one tetrahedron with node ids 7, 20, 3, 11 (not 1..N, not ordered). -/
example : (gradientLsq (fun n => (n : ℝ))
    ([⟨7, 1, ⟨0, 0, 0⟩, 1⟩, ⟨20, 1, ⟨1, 0, 0⟩, 3⟩, ⟨3, 1, ⟨0, 1, 0⟩, 4⟩, ⟨11, 1, ⟨0, 0, 1⟩, 0⟩] : List (MRow ℝ))).map (·.1)
    = [3, 7, 11, 20] := by
  rw [gradientLsq_nodes]; decide

/-! ## mesh mapping: barycentric interpolation inside one simplex -/

/-- `griddata(method='linear')` inside a non-degenerate tetrahedron reproduces `f = g·x + c`. -/
theorem barycentric_reproduces_linear (p0 p1 p2 p3 p g : V3 ℝ) (c : ℝ)
    (hdet : det3 ⟨(p1.sub p0).x, (p2.sub p0).x, (p3.sub p0).x, (p1.sub p0).y, (p2.sub p0).y, (p3.sub p0).y,
      (p1.sub p0).z, (p2.sub p0).z, (p3.sub p0).z⟩ ≠ 0) :
    baryInterp3 p0 p1 p2 p3 (g.dot p0 + c) (g.dot p1 + c) (g.dot p2 + c) (g.dot p3 + c) p = g.dot p + c := by
  set T : M3 ℝ := ⟨(p1.sub p0).x, (p2.sub p0).x, (p3.sub p0).x, (p1.sub p0).y, (p2.sub p0).y, (p3.sub p0).y,
      (p1.sub p0).z, (p2.sub p0).z, (p3.sub p0).z⟩ with hT
  have key := mulVec_inv3_mulVec T hdet (p.sub p0)
  simp only [baryInterp3, baryWeights3, ← hT]
  generalize (inv3 T).mulVec (p.sub p0) = l at key ⊢
  have kx := congrArg V3.x key
  have ky := congrArg V3.y key
  have kz := congrArg V3.z key
  simp only [hT, M3.mulVec, V3.sub] at kx ky kz
  simp only [V3.dot, lit_one]
  linear_combination g.x * kx + g.y * ky + g.z * kz

/-- Triangle (2-D meshes). -/
theorem barycentric_reproduces_linear_2d (x0 y0 x1 y1 x2 y2 px py gx gy c : ℝ)
    (hdet : det2 (x1 - x0) (x2 - x0) (y1 - y0) (y2 - y0) ≠ 0) :
    baryInterp2 x0 y0 x1 y1 x2 y2 (gx * x0 + gy * y0 + c) (gx * x1 + gy * y1 + c) (gx * x2 + gy * y2 + c) px py
      = gx * px + gy * py + c := by
  simp only [baryInterp2, baryWeights2, lit_one]
  generalize hd : det2 (x1 - x0) (x2 - x0) (y1 - y0) (y2 - y0) = d at hdet ⊢
  field_simp
  rw [← hd]; simp only [det2]; ring

/-- Mapping onto the source points returns the source values (any field): at a vertex of a non-degenerate
tetrahedron the interpolated value is that vertex' value. -/
theorem barycentric_at_vertex (p0 p1 p2 p3 : V3 ℝ) (f0 f1 f2 f3 : ℝ)
    (hdet : det3 ⟨(p1.sub p0).x, (p2.sub p0).x, (p3.sub p0).x, (p1.sub p0).y, (p2.sub p0).y, (p3.sub p0).y,
      (p1.sub p0).z, (p2.sub p0).z, (p3.sub p0).z⟩ ≠ 0) :
    baryInterp3 p0 p1 p2 p3 f0 f1 f2 f3 p0 = f0 ∧ baryInterp3 p0 p1 p2 p3 f0 f1 f2 f3 p1 = f1 ∧
    baryInterp3 p0 p1 p2 p3 f0 f1 f2 f3 p2 = f2 ∧ baryInterp3 p0 p1 p2 p3 f0 f1 f2 f3 p3 = f3 := by
  set T : M3 ℝ := ⟨(p1.sub p0).x, (p2.sub p0).x, (p3.sub p0).x, (p1.sub p0).y, (p2.sub p0).y, (p3.sub p0).y,
      (p1.sub p0).z, (p2.sub p0).z, (p3.sub p0).z⟩ with hT
  have e0 : p0.sub p0 = T.mulVec ⟨0, 0, 0⟩ := by apply V3.eq_of <;> simp [hT, M3.mulVec, V3.sub]
  have e1 : p1.sub p0 = T.mulVec ⟨1, 0, 0⟩ := by apply V3.eq_of <;> simp [hT, M3.mulVec, V3.sub]
  have e2 : p2.sub p0 = T.mulVec ⟨0, 1, 0⟩ := by apply V3.eq_of <;> simp [hT, M3.mulVec, V3.sub]
  have e3 : p3.sub p0 = T.mulVec ⟨0, 0, 1⟩ := by apply V3.eq_of <;> simp [hT, M3.mulVec, V3.sub]
  refine ⟨?_, ?_, ?_, ?_⟩ <;> simp only [baryInterp3, baryWeights3, ← hT]
  · rw [e0, inv3_mulVec_mulVec T hdet]; simp
  · rw [e1, inv3_mulVec_mulVec T hdet]; simp
  · rw [e2, inv3_mulVec_mulVec T hdet]; simp
  · rw [e3, inv3_mulVec_mulVec T hdet]; simp

example : baryInterp3 (⟨0, 0, 0⟩ : V3 ℝ) ⟨1, 0, 0⟩ ⟨0, 1, 0⟩ ⟨0, 0, 1⟩ 1 3 4 0 ⟨0.25, 0.25, 0.25⟩ = 2 := by
  have h := barycentric_reproduces_linear (⟨0, 0, 0⟩ : V3 ℝ) ⟨1, 0, 0⟩ ⟨0, 1, 0⟩ ⟨0, 0, 1⟩ ⟨0.25, 0.25, 0.25⟩ ⟨2, 3, -1⟩ 1
    (by simp [V3.sub, det3])
  simp only [V3.dot] at h
  norm_num at h ⊢
  exact h

/-! ## hot spots -/

section HotSpot

variable {α : Type} [LinearOrder α] [Mul α] [Inhabited α]

/-- Label of row `i` (frame order) in the result of `HotSpot.calc`. -/
def label (rows : List (HRow α)) (frac : α) (cap : Option α) (i : Nat) : Nat :=
  (hotspot rows frac cap).getD i 0

/-- Value of row `i`. -/
def value (rows : List (HRow α)) (i : Nat) : α := ((rows.map (·.v)).toArray).getD i default

/-- Rows `i` and `j` carry the same node id or the same element id. -/
def adjacent (rows : List (HRow α)) (i j : Nat) : Bool :=
  rowAdj ((rows.map (·.node)).toArray) ((rows.map (·.elem)).toArray) i j

/-- The maximum the threshold refers to: over all rows, or over the rows below `artefact_threshold`. -/
def IsMax (rows : List (HRow α)) (cap : Option α) (m : α) : Prop :=
  maxOf ((candidates rows.length (value rows) cap).map (value rows)) = some m

/-- One step between adjacent rows that are both at or above the threshold. -/
def Step (rows : List (HRow α)) (thr : α) (i j : Nat) : Prop :=
  HotStep rows.length (adjacent rows) (value rows) thr i j

theorem label_eq (rows : List (HRow α)) (frac : α) (cap : Option α) (i : Nat) :
    label rows frac cap i = labelAt rows.length (adjacent rows) (value rows) frac cap i := rfl

omit [Mul α] in
/-- `m` really is the maximum of the candidate values. -/
theorem isMax_spec (rows : List (HRow α)) (cap : Option α) (m : α) (h : IsMax rows cap m) :
    (∃ i ∈ candidates rows.length (value rows) cap, value rows i = m) ∧
    ∀ i ∈ candidates rows.length (value rows) cap, value rows i ≤ m := by
  obtain ⟨hmem, hle⟩ := maxOf_spec _ _ h
  rw [List.mem_map] at hmem
  exact ⟨hmem, fun i hi => hle _ (List.mem_map_of_mem hi)⟩

/-- One label per row. -/
theorem hotspot_length (rows : List (HRow α)) (frac : α) (cap : Option α) :
    (hotspot rows frac cap).length = rows.length :=
  hotspotCore_length _ _ _ _ _

/-- label ≥ 1 ⇔ value ≥ frac · max. -/
theorem hotspot_label_pos_iff (rows : List (HRow α)) (frac : α) (cap : Option α) (m : α) (hm : IsMax rows cap m)
    (i : Nat) (hi : i < rows.length) :
    1 ≤ label rows frac cap i ↔ frac * m ≤ value rows i :=
  labelAt_pos_iff _ _ _ _ _ m hm i hi

/-- Each label class is closed under adjacency within the thresholded rows: adjacent thresholded rows carry
the same label. -/
theorem hotspot_class_closed (rows : List (HRow α)) (frac : α) (cap : Option α) (m : α) (hm : IsMax rows cap m)
    (i j : Nat) (h : Step rows (frac * m) i j) :
    label rows frac cap i = label rows frac cap j :=
  labelAt_adj _ _ (fun a b => rowAdj_symm _ _ a b) _ _ _ m hm i j h

/-- Each label class is connected: rows with the same positive label are joined by a chain of adjacent
thresholded rows.  Together with `hotspot_class_closed`: the classes are exactly the connected components. -/
theorem hotspot_class_connected (rows : List (HRow α)) (frac : α) (cap : Option α) (m : α) (hm : IsMax rows cap m)
    (i j : Nat) (hi : i < rows.length) (hj : j < rows.length) (hpos : 1 ≤ label rows frac cap i)
    (h : label rows frac cap i = label rows frac cap j) :
    Relation.ReflTransGen (Step rows (frac * m)) i j :=
  labelAt_connected _ _ (fun a b => rowAdj_symm _ _ a b) _ _ _ m hm i j hi hj hpos h

/-- Labels are numbered by descending peak: every class contains a row whose value is at least the value of
every row with the same or a larger label. -/
theorem hotspot_labels_descending_peak (rows : List (HRow α)) (frac : α) (cap : Option α)
    (i : Nat) (hi : i < rows.length) (hpos : 1 ≤ label rows frac cap i) :
    ∃ k, k < rows.length ∧ label rows frac cap k = label rows frac cap i ∧
      ∀ j, j < rows.length → label rows frac cap i ≤ label rows frac cap j → value rows j ≤ value rows k :=
  labelAt_descending_peak _ _ _ _ _ i hi hpos

/-- Labels are used without gaps. -/
theorem hotspot_labels_contiguous (rows : List (HRow α)) (frac : α) (cap : Option α)
    (j : Nat) (hj : j < rows.length) (l : Nat) (hl : 1 ≤ l) (hlj : l ≤ label rows frac cap j) :
    ∃ k, k < rows.length ∧ label rows frac cap k = l :=
  labelAt_contiguous _ _ _ _ _ j hj l hl hlj

/-- Non-vacuity: threshold = max = 5; rows 0 and 4 reach it, they share neither node nor element → two hot
spots, the first row with the peak value gets label 1. -/
example : hotspot ([⟨1, 10, 5⟩, ⟨2, 10, 4⟩, ⟨2, 20, 4⟩, ⟨3, 20, 1⟩, ⟨4, 30, 5⟩, ⟨5, 30, 0⟩] : List (HRow Int)) 1 none
    = [1, 0, 0, 0, 2, 0] := by decide

example : IsMax ([⟨1, 10, 5⟩, ⟨2, 10, 4⟩, ⟨2, 20, 4⟩, ⟨3, 20, 1⟩, ⟨4, 30, 5⟩, ⟨5, 30, 0⟩] : List (HRow Int)) none 5 := by
  unfold IsMax; decide

example : Step ([⟨1, 10, 5⟩, ⟨2, 10, 4⟩, ⟨2, 20, 4⟩, ⟨3, 20, 1⟩] : List (HRow Int)) 4 0 1 := by
  unfold Step HotStep; decide

end HotSpot

/-! ## surface of a hexahedral block -/

/-- PARTIAL.  Full statement of the property: `Surface3D.is_at_surface` flags a node of a (perturbed) hexahedral
block iff it lies on the boundary.  Proved here is the combinatorial half the model carries: a grid node
`(i,j,k)` of an `nx × ny × nz` block is interior iff exactly 8 elements meet there (the model's `surfaceFlags`
flags nodes with fewer than 8 incident elements).  Missing: that the code's sum of maximal solid angles is
`< 4π − 1e-5` exactly at the nodes with fewer than 8 elements — floating-point geometry, decided by the
correspondence check and the oracle on perturbed blocks. -/
theorem surface_block_interior_iff_partial (nx ny nz i j k : Nat) :
    incidentCount nx ny nz i j k = 8 ↔ (0 < i ∧ i < nx) ∧ (0 < j ∧ j < ny) ∧ (0 < k ∧ k < nz) := by
  simp only [incidentCount, axisCount_eq]
  constructor
  · intro h
    have key : ∀ a b : Nat, (if a < b then 1 else 0) + (if 1 ≤ a ∧ a ≤ b then 1 else 0) ≤ 2 ∧
        ((if a < b then 1 else 0) + (if 1 ≤ a ∧ a ≤ b then 1 else 0) = 2 → 0 < a ∧ a < b) := by
      intro a b; split_ifs <;> omega
    obtain ⟨lx, ex⟩ := key i nx
    obtain ⟨ly, ey⟩ := key j ny
    obtain ⟨lz, ez⟩ := key k nz
    generalize (if i < nx then 1 else 0) + (if 1 ≤ i ∧ i ≤ nx then 1 else 0) = x at *
    generalize (if j < ny then 1 else 0) + (if 1 ≤ j ∧ j ≤ ny then 1 else 0) = y at *
    generalize (if k < nz then 1 else 0) + (if 1 ≤ k ∧ k ≤ nz then 1 else 0) = z at *
    have hxyz : x = 2 ∧ y = 2 ∧ z = 2 := by
      interval_cases x <;> interval_cases y <;> interval_cases z <;> omega
    exact ⟨ex hxyz.1, ey hxyz.2.1, ez hxyz.2.2⟩
  · rintro ⟨⟨h1, h2⟩, ⟨h3, h4⟩, ⟨h5, h6⟩⟩
    rw [if_pos h2, if_pos ⟨h1, le_of_lt h2⟩, if_pos h4, if_pos ⟨h3, le_of_lt h4⟩, if_pos h6, if_pos ⟨h5, le_of_lt h6⟩]

example : incidentCount 2 2 2 1 1 1 = 8 ∧ incidentCount 2 2 2 0 1 1 = 4 ∧ incidentCount 3 2 2 3 2 0 = 1 := by decide

end PylifeVerif.C19
