/-
C19 — mesh operators are exact on linear fields and respect mesh connectivity.

Model: `Model/Mesh.lean` (tied to `src/pylife/mesh/{gradient,hotspot,meshmapping,surface}.py` by the
correspondence check of `harness/c19.py`).  Real-number semantics; `np.linalg.inv` = adjugate / determinant,
`np.linalg.lstsq(rcond=None)` = minimum-norm least squares with a relative rank cut-off `rtol` (`lstsq3`).
Only the property theorems live here; the proofs are in `Proofs/Lemmas/Mesh*.lean`.
-/
import Proofs.Lemmas.Mesh
import Proofs.Lemmas.MeshHotspot
import Proofs.Lemmas.MeshRank
import Proofs.Lemmas.MeshPipeline
import Proofs.Lemmas.MeshLstsq
import Proofs.Lemmas.MeshLstsqRank
import Proofs.Lemmas.MeshG3D
import Proofs.Lemmas.MeshMap
import Proofs.Lemmas.MeshSurface

namespace PylifeVerif.C19
open PylifeVerif.Mesh

/-! ## (a) `gradient_3D`: shape-function gradients -/

/-- Hexahedron: for `f = g·x + c` on the eight corners and an invertible Jacobian at the reference point `xi`
(the real code skips the point when `np.linalg.inv` raises), `Σₐ fₐ ∂φₐ/∂x_k = g_k`.  Holds at every `xi`, in
particular at the eight corners `hexXi` where the code evaluates it. -/
theorem hex_gradient_exact (h : Hex ℝ) (g : V3 ℝ) (c : ℝ)
    (hlin : ∀ q ∈ h.corners, q.f = g.dot q.p + c)
    (xi : V3 ℝ) (hdet : det3 (hexJ h xi) ≠ 0) :
    hexGradAt h xi = g :=
  Mesh.hex_gradient_exact h g c hlin xi hdet

/-- All eight nodal gradients of a hexahedral element equal `g`. -/
theorem hex_gradient_exact_all (h : Hex ℝ) (g : V3 ℝ) (c : ℝ)
    (hlin : ∀ q ∈ h.corners, q.f = g.dot q.p + c)
    (hdet : ∀ xi ∈ (hexXi : List (V3 ℝ)), det3 (hexJ h xi) ≠ 0) :
    ∀ v ∈ hexGrad h, v = g :=
  Mesh.hex_gradient_exact_all h g c hlin hdet

example : hexGradAt (⟨⟨⟨0, 0, 0⟩, 1⟩, ⟨⟨1, 0, 0⟩, 3⟩, ⟨⟨1, 1, 0⟩, 6⟩, ⟨⟨0, 1, 0⟩, 4⟩,
    ⟨⟨0, 0, 1⟩, 0⟩, ⟨⟨1, 0, 1⟩, 2⟩, ⟨⟨1, 1, 1⟩, 5⟩, ⟨⟨0, 1, 1⟩, 3⟩⟩ : Hex ℝ) ⟨1, 0, 1⟩ = ⟨2, 3, -1⟩ := by
  apply hex_gradient_exact _ ⟨2, 3, -1⟩ 1
  · simp [Hex.corners, V3.dot]; norm_num
  · simp [hexJ, hexJ1, hexJ2, hexJ3, det3]

/-- Tetrahedron: for `f = g·x + c` on the four corners and an invertible Jacobian the (constant) element
gradient is `g`. -/
theorem simplex_gradient_exact (t : Tet ℝ) (g : V3 ℝ) (c : ℝ)
    (hlin : ∀ q ∈ t.corners, q.f = g.dot q.p + c)
    (hdet : det3 (tetJ t) ≠ 0) :
    tetGradAt t = g :=
  Mesh.simplex_gradient_exact t g c hlin hdet

example : tetGradAt (⟨⟨⟨0, 0, 0⟩, 1⟩, ⟨⟨2, 0, 0⟩, 5⟩, ⟨⟨0, 1, 0⟩, 4⟩, ⟨⟨0, 0, 1⟩, 0⟩⟩ : Tet ℝ) = ⟨2, 3, -1⟩ := by
  apply simplex_gradient_exact _ ⟨2, 3, -1⟩ 1
  · simp [Tet.corners, V3.dot]; norm_num
  · simp [tetJ, det3]

/-- The Jacobians the code inverts are non-singular on a geometrically non-degenerate hexahedron: at each corner
`det J` is the triple product of the three element edges that meet there (so the `hhex` hypotheses below are facts
about the mesh geometry; `Mesh.hhex_of_triples`, `Mesh.tetJ_det`, `Mesh.htet_of_triple`). -/
theorem hexJ_corner_det (h : Hex ℝ) :
    (hexXi : List (V3 ℝ)).map (fun xi => det3 (hexJ h xi)) = hexCornerTriples h :=
  Mesh.hexJ_corner_det_list h

example : hexCornerTriples (⟨⟨⟨0, 0, 0⟩, 1⟩, ⟨⟨1, 0, 0⟩, 3⟩, ⟨⟨1, 1, 0⟩, 6⟩, ⟨⟨0, 1, 0⟩, 4⟩,
    ⟨⟨0, 0, 1⟩, 0⟩, ⟨⟨1, 0, 1⟩, 2⟩, ⟨⟨1, 1, 1⟩, 5⟩, ⟨⟨0, 1, 1⟩, 3⟩⟩ : Hex ℝ) = [1, 1, 1, 1, 1, 1, 1, 1] := by
  simp [hexCornerTriples, triple, V3.dot, V3.cross, V3.sub]

/-! ### the whole `gradient_3D` pipeline -/

/-- PARTIAL (first-order elements).  Full statement of clause (a): on every non-degenerate hexahedral / tetrahedral
mesh the result of `Gradient3D.gradient_of` for `f = g·x + c` is `g` at every node.  Proved here for meshes whose
elements have 8 or 4 rows, for every node / element numbering and every row order of the frame: every row of the
result carries `g`.  An element's local node order is NOT a hypothesis: the rows of an element group, in frame order,
are taken as its local nodes 1 … 8 (1 … 4), as the code does, and `hhex`, `htet` speak about the hexahedron resp.
tetrahedron so formed.  That such a group is the element the mesh means is kept outside the theorem: the harness
generates no fully shuffled rows for `gradient_3D` cases.  On 16/20-node hexahedra and 10-node tetrahedra the full statement is
FALSE for the unchanged code (`gradient3D_midside_zero_witness`; `gradient3D_exact_quadratic` says what holds
instead) - open finding `g3d-midside-zero`. -/
theorem gradient3D_exact_partial (rows : List (MRow ℝ)) (g : V3 ℝ) (c : ℝ)
    (hlin : ∀ r ∈ rows, r.v = g.dot r.p + c)
    (hshape : ∀ grp ∈ elemGroups rows, grp.length = 8 ∨ grp.length = 4)
    (hhex : ∀ grp ∈ elemGroups rows, grp.length = 8 → ∀ xi ∈ (hexXi : List (V3 ℝ)), det3 (hexJ (hexOfGroup grp) xi) ≠ 0)
    (htet : ∀ grp ∈ elemGroups rows, grp.length = 4 → det3 (tetJ (tetOfGroup grp)) ≠ 0) :
    ∀ e ∈ gradient3D rows, e.2 = some g :=
  Mesh.gradient3D_exact rows g c hlin hshape hhex htet

/-- Non-vacuity on a mesh: two distorted hexahedra (element ids 40 and 5) sharing a face, twelve nodes with
non-contiguous unordered ids, rows interleaved; every hypothesis is discharged from the geometry. -/
example : ∀ e ∈ gradient3D mesh2, e.2 = some (⟨2, 3, -1⟩ : V3 ℝ) := mesh2_exact

/-- The result has exactly one row per node id of the mesh (so `gradient3D_exact_partial` is not a statement about
an empty list). -/
theorem gradient3D_nodes (rows : List (MRow ℝ)) :
    ((gradient3D rows).map (·.1)).Nodup ∧
      ∀ id : Int, id ∈ (gradient3D rows).map (·.1) ↔ id ∈ rows.map (·.node) :=
  Mesh.gradient3D_nodes rows

example : ((gradient3D mesh2).map (·.1)).Perm [7, 20, 3, 11, 15, 2, 31, 9, 44, 6, 17, 28] ∧
    (gradient3D mesh2).length = 12 := mesh2_nodes

/-- First- and second-order elements (8/16/20 rows: hexahedra, 4/10 rows: tetrahedra): every result row carries `g`
when the node is a corner in the element that reports it, and exactly `0` when it is a mid-side node there - the
documented behaviour ("the result contains zeros for all following nodes"). -/
theorem gradient3D_exact_quadratic (rows : List (MRow ℝ)) (g : V3 ℝ) (c : ℝ)
    (hlin : ∀ r ∈ rows, r.v = g.dot r.p + c)
    (hshape : ∀ grp ∈ elemGroups rows,
      grp.length = 8 ∨ grp.length = 16 ∨ grp.length = 20 ∨ grp.length = 4 ∨ grp.length = 10)
    (hhex : ∀ grp ∈ elemGroups rows, ncorner grp.length = 8 →
      ∀ xi ∈ (hexXi : List (V3 ℝ)), det3 (hexJ (hexOfGroup grp) xi) ≠ 0)
    (htet : ∀ grp ∈ elemGroups rows, ncorner grp.length = 4 → det3 (tetJ (tetOfGroup grp)) ≠ 0) :
    ∀ e ∈ gradient3D rows, ∃ grp ∈ elemGroups rows, ∃ i, i < grp.length ∧
      (grp.getD i ⟨0, 0, default, 0.0⟩).node = e.1 ∧
      e.2 = some (if i < ncorner grp.length then g else V3.zero) :=
  Mesh.gradient3D_exact_quadratic rows g c hlin hshape hhex htet

/-- Kernel-checked refutation of the full clause (a) on second-order elements: on the 20-node unit cube with
`f = 2x + 3y − z + 1` the mid-side node 9 gets the gradient `0` while corner node 1 gets `(2, 3, −1)`. -/
theorem gradient3D_midside_zero_witness :
    (9, some V3.zero) ∈ gradient3D q20 ∧ (1, some (⟨2, 3, -1⟩ : V3 ℝ)) ∈ gradient3D q20 ∧
      ¬ ∀ e ∈ gradient3D q20, e.2 = some (⟨2, 3, -1⟩ : V3 ℝ) :=
  Mesh.gradient3D_midside_zero_witness

/-! ## (a) `gradient`: least squares -/

/-- Rank 3 above the cut-off: if the right-hand side is `A g` (differences of a linear field), the normal equations
return `g`: `(AᵀA)⁻¹ Aᵀ (A g) = g`.  `h2`, `h3` say that `lstsq3` takes the rank-3 branch. -/
theorem lstsq_exact (rtol : ℝ) (hr : 0 ≤ rtol) (A : List (V3 ℝ)) (g : V3 ℝ)
    (h2 : rtol * ((normalMatrix A).trace * (normalMatrix A).trace) < adjTrace (normalMatrix A))
    (h3 : rtol * (adjTrace (normalMatrix A) * (normalMatrix A).trace) < det3 (normalMatrix A)) :
    lstsq3 rtol (A.map fun a => (a, a.dot g)) = g :=
  lstsq3_rank3 rtol hr A g h2 h3

/-- Full column rank (only the zero vector is orthogonal to every row) makes `AᵀA` invertible … -/
theorem lstsq_full_rank (A : List (V3 ℝ))
    (hrank : ∀ v : V3 ℝ, (∀ a ∈ A, a.dot v = 0) → v = ⟨0, 0, 0⟩) :
    det3 (normalMatrix A) ≠ 0 :=
  det3_normalMatrix_ne_zero A hrank

/-- … and with the cut-off 0 (exact arithmetic) full column rank alone gives exactness. -/
theorem lstsq_exact_full_rank (A : List (V3 ℝ)) (g : V3 ℝ)
    (hrank : ∀ v : V3 ℝ, (∀ a ∈ A, a.dot v = 0) → v = ⟨0, 0, 0⟩) :
    lstsq3 0 (A.map fun a => (a, a.dot g)) = g :=
  lstsq3_full_rank A g hrank

/-- Rows in ONE PLANE of any orientation (all rows orthogonal to `n ≠ 0`; planar / shell meshes): the derivative
normal to the plane is not determined by the data; the minimum-norm solution `np.linalg.lstsq` returns is `g` minus
its normal component. -/
theorem lstsq_min_norm_planar (rtol : ℝ) (hr : 0 ≤ rtol) (A : List (V3 ℝ)) (g n : V3 ℝ)
    (hn : n.dot n ≠ 0) (hplane : ∀ a ∈ A, a.dot n = 0)
    (h2 : rtol * ((normalMatrix A).trace * (normalMatrix A).trace) < adjTrace (normalMatrix A)) :
    lstsq3 rtol (A.map fun a => (a, a.dot g)) =
      ⟨g.x - g.dot n / n.dot n * n.x, g.y - g.dot n / n.dot n * n.y, g.z - g.dot n / n.dot n * n.z⟩ :=
  lstsq3_planar rtol hr A g n hn hplane h2

/-- The mesh in a plane `z = const`: `(g_x, g_y, 0)`. -/
theorem lstsq_exact_planar (rtol : ℝ) (hr : 0 ≤ rtol) (A : List (V3 ℝ)) (g : V3 ℝ)
    (hp : ∀ a ∈ A, a.z = 0)
    (h2 : rtol * ((normalMatrix A).trace * (normalMatrix A).trace) < adjTrace (normalMatrix A)) :
    lstsq3 rtol (A.map fun a => (a, a.dot g)) = ⟨g.x, g.y, 0⟩ := by
  rw [lstsq3_planar rtol hr A g ⟨0, 0, 1⟩ (by simp [V3.dot]) (fun a ha => by simp [V3.dot, hp a ha]) h2]
  apply V3.eq_of <;> simp [V3.dot]

/-- Rows on ONE LINE (direction `d ≠ 0`, not all zero): the component of `g` along the line. -/
theorem lstsq_min_norm_line (rtol : ℝ) (hr : 0 ≤ rtol) (A : List (V3 ℝ)) (g d : V3 ℝ) (hd : d.dot d ≠ 0)
    (hline : ∀ a ∈ A, ∃ s : ℝ, a = ⟨s * d.x, s * d.y, s * d.z⟩) (hne : ∃ a ∈ A, a.dot a ≠ 0) :
    lstsq3 rtol (A.map fun a => (a, a.dot g)) =
      ⟨g.dot d / d.dot d * d.x, g.dot d / d.dot d * d.y, g.dot d / d.dot d * d.z⟩ :=
  lstsq3_line rtol hr A g d hd hline hne

example : lstsq3 (1 / 10 ^ 12) ([⟨1, 0, 0⟩, ⟨0, 1, 0⟩, ⟨0, 0, 1⟩, ⟨1, 1, 1⟩].map fun a => (a, a.dot (⟨2, 3, -1⟩ : V3 ℝ)))
    = ⟨2, 3, -1⟩ := by
  apply lstsq_exact _ (by positivity) <;> simp [normalMatrix, sumMap, det3, adjTrace, M3.trace] <;> norm_num

/-- A TILTED plane (normal `(1, 1, −1)`): the result `(0, 1, 1)` is `g = (2, 3, −1)` minus its normal component `(2, 2, −2)`. -/
example : lstsq3 (1 / 10 ^ 12) ([⟨1, 0, 1⟩, ⟨0, 1, 1⟩, ⟨1, 1, 2⟩].map fun a => (a, a.dot (⟨2, 3, -1⟩ : V3 ℝ))) = ⟨0, 1, 1⟩ := by
  rw [lstsq_min_norm_planar (1 / 10 ^ 12) (by positivity) _ ⟨2, 3, -1⟩ ⟨1, 1, -1⟩ (by norm_num [V3.dot])]
  · apply V3.eq_of <;> norm_num [V3.dot]
  · intro a ha; simp at ha; rcases ha with rfl | rfl | rfl <;> norm_num [V3.dot]
  · simp [normalMatrix, sumMap, adjTrace, M3.trace]; norm_num

example : lstsq3 0 ([⟨1, 0, 0⟩, ⟨0, 1, 0⟩, ⟨1, 1, 0⟩].map fun a => (a, a.dot (⟨2, 3, 7⟩ : V3 ℝ))) = ⟨2, 3, 0⟩ := by
  apply lstsq_exact_planar 0 le_rfl
  · intro a ha; simp at ha; rcases ha with rfl | rfl | rfl <;> rfl
  · simp [normalMatrix, sumMap, adjTrace, M3.trace]; norm_num

example : lstsq3 0 ([⟨1, 2, -1⟩, ⟨-2, -4, 2⟩].map fun a => (a, a.dot (⟨6, 0, 0⟩ : V3 ℝ))) = ⟨1, 2, -1⟩ := by
  rw [lstsq_min_norm_line 0 le_rfl _ ⟨6, 0, 0⟩ ⟨1, 2, -1⟩ (by norm_num [V3.dot])]
  · apply V3.eq_of <;> norm_num [V3.dot]
  · intro a ha; simp at ha; rcases ha with rfl | rfl
    · exact ⟨1, by simp⟩
    · exact ⟨-2, by norm_num⟩
  · exact ⟨⟨1, 2, -1⟩, by simp, by norm_num [V3.dot]⟩

/-! ### the whole `gradient` (least squares) pipeline -/

/-- **`Gradient.gradient_of` is exact on linear fields for every node numbering** (the model addresses node
rows through the id → position map): if a node has one position in all its rows and the field is `g·x + c`, the
output row of node `id` is `g` whenever that node's least-squares system `nbrDiffs rows id` (rows `x_j − x_i` over
the neighbours) has rank 3 above the cut-off. -/
theorem gradientLsq_exact (rtol : ℝ) (hr : 0 ≤ rtol) (rows : List (MRow ℝ)) (g : V3 ℝ) (c : ℝ)
    (hcoord : ∀ r ∈ rows, ∀ r' ∈ rows, r.node = r'.node → r.p = r'.p)
    (hlin : ∀ r ∈ rows, r.v = g.dot r.p + c)
    (id : Int) (gr : V3 ℝ) (hmem : (id, gr) ∈ gradientLsq rtol (fun n => (n : ℝ)) rows)
    (h2 : rtol * ((normalMatrix (nbrDiffs rows id)).trace * (normalMatrix (nbrDiffs rows id)).trace)
      < adjTrace (normalMatrix (nbrDiffs rows id)))
    (h3 : rtol * (adjTrace (normalMatrix (nbrDiffs rows id)) * (normalMatrix (nbrDiffs rows id)).trace)
      < det3 (normalMatrix (nbrDiffs rows id))) :
    gr = g := by
  rw [(gradientLsq_exact_aux rtol rows g c hcoord hlin id gr hmem).2]
  exact lstsq3_rank3 rtol hr _ g h2 h3

/-- Exact arithmetic (cut-off 0): the node's system having full column rank is enough - e.g. because the node is a
corner of a non-degenerate tetrahedron (`Mesh.nbrDiffs_full_rank_of_tet`). -/
theorem gradientLsq_exact_full_rank (rows : List (MRow ℝ)) (g : V3 ℝ) (c : ℝ)
    (hcoord : ∀ r ∈ rows, ∀ r' ∈ rows, r.node = r'.node → r.p = r'.p)
    (hlin : ∀ r ∈ rows, r.v = g.dot r.p + c)
    (id : Int) (gr : V3 ℝ) (hmem : (id, gr) ∈ gradientLsq 0 (fun n => (n : ℝ)) rows)
    (hrank : ∀ v : V3 ℝ, (∀ a ∈ nbrDiffs rows id, a.dot v = 0) → v = ⟨0, 0, 0⟩) :
    gr = g := by
  rw [(gradientLsq_exact_aux 0 rows g c hcoord hlin id gr hmem).2]
  exact lstsq3_full_rank _ g hrank

/-- Planar meshes in ANY plane (every neighbour difference orthogonal to `n ≠ 0`): `g` minus its normal component. -/
theorem gradientLsq_exact_planar (rtol : ℝ) (hr : 0 ≤ rtol) (rows : List (MRow ℝ)) (g n : V3 ℝ) (c : ℝ)
    (hcoord : ∀ r ∈ rows, ∀ r' ∈ rows, r.node = r'.node → r.p = r'.p)
    (hlin : ∀ r ∈ rows, r.v = g.dot r.p + c)
    (id : Int) (gr : V3 ℝ) (hmem : (id, gr) ∈ gradientLsq rtol (fun n => (n : ℝ)) rows)
    (hn : n.dot n ≠ 0) (hp : ∀ a ∈ nbrDiffs rows id, a.dot n = 0)
    (h2 : rtol * ((normalMatrix (nbrDiffs rows id)).trace * (normalMatrix (nbrDiffs rows id)).trace)
      < adjTrace (normalMatrix (nbrDiffs rows id))) :
    gr = ⟨g.x - g.dot n / n.dot n * n.x, g.y - g.dot n / n.dot n * n.y, g.z - g.dot n / n.dot n * n.z⟩ := by
  rw [(gradientLsq_exact_aux rtol rows g c hcoord hlin id gr hmem).2]
  exact lstsq3_planar rtol hr _ g n hn hp h2

/-- One output row per node id, ascending. -/
theorem gradientLsq_nodes (rtol : ℝ) (rows : List (MRow ℝ)) :
    (gradientLsq rtol (fun n => (n : ℝ)) rows).map (·.1) = sortedUnique (rows.map (·.node)) :=
  gradientLsq_ids rtol _ rows

/-- Non-vacuity of the pipeline theorems: one tetrahedron with node ids 7, 20, 3, 11 (not 1..N, not ordered), linear
field `2x + 3y − z + 1`: the result has the four ids in ascending order and every row carries `g`. -/
example : ∀ e ∈ gradientLsq 0 (fun n => (n : ℝ))
    ([⟨7, 1, ⟨0, 0, 0⟩, 1⟩, ⟨20, 1, ⟨1, 0, 0⟩, 3⟩, ⟨3, 1, ⟨0, 1, 0⟩, 4⟩, ⟨11, 1, ⟨0, 0, 1⟩, 0⟩] : List (MRow ℝ)),
    e.1 ∈ [3, 7, 11, 20] ∧ (e.1 = 7 → e.2 = ⟨2, 3, -1⟩) := by
  intro e he
  have hids := gradientLsq_nodes 0 ([⟨7, 1, ⟨0, 0, 0⟩, 1⟩, ⟨20, 1, ⟨1, 0, 0⟩, 3⟩, ⟨3, 1, ⟨0, 1, 0⟩, 4⟩,
    ⟨11, 1, ⟨0, 0, 1⟩, 0⟩] : List (MRow ℝ))
  have hs : sortedUnique (([⟨7, 1, ⟨0, 0, 0⟩, 1⟩, ⟨20, 1, ⟨1, 0, 0⟩, 3⟩, ⟨3, 1, ⟨0, 1, 0⟩, 4⟩,
    ⟨11, 1, ⟨0, 0, 1⟩, 0⟩] : List (MRow ℝ)).map (·.node)) = [3, 7, 11, 20] := by decide
  rw [hs] at hids
  refine ⟨by rw [← hids]; exact List.mem_map_of_mem he, ?_⟩
  intro h7
  obtain ⟨i, gr⟩ := e
  simp only at h7; subst h7
  have hcoord : ∀ r ∈ ([⟨7, 1, ⟨0, 0, 0⟩, 1⟩, ⟨20, 1, ⟨1, 0, 0⟩, 3⟩, ⟨3, 1, ⟨0, 1, 0⟩, 4⟩,
      ⟨11, 1, ⟨0, 0, 1⟩, 0⟩] : List (MRow ℝ)), ∀ r' ∈ ([⟨7, 1, ⟨0, 0, 0⟩, 1⟩, ⟨20, 1, ⟨1, 0, 0⟩, 3⟩, ⟨3, 1, ⟨0, 1, 0⟩, 4⟩,
      ⟨11, 1, ⟨0, 0, 1⟩, 0⟩] : List (MRow ℝ)), r.node = r'.node → r.p = r'.p := by
    intro r hr r' hr' hn
    simp only [List.mem_cons, List.not_mem_nil, or_false] at hr hr'
    rcases hr with rfl | rfl | rfl | rfl <;> rcases hr' with rfl | rfl | rfl | rfl <;>
      first | rfl | exact absurd hn (by decide)
  refine gradientLsq_exact_full_rank _ ⟨2, 3, -1⟩ 1 hcoord ?_ 7 gr he ?_
  · intro r hr
    simp only [List.mem_cons, List.not_mem_nil, or_false] at hr
    rcases hr with rfl | rfl | rfl | rfl <;> norm_num [V3.dot]
  · exact nbrDiffs_full_rank_of_tet _ hcoord ⟨7, 1, ⟨0, 0, 0⟩, 1⟩ ⟨20, 1, ⟨1, 0, 0⟩, 3⟩ ⟨3, 1, ⟨0, 1, 0⟩, 4⟩
      ⟨11, 1, ⟨0, 0, 1⟩, 0⟩ (by simp) (by simp) (by simp) (by simp) rfl rfl rfl (by decide) (by decide) (by decide)
      (by norm_num [triple, V3.dot, V3.cross, V3.sub])

/-! ## (b), (c) mesh mapping: `griddata(method='linear')` -/

/-- Interpolation inside a non-degenerate tetrahedron reproduces `f = g·x + c`. -/
theorem barycentric_reproduces_linear (p0 p1 p2 p3 p g : V3 ℝ) (c : ℝ)
    (hdet : det3 (edgeMatrix p0 p1 p2 p3) ≠ 0) :
    baryInterp3 p0 p1 p2 p3 (g.dot p0 + c) (g.dot p1 + c) (g.dot p2 + c) (g.dot p3 + c) p = g.dot p + c :=
  baryInterp3_linear p0 p1 p2 p3 p g c hdet

/-- Triangle (2-D meshes). -/
theorem barycentric_reproduces_linear_2d (x0 y0 x1 y1 x2 y2 px py gx gy c : ℝ)
    (hdet : det2 (x1 - x0) (x2 - x0) (y1 - y0) (y2 - y0) ≠ 0) :
    baryInterp2 x0 y0 x1 y1 x2 y2 (gx * x0 + gy * y0 + c) (gx * x1 + gy * y1 + c) (gx * x2 + gy * y2 + c) px py
      = gx * px + gy * py + c :=
  baryInterp2_linear x0 y0 x1 y1 x2 y2 px py gx gy c hdet

/-- At a vertex of a non-degenerate tetrahedron the interpolated value is that vertex' value (any nodal values). -/
theorem barycentric_at_vertex (p0 p1 p2 p3 : V3 ℝ) (f0 f1 f2 f3 : ℝ)
    (hdet : det3 (edgeMatrix p0 p1 p2 p3) ≠ 0) :
    baryInterp3 p0 p1 p2 p3 f0 f1 f2 f3 p0 = f0 ∧ baryInterp3 p0 p1 p2 p3 f0 f1 f2 f3 p1 = f1 ∧
    baryInterp3 p0 p1 p2 p3 f0 f1 f2 f3 p2 = f2 ∧ baryInterp3 p0 p1 p2 p3 f0 f1 f2 f3 p3 = f3 :=
  baryInterp3_vertices p0 p1 p2 p3 f0 f1 f2 f3 hdet

/-- … and of a non-degenerate triangle. -/
theorem barycentric_at_vertex_2d (t : Tri ℝ) (hdet : t.det ≠ 0) (q : ℝ × ℝ × ℝ) (hq : q ∈ t.corners) :
    inTri 0 t q.1 q.2.1 = true ∧ triInterp t q.1 q.2.1 = q.2.2 :=
  inTri_vertex 0 le_rfl t hdet q hq

example : baryInterp3 (⟨0, 0, 0⟩ : V3 ℝ) ⟨1, 0, 0⟩ ⟨0, 1, 0⟩ ⟨0, 0, 1⟩ 1 3 4 0 ⟨0.25, 0.25, 0.25⟩ = 2 := by
  have h := barycentric_reproduces_linear (⟨0, 0, 0⟩ : V3 ℝ) ⟨1, 0, 0⟩ ⟨0, 1, 0⟩ ⟨0, 0, 1⟩ ⟨0.25, 0.25, 0.25⟩ ⟨2, 3, -1⟩ 1
    (by simp [edgeMatrix, V3.sub, det3])
  simp only [V3.dot] at h
  norm_num at h ⊢
  exact h

/-! ### the whole mapping on a triangulation (`mapMesh3` / `mapMesh2`: what `Meshmapper.process` computes once Qhull
has delivered the simplices) -/

/-- Clause (c): a point inside some simplex of a triangulation of non-degenerate simplices that carries a linear
field gets the linear value (whichever simplex the point location picks). -/
theorem mapMesh_linear_interior (tol : ℝ) (htol : 0 ≤ tol) (tets : List (Tet ℝ)) (g p : V3 ℝ) (c : ℝ)
    (hnd : ∀ t ∈ tets, t.det ≠ 0) (hlin : ∀ t ∈ tets, ∀ q ∈ t.corners, q.f = g.dot q.p + c)
    (hin : ∃ t ∈ tets, inTet 0 t p = true) :
    mapMesh3 tol tets p = some (g.dot p + c) :=
  mapMesh3_linear_interior tol htol tets g p c hnd hlin hin

/-- Clause (b): mapping onto a source point returns the source value, for ANY nodal field `f`, when the
triangulation is conforming at that point (every simplex that contains it has it as a vertex). -/
theorem mapMesh_same_point (tol : ℝ) (htol : 0 ≤ tol) (tets : List (Tet ℝ)) (f : V3 ℝ → ℝ) (p : V3 ℝ)
    (hnd : ∀ t ∈ tets, t.det ≠ 0) (hval : ∀ t ∈ tets, ∀ q ∈ t.corners, q.f = f q.p)
    (hvert : ∃ t ∈ tets, ∃ q ∈ t.corners, q.p = p)
    (hconf : ∀ t ∈ tets, inTet tol t p = true → ∃ q ∈ t.corners, q.p = p) :
    mapMesh3 tol tets p = some (f p) :=
  mapMesh3_same_point tol htol tets f p hnd hval hvert hconf

/-- NaN exactly for points outside every simplex. -/
theorem mapMesh_outside_iff (tol : ℝ) (tets : List (Tet ℝ)) (p : V3 ℝ) :
    mapMesh3 tol tets p = none ↔ ∀ t ∈ tets, inTet tol t p = false :=
  mapMesh3_eq_none_iff tol tets p

/-- 2-D meshes. -/
theorem mapMesh_linear_interior_2d (tol : ℝ) (htol : 0 ≤ tol) (tris : List (Tri ℝ)) (gx gy c px py : ℝ)
    (hnd : ∀ t ∈ tris, t.det ≠ 0) (hlin : ∀ t ∈ tris, ∀ q ∈ t.corners, q.2.2 = gx * q.1 + gy * q.2.1 + c)
    (hin : ∃ t ∈ tris, inTri 0 t px py = true) :
    mapMesh2 tol tris px py = some (gx * px + gy * py + c) :=
  mapMesh2_linear_interior tol htol tris gx gy c px py hnd hlin hin

theorem mapMesh_same_point_2d (tol : ℝ) (htol : 0 ≤ tol) (tris : List (Tri ℝ)) (f : ℝ → ℝ → ℝ) (px py : ℝ)
    (hnd : ∀ t ∈ tris, t.det ≠ 0) (hval : ∀ t ∈ tris, ∀ q ∈ t.corners, q.2.2 = f q.1 q.2.1)
    (hvert : ∃ t ∈ tris, ∃ q ∈ t.corners, q.1 = px ∧ q.2.1 = py)
    (hconf : ∀ t ∈ tris, inTri tol t px py = true → ∃ q ∈ t.corners, q.1 = px ∧ q.2.1 = py) :
    mapMesh2 tol tris px py = some (f px py) :=
  mapMesh2_same_point tol htol tris f px py hnd hval hvert hconf

theorem mapMesh_outside_iff_2d (tol : ℝ) (tris : List (Tri ℝ)) (px py : ℝ) :
    mapMesh2 tol tris px py = none ↔ ∀ t ∈ tris, inTri tol t px py = false :=
  mapMesh2_eq_none_iff tol tris px py

/-- Non-vacuity: the unit square split into two triangles, `f = 2x + 3y + 1`; the centre of the square lies on the
common edge (in both triangles) and gets `3.5`; the corner `(1, 1)` belongs to the second triangle only. -/
example : mapMesh2 (1 / 10 ^ 9) ([⟨0, 0, 1, 0, 0, 1, 1, 3, 4⟩, ⟨1, 0, 1, 1, 0, 1, 3, 6, 4⟩] : List (Tri ℝ)) (1 / 2) (1 / 2)
    = some (2 * (1 / 2) + 3 * (1 / 2) + 1) := by
  apply mapMesh_linear_interior_2d _ (by positivity)
  · intro t ht; simp at ht; rcases ht with rfl | rfl <;> norm_num [Tri.det, det2]
  · intro t ht q hq; simp at ht
    rcases ht with rfl | rfl <;> simp [Tri.corners] at hq <;> rcases hq with rfl | rfl | rfl <;> norm_num
  · refine ⟨⟨0, 0, 1, 0, 0, 1, 1, 3, 4⟩, by simp, ?_⟩
    norm_num [inTri, baryWeights2, det2]

/-! ## hot spots -/

section HotSpot

variable {α : Type} [LinearOrder α] [Mul α] [Inhabited α]

/-- Label of row `i` (frame order) in the result of `HotSpot.calc`. -/
def label (rows : List (HRow α)) (frac : α) (cap : Option α) (i : Nat) : Nat :=
  (hotspot rows frac cap).getD i 0

/-- Value of row `i`. -/
def value (rows : List (HRow α)) (i : Nat) : α := ((rows.map (·.v)).toArray).getD i default

/-- Rows `i` and `j` carry the same node id or the same element id. -/
def adjacent (rows : List (HRow α)) (i j : Nat) : Bool :=
  rowAdj ((rows.map (·.node)).toArray) ((rows.map (·.elem)).toArray) i j

/-- The maximum the threshold refers to: over all rows, or over the rows below `artefact_threshold`. -/
def IsMax (rows : List (HRow α)) (cap : Option α) (m : α) : Prop :=
  maxOf ((candidates rows.length (value rows) cap).map (value rows)) = some m

/-- One step between adjacent rows that are both at or above the threshold. -/
def Step (rows : List (HRow α)) (thr : α) (i j : Nat) : Prop :=
  HotStep rows.length (adjacent rows) (value rows) thr i j

theorem label_eq (rows : List (HRow α)) (frac : α) (cap : Option α) (i : Nat) :
    label rows frac cap i = labelAt rows.length (adjacent rows) (value rows) frac cap i := rfl

omit [Mul α] in
/-- `m` really is the maximum of the candidate values. -/
theorem isMax_spec (rows : List (HRow α)) (cap : Option α) (m : α) (h : IsMax rows cap m) :
    (∃ i ∈ candidates rows.length (value rows) cap, value rows i = m) ∧
    ∀ i ∈ candidates rows.length (value rows) cap, value rows i ≤ m := by
  obtain ⟨hmem, hle⟩ := maxOf_spec _ _ h
  rw [List.mem_map] at hmem
  exact ⟨hmem, fun i hi => hle _ (List.mem_map_of_mem hi)⟩

/-- One label per row. -/
theorem hotspot_length (rows : List (HRow α)) (frac : α) (cap : Option α) :
    (hotspot rows frac cap).length = rows.length :=
  hotspotCore_length _ _ _ _ _

/-- label ≥ 1 ⇔ value ≥ frac · max. -/
theorem hotspot_label_pos_iff (rows : List (HRow α)) (frac : α) (cap : Option α) (m : α) (hm : IsMax rows cap m)
    (i : Nat) (hi : i < rows.length) :
    1 ≤ label rows frac cap i ↔ frac * m ≤ value rows i :=
  labelAt_pos_iff _ _ _ _ _ m hm i hi

/-- Each label class is closed under adjacency within the thresholded rows: adjacent thresholded rows carry
the same label. -/
theorem hotspot_class_closed (rows : List (HRow α)) (frac : α) (cap : Option α) (m : α) (hm : IsMax rows cap m)
    (i j : Nat) (h : Step rows (frac * m) i j) :
    label rows frac cap i = label rows frac cap j :=
  labelAt_adj _ _ (fun a b => rowAdj_symm _ _ a b) _ _ _ m hm i j h

/-- Each label class is connected: rows with the same positive label are joined by a chain of adjacent
thresholded rows.  Together with `hotspot_class_closed`: the classes are exactly the connected components. -/
theorem hotspot_class_connected (rows : List (HRow α)) (frac : α) (cap : Option α) (m : α) (hm : IsMax rows cap m)
    (i j : Nat) (hi : i < rows.length) (hj : j < rows.length) (hpos : 1 ≤ label rows frac cap i)
    (h : label rows frac cap i = label rows frac cap j) :
    Relation.ReflTransGen (Step rows (frac * m)) i j :=
  labelAt_connected _ _ (fun a b => rowAdj_symm _ _ a b) _ _ _ m hm i j hi hj hpos h

/-- Labels are numbered by descending peak: every class contains a row whose value is at least the value of
every row with the same or a larger label. -/
theorem hotspot_labels_descending_peak (rows : List (HRow α)) (frac : α) (cap : Option α)
    (i : Nat) (hi : i < rows.length) (hpos : 1 ≤ label rows frac cap i) :
    ∃ k, k < rows.length ∧ label rows frac cap k = label rows frac cap i ∧
      ∀ j, j < rows.length → label rows frac cap i ≤ label rows frac cap j → value rows j ≤ value rows k :=
  labelAt_descending_peak _ _ _ _ _ i hi hpos

/-- Labels are used without gaps. -/
theorem hotspot_labels_contiguous (rows : List (HRow α)) (frac : α) (cap : Option α)
    (j : Nat) (hj : j < rows.length) (l : Nat) (hl : 1 ≤ l) (hlj : l ≤ label rows frac cap j) :
    ∃ k, k < rows.length ∧ label rows frac cap k = l :=
  labelAt_contiguous _ _ _ _ _ j hj l hl hlj

/-- Non-vacuity: threshold = max = 5; rows 0 and 4 reach it, they share neither node nor element → two hot
spots, the first row with the peak value gets label 1. -/
example : hotspot ([⟨1, 10, 5⟩, ⟨2, 10, 4⟩, ⟨2, 20, 4⟩, ⟨3, 20, 1⟩, ⟨4, 30, 5⟩, ⟨5, 30, 0⟩] : List (HRow Int)) 1 none
    = [1, 0, 0, 0, 2, 0] := by decide

example : IsMax ([⟨1, 10, 5⟩, ⟨2, 10, 4⟩, ⟨2, 20, 4⟩, ⟨3, 20, 1⟩, ⟨4, 30, 5⟩, ⟨5, 30, 0⟩] : List (HRow Int)) none 5 := by
  unfold IsMax; decide

example : Step ([⟨1, 10, 5⟩, ⟨2, 10, 4⟩, ⟨2, 20, 4⟩, ⟨3, 20, 1⟩] : List (HRow Int)) 4 0 1 := by
  unfold Step HotStep; decide

end HotSpot

/-! ## (d) surface of a hexahedral block -/

/-- PARTIAL.  Full statement of the property: `Surface3D.is_at_surface` flags a node of a (perturbed) hexahedral
block iff it lies on the boundary.  Proved here is the combinatorial half the model carries: a grid node
`(i,j,k)` of an `nx × ny × nz` block is interior iff exactly 8 elements meet there (the model's `surfaceFlags`
flags nodes with fewer than 8 incident elements).  Missing: that the code's sum of maximal solid angles is
`< 4π − 1e-5` exactly at the nodes with fewer than 8 elements — floating-point geometry, decided by the
correspondence check and the oracle on perturbed blocks. -/
theorem surface_block_interior_iff_partial (nx ny nz i j k : Nat) :
    incidentCount nx ny nz i j k = 8 ↔ (0 < i ∧ i < nx) ∧ (0 < j ∧ j < ny) ∧ (0 < k ∧ k < nz) := by
  simp only [incidentCount, axisCount_eq]
  constructor
  · intro h
    have key : ∀ a b : Nat, (if a < b then 1 else 0) + (if 1 ≤ a ∧ a ≤ b then 1 else 0) ≤ 2 ∧
        ((if a < b then 1 else 0) + (if 1 ≤ a ∧ a ≤ b then 1 else 0) = 2 → 0 < a ∧ a < b) := by
      intro a b; split_ifs <;> omega
    obtain ⟨lx, ex⟩ := key i nx
    obtain ⟨ly, ey⟩ := key j ny
    obtain ⟨lz, ez⟩ := key k nz
    generalize (if i < nx then 1 else 0) + (if 1 ≤ i ∧ i ≤ nx then 1 else 0) = x at *
    generalize (if j < ny then 1 else 0) + (if 1 ≤ j ∧ j ≤ ny then 1 else 0) = y at *
    generalize (if k < nz then 1 else 0) + (if 1 ≤ k ∧ k ≤ nz then 1 else 0) = z at *
    have hxyz : x = 2 ∧ y = 2 ∧ z = 2 := by
      interval_cases x <;> interval_cases y <;> interval_cases z <;> omega
    exact ⟨ex hxyz.1, ey hxyz.2.1, ez hxyz.2.2⟩
  · rintro ⟨⟨h1, h2⟩, ⟨h3, h4⟩, ⟨h5, h6⟩⟩
    rw [if_pos h2, if_pos ⟨h1, le_of_lt h2⟩, if_pos h4, if_pos ⟨h3, le_of_lt h4⟩, if_pos h6, if_pos ⟨h5, le_of_lt h6⟩]

example : incidentCount 2 2 2 1 1 1 = 8 ∧ incidentCount 2 2 2 0 1 1 = 4 ∧ incidentCount 3 2 2 3 2 0 = 1 := by decide


/-- The function the driver runs: `surfaceFlags` (a node is flagged iff fewer than 8 distinct element ids occur in its
rows) on the rows of an `nx × ny × nz` hexahedral block under ANY injective node / element numbering and ANY row order
flags the node at grid position `(i, j, k)` iff it is not interior.  PARTIAL in the same sense as above: this is the
model's statement; that the code's solid-angle sum is `< 4π − 1e-5` exactly at those nodes is decided by
correspondence + oracle. -/
theorem surfaceFlags_block_partial (nx ny nz : Nat) (nid eid : Nat → Int)
    (hn : Function.Injective nid) (he : Function.Injective eid)
    (rows : List (Int × Int)) (hperm : rows.Perm (blockRows nx ny nz nid eid))
    (i j k : Nat) (hi : i ≤ nx) (hj : j ≤ ny) (hk : k ≤ nz) (b : Bool)
    (hmem : (nid (gridNode nx ny i j k), b) ∈ surfaceFlags rows) :
    b = true ↔ ¬ ((0 < i ∧ i < nx) ∧ (0 < j ∧ j < ny) ∧ (0 < k ∧ k < nz)) :=
  surfaceFlags_block nx ny nz nid eid hn he rows hperm i j k hi hj hk b hmem

/-- … and every grid node has a row in the result (so the statement above is not about an empty list). -/
theorem surfaceFlags_block_covers (nx ny nz : Nat) (nid eid : Nat → Int)
    (rows : List (Int × Int)) (hperm : rows.Perm (blockRows nx ny nz nid eid))
    (hx : 0 < nx) (hy : 0 < ny) (hz : 0 < nz)
    (i j k : Nat) (hi : i ≤ nx) (hj : j ≤ ny) (hk : k ≤ nz) :
    ∃ b, (nid (gridNode nx ny i j k), b) ∈ surfaceFlags rows :=
  Mesh.surfaceFlags_block_covers nx ny nz nid eid rows hperm hx hy hz i j k hi hj hk

/-- Non-vacuity: the 2×2×2 block with node ids `3n + 7` and descending element ids `100 − e`: 27 rows, exactly the
centre node (grid number 13, id 46) is not flagged. -/
example : (surfaceFlags (blockRows 2 2 2 (fun n => 3 * (n : Int) + 7) (fun e => 100 - (e : Int)))).filter (fun r => !r.2)
    = [(46, false)] := by decide +kernel

end PylifeVerif.C19
