/-
Rainflow slice, audit follow-up:

(C) named corollaries for the audited list (audit items C02-5, C03-4):
    `C02.threePoint_partition_chunked`, `C02.threePoint_index_valid_chunked` (three-point = four-point
    on every chunk list, `ThreePoint.tpRun_eq_fpRun`, + the four-point theorems), and
    `C03.threePoint_affine_index` (`threePoint_neg/affine` say nothing about `ts.head`, i.e. the last
    residual index; here it is, together with the chunk sizes, for every `a ≠ 0`).
    `C03.insert_index_map`, `C03.fourPoint_insert_nonreversal_values`,
    `C03.threePoint_insert_nonreversal_chunked` exist in `Proofs/RainflowCorollaries.lean`; their axioms
    are printed again at the end of this file.

(D) kernel-checked literal instances `C02.literal_*`:
    the PUBLISHED worked example fig. 3.3-30 of E. Haibach, "Betriebsfestigkeit" (the signal, the seven
    closed cycles with their positions, the residual and the from/to matrix of the figure, as transcribed
    in /repo/tests/stress/rainflow/test_fourpoint.py `TestFourPointHaibach`, test_threepoint.py
    `TestThreePointHaibach`, test_compat.py `test_rainflow_haibach_example`) against the four-point model,
    the literal four-point model, the three-point model and the declarative `Spec.fourPoint`;
    and the repository's own literal test vectors (not published): the "lecture" example, and the FKM
    "memory 1 inner" / "memory 1-2-3" signals of test_fkm.py against `fkmRun` and `Spec.hcm`.
-/
import Proofs.RainflowCorollaries
import Proofs.C01Literal

namespace PylifeVerif
open Rainflow

/-! ## (C) -/

namespace C02
open C01 ThreePoint

/-- cycles and residual of the three-point detector partition the turning points, for every chunking -/
theorem threePoint_partition_chunked (s : List Int) (cs : List (List Int)) (hcs : cs.flatten = s)
    (hne : ∀ c ∈ cs, c ≠ []) (h : 2 ≤ s.length) :
    (((tpRun cs).cycles.flatMap fun c => [c.1, c.2]) ++ residualPts (tpRun cs)).Perm
      (Spec.turningPoints s) := by
  rw [tpRun_eq_fpRun]
  exact fourPoint_partition_chunked s cs hcs hne h

/-- every global index reported by the three-point detector (cycle end points, residual points incl.
the last sample) addresses the reported value in the concatenated signal, for every chunking -/
theorem threePoint_index_valid_chunked (cs : List (List Int))
    (hne : ∀ c ∈ cs, c ≠ []) (h0 : cs ≠ []) :
    ∀ p ∈ ((tpRun cs).cycles.flatMap fun c => [c.1, c.2]) ++ residualPts (tpRun cs),
      cs.flatten[p.1]? = some p.2 := by
  rw [tpRun_eq_fpRun]
  exact fourPoint_index_valid_chunked cs hne h0

end C02

namespace C03
open ThreePoint

/-- three-point detector under `x ↦ a x + b`, `a ≠ 0` (negation: `a = -1`, `b = 0`): all of
`C03.fourPoint_affine`, in particular `ts.head` (the last entry of `residual_index`) and the chunk
sizes, which `threePoint_neg` / `threePoint_affine` do not mention. -/
theorem threePoint_affine_index (cs : List (List Int)) (a b : Int) (ha : a ≠ 0) :
    let f := fun x => a * x + b
    let r := tpRun (cs.map (List.map f)); let r0 := tpRun cs
    r.cycles = r0.cycles.map (mapCycle f) ∧ r.stack = r0.stack.map (mapPt f) ∧ r.last = r0.last.map f ∧
      r.ts.head = r0.ts.head ∧ r.chunks = r0.chunks ∧
      r.residualIndex = r0.residualIndex := by
  intro f r r0
  have hr : r = fpRun (cs.map (List.map f)) := tpRun_eq_fpRun _
  have hr0 : r0 = fpRun cs := tpRun_eq_fpRun _
  obtain ⟨h1, h2, h3, h4, h5⟩ := fourPoint_affine cs a b ha
  rw [hr, hr0]
  refine ⟨h1, h2, h3, h4, h5, ?_⟩
  have h2' : (fpRun (cs.map (List.map f))).stack = (fpRun cs).stack.map (mapPt f) := h2
  have h3' : (fpRun (cs.map (List.map f))).last = (fpRun cs).last.map f := h3
  have h4' : (fpRun (cs.map (List.map f))).ts.head = (fpRun cs).ts.head := h4
  simp only [DetState.residualIndex, h2', h3', h4']
  cases (fpRun cs).last <;> simp [mapPt, Function.comp_def]

end C03

/-! Non-vacuity of (C) -/
example := C02.threePoint_partition_chunked [0, 5, 5, 2, 4, 4, 1, 6, 6, 0] [[0, 5, 5, 2], [4, 4, 1, 6], [6, 0]]
  (by decide) (by decide) (by decide)
example := C02.threePoint_index_valid_chunked [[0, 5, 5, 2], [4, 4, 1, 6], [6, 0]] (by decide) (by decide)
example := C03.threePoint_affine_index [[0, 5, 5, 2], [4, 4, 1, 6], [6, 0]] (-3) 7 (by decide)
example : (tpRun [[0, 5, 5, 2], [4, 4, 1, 6], [6, 0]]).residualIndex = [0, 7, 9] := by decide +kernel

/-! ## (D) -/

namespace C02

/-- the signal of fig. 3.3-30 of E. Haibach, "Betriebsfestigkeit" -/
def haibach : List Int := [2, 5, 3, 6, 2, 3, 1, 6, 1, 4, 2, 3, 1, 4, 2, 5, 3, 4, 2]

/-- the seven closed cycles of the figure in order of closing: (index, value) of `from` and `to` -/
def haibachCycles : List Cycle :=
  [((1, 5), (2, 3)), ((4, 2), (5, 3)), ((6, 1), (7, 6)), ((10, 2), (11, 3)), ((8, 1), (9, 4)),
   ((13, 4), (14, 2)), ((16, 3), (17, 4))]

/-- the residual `R` points of the figure -/
def haibachResidual : List Pt := [(0, 2), (3, 6), (12, 1), (15, 5), (18, 2)]

/-- four-point model, one chunk -/
theorem literal_haibach_fourPoint :
    (fpRun [haibach]).cycles = haibachCycles ∧
      (fpRun [haibach]).residuals = [2, 6, 1, 5, 2] ∧
      (fpRun [haibach]).residualIndex = [0, 3, 12, 15, 18] ∧
      residualPts (fpRun [haibach]) = haibachResidual := by decide +kernel

/-- four-point model, cut into chunks at every position at once is covered by chunk independence; here
one literal chunking that cuts inside cycles and at turning points -/
theorem literal_haibach_fourPoint_chunked :
    (fpRun [haibach.take 3, (haibach.drop 3).take 5, (haibach.drop 8).take 1, haibach.drop 9]).cycles =
        haibachCycles ∧
      (fpRun [haibach.take 3, (haibach.drop 3).take 5, (haibach.drop 8).take 1, haibach.drop 9]).residuals =
        [2, 6, 1, 5, 2] := by decide +kernel

/-- literal `process` / `fourpoint_loop` -/
theorem literal_haibach_fourPointLit :
    (fpRunLit [haibach]).cycles = haibachCycles ∧
      (fpRunLit [haibach]).residuals = [2, 6, 1, 5, 2] ∧
      (fpRunLit [haibach]).residualIndexProp = [0, 3, 12, 15, 18] := by decide +kernel

/-- three-point model: the same cycles in the same order -/
theorem literal_haibach_threePoint :
    (tpRun [haibach]).cycles = haibachCycles ∧
      (tpRun [haibach]).residuals = [2, 6, 1, 5, 2] ∧
      (tpRun [haibach]).residualIndex = [0, 3, 12, 15, 18] := by decide +kernel

/-- the declarative four-point rule on the declarative turning points -/
theorem literal_haibach_spec :
    Spec.fourPoint (Spec.turningPoints haibach) = (haibachCycles, haibachResidual) := by decide +kernel

/-- the from/to matrix printed next to the figure: (1→6) 1, (1→4) 1, (2→3) 2, (3→4) 1, (4→2) 1, (5→3) 1 -/
theorem literal_haibach_matrix :
    ((fpRun [haibach]).cycles.map fun c => (c.1.2, c.2.2)).Perm
      [(1, 6), (1, 4), (2, 3), (2, 3), (3, 4), (4, 2), (5, 3)] := by decide +kernel

/-- repository test vector `TestFourPointLecture` / `TestThreePointLecture` (not published) -/
def lecture : List Int := [1, 7, 4, 3, 4, 2, 5, 3, 6, 1, 2]

theorem literal_lecture :
    (fpRun [lecture]).cycles = [((3, 3), (4, 4)), ((6, 5), (7, 3)), ((5, 2), (8, 6))] ∧
      (tpRun [lecture]).cycles = [((3, 3), (4, 4)), ((6, 5), (7, 3)), ((5, 2), (8, 6))] ∧
      (fpRunLit [lecture]).cycles = [((3, 3), (4, 4)), ((6, 5), (7, 3)), ((5, 2), (8, 6))] ∧
      (fpRun [lecture]).residuals = [1, 7, 1, 2] ∧
      (fpRun [lecture]).residualIndex = [0, 1, 9, 10] := by decide +kernel

/-- repository test vector `TestFKMMemory1Inner` (test_fkm.py; not published) -/
def fkmMemory1 : List Int := [0, 100, 0, 80, 20, 60, 40, 100, 0, 80, 20, 60, 40, 45]

theorem literal_fkm_memory1_inner :
    (fkmRun [fkmMemory1]).cycles = [(60, 40), (80, 20), (100, 0)] ∧
      (fkmRun [fkmMemory1]).res.reverse = [100, 0, 80, 20, 60, 40] ∧
      (Spec.hcm ((Spec.reversals fkmMemory1).map (·.2))).cycles = [(60, 40), (80, 20), (100, 0)] ∧
      (Spec.hcm ((Spec.reversals fkmMemory1).map (·.2))).res.reverse = [100, 0, 80, 20, 60, 40] := by
  decide +kernel

/-- repository test vector `TestFKMMemory1_2_3` (test_fkm.py; not published), all values times 10
(the test has the last sample `-1.8`; scaling by a positive factor is exact for every comparison made) -/
def fkmMemory123 : List Int :=
  [0, 10, -10, 10, -20, -10, -20, 20, 0, 20, -20, 10, -10, 10, -20, -10, -20, 20, 0, 20, -20, -18]

theorem literal_fkm_memory_1_2_3 :
    (fkmRun [fkmMemory123]).cycles =
        [(10, -10), (-20, -10), (20, 0), (-20, 20), (10, -10), (-20, 10), (-20, -10), (20, 0), (-20, 20)] ∧
      (fkmRun [fkmMemory123]).res.reverse = [10, -20] ∧
      (Spec.hcm ((Spec.reversals fkmMemory123).map (·.2))).cycles = (fkmRun [fkmMemory123]).cycles ∧
      (Spec.hcm ((Spec.reversals fkmMemory123).map (·.2))).res = (fkmRun [fkmMemory123]).res := by
  decide +kernel

end C02
end PylifeVerif

section AxiomCheck
open PylifeVerif
#print axioms C02.threePoint_partition_chunked
#print axioms C02.threePoint_index_valid_chunked
#print axioms C03.threePoint_affine_index
#print axioms C03.insert_index_map
#print axioms C03.fourPoint_insert_nonreversal_values
#print axioms C03.threePoint_insert_nonreversal_chunked
#print axioms C02.literal_haibach_fourPoint
#print axioms C02.literal_haibach_fourPoint_chunked
#print axioms C02.literal_haibach_fourPointLit
#print axioms C02.literal_haibach_threePoint
#print axioms C02.literal_haibach_spec
#print axioms C02.literal_haibach_matrix
#print axioms C02.literal_lecture
#print axioms C02.literal_fkm_memory1_inner
#print axioms C02.literal_fkm_memory_1_2_3
end AxiomCheck
