/-
Tactics shared by the bridge modules `Proofs/Bridge<Cxx>.lean` (generated definition = hand model, over ℝ).

The bridge proofs are written so that a HARMLESS refactoring of the python source (re-ordered summands / factors,
renamed or additional locals, a literal spelled differently, `a > b` instead of `b < a`) keeps them provable, while a
changed coefficient, comparison or branch makes them fail:
  * definitions are unfolded, `norm_num` brings every literal to one spelling;
  * `split_ifs` splits the branches of BOTH sides together; a branch whose conditions contradict each other is closed by
    `linarith`, every other branch must be an identity of commutative rings (`ring_nf`), possibly under the same
    function symbol (`congr`).
-/
import Proofs.RealNum
import Mathlib.Tactic.NormNum
import Mathlib.Tactic.Ring
import Mathlib.Tactic.Linarith
import Mathlib.Tactic.SplitIfs

namespace PylifeVerif.Bridge

/-- closes one branch of a piecewise definition after `split_ifs`: same expression up to literal spelling and
commutative-ring re-arrangement, or contradictory branch conditions -/
macro "bridge_leaf" : tactic => `(tactic| first
  | rfl
  | (exfalso; linarith)
  | (apply le_antisymm <;> linarith)
  | (norm_num; done)
  | (ring_nf; done)
  | (norm_num; ring_nf; done)
  | (congr 1; ring_nf; done)
  | (congr 2; ring_nf; done)
  | (norm_num; congr 1; ring_nf; done)
  | (norm_num; congr 2; ring_nf; done))

/-- after unfolding: normalise literals, split the branches of both sides together, close every branch -/
macro "bridge" : tactic => `(tactic| ((try norm_num) <;> first | (split_ifs <;> bridge_leaf) | bridge_leaf))

end PylifeVerif.Bridge
